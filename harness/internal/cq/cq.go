// Package cq renders Go values as Gallina terms for case files, and holds the
// shared seeded PRNG helpers of the harness.
package cq

import (
	"encoding/hex"
	"fmt"
	"math/rand"
	"os"
	"strconv"
	"strings"
)

// Bytes renders a byte slice as a Gallina term of type [bytes] (list N),
// using (rep n b) for long uniform runs so that large payloads stay small.
func Bytes(b []byte) string {
	if len(b) == 0 {
		return "[]"
	}
	var parts []string
	i := 0
	var lit []string
	flush := func() {
		if len(lit) > 0 {
			parts = append(parts, "["+strings.Join(lit, ";")+"]")
			lit = nil
		}
	}
	for i < len(b) {
		j := i
		for j < len(b) && b[j] == b[i] {
			j++
		}
		if j-i >= 32 {
			flush()
			parts = append(parts, fmt.Sprintf("(rep %d %d)", j-i, b[i]))
			i = j
			continue
		}
		lit = append(lit, strconv.Itoa(int(b[i])))
		i++
		if len(lit) >= 1000 {
			// very long list literals overflow the parser's stack
			flush()
		}
	}
	flush()
	if len(parts) == 1 {
		return parts[0]
	}
	return "(" + strings.Join(parts, " ++ ") + ")"
}

func OptBytes(b []byte, ok bool) string {
	if !ok {
		return "None"
	}
	return "(Some " + Bytes(b) + ")"
}

func Bool(b bool) string {
	if b {
		return "true"
	}
	return "false"
}

func List(items []string) string {
	return "[" + strings.Join(items, "; ") + "]"
}

// Seed returns VERIF_SEED (default 1).
func Seed() int64 {
	s := os.Getenv("VERIF_SEED")
	if s == "" {
		return 1
	}
	v, err := strconv.ParseInt(s, 10, 64)
	if err != nil {
		return 1
	}
	return v
}

func Rand() *rand.Rand { return rand.New(rand.NewSource(Seed())) }

func Thorough() bool { return os.Getenv("VERIF_TIER") == "thorough" }

// EncodeRuns renders bytes as hex with "(r<count>x<byte>)" for long uniform runs (JSON case files).
func EncodeRuns(b []byte) string {
	var sb strings.Builder
	i := 0
	for i < len(b) {
		j := i
		for j < len(b) && b[j] == b[i] {
			j++
		}
		if j-i >= 64 {
			fmt.Fprintf(&sb, "(r%dx%d)", j-i, b[i])
			i = j
			continue
		}
		sb.WriteString(hex.EncodeToString(b[i : i+1]))
		i++
	}
	return sb.String()
}

// DecodeRuns is the inverse of EncodeRuns.
func DecodeRuns(s string) []byte {
	var out []byte
	for len(s) > 0 {
		if s[0] == '(' {
			end := strings.IndexByte(s, ')')
			var n, b int
			fmt.Sscanf(s[1:end], "r%dx%d", &n, &b)
			for k := 0; k < n; k++ {
				out = append(out, byte(b))
			}
			s = s[end+1:]
			continue
		}
		v, _ := hex.DecodeString(s[:2])
		out = append(out, v[0])
		s = s[2:]
	}
	return out
}
