// Package wm renders protocol messages as Gallina terms of type Model.Wire.msg.
package wm

import (
	"fmt"
	"sort"

	"github.com/jech/storrent/pex"
	"github.com/jech/storrent/protocol"

	"verifharness/internal/cq"
)

// Render returns the Gallina term for m and a coarse class name.
func Render(m protocol.Message) (string, string) {
	n3 := func(name string, a, b, c uint32) string { return fmt.Sprintf("(%s %d %d %d)", name, a, b, c) }
	switch m := m.(type) {
	case protocol.KeepAlive:
		return "KeepAlive", "KeepAlive"
	case protocol.Choke:
		return "Choke", "Choke"
	case protocol.Unchoke:
		return "Unchoke", "Unchoke"
	case protocol.Interested:
		return "Interested", "Interested"
	case protocol.NotInterested:
		return "NotInterested", "NotInterested"
	case protocol.Have:
		return fmt.Sprintf("(Have %d)", m.Index), "Have"
	case protocol.Bitfield:
		return "(Bitfield " + cq.Bytes(m.Bitfield) + ")", "Bitfield"
	case protocol.Request:
		return n3("Request", m.Index, m.Begin, m.Length), "Request"
	case protocol.Cancel:
		return n3("Cancel", m.Index, m.Begin, m.Length), "Cancel"
	case protocol.RejectRequest:
		return n3("RejectRequest", m.Index, m.Begin, m.Length), "RejectRequest"
	case protocol.Piece:
		return fmt.Sprintf("(Piece %d %d %s)", m.Index, m.Begin, cq.Bytes(m.Data)), "Piece"
	case protocol.Port:
		return fmt.Sprintf("(Port %d)", m.Port), "Port"
	case protocol.SuggestPiece:
		return fmt.Sprintf("(SuggestPiece %d)", m.Index), "SuggestPiece"
	case protocol.AllowedFast:
		return fmt.Sprintf("(AllowedFast %d)", m.Index), "AllowedFast"
	case protocol.HaveAll:
		return "HaveAll", "HaveAll"
	case protocol.HaveNone:
		return "HaveNone", "HaveNone"
	case protocol.Extended0:
		var keys []string
		for k := range m.Messages {
			keys = append(keys, k)
		}
		sort.Strings(keys)
		var kv []string
		for _, k := range keys {
			kv = append(kv, fmt.Sprintf("(%s, %d)", cq.Bytes([]byte(k)), m.Messages[k]))
		}
		return fmt.Sprintf("(Extended0 {| e_version := %s; e_port := %d; e_reqq := %d; e_ipv4 := %s; e_ipv6 := %s; e_metadata_size := %d; e_messages := %s; e_upload_only := %s; e_encrypt := %s |})",
			cq.Bytes([]byte(m.Version)), m.Port, m.ReqQ,
			cq.OptBytes(m.IPv4.AsSlice(), m.IPv4.IsValid()),
			cq.OptBytes(m.IPv6.AsSlice(), m.IPv6.IsValid()),
			m.MetadataSize, cq.List(kv), cq.Bool(m.UploadOnly), cq.Bool(m.Encrypt)), "Extended0"
	case protocol.ExtendedPex:
		rp := func(ps []pexPeer) string {
			var l []string
			for _, p := range ps {
				l = append(l, fmt.Sprintf("{| p_ip := %s; p_port := %d; p_flags := %d |}", cq.Bytes(p.ip), p.port, p.flags))
			}
			return cq.List(l)
		}
		return fmt.Sprintf("(ExtendedPex %d %s %s)", m.Subtype, rp(pexPeers(m.Added)), rp(pexPeers(m.Dropped))), "ExtendedPex"
	case protocol.ExtendedMetadata:
		return fmt.Sprintf("(ExtendedMetadata %d %d %d %d %s)", m.Subtype, m.Type, m.Piece, m.TotalSize, cq.Bytes(m.Data)), "ExtendedMetadata"
	case protocol.ExtendedDontHave:
		return fmt.Sprintf("(ExtendedDontHave %d %d)", m.Subtype, m.Index), "ExtendedDontHave"
	case protocol.ExtendedUploadOnly:
		return fmt.Sprintf("(ExtendedUploadOnly %d %s)", m.Subtype, cq.Bool(m.Value)), "ExtendedUploadOnly"
	case protocol.ExtendedUnknown:
		return fmt.Sprintf("(ExtendedUnknown %d)", m.Subtype), "ExtendedUnknown"
	case protocol.Unknown:
		// the type byte is unexported: print via %v ({n})
		var t int
		fmt.Sscanf(fmt.Sprintf("%v", m), "{%d}", &t)
		return fmt.Sprintf("(Unknown %d)", t), "Unknown"
	}
	return fmt.Sprintf("(Unknown 999999 (* %T *))", m), "Other"
}

type pexPeer struct {
	ip    []byte
	port  int
	flags int
}

func pexPeers(ps []pex.Peer) []pexPeer {
	var out []pexPeer
	for _, p := range ps {
		out = append(out, pexPeer{p.Addr.Addr().AsSlice(), int(p.Addr.Port()), int(p.Flags)})
	}
	return out
}

// Peers renders a list of PEX peers as a Gallina list of Model.Wire.peer.
func Peers(ps []pex.Peer) string {
	var l []string
	for _, p := range pexPeers(ps) {
		l = append(l, fmt.Sprintf("{| p_ip := %s; p_port := %d; p_flags := %d |}", cq.Bytes(p.ip), p.port, p.flags))
	}
	return cq.List(l)
}
