module verifharness

go 1.22

require github.com/jech/storrent v0.0.0

require github.com/zeebo/bencode v1.0.0 // indirect

replace github.com/jech/storrent => /repo
