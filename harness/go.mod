module verifharness

go 1.22

require (
	bazil.org/fuse v0.0.0-20230120002735-62a210ff1fd5
	github.com/jech/storrent v0.0.0
)

require (
	github.com/zeebo/bencode v1.0.0 // indirect
	golang.org/x/net v0.28.0 // indirect
	golang.org/x/sys v0.24.0 // indirect
)

replace github.com/jech/storrent => /repo
