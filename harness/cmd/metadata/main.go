// metadata: correspondence harness for C12 (magnet metadata exchange on the torrent
// side: metadataVote, requestMetadata, gotMetadata, MetadataComplete).
package main

import (
	"bytes"
	"context"
	"crypto/sha1"
	"encoding/json"
	"flag"
	"fmt"
	"math/rand"
	"net/netip"
	"os"
	"path/filepath"
	"strings"

	"github.com/jech/storrent/hash"
	"github.com/jech/storrent/peer"
	"github.com/jech/storrent/protocol"
	"github.com/jech/storrent/tor"

	"verifharness/internal/cq"
)

type mstep struct {
	Kind  string `json:"kind"` // vote request block
	Size  uint32 `json:"size,omitempty"`
	Index uint32 `json:"index,omitempty"`
	Data  string `json:"data,omitempty"` // EncodeRuns
	Note  string `json:"note,omitempty"`
	Obs   string `json:"obs,omitempty"`
}

type mcase struct {
	ID      int     `json:"id"`
	Auth    string  `json:"auth"` // the authentic info dictionary (EncodeRuns)
	Valid   bool    `json:"valid"`
	Closing int     `json:"closing"` // index of the first step of the honest closing phase
	Round1  int     `json:"round1"`  // index of the last step of the first honest closing round
	Expect  bool    `json:"expect"`  // the true size leads the vote when the closing phase starts
	Steps   []mstep `json:"steps"`
}

// mkInfo builds an info dictionary of exactly size bytes (when size is large enough).
func mkInfo(r *rand.Rand, size int, valid bool) []byte {
	plen := 16384
	total := 1 + r.Intn(100000)
	np := (total + plen - 1) / plen
	pieces := bytes.Repeat([]byte{byte(r.Intn(256))}, 20*np)
	plenS := "16384"
	if !valid {
		switch r.Intn(3) {
		case 0:
			plenS = "0"
		case 1:
			plenS = "1000"
		case 2:
			pieces = append(pieces, 1)
		}
	}
	mk := func(pad int) []byte {
		s := fmt.Sprintf("d6:lengthi%de4:name4:meta12:piece lengthi%se6:pieces%d:", total, plenS, len(pieces))
		out := append([]byte(s), pieces...)
		out = append(out, []byte(fmt.Sprintf("1:x%d:", pad))...)
		out = append(out, bytes.Repeat([]byte{byte('a' + r.Intn(26))}, pad)...)
		return append(out, 'e')
	}
	base := len(mk(0))
	if size <= base {
		return mk(0)
	}
	// the pad length changes the number of digits: iterate
	pad := size - base
	for i := 0; i < 5; i++ {
		d := len(mk(pad)) - size
		if d == 0 {
			break
		}
		pad -= d
		if pad < 0 {
			pad = 0
		}
	}
	return mk(pad)
}

type live struct {
	t    *tor.Torrent
	p    *peer.Peer
	auth []byte
	log  bytes.Buffer
}

func newLive(auth []byte) *live {
	h := sha1.Sum(auth)
	t, err := tor.New("", hash.Hash(h[:]), "", nil, 0, nil, nil)
	if err != nil {
		panic(err)
	}
	t.VerifInit()
	p := peer.VerifNew("", netip.MustParseAddrPort("10.0.0.1:6881"), protocol.HandshakeResult{Hash: h[:], Id: make([]byte, 20), Extended: true},
		&t.Pieces, nil, nil, t.Event, t.Done)
	close(p.Done)
	l := &live{t: t, p: p, auth: auth}
	t.Log.SetOutput(&l.log)
	return l
}

func (l *live) exec(s *mstep) string {
	verdict := "MVOk"
	var err error
	panicked := false
	func() {
		defer func() {
			if r := recover(); r != nil {
				panicked = true
			}
		}()
		switch s.Kind {
		case "vote":
			err = l.t.VerifHandleEvent(context.Background(), peer.TorPeerExtended{Peer: l.p, MetadataSize: s.Size})
		case "request":
			l.t.VerifRequestMetadata()
		case "block":
			l.log.Reset()
			err = l.t.VerifHandleEvent(context.Background(), peer.TorMetaData{Peer: l.p, Size: s.Size, Index: s.Index, Data: cq.DecodeRuns(s.Data)})
			// gotMetadata's error is logged, not returned
			if strings.Contains(l.log.String(), "Metadata: ") {
				verdict = "MVErr"
			}
		}
	}()
	if panicked {
		verdict = "MVPanic"
	} else if err != nil {
		verdict = "MVErr"
	}
	ilen, have, slots, votes := l.t.VerifMetadataState()
	var hv []string
	have.Range(func(i int) bool {
		hv = append(hv, fmt.Sprint(i))
		return true
	})
	var vs []string
	for _, v := range votes {
		vs = append(vs, fmt.Sprintf("(%d, %d)", v[0], v[1]))
	}
	complete := l.t.InfoComplete()
	infoOK := false
	if complete {
		hh := sha1.Sum(l.t.Info)
		infoOK = bytes.Equal(l.t.Info, l.auth) && bytes.Equal(hh[:], l.t.Hash)
	}
	if complete {
		ilen = 0
	}
	var op string
	guess := ilen
	switch s.Kind {
	case "vote":
		op = fmt.Sprintf("(MVote %d %d)", s.Size, guess)
	case "request":
		op = fmt.Sprintf("(MRequest %d)", guess)
	case "block":
		op = fmt.Sprintf("(MBlock %d %d %s %d)", s.Index, s.Size, cq.Bytes(cq.DecodeRuns(s.Data)), guess)
	}
	s.Obs = fmt.Sprintf("%s complete=%v len=%d have=%d", verdict, complete, ilen, len(hv))
	return fmt.Sprintf("{| ms_op := %s; ms_obs := {| mo_verdict := %s; mo_complete := %s; mo_size := %d; mo_have := %s; mo_slots := %d; mo_votes := %s; mo_info_ok := %s |} |}",
		op, verdict, cq.Bool(complete), ilen, cq.List(hv), slots, cq.List(vs), cq.Bool(infoOK))
}

func block(auth []byte, i int) []byte {
	lo, hi := i*16384, (i+1)*16384
	if hi > len(auth) {
		hi = len(auth)
	}
	if lo > hi {
		lo = hi
	}
	return auth[lo:hi]
}

func genCase(r *rand.Rand, id int) *mcase {
	sizes := []int{16384, 32768, 49152, 16383, 16385, 32767, 32769, 200, 20000, 40000, 49151}
	size := sizes[r.Intn(len(sizes))]
	valid := r.Intn(6) != 0
	auth := mkInfo(r, size, valid)
	c := &mcase{ID: id, Auth: cq.EncodeRuns(auth), Valid: valid}
	n := (len(auth) + 16383) / 16384
	trueSize := uint32(len(auth))
	wrongSizes := []uint32{trueSize + 1, trueSize - 1, 16384, 1, 0, 134217728, 134217729, 1<<32 - 1, trueSize + 16384}
	add := func(s mstep) { c.Steps = append(c.Steps, s) }
	// opening: votes
	for i := 1 + r.Intn(3); i > 0; i-- {
		add(mstep{Kind: "vote", Size: trueSize})
	}
	for i := r.Intn(3); i > 0; i-- {
		add(mstep{Kind: "vote", Size: wrongSizes[r.Intn(len(wrongSizes))], Note: "hostile vote"})
	}
	honest := func(i int) mstep {
		return mstep{Kind: "block", Size: trueSize, Index: uint32(i), Data: cq.EncodeRuns(block(auth, i))}
	}
	hostile := func() mstep {
		s := mstep{Kind: "block", Size: trueSize, Note: "hostile"}
		switch r.Intn(9) {
		case 0:
			s.Index = uint32(n) // one past the end
			s.Data = cq.EncodeRuns(bytes.Repeat([]byte{7}, 16384))
		case 1:
			s.Index = uint32(n)
			s.Data = ""
		case 2:
			s.Index = []uint32{uint32(n) + 1, 8192, 1 << 18, 1<<32 - 1}[r.Intn(4)]
			s.Data = cq.EncodeRuns(bytes.Repeat([]byte{7}, 16384))
		case 3: // garbage at a valid index
			s.Index = uint32(r.Intn(n))
			s.Data = cq.EncodeRuns(bytes.Repeat([]byte{byte(r.Intn(256))}, len(block(auth, int(s.Index)))))
		case 4: // wrong length
			s.Index = uint32(r.Intn(n))
			s.Data = cq.EncodeRuns(bytes.Repeat([]byte{9}, []int{0, 1, 16383, 16385, 100}[r.Intn(5)]))
		case 5: // wrong size field
			s.Index = uint32(r.Intn(n))
			s.Size = wrongSizes[r.Intn(len(wrongSizes))]
			s.Data = cq.EncodeRuns(block(auth, int(s.Index)))
		case 6: // full 16 KiB for the (short) last block
			s.Index = uint32(n - 1)
			d := append([]byte{}, block(auth, n-1)...)
			for len(d) < 16384 {
				d = append(d, 0x55)
			}
			s.Data = cq.EncodeRuns(d)
			s.Note = "padded last block"
		case 7: // size 0 (matches a nil buffer)
			s.Size = 0
			s.Index = uint32(r.Intn(3))
			s.Data = cq.EncodeRuns(bytes.Repeat([]byte{3}, []int{0, 16384}[r.Intn(2)]))
		default:
			s.Index = uint32(r.Intn(n))
			s.Data = cq.EncodeRuns(block(auth, int(s.Index)))
			s.Note = "duplicate honest"
		}
		return s
	}
	rounds := 1 + r.Intn(3)
	for round := 0; round < rounds; round++ {
		perm := r.Perm(n)
		for _, i := range perm {
			if r.Intn(3) == 0 {
				add(hostile())
			}
			if r.Intn(8) != 0 {
				add(honest(i))
			}
			if r.Intn(4) == 0 {
				// right after a block that may have completed (and reset) the buffer
				add(mstep{Kind: "block", Size: 0, Index: uint32(1 + r.Intn(2)), Note: "hostile",
					Data: cq.EncodeRuns(bytes.Repeat([]byte{3}, 16384))})
			}
			if r.Intn(6) == 0 {
				add(mstep{Kind: "request"})
			}
			if r.Intn(10) == 0 {
				add(mstep{Kind: "vote", Size: wrongSizes[r.Intn(len(wrongSizes))], Note: "hostile vote"})
			}
		}
		add(mstep{Kind: "request"})
	}
	// closing phase, after the last corruption: two honest rounds, each preceded by a
	// request (the first may only flush a forged block through the mismatch reset)
	c.Closing = len(c.Steps)
	for round := 0; round < 2; round++ {
		add(mstep{Kind: "request"})
		for _, i := range r.Perm(n) {
			add(honest(i))
		}
		if round == 0 {
			c.Round1 = len(c.Steps) - 1
		}
	}
	return c
}

func runCase(c *mcase) string {
	auth := cq.DecodeRuns(c.Auth)
	l := newLive(auth)
	var steps []string
	for i := range c.Steps {
		if i == c.Closing && c.Closing > 0 {
			_, _, _, votes := l.t.VerifMetadataState()
			var mine, other uint32
			for _, v := range votes {
				if int(v[0]) == len(auth) {
					mine = v[1]
				} else if v[1] > other {
					other = v[1]
				}
			}
			c.Expect = c.Valid && mine > other
			if l.t.InfoComplete() {
				c.Expect = true
			}
		}
		steps = append(steps, l.exec(&c.Steps[i]))
		if strings.HasPrefix(c.Steps[i].Obs, "MVPanic") {
			c.Steps = c.Steps[:i+1]
			break
		}
	}
	return fmt.Sprintf("{| mc_id := %d; mc_auth := %s; mc_authentic_valid := %s; mc_expect_complete := %s; mc_round1 := %d; mc_steps := [\n  %s] |}",
		c.ID, cq.Bytes(auth), cq.Bool(c.Valid), cq.Bool(c.Expect), c.Round1, strings.Join(steps, ";\n  "))
}

func main() {
	fs := flag.NewFlagSet("metadata", flag.ExitOnError)
	fs.String("prop", "C12", "property")
	out := fs.String("out", "", "output directory")
	n := fs.Int("n", 200, "number of histories")
	casef := fs.String("case", "", "case file (replay)")
	fs.Parse(os.Args[2:])
	os.MkdirAll(*out, 0o755)
	var cases []*mcase
	switch os.Args[1] {
	case "gen":
		r := cq.Rand()
		for i := 0; i < *n; i++ {
			cases = append(cases, genCase(r, i))
		}
	case "replay":
		data, err := os.ReadFile(*casef)
		if err != nil {
			fmt.Fprintln(os.Stderr, err)
			os.Exit(2)
		}
		var c mcase
		var wrap struct {
			Case mcase `json:"case"`
		}
		if json.Unmarshal(data, &wrap) == nil && wrap.Case.Auth != "" {
			c = wrap.Case
		} else {
			json.Unmarshal(data, &c)
		}
		c.ID = 0
		cases = []*mcase{&c}
	}
	var terms []string
	kinds := map[string]int{}
	outcomes := map[string]int{}
	distinct := map[string]bool{}
	nsteps := 0
	for _, c := range cases {
		terms = append(terms, runCase(c))
		completed := false
		var sig []string
		for _, s := range c.Steps {
			kinds[s.Kind+"/"+s.Note]++
			nsteps++
			if strings.Contains(s.Obs, "complete=true") {
				completed = true
			}
			sig = append(sig, s.Kind[:1]+s.Note)
		}
		outcomes[fmt.Sprintf("valid=%v completed=%v", c.Valid, completed)]++
		if len(c.Steps) > 3 {
			distinct[fmt.Sprintf("%d/%v", len(cq.DecodeRuns(c.Auth)), sig)] = true
		}
	}
	jf, _ := os.Create(filepath.Join(*out, "cases.jsonl"))
	for _, c := range cases {
		b, _ := json.Marshal(c)
		jf.Write(append(b, '\n'))
	}
	jf.Close()
	nshard := 0
	for i := 0; i < len(terms); i += 10 {
		j := i + 10
		if j > len(terms) {
			j = len(terms)
		}
		var sb strings.Builder
		sb.WriteString("From Storrent Require Import Base.Bytes Base.Bencode Model.Wire Model.Torfile Model.Metadata Check.WireCheck Check.MetadataCheck.\nOpen Scope N_scope.\n")
		sb.WriteString("Definition cases : list mcase := [\n" + strings.Join(terms[i:j], ";\n") + "\n].\n")
		sb.WriteString("Definition BC := Eval vm_compute in bad_corr12 cases.\nDefinition BM := Eval vm_compute in bad_monitor12 cases.\nPrint BC. Print BM.\nDefinition KF := Eval vm_compute in known12 cases.\nPrint KF.\nDefinition BCS := Eval vm_compute in bad_corr12_steps cases.\nPrint BCS.\n")
		os.WriteFile(filepath.Join(*out, fmt.Sprintf("shard%03d.v", nshard)), []byte(sb.String()), 0o644)
		nshard++
	}
	var samples []*mcase
	for i, c := range cases {
		if i%67 == 2 || len(cases) < 3 {
			cc := *c
			cc.Auth = fmt.Sprintf("(%d bytes)", len(cq.DecodeRuns(c.Auth)))
			if len(cc.Steps) > 10 {
				cc.Steps = cc.Steps[:10]
			}
			for k := range cc.Steps {
				if len(cc.Steps[k].Data) > 60 {
					cc.Steps[k].Data = cc.Steps[k].Data[:60] + "..."
				}
			}
			samples = append(samples, &cc)
		}
	}
	meta := map[string]interface{}{
		"evaluations":         len(cases),
		"steps":               nsteps,
		"distinct_nontrivial": len(distinct),
		"rule":                "one evaluation = one history of size votes, periodic requests and metadata blocks (honest, duplicate, forged, misplaced, wrong length/size, one past the end) on a magnet-created tor.Torrent driven through handleEvent; state compared with the model after every step; distinct non-trivial = new (metadata size, sequence of step kinds) with more than 3 steps",
		"step_kinds":          kinds,
		"outcomes":            outcomes,
		"samples":             samples,
		"shards":              nshard,
	}
	b, _ := json.MarshalIndent(meta, "", " ")
	os.WriteFile(filepath.Join(*out, "meta.json"), b, 0o644)
}
