// httpui: correspondence harness for C20 (namespace of the HTTP and FUSE front-ends)
// and C19 (local-only access, escaping of attacker-controlled strings).
package main

import (
	"bytes"
	"context"
	"crypto/sha1"
	"encoding/json"
	"flag"
	"fmt"
	"math/rand"
	"net/http"
	"net/http/httptest"
	"net/url"
	"os"
	"path/filepath"
	"regexp"
	"sort"
	"strings"
	"time"

	bfuse "bazil.org/fuse"
	"bazil.org/fuse/fs"

	"github.com/jech/storrent/config"
	sfuse "github.com/jech/storrent/fuse"
	shttp "github.com/jech/storrent/http"
	"github.com/jech/storrent/path"
	"github.com/jech/storrent/tor"

	"verifharness/internal/cq"
)

type fspec struct {
	Path []string `json:"path"`
	Len  int64    `json:"len"`
	Pad  bool     `json:"pad,omitempty"`
}

type ncase struct {
	ID      int        `json:"id"`
	Name    string     `json:"name"`
	Single  bool       `json:"single"`
	Total   int64      `json:"total"`
	Files   []fspec    `json:"files,omitempty"`
	Lookups [][]string `json:"lookups"`
	Dirs    [][]string `json:"dirs"`
	Obs     string     `json:"obs,omitempty"`
}

func bstr(s string) string { return fmt.Sprintf("%d:%s", len(s), s) }

// metainfo builds a .torrent for the layout.
func metainfo(c *ncase) []byte {
	total := c.Total
	var sb strings.Builder
	sb.WriteString("d4:infod")
	if !c.Single {
		sb.WriteString("5:filesl")
		total = 0
		for _, f := range c.Files {
			sb.WriteString("d")
			if f.Pad {
				sb.WriteString("4:attr1:p")
			}
			fmt.Fprintf(&sb, "6:lengthi%de4:pathl", f.Len)
			for _, comp := range f.Path {
				sb.WriteString(bstr(comp))
			}
			sb.WriteString("ee")
			total += f.Len
		}
		sb.WriteString("e")
	} else {
		fmt.Fprintf(&sb, "6:lengthi%de", total)
	}
	np := (total + 16383) / 16384
	var hashes []byte
	for i := int64(0); i < np; i++ {
		h := sha1.Sum(pieceContent(i, total))
		hashes = append(hashes, h[:]...)
	}
	fmt.Fprintf(&sb, "4:name%s12:piece lengthi16384e6:pieces%d:", bstr(c.Name), 20*np)
	sb.Write(hashes)
	sb.WriteString("ee")
	c.Total = total
	return []byte(sb.String())
}

// pieceContent is the content of piece i of a torrent of the given total length.
func pieceContent(i, total int64) []byte {
	n := int64(16384)
	if (i+1)*16384 > total {
		n = total - i*16384
	}
	b := make([]byte, n)
	for k := range b {
		b[k] = byte((i*16384+int64(k))*7 + 3)
	}
	return b
}

// fill stores and verifies every piece, so that reads never wait for peers.
func fill(t *tor.Torrent, total int64) {
	np := (total + 16383) / 16384
	for i := int64(0); i < np; i++ {
		d := pieceContent(i, total)
		t.Pieces.AddData(uint32(i), 0, d, 0)
		h := sha1.Sum(d)
		t.Pieces.Finalise(uint32(i), h[:])
	}
}

var compPool = []string{"a", "b", "dir", "sub dir", "x.mkv", "é", "a%20b", "q?x=1", "h#frag", "<b>", "quo\"te", "it's", "a&b", "..", ".", "z z", "file.txt", "a+b", "ü.mp3", "semi;colon", "10%"}

func rcomp(r *rand.Rand) string { return compPool[r.Intn(len(compPool))] }

func genCase(r *rand.Rand, id int) *ncase {
	c := &ncase{ID: id, Name: []string{"torrent", "my name", "n<>&\"'", "x%y", "é"}[r.Intn(5)]}
	if r.Intn(5) == 0 {
		c.Single = true
		c.Total = int64(1 + r.Intn(100000))
		c.Lookups = [][]string{{c.Name}, {}, {c.Name, "x"}, {"other"}, {rcomp(r)}}
		c.Dirs = [][]string{{}, {c.Name}}
		return c
	}
	hostile := r.Intn(4) == 0
	n := 1 + r.Intn(7)
	seen := map[string]bool{}
	var dirs [][]string
	for i := 0; i < n; i++ {
		var p []string
		if len(dirs) > 0 && r.Intn(2) == 0 {
			p = append(p, dirs[r.Intn(len(dirs))]...)
		}
		for d := r.Intn(3); d > 0; d-- {
			p = append(p, rcomp(r))
			dirs = append(dirs, append([]string{}, p...))
		}
		p = append(p, rcomp(r))
		key := strings.Join(p, "\x00")
		if !hostile {
			// keep the table sane: distinct paths, none a proper prefix of another
			bad := seen[key]
			for k := range seen {
				if strings.HasPrefix(k, key+"\x00") || strings.HasPrefix(key, k+"\x00") {
					bad = true
				}
			}
			if bad {
				continue
			}
		}
		seen[key] = true
		c.Files = append(c.Files, fspec{Path: p, Len: []int64{0, 1, 16384, 20000, 100}[r.Intn(5)], Pad: r.Intn(8) == 0})
	}
	if len(c.Files) == 0 {
		c.Files = []fspec{{Path: []string{"only"}, Len: 5}}
	}
	// lookups: every file, every proper prefix, and crafted absent paths
	add := func(p []string) { c.Lookups = append(c.Lookups, append([]string{}, p...)) }
	for _, f := range c.Files {
		add(f.Path)
		for k := 1; k < len(f.Path); k++ {
			add(f.Path[:k])
		}
		add(append(append([]string{}, f.Path...), "extra"))
		if len(f.Path) > 1 {
			add(f.Path[1:])
			add([]string{f.Path[len(f.Path)-1]})
		}
		q := append([]string{}, f.Path...)
		q[len(q)-1] = q[len(q)-1] + "x"
		add(q)
	}
	add([]string{rcomp(r)})
	add([]string{c.Name})
	c.Dirs = append(c.Dirs, []string{})
	for _, d := range dirs {
		c.Dirs = append(c.Dirs, d)
	}
	c.Dirs = append(c.Dirs, []string{"nonexistent"})
	return c
}

func renderPath(p []string) string {
	var o []string
	for _, c := range p {
		o = append(o, cq.Bytes([]byte(c)))
	}
	return cq.List(o)
}

func urlOf(hash string, p []string, trailing bool) string {
	var parts []string
	for _, c := range p {
		parts = append(parts, url.PathEscape(c))
	}
	u := "/" + hash + "/" + strings.Join(parts, "/")
	if trailing && len(p) > 0 {
		u += "/"
	}
	return u
}

var linkRe = regexp.MustCompile(`<tr><td><a href="/[0-9a-f]{40}/([^"]*)">`)

func unescapePath(s string) []string {
	var out []string
	for _, c := range strings.Split(s, "/") {
		u, err := url.PathUnescape(c)
		if err != nil {
			u = "?" + c
		}
		out = append(out, u)
	}
	return out
}

func do(mux *http.ServeMux, method, target string) *httptest.ResponseRecorder {
	ctx, cancel := context.WithTimeout(context.Background(), 3*time.Second)
	defer cancel()
	req := httptest.NewRequest(method, "http://localhost:8080"+target, nil).WithContext(ctx)
	rec := httptest.NewRecorder()
	mux.ServeHTTP(rec, req)
	return rec
}

func runCase(c *ncase, mux *http.ServeMux) string {
	var obs []string
	panicked := false
	t, err := tor.ReadTorrent("", bytes.NewReader(metainfo(c)))
	if err != nil {
		c.Obs = "rejected: " + err.Error()
		return ""
	}
	ctx, cancel := context.WithCancel(context.Background())
	defer cancel()
	t, err = tor.AddTorrent(ctx, t)
	if err != nil {
		c.Obs = "not added: " + err.Error()
		return ""
	}
	defer func() {
		kctx, kcancel := context.WithTimeout(context.Background(), 5*time.Second)
		t.Kill(kctx)
		kcancel()
	}()
	hash := t.Hash.String()
	fill(t, c.Total)
	func() {
		defer func() {
			if r := recover(); r != nil {
				panicked = true
			}
		}()
		// HTTP: files
		for _, p := range c.Lookups {
			off, length, err := shttp.VerifFileParms(t, path.Path(p))
			parms := "None"
			if err == nil {
				parms = fmt.Sprintf("(Some ((%d)%%Z, (%d)%%Z))", off, length)
			}
			status, clen := 0, int64(-1)
			if len(p) > 0 {
				rec := do(mux, "HEAD", urlOf(hash, p, false))
				status = rec.Code
				fmt.Sscan(rec.Header().Get("Content-Length"), &clen)
				if status != 200 {
					clen = -1
					if status == 301 || status == 307 || status == 308 {
						// the mux cleaned the path ("." / ".." components): follow once
						loc := rec.Header().Get("Location")
						status = 1000 + status
						_ = loc
					}
				}
			}
			if status >= 1000 || status == 0 {
				continue // path altered by net/http's cleaning: outside the model
			}
			if status != 200 {
				clen = 0
			}
			if status == 200 && err != nil {
				clen = -2
			}
			if err != nil && status == 404 {
				clen = 0
			}
			obs = append(obs, fmt.Sprintf("NFile %s %s %d (%d)%%Z", renderPath(p), parms, status, clen))
		}
		// HTTP: listings and playlists
		for _, d := range c.Dirs {
			target := urlOf(hash, d, true)
			rec := do(mux, "GET", target)
			if rec.Code == 301 || rec.Code == 307 || rec.Code == 308 {
				continue
			}
			var links []string
			for _, m := range linkRe.FindAllStringSubmatch(rec.Body.String(), -1) {
				if strings.HasSuffix(m[1], "/") {
					continue // directory rows
				}
				links = append(links, renderPath(unescapePath(m[1])))
			}
			obs = append(obs, fmt.Sprintf("NListing %s %d %s", renderPath(d), rec.Code, cq.List(links)))
			rec = do(mux, "GET", target+"?playlist")
			var ents []string
			for _, line := range strings.Split(rec.Body.String(), "\n") {
				if strings.HasPrefix(line, "http://") {
					i := strings.Index(line, hash+"/")
					ents = append(ents, renderPath(unescapePath(line[i+41:])))
				}
			}
			if rec.Code != 200 {
				ents = nil
			}
			obs = append(obs, fmt.Sprintf("NPlaylist %s %d %s", renderPath(d), rec.Code, cq.List(ents)))
		}
		// FUSE
		root := sfuse.VerifRoot()
		top, err := root.(fs.NodeStringLookuper).Lookup(context.Background(), c.Name)
		if err != nil {
			obs = append(obs, "NWalk [] 0 0%Z")
			return
		}
		walkTo := func(p []string) (fs.Node, bool) {
			node := top
			for _, comp := range p {
				l, ok := node.(fs.NodeStringLookuper)
				if !ok {
					return nil, false
				}
				n, err := l.Lookup(context.Background(), comp)
				if err != nil {
					return nil, false
				}
				node = n
			}
			return node, true
		}
		targets := append([][]string{{}}, c.Lookups...)
		for _, p := range targets {
			node, ok := walkTo(p)
			kind, size := 0, int64(0)
			if ok {
				var a bfuse.Attr
				if err := node.Attr(context.Background(), &a); err == nil {
					if a.Mode.IsDir() {
						kind = 2
					} else {
						kind, size = 1, int64(a.Size)
					}
				}
			}
			obs = append(obs, fmt.Sprintf("NWalk %s %d (%d)%%Z", renderPath(p), kind, size))
		}
		for _, d := range c.Dirs {
			node, ok := walkTo(d)
			if !ok {
				continue
			}
			rd, ok := node.(fs.HandleReadDirAller)
			if !ok {
				continue
			}
			ents, err := rd.ReadDirAll(context.Background())
			if err != nil {
				continue
			}
			var es []string
			for _, e := range ents {
				if e.Name == "." || e.Name == ".." {
					continue
				}
				es = append(es, fmt.Sprintf("(%s, %s)", cq.Bytes([]byte(e.Name)), cq.Bool(e.Type == bfuse.DT_Dir)))
			}
			obs = append(obs, fmt.Sprintf("NReaddir %s %s", renderPath(d), cq.List(es)))
		}
	}()
	if panicked {
		obs = append(obs, "NPanic")
	}
	var files []string
	if !c.Single {
		off := int64(0)
		for _, f := range c.Files {
			files = append(files, fmt.Sprintf("{| f_path := %s; f_off := %d; f_len := %d; f_pad := %s |}", renderPath(f.Path), off, f.Len, cq.Bool(f.Pad)))
			off += f.Len
		}
	}
	c.Obs = fmt.Sprintf("observations=%d panic=%v", len(obs), panicked)
	for i := range obs {
		obs[i] = "(" + obs[i] + ")"
	}
	return fmt.Sprintf("{| nc_id := %d; nc_files := %s; nc_name := %s; nc_total := %d; nc_obs := [\n  %s] |}",
		c.ID, cq.List(files), cq.Bytes([]byte(c.Name)), c.Total, strings.Join(obs, ";\n  "))
}

func main() {
	fs_ := flag.NewFlagSet("httpui", flag.ExitOnError)
	prop := fs_.String("prop", "C20", "property")
	out := fs_.String("out", "", "output directory")
	n := fs_.Int("n", 150, "number of layouts")
	casef := fs_.String("case", "", "case file (replay)")
	fs_.Parse(os.Args[2:])
	os.MkdirAll(*out, 0o755)
	if *prop == "C19" {
		mainC19(os.Args[1], *out, *n, *casef)
		return
	}
	config.SetDefaultProxy("")
	mux := shttp.VerifMux()
	var cases []*ncase
	switch os.Args[1] {
	case "gen":
		r := cq.Rand()
		for i := 0; i < *n; i++ {
			cases = append(cases, genCase(r, i))
		}
	case "replay":
		data, _ := os.ReadFile(*casef)
		var c ncase
		var wrap struct {
			Case ncase `json:"case"`
		}
		if json.Unmarshal(data, &wrap) == nil && wrap.Case.Name != "" {
			c = wrap.Case
		} else {
			json.Unmarshal(data, &c)
		}
		c.ID = 0
		cases = []*ncase{&c}
	}
	var terms []string
	outcomes := map[string]int{}
	distinct := map[string]bool{}
	nobs := 0
	for _, c := range cases {
		t := runCase(c, mux)
		if t != "" {
			terms = append(terms, t)
		}
		o := c.Obs
		if i := strings.Index(o, "="); i > 0 && strings.HasPrefix(o, "observations") {
			var k int
			fmt.Sscanf(o, "observations=%d", &k)
			nobs += k
			o = "ran"
		}
		outcomes[o]++
		var sig []string
		for _, f := range c.Files {
			sig = append(sig, fmt.Sprint(len(f.Path)))
		}
		sort.Strings(sig)
		if len(c.Files) > 1 {
			distinct[strings.Join(sig, ",")+fmt.Sprint(c.Single)] = true
		}
	}
	jf, _ := os.Create(filepath.Join(*out, "cases.jsonl"))
	for _, c := range cases {
		b, _ := json.Marshal(c)
		jf.Write(append(b, '\n'))
	}
	jf.Close()
	nshard := 0
	for i := 0; i < len(terms); i += 15 {
		j := i + 15
		if j > len(terms) {
			j = len(terms)
		}
		var sb strings.Builder
		sb.WriteString("From Storrent Require Import Base.Bytes Base.Bencode Model.Wire Model.Torfile Model.Namespace Check.WireCheck Check.NamespaceCheck.\nOpen Scope N_scope.\n")
		sb.WriteString("Definition cases : list ncase := [\n" + strings.Join(terms[i:j], ";\n") + "\n].\n")
		sb.WriteString("Definition BC := Eval vm_compute in bad_corr20 cases.\nDefinition BM := Eval vm_compute in bad_monitor20 cases.\nPrint BC. Print BM.\n")
		if len(terms) == 1 {
			sb.WriteString("Definition BAD := Eval vm_compute in bad_obs20 cases.\nPrint BAD.\n")
		}
		os.WriteFile(filepath.Join(*out, fmt.Sprintf("shard%03d.v", nshard)), []byte(sb.String()), 0o644)
		nshard++
	}
	var samples []*ncase
	for i, c := range cases {
		if i%41 == 3 || len(cases) < 3 {
			cc := *c
			if len(cc.Lookups) > 6 {
				cc.Lookups = cc.Lookups[:6]
			}
			samples = append(samples, &cc)
		}
	}
	meta := map[string]interface{}{
		"evaluations":         len(cases),
		"observations":        nobs,
		"distinct_nontrivial": len(distinct),
		"rule":                "one evaluation = one file layout registered as a running torrent, with every file path, every proper prefix and crafted absent paths resolved through fileParms, HEAD requests, directory pages, playlists and the FUSE node methods; distinct non-trivial = new multiset of path depths with more than one file",
		"outcomes":            outcomes,
		"samples":             samples,
		"shards":              nshard,
	}
	b, _ := json.MarshalIndent(meta, "", " ")
	os.WriteFile(filepath.Join(*out, "meta.json"), b, 0o644)
}
