package main

import (
	"context"
	"crypto/sha1"
	"encoding/json"
	"errors"
	"fmt"
	"html"
	"math/rand"
	"net/http"
	"net/http/httptest"
	"net/netip"
	"net/url"
	"os"
	"path/filepath"
	"runtime/debug"
	"sort"
	"strings"
	"time"

	"github.com/jech/storrent/config"
	"github.com/jech/storrent/hash"
	shttp "github.com/jech/storrent/http"
	"github.com/jech/storrent/known"
	"github.com/jech/storrent/tor"
	"github.com/jech/storrent/tracker"
	"github.com/jech/storrent/webseed"

	"verifharness/internal/cq"
)

// fakeTracker lets the harness choose the URL and the error text a tracker shows.
type fakeTracker struct {
	url string
	err string
}

func (f *fakeTracker) URL() string { return f.url }
func (f *fakeTracker) GetState() (tracker.State, error) {
	if f.err != "" {
		return tracker.Error, errors.New(f.err)
	}
	return tracker.Idle, nil
}
func (f *fakeTracker) Announce(ctx context.Context, hash []byte, myid []byte, want int, size int64, port4, port6 int, proxy string, fn func(netip.AddrPort) bool) error {
	return tracker.ErrNotReady
}

type ucase struct {
	ID      int      `json:"id"`
	Kind    string   `json:"kind"` // hosts escaping
	Hosts   []string `json:"hosts,omitempty"`
	Strings []string `json:"strings,omitempty"` // name, path component, tracker url, tracker error, webseed url, version
	Obs     string   `json:"obs,omitempty"`
}

var hostPool = []string{"localhost:8080", "localhost", "127.0.0.1:8080", "[::1]:8080", "example.com:8080", "example.com",
	"evil.localhost:8080", "localhost.evil.com:80", "1.2.3.4.evil.com:80", "127.0.0.1.nip.io:8080", "10.0.0.7:80",
	"my-host:8080", "abc.de:80", "dead.beef:80", "[fe80::1]:80", "LOCALHOST:80", "localhost:80:90", ":8080", "", "xn--bcher-kva.example:443",
	"attacker.example:8080", "192.168.1.1:8080", "0x7f.1:80", "a.b.c.d:1"}

var metaPool = []string{`<m%d>`, `"q%d"`, `'s%d'`, `a&b%d`, `<script>alert(%d)</script>`, `x%d" onmouseover="y`, `</td><td>%d`, "plain%d",
	"li\nne%d", "cr\rlf%d", "com,ma%d", `%d<>&"'`, `é%d<`, `%%41%d<`}

func hostileString(r *rand.Rand, k int) string {
	return fmt.Sprintf(metaPool[r.Intn(len(metaPool))], 100*k+r.Intn(100))
}

func mkTorrent(name string, files [][]string, trackers [][]tracker.Tracker, wss []webseed.Webseed) (*tor.Torrent, error) {
	var sb strings.Builder
	sb.WriteString("d")
	total := int64(0)
	if len(files) > 0 {
		sb.WriteString("5:filesl")
		for _, p := range files {
			sb.WriteString("d6:lengthi100e4:pathl")
			for _, c := range p {
				sb.WriteString(bstr(c))
			}
			sb.WriteString("ee")
			total += 100
		}
		sb.WriteString("e")
	} else {
		total = 100
		sb.WriteString("6:lengthi100e")
	}
	fmt.Fprintf(&sb, "4:name%s12:piece lengthi16384e6:pieces20:%s", bstr(name), strings.Repeat("h", 20))
	sb.WriteString("e")
	info := []byte(sb.String())
	h := sha1.Sum(info)
	t, err := tor.New("", hash.Hash(h[:]), "", info, 0, trackers, wss)
	if err != nil {
		return nil, err
	}
	if err := t.MetadataComplete(); err != nil {
		return nil, err
	}
	return t, nil
}

func torrentSet() string {
	var hs []string
	tor.Range(func(h hash.Hash, t *tor.Torrent) bool {
		conf, _ := t.GetConf()
		hs = append(hs, fmt.Sprintf("%v/%v", h, conf))
		return true
	})
	sort.Strings(hs)
	return strings.Join(hs, ",")
}

func doHost(mux *http.ServeMux, method, target, host string, body string) int {
	ctx, cancel := context.WithTimeout(context.Background(), 3*time.Second)
	defer cancel()
	var req *http.Request
	if body != "" {
		req = httptest.NewRequest(method, "http://placeholder"+target, strings.NewReader(body))
		req.Header.Set("Content-Type", "application/x-www-form-urlencoded")
	} else {
		req = httptest.NewRequest(method, "http://placeholder"+target, nil)
	}
	req = req.WithContext(ctx)
	req.Host = host
	rec := httptest.NewRecorder()
	mux.ServeHTTP(rec, req)
	return rec.Code
}

func runHosts(c *ucase, mux *http.ServeMux, t *tor.Torrent) []string {
	var obs []string
	h := t.Hash.String()
	routes := []struct{ method, target, body string }{
		{"GET", "/", ""}, {"HEAD", "/", ""}, {"POST", "/", ""}, {"DELETE", "/", ""},
		{"GET", "/?q=peers&hash=" + h, ""}, {"POST", "/?q=add", "url=magnet%3A%3Fxt%3Durn%3Abtih%3A" + strings.Repeat("ab", 20)},
		{"POST", "/?q=delete", "hash=" + h}, {"POST", "/?q=set-torrent", "hash=" + h + "&dht-mode=none"},
		{"GET", "/" + h + ".torrent", ""}, {"GET", "/" + h + ".m3u", ""}, {"GET", "/" + h, ""},
		{"GET", "/" + h + "/", ""}, {"HEAD", "/" + h + "/f", ""}, {"GET", "/" + h + "/?playlist", ""}, {"PUT", "/" + h + "/f", ""},
	}
	for _, host := range c.Hosts {
		for _, rt := range routes {
			before := torrentSet()
			status := doHost(mux, rt.method, rt.target, host, rt.body)
			changed := torrentSet() != before
			obs = append(obs, fmt.Sprintf("(UHost %s %d %s)", cq.Bytes([]byte(host)), status, cq.Bool(changed)))
		}
	}
	return obs
}

func runEscaping(c *ucase, mux *http.ServeMux) []string {
	var obs []string
	s := c.Strings
	name, comp, turl, terr, wurl, version := s[0], s[1], s[2], s[3], s[4], s[5]
	for _, x := range s {
		title := strings.NewReplacer(",", "", "\r", "", "\n", "").Replace(x)
		obs = append(obs, fmt.Sprintf("(UEsc %s %s %s %s)", cq.Bytes([]byte(x)), cq.Bytes([]byte(html.EscapeString(x))),
			cq.Bytes([]byte(url.PathEscape(x))), cq.Bytes([]byte(title))))
	}
	trackers := [][]tracker.Tracker{{&fakeTracker{url: "http://tr.example/" + turl, err: terr}}}
	var wss []webseed.Webseed
	if ws := webseed.New("http://ws.example/"+wurl, true); ws != nil {
		wss = append(wss, ws)
	}
	files := [][]string{{comp, "a"}, {comp, "b" + comp}}
	t, err := mkTorrent(name, files, trackers, wss)
	if err != nil {
		c.Obs = "rejected: " + err.Error()
		return obs
	}
	ctx, cancel := context.WithCancel(context.Background())
	defer cancel()
	t, err = tor.AddTorrent(ctx, t)
	if err != nil {
		c.Obs = "not added: " + err.Error()
		return obs
	}
	defer func() {
		kctx, kcancel := context.WithTimeout(context.Background(), 5*time.Second)
		t.Kill(kctx)
		kcancel()
	}()
	t.AddKnown(netip.MustParseAddrPort("10.9.8.7:6881"), make([]byte, 20), version, known.Seen)
	// a peer that announced no version: the client code is taken from bytes 1..6 of its id
	code := []string{"<i><b>", "\"'&<>x", "a&b<c>", "</td>x"}[len(name)%4]
	id2 := []byte("-" + code + "-abcdefghijkl")
	t.AddKnown(netip.MustParseAddrPort("10.9.8.6:6881"), id2, "", known.Seen)
	h := t.Hash.String()
	page := func(target string) string {
		ctx, cancel := context.WithTimeout(context.Background(), 3*time.Second)
		defer cancel()
		req := httptest.NewRequest("GET", "http://localhost:8080"+target, nil).WithContext(ctx)
		rec := httptest.NewRecorder()
		mux.ServeHTTP(rec, req)
		return rec.Body.String()
	}
	site := func(body, x string) {
		raw := false
		for i := 0; ; {
			j := strings.Index(body[i:], x)
			if j < 0 {
				break
			}
			at := i + j
			// an occurrence inside an href attribute is a URL segment: there the string is
			// percent-encoded, and characters that PathEscape keeps (such as &) are harmless
			k := strings.LastIndex(body[:at], `href="`)
			inHref := k >= 0 && !strings.Contains(body[k+6:at], `"`) && url.PathEscape(x) == x
			if !inHref {
				raw = true
			}
			i = at + 1
		}
		esc := strings.Contains(body, html.EscapeString(x))
		uesc := strings.Contains(body, url.PathEscape(x))
		if html.EscapeString(x) == x {
			// no metacharacter: raw and escaped forms coincide
			raw = false
		}
		obs = append(obs, fmt.Sprintf("(USite %s %s %s %s)", cq.Bytes([]byte(x)), cq.Bool(raw), cq.Bool(esc), cq.Bool(uesc)))
	}
	root := page("/")
	site(root, name)
	site(root, comp)
	dir := page("/" + h + "/")
	site(dir, name)
	site(dir, comp)
	peers := page("/?q=peers&hash=" + h)
	site(peers, name)
	site(peers, "http://tr.example/"+turl)
	site(peers, terr)
	if len(wss) > 0 {
		site(peers, "http://ws.example/"+wurl)
	}
	site(peers, version)
	site(peers, code)
	pl := page("/" + h + ".m3u")
	lines := strings.Count(pl, "\n")
	obs = append(obs, fmt.Sprintf("(ULines %d %d)", len(files), lines))
	return obs
}

func mainC19(mode, out string, n int, casef string) {
	config.SetDefaultProxy("")
	mux := shttp.VerifMux()
	var cases []*ucase
	switch mode {
	case "gen":
		r := cq.Rand()
		for i := 0; i < len(hostPool); i += 4 {
			j := i + 4
			if j > len(hostPool) {
				j = len(hostPool)
			}
			cases = append(cases, &ucase{ID: len(cases), Kind: "hosts", Hosts: hostPool[i:j]})
		}
		for i := 0; i < n; i++ {
			var ss []string
			for k := 0; k < 6; k++ {
				ss = append(ss, hostileString(r, k))
			}
			// a path component may not contain '/', nor be empty
			ss[1] = strings.ReplaceAll(ss[1], "/", "_")
			cases = append(cases, &ucase{ID: len(cases), Kind: "escaping", Strings: ss})
		}
	case "replay":
		data, _ := os.ReadFile(casef)
		var c ucase
		var wrap struct {
			Case ucase `json:"case"`
		}
		if json.Unmarshal(data, &wrap) == nil && wrap.Case.Kind != "" {
			c = wrap.Case
		} else {
			json.Unmarshal(data, &c)
		}
		c.ID = 0
		cases = []*ucase{&c}
	}
	// one long-lived torrent for the host sweep
	base, err := mkTorrent("base", [][]string{{"f"}}, nil, nil)
	if err != nil {
		panic(err)
	}
	bctx, bcancel := context.WithCancel(context.Background())
	defer bcancel()
	base, err = tor.AddTorrent(bctx, base)
	if err != nil {
		panic(err)
	}
	var terms []string
	kinds := map[string]int{}
	distinct := map[string]bool{}
	nobs := 0
	for _, c := range cases {
		var obs []string
		func() {
			defer func() {
				if r := recover(); r != nil {
					obs = append(obs, "UPanic19")
					c.Obs = fmt.Sprintf("panic: %v %s", r, debug.Stack())
				}
			}()
			if c.Kind == "hosts" {
				obs = runHosts(c, mux, base)
			} else {
				obs = runEscaping(c, mux)
			}
		}()
		if c.Obs == "" {
			c.Obs = fmt.Sprintf("observations=%d", len(obs))
		}
		nobs += len(obs)
		kinds[c.Kind]++
		distinct[c.Kind+"/"+strings.Join(c.Strings, "|")+strings.Join(c.Hosts, "|")] = true
		terms = append(terms, fmt.Sprintf("{| u_id := %d; u_obs := [\n  %s] |}", c.ID, strings.Join(obs, ";\n  ")))
	}
	jf, _ := os.Create(filepath.Join(out, "cases.jsonl"))
	for _, c := range cases {
		b, _ := json.Marshal(c)
		jf.Write(append(b, '\n'))
	}
	jf.Close()
	nshard := 0
	for i := 0; i < len(terms); i += 25 {
		j := i + 25
		if j > len(terms) {
			j = len(terms)
		}
		var sb strings.Builder
		sb.WriteString("From Storrent Require Import Base.Bytes Base.Bencode Model.Wire Model.Tracker Model.HttpUI Check.WireCheck Check.HttpUICheck.\nOpen Scope N_scope.\n")
		sb.WriteString("Definition cases : list ucase := [\n" + strings.Join(terms[i:j], ";\n") + "\n].\n")
		sb.WriteString("Definition BC := Eval vm_compute in bad_corr19 cases.\nDefinition BM := Eval vm_compute in bad_monitor19 cases.\nPrint BC. Print BM.\n")
		if len(terms) == 1 {
			sb.WriteString("Definition BAD := Eval vm_compute in bad_obs19 cases.\nPrint BAD.\n")
		}
		os.WriteFile(filepath.Join(out, fmt.Sprintf("shard%03d.v", nshard)), []byte(sb.String()), 0o644)
		nshard++
	}
	var samples []*ucase
	for i, c := range cases {
		if i%37 == 2 || len(cases) < 3 {
			samples = append(samples, c)
		}
	}
	meta := map[string]interface{}{
		"evaluations":         len(cases),
		"observations":        nobs,
		"distinct_nontrivial": len(distinct),
		"rule":                "one evaluation = either 4 Host headers x 15 (route, method) pairs against the real mux with a running torrent (status and state change recorded), or one torrent built from 6 hostile strings (name, path component, tracker URL, tracker error, web-seed URL, peer version) rendered on the root, directory, peers and playlist pages; distinct = new set of strings / hosts",
		"kinds":               kinds,
		"samples":             samples,
		"shards":              nshard,
	}
	b, _ := json.MarshalIndent(meta, "", " ")
	os.WriteFile(filepath.Join(out, "meta.json"), b, 0o644)
}
