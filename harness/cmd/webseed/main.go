// webseed: correspondence harness for C14 (fileChunks, the block-aligning writer,
// GetRight response validation).
package main

import (
	"bytes"
	"context"
	"encoding/json"
	"errors"
	"flag"
	"fmt"
	"io"
	"math/rand"
	"net"
	"net/http"
	"net/http/httptest"
	"os"
	"path/filepath"
	"strings"
	"time"

	"github.com/jech/storrent/peer"
	"github.com/jech/storrent/tor"
	"github.com/jech/storrent/webseed"

	"verifharness/internal/cq"
)

type fspec struct {
	Path []string `json:"path"`
	Len  int64    `json:"len"`
	Pad  bool     `json:"pad,omitempty"`
}

type call struct {
	Kind string `json:"kind"` // write readfrom close
	Len  int    `json:"len,omitempty"`
	Cuts []int  `json:"cuts,omitempty"`
}

type resp struct {
	Status int    `json:"status"`
	CR     string `json:"cr"`   // honest shifted badtotal star startotal none garbage
	CL     string `json:"cl"`   // honest none wrong
	Body   string `json:"body"` // exact short long
}

type wcase struct {
	ID     int     `json:"id"`
	Kind   string  `json:"kind"` // chunks writer get
	Files  []fspec `json:"files,omitempty"`
	Psize  uint32  `json:"psize"`
	Total  int64   `json:"total"`
	Index  uint32  `json:"index"`
	Offset uint32  `json:"offset"`
	Length uint32  `json:"length"`
	Calls  []call  `json:"calls,omitempty"`
	Resps  []resp  `json:"resps,omitempty"`
	Obs    string  `json:"obs,omitempty"`
}

func bstr(s string) string { return fmt.Sprintf("%d:%s", len(s), s) }

func mkTorrent(c *wcase) *tor.Torrent {
	var sb strings.Builder
	sb.WriteString("d4:infod")
	total := c.Total
	if len(c.Files) > 0 {
		total = 0
		sb.WriteString("5:filesl")
		for _, f := range c.Files {
			sb.WriteString("d")
			if f.Pad {
				sb.WriteString("4:attr1:p")
			}
			fmt.Fprintf(&sb, "6:lengthi%de4:pathl", f.Len)
			for _, comp := range f.Path {
				sb.WriteString(bstr(comp))
			}
			sb.WriteString("ee")
			total += f.Len
		}
		sb.WriteString("e")
	} else {
		fmt.Fprintf(&sb, "6:lengthi%de", total)
	}
	c.Total = total
	np := (total + int64(c.Psize) - 1) / int64(c.Psize)
	fmt.Fprintf(&sb, "4:name1:n12:piece lengthi%de6:pieces%d:%s", c.Psize, 20*np, strings.Repeat("h", int(20*np)))
	sb.WriteString("ee")
	t, err := tor.ReadTorrent("", strings.NewReader(sb.String()))
	if err != nil {
		panic(fmt.Sprintf("harness metainfo rejected: %v", err))
	}
	t.VerifInit()
	t.Log.SetOutput(io.Discard)
	return t
}

func renderPath(p []string) string {
	var o []string
	for _, c := range p {
		o = append(o, cq.Bytes([]byte(c)))
	}
	return cq.List(o)
}

func renderFiles(c *wcase) string {
	var files []string
	off := int64(0)
	for _, f := range c.Files {
		files = append(files, fmt.Sprintf("{| f_path := %s; f_off := %d; f_len := %d; f_pad := %s |}", renderPath(f.Path), off, f.Len, cq.Bool(f.Pad)))
		off += f.Len
	}
	return cq.List(files)
}

func pieceLen(c *wcase, index uint32) int64 {
	rest := c.Total - int64(index)*int64(c.Psize)
	if rest > int64(c.Psize) {
		rest = int64(c.Psize)
	}
	return rest
}

// ---------- A: fileChunks ----------

func runChunks(c *wcase) string {
	t := mkTorrent(c)
	var chunks []string
	for _, fc := range t.VerifFileChunks(c.Index, c.Offset, c.Length) {
		chunks = append(chunks, fmt.Sprintf("{| fc_path := %s; fc_flen := %d; fc_off := %d; fc_len := %d; fc_pad := %s |}",
			renderPath(fc.Path), fc.FileLength, fc.Offset, fc.Length, cq.Bool(fc.Pad)))
	}
	c.Obs = fmt.Sprintf("chunks=%d", len(chunks))
	return fmt.Sprintf("(OChunks %s %d %d %d %d %d %s)", renderFiles(c), c.Psize, c.Total, c.Index, c.Offset, c.Length, cq.List(chunks))
}

// ---------- B: the writer ----------

func streamByte(j int) byte { return byte(j*13 + 5) }

// sterm renders bytes as (sbytes p n) when they are a slice of the test stream.
func sterm(b []byte) string {
	if len(b) < 16 {
		return cq.Bytes(b)
	}
	// 13 * 197 = 1 (mod 256)
	p := int(byte((int(b[0]) - 5) * 197))
	for i := range b {
		if b[i] != streamByte(p+i) {
			return cq.Bytes(b)
		}
	}
	return fmt.Sprintf("(sbytes %d %d)", p, len(b))
}

type cutReader struct {
	data []byte
	cuts []int
	i    int
}

func (r *cutReader) Read(p []byte) (int, error) {
	if len(r.data) == 0 || r.i >= len(r.cuts) {
		return 0, io.EOF
	}
	n := r.cuts[r.i]
	r.i++
	if n > len(p) {
		n = len(p)
	}
	if n > len(r.data) {
		n = len(r.data)
	}
	copy(p, r.data[:n])
	r.data = r.data[n:]
	return n, nil
}

type writerT interface {
	io.Writer
	io.ReaderFrom
	io.Closer
}

func drainEvents(t *tor.Torrent) (evs []string, blocks uint32) {
	for len(t.Event) > 0 {
		switch e := (<-t.Event).(type) {
		case peer.TorData:
			evs = append(evs, fmt.Sprintf("(WData %d %d)", e.Begin, e.Length))
			blocks += (e.Length + 16383) / 16384
		case peer.TorDrop:
			evs = append(evs, fmt.Sprintf("(WDrop %d %d)", e.Begin, e.Length))
			blocks += (e.Length + 16383) / 16384
		}
	}
	return
}

func errClass(err error) int {
	switch {
	case err == nil:
		return 0
	case errors.Is(err, tor.ErrShortWrite):
		return 1
	case errors.Is(err, net.ErrClosed):
		return 2
	case err == io.EOF:
		return 4
	}
	return 3
}

func storedBlocks(t *tor.Torrent, index uint32, from, to uint32) (string, []int) {
	data, bm := t.Pieces.VerifData(index)
	var out []string
	var present []int
	for off := uint32(0); off < uint32(len(data)); off += 16384 {
		if !bm.Get(int(off / 16384)) {
			continue
		}
		present = append(present, int(off))
		end := off + 16384
		if end > uint32(len(data)) {
			end = uint32(len(data))
		}
		if off >= from && off < to {
			out = append(out, fmt.Sprintf("(%d, %s)", off, sterm(data[off:end])))
		}
	}
	return cq.List(out), present
}

func runWriter(c *wcase) string {
	t := mkTorrent(c)
	w := interface{}(tor.NewWriter(t, c.Index, c.Offset, c.Length)).(writerT)
	pos := 0
	var calls []string
	for _, cl := range c.Calls {
		var n int64
		var err error
		var callTerm string
		switch cl.Kind {
		case "write":
			p := make([]byte, cl.Len)
			for i := range p {
				p[i] = streamByte(pos + i)
			}
			var k int
			k, err = w.Write(p)
			n = int64(k)
			callTerm = "(CWrite " + sterm(p) + ")"
			pos += k
		case "readfrom":
			p := make([]byte, cl.Len)
			for i := range p {
				p[i] = streamByte(pos + i)
			}
			n, err = w.ReadFrom(&cutReader{data: append([]byte{}, p...), cuts: cl.Cuts})
			var cuts []string
			for _, x := range cl.Cuts {
				cuts = append(cuts, fmt.Sprint(x))
			}
			callTerm = fmt.Sprintf("(CReadFrom %s %s)", sterm(p), cq.List(cuts))
			pos += int(n)
		case "close":
			err = w.Close()
			callTerm = "CClose"
		}
		evs, _ := drainEvents(t)
		calls = append(calls, fmt.Sprintf("{| wc_call := %s; wc_n := %d; wc_err := %d; wc_evs := %s |}", callTerm, n, errClass(err), cq.List(evs)))
	}
	stored, _ := storedBlocks(t, c.Index, 0, 1<<31)
	c.Obs = fmt.Sprintf("calls=%d pos=%d", len(calls), pos)
	return fmt.Sprintf("(OWriter %d %d %d %s %s)", pieceLen(c, c.Index), c.Offset, c.Length, cq.List(calls), stored)
}

// ---------- C: GetRight ----------

func fileByte(fi int, pos int64) byte { return byte(fi*31 + int(pos)*7 + 1) }

func runGet(c *wcase) string {
	t := mkTorrent(c)
	type seen struct {
		fi      int
		off, ln int64
		r       resp
		cr      string
		cl      string
	}
	var reqs []seen
	nresp := 0
	srv := httptest.NewServer(http.HandlerFunc(func(w http.ResponseWriter, r *http.Request) {
		p := strings.TrimPrefix(r.URL.Path, "/n/")
		fi := -1
		for i, f := range c.Files {
			if strings.Join(f.Path, "/") == p {
				fi = i
			}
		}
		if fi < 0 {
			http.NotFound(w, r)
			return
		}
		var first, last int64
		fmt.Sscanf(r.Header.Get("Range"), "bytes=%d-%d", &first, &last)
		rs := resp{Status: 206, CR: "honest", CL: "honest", Body: "exact"}
		if nresp < len(c.Resps) {
			rs = c.Resps[nresp]
		}
		nresp++
		flen := c.Files[fi].Len
		ln := last - first + 1
		body := ln
		switch rs.Body {
		case "short":
			body = ln / 2
		case "long":
			body = ln + 20000
		}
		s := seen{fi: fi, off: first, ln: ln, r: rs}
		crTerm := "CRNone"
		switch rs.CR {
		case "honest":
			w.Header().Set("Content-Range", fmt.Sprintf("bytes %d-%d/%d", first, last, flen))
			crTerm = fmt.Sprintf("(CR %d %d %d)", first, ln, flen)
		case "shifted":
			w.Header().Set("Content-Range", fmt.Sprintf("bytes %d-%d/%d", first+1, last+1, flen+10))
			crTerm = fmt.Sprintf("(CR %d %d %d)", first+1, ln, flen+10)
		case "badtotal":
			w.Header().Set("Content-Range", fmt.Sprintf("bytes %d-%d/%d", first, last, flen+7))
			crTerm = fmt.Sprintf("(CR %d %d %d)", first, ln, flen+7)
		case "star":
			w.Header().Set("Content-Range", fmt.Sprintf("bytes %d-%d/*", first, last))
			crTerm = fmt.Sprintf("(CR %d %d (-1))", first, ln)
		case "startotal":
			w.Header().Set("Content-Range", fmt.Sprintf("bytes */%d", flen))
			crTerm = fmt.Sprintf("(CR (-1) (-1) %d)", flen)
		case "garbage":
			w.Header().Set("Content-Range", "bytes x-y/z")
			crTerm = "CRBad"
		}
		clTerm := "None"
		switch rs.CL {
		case "honest":
			w.Header().Set("Content-Length", fmt.Sprint(body))
			clTerm = fmt.Sprintf("(Some (Some (%d)%%Z))", body)
		case "wrong":
			// announce the whole file although only a part follows (only meaningful for 200)
			w.Header().Set("Content-Length", fmt.Sprint(flen+5))
			clTerm = fmt.Sprintf("(Some (Some (%d)%%Z))", flen+5)
		}
		s.cr, s.cl = crTerm, clTerm
		reqs = append(reqs, s)
		w.WriteHeader(rs.Status)
		buf := make([]byte, body)
		for i := range buf {
			buf[i] = fileByte(fi, first+int64(i))
		}
		if rs.CL == "none" {
			// force a body without Content-Length
			w.Write(buf[:len(buf)/2])
			if f, ok := w.(http.Flusher); ok {
				f.Flush()
			}
			w.Write(buf[len(buf)/2:])
		} else if rs.CL == "wrong" {
			hj, ok := w.(http.Hijacker)
			_ = hj
			_ = ok
			w.Write(buf)
		} else {
			w.Write(buf)
		}
	}))
	defer srv.Close()
	ws := webseed.New(srv.URL+"/", true).(*webseed.GetRight)
	ctx, cancel := context.WithTimeout(context.Background(), 10*time.Second)
	defer cancel()
	t.VerifWebseedGR(ctx, ws, c.Index, c.Offset, c.Length)
	_, released := drainEvents(t)
	data, bm := t.Pieces.VerifData(c.Index)
	// expected content of the piece by torrent offset
	base := int64(c.Index) * int64(c.Psize)
	expected := func(x int64) byte {
		off := int64(0)
		for i, f := range c.Files {
			if x >= off && x < off+f.Len {
				if f.Pad {
					return 0
				}
				return fileByte(i, x-off)
			}
			off += f.Len
		}
		return 0
	}
	contentOK, inrangeOK := true, true
	present := map[int]bool{}
	for b := 0; b*16384 < len(data); b++ {
		if !bm.Get(b) {
			continue
		}
		present[b] = true
		o := uint32(b * 16384)
		if o < c.Offset || o >= c.Offset+c.Length {
			inrangeOK = false
		}
		end := b*16384 + 16384
		if end > len(data) {
			end = len(data)
		}
		for x := b * 16384; x < end; x++ {
			if data[x] != expected(base+int64(x)) {
				contentOK = false
			}
		}
	}
	releasedOK := released == (c.Length+16383)/16384
	var decs []string
	for _, s := range reqs {
		// torrent range of this chunk
		foff := int64(0)
		for i := 0; i < s.fi; i++ {
			foff += c.Files[i].Len
		}
		lo, hi := foff+s.off-base, foff+s.off+s.ln-base
		stored := false
		for b := range present {
			if int64(b*16384) < hi && int64(b*16384+16384) > lo {
				stored = true
			}
		}
		decs = append(decs, fmt.Sprintf("(%d, %s, %s, (%d)%%Z, (%d)%%Z, (%d)%%Z, %s)", s.r.Status, s.cr, s.cl, s.off, s.ln, c.Files[s.fi].Len, cq.Bool(stored)))
	}
	c.Obs = fmt.Sprintf("requests=%d present=%d content=%v inrange=%v released=%v", len(reqs), len(present), contentOK, inrangeOK, releasedOK)
	return fmt.Sprintf("(OGet %s %s %s %s)", cq.List(decs), cq.Bool(contentOK), cq.Bool(inrangeOK), cq.Bool(releasedOK))
}

// ---------- generation ----------

var lenPool = []int64{0, 1, 100, 16384, 16383, 16385, 20000, 32768, 40000, 5000, 65536}

func genLayout(r *rand.Rand, c *wcase) {
	n := 1 + r.Intn(6)
	for i := 0; i < n; i++ {
		c.Files = append(c.Files, fspec{Path: []string{fmt.Sprintf("d%d", i%2), fmt.Sprintf("f%d", i)}, Len: lenPool[r.Intn(len(lenPool))], Pad: r.Intn(7) == 0})
	}
	c.Psize = []uint32{16384, 32768, 65536, 131072}[r.Intn(4)]
	var total int64
	for _, f := range c.Files {
		total += f.Len
	}
	if total == 0 {
		c.Files[0].Len = 100
		total = 100
	}
	c.Total = total
}

func pickRange(r *rand.Rand, c *wcase) {
	np := (c.Total + int64(c.Psize) - 1) / int64(c.Psize)
	c.Index = uint32(r.Int63n(np))
	pl := pieceLen(c, c.Index)
	nb := (pl + 16383) / 16384
	b0 := r.Int63n(nb)
	c.Offset = uint32(b0 * 16384)
	nbl := 1 + r.Int63n(nb-b0)
	l := nbl * 16384
	if int64(c.Offset)+l > pl {
		l = pl - int64(c.Offset)
	}
	c.Length = uint32(l)
}

func gen(r *rand.Rand, n int) []*wcase {
	var cs []*wcase
	add := func(c *wcase) { c.ID = len(cs); cs = append(cs, c) }
	// corpus: two 20000-byte files in one piece, first answered by an over-long 200 without Content-Length
	add(&wcase{Kind: "get", Files: []fspec{{Path: []string{"a"}, Len: 20000}, {Path: []string{"b"}, Len: 20000}}, Psize: 49152, Total: 40000,
		Index: 0, Offset: 0, Length: 40000, Resps: []resp{{Status: 200, CR: "none", CL: "none", Body: "long"}}})
	// corpus: torrent whose final block is short
	add(&wcase{Kind: "writer", Psize: 32768, Total: 40000, Index: 1, Offset: 0, Length: 7232, Calls: []call{{Kind: "write", Len: 7232}, {Kind: "close"}}})
	for i := 0; i < n; i++ {
		c := &wcase{}
		switch r.Intn(3) {
		case 0:
			c.Kind = "chunks"
			if r.Intn(6) == 0 {
				c.Psize, c.Total = 32768, int64(1+r.Intn(100000))
			} else {
				genLayout(r, c)
			}
			pickRange(r, c)
		case 1:
			c.Kind = "writer"
			c.Psize = []uint32{16384, 32768, 65536, 131072}[r.Intn(4)]
			c.Total = int64(c.Psize)*int64(r.Intn(2)) + []int64{int64(c.Psize), 1, 100, 16384, 20000, 16385}[r.Intn(6)]
			pickRange(r, c)
			stream := int(c.Length) + []int{0, 0, 0, 1, 100, 20000, -1, -5000}[r.Intn(8)]
			if stream < 0 {
				stream = 0
			}
			left := stream
			if int64(c.Offset)+int64(c.Length) < pieceLen(c, c.Index) && r.Intn(3) == 0 {
				// an over-long body read in one ReadFrom: the range ends inside the piece
				k := int(c.Length) + []int{16384, 40000, 100000}[r.Intn(3)]
				c.Calls = append(c.Calls, call{Kind: "readfrom", Len: k, Cuts: []int{[]int{4096, 16384, 32768, 100000}[r.Intn(4)], k, k, k, k, k, k, k, k, k, k, k, k, k, k, k, k, k, k, k, k}})
				left = 0
			}
			for left > 0 && len(c.Calls) < 12 {
				k := []int{1, 100, 16383, 16384, 16385, 32768, 40000, 5, left}[r.Intn(9)]
				if k > left {
					k = left
				}
				if r.Intn(3) == 0 {
					var cuts []int
					for x := 0; x < 1+k/4000 && x < 30; x++ {
						cuts = append(cuts, []int{1, 100, 4096, 16384, 32768, 40000, 7}[r.Intn(7)])
					}
					cuts = append(cuts, k, k)
					c.Calls = append(c.Calls, call{Kind: "readfrom", Len: k, Cuts: cuts})
				} else {
					c.Calls = append(c.Calls, call{Kind: "write", Len: k})
				}
				left -= k
			}
			c.Calls = append(c.Calls, call{Kind: "close"})
			if r.Intn(8) == 0 {
				c.Calls = append(c.Calls, call{Kind: "write", Len: 10}, call{Kind: "close"})
			}
		case 2:
			c.Kind = "get"
			genLayout(r, c)
			for i := range c.Files {
				if c.Files[i].Len == 0 && r.Intn(2) == 0 {
					c.Files[i].Len = 300
				}
			}
			c.Total = 0
			for _, f := range c.Files {
				c.Total += f.Len
			}
			pickRange(r, c)
			for k := 0; k < len(c.Files); k++ {
				rs := resp{Status: 206, CR: "honest", CL: "honest", Body: "exact"}
				if r.Intn(4) == 0 {
					// an otherwise honest answer whose body is short or over-long
					rs.Body = []string{"short", "long"}[r.Intn(2)]
					if r.Intn(2) == 0 {
						rs.CL = "none"
					}
				} else if r.Intn(3) == 0 {
					rs.Status = []int{200, 206, 206, 416, 500, 200}[r.Intn(6)]
					rs.CR = []string{"honest", "shifted", "badtotal", "star", "startotal", "none", "garbage"}[r.Intn(7)]
					rs.CL = []string{"honest", "none", "honest"}[r.Intn(3)]
					rs.Body = []string{"exact", "short", "long", "long"}[r.Intn(4)]
				}
				c.Resps = append(c.Resps, rs)
			}
		}
		add(c)
	}
	return cs
}

func run(c *wcase) (term string) {
	defer func() {
		if r := recover(); r != nil {
			if s, ok := r.(string); ok && strings.HasPrefix(s, "harness") {
				panic(r)
			}
			c.Obs = fmt.Sprintf("panic: %v", r)
			term = fmt.Sprintf("{| w14_id := %d; w14_obs := OPanic14 |}", c.ID)
		}
	}()
	var o string
	switch c.Kind {
	case "chunks":
		o = runChunks(c)
	case "writer":
		o = runWriter(c)
	case "get":
		o = runGet(c)
	}
	return fmt.Sprintf("{| w14_id := %d; w14_obs := %s |}", c.ID, o)
}

func main() {
	fs := flag.NewFlagSet("webseed", flag.ExitOnError)
	fs.String("prop", "C14", "property")
	out := fs.String("out", "", "output directory")
	n := fs.Int("n", 400, "number of cases")
	casef := fs.String("case", "", "case file (replay)")
	fs.Parse(os.Args[2:])
	os.MkdirAll(*out, 0o755)
	var cases []*wcase
	switch os.Args[1] {
	case "gen":
		cases = gen(cq.Rand(), *n)
	case "replay":
		data, _ := os.ReadFile(*casef)
		var c wcase
		var wrap struct {
			Case wcase `json:"case"`
		}
		if json.Unmarshal(data, &wrap) == nil && wrap.Case.Kind != "" {
			c = wrap.Case
		} else {
			json.Unmarshal(data, &c)
		}
		c.ID = 0
		cases = []*wcase{&c}
	}
	var terms []string
	kinds := map[string]int{}
	distinct := map[string]bool{}
	for _, c := range cases {
		terms = append(terms, run(c))
		kinds[c.Kind]++
		distinct[fmt.Sprintf("%s/%d/%d/%d/%d/%s", c.Kind, len(c.Files), c.Psize, c.Offset, c.Length, c.Obs)] = true
	}
	jf, _ := os.Create(filepath.Join(*out, "cases.jsonl"))
	for _, c := range cases {
		b, _ := json.Marshal(c)
		jf.Write(append(b, '\n'))
	}
	jf.Close()
	nshard := 0
	for i := 0; i < len(terms); i += 20 {
		j := i + 20
		if j > len(terms) {
			j = len(terms)
		}
		var sb bytes.Buffer
		sb.WriteString("From Storrent Require Import Base.Bytes Base.Bencode Model.Wire Model.Torfile Model.Namespace Model.Webseed Check.WireCheck Check.WebseedCheck.\nOpen Scope N_scope.\n")
		sb.WriteString("Definition cases : list wcase14 := [\n" + strings.Join(terms[i:j], ";\n") + "\n].\n")
		sb.WriteString("Definition BC := Eval vm_compute in bad_corr14 cases.\nDefinition BM := Eval vm_compute in bad_monitor14 cases.\nPrint BC. Print BM.\n")
		os.WriteFile(filepath.Join(*out, fmt.Sprintf("shard%03d.v", nshard)), sb.Bytes(), 0o644)
		nshard++
	}
	var samples []*wcase
	for i, c := range cases {
		if i%97 == 1 || len(cases) < 4 {
			samples = append(samples, c)
		}
	}
	meta := map[string]interface{}{
		"evaluations":         len(cases),
		"distinct_nontrivial": len(distinct),
		"rule":                "one evaluation = one fileChunks query, one scripted sequence of Write/ReadFrom/Close calls on a real writer, or one webseedGR fetch against a scripted loopback HTTP server; distinct = new (kind, layout size, piece size, range, outcome)",
		"kinds":               kinds,
		"samples":             samples,
		"shards":              nshard,
	}
	b, _ := json.MarshalIndent(meta, "", " ")
	os.WriteFile(filepath.Join(*out, "meta.json"), b, 0o644)
}
