// Command handshake drives storrent's BitTorrent and MSE handshakes
// (protocol/handshake.go, crypto/crypto.go) and its encrypted connection
// (crypto/conn.go) for properties C07 and C08, and writes what it observed as
// Gallina case files.
package main

import (
	"bytes"
	crand "crypto/rand"
	"crypto/rc4"
	"encoding/json"
	"flag"
	"fmt"
	"io"
	"math/rand"
	"net"
	"os"
	"path/filepath"
	"sort"
	"strings"
	"sync"
	"time"

	"github.com/jech/storrent/crypto"
	"github.com/jech/storrent/hash"
	"github.com/jech/storrent/protocol"

	"verifharness/internal/cq"
)

// DH secrets used by both sides; Check/DhTable.v holds the same list with the
// public keys and shared secrets precomputed inside Coq.
var secrets = [][]byte{
	secret("9a3c51e7"),
	secret("5bd1e9950badc0de"),
	secret("c3a5c85c97cb3127b492b66fbe98f273d4e5a1b7"),
	secret("01000193"),
}

func secret(h string) []byte {
	b := make([]byte, 20)
	var v []byte
	fmt.Sscanf(h, "%x", &v)
	copy(b[20-len(v):], v)
	return b
}

type cutSpec struct {
	Max int   `json:"max,omitempty"`
	Pts []int `json:"pts,omitempty"`
}

type sideObs struct {
	Role      string   `json:"role"`
	Code      int      `json:"code"`
	Err       string   `json:"err,omitempty"`
	Hash      []byte   `json:"hash,omitempty"`
	Id        []byte   `json:"id,omitempty"`
	Dht       bool     `json:"dht"`
	Fast      bool     `json:"fast"`
	Ext       bool     `json:"ext"`
	RC4       bool     `json:"rc4"`
	InitLen   int      `json:"init_len"`
	Reads     [][2]int `json:"reads"`
	NDeliver  int      `json:"delivered_len"`
	delivered []byte
	writes    []byte
	wire      []byte
	phases    [][]byte
	tape      []byte
}

type hcase struct {
	ID       int      `json:"id"`
	Group    int      `json:"group"`
	Kind     string   `json:"kind"` // pair | srv | cli | grid | conn
	COpts    [6]bool  `json:"copts"`
	SOpts    [6]bool  `json:"sopts"`
	Crypto   bool     `json:"crypto"`
	Hash     []byte   `json:"hash"`
	CId      []byte   `json:"cid"`
	SId      []byte   `json:"sid"`
	Other    [][]byte `json:"other,omitempty"` // other torrents the server knows (before ours)
	Tape     []byte   `json:"tape,omitempty"`
	Script   *script  `json:"script,omitempty"`
	CCuts    cutSpec  `json:"ccuts"`
	SCuts    cutSpec  `json:"scuts"`
	CPayload []byte   `json:"cpayload,omitempty"`
	SPayload []byte   `json:"spayload,omitempty"`
	Conn     *connCase `json:"conn,omitempty"`
	// observations
	C    *sideObs    `json:"c_obs,omitempty"`
	S    *sideObs    `json:"s_obs,omitempty"`
	Peer *peerResult `json:"peer,omitempty"`
}

func mkopts(b [6]bool) *crypto.Options {
	return &crypto.Options{
		AllowCryptoHandshake: b[0], PreferCryptoHandshake: b[1], ForceCryptoHandshake: b[2],
		AllowEncryption: b[3], PreferEncryption: b[4], ForceEncryption: b[5],
	}
}

var errCodes = []struct {
	s string
	c int
}{
	{"plaintext handshake forbidden", 1}, {"bad handshake", 2}, {"unexpected infoHash", 3},
	{"crypto handshake forbidden", 4}, {"trivial public key", 5}, {"couldn't negotiate encryption", 6},
	{"peer didn't negotiate encryption", 7}, {"peer did negotiate encryption", 8},
	{"bad value for cryptoSelect", 9}, {"unknown torrent", 10}, {"bad VC", 11},
	{"peer didn't provide a known crypto algorithm", 12}, {"extra data after handshake", 13},
	{"crypto hash mismatch", 14}, {"EOF", 99}, {"couldn't synchronise", 99}, {"pipe closed", 99},
}

func errCode(err error) int {
	if err == nil {
		return 0
	}
	for _, e := range errCodes {
		if strings.Contains(err.Error(), e.s) {
			return e.c
		}
	}
	return 98
}

var tape = &tapeReader{}

// runImpl runs one storrent side on e and then exchanges the post-handshake payload.
func runImpl(client bool, e *end, c *hcase, payload []byte) *sideObs {
	o := &sideObs{Role: "server"}
	var conn net.Conn
	var res protocol.HandshakeResult
	var init []byte
	var err error
	if client {
		o.Role = "client"
		conn, res, init, err = protocol.ClientHandshake(e, c.Crypto, hash.Hash(c.Hash), hash.Hash(c.CId), mkopts(c.COpts))
	} else {
		var hs []hash.HashPair
		for _, h := range c.Other {
			hs = append(hs, hash.HashPair{First: h, Second: c.SId})
		}
		hs = append(hs, hash.HashPair{First: c.Hash, Second: c.SId})
		conn, res, init, err = protocol.ServerHandshake(e, hs, mkopts(c.SOpts))
	}
	e.mu.Lock()
	nreads := len(e.reads)
	nw := e.nw
	e.maxread, e.cutpts = 0, nil
	e.mu.Unlock()
	o.Code = errCode(err)
	if err != nil {
		o.Err = err.Error()
		e.Close()
	} else {
		o.Hash, o.Id, o.Dht, o.Fast, o.Ext = res.Hash, res.Id, res.Dht, res.Fast, res.Extended
		o.RC4 = crypto.VerifIsConn(conn)
		o.InitLen = len(init)
		if len(payload) > 0 {
			conn.Write(payload)
		}
		e.CloseWrite()
		post, _ := io.ReadAll(conn)
		o.delivered = append(append([]byte(nil), init...), post...)
		o.NDeliver = len(o.delivered)
	}
	e.mu.Lock()
	o.Reads = append([][2]int(nil), e.reads[:nreads]...)
	e.mu.Unlock()
	o.writes = e.sentBytes(0, nw)
	o.wire = e.sentBytes(nw, 1<<30)
	o.phases = e.phases()
	return o
}

func setCuts(e *end, cs cutSpec) {
	e.maxread = cs.Max
	e.cutpts = cs.Pts
}

func runCase(c *hcase) {
	a, b := newPipe()
	setCuts(a, c.CCuts)
	setCuts(b, c.SCuts)
	tape.set(c.Tape)
	done := make(chan struct{})
	go func() {
		select {
		case <-done:
		case <-time.After(4 * time.Second):
			a.Close()
			b.Close()
		}
	}()
	var wg sync.WaitGroup
	switch c.Kind {
	case "pair", "grid":
		wg.Add(2)
		go func() { defer wg.Done(); c.S = runImpl(false, b, c, c.SPayload) }()
		go func() { defer wg.Done(); c.C = runImpl(true, a, c, c.CPayload) }()
	case "srv":
		wg.Add(2)
		go func() { defer wg.Done(); c.S = runImpl(false, b, c, c.SPayload) }()
		go func() { defer wg.Done(); r := peerClient(a, c.Script); c.Peer = &r }()
	case "cli":
		wg.Add(2)
		go func() { defer wg.Done(); c.C = runImpl(true, a, c, c.CPayload) }()
		go func() { defer wg.Done(); r := peerServer(b, c.Script); c.Peer = &r }()
	}
	wg.Wait()
	close(done)
	// split the tape between the two storrent sides: the client draws first
	used := 0
	if c.C != nil {
		c.C.tape = c.Tape
		if c.Crypto && c.COpts[0] && len(c.Tape) >= 22 {
			used = 22 + int(c.Tape[20]&1)<<8 + int(c.Tape[21])
		}
	}
	if c.S != nil {
		if used > len(c.Tape) {
			used = len(c.Tape)
		}
		c.S.tape = c.Tape[used:]
	}
}

// ---------- rendering ----------

func optsTerm(b [6]bool) string {
	return fmt.Sprintf("(mk_opts %s %s %s %s %s %s)", cq.Bool(b[0]), cq.Bool(b[1]), cq.Bool(b[2]), cq.Bool(b[3]), cq.Bool(b[4]), cq.Bool(b[5]))
}

func nlist(v []int) string {
	s := make([]string, len(v))
	for i, x := range v {
		s[i] = fmt.Sprint(x)
	}
	return "[" + strings.Join(s, ";") + "]"
}

// sideTerm renders one storrent side of a case as a Gallina [hcase].
func sideTerm(c *hcase, o *sideObs, id, pair int, payload, expect []byte, peerOK bool) string {
	client := o.Role == "client"
	opts := c.SOpts
	myid := c.SId
	if client {
		opts = c.COpts
		myid = c.CId
	}
	var hashes []string
	if !client {
		for _, h := range c.Other {
			hashes = append(hashes, "("+cq.Bytes(h)+", "+cq.Bytes(c.SId)+")")
		}
		hashes = append(hashes, "("+cq.Bytes(c.Hash)+", "+cq.Bytes(c.SId)+")")
	}
	var phases []string
	for _, p := range o.phases {
		phases = append(phases, cq.Bytes(p))
	}
	var orc, reads []string
	for _, r := range o.Reads {
		orc = append(orc, fmt.Sprint(r[1]))
		reads = append(reads, fmt.Sprintf("(%d,%d)", r[0], r[1]))
	}
	tp := o.tape
	if len(tp) > 700 {
		tp = tp[:700]
	}
	return fmt.Sprintf("mk_hcase %d %d %d %s %s %s\n  %s %s %s\n  %s\n  %s\n  [%s]\n  %d %s %s %s %s %s %s\n  [%s]\n  %s\n  %s\n  %s\n  %s\n  %s %s",
		id, c.Group, pair, cq.Bool(client), cq.Bool(c.Crypto), optsTerm(opts),
		cq.Bytes(c.Hash), cq.Bytes(myid), cq.List(hashes),
		cq.Bytes(tp),
		cq.List(phases),
		strings.Join(orc, ";"),
		o.Code, cq.Bytes(o.Hash), cq.Bytes(o.Id), cq.Bool(o.Dht), cq.Bool(o.Fast), cq.Bool(o.Ext), cq.Bool(o.RC4),
		strings.Join(reads, ";"),
		cq.Bytes(o.writes),
		cq.Bytes(o.delivered),
		cq.Bytes(payload),
		cq.Bytes(o.wire),
		cq.Bytes(expect), cq.Bool(peerOK))
}

func caseTerms(c *hcase) []string {
	switch c.Kind {
	case "pair":
		return []string{
			sideTerm(c, c.C, 2*c.ID, 2*c.ID+1, c.CPayload, c.SPayload, c.S.Code == 0),
			sideTerm(c, c.S, 2*c.ID+1, 2*c.ID, c.SPayload, c.CPayload, c.C.Code == 0),
		}
	case "srv":
		exp := c.Peer.AppSent
		ok := c.Peer.OK && bytes.Equal(c.Peer.Got, c.SPayload) && bytes.Equal(c.Peer.TheirId, c.SId)
		return []string{sideTerm(c, c.S, 2*c.ID+1, 0, c.SPayload, exp, ok)}
	case "cli":
		exp := c.Peer.AppSent
		ok := c.Peer.OK && bytes.Equal(c.Peer.Got, c.CPayload) && bytes.Equal(c.Peer.TheirId, c.CId)
		return []string{sideTerm(c, c.C, 2*c.ID, 0, c.CPayload, exp, ok)}
	}
	return nil
}

// ---------- generation ----------

var optSets = [][6]bool{
	{true, false, false, true, false, false}, // DefaultOptions(false, false)
	{true, true, false, true, true, false},   // DefaultOptions(true, false)
	{true, true, true, true, true, true},     // DefaultOptions(true, true)
}

func randOpts(r *rand.Rand) [6]bool {
	if r.Intn(4) > 0 {
		return optSets[r.Intn(3)]
	}
	var o [6]bool
	for i := range o {
		o[i] = r.Intn(2) == 0
	}
	return o
}

func rbytes(r *rand.Rand, n int) []byte {
	b := make([]byte, n)
	r.Read(b)
	return b
}

func pick(r *rand.Rand, v ...int) int { return v[r.Intn(len(v))] }

// mkTape builds the random tape for up to two storrent sides: secret, pad length, pad.
func mkTape(r *rand.Rand) []byte {
	var t []byte
	for i := 0; i < 2; i++ {
		t = append(t, secrets[r.Intn(3)]...)
		pl := pick(r, 0, 0, 1, 7, 100, 255, 256, 400, 511)
		t = append(t, byte(pl>>8), byte(pl&255))
		t = append(t, rbytes(r, pl)...)
	}
	return append(t, rbytes(r, 40)...)
}

func payloadOf(r *rand.Rand, tag byte) []byte {
	switch r.Intn(6) {
	case 0:
		return nil
	case 1:
		return bytes.Repeat([]byte{tag}, 1+r.Intn(300))
	default:
		return rbytes(r, 1+r.Intn(120))
	}
}

func schedules(r *rand.Rand, n int, streamLen int) []cutSpec {
	out := []cutSpec{{}, {Max: 1}}
	for len(out) < n {
		switch r.Intn(4) {
		case 0:
			out = append(out, cutSpec{Pts: []int{1 + r.Intn(streamLen)}})
		case 1:
			var pts []int
			for k := 0; k < 1+r.Intn(6); k++ {
				pts = append(pts, 1+r.Intn(streamLen))
			}
			sort.Ints(pts)
			out = append(out, cutSpec{Pts: pts})
		case 2:
			out = append(out, cutSpec{Max: 2 + r.Intn(100)})
		case 3:
			// a cut in the places where the buffer arithmetic changes
			out = append(out, cutSpec{Pts: []int{pick(r, 19, 20, 21, 47, 48, 49, 67, 68, 69, 95, 96, 97, 115, 116, 130, 136)}})
		}
	}
	return out
}

func baseCase(r *rand.Rand, kind string) *hcase {
	c := &hcase{Kind: kind, COpts: randOpts(r), SOpts: randOpts(r)}
	c.Hash = rbytes(r, 20)
	c.CId = rbytes(r, 20)
	c.SId = rbytes(r, 20)
	if r.Intn(3) == 0 {
		c.Other = [][]byte{rbytes(r, 20)}
	}
	c.Tape = mkTape(r)
	return c
}

func scriptFor(r *rand.Rand, c *hcase, clientRole bool) *script {
	sp := &script{MSE: c.Crypto, Hash: c.Hash}
	if clientRole {
		sp.Id = c.CId
	} else {
		sp.Id = c.SId
	}
	sp.Secret = secrets[pick(r, 3, 3, 0)]
	sp.Reserved = []byte{0, 0, 0, 0, 0, byte(pick(r, 0x10, 0x10, 0, 0xff)), 0, byte(pick(r, 5, 5, 1, 4, 0, 0xfa))}
	sp.Pad1 = rbytes(r, pick(r, 0, 0, 1, 17, 200, 511, 512))
	sp.Pad2 = rbytes(r, pick(r, 0, 0, 0, 1, 50, 512))
	sp.Provide = uint32(pick(r, 3, 3, 3, 2, 1, 1, 7, 0x80000003, 0, 4))
	sp.Select = uint32(pick(r, 0, 0, 0, 0, 1, 2, 3, 0x102))
	sp.IALen = pick(r, -1, -1, 68, 68, 0, 10, 20, 47, 70)
	sp.Glue = r.Intn(2) == 0
	switch r.Intn(5) {
	case 0:
	case 1:
		sp.Early = bytes.Repeat([]byte{0xEE}, 1+r.Intn(400))
	default:
		sp.Early = rbytes(r, 1+r.Intn(90))
	}
	if r.Intn(3) > 0 {
		sp.Late = rbytes(r, 1+r.Intn(60))
	}
	if r.Intn(12) == 0 {
		sp.Hash = rbytes(r, 20) // a torrent the other side does not serve
	}
	if r.Intn(14) == 0 {
		sp.Truncate = 1 + r.Intn(200)
	}
	if r.Intn(3) == 0 {
		sp.Split = []int{1 + r.Intn(100)}
	}
	return sp
}

func clone(c *hcase) *hcase {
	b, _ := json.Marshal(c)
	var d hcase
	json.Unmarshal(b, &d)
	return &d
}

func genHandshake(r *rand.Rand, n int, thorough bool) []*hcase {
	var cases []*hcase
	group := 0
	perGroup := 4
	for len(cases) < n {
		group++
		var c *hcase
		switch k := r.Intn(10); {
		case k < 3:
			c = baseCase(r, "pair")
			c.Crypto = r.Intn(3) > 0
			if r.Intn(2) == 0 {
				// make success likely
				c.COpts, c.SOpts = optSets[r.Intn(3)], optSets[r.Intn(3)]
				if c.COpts[5] || c.SOpts[5] {
					c.Crypto = true
				}
			}
			c.CPayload, c.SPayload = payloadOf(r, 0xC1), payloadOf(r, 0x51)
			if r.Intn(40) == 0 {
				c.CPayload = append(bytes.Repeat([]byte{0xAB}, 40000), bytes.Repeat([]byte{0xCD}, 30000)...)
			}
		case k < 7:
			c = baseCase(r, "srv")
			c.Crypto = r.Intn(4) > 0
			c.SOpts = optSets[r.Intn(3)]
			if r.Intn(5) == 0 {
				c.SOpts = randOpts(r)
			}
			c.Script = scriptFor(r, c, true)
			c.SPayload = payloadOf(r, 0x52)
		default:
			c = baseCase(r, "cli")
			c.Crypto = r.Intn(4) > 0
			c.COpts = optSets[r.Intn(3)]
			if r.Intn(5) == 0 {
				c.COpts = randOpts(r)
			}
			if c.COpts[5] || c.COpts[2] {
				c.Crypto = true
			}
			c.Script = scriptFor(r, c, false)
			if r.Intn(15) == 0 {
				c.Script.Reserved = nil // a reply that is not a BitTorrent handshake
				c.Script.Id = append(c.Script.Id, 1, 2, 3, 4, 5, 6, 7, 8)
			}
			c.CPayload = payloadOf(r, 0xC2)
		}
		c.Group = group
		k := perGroup
		if thorough && group%25 == 0 {
			k = 0 // every single cut point
		}
		var scheds []cutSpec
		if k == 0 {
			scheds = []cutSpec{{}}
			for p := 1; p <= 260; p++ {
				scheds = append(scheds, cutSpec{Pts: []int{p}})
			}
		} else {
			scheds = schedules(r, k, 800)
		}
		for _, s := range scheds {
			d := clone(c)
			d.ID = len(cases)
			d.CCuts, d.SCuts = s, s
			cases = append(cases, d)
		}
	}
	return cases
}

// ---------- C08: the policy grid ----------

type gridObs struct {
	ID            int
	Crypto        bool
	CO, SO        int
	COk, SOk      bool
	CRC4, SRC4    bool
	CPlain, SPlain bool // the payload appeared verbatim on the wire
	CAgree         bool // the results of the two ends match
}

func bits(v int) [6]bool {
	var o [6]bool
	for i := range o {
		o[i] = v&(1<<i) != 0
	}
	return o
}

func runGrid(r *rand.Rand, thorough bool) []gridObs {
	var out []gridObs
	id := 0
	for _, cr := range []bool{false, true} {
		for co := 0; co < 64; co++ {
			for so := 0; so < 64; so++ {
				id++
				c := &hcase{Kind: "grid", ID: id, Crypto: cr, COpts: bits(co), SOpts: bits(so)}
				c.Hash, c.CId, c.SId = rbytes(r, 20), rbytes(r, 20), rbytes(r, 20)
				c.Tape = mkTape(r)
				c.CPayload = []byte("payload of the client, in the clear?")
				c.SPayload = []byte("payload of the server, in the clear?")
				runCase(c)
				g := gridObs{ID: id, Crypto: cr, CO: co, SO: so, COk: c.C.Code == 0, SOk: c.S.Code == 0, CRC4: c.C.RC4, SRC4: c.S.RC4}
				g.CPlain = bytes.Equal(c.C.wire, c.CPayload)
				g.SPlain = bytes.Equal(c.S.wire, c.SPayload)
				g.CAgree = g.COk && g.SOk && bytes.Equal(c.C.Id, c.SId) && bytes.Equal(c.S.Id, c.CId) &&
					bytes.Equal(c.C.Hash, c.Hash) && bytes.Equal(c.S.Hash, c.Hash) &&
					bytes.Equal(c.C.delivered, c.SPayload) && bytes.Equal(c.S.delivered, c.CPayload)
				out = append(out, g)
			}
		}
	}
	return out
}

// ---------- C08: the encrypted connection ----------

type connOp struct {
	Write  int     `json:"write"`            // bytes written by this call (pattern derived from the offset)
	Script []wstep `json:"script,omitempty"` // behaviour of the underlying Write calls it makes
	N      int     `json:"n"`
	Failed bool    `json:"failed"`
}

type connCase struct {
	Key      []byte   `json:"key"`
	Ops      []connOp `json:"ops"`
	ReadCuts cutSpec  `json:"read_cuts"`
	ReadBufs []int    `json:"read_bufs"`
	Got      int      `json:"got"`
	wire     []byte
	plain    []byte
	got      []byte
}

func pat(off, n int) []byte {
	b := make([]byte, n)
	for i := range b {
		b[i] = byte(((off + i) / 1024) & 0xff)
	}
	return b
}

func runConn(cc *connCase) {
	a, b := newPipe()
	for _, op := range cc.Ops {
		if len(op.Script) == 0 {
			// as many unscripted underlying writes as this call makes
			for k := 0; k < (op.Write+32767)/32768; k++ {
				a.wscript = append(a.wscript, wstep{Accept: -1})
			}
		} else {
			a.wscript = append(a.wscript, op.Script...)
		}
	}
	wc, _ := crypto.VerifNewConn(a, cc.Key, cc.Key)
	setCuts(b, cc.ReadCuts)
	rc, _ := crypto.VerifNewConn(b, cc.Key, cc.Key)
	off := 0
	for i := range cc.Ops {
		op := &cc.Ops[i]
		data := pat(off, op.Write)
		off += op.Write
		cc.plain = append(cc.plain, data...)
		before := a.nw
		n, err := wc.Write(data)
		op.N, op.Failed = n, err != nil
		// a call that made fewer underlying writes than scripted: drop the unused steps
		made := a.nw - before
		want := len(op.Script)
		if want == 0 {
			want = (op.Write + 32767) / 32768
		}
		if made < want {
			a.mu.Lock()
			a.wscript = append(a.wscript[:a.nw], a.wscript[a.nw+want-made:]...)
			a.mu.Unlock()
		}
	}
	a.CloseWrite()
	cc.wire = a.sentBytes(0, 1<<30)
	i := 0
	for {
		sz := 4096
		if len(cc.ReadBufs) > 0 {
			sz = cc.ReadBufs[i%len(cc.ReadBufs)]
			i++
		}
		buf := make([]byte, sz)
		n, err := rc.Read(buf)
		cc.got = append(cc.got, buf[:n]...)
		if err != nil {
			break
		}
	}
	cc.Got = len(cc.got)
}

func genConn(r *rand.Rand, n int) []*hcase {
	var out []*hcase
	for i := 0; i < n; i++ {
		cc := &connCase{Key: rbytes(r, 5+r.Intn(12))}
		nops := 1 + r.Intn(4)
		total := 0
		for k := 0; k < nops; k++ {
			op := connOp{Write: pick(r, 0, 1, 100, 5000, 32767, 32768, 32769, 40000, 65536, 70000)}
			if total+op.Write > 110000 {
				op.Write = pick(r, 0, 1, 100, 5000)
			}
			total += op.Write
			if i%8 == 7 {
				op.Write = pick(r, 1, 100, 3000)
			}
			if r.Intn(3) == 0 && op.Write > 0 {
				calls := (op.Write + 32767) / 32768
				failAt := r.Intn(calls)
				for j := 0; j < calls; j++ {
					st := wstep{Accept: -1}
					if j == failAt {
						m := op.Write - j*32768
						if m > 32768 {
							m = 32768
						}
						switch r.Intn(3) {
						case 0:
							st = wstep{Accept: r.Intn(m), Fail: true, Timeout: r.Intn(2) == 0}
						case 1:
							st = wstep{Accept: r.Intn(m), Fail: false} // a short write without an error
						case 2:
							st = wstep{Accept: -1, Fail: true, Timeout: r.Intn(2) == 0}
						}
					}
					op.Script = append(op.Script, st)
				}
			}
			cc.Ops = append(cc.Ops, op)
		}
		switch r.Intn(3) {
		case 0:
			cc.ReadCuts = cutSpec{Max: 1 + r.Intn(5000)}
		case 1:
			cc.ReadCuts = cutSpec{Pts: []int{1 + r.Intn(40000)}}
		}
		for k := 0; k < r.Intn(4); k++ {
			cc.ReadBufs = append(cc.ReadBufs, pick(r, 1, 7, 100, 4096, 32768, 100000))
		}
		out = append(out, &hcase{Kind: "conn", Conn: cc})
	}
	return out
}

func connTerm(c *hcase) string {
	cc := c.Conn
	var ops []string
	for _, op := range cc.Ops {
		var sc []string
		calls := (op.Write + 32767) / 32768
		for j := 0; j < calls; j++ {
			st := wstep{Accept: -1}
			if j < len(op.Script) {
				st = op.Script[j]
			}
			acc := "1000000"
			if st.Accept >= 0 {
				acc = fmt.Sprint(st.Accept)
			}
			sc = append(sc, fmt.Sprintf("(%s,%s)", acc, cq.Bool(st.Fail)))
		}
		ops = append(ops, fmt.Sprintf("(mk_cop %d [%s] %d %s)", op.Write, strings.Join(sc, ";"), op.N, cq.Bool(op.Failed)))
	}
	return fmt.Sprintf("mk_ccase %d %s [%s]\n  %s\n  %s", c.ID, cq.Bytes(cc.Key), strings.Join(ops, "; "), cq.Bytes(cc.wire), cq.Bytes(cc.got))
}

// ---------- main ----------

type lockedRand struct {
	mu sync.Mutex
	r  *rand.Rand
}

func main() {
	fs := flag.NewFlagSet("handshake", flag.ExitOnError)
	prop := fs.String("prop", "C07", "property")
	out := fs.String("out", "", "output directory")
	n := fs.Int("n", 300, "number of cases")
	casef := fs.String("case", "", "case file (replay)")
	fs.Parse(os.Args[2:])
	os.MkdirAll(*out, 0o755)
	crand.Reader = tape
	_ = rc4.KeySizeError(0)
	r := cq.Rand()
	thorough := cq.Thorough()
	var cases []*hcase
	var grid []gridObs
	switch os.Args[1] {
	case "gen":
		if *prop == "C07" {
			cases = genHandshake(r, *n, thorough)
		} else {
			grid = runGrid(r, thorough)
			nc := *n / 8
			cases = genConn(r, nc)
			hs := genHandshake(r, *n-nc, false)
			cases = append(cases, hs...)
			for i, c := range cases {
				c.ID = i
			}
		}
	case "replay":
		data, _ := os.ReadFile(*casef)
		var wrap struct {
			Case  hcase   `json:"case"`
			Cases []hcase `json:"cases"`
		}
		json.Unmarshal(data, &wrap)
		if len(wrap.Cases) > 0 {
			for i := range wrap.Cases {
				cases = append(cases, &wrap.Cases[i])
			}
		} else {
			cases = []*hcase{&wrap.Case}
		}
		for i, c := range cases {
			c.ID = i
		}
	}
	kinds := map[string]int{}
	outcomes := map[string]int{}
	distinct := map[string]bool{}
	var cterms []string
	var termGroups [][]string
	for _, c := range cases {
		if c.Kind == "conn" {
			runConn(c.Conn)
			cterms = append(cterms, connTerm(c))
			kinds["conn"]++
			distinct[fmt.Sprintf("conn/%v/%d", c.Conn.Ops, c.Conn.Got)] = true
			continue
		}
		runCase(c)
		termGroups = append(termGroups, caseTerms(c))
		k := c.Kind
		if c.Crypto {
			k += "/mse"
		} else {
			k += "/plain"
		}
		kinds[k]++
		for _, o := range []*sideObs{c.C, c.S} {
			if o != nil {
				outcomes[fmt.Sprintf("%s:%d", o.Role, o.Code)]++
				if o.InitLen > 0 {
					outcomes[o.Role+":init>0"]++
				}
				distinct[fmt.Sprintf("%d/%s/%d/%v/%d", c.Group, o.Role, o.Code, o.Reads, o.NDeliver)] = true
			}
		}
	}
	jf, _ := os.Create(filepath.Join(*out, "cases.jsonl"))
	for _, c := range cases {
		// ids of the Gallina cases: 2*ID (client side), 2*ID+1 (server side); conn: ID
		b, _ := json.Marshal(c)
		if c.Kind == "conn" {
			jf.Write(append(b, '\n'))
			continue
		}
		var m map[string]interface{}
		json.Unmarshal(b, &m)
		for _, id := range []int{2 * c.ID, 2*c.ID + 1} {
			m["id"] = id
			m["case_id"] = c.ID
			bb, _ := json.Marshal(m)
			jf.Write(append(bb, '\n'))
		}
	}
	for _, g := range grid {
		b, _ := json.Marshal(map[string]interface{}{"id": 1000000 + g.ID, "kind": "grid", "crypto": g.Crypto, "copts": bits(g.CO), "sopts": bits(g.SO), "obs": g})
		jf.Write(append(b, '\n'))
	}
	jf.Close()
	header := "From Storrent Require Import Base.Bytes Base.Bencode Base.Crypto Model.Hs Model.Mse Model.CryptoConn Check.DhTable Check.MseCheck.\nOpen Scope N_scope.\n"
	nshard := 0
	per := 12
	var cur []string
	flush := func() {
		if len(cur) == 0 {
			return
		}
		var sb bytes.Buffer
		sb.WriteString(header)
		sb.WriteString("Definition cases : list hcase := [\n" + strings.Join(cur, ";\n") + "\n].\n")
		sb.WriteString("Definition BC := Eval vm_compute in bad_corr_hs cases.\nDefinition BM := Eval vm_compute in bad_monitor_" + strings.ToLower(*prop) + " cases.\nDefinition WHY := Eval vm_compute in why_hs cases.\nPrint BC. Print BM. Print WHY.\n")
		os.WriteFile(filepath.Join(*out, fmt.Sprintf("shard%03d.v", nshard)), sb.Bytes(), 0o644)
		nshard++
		cur = nil
	}
	for _, g := range termGroups {
		cur = append(cur, g...)
		if len(cur) >= per {
			flush()
		}
	}
	flush()
	// group consistency needs all members of a group in one file: groups are generated
	// contiguously and [per] is a multiple of nothing in particular, so it is checked
	// separately on a digest of each case
	if len(termGroups) > 0 {
		var sb bytes.Buffer
		sb.WriteString(header)
		var ds []string
		classes := streamClasses(cases)
		for _, c := range cases {
			if c.Kind == "conn" {
				continue
			}
			for _, o := range []*sideObs{c.C, c.S} {
				if o == nil {
					continue
				}
				id := 2 * c.ID
				if o.Role == "server" {
					id++
				}
				od := sha([]byte{byte(o.Code)})
				if o.Code == 0 {
					od = sha(o.Hash, o.Id, []byte{b2i(o.Dht), b2i(o.Fast), b2i(o.Ext), b2i(o.RC4)}, sha(o.delivered), sha(o.writes))
				}
				ds = append(ds, fmt.Sprintf("mk_digest %d %d %s %d %s", id, c.Group, cq.Bool(o.Role == "client"), classes[id], cq.Bytes(od)))
			}
		}
		sb.WriteString("Definition digests : list digest := [\n" + strings.Join(ds, ";\n") + "\n].\n")
		sb.WriteString("Definition BM := Eval vm_compute in bad_groups digests.\nPrint BM.\n")
		os.WriteFile(filepath.Join(*out, fmt.Sprintf("shard%03d.v", nshard)), sb.Bytes(), 0o644)
		nshard++
	}
	for i := 0; i < len(cterms); i += 4 {
		j := i + 4
		if j > len(cterms) {
			j = len(cterms)
		}
		var sb bytes.Buffer
		sb.WriteString(header)
		sb.WriteString("Definition cases : list ccase := [\n" + strings.Join(cterms[i:j], ";\n") + "\n].\n")
		sb.WriteString("Definition BC := Eval vm_compute in bad_corr_conn cases.\nDefinition BM := Eval vm_compute in bad_monitor_conn cases.\nPrint BC. Print BM.\n")
		os.WriteFile(filepath.Join(*out, fmt.Sprintf("shard%03d.v", nshard)), sb.Bytes(), 0o644)
		nshard++
	}
	if len(grid) > 0 {
		var sb bytes.Buffer
		sb.WriteString(header)
		var gs []string
		for _, g := range grid {
			gs = append(gs, fmt.Sprintf("mk_gcase %d %s %d %d %s %s %s %s %s %s %s", 1000000+g.ID, cq.Bool(g.Crypto), g.CO, g.SO,
				cq.Bool(g.COk), cq.Bool(g.SOk), cq.Bool(g.CRC4), cq.Bool(g.SRC4), cq.Bool(g.CPlain), cq.Bool(g.SPlain), cq.Bool(g.CAgree)))
		}
		sb.WriteString("Definition cases : list gcase := [\n" + strings.Join(gs, ";\n") + "\n].\n")
		sb.WriteString("Definition BC := Eval vm_compute in bad_corr_grid cases.\nDefinition BM := Eval vm_compute in bad_monitor_grid cases.\nDefinition GRIDN := Eval vm_compute in [N.of_nat (length cases)].\nPrint BC. Print BM. Print GRIDN.\n")
		os.WriteFile(filepath.Join(*out, fmt.Sprintf("shard%03d.v", nshard)), sb.Bytes(), 0o644)
		nshard++
	}
	var samples []*hcase
	for i, c := range cases {
		if (i%131 == 1 || len(cases) < 4) && (c.Conn == nil || len(c.Conn.Ops) < 3) {
			samples = append(samples, c)
		}
	}
	meta := map[string]interface{}{
		"evaluations":         len(cases) + len(grid),
		"distinct_nontrivial": len(distinct) + len(grid),
		"rule":                "one evaluation = one real handshake run (one segmentation of one scenario; both storrent ends of a pair are judged), one cell of the 2x64x64 policy grid, or one scripted Write/Read sequence on a real crypto.Conn; distinct = new (scenario, role, outcome, read pattern, delivered length)",
		"kinds":               kinds,
		"outcomes":            outcomes,
		"grid_cells":          len(grid),
		"samples":             samples,
		"shards":              nshard,
	}
	b, _ := json.MarshalIndent(meta, "", " ")
	os.WriteFile(filepath.Join(*out, "meta.json"), b, 0o644)
}

// streamClasses: within a group and role, the cases whose incoming streams are a prefix of the
// longest one (the peer stopped early only because our side had given up) are class 0; a stream
// that really differs gets a class of its own.
func streamClasses(cases []*hcase) map[int]int {
	type key struct {
		g    int
		role string
	}
	streams := map[int][]byte{}
	longest := map[key][]byte{}
	keys := map[int]key{}
	for _, c := range cases {
		for _, o := range []*sideObs{c.C, c.S} {
			if o == nil {
				continue
			}
			id := 2 * c.ID
			if o.Role == "server" {
				id++
			}
			var all []byte
			for _, p := range o.phases {
				all = append(all, p...)
			}
			streams[id] = all
			k := key{c.Group, o.Role}
			keys[id] = k
			if len(all) >= len(longest[k]) {
				longest[k] = all
			}
		}
	}
	out := map[int]int{}
	for id, st := range streams {
		if bytes.HasPrefix(longest[keys[id]], st) {
			out[id] = 0
		} else {
			out[id] = id + 1
		}
	}
	return out
}

func b2i(b bool) byte {
	if b {
		return 1
	}
	return 0
}
