package main

import (
	"errors"
	"io"
	"net"
	"sync"
	"time"
)

// A duplex in-memory connection whose reads are cut by a schedule.  Each end
// logs every Read (capacity, returned) and every Write, and tags what it writes
// with the number of the other end's writes it had begun to see: the bytes
// tagged k cannot have been sent before the other end's k-th Write.

type chunk struct {
	data []byte
	tag  int
	idx  int
}

type end struct {
	mu      *sync.Mutex
	peer    *end
	q       []chunk // incoming, not yet read
	qbytes  int
	eof     bool // the other end closed its writing side
	closed  bool
	waiting bool
	pos     int   // bytes read so far
	cutpts  []int // absolute offsets at which a Read stops
	maxread int   // >0: no Read returns more
	reads   [][2]int
	sent    []chunk
	nw      int
	seen    int
	// scripted failure of Write calls: failAt[i] = (accept, fail) for the i-th Write
	wscript []wstep
	notify  chan struct{}
}

type wstep struct {
	Accept  int  `json:"accept"` // bytes accepted (-1: all)
	Fail    bool `json:"fail"`
	Timeout bool `json:"timeout,omitempty"` // the error is a net.Error reporting a timeout
}

type timeoutErr struct{}

func (timeoutErr) Error() string   { return "scripted i/o timeout" }
func (timeoutErr) Timeout() bool   { return true }
func (timeoutErr) Temporary() bool { return true }

type addr struct{}

func (addr) Network() string { return "pipe" }
func (addr) String() string  { return "pipe" }

func newPipe() (*end, *end) {
	mu := &sync.Mutex{}
	a := &end{mu: mu, notify: make(chan struct{}, 1)}
	b := &end{mu: mu, notify: make(chan struct{}, 1)}
	a.peer, b.peer = b, a
	return a, b
}

func (e *end) wake() {
	select {
	case e.notify <- struct{}{}:
	default:
	}
}

var errClosed = errors.New("pipe closed")

func (e *end) Read(b []byte) (int, error) {
	if len(b) == 0 {
		return 0, nil
	}
	e.mu.Lock()
	for {
		if e.closed {
			e.mu.Unlock()
			return 0, errClosed
		}
		if e.qbytes > 0 {
			break
		}
		if e.eof {
			e.mu.Unlock()
			return 0, io.EOF
		}
		e.waiting = true
		e.mu.Unlock()
		select {
		case <-e.notify:
		case <-time.After(20 * time.Millisecond):
		}
		e.mu.Lock()
		e.waiting = false
	}
	want := len(b)
	for _, c := range e.cutpts {
		if c > e.pos {
			if c-e.pos < want {
				want = c - e.pos
			}
			break
		}
	}
	if e.maxread > 0 && want > e.maxread {
		want = e.maxread
	}
	// let the data of the scheduled size arrive unless the other end is itself waiting for us
	for tries := 0; e.qbytes < want && !e.peer.waiting && !e.eof && !e.closed && tries < 60; tries++ {
		e.mu.Unlock()
		time.Sleep(50 * time.Microsecond)
		e.mu.Lock()
	}
	n := 0
	for n < want && len(e.q) > 0 {
		c := &e.q[0]
		if c.idx+1 > e.seen {
			e.seen = c.idx + 1
		}
		k := copy(b[n:want], c.data)
		n += k
		c.data = c.data[k:]
		if len(c.data) == 0 {
			e.q = e.q[1:]
		}
	}
	e.qbytes -= n
	e.pos += n
	e.reads = append(e.reads, [2]int{len(b), n})
	e.mu.Unlock()
	return n, nil
}

func (e *end) Write(b []byte) (int, error) {
	e.mu.Lock()
	defer e.mu.Unlock()
	if e.closed {
		return 0, errClosed
	}
	if e.peer.eof {
		// written after CloseWrite: dropped, always (whether the other side would still have
		// seen it used to depend on how far it had read)
		return len(b), nil
	}
	n := len(b)
	var err error
	if e.nw < len(e.wscript) {
		st := e.wscript[e.nw]
		if st.Accept >= 0 && st.Accept < n {
			n = st.Accept
		}
		if st.Fail {
			err = errors.New("scripted write failure")
			if st.Timeout {
				err = &net.OpError{Op: "write", Net: "pipe", Err: timeoutErr{}}
			}
		}
	}
	d := make([]byte, n)
	copy(d, b)
	c := chunk{data: d, tag: e.seen, idx: e.nw}
	e.nw++
	e.sent = append(e.sent, chunk{data: d, tag: c.tag, idx: c.idx})
	if n > 0 {
		e.peer.q = append(e.peer.q, c)
		e.peer.qbytes += n
	}
	e.peer.wake()
	return n, err
}

func (e *end) CloseWrite() {
	e.mu.Lock()
	e.peer.eof = true
	e.mu.Unlock()
	e.peer.wake()
}

func (e *end) Close() error {
	e.mu.Lock()
	e.closed = true
	e.peer.eof = true
	e.mu.Unlock()
	e.wake()
	e.peer.wake()
	return nil
}

func (e *end) LocalAddr() net.Addr                { return addr{} }
func (e *end) RemoteAddr() net.Addr               { return addr{} }
func (e *end) SetDeadline(t time.Time) error      { return nil }
func (e *end) SetReadDeadline(t time.Time) error  { return nil }
func (e *end) SetWriteDeadline(t time.Time) error { return nil }

// phases returns what this end received or could still receive, grouped by tag.
func (e *end) phases() [][]byte {
	e.mu.Lock()
	defer e.mu.Unlock()
	var out [][]byte
	for _, c := range e.peer.sent {
		for len(out) <= c.tag {
			out = append(out, nil)
		}
		out[c.tag] = append(out[c.tag], c.data...)
	}
	return out
}

func (e *end) sentBytes(from, to int) []byte {
	e.mu.Lock()
	defer e.mu.Unlock()
	var out []byte
	for _, c := range e.sent {
		if c.idx >= from && c.idx < to {
			out = append(out, c.data...)
		}
	}
	return out
}

// the deterministic source behind crypto/rand.Reader
type tapeReader struct {
	mu   sync.Mutex
	tape []byte
	pos  int
}

func (t *tapeReader) Read(b []byte) (int, error) {
	t.mu.Lock()
	defer t.mu.Unlock()
	for i := range b {
		if t.pos < len(t.tape) {
			b[i] = t.tape[t.pos]
		} else {
			b[i] = 0
		}
		t.pos++
	}
	return len(b), nil
}

func (t *tapeReader) set(tape []byte) {
	t.mu.Lock()
	t.tape = tape
	t.pos = 0
	t.mu.Unlock()
}

func (t *tapeReader) used() int {
	t.mu.Lock()
	defer t.mu.Unlock()
	return t.pos
}
