package main

import (
	"bytes"
	"crypto/rc4"
	"crypto/sha1"
	"encoding/binary"
	"errors"
	"io"
	"math/big"
)

// An MSE / BitTorrent handshake peer written for the harness from the
// specification (https://wiki.vuze.com/w/Message_Stream_Encryption), sharing no
// code with storrent.  It is scripted: pads, crypto_provide / crypto_select, the
// split of the initial payload and the data glued after the handshake are
// parameters.

var mseP, _ = new(big.Int).SetString("FFFFFFFFFFFFFFFFC90FDAA22168C234C4C6628B80DC1CD129024E088A67CC74020BBEA63B139B22514A08798E3404DDEF9519B3CD3A431B302B0A6DF25F14374FE1356D6D51C245E485B576625E7EC6F44C42E9A63A36210000000000090563", 16)

var btHeader = append([]byte{19}, []byte("BitTorrent protocol")...)

type script struct {
	MSE      bool   `json:"mse"`
	Secret   []byte `json:"secret"`   // DH secret of the peer
	Pad1     []byte `json:"pad1"`     // PadA (client role) or PadB (server role)
	Pad2     []byte `json:"pad2"`     // PadC (client role) or PadD (server role)
	Provide  uint32 `json:"provide"`  // client role
	Select   uint32 `json:"select"`   // server role; 0: choose RC4 if offered else plaintext
	IALen    int    `json:"ialen"`    // client role: bytes of (handshake ++ early) sent as IA (-1: all)
	Reserved []byte `json:"reserved"` // the 8 reserved bytes the peer sends
	Hash     []byte `json:"hash"`
	Id       []byte `json:"id"`
	Early    []byte `json:"early"` // glued after the BitTorrent handshake
	Late     []byte `json:"late"`  // sent once the other end's handshake has been read
	Glue     bool   `json:"glue"`  // server role: step 4, handshake and early data in one Write
	Split    []int  `json:"split"` // the peer's own Write boundaries for its first burst
	Truncate int    `json:"truncate"`
}

func sha(parts ...[]byte) []byte {
	h := sha1.New()
	for _, p := range parts {
		h.Write(p)
	}
	return h.Sum(nil)
}

func xorBytes(a, b []byte) []byte {
	o := make([]byte, len(a))
	for i := range a {
		o[i] = a[i] ^ b[i]
	}
	return o
}

func streamCipher(label string, s, skey []byte) *rc4.Cipher {
	c, _ := rc4.NewCipher(sha([]byte(label), s, skey))
	d := make([]byte, 1024)
	c.XORKeyStream(d, d)
	return c
}

func crypt(c *rc4.Cipher, b []byte) []byte {
	o := make([]byte, len(b))
	c.XORKeyStream(o, b)
	return o
}

func pub(secret []byte) []byte {
	y := new(big.Int).Exp(big.NewInt(2), new(big.Int).SetBytes(secret), mseP)
	return y.FillBytes(make([]byte, 96))
}

func shared(their, secret []byte) []byte {
	s := new(big.Int).Exp(new(big.Int).SetBytes(their), new(big.Int).SetBytes(secret), mseP)
	return s.FillBytes(make([]byte, 96))
}

func (sp *script) handshake() []byte {
	var b []byte
	b = append(b, btHeader...)
	b = append(b, sp.Reserved...)
	b = append(b, sp.Hash...)
	b = append(b, sp.Id...)
	return b
}

func writeSplit(w io.Writer, b []byte, split []int) error {
	prev := 0
	for _, s := range split {
		if s > prev && s < len(b) {
			if _, err := w.Write(b[prev:s]); err != nil {
				return err
			}
			prev = s
		}
	}
	if prev < len(b) {
		_, err := w.Write(b[prev:])
		return err
	}
	return nil
}

// scanFor reads from r until pat has been seen, within limit bytes; returns what followed pat.
func scanFor(r io.Reader, have []byte, pat []byte, limit int) ([]byte, error) {
	buf := append([]byte(nil), have...)
	for {
		if i := bytes.Index(buf, pat); i >= 0 {
			return buf[i+len(pat):], nil
		}
		if len(buf) >= limit {
			return nil, errors.New("marker not found")
		}
		tmp := make([]byte, 256)
		n, err := r.Read(tmp)
		buf = append(buf, tmp[:n]...)
		if n == 0 && err != nil {
			return nil, err
		}
	}
}

type bufReader struct {
	r   io.Reader
	buf []byte
	dec *rc4.Cipher
}

func (b *bufReader) Read(p []byte) (int, error) {
	if len(b.buf) > 0 {
		n := copy(p, b.buf)
		b.buf = b.buf[n:]
		if b.dec != nil {
			b.dec.XORKeyStream(p[:n], p[:n])
		}
		return n, nil
	}
	n, err := b.r.Read(p)
	if b.dec != nil {
		b.dec.XORKeyStream(p[:n], p[:n])
	}
	return n, err
}

type peerResult struct {
	OK       bool   `json:"ok"`
	Err      string `json:"err"`
	Got      []byte `json:"-"`
	RC4      bool   `json:"rc4"`
	TheirId  []byte `json:"-"`
	TheirRsv []byte `json:"-"`
	// the bytes following our handshake that we really put on the wire (a script cut short by
	// Truncate half-closes after its first flight: what it would have written later is dropped)
	AppSent []byte `json:"-"`
}

func afterHandshake(b []byte) []byte {
	if len(b) <= 68 {
		return nil
	}
	return append([]byte(nil), b[68:]...)
}

// checkHandshake verifies the other end's BitTorrent handshake.
func (sp *script) checkHandshake(hs []byte, res *peerResult) error {
	if !bytes.Equal(hs[:20], btHeader) {
		return errors.New("peer: bad header in reply")
	}
	if !bytes.Equal(hs[28:48], sp.Hash) {
		return errors.New("peer: wrong info-hash in reply")
	}
	res.TheirRsv = hs[20:28]
	res.TheirId = hs[48:68]
	return nil
}

// peerClient plays the connecting side against a storrent server.
func peerClient(e *end, sp *script) (res peerResult) {
	fail := func(err error) peerResult {
		res.Err = err.Error()
		e.Close()
		return res
	}
	plain := append(sp.handshake(), sp.Early...)
	var rd io.Reader = e
	var wr io.Writer = e
	if !sp.MSE {
		if sp.Truncate > 0 && sp.Truncate < len(plain) {
			plain = plain[:sp.Truncate]
		}
		if err := writeSplit(e, plain, sp.Split); err != nil {
			return fail(err)
		}
		res.AppSent = afterHandshake(plain)
		if sp.Truncate > 0 {
			e.CloseWrite()
		}
	} else {
		first := append(pub(sp.Secret), sp.Pad1...)
		if err := writeSplit(e, first, sp.Split); err != nil {
			return fail(err)
		}
		yb := make([]byte, 96)
		if _, err := io.ReadFull(e, yb); err != nil {
			return fail(err)
		}
		s := shared(yb, sp.Secret)
		enc := streamCipher("keyA", s, sp.Hash)
		dec := streamCipher("keyB", s, sp.Hash)
		ialen := sp.IALen
		if ialen < 0 || ialen > len(plain) {
			ialen = len(plain)
		}
		var m []byte
		m = append(m, sha([]byte("req1"), s)...)
		m = append(m, xorBytes(sha([]byte("req2"), sp.Hash), sha([]byte("req3"), s))...)
		var t []byte
		t = append(t, make([]byte, 8)...)
		t = binary.BigEndian.AppendUint32(t, sp.Provide)
		t = binary.BigEndian.AppendUint16(t, uint16(len(sp.Pad2)))
		t = append(t, sp.Pad2...)
		t = binary.BigEndian.AppendUint16(t, uint16(ialen))
		t = append(t, plain[:ialen]...)
		m = append(m, crypt(enc, t)...)
		if sp.Truncate > 0 && sp.Truncate < len(m) {
			m = m[:sp.Truncate]
		}
		if err := writeSplit(e, m, nil); err != nil {
			return fail(err)
		}
		if sp.Truncate > 0 {
			e.CloseWrite()
		}
		rest, err := scanFor(e, nil, crypt(dec, make([]byte, 8)), 96+512+8)
		if err != nil {
			return fail(err)
		}
		br := &bufReader{r: e, buf: rest}
		hd := make([]byte, 6)
		if _, err := io.ReadFull(br, hd); err != nil {
			return fail(err)
		}
		hd = crypt(dec, hd)
		sel := binary.BigEndian.Uint32(hd)
		padd := make([]byte, binary.BigEndian.Uint16(hd[4:]))
		if _, err := io.ReadFull(br, padd); err != nil {
			return fail(err)
		}
		crypt(dec, padd)
		if sel&sp.Provide == 0 || (sel != 1 && sel != 2) {
			return fail(errors.New("peer: server selected a method that was not offered"))
		}
		if sel == 2 {
			res.RC4 = true
			br.dec = dec
			wr = cryptWriter{e, enc}
		}
		rd = br
		res.AppSent = afterHandshake(plain[:ialen])
		if ialen < len(plain) {
			if _, err := wr.Write(plain[ialen:]); err != nil {
				return fail(err)
			}
			if sp.Truncate == 0 {
				res.AppSent = afterHandshake(plain)
			}
		}
	}
	hs := make([]byte, 68)
	if _, err := io.ReadFull(rd, hs); err != nil {
		return fail(err)
	}
	if err := sp.checkHandshake(hs, &res); err != nil {
		return fail(err)
	}
	if len(sp.Late) > 0 {
		if _, err := wr.Write(sp.Late); err != nil {
			return fail(err)
		}
		if sp.Truncate == 0 {
			res.AppSent = append(res.AppSent, sp.Late...)
		}
	}
	e.CloseWrite()
	res.Got, _ = io.ReadAll(rd)
	res.OK = true
	return res
}

type cryptWriter struct {
	w   io.Writer
	enc *rc4.Cipher
}

func (c cryptWriter) Write(b []byte) (int, error) {
	return c.w.Write(crypt(c.enc, b))
}

// peerServer plays the accepting side against a storrent client.
func peerServer(e *end, sp *script) (res peerResult) {
	fail := func(err error) peerResult {
		res.Err = err.Error()
		e.Close()
		return res
	}
	var rd io.Reader = e
	var wr io.Writer = e
	reply := append(sp.handshake(), sp.Early...)
	var hs []byte
	if !sp.MSE {
		hs = make([]byte, 68)
		if _, err := io.ReadFull(e, hs); err != nil {
			return fail(err)
		}
		if sp.Truncate > 0 && sp.Truncate < len(reply) {
			reply = reply[:sp.Truncate]
		}
		if err := writeSplit(e, reply, sp.Split); err != nil {
			return fail(err)
		}
		res.AppSent = afterHandshake(reply)
		if sp.Truncate > 0 {
			e.CloseWrite()
		}
	} else {
		ya := make([]byte, 96)
		if _, err := io.ReadFull(e, ya); err != nil {
			return fail(err)
		}
		if err := writeSplit(e, append(pub(sp.Secret), sp.Pad1...), sp.Split); err != nil {
			return fail(err)
		}
		s := shared(ya, sp.Secret)
		rest, err := scanFor(e, nil, sha([]byte("req1"), s), 512+20)
		if err != nil {
			return fail(err)
		}
		br := &bufReader{r: e, buf: rest}
		r23 := make([]byte, 20)
		if _, err := io.ReadFull(br, r23); err != nil {
			return fail(err)
		}
		if !bytes.Equal(r23, xorBytes(sha([]byte("req2"), sp.Hash), sha([]byte("req3"), s))) {
			return fail(errors.New("peer: client asked for another torrent"))
		}
		enc := streamCipher("keyB", s, sp.Hash)
		dec := streamCipher("keyA", s, sp.Hash)
		hd := make([]byte, 14)
		if _, err := io.ReadFull(br, hd); err != nil {
			return fail(err)
		}
		hd = crypt(dec, hd)
		if !bytes.Equal(hd[:8], make([]byte, 8)) {
			return fail(errors.New("peer: bad VC from client"))
		}
		provide := binary.BigEndian.Uint32(hd[8:])
		padc := make([]byte, binary.BigEndian.Uint16(hd[12:]))
		if _, err := io.ReadFull(br, padc); err != nil {
			return fail(err)
		}
		crypt(dec, padc)
		l2 := make([]byte, 2)
		if _, err := io.ReadFull(br, l2); err != nil {
			return fail(err)
		}
		l2 = crypt(dec, l2)
		ia := make([]byte, binary.BigEndian.Uint16(l2))
		if _, err := io.ReadFull(br, ia); err != nil {
			return fail(err)
		}
		ia = crypt(dec, ia)
		sel := sp.Select
		if sel == 0 {
			if provide&2 != 0 {
				sel = 2
			} else {
				sel = 1
			}
		}
		var t []byte
		t = append(t, make([]byte, 8)...)
		t = binary.BigEndian.AppendUint32(t, sel)
		t = binary.BigEndian.AppendUint16(t, uint16(len(sp.Pad2)))
		t = append(t, sp.Pad2...)
		out := crypt(enc, t)
		if sel == 2 {
			res.RC4 = true
			br.dec = dec
			wr = cryptWriter{e, enc}
		}
		rd = br
		if sp.Glue {
			pl := reply
			if sel == 2 {
				pl = crypt(enc, reply)
			}
			nprefix := len(out)
			out = append(out, pl...)
			if sp.Truncate > 0 && sp.Truncate < len(out) {
				out = out[:sp.Truncate]
			}
			if _, err := e.Write(out); err != nil {
				return fail(err)
			}
			if len(out) > nprefix {
				res.AppSent = afterHandshake(reply[:len(out)-nprefix])
			}
		} else {
			if _, err := e.Write(out); err != nil {
				return fail(err)
			}
			if _, err := wr.Write(reply); err != nil {
				return fail(err)
			}
			res.AppSent = afterHandshake(reply)
		}
		if sp.Truncate > 0 {
			e.CloseWrite()
		}
		hs = make([]byte, 68)
		n := copy(hs, ia)
		if _, err := io.ReadFull(rd, hs[n:]); err != nil {
			return fail(err)
		}
	}
	if err := sp.checkHandshake(hs, &res); err != nil {
		return fail(err)
	}
	if len(sp.Late) > 0 {
		if _, err := wr.Write(sp.Late); err != nil {
			return fail(err)
		}
		if sp.Truncate == 0 {
			res.AppSent = append(res.AppSent, sp.Late...)
		}
	}
	e.CloseWrite()
	res.Got, _ = io.ReadAll(rd)
	res.OK = true
	return res
}
