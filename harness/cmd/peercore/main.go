// peercore: correspondence harness for the single-threaded core of a peer
// (C05, C11, C16 and the peer half of C09).  It drives a real peer.Peer through the
// verif entry points, one step at a time, and records verdict, messages written,
// events sent to the torrent, bytes allocated and a state snapshot after every step.
package main

import (
	"crypto/sha1"
	"encoding/json"
	"flag"
	"fmt"
	"math/rand"
	"net/netip"
	"os"
	"path/filepath"
	"runtime"
	"sort"
	"strings"
	"time"

	"github.com/jech/storrent/bitmap"
	"github.com/jech/storrent/config"
	"github.com/jech/storrent/hash"
	"github.com/jech/storrent/peer"
	"github.com/jech/storrent/pex"
	"github.com/jech/storrent/protocol"
	"github.com/jech/storrent/tor/piece"

	"verifharness/internal/cq"
	"verifharness/internal/wm"
)

type pspec struct {
	Addr  string `json:"addr"`
	Flags byte   `json:"flags"`
}

type step struct {
	Ballast int              `json:"ballast,omitempty"`
	Kind    string           `json:"kind"` // msg ev tick pextick upload die
	T       string           `json:"t,omitempty"`
	A       uint32           `json:"a,omitempty"`
	B       uint32           `json:"b,omitempty"`
	C       uint32           `json:"c,omitempty"`
	DLen    int              `json:"dlen,omitempty"`
	Data    string           `json:"data,omitempty"`
	Flag    bool             `json:"flag,omitempty"`
	Chunks  []uint32         `json:"chunks,omitempty"`
	Peers   []pspec          `json:"peers,omitempty"`
	Peers2  []pspec          `json:"peers2,omitempty"`
	Msgs    map[string]uint8 `json:"msgs,omitempty"`
	AgeSec  int              `json:"age,omitempty"`
	Obs     string           `json:"obs,omitempty"`
}

type scenario struct {
	ID        int    `json:"id"`
	Psize     uint32 `json:"psize"`
	Total     int64  `json:"total"`
	InfoLen   int    `json:"infolen"`
	InfoKnown bool   `json:"infoknown"`
	Fast      bool   `json:"fast"`
	Ext       bool   `json:"ext"`
	My        []int  `json:"my"`
	Steps     []step `json:"steps"`
}

// ---------- live peer ----------

type live struct {
	sc      *scenario
	ps      *piece.Pieces
	p       *peer.Peer
	tor     chan peer.TorEvent
	wdone   chan struct{}
	dead    bool
	hashes  []hash.Hash
	info    []byte
	metaSet bool
}

func pieceContent(i int, n int) []byte {
	b := make([]byte, n)
	for k := range b {
		b[k] = byte(i*7 + 1)
	}
	return b
}

func (l *live) geometry() (np int, nchunks uint32, cpp uint32) {
	ps := int64(l.sc.Psize)
	np = int((l.sc.Total + ps - 1) / ps)
	nchunks = uint32((l.sc.Total + 16383) / 16384)
	cpp = l.sc.Psize / 16384
	return
}

func (l *live) plen(i int) int {
	np, _, _ := l.geometry()
	if i == np-1 {
		r := int(l.sc.Total - int64(i)*int64(l.sc.Psize))
		return r
	}
	return int(l.sc.Psize)
}

func (l *live) metadataComplete() {
	if l.metaSet {
		return
	}
	l.metaSet = true
	l.ps.MetadataComplete(l.sc.Psize, l.sc.Total)
	np, _, _ := l.geometry()
	for i := 0; i < np; i++ {
		h := sha1.Sum(pieceContent(i, l.plen(i)))
		l.hashes = append(l.hashes, hash.Hash(h[:]))
	}
}

func newLive(sc *scenario) *live {
	l := &live{sc: sc, ps: new(piece.Pieces), tor: make(chan peer.TorEvent, 8192), wdone: make(chan struct{})}
	l.info = make([]byte, sc.InfoLen)
	var my bitmap.Bitmap
	var info []byte
	if sc.InfoKnown {
		l.metadataComplete()
		info = l.info
		for _, i := range sc.My {
			content := pieceContent(i, l.plen(i))
			for off := 0; off < len(content); off += 16384 {
				end := off + 16384
				if end > len(content) {
					end = len(content)
				}
				l.ps.AddData(uint32(i), uint32(off), content[off:end], 0)
			}
			l.ps.Finalise(uint32(i), l.hashes[i])
			my.Set(i)
		}
	}
	addr := netip.MustParseAddrPort("10.1.2.3:6881")
	res := protocol.HandshakeResult{Hash: make([]byte, 20), Id: make([]byte, 20), Fast: sc.Fast, Extended: sc.Ext}
	l.p = peer.VerifNew("", addr, res, l.ps, info, my, l.tor, make(chan struct{}))
	l.p.VerifSetWriterDone(l.wdone)
	return l
}

func mkPeers(ps []pspec) []pex.Peer {
	var out []pex.Peer
	for _, p := range ps {
		out = append(out, pex.Peer{Addr: netip.MustParseAddrPort(p.Addr), Flags: p.Flags})
	}
	return out
}

func (s *step) message() protocol.Message {
	switch s.T {
	case "KeepAlive":
		return protocol.KeepAlive{}
	case "Choke":
		return protocol.Choke{}
	case "Unchoke":
		return protocol.Unchoke{}
	case "Interested":
		return protocol.Interested{}
	case "NotInterested":
		return protocol.NotInterested{}
	case "HaveAll":
		return protocol.HaveAll{}
	case "HaveNone":
		return protocol.HaveNone{}
	case "Have":
		return protocol.Have{Index: s.A}
	case "SuggestPiece":
		return protocol.SuggestPiece{Index: s.A}
	case "AllowedFast":
		return protocol.AllowedFast{Index: s.A}
	case "Request":
		return protocol.Request{Index: s.A, Begin: s.B, Length: s.C}
	case "Cancel":
		return protocol.Cancel{Index: s.A, Begin: s.B, Length: s.C}
	case "RejectRequest":
		return protocol.RejectRequest{Index: s.A, Begin: s.B, Length: s.C}
	case "Port":
		return protocol.Port{Port: uint16(s.A)}
	case "Bitfield":
		return protocol.Bitfield{Bitfield: append([]byte{}, cq.DecodeRuns(s.Data)...)}
	case "Piece":
		d := make([]byte, s.DLen)
		for i := range d {
			d[i] = byte(int(s.A)*7 + 1)
		}
		return protocol.Piece{Index: s.A, Begin: s.B, Data: d}
	case "ExtendedDontHave":
		return protocol.ExtendedDontHave{Subtype: protocol.ExtDontHave, Index: s.A}
	case "ExtendedUploadOnly":
		return protocol.ExtendedUploadOnly{Subtype: protocol.ExtUploadOnly, Value: s.Flag}
	case "ExtendedMetadata":
		return protocol.ExtendedMetadata{Subtype: protocol.ExtMetadata, Type: uint8(s.A), Piece: s.B, TotalSize: s.C, Data: make([]byte, s.DLen)}
	case "Extended0":
		return protocol.Extended0{ReqQ: s.B, MetadataSize: s.C, Messages: s.Msgs, UploadOnly: s.Flag, Version: "x"}
	case "ExtendedPex":
		return protocol.ExtendedPex{Subtype: protocol.ExtPex, Added: mkPeers(s.Peers), Dropped: mkPeers(s.Peers2)}
	case "ExtendedUnknown":
		return protocol.ExtendedUnknown{Subtype: uint8(s.A)}
	case "Error":
		return protocol.Error{Error: fmt.Errorf("read error")}
	}
	panic("unknown message " + s.T)
}

func renderPeers(ps []pex.Peer) string { return wm.Peers(ps) }

func nlist(l []uint32) string {
	var o []string
	for _, v := range l {
		o = append(o, fmt.Sprint(v))
	}
	return cq.List(o)
}

// renderBm renders a bitmap in the sparse form of Model.PeerCore.bm.
func renderBm(b bitmap.Bitmap) string {
	var bits []string
	b.Range(func(i int) bool {
		bits = append(bits, fmt.Sprint(i))
		return true
	})
	return fmt.Sprintf("{| blen := %d; bits := %s |}", len(b), cq.List(bits))
}

func renderBits(b bitmap.Bitmap) string {
	var bits []string
	b.Range(func(i int) bool {
		bits = append(bits, fmt.Sprint(i))
		return true
	})
	return cq.List(bits)
}

func (l *live) snapshot() string {
	st := l.p.VerifState()
	bm := "None"
	if !st.BitmapNil {
		bm = "(Some " + renderBm(st.Bitmap) + ")"
	}
	flags := []string{cq.Bool(st.IsSeed), cq.Bool(st.Unchoked), cq.Bool(st.Interested), cq.Bool(st.AmUnchoking),
		cq.Bool(st.ShouldInterested), cq.Bool(st.AmInterested), cq.Bool(st.GotExtended), cq.Bool(st.UploadOnly)}
	exts := []string{fmt.Sprint(st.PexExt), fmt.Sprint(st.MetadataExt), fmt.Sprint(st.DontHaveExt), fmt.Sprint(st.UploadOnlyExt), fmt.Sprint(st.ReqQ)}
	var req []string
	for i, r := range st.Requested {
		req = append(req, fmt.Sprintf("(%d, %s)", r, cq.Bool(st.Cancelled[i])))
	}
	var up []string
	for _, r := range st.Upload {
		up = append(up, fmt.Sprintf("(%d, %d, %d)", r.Index, r.Begin, r.Length))
	}
	return fmt.Sprintf("{| n_info_known := %s; n_bitmap := %s; n_my := %s; n_flags := %s; n_exts := %s; n_queue := %s; n_requested := %s; n_upload := %s; n_fast := %s; n_pex := %s; n_pending := %s; n_pending_del := %s; n_sent := %s |}",
		cq.Bool(st.InfoKnown), bm, renderBits(st.My), cq.List(flags), cq.List(exts), nlist(st.Queue), cq.List(req), cq.List(up), nlist(st.Fast),
		renderPeers(st.Pex), renderPeers(st.Pending), renderPeers(st.PendingDel), renderPeers(st.Sent))
}

type obs struct {
	verdict string
	msgs    []string
	rawMsgs []protocol.Message
	evs     []string
	rawEvs  []peer.TorEvent
	alloc   uint64
	snap    string
	counter int
	before  *peer.VerifState
}

// exec runs one step on the live peer and returns the Gallina term of the step record.
func (l *live) exec(s *step) string {
	w := l.p.VerifWriter()
	// establish the ballast
	if !l.dead {
		for len(w) > 0 {
			<-w
		}
		for i := 0; i < s.Ballast; i++ {
			w <- protocol.Flush{}
		}
	}
	if s.AgeSec > 0 {
		l.p.VerifAgeRequests(time.Duration(s.AgeSec) * time.Second)
	}
	var err error
	panicked := false
	before := l.p.VerifState()
	var ms0, ms1 runtime.MemStats
	var m protocol.Message
	var ev peer.PeerEvent
	switch s.Kind {
	case "msg":
		m = s.message()
	case "ev":
		ev = l.event(s)
	}
	runtime.ReadMemStats(&ms0)
	func() {
		defer func() {
			if r := recover(); r != nil {
				panicked = true
			}
		}()
		switch s.Kind {
		case "msg":
			err = l.p.VerifHandleMessage(m)
		case "ev":
			err = l.p.VerifHandleEvent(ev)
		case "tick":
			l.p.VerifTick()
		case "pextick":
			l.p.VerifSendPex()
		case "upload":
			err = l.p.VerifScheduleUpload()
		case "die":
			for len(w) < cap(w) {
				w <- protocol.Flush{}
			}
			close(l.wdone)
			l.dead = true
		}
	}()
	runtime.ReadMemStats(&ms1)
	l.p.VerifStopUpload()
	o := obs{verdict: "VOk", alloc: ms1.TotalAlloc - ms0.TotalAlloc}
	if panicked {
		o.verdict = "VPanic"
	} else if err != nil {
		o.verdict = "VDisconnect"
	}
	// collect written messages (after the ballast)
	skip := s.Ballast
	if s.Kind == "die" || l.dead {
		skip = cap(w)
	}
	n := 0
	for len(w) > 0 {
		x := <-w
		if n < skip {
			n++
			continue
		}
		if _, ok := x.(protocol.Flush); ok {
			continue
		}
		o.rawMsgs = append(o.rawMsgs, x)
		r, _ := wm.Render(x)
		o.msgs = append(o.msgs, r)
	}
	if l.dead {
		for len(w) < cap(w) {
			w <- protocol.Flush{}
		}
	}
	// collect events
	var evs []peer.TorEvent
	for len(l.tor) > 0 {
		evs = append(evs, <-l.tor)
	}
	evs = append(evs, l.p.VerifEvents()...)
	for _, e := range evs {
		switch e := e.(type) {
		case peer.TorAddKnown:
			continue
		case peer.TorDrop:
			o.evs = append(o.evs, fmt.Sprintf("(TDrop %d %d %d)", e.Index, e.Begin, e.Length))
		case peer.TorData:
			o.evs = append(o.evs, fmt.Sprintf("(TData %d %d %d %s)", e.Index, e.Begin, e.Length, cq.Bool(e.Complete)))
		case peer.TorPeerHave:
			o.evs = append(o.evs, fmt.Sprintf("(TPeerHave %d %s)", e.Index, cq.Bool(e.Have)))
		case peer.TorPeerBitmap:
			o.evs = append(o.evs, fmt.Sprintf("(TPeerBitmap %s %s)", renderBm(e.Bitmap), cq.Bool(e.Have)))
		case peer.TorPeerUnchoke:
			o.evs = append(o.evs, fmt.Sprintf("(TPeerUnchoke %s)", cq.Bool(e.Unchoke)))
		case peer.TorPeerInterested:
			o.evs = append(o.evs, fmt.Sprintf("(TPeerInterested %s)", cq.Bool(e.Interested)))
		case peer.TorPeerExtended:
			o.evs = append(o.evs, fmt.Sprintf("(TPeerExtended %d)", e.MetadataSize))
		case peer.TorMetaData:
			o.evs = append(o.evs, fmt.Sprintf("(TMetaData %d %d %d)", e.Size, e.Index, len(e.Data)))
		default:
			o.evs = append(o.evs, fmt.Sprintf("(TPeerExtended 999999999 (* %T *))", e))
		}
		o.rawEvs = append(o.rawEvs, e)
	}
	o.snap = l.snapshot()
	o.before = &before
	op := l.renderOp(s, &o)
	s.Obs = fmt.Sprintf("%s msgs=%d evs=%d alloc=%d", o.verdict, len(o.msgs), len(o.evs), o.alloc)
	return fmt.Sprintf("{| st_ballast := %d; st_op := %s; st_verdict := %s; st_msgs := %s; st_evs := %s; st_alloc := %d; st_snap := %s |}",
		s.Ballast, op, o.verdict, cq.List(o.msgs), cq.List(o.evs), o.alloc, o.snap)
}

func (l *live) event(s *step) peer.PeerEvent {
	switch s.T {
	case "PeerMetadataComplete":
		l.metadataComplete()
		return peer.PeerMetadataComplete{Info: l.info}
	case "PeerRequest":
		return peer.PeerRequest{Chunks: s.Chunks}
	case "PeerHave":
		return peer.PeerHave{Index: s.A, Have: s.Flag}
	case "PeerCancel":
		return peer.PeerCancel{Chunk: s.A}
	case "PeerCancelPiece":
		return peer.PeerCancelPiece{Index: s.A}
	case "PeerInterested":
		return peer.PeerInterested{Interested: s.Flag}
	case "PeerGetMetadata":
		return peer.PeerGetMetadata{Index: s.A}
	case "PeerPex":
		return peer.PeerPex{Peers: mkPeers(s.Peers), Add: s.Flag}
	case "PeerUnchoke":
		return peer.PeerUnchoke{Unchoke: s.Flag}
	case "PeerDone":
		return peer.PeerDone{}
	}
	panic("unknown event " + s.T)
}

func (l *live) chunkOf(index, begin uint32) uint32 {
	_, _, cpp := l.geometry()
	return index*cpp + begin/16384
}

func (l *live) renderOp(s *step, o *obs) string {
	switch s.Kind {
	case "msg":
		if s.T == "Error" {
			return "(OpMsg (Unknown 0) None)"
		}
		r, _ := wm.Render(s.message())
		ad := "None"
		for _, e := range o.rawEvs {
			if d, ok := e.(peer.TorData); ok {
				ad = "(Some " + cq.Bool(d.Complete) + ")"
			}
		}
		return fmt.Sprintf("(OpMsg %s %s)", r, ad)
	case "ev":
		switch s.T {
		case "PeerMetadataComplete":
			return fmt.Sprintf("(OpEv (PeerMetadataComplete {| psize := %d; total := %d; info_len := %d |}))", l.sc.Psize, l.sc.Total, l.sc.InfoLen)
		case "PeerRequest":
			return fmt.Sprintf("(OpEv (PeerRequest %s))", nlist(s.Chunks))
		case "PeerHave":
			return fmt.Sprintf("(OpEv (PeerHave %d %s))", s.A, cq.Bool(s.Flag))
		case "PeerCancel":
			return fmt.Sprintf("(OpEv (PeerCancel %d))", s.A)
		case "PeerCancelPiece":
			return fmt.Sprintf("(OpEv (PeerCancelPiece %d))", s.A)
		case "PeerInterested":
			return fmt.Sprintf("(OpEv (PeerInterested %s))", cq.Bool(s.Flag))
		case "PeerGetMetadata":
			return fmt.Sprintf("(OpEv (PeerGetMetadata %d))", s.A)
		case "PeerPex":
			return fmt.Sprintf("(OpEv (PeerPex %s %s))", renderPeers(mkPeers(s.Peers)), cq.Bool(s.Flag))
		case "PeerUnchoke":
			return fmt.Sprintf("(OpEv (PeerUnchoke %s))", cq.Bool(s.Flag))
		case "PeerDone":
			return "(OpEv PeerDone)"
		}
	case "tick":
		var drops, cancels []uint32
		for _, e := range o.rawEvs {
			if d, ok := e.(peer.TorDrop); ok {
				drops = append(drops, l.chunkOf(d.Index, d.Begin))
			}
		}
		after := l.p.VerifState()
		for i, c := range o.before.Requested {
			if o.before.Cancelled[i] {
				continue
			}
			for j, c2 := range after.Requested {
				if c2 == c && after.Cancelled[j] {
					cancels = append(cancels, c)
				}
			}
		}
		return fmt.Sprintf("(OpTick %s %s)", nlist(drops), nlist(cancels))
	case "pextick":
		return "OpPexTick"
	case "upload":
		allow, data := "false", "None"
		if after := l.p.VerifState(); len(after.Upload) < len(o.before.Upload) {
			allow = "true" // the head request was taken (served, rejected, or silently dropped)
		}
		for _, m := range o.rawMsgs {
			switch m := m.(type) {
			case protocol.Piece:
				allow = "true"
				data = "(Some " + cq.Bytes(m.Data) + ")"
			case protocol.RejectRequest:
				allow = "true"
			}
		}
		return fmt.Sprintf("(OpUpload %s %s)", allow, data)
	case "die":
		return "OpWriterDie"
	}
	panic("renderOp " + s.Kind + " " + s.T)
}

// ---------- generation ----------

type gen struct {
	r     *rand.Rand
	focus []string // step kinds ("msg/Piece", "ev/PeerRequest", ...) to concentrate on, with hostile fields
	hot   bool     // currently generating a focused, hostile step
}

func (g *gen) pick32(l *live, kind string) uint32 {
	r := g.r
	np, nchunks, cpp := l.geometry()
	switch kind {
	case "index":
		if g.hot && r.Intn(2) == 0 {
			return []uint32{1 << 31, 1<<32 - 1, 6710885, 6710886, 1 << 30, 4294967295 / cpp, 4294967295/cpp + 1, uint32(np), uint32(np) + 1}[r.Intn(9)]
		}
		switch r.Intn(10) {
		case 0:
			return uint32(np)
		case 1:
			return uint32(np + 1)
		case 2:
			return []uint32{1 << 31, 1<<32 - 1, 6710885, 6710886, 1 << 30, 4294967295 / cpp, 4294967295/cpp + 1}[r.Intn(7)]
		case 3:
			if np > 0 {
				return uint32(np - 1)
			}
		}
		if np > 0 {
			return uint32(r.Intn(np))
		}
		return uint32(r.Intn(4))
	case "begin":
		if g.hot && r.Intn(3) == 0 {
			return []uint32{0, l.sc.Psize, 100, 1<<32 - 1, 1 << 31, 16383, l.sc.Psize - 16384}[r.Intn(7)]
		}
		switch r.Intn(8) {
		case 0:
			return l.sc.Psize
		case 1:
			return []uint32{100, 1<<32 - 1, 1 << 31, 16383}[r.Intn(4)]
		}
		return uint32(r.Intn(int(cpp))) * 16384
	case "length":
		switch r.Intn(8) {
		case 0:
			return []uint32{0, 1, 32768, 131072, 131073, 1<<32 - 1, 16383}[r.Intn(7)]
		case 1:
			if l.sc.Total%16384 != 0 {
				return uint32(l.sc.Total % 16384)
			}
		}
		return 16384
	case "chunk":
		if r.Intn(10) == 0 || nchunks == 0 {
			return uint32(np)*cpp + uint32(r.Intn(5))
		}
		return uint32(r.Intn(int(nchunks)))
	}
	return 0
}

func (g *gen) rpeers() []pspec {
	r := g.r
	var out []pspec
	pool := []string{"1.2.3.4:1", "1.2.3.4:2", "5.6.7.8:6881", "[2001:db8::1]:6881", "9.9.9.9:9"}
	for i := 1 + r.Intn(3); i > 0; i-- {
		out = append(out, pspec{pool[r.Intn(len(pool))], byte(r.Intn(4))})
	}
	return out
}

func (g *gen) bitfield(l *live) string {
	r := g.r
	np, _, _ := l.geometry()
	n := (np + 7) / 8
	switch r.Intn(8) {
	case 0:
		n++
	case 1:
		if n > 0 {
			n--
		}
	}
	b := make([]byte, n)
	for i := range b {
		b[i] = byte(r.Intn(256))
		if r.Intn(3) == 0 {
			b[i] = 0xff
		}
	}
	if n > 0 && r.Intn(3) != 0 && np%8 != 0 && n == (np+7)/8 {
		b[n-1] &= 0xff << (8 - uint(np%8))
	}
	return cq.EncodeRuns(b)
}

// next produces the next step, looking at the live state to keep histories meaningful.
func (g *gen) next(l *live, prop string) step {
	r := g.r
	st := l.p.VerifState()
	s := step{}
	if r.Intn(12) == 0 {
		s.Ballast = []int{33, 40, 63, 64, 32}[r.Intn(5)]
	}
	// weights differ per property
	wUpload, wReq, wPex := 2, 4, 1
	switch prop {
	case "C16":
		wUpload, wReq = 6, 2
	case "C11":
		wReq, wPex = 6, 3
	}
	if prop == "C16" && l.metaSet && st.AmUnchoking && len(l.sc.My) > 0 && r.Intn(3) == 0 {
		// keep the upload queue busy: a request for a block we hold
		pi := l.sc.My[r.Intn(len(l.sc.My))]
		nb := (l.plen(pi) + 16383) / 16384
		bi := r.Intn(nb)
		s.Kind, s.T = "msg", "Request"
		s.A, s.B, s.C = uint32(pi), uint32(bi*16384), 16384
		if rest := l.plen(pi) - bi*16384; rest < 16384 {
			s.C = uint32(rest)
		}
		switch r.Intn(8) {
		case 0:
			s.C = 16384 // the short last block asked for in full: runs past the end of the piece
		case 1:
			// a range that straddles the end of the piece
			if l.plen(pi) > 100 {
				s.B, s.C = uint32(l.plen(pi)-100), 16384
			}
		}
		return s
	}
	x := r.Intn(30 + wUpload + wReq + wPex)
	g.hot = false
	forced := ""
	if len(g.focus) > 0 && r.Intn(3) == 0 {
		f := strings.SplitN(g.focus[r.Intn(len(g.focus))], "/", 2)
		g.hot = true
		switch f[0] {
		case "msg":
			x = 0
			forced = f[1]
		case "ev":
			if f[1] == "PeerRequest" {
				x = 14
			} else {
				x = 14 + wReq
				forced = f[1]
			}
		case "tick":
			x = 24 + wReq
		case "pextick":
			x = 28 + wReq
		case "upload":
			x = 28 + wReq + wPex
		}
	}
	switch {
	case x < 14: // message from the remote
		s.Kind = "msg"
		types := []string{"Choke", "Unchoke", "Unchoke", "Interested", "NotInterested", "Have", "Have", "Bitfield", "Request", "Request",
			"Piece", "Piece", "Piece", "Cancel", "RejectRequest", "AllowedFast", "HaveAll", "HaveNone", "Extended0", "ExtendedPex",
			"ExtendedMetadata", "ExtendedDontHave", "ExtendedUploadOnly", "KeepAlive", "Port", "SuggestPiece"}
		s.T = types[r.Intn(len(types))]
		if prop == "C11" && r.Intn(6) == 0 {
			s.T = "AllowedFast"
		}
		if r.Intn(60) == 0 {
			s.T = []string{"ExtendedUnknown", "Error"}[r.Intn(2)]
		}
		if forced != "" {
			s.T = forced
		}
		switch s.T {
		case "Have", "AllowedFast", "SuggestPiece", "ExtendedDontHave":
			s.A = g.pick32(l, "index")
			if s.T == "AllowedFast" && r.Intn(2) == 0 {
				// small numbers: these are also block numbers of the first pieces
				s.A = uint32(r.Intn(12))
			}
		case "Bitfield":
			s.Data = g.bitfield(l)
		case "Request", "Cancel":
			s.A, s.B, s.C = g.pick32(l, "index"), g.pick32(l, "begin"), g.pick32(l, "length")
			if s.T == "Request" && len(l.sc.My) > 0 && l.metaSet && r.Intn(5) != 0 {
				// a request we can serve: a block of a piece we hold
				pi := l.sc.My[r.Intn(len(l.sc.My))]
				nb := (l.plen(pi) + 16383) / 16384
				bi := r.Intn(nb)
				s.A, s.B, s.C = uint32(pi), uint32(bi*16384), 16384
				if rest := l.plen(pi) - bi*16384; rest < 16384 {
					s.C = uint32(rest)
				}
			}
			if s.T == "Cancel" && len(st.Upload) > 0 && r.Intn(3) != 0 {
				u := st.Upload[r.Intn(len(st.Upload))]
				s.A, s.B, s.C = u.Index, u.Begin, u.Length
			}
		case "Piece", "RejectRequest":
			s.A, s.B = g.pick32(l, "index"), g.pick32(l, "begin")
			all := append(append([]uint32{}, st.Requested...), st.Queue...)
			if len(all) > 0 && r.Intn(5) != 0 && l.metaSet && !(g.hot && r.Intn(2) == 0) {
				c := all[r.Intn(len(all))]
				_, _, cpp := l.geometry()
				s.A, s.B = c/cpp, (c%cpp)*16384
			}
			if g.hot && l.metaSet && r.Intn(2) == 0 {
				// indices that toChunk maps onto block 0
				_, _, cpp := l.geometry()
				s.A, s.B = []uint32{1<<32 - 1, 4294967295/cpp + 1, 1 << 31}[r.Intn(3)], 0
			}
			s.DLen = 16384
			if l.metaSet {
				_, nchunks, _ := l.geometry()
				c := l.chunkOf(s.A, s.B)
				if c == nchunks-1 && l.sc.Total%16384 != 0 {
					s.DLen = int(l.sc.Total % 16384)
				}
			}
			if r.Intn(6) == 0 {
				s.DLen = []int{0, 1, 16383, 32768, 16384, 100}[r.Intn(6)]
			}
			s.C = uint32(s.DLen)
		case "Extended0":
			s.B = []uint32{0, 1, 2, 3, 250, 1<<32 - 1}[r.Intn(6)]
			s.C = []uint32{0, 16384, 1000, 1<<32 - 1}[r.Intn(4)]
			s.Flag = r.Intn(4) == 0
			if r.Intn(4) != 0 {
				s.Msgs = map[string]uint8{}
				for _, n := range []string{"ut_pex", "ut_metadata", "lt_donthave", "upload_only"} {
					if r.Intn(4) != 0 {
						s.Msgs[n] = uint8(1 + r.Intn(5))
					}
				}
				if len(s.Msgs) == 0 {
					s.Msgs = nil
				}
			}
		case "ExtendedPex":
			s.Peers, s.Peers2 = g.rpeers(), g.rpeers()
		case "ExtendedMetadata":
			s.A = uint32(r.Intn(4))
			s.B = []uint32{0, 1, 2, 1 << 20, 1<<32 - 1}[r.Intn(5)]
			s.C = uint32(r.Intn(40000))
			s.DLen = []int{0, 100, 16384}[r.Intn(3)]
		case "ExtendedUploadOnly":
			s.Flag = r.Intn(2) == 0
		}
	case x < 14+wReq: // scheduler asks for chunks
		s.Kind, s.T = "ev", "PeerRequest"
		var have []int
		st.Bitmap.Range(func(i int) bool {
			have = append(have, i)
			return true
		})
		for i := 1 + r.Intn(6); i > 0; i-- {
			c := g.pick32(l, "chunk")
			if len(have) > 0 && l.metaSet && r.Intn(5) != 0 {
				np, nchunks, cpp := l.geometry()
				pi := have[r.Intn(len(have))]
				if pi < np {
					c = uint32(pi)*cpp + uint32(r.Intn(int(cpp)))
					if c >= nchunks {
						c = nchunks - 1
					}
				}
			}
			s.Chunks = append(s.Chunks, c)
		}
		if !l.metaSet || r.Intn(4) == 0 {
			s.Chunks = append(s.Chunks, 0)
		}
	case x < 24+wReq:
		s.Kind = "ev"
		evs := []string{"PeerHave", "PeerCancel", "PeerCancelPiece", "PeerInterested", "PeerInterested", "PeerGetMetadata", "PeerPex", "PeerUnchoke", "PeerUnchoke", "PeerUnchoke"}
		s.T = evs[r.Intn(len(evs))]
		if !l.metaSet && r.Intn(3) == 0 {
			s.T = "PeerMetadataComplete"
		}
		if r.Intn(200) == 0 {
			s.T = "PeerDone"
		}
		if forced != "" {
			s.T = forced
		}
		if s.T == "PeerHave" && !l.metaSet {
			s.T = "PeerInterested" // the torrent holds no piece before it has the metadata
		}
		switch s.T {
		case "PeerHave":
			np, _, _ := l.geometry()
			s.A = uint32(r.Intn(np))
			s.Flag = r.Intn(3) != 0
		case "PeerCancel":
			s.A = g.pick32(l, "chunk")
			all := append(append([]uint32{}, st.Requested...), st.Queue...)
			if len(all) > 0 && r.Intn(4) != 0 {
				s.A = all[r.Intn(len(all))]
			}
		case "PeerCancelPiece":
			s.A = g.pick32(l, "index")
			if len(st.Requested) > 0 && r.Intn(3) != 0 && l.metaSet {
				_, _, cpp := l.geometry()
				s.A = st.Requested[r.Intn(len(st.Requested))] / cpp
			}
		case "PeerInterested", "PeerUnchoke":
			s.Flag = r.Intn(3) != 0
		case "PeerGetMetadata":
			s.A = uint32(r.Intn(4))
		case "PeerPex":
			s.Peers = g.rpeers()
			s.Flag = r.Intn(2) == 0
		}
	case x < 28+wReq:
		s.Kind = "tick"
		s.AgeSec = []int{0, 0, 10, 60}[r.Intn(4)]
	case x < 28+wReq+wPex:
		s.Kind = "pextick"
	case x < 28+wReq+wPex+wUpload:
		s.Kind = "upload"
	default:
		if r.Intn(6) == 0 && !l.dead {
			s.Kind = "die"
		} else {
			s.Kind = "tick"
		}
	}
	return s
}

// prologue opens most histories the way a real session starts, so that the later
// random steps act on a peer that advertises pieces, has unchoked us and/or is being
// served by us.
func (g *gen) prologue(l *live) []step {
	r := g.r
	var p []step
	if !l.metaSet {
		return nil
	}
	profile := r.Intn(5) // 0 none, 1 download, 2 upload, 3-4 both
	if profile == 1 || profile >= 3 {
		if l.sc.Fast && r.Intn(2) == 0 {
			p = append(p, step{Kind: "msg", T: "HaveAll"})
		} else {
			np, _, _ := l.geometry()
			b := make([]byte, (np+7)/8)
			for i := 0; i < np; i++ {
				if r.Intn(4) != 0 {
					b[i/8] |= 0x80 >> uint(i%8)
				}
			}
			p = append(p, step{Kind: "msg", T: "Bitfield", Data: cq.EncodeRuns(b)})
		}
		if r.Intn(4) != 0 {
			p = append(p, step{Kind: "msg", T: "Unchoke"})
		}
		p = append(p, step{Kind: "ev", T: "PeerInterested", Flag: true})
	}
	if profile == 2 || profile >= 3 {
		p = append(p, step{Kind: "msg", T: "Interested"})
		p = append(p, step{Kind: "ev", T: "PeerUnchoke", Flag: true})
	}
	if l.sc.Ext && r.Intn(2) == 0 {
		p = append(p, step{Kind: "msg", T: "Extended0", B: []uint32{0, 1, 2, 5, 250}[r.Intn(5)],
			Msgs: map[string]uint8{"ut_pex": 1, "ut_metadata": 2, "lt_donthave": 3}})
	}
	return p
}

func (g *gen) scenario(id int) *scenario {
	r := g.r
	sc := &scenario{ID: id}
	sc.Psize = []uint32{16384, 32768, 49152, 65536}[r.Intn(4)]
	np := 1 + r.Intn(40)
	if r.Intn(4) == 0 {
		np = []int{8, 16, 24, 1, 72, 9}[r.Intn(6)]
	}
	last := int64(sc.Psize)
	switch r.Intn(4) {
	case 0:
		last = int64(1 + r.Intn(int(sc.Psize)))
	case 1:
		last = int64(16384*(1+r.Intn(int(sc.Psize/16384)))) - int64(r.Intn(2))*int64(1+r.Intn(16383))
	}
	sc.Total = int64(np-1)*int64(sc.Psize) + last
	sc.InfoLen = []int{100, 16384, 20000, 32768, 40000}[r.Intn(5)]
	sc.InfoKnown = r.Intn(6) != 0
	sc.Fast = r.Intn(2) == 0
	sc.Ext = r.Intn(4) != 0
	if sc.InfoKnown {
		for i := 0; i < np; i++ {
			if r.Intn(3) == 0 {
				sc.My = append(sc.My, i)
			}
		}
		if r.Intn(8) == 0 {
			sc.My = nil
			for i := 0; i < np; i++ {
				sc.My = append(sc.My, i)
			}
		}
	}
	return sc
}

// ---------- output ----------

func runScenario(sc *scenario, g *gen, prop string, nsteps int) (string, map[string]int, bool) {
	l := newLive(sc)
	kinds := map[string]int{}
	var steps []string
	replay := g == nil
	nontrivial := 0
	if replay {
		nsteps = len(sc.Steps)
	}
	var prologue []step
	if !replay {
		prologue = g.prologue(l)
		nsteps += len(prologue)
	}
	for i := 0; i < nsteps; i++ {
		var s step
		if replay {
			s = sc.Steps[i]
		} else if i < len(prologue) {
			s = prologue[i]
		} else {
			s = g.next(l, prop)
		}
		term := l.exec(&s)
		if !replay {
			sc.Steps = append(sc.Steps, s)
		} else {
			sc.Steps[i] = s
		}
		steps = append(steps, term)
		kinds[s.Kind+"/"+s.T]++
		if strings.Contains(s.Obs, "VOk") && !strings.Contains(s.Obs, "msgs=0 evs=0") {
			nontrivial++
		}
		if strings.HasPrefix(s.Obs, "VDisconnect") || strings.HasPrefix(s.Obs, "VPanic") {
			break
		}
	}
	geo := "None"
	if sc.InfoKnown {
		geo = fmt.Sprintf("(Some {| psize := %d; total := %d; info_len := %d |})", sc.Psize, sc.Total, sc.InfoLen)
	}
	var my bitmap.Bitmap
	for _, i := range sc.My {
		my.Set(i)
	}
	term := fmt.Sprintf("{| p_id := %d; p_geo := %s; p_fast := %s; p_ext := %s; p_my := %s; p_steps := [\n  %s] |}",
		sc.ID, geo, cq.Bool(sc.Fast), cq.Bool(sc.Ext), cq.Bytes(my), strings.Join(steps, ";\n  "))
	return term, kinds, nontrivial >= 2
}

func main() {
	fs := flag.NewFlagSet("peercore", flag.ExitOnError)
	prop := fs.String("prop", "C05", "property")
	out := fs.String("out", "", "output directory")
	n := fs.Int("n", 300, "number of histories")
	casef := fs.String("case", "", "case file (replay)")
	fs.Parse(os.Args[2:])
	os.MkdirAll(*out, 0o755)
	config.Debug = false
	var scs []*scenario
	var advs []*advCase
	var terms []string
	kinds := map[string]int{}
	distinct := map[string]bool{}
	switch os.Args[1] {
	case "gen":
		g := &gen{r: cq.Rand()}
		if f := os.Getenv("VERIF_FOCUS"); f != "" {
			g.focus = strings.Split(f, ",")
		}
		// the regression corpus runs first: minimised histories that demonstrated defects
		// (now fixed) or that a check once missed
		corpus, _ := filepath.Glob(filepath.Join("corpus", "peercore", "*.json"))
		sort.Strings(corpus)
		for ci, f := range corpus {
			data, err := os.ReadFile(f)
			if err != nil {
				continue
			}
			var wrap struct {
				Case scenario `json:"case"`
			}
			var sc scenario
			if json.Unmarshal(data, &wrap) == nil && wrap.Case.Psize != 0 {
				sc = wrap.Case
			} else if json.Unmarshal(data, &sc) != nil || sc.Psize == 0 {
				continue
			}
			sc.ID = 200000 + ci
			t, k, _ := runScenario(&sc, nil, *prop, 0)
			terms = append(terms, t)
			scc := sc
			scs = append(scs, &scc)
			for kk, v := range k {
				kinds[kk] += v
			}
			kinds["corpus"]++
		}
		for i := 0; i < *n; i++ {
			sc := g.scenario(i)
			nsteps := 5 + g.r.Intn(55)
			t, k, nt := runScenario(sc, g, *prop, nsteps)
			terms = append(terms, t)
			scs = append(scs, sc)
			var ks []string
			for kk, v := range k {
				kinds[kk] += v
				ks = append(ks, kk)
			}
			sort.Strings(ks)
			if nt {
				distinct[fmt.Sprintf("%d/%d/%v", sc.Psize, sc.Total, ks)] = true
			}
		}
		if *prop == "C11" || *prop == "C05" {
			for i := 0; i < *n/4+8; i++ {
				c := genAdv(g.r, 100000+i)
				runAdv(c)
				advs = append(advs, c)
				kinds["adv"]++
				distinct[fmt.Sprintf("adv/%d/%v/%v/%d", c.Total, c.Fast, c.Ext, len(c.Obs))] = true
			}
		}
	case "replay":
		data, err := os.ReadFile(*casef)
		if err != nil {
			fmt.Fprintln(os.Stderr, err)
			os.Exit(2)
		}
		var aw struct {
			Case advCase `json:"case"`
		}
		if json.Unmarshal(data, &aw) == nil && aw.Case.Kind == "adv" {
			c := aw.Case
			runAdv(&c)
			advs = append(advs, &c)
			break
		}
		var sc scenario
		var wrap struct {
			Case scenario `json:"case"`
		}
		if json.Unmarshal(data, &wrap) == nil && wrap.Case.Psize != 0 {
			sc = wrap.Case
		} else {
			json.Unmarshal(data, &sc)
		}
		sc.ID = 0
		t, _, _ := runScenario(&sc, nil, *prop, 0)
		terms = append(terms, t)
		scs = append(scs, &sc)
	}
	jf, _ := os.Create(filepath.Join(*out, "cases.jsonl"))
	defer jf.Close()
	for _, sc := range scs {
		b, _ := json.Marshal(sc)
		jf.Write(append(b, '\n'))
	}
	for _, c := range advs {
		b, _ := json.Marshal(c)
		jf.Write(append(b, '\n'))
	}
	mon := map[string]string{"C05": "bad_monitor05", "C11": "bad_monitor11", "C16": "bad_monitor16", "C09": "bad_monitor09p"}[*prop]
	nshard := 0
	for i := 0; i < len(terms); i += 12 {
		j := i + 12
		if j > len(terms) {
			j = len(terms)
		}
		var sb strings.Builder
		sb.WriteString("From Storrent Require Import Base.Bytes Base.Bencode Model.Wire Model.PeerCore Check.WireCheck Check.PeerCheck.\nOpen Scope N_scope.\n")
		sb.WriteString("Definition cases : list pcase := [\n" + strings.Join(terms[i:j], ";\n") + "\n].\n")
		sb.WriteString("Definition BC := Eval vm_compute in bad_corr_peer cases.\nDefinition BM := Eval vm_compute in " + mon + " cases.\nPrint BC. Print BM.\n")
		sb.WriteString("Definition BCS := Eval vm_compute in bad_corr_steps cases.\nPrint BCS.\n")
		os.WriteFile(filepath.Join(*out, fmt.Sprintf("shard%03d.v", nshard)), []byte(sb.String()), 0o644)
		nshard++
	}
	for i := 0; i < len(advs); i += 40 {
		j := i + 40
		if j > len(advs) {
			j = len(advs)
		}
		writeAdvShard(*out, nshard, advs[i:j])
		nshard++
	}
	nsteps := 0
	for _, sc := range scs {
		nsteps += len(sc.Steps)
	}
	var samples []*scenario
	for i, sc := range scs {
		if i%97 == 3 || len(scs) < 3 {
			c := *sc
			if len(c.Steps) > 12 {
				c.Steps = c.Steps[:12]
			}
			samples = append(samples, &c)
		}
	}
	meta := map[string]interface{}{
		"evaluations":         len(scs) + len(advs),
		"steps":               nsteps,
		"distinct_nontrivial": len(distinct),
		"rule":                "one evaluation = one history of 5..60 steps (remote messages, torrent commands, ticks, upload ticks, congestion, writer death) on one real peer.Peer, every step compared with the model (verdict, messages, events, state snapshot), or (C11) one start-up of a real peer.Run over an in-memory connection whose remote end records the initial advertisement; distinct non-trivial = new (geometry, set of step kinds) with at least 2 steps producing output beyond the first",
		"step_kinds":          kinds,
		"samples":             samples,
		"shards":              nshard,
	}
	b, _ := json.MarshalIndent(meta, "", " ")
	os.WriteFile(filepath.Join(*out, "meta.json"), b, 0o644)
}
