package main

// The initial advertisement of peer.Run (HaveNone / HaveAll / Have... / Bitfield after the optional
// extended handshake), observed by a remote end of an in-memory connection to the real peer.Run.

import (
	"bytes"
	"fmt"
	"math/rand"
	"net/netip"
	"os"
	"path/filepath"
	"strings"
	"time"

	"github.com/jech/storrent/bitmap"
	"github.com/jech/storrent/peer"
	"github.com/jech/storrent/protocol"
	"github.com/jech/storrent/tor/piece"

	"verifharness/internal/cq"
	"verifharness/internal/pipe"
	"verifharness/internal/wm"
)

type advCase struct {
	ID    int      `json:"id"`
	Kind  string   `json:"kind"`
	Psize uint32   `json:"psize"`
	Total int64    `json:"total"`
	Fast  bool     `json:"fast"`
	Ext   bool     `json:"ext"`
	My    []int    `json:"my"`
	Stall bool     `json:"stall,omitempty"` // the remote end closes at once and reads nothing
	Obs   []string `json:"obs,omitempty"`
	Err   string   `json:"err,omitempty"`
	// how Run ended
	Returned bool `json:"returned"`
	Goaway   bool `json:"goaway"`
	DoneCl   bool `json:"done_closed"`
}

func genAdv(r *rand.Rand, id int) *advCase {
	c := &advCase{ID: id, Kind: "adv", Psize: 16384, Fast: r.Intn(2) == 0, Ext: r.Intn(3) == 0}
	nps := []int{1, 2, 7, 8, 9, 15, 16, 17, 24, 64, 71, 72, 73, 80, 143, 144, 145, 200, 288}
	np := nps[r.Intn(len(nps))]
	if r.Intn(6) == 0 {
		// a burst of Haves larger than the writer channel against a peer that closes at once
		c.Stall = true
		np = 5200 + r.Intn(3000)
		c.Total = int64(np) * 16384
		k := 66 + r.Intn(np/72-66)
		for _, i := range r.Perm(np)[:k] {
			c.My = append(c.My, i)
		}
		return c
	}
	c.Total = int64(np)*16384 - int64(r.Intn(2))*int64(1+r.Intn(16000))
	if c.Total <= 0 {
		c.Total = 16384
	}
	switch r.Intn(6) {
	case 0: // nothing
	case 1: // everything
		for i := 0; i < np; i++ {
			c.My = append(c.My, i)
		}
	case 2: // sparse: below np/72
		k := np / 72
		if k > 0 {
			k = r.Intn(k + 1)
		}
		for _, i := range r.Perm(np)[:k] {
			c.My = append(c.My, i)
		}
	case 3: // just the last piece(s)
		c.My = append(c.My, np-1)
		if np > 1 && r.Intn(2) == 0 {
			c.My = append(c.My, np-2)
		}
	default:
		for i := 0; i < np; i++ {
			if r.Intn(3) != 0 {
				c.My = append(c.My, i)
			}
		}
	}
	return c
}

func runAdv(c *advCase) {
	c.Obs, c.Err = nil, ""
	ps := new(piece.Pieces)
	ps.MetadataComplete(c.Psize, c.Total)
	var my bitmap.Bitmap
	for _, i := range c.My {
		my.Set(i)
	}
	a, b := pipe.New()
	addr := netip.MustParseAddrPort("10.1.2.3:6881")
	res := protocol.HandshakeResult{Hash: make([]byte, 20), Id: make([]byte, 20), Fast: c.Fast, Extended: c.Ext}
	p := peer.New("", a, addr, false, res)
	p.Log.SetOutput(devNull{})
	p.Pieces = ps
	torEvent := make(chan peer.TorEvent, 1024)
	torDone := make(chan struct{})
	runDone := make(chan struct{})
	go func() {
		defer close(runDone)
		peer.Run(p, torEvent, torDone, make([]byte, 100), my, nil)
	}()
	msgs := make(chan protocol.Message, 1024)
	rdone := make(chan struct{})
	if c.Stall {
		b.Close()
		close(msgs)
	} else {
		go protocol.Reader(b, nil, nil, msgs, rdone)
	}
	idle := time.NewTimer(2 * time.Second)
loop:
	for {
		select {
		case m, ok := <-msgs:
			if !ok {
				break loop
			}
			if e, isErr := m.(protocol.Error); isErr {
				c.Err = fmt.Sprint(e.Error)
				break loop
			}
			t, _ := wm.Render(m)
			c.Obs = append(c.Obs, t)
			if !idle.Stop() {
				select {
				case <-idle.C:
				default:
				}
			}
			idle.Reset(120 * time.Millisecond)
		case <-idle.C:
			break loop
		}
	}
	close(rdone)
	b.Close()
	a.Close()
	select {
	case <-runDone:
		c.Returned = true
	case <-time.After(3 * time.Second):
		c.Err = "peer.Run did not return"
	}
	// the departure must have been announced to the torrent, whatever the exit path
	c.Goaway, c.DoneCl = false, false
drain:
	for {
		select {
		case e := <-torEvent:
			if _, ok := e.(peer.TorPeerGoaway); ok {
				c.Goaway = true
			}
		default:
			break drain
		}
	}
	select {
	case <-p.Done:
		c.DoneCl = true
	default:
	}
	close(torDone)
}

type devNull struct{}

func (devNull) Write(p []byte) (int, error) { return len(p), nil }

func advTerm(c *advCase) string {
	var my bitmap.Bitmap
	for _, i := range c.My {
		my.Set(i)
	}
	obs := c.Obs
	if c.Stall {
		obs, my = nil, nil // only the exit is judged
	}
	return fmt.Sprintf("mk_adv %d {| psize := %d; total := %d; info_len := 100 |} %s %s %s %s %s %s %s",
		c.ID, c.Psize, c.Total, cq.Bool(c.Fast), cq.Bool(c.Ext), renderBm(my), cq.List(obs),
		cq.Bool(c.Stall), cq.Bool(c.Returned), cq.Bool(c.Goaway && c.DoneCl))
}

func writeAdvShard(out string, nshard int, cases []*advCase) {
	var terms []string
	for _, c := range cases {
		terms = append(terms, advTerm(c))
	}
	var sb bytes.Buffer
	sb.WriteString("From Storrent Require Import Base.Bytes Base.Bencode Model.Wire Model.PeerCore Check.WireCheck Check.PeerCheck.\nOpen Scope N_scope.\n")
	sb.WriteString("Definition cases : list advcase := [\n" + strings.Join(terms, ";\n") + "\n].\n")
	sb.WriteString("Definition BC := Eval vm_compute in bad_corr_adv cases.\nDefinition BM := Eval vm_compute in bad_monitor_adv cases.\nPrint BC. Print BM.\n")
	os.WriteFile(filepath.Join(out, fmt.Sprintf("shard%03d.v", nshard)), sb.Bytes(), 0o644)
}
