// tracker: correspondence harness for C15 (tracker reply parsing and announce timing).
package main

import (
	"bytes"
	"context"
	"encoding/binary"
	"encoding/json"
	"errors"
	"flag"
	"fmt"
	"io"
	"math/rand"
	"net"
	"net/http"
	"net/http/httptest"
	"net/netip"
	"os"
	"os/exec"
	"path/filepath"
	"strings"
	"sync"
	"sync/atomic"
	"time"

	"github.com/jech/storrent/tracker"

	"verifharness/internal/cq"
)

type kcase struct {
	ID    int      `json:"id"`
	Kind  string   `json:"kind"`           // udploop udpannounce http timing
	Atts  []string `json:"atts,omitempty"` // "w", "r", or hex datagram (EncodeRuns)
	Min   int      `json:"min,omitempty"`
	Act   uint32   `json:"action,omitempty"`
	Tid   uint32   `json:"tid,omitempty"`
	Reply string   `json:"reply,omitempty"`
	Body  string   `json:"body,omitempty"`
	Evs   []tevent `json:"evs,omitempty"`
	Proto string   `json:"proto,omitempty"` // timing: http (default) or udp
	Obs   string   `json:"obs,omitempty"`
}

type tevent struct {
	Kind string `json:"kind"` // announce state age
	Body string `json:"body,omitempty"`
	Age  int64  `json:"age,omitempty"` // seconds
}

// ---- scripted connection for the retransmission loop ----

type fakeConn struct {
	atts []string
	i    int
}

func (c *fakeConn) Write(b []byte) (int, error) {
	if c.i < len(c.atts) && c.atts[c.i] == "w" {
		c.i++
		return 0, errors.New("write failed")
	}
	return len(b), nil
}
func (c *fakeConn) Read(b []byte) (int, error) {
	if c.i >= len(c.atts) {
		return 0, errors.New("no more")
	}
	a := c.atts[c.i]
	c.i++
	if a == "r" {
		return 0, errors.New("timeout")
	}
	d := cq.DecodeRuns(a)
	n := copy(b, d)
	return n, nil
}
func (c *fakeConn) Close() error                       { return nil }
func (c *fakeConn) LocalAddr() net.Addr                { return nil }
func (c *fakeConn) RemoteAddr() net.Addr               { return nil }
func (c *fakeConn) SetDeadline(t time.Time) error      { return nil }
func (c *fakeConn) SetReadDeadline(t time.Time) error  { return nil }
func (c *fakeConn) SetWriteDeadline(t time.Time) error { return nil }

func renderAtts(atts []string) string {
	var o []string
	for _, a := range atts {
		switch a {
		case "w":
			o = append(o, "AWriteErr")
		case "r":
			o = append(o, "AReadErr")
		default:
			o = append(o, "(ADatagram "+cq.Bytes(cq.DecodeRuns(a))+")")
		}
	}
	return cq.List(o)
}

func runUdpLoop(c *kcase) string {
	conn := &fakeConn{atts: c.Atts}
	var r *bytes.Reader
	var err error
	panicked := false
	func() {
		defer func() {
			if x := recover(); x != nil {
				panicked = true
			}
		}()
		r, err = tracker.VerifUDPRequestReply(context.Background(), conn, []byte("request"), c.Min, c.Act, c.Tid)
	}()
	obs := ""
	switch {
	case panicked:
		obs = "UObsPanic"
	case err == nil:
		rest, _ := io.ReadAll(r)
		obs = "(UObsOk " + cq.Bytes(rest) + ")"
	case err.Error() == "action mismatch":
		obs = "UObsAction"
	case err.Error() == "write failed" || err.Error() == "timeout" || err.Error() == "no more" || errors.Is(err, tracker.ErrParse) || err.Error() == "transaction id mismatch" || strings.Contains(err.Error(), "EOF"):
		obs = "UObsOther"
	default:
		obs = "(UObsTracker " + cq.Bytes([]byte(err.Error())) + ")"
	}
	c.Obs = obs
	if len(obs) > 80 {
		c.Obs = obs[:80]
	}
	return fmt.Sprintf("(KUdpLoop %s %d %d %d %s)", renderAtts(c.Atts), c.Min, c.Act, c.Tid, obs)
}

// ---- loopback UDP server for the announce exchange ----

func renderPeers(ps []netip.AddrPort) string {
	var o []string
	for _, p := range ps {
		o = append(o, fmt.Sprintf("(%s, %d)", cq.Bytes(p.Addr().AsSlice()), p.Port()))
	}
	return cq.List(o)
}

func runUdpAnnounce(c *kcase) string {
	reply := cq.DecodeRuns(c.Reply)
	pc, err := net.ListenPacket("udp4", "127.0.0.1:0")
	if err != nil {
		panic(err)
	}
	defer pc.Close()
	var tid uint32
	go func() {
		buf := make([]byte, 4096)
		for {
			n, addr, err := pc.ReadFrom(buf)
			if err != nil {
				return
			}
			if n >= 16 && binary.BigEndian.Uint32(buf[8:12]) == 0 {
				// connect: echo the transaction id
				out := make([]byte, 16)
				copy(out[4:8], buf[12:16])
				binary.BigEndian.PutUint64(out[8:], 0x1122334455667788)
				pc.WriteTo(out, addr)
			} else if n >= 16 {
				atomic.StoreUint32(&tid, binary.BigEndian.Uint32(buf[12:16]))
				out := append([]byte{}, reply...)
				if len(out) >= 8 && c.Tid == 0 {
					copy(out[4:8], buf[12:16]) // honest transaction id
				}
				// a hostile transaction id is answered four times (the client retransmits)
				pc.WriteTo(out, addr)
			}
		}
	}()
	var mu sync.Mutex
	var peers []netip.AddrPort
	var interval time.Duration
	var aerr error
	panicked := false
	func() {
		defer func() {
			if x := recover(); x != nil {
				panicked = true
			}
		}()
		ctx, cancel := context.WithTimeout(context.Background(), 20*time.Second)
		defer cancel()
		interval, aerr = tracker.VerifAnnounceUDP(ctx, "udp4", func(a netip.AddrPort) bool {
			mu.Lock()
			peers = append(peers, a)
			mu.Unlock()
			return true
		}, "udp://"+pc.LocalAddr().String(), make([]byte, 20), make([]byte, 20), 50, 1000, 6881)
	}()
	t := atomic.LoadUint32(&tid)
	if c.Tid != 0 && len(reply) >= 8 {
		// the reply carried its own (foreign) transaction id
	} else if len(reply) >= 8 {
		binary.BigEndian.PutUint32(reply[4:8], t)
	}
	obs := ""
	if panicked {
		obs = "AObsPanic"
	} else {
		obs = fmt.Sprintf("(AObs %s (%d)%%Z %s)", cq.Bool(aerr == nil), int64(interval), renderPeers(peers))
	}
	c.Obs = obs
	if len(obs) > 80 {
		c.Obs = obs[:80]
	}
	return fmt.Sprintf("(KUdpAnnounce %s %d %s)", cq.Bytes(reply), t, obs)
}

// ---- HTTP ----

func runHTTP(c *kcase) string {
	body := cq.DecodeRuns(c.Body)
	srv := httptest.NewServer(http.HandlerFunc(func(w http.ResponseWriter, r *http.Request) {
		w.Write(body)
	}))
	defer srv.Close()
	tr := tracker.New(srv.URL + "/announce").(*tracker.HTTP)
	var peers []netip.AddrPort
	var mu sync.Mutex
	var interval int
	var aerr error
	panicked := false
	func() {
		defer func() {
			if x := recover(); x != nil {
				panicked = true
			}
		}()
		interval, aerr = tracker.VerifAnnounceHTTP(context.Background(), "tcp4", tr, make([]byte, 20), make([]byte, 20), 50, 1000, 6881,
			func(a netip.AddrPort) bool {
				mu.Lock()
				peers = append(peers, a)
				mu.Unlock()
				return true
			})
	}()
	_, retry, _, _ := tracker.VerifTiming(tr)
	obs := ""
	if panicked {
		obs = "AObsPanic"
	} else {
		obs = fmt.Sprintf("(AObs %s (%d)%%Z %s)", cq.Bool(aerr == nil), int64(time.Duration(interval)*time.Second), renderPeers(peers))
	}
	c.Obs = obs
	if len(obs) > 80 {
		c.Obs = obs[:80]
	}
	return fmt.Sprintf("(KHttp %s %s (%d)%%Z)", cq.Bytes(body), obs, int64(retry))
}

// ---- timing ----

const startTime = int64(1000000000000000000)

// udpTrackerServer answers every connect and announce honestly (interval 1800 s, no
// peers) and counts announces.
func udpTrackerServer(hits *int32) (net.PacketConn, string) {
	pc, err := net.ListenPacket("udp4", "127.0.0.1:0")
	if err != nil {
		panic(err)
	}
	go func() {
		buf := make([]byte, 4096)
		for {
			n, addr, err := pc.ReadFrom(buf)
			if err != nil {
				return
			}
			if n < 16 {
				continue
			}
			if binary.BigEndian.Uint32(buf[8:12]) == 0 {
				out := make([]byte, 16)
				copy(out[4:8], buf[12:16])
				pc.WriteTo(out, addr)
			} else {
				atomic.AddInt32(hits, 1)
				out := make([]byte, 20)
				binary.BigEndian.PutUint32(out[0:], 1)
				copy(out[4:8], buf[12:16])
				binary.BigEndian.PutUint32(out[8:], 1800)
				pc.WriteTo(out, addr)
			}
		}
	}()
	return pc, "udp://" + pc.LocalAddr().String()
}

func runTiming(c *kcase) string {
	var body atomic.Value
	body.Store([]byte("de"))
	var hits int32
	var tr tracker.Tracker
	if c.Proto == "udp" {
		pc, url := udpTrackerServer(&hits)
		defer pc.Close()
		tr = tracker.New(url)
	} else {
		srv := httptest.NewServer(http.HandlerFunc(func(w http.ResponseWriter, r *http.Request) {
			atomic.AddInt32(&hits, 1)
			w.Write(body.Load().([]byte))
		}))
		defer srv.Close()
		tr = tracker.New(srv.URL + "/announce")
	}
	t0 := time.Now()
	aged := int64(0)
	clock := func() int64 { return startTime + aged + int64(time.Since(t0)) }
	var evs []string
	stuck := false
	for i := range c.Evs {
		e := &c.Evs[i]
		switch e.Kind {
		case "age":
			tracker.VerifAge(tr, time.Duration(e.Age)*time.Second)
			aged += e.Age * 1000000000
		case "state":
			now := clock()
			st, _ := tr.GetState()
			name := map[tracker.State]string{tracker.Busy: "TBusy", tracker.Ready: "TReady", tracker.Error: "TError", tracker.Idle: "TIdle"}[st]
			evs = append(evs, fmt.Sprintf("(TState (%d)%%Z %s)", now, name))
		case "announce":
			if c.Proto == "udp" {
				e.Body = cq.EncodeRuns([]byte("d8:intervali1800ee")) // what the UDP server's reply amounts to
			}
			body.Store(cq.DecodeRuns(e.Body))
			h0 := atomic.LoadInt32(&hits)
			now := clock()
			err := tr.Announce(context.Background(), make([]byte, 20), make([]byte, 20), 50, 1000, 6881, 6881, "",
				func(netip.AddrPort) bool { return true })
			contacted := atomic.LoadInt32(&hits) > h0
			_, interval, locked, _ := tracker.VerifTiming(tr)
			if locked {
				stuck = true
			}
			evs = append(evs, fmt.Sprintf("(TAnnounce (%d)%%Z %s %s %s %s (%d)%%Z)", now, cq.Bytes(cq.DecodeRuns(e.Body)),
				cq.Bool(errors.Is(err, tracker.ErrNotReady)), cq.Bool(err != nil && !errors.Is(err, tracker.ErrNotReady)), cq.Bool(contacted), int64(interval)))
		}
	}
	c.Obs = fmt.Sprintf("events=%d stuck=%v", len(evs), stuck)
	return fmt.Sprintf("(KTiming %s %s)", cq.List(evs), cq.Bool(stuck))
}

// ---- generation ----

func be32(v uint32) []byte { return binary.BigEndian.AppendUint32(nil, v) }

func rbytes(r *rand.Rand, n int) []byte {
	b := make([]byte, n)
	r.Read(b)
	return b
}

func bstr(s []byte) []byte { return append([]byte(fmt.Sprintf("%d:", len(s))), s...) }

func genHTTPBody(r *rand.Rand) []byte {
	var kvs [][2][]byte
	add := func(k string, v []byte) { kvs = append(kvs, [2][]byte{[]byte(k), v}) }
	if r.Intn(5) == 0 {
		add("failure reason", bstr([]byte([]string{"denied", "", "torrent not registered <b>"}[r.Intn(3)])))
		if r.Intn(2) == 0 {
			add("retry in", bstr([]byte([]string{"never", "5", "0", "-3", "abc", "153722867280912930", "30"}[r.Intn(7)])))
		}
	}
	if r.Intn(4) != 0 {
		add("interval", []byte("i"+[]string{"1800", "60", "61", "0", "-5", "300", "9223372036854775807", "9223372037", "100000000000", "x", "4294967296"}[r.Intn(11)]+"e"))
	}
	switch r.Intn(6) {
	case 0, 1, 2:
		n := r.Intn(5)
		p := rbytes(r, 6*n)
		if r.Intn(5) == 0 {
			p = append(p, rbytes(r, 1+r.Intn(5))...)
		}
		add("peers", bstr(p))
	case 3:
		var l []byte
		l = append(l, 'l')
		for i := r.Intn(4); i > 0; i-- {
			ip := []string{"1.2.3.4", "10.0.0.255", "256.1.1.1", "01.2.3.4", "host.example", "1.2.3", "", "9.9.9.9"}[r.Intn(8)]
			port := []string{"6881", "0", "65535", "65536", "70000", "-1"}[r.Intn(6)]
			d := "d2:ip" + string(bstr([]byte(ip))) + "4:porti" + port + "e"
			if r.Intn(4) == 0 {
				d += "7:peer id20:aaaaaaaaaaaaaaaaaaaa"
			}
			l = append(l, []byte(d+"e")...)
		}
		l = append(l, 'e')
		add("peers", l)
	case 4:
		add("peers", []byte([]string{"i5e", "de", "le", "li1ei2ei3ei4ei5ei6ee"}[r.Intn(4)]))
	}
	if r.Intn(3) == 0 {
		n := r.Intn(3)
		p := rbytes(r, 18*n)
		switch r.Intn(6) {
		case 0:
			p = append(p, rbytes(r, 1+r.Intn(17))...)
		case 1:
			p = rbytes(r, []int{19, 27, 34, 17, 1}[r.Intn(5)])
		}
		add("peers6", bstr(p))
	}
	if r.Intn(4) == 0 {
		add("complete", []byte("i5e"))
	}
	if r.Intn(10) == 0 {
		add("peers6", []byte("i7e"))
	}
	if r.Intn(8) == 0 {
		// a key nobody knows, nesting deeply: the reply decoder is recursive (a few megabytes of
		// this overflowed its stack before the depth limit)
		d := []int{5, 62, 63, 64, 65, 100, 3000}[r.Intn(7)]
		add("zdeep", []byte(strings.Repeat("l", d)+strings.Repeat("e", d)))
	}
	out := []byte("d")
	for _, kv := range kvs {
		out = append(out, bstr(kv[0])...)
		out = append(out, kv[1]...)
	}
	out = append(out, 'e')
	switch r.Intn(12) {
	case 0:
		out = out[:r.Intn(len(out))]
	case 1:
		out[r.Intn(len(out))] = byte(r.Intn(256))
	case 2:
		out = append(out, []byte("junk")...)
	}
	return out
}

func gen(r *rand.Rand, n int) []*kcase {
	var cs []*kcase
	add := func(c *kcase) { c.ID = len(cs); cs = append(cs, c) }
	// corpus: four datagrams with a foreign transaction id
	foreign := cq.EncodeRuns(append(append(be32(0), be32(99)...), make([]byte, 8)...))
	add(&kcase{Kind: "udploop", Atts: []string{foreign, foreign, foreign, foreign}, Min: 16, Act: 0, Tid: 7})
	for i := 0; i < n; i++ {
		switch r.Intn(4) {
		case 0: // retransmission loop
			c := &kcase{Kind: "udploop", Min: []int{16, 20}[r.Intn(2)], Act: uint32(r.Intn(2)), Tid: r.Uint32()}
			for k := 1 + r.Intn(4); k > 0; k-- {
				switch r.Intn(8) {
				case 0:
					c.Atts = append(c.Atts, "w")
				case 1:
					c.Atts = append(c.Atts, "r")
				default:
					act := []uint32{c.Act, c.Act, 3, 1 - c.Act, 2, 1 << 31}[r.Intn(6)]
					tid := c.Tid
					if r.Intn(3) == 0 {
						tid = []uint32{0, c.Tid + 1, ^c.Tid}[r.Intn(3)]
					}
					d := append(append(be32(act), be32(tid)...), rbytes(r, []int{0, 3, 7, 8, 12, 30}[r.Intn(6)])...)
					if r.Intn(8) == 0 {
						d = d[:r.Intn(len(d))]
					}
					c.Atts = append(c.Atts, cq.EncodeRuns(d))
				}
			}
			for len(c.Atts) < 4 {
				c.Atts = append(c.Atts, []string{"r", "w"}[r.Intn(2)])
			}
			add(c)
		case 1: // announce reply through a real socket
			act := []uint32{1, 1, 1, 3, 0}[r.Intn(5)]
			reply := append(append(be32(act), be32(0)...), be32([]uint32{1800, 0, 60, 1<<32 - 1, 300}[r.Intn(5)])...)
			reply = append(reply, rbytes(r, 8)...)
			reply = append(reply, rbytes(r, 6*r.Intn(5))...)
			if r.Intn(4) == 0 {
				reply = append(reply, rbytes(r, 1+r.Intn(5))...)
			}
			if r.Intn(8) == 0 {
				reply = reply[:8+r.Intn(12)]
			}
			add(&kcase{Kind: "udpannounce", Reply: cq.EncodeRuns(reply)})
		case 2:
			add(&kcase{Kind: "http", Body: cq.EncodeRuns(genHTTPBody(r))})
		case 3:
			c := &kcase{Kind: "timing"}
			if r.Intn(3) == 0 {
				c.Proto = "udp"
			}
			for k := 3 + r.Intn(8); k > 0; k-- {
				switch r.Intn(5) {
				case 0:
					c.Evs = append(c.Evs, tevent{Kind: "state"})
				case 1, 2:
					c.Evs = append(c.Evs, tevent{Kind: "age", Age: []int64{10, 290, 310, 890, 910, 1790, 1810, 3600, 7200, 100000}[r.Intn(10)]})
				default:
					c.Evs = append(c.Evs, tevent{Kind: "announce", Body: cq.EncodeRuns(genHTTPBody(r))})
				}
			}
			add(c)
		}
	}
	return cs
}

func run(c *kcase) string {
	var k string
	switch c.Kind {
	case "udploop":
		k = runUdpLoop(c)
	case "udpannounce":
		k = runUdpAnnounce(c)
	case "http":
		k = runHTTP(c)
	case "timing":
		// Announce panics inside its own goroutines cannot be recovered: run the case
		// in a child process and report a dead child as a failed case
		b, _ := json.Marshal(c)
		cmd := exec.Command(os.Args[0], "timing1", string(b))
		out, err := cmd.Output()
		if err != nil || !bytes.HasPrefix(out, []byte("(KTiming")) {
			c.Obs = "process died (panic in Announce)"
			k = "(KTiming [] true)"
		} else {
			var res struct {
				Term string
				Obs  string
			}
			parts := bytes.SplitN(out, []byte("\n#OBS "), 2)
			res.Term = string(parts[0])
			if len(parts) > 1 {
				res.Obs = strings.TrimSpace(string(parts[1]))
			}
			k, c.Obs = res.Term, res.Obs
		}
	}
	return fmt.Sprintf("{| k_id := %d; k_case := %s |}", c.ID, k)
}

func main() {
	if len(os.Args) == 3 && os.Args[1] == "timing1" {
		var c kcase
		json.Unmarshal([]byte(os.Args[2]), &c)
		t := runTiming(&c)
		fmt.Printf("%s\n#OBS %s\n", t, c.Obs)
		return
	}
	fs := flag.NewFlagSet("tracker", flag.ExitOnError)
	fs.String("prop", "C15", "property")
	out := fs.String("out", "", "output directory")
	n := fs.Int("n", 600, "number of cases")
	casef := fs.String("case", "", "case file (replay)")
	fs.Parse(os.Args[2:])
	os.MkdirAll(*out, 0o755)
	var cases []*kcase
	switch os.Args[1] {
	case "gen":
		cases = gen(cq.Rand(), *n)
	case "replay":
		data, _ := os.ReadFile(*casef)
		var c kcase
		var wrap struct {
			Case kcase `json:"case"`
		}
		if json.Unmarshal(data, &wrap) == nil && wrap.Case.Kind != "" {
			c = wrap.Case
		} else {
			json.Unmarshal(data, &c)
		}
		c.ID = 0
		cases = []*kcase{&c}
	}
	var terms []string
	kinds := map[string]int{}
	distinct := map[string]bool{}
	for _, c := range cases {
		terms = append(terms, run(c))
		kinds[c.Kind]++
		o := c.Obs
		if len(o) > 12 {
			o = o[:12]
		}
		distinct[fmt.Sprintf("%s/%d/%d/%s", c.Kind, len(c.Atts), len(c.Evs), o)] = true
	}
	jf, _ := os.Create(filepath.Join(*out, "cases.jsonl"))
	for _, c := range cases {
		b, _ := json.Marshal(c)
		jf.Write(append(b, '\n'))
	}
	jf.Close()
	nshard := 0
	for i := 0; i < len(terms); i += 100 {
		j := i + 100
		if j > len(terms) {
			j = len(terms)
		}
		var sb strings.Builder
		sb.WriteString("From Storrent Require Import Base.Bytes Base.Bencode Model.Wire Model.Tracker Check.WireCheck Check.TrackerCheck.\nOpen Scope N_scope.\n")
		sb.WriteString("Definition cases : list tcase15 := [\n" + strings.Join(terms[i:j], ";\n") + "\n].\n")
		sb.WriteString("Definition BC := Eval vm_compute in bad_corr15 cases.\nDefinition BM := Eval vm_compute in bad_monitor15 cases.\nPrint BC. Print BM.\n")
		os.WriteFile(filepath.Join(*out, fmt.Sprintf("shard%03d.v", nshard)), []byte(sb.String()), 0o644)
		nshard++
	}
	var samples []*kcase
	for i, c := range cases {
		if i%131 == 1 || len(cases) < 4 {
			samples = append(samples, c)
		}
	}
	meta := map[string]interface{}{
		"evaluations":         len(cases),
		"distinct_nontrivial": len(distinct),
		"rule":                "one evaluation = one scripted exchange: a retransmission loop over a scripted connection (4 attempts), a UDP announce against a loopback server, an HTTP announce against a loopback server, or a history of announces/clock advances/state queries on one tracker; distinct = new (kind, script length, outcome prefix)",
		"kinds":               kinds,
		"samples":             samples,
		"shards":              nshard,
	}
	b, _ := json.MarshalIndent(meta, "", " ")
	os.WriteFile(filepath.Join(*out, "meta.json"), b, 0o644)
}
