// genapi: a translator from Go source to the model of Model/Lifecycle.v.  For every method of
// *Torrent and *Reader (and the package-level functions) of /repo/tor it extracts the blocking
// channel operations in program order - selects with their alternatives and nested bodies, and
// bare sends/receives - and writes them as Gallina (coq/theories/Gen/TorApi.v).  The theorems of
// Properties/C17.v are about the generated definitions, so they are re-checked against what the
// code says now on every run.
package main

import (
	"fmt"
	"go/ast"
	"go/parser"
	"go/token"
	"os"
	"path/filepath"
	"sort"
	"strings"
)

// classify a channel expression
func chanKind(e ast.Expr, send bool) string {
	switch x := e.(type) {
	case *ast.SelectorExpr:
		switch x.Sel.Name {
		case "Event":
			if send {
				return "ASend"
			}
		case "Done":
			if !send {
				// t.Done, r.torrent.Done, peer.Done ...
				return "ADone"
			}
		case "Deleted":
			if !send {
				return "ADeleted"
			}
		}
	case *ast.CallExpr:
		if s, ok := x.Fun.(*ast.SelectorExpr); ok && s.Sel.Name == "Done" && !send {
			return "ACtx" // ctx.Done()
		}
	case *ast.Ident:
		if !send {
			if x.Name == "done" {
				return "APiece"
			}
			if x.Name == "ch" {
				return "ARecv"
			}
		}
	}
	return "AOther"
}

// recvOf returns the channel of a receive expression, if e is one.
func recvOf(e ast.Expr) (ast.Expr, bool) {
	if u, ok := e.(*ast.UnaryExpr); ok && u.Op == token.ARROW {
		return u.X, true
	}
	if p, ok := e.(*ast.ParenExpr); ok {
		return recvOf(p.X)
	}
	return nil, false
}

type extractor struct{ out []string }

// ops walks statements in order and returns the Gallina list of cops.
func ops(stmts []ast.Stmt) []string {
	var out []string
	for _, s := range stmts {
		out = append(out, stmtOps(s)...)
	}
	return out
}

func exprOps(e ast.Expr) []string {
	var out []string
	ast.Inspect(e, func(n ast.Node) bool {
		switch x := n.(type) {
		case *ast.FuncLit:
			return false // runs elsewhere (go func ...)
		case *ast.UnaryExpr:
			if x.Op == token.ARROW {
				out = append(out, fmt.Sprintf("CBare %s", chanKind(x.X, false)))
			}
		}
		return true
	})
	return out
}

func stmtOps(s ast.Stmt) []string {
	switch x := s.(type) {
	case nil:
		return nil
	case *ast.SelectStmt:
		var alts []string
		for _, c := range x.Body.List {
			cc := c.(*ast.CommClause)
			kind := "ADefault"
			switch comm := cc.Comm.(type) {
			case nil:
			case *ast.SendStmt:
				kind = chanKind(comm.Chan, true)
			case *ast.ExprStmt:
				if ch, ok := recvOf(comm.X); ok {
					kind = chanKind(ch, false)
				}
			case *ast.AssignStmt:
				if len(comm.Rhs) == 1 {
					if ch, ok := recvOf(comm.Rhs[0]); ok {
						kind = chanKind(ch, false)
					}
				}
			}
			alts = append(alts, fmt.Sprintf("(%s, [%s])", kind, strings.Join(ops(cc.Body), "; ")))
		}
		return []string{fmt.Sprintf("CSel [%s]", strings.Join(alts, "; "))}
	case *ast.SendStmt:
		return append(exprOps(x.Value), fmt.Sprintf("CBare %s", chanKind(x.Chan, true)))
	case *ast.ExprStmt:
		return exprOps(x.X)
	case *ast.AssignStmt:
		var out []string
		for _, r := range x.Rhs {
			out = append(out, exprOps(r)...)
		}
		return out
	case *ast.ReturnStmt:
		var out []string
		for _, r := range x.Results {
			out = append(out, exprOps(r)...)
		}
		return out
	case *ast.DeclStmt:
		var out []string
		ast.Inspect(x, func(n ast.Node) bool {
			if e, ok := n.(ast.Expr); ok {
				out = append(out, exprOps(e)...)
				return false
			}
			return true
		})
		return out
	case *ast.BlockStmt:
		return ops(x.List)
	case *ast.IfStmt:
		out := stmtOps(x.Init)
		out = append(out, exprOps(x.Cond)...)
		out = append(out, ops(x.Body.List)...)
		if x.Else != nil {
			out = append(out, stmtOps(x.Else)...)
		}
		return out
	case *ast.ForStmt:
		// one pass through the body: every blocking operation of the loop appears once
		out := stmtOps(x.Init)
		out = append(out, ops(x.Body.List)...)
		return out
	case *ast.RangeStmt:
		return ops(x.Body.List)
	case *ast.SwitchStmt:
		var out []string
		for _, c := range x.Body.List {
			out = append(out, ops(c.(*ast.CaseClause).Body)...)
		}
		return out
	case *ast.TypeSwitchStmt:
		var out []string
		for _, c := range x.Body.List {
			out = append(out, ops(c.(*ast.CaseClause).Body)...)
		}
		return out
	case *ast.LabeledStmt:
		return stmtOps(x.Stmt)
	case *ast.GoStmt, *ast.DeferStmt:
		return nil // not part of the caller's own blocking behaviour
	}
	return nil
}

func recvName(fd *ast.FuncDecl) string {
	if fd.Recv == nil || len(fd.Recv.List) == 0 {
		return ""
	}
	t := fd.Recv.List[0].Type
	if s, ok := t.(*ast.StarExpr); ok {
		t = s.X
	}
	if id, ok := t.(*ast.Ident); ok {
		return id.Name
	}
	return ""
}

func main() {
	if len(os.Args) != 3 {
		fmt.Fprintln(os.Stderr, "usage: genapi <repo> <out.v>")
		os.Exit(2)
	}
	repo, out := os.Args[1], os.Args[2]
	fset := token.NewFileSet()
	pkgs, err := parser.ParseDir(fset, filepath.Join(repo, "tor"), func(fi os.FileInfo) bool {
		return !strings.HasSuffix(fi.Name(), "_test.go") && !strings.HasSuffix(fi.Name(), "_verif.go")
	}, 0)
	if err != nil {
		fmt.Fprintf(os.Stderr, "genapi: %v\n", err)
		os.Exit(1)
	}
	type api struct{ name, body string }
	var apis []api
	for _, pkg := range pkgs {
		for _, f := range pkg.Files {
			for _, d := range f.Decls {
				fd, ok := d.(*ast.FuncDecl)
				if !ok || fd.Body == nil || !fd.Name.IsExported() {
					continue
				}
				rn := recvName(fd)
				if rn != "" && rn != "Torrent" && rn != "Reader" {
					continue
				}
				o := ops(fd.Body.List)
				if len(o) == 0 {
					continue // no blocking operation of its own
				}
				name := fd.Name.Name
				if rn != "" {
					name = rn + "." + name
				}
				apis = append(apis, api{name, strings.Join(o, ";\n     ")})
			}
		}
	}
	sort.Slice(apis, func(i, j int) bool { return apis[i].name < apis[j].name })
	var sb strings.Builder
	sb.WriteString("(* Generated by harness/cmd/genapi from /repo/tor/*.go on every run; do not edit. *)\n")
	sb.WriteString("From Coq Require Import String List.\nFrom Storrent Require Import Model.Lifecycle.\nImport ListNotations.\nOpen Scope string_scope.\n\n")
	sb.WriteString("Definition tor_apis : list (string * list cop) := [\n")
	for i, a := range apis {
		sep := ";"
		if i == len(apis)-1 {
			sep = ""
		}
		fmt.Fprintf(&sb, "  (\"%s\",\n    [%s])%s\n", a.name, a.body, sep)
	}
	sb.WriteString("].\n")
	old, _ := os.ReadFile(out)
	if string(old) != sb.String() {
		if err := os.WriteFile(out, []byte(sb.String()), 0o644); err != nil {
			fmt.Fprintf(os.Stderr, "genapi: %v\n", err)
			os.Exit(1)
		}
	}
}
