// wire: correspondence harness for C04 (protocol.Read) and C06 (protocol.Write).
//
//	wire gen  -prop C04|C06 -out DIR [-n N]     generate cases, run the implementation, write shards
//	wire replay -prop C04|C06 -case FILE -out DIR   re-run one recorded case
package main

import (
	"bufio"
	"encoding/binary"
	"encoding/hex"
	"encoding/json"
	"errors"
	"flag"
	"fmt"
	"io"
	"math/rand"
	"os"
	"path/filepath"
	"runtime"
	"sort"
	"strings"

	"github.com/jech/storrent/protocol"

	"verifharness/internal/cq"
	"verifharness/internal/wm"
)

type wcase struct {
	ID    int    `json:"id"`
	Kind  string `json:"kind"`
	Input string `json:"input"` // hex, with "(r<count>x<byte>)" for long runs
	Cut   string `json:"cut"`
	CutSd int64  `json:"cutseed"`
	Obs   string `json:"obs,omitempty"`
	Class string `json:"class,omitempty"`
}

func encodeInput(b []byte) string {
	var sb strings.Builder
	i := 0
	for i < len(b) {
		j := i
		for j < len(b) && b[j] == b[i] {
			j++
		}
		if j-i >= 64 {
			fmt.Fprintf(&sb, "(r%dx%d)", j-i, b[i])
			i = j
			continue
		}
		sb.WriteString(hex.EncodeToString(b[i : i+1]))
		i++
	}
	return sb.String()
}

func decodeInput(s string) []byte {
	var out []byte
	for len(s) > 0 {
		if s[0] == '(' {
			end := strings.IndexByte(s, ')')
			var n, b int
			fmt.Sscanf(s[1:end], "r%dx%d", &n, &b)
			for k := 0; k < n; k++ {
				out = append(out, byte(b))
			}
			s = s[end+1:]
			continue
		}
		v, _ := hex.DecodeString(s[:2])
		out = append(out, v[0])
		s = s[2:]
	}
	return out
}

// cutReader delivers data in chunk sizes chosen by mode.
type cutReader struct {
	data      []byte
	pos       int
	mode      string
	rnd       *rand.Rand
	delivered int
}

func (c *cutReader) Read(p []byte) (int, error) {
	if c.pos >= len(c.data) {
		return 0, io.EOF
	}
	n := len(p)
	switch c.mode {
	case "one":
		n = 1
	case "rand":
		n = 1 + c.rnd.Intn(9)
		if c.rnd.Intn(4) == 0 {
			n = 1 + c.rnd.Intn(5000)
		}
	case "seven":
		n = 7
	}
	if n > len(p) {
		n = len(p)
	}
	if n > len(c.data)-c.pos {
		n = len(c.data) - c.pos
	}
	copy(p, c.data[c.pos:c.pos+n])
	c.pos += n
	c.delivered += n
	return n, nil
}

func errClass(err error) string {
	switch {
	case errors.Is(err, io.EOF), errors.Is(err, io.ErrUnexpectedEOF):
		return "EEof"
	case errors.Is(err, protocol.ErrParse):
		return "EParse"
	case err.Error() == "TLV too long":
		return "ETooLong"
	default:
		return "EBencode"
	}
}

// runRead runs protocol.Read on input with the given cut mode and returns the
// observation as a Gallina term plus a coarse class for statistics.
func runRead(input []byte, cut string, cutseed int64) (obs string, class string) {
	cr := &cutReader{data: input, mode: cut, rnd: rand.New(rand.NewSource(cutseed))}
	br := bufio.NewReader(cr)
	var ms0, ms1 runtime.MemStats
	var m protocol.Message
	var err error
	panicked := false
	runtime.ReadMemStats(&ms0)
	func() {
		defer func() {
			if r := recover(); r != nil {
				panicked = true
			}
		}()
		m, err = protocol.Read(br, nil)
	}()
	runtime.ReadMemStats(&ms1)
	if panicked {
		return "OPanic", "panic"
	}
	consumed := cr.delivered - br.Buffered()
	alloc := ms1.TotalAlloc - ms0.TotalAlloc
	if err != nil {
		c := errClass(err)
		return fmt.Sprintf("(OErr %s %d %d)", c, consumed, alloc), c
	}
	if m == nil {
		return fmt.Sprintf("(ONil %d)", consumed), "nilnil"
	}
	s, cl := wm.Render(m)
	return fmt.Sprintf("(OMsg %s %d %d)", s, consumed, alloc), cl
}

func be32(v uint32) []byte { return binary.BigEndian.AppendUint32(nil, v) }

func frame(length uint32, body []byte) []byte { return append(be32(length), body...) }

func rbytes(r *rand.Rand, n int) []byte {
	b := make([]byte, n)
	r.Read(b)
	return b
}

type gen struct {
	r     *rand.Rand
	cases []*wcase
	hist  map[string]int
}

func (g *gen) add(kind string, input []byte) {
	cut := []string{"all", "rand", "seven"}[g.r.Intn(3)]
	if len(input) <= 64 && g.r.Intn(3) == 0 {
		cut = "one"
	}
	g.cases = append(g.cases, &wcase{ID: len(g.cases), Kind: kind, Input: encodeInput(input), Cut: cut, CutSd: g.r.Int63()})
}

var boundary32 = []uint32{0, 1, 2, 3, 5, 9, 13, 16383, 16384, 16385, 1<<20 - 1, 1 << 20, 1<<20 + 1, 1 << 31, 1<<32 - 1}

func correctLen(t byte) uint32 {
	switch t {
	case 0, 1, 2, 3, 14, 15:
		return 1
	case 4, 13, 17:
		return 5
	case 6, 8, 16:
		return 13
	case 9:
		return 3
	}
	return 0
}

func (g *gen) enumerated() {
	r := g.r
	types := []byte{}
	for t := 0; t <= 21; t++ {
		types = append(types, byte(t))
	}
	types = append(types, byte(22+r.Intn(230)), 255)
	for _, t := range types {
		for L := uint32(0); L <= 20; L++ {
			variants := 1
			if L > 0 {
				variants = 3
			}
			for v := 0; v < variants; v++ {
				if t != 20 && L > 14 && L != correctLen(t) && r.Intn(3) != 0 {
					continue
				}
				var body []byte
				if L > 0 {
					body = append([]byte{t}, rbytes(r, int(L)-1)...)
					if t == 20 && L >= 2 {
						body[1] = byte(r.Intn(7))
						if L >= 4 && r.Intn(2) == 0 {
							copy(body[2:], []byte("de"))
						}
					}
				}
				kind := fmt.Sprintf("enum/t%d/L%d/", t, L)
				switch v {
				case 0:
					kind += "exact"
				case 1:
					kind += "tail"
					body = append(body, rbytes(r, 1+r.Intn(12))...)
				case 2:
					kind += "trunc"
					body = body[:r.Intn(len(body))]
				}
				g.add(kind, frame(L, body))
			}
		}
	}
	// prefix-only and empty streams
	for n := 0; n < 4; n++ {
		g.add("enum/shortprefix", rbytes(r, n))
	}
}

func (g *gen) big() {
	r := g.r
	for _, L := range []uint32{1<<20 - 1, 1 << 20, 1<<20 + 1, 1<<32 - 1, 1 << 31, 70000} {
		for _, t := range []byte{5, 7, 20, 99, 6} {
			if r.Intn(2) == 0 && L != 1<<20 {
				continue
			}
			hdr := []byte{t}
			if t == 20 {
				hdr = append(hdr, []byte{2, 9, 0, 1}[r.Intn(4)])
				if hdr[1] == 2 {
					hdr = append(hdr, []byte("d8:msg_typei1e5:piecei0ee")...)
				}
			}
			if t == 7 {
				hdr = append(hdr, rbytes(r, 8)...)
			}
			var body []byte
			if L <= 1<<20 && r.Intn(3) != 0 {
				body = append(hdr, make([]byte, int(L)-len(hdr))...)
				fill := byte(r.Intn(256))
				for i := len(hdr); i < len(body); i++ {
					body[i] = fill
				}
				body = append(body, rbytes(r, r.Intn(6))...)
			} else {
				body = append(hdr, rbytes(r, r.Intn(40))...)
			}
			g.add(fmt.Sprintf("big/t%d/L%d", t, L), frame(L, body))
		}
	}
}

// ---- bencode generation ----

func bstr(s []byte) []byte { return append([]byte(fmt.Sprintf("%d:", len(s))), s...) }
func bint(s string) []byte { return []byte("i" + s + "e") }

var intPool = []string{"0", "1", "2", "3", "255", "256", "65535", "65536", "4294967295", "4294967296",
	"18446744073709551615", "18446744073709551616", "9223372036854775807", "9223372036854775808",
	"-1", "-0", "+5", "007", "", "1_0", "0x10", "12a", "-9223372036854775808", "-9223372036854775809", "250", "16384", "49152"}

func (g *gen) rint() []byte {
	r := g.r
	if r.Intn(3) == 0 {
		return bint(intPool[r.Intn(len(intPool))])
	}
	return bint(fmt.Sprint(r.Intn(70000)))
}

func (g *gen) rvalue(depth int) []byte {
	r := g.r
	switch k := r.Intn(10); {
	case k < 3:
		return g.rint()
	case k < 6:
		return bstr(rbytes(r, r.Intn(12)))
	case k < 8 && depth < 4:
		out := []byte("l")
		for i := r.Intn(4); i > 0; i-- {
			out = append(out, g.rvalue(depth+1)...)
		}
		return append(out, 'e')
	case depth < 4:
		out := []byte("d")
		for i := r.Intn(4); i > 0; i-- {
			out = append(out, bstr(rbytes(r, r.Intn(5)))...)
			out = append(out, g.rvalue(depth+1)...)
		}
		return append(out, 'e')
	}
	return bstr([]byte("x"))
}

type kv struct {
	k string
	v []byte
}

func dict(kvs []kv) []byte {
	out := []byte("d")
	for _, e := range kvs {
		out = append(out, bstr([]byte(e.k))...)
		out = append(out, e.v...)
	}
	return append(out, 'e')
}

func (g *gen) ext0payload() ([]byte, string) {
	r := g.r
	var kvs []kv
	hostile := r.Intn(4) == 0
	tag := "valid"
	if hostile {
		tag = "hostile"
	}
	val := func(good []byte) []byte {
		if hostile && r.Intn(3) == 0 {
			return g.rvalue(0)
		}
		return good
	}
	if r.Intn(2) == 0 {
		kvs = append(kvs, kv{"v", val(bstr(rbytes(r, r.Intn(20))))})
	}
	if r.Intn(2) == 0 {
		kvs = append(kvs, kv{"ipv4", val(bstr(rbytes(r, []int{4, 4, 4, 0, 3, 16}[r.Intn(6)])))})
	}
	if r.Intn(2) == 0 {
		kvs = append(kvs, kv{"ipv6", val(bstr(rbytes(r, []int{16, 16, 16, 4, 0, 17}[r.Intn(6)])))})
	}
	if r.Intn(2) == 0 {
		kvs = append(kvs, kv{"p", val(g.rint())})
	}
	if r.Intn(2) == 0 {
		kvs = append(kvs, kv{"reqq", val(g.rint())})
	}
	if r.Intn(2) == 0 {
		kvs = append(kvs, kv{"metadata_size", val(g.rint())})
	}
	if r.Intn(2) == 0 {
		var m []kv
		names := []string{"ut_pex", "ut_metadata", "lt_donthave", "upload_only", "x", ""}
		for i := r.Intn(5); i > 0; i-- {
			m = append(m, kv{names[r.Intn(len(names))], val(g.rint())})
		}
		kvs = append(kvs, kv{"m", val(dict(m))})
	}
	if r.Intn(2) == 0 {
		kvs = append(kvs, kv{"upload_only", val([][]byte{bint("0"), bint("1"), bint("2"), bstr([]byte("0")), bstr([]byte("1")), bstr([]byte("2")), bstr(nil)}[r.Intn(7)])})
	}
	if r.Intn(2) == 0 {
		kvs = append(kvs, kv{"e", val([][]byte{bint("0"), bint("1"), bstr([]byte("1")), []byte("le"), []byte("de")}[r.Intn(5)])})
	}
	if r.Intn(3) == 0 {
		kvs = append(kvs, kv{"yourip", g.rvalue(0)})
	}
	if r.Intn(4) == 0 { // duplicate a key
		if len(kvs) > 0 {
			kvs = append(kvs, kvs[r.Intn(len(kvs))])
		}
	}
	if r.Intn(2) == 0 {
		r.Shuffle(len(kvs), func(i, j int) { kvs[i], kvs[j] = kvs[j], kvs[i] })
	} else {
		sort.SliceStable(kvs, func(i, j int) bool { return kvs[i].k < kvs[j].k })
	}
	return dict(kvs), tag
}

func compactPeers(r *rand.Rand, n int, l int) ([]byte, []byte) {
	var d, f []byte
	for i := 0; i < n; i++ {
		d = append(d, rbytes(r, l+2)...)
		f = append(f, byte(r.Intn(256)))
	}
	return d, f
}

func (g *gen) pexpayload() ([]byte, string) {
	r := g.r
	var kvs []kv
	tag := "valid"
	a, af := compactPeers(r, r.Intn(5), 4)
	a6, a6f := compactPeers(r, r.Intn(3), 16)
	d, _ := compactPeers(r, r.Intn(3), 4)
	d6, _ := compactPeers(r, r.Intn(3), 16)
	if r.Intn(5) == 0 {
		tag = "badlen"
		a = append(a, rbytes(r, 1+r.Intn(5))...)
	}
	if r.Intn(5) == 0 {
		// a flags string that is shorter or longer than the list of peers (also for the IPv6 list)
		tag = "flagmismatch"
		np := len(a) / 6
		k := []int{0, 1, np - 1, np + 1, 1, r.Intn(6)}[r.Intn(6)]
		if k < 0 {
			k = 0
		}
		af = rbytes(r, k)
		if r.Intn(2) == 0 {
			a6, _ = compactPeers(r, 2+r.Intn(2), 16)
			a6f = rbytes(r, 1)
		}
	}
	if r.Intn(8) == 0 {
		tag = "badlen6"
		d6 = append(d6, 1)
	}
	if r.Intn(4) != 0 {
		kvs = append(kvs, kv{"added", bstr(a)})
	}
	if r.Intn(4) != 0 {
		kvs = append(kvs, kv{"added.f", bstr(af)})
	}
	if r.Intn(3) != 0 {
		kvs = append(kvs, kv{"added6", bstr(a6)})
	}
	if r.Intn(3) != 0 {
		kvs = append(kvs, kv{"added6.f", bstr(a6f)})
	}
	if r.Intn(3) != 0 {
		kvs = append(kvs, kv{"dropped", bstr(d)})
	}
	if r.Intn(3) != 0 {
		kvs = append(kvs, kv{"dropped6", bstr(d6)})
	}
	if r.Intn(6) == 0 {
		tag = "typeconfusion"
		kvs = append(kvs, kv{[]string{"added", "dropped", "added.f", "zz"}[r.Intn(4)], g.rvalue(0)})
	}
	return dict(kvs), tag
}

func (g *gen) metapayload() ([]byte, string) {
	r := g.r
	var kvs []kv
	tag := "valid"
	if r.Intn(8) != 0 {
		kvs = append(kvs, kv{"msg_type", bint(fmt.Sprint(r.Intn(4)))})
	} else {
		tag = "missing"
	}
	if r.Intn(8) != 0 {
		kvs = append(kvs, kv{"piece", g.rint()})
	} else {
		tag = "missing"
	}
	if r.Intn(2) == 0 {
		kvs = append(kvs, kv{"total_size", g.rint()})
	}
	if r.Intn(5) == 0 {
		kvs = append(kvs, kv{"junk", g.rvalue(0)})
	}
	out := dict(kvs)
	switch r.Intn(5) {
	case 0:
	case 1:
		out = append(out, rbytes(r, 1+r.Intn(40))...)
	case 2:
		n := []int{16384, 16383, 1000, 20000}[r.Intn(4)]
		d := make([]byte, n)
		fill := byte(r.Intn(256))
		for i := range d {
			d[i] = fill
		}
		d[0] = byte(r.Intn(256))
		out = append(out, d...)
	default:
		out = append(out, rbytes(r, r.Intn(300))...)
	}
	return out, tag
}

func (g *gen) hostileBencode() ([]byte, string) {
	r := g.r
	switch r.Intn(9) {
	case 0: // declared string far longer than what follows (library allocates first)
		n := []int{100000, 1 << 20, 1 << 24, 70000}[r.Intn(4)]
		return []byte(fmt.Sprintf("d1:v%d:abce", n)), "declared-long"
	case 1: // deep nesting
		d := 50 + r.Intn(400)
		if r.Intn(3) == 0 {
			// deep enough for the recursive decoder's cost per level to dwarf the frame
			// (a megabyte of these overflows the stack; that cannot be run in-process)
			d = []int{3000, 10000, 20000}[r.Intn(3)]
		}
		return []byte("d1:x" + strings.Repeat("l", d) + strings.Repeat("e", d) + "e"), "deep"
	case 2: // unterminated
		return []byte("d1:vi5"), "unterminated"
	case 3:
		return []byte("d1:v2147483648:e"), "len-overflow"
	case 4:
		return []byte("d-0:i1e+1:ai2ee"), "signed-keylen"
	case 5:
		return []byte("d1:v-1:e"), "negative-len"
	case 6:
		return append([]byte("d"), append(g.rvalue(0), 'e')...), "nonstring-key"
	case 7:
		return g.rvalue(0), "toplevel-any"
	default:
		p, _ := g.ext0payload()
		if len(p) > 2 {
			i := r.Intn(len(p))
			p[i] = byte(r.Intn(256))
		}
		return p, "mutated"
	}
}

func (g *gen) extended(n int) {
	r := g.r
	for i := 0; i < n; i++ {
		var payload []byte
		var sub byte
		var tag, what string
		switch k := r.Intn(10); {
		case k < 3:
			payload, tag = g.ext0payload()
			sub, what = 0, "ext0"
		case k < 5:
			payload, tag = g.pexpayload()
			sub, what = 1, "pex"
		case k < 7:
			payload, tag = g.metapayload()
			sub, what = 2, "meta"
		case k < 9:
			payload, tag = g.hostileBencode()
			sub = byte(r.Intn(3))
			what = fmt.Sprintf("hostile%d", sub)
		default:
			sub = byte(3 + r.Intn(3))
			payload = rbytes(r, []int{0, 1, 3, 4, 5}[r.Intn(5)])
			if sub == 4 && len(payload) == 1 {
				payload[0] = byte(r.Intn(3))
			}
			what, tag = fmt.Sprintf("ext%d", sub), fmt.Sprint(len(payload))
		}
		body := append([]byte{20, sub}, payload...)
		L := uint32(len(body))
		shape := "exact"
		switch r.Intn(8) {
		case 0: // announce more than is there (truncated stream)
			L += uint32(1 + r.Intn(20))
			shape = "short"
		case 1: // announce less: the frame ends inside the value
			if L > 3 {
				L -= uint32(1 + r.Intn(int(L)-2))
				shape = "cutframe"
			}
		case 2, 3: // trailing bytes of the next frame
			body = append(body, rbytes(r, 1+r.Intn(10))...)
			shape = "tail"
		case 4: // padding inside the frame after the value
			pad := rbytes(r, 1+r.Intn(10))
			body = append(body, pad...)
			L += uint32(len(pad))
			shape = "padded"
		}
		g.add(fmt.Sprintf("ext/%s/%s/%s", what, tag, shape), frame(L, body))
	}
}

func (g *gen) random(n int) {
	r := g.r
	for i := 0; i < n; i++ {
		b := rbytes(r, r.Intn(40))
		if len(b) >= 4 && r.Intn(2) == 0 {
			b[0], b[1], b[2] = 0, 0, 0
		}
		g.add("random", b)
	}
}

// corpus: inputs that once exposed a defect; always run first
var corpus = []struct{ name, hexs string }{
	{"haveall-len2", "000000020e00"},
	{"havenone-len3", "000000030f0000"},
	{"ext-len1", "0000000114"},
	{"ext-len1-next", "00000001140000000101"},
	{"ext0-truncated", "00000040140064313a76333a616263650000"},
	{"pex-truncated", "000000401401646500"},
}

func main() {
	if len(os.Args) < 2 {
		fmt.Fprintln(os.Stderr, "usage: wire gen|replay ...")
		os.Exit(2)
	}
	fs := flag.NewFlagSet("wire", flag.ExitOnError)
	prop := fs.String("prop", "C04", "property")
	out := fs.String("out", "", "output directory")
	n := fs.Int("n", 600, "number of generated (non-enumerated) cases")
	casef := fs.String("case", "", "case file (replay)")
	fs.Parse(os.Args[2:])
	os.MkdirAll(*out, 0o755)
	switch os.Args[1] {
	case "gen":
		if *prop == "C06" {
			genC06(*out, *n)
			return
		}
		g := &gen{r: cq.Rand(), hist: map[string]int{}}
		for _, c := range corpus {
			b, _ := hex.DecodeString(c.hexs)
			g.add("corpus/"+c.name, b)
		}
		g.enumerated()
		g.big()
		g.extended(*n)
		g.random(*n / 4)
		nshard := finish(g.cases, *out)
		lims := genLim(g.r, *n/4, g.cases)
		writeLimShards(*out, nshard, lims)
		jf, _ := os.OpenFile(filepath.Join(*out, "cases.jsonl"), os.O_APPEND|os.O_WRONLY, 0o644)
		for _, c := range lims {
			b, _ := json.Marshal(c)
			jf.Write(append(b, '\n'))
		}
		jf.Close()
	case "replay":
		data, err := os.ReadFile(*casef)
		if err != nil {
			fmt.Fprintln(os.Stderr, err)
			os.Exit(2)
		}
		if *prop == "C06" {
			replayC06(data, *out)
			return
		}
		var lw struct {
			Case lcase `json:"case"`
		}
		if json.Unmarshal(data, &lw) == nil && strings.HasPrefix(lw.Case.Kind, "lim/") {
			lc := lw.Case
			lc.Passes = limPasses(decodeInput(lc.Input))
			writeLimShards(*out, 0, []*lcase{&lc})
			jf, _ := os.Create(filepath.Join(*out, "cases.jsonl"))
			b, _ := json.Marshal(&lc)
			jf.Write(append(b, '\n'))
			jf.Close()
			return
		}
		var c wcase
		var wrap struct {
			Case wcase `json:"case"`
		}
		if json.Unmarshal(data, &wrap) == nil && wrap.Case.Input != "" {
			c = wrap.Case
		} else if err := json.Unmarshal(data, &c); err != nil {
			fmt.Fprintln(os.Stderr, err)
			os.Exit(2)
		}
		c.ID = 0
		finish([]*wcase{&c}, *out)
	}
}

const shardSize = 300

func finish(cases []*wcase, out string) int {
	classes := map[string]int{}
	kinds := map[string]int{}
	sizes := map[string]int{}
	distinct := map[string]bool{}
	jf, _ := os.Create(filepath.Join(out, "cases.jsonl"))
	defer jf.Close()
	var shard []string
	nshard := 0
	flush := func() {
		if len(shard) == 0 {
			return
		}
		writeShard(filepath.Join(out, fmt.Sprintf("shard%03d.v", nshard)), shard)
		nshard++
		shard = nil
	}
	var samples []*wcase
	for _, c := range cases {
		input := decodeInput(c.Input)
		c.Obs, c.Class = runRead(input, c.Cut, c.CutSd)
		classes[c.Class]++
		ks := strings.SplitN(c.Kind, "/", 3)
		kinds[ks[0]+"/"+func() string {
			if len(ks) > 1 {
				return ks[1]
			}
			return ""
		}()]++
		switch l := len(input); {
		case l < 4:
			sizes["<4"]++
		case l <= 21:
			sizes["4-21"]++
		case l <= 300:
			sizes["22-300"]++
		case l <= 70000:
			sizes["301-70000"]++
		default:
			sizes[">70000"]++
		}
		// distinct non-trivial: (type, sub, length class, outcome class, cut) new and not empty/keepalive
		if len(input) >= 5 && c.Class != "KeepAlive" {
			L := binary.BigEndian.Uint32(input)
			lc := fmt.Sprint(L)
			if L > 20 {
				lc = fmt.Sprintf("2^%d", bitlen(L))
			}
			sub := -1
			if input[4] == 20 && len(input) > 5 {
				sub = int(input[5])
			}
			distinct[fmt.Sprintf("%d/%d/%s/%s/%s", input[4], sub, lc, c.Class, c.Cut)] = true
		}
		b, _ := json.Marshal(c)
		jf.Write(append(b, '\n'))
		shard = append(shard, fmt.Sprintf("{| w_id := %d; w_input := %s; w_obs := %s |}", c.ID, cq.Bytes(input), c.Obs))
		if len(shard) >= shardSize {
			flush()
		}
		if len(samples) < 6 && (c.ID%97 == 5 || len(cases) < 6) {
			samples = append(samples, c)
		}
	}
	flush()
	meta := map[string]interface{}{
		"evaluations":         len(cases),
		"distinct_nontrivial": len(distinct),
		"rule":                "one evaluation = one byte string decoded by protocol.Read under one cut pattern; distinct non-trivial = new (type id, extended sub-id, announced-length class, outcome class, cut pattern) tuple, excluding streams shorter than 5 bytes and keep-alives",
		"outcome_classes":     classes,
		"generator_kinds":     kinds,
		"input_sizes":         sizes,
		"samples":             samples,
		"shards":              nshard,
	}
	b, _ := json.MarshalIndent(meta, "", " ")
	os.WriteFile(filepath.Join(out, "meta.json"), b, 0o644)
	return nshard
}

func bitlen(v uint32) int {
	n := 0
	for v > 0 {
		n++
		v >>= 1
	}
	return n
}

func writeShard(path string, items []string) {
	var sb strings.Builder
	sb.WriteString("From Storrent Require Import Base.Bytes Base.Bencode Model.Wire Check.WireCheck.\nOpen Scope N_scope.\n")
	sb.WriteString("Definition cases : list wcase := [\n")
	sb.WriteString(strings.Join(items, ";\n"))
	sb.WriteString("\n].\n")
	sb.WriteString("Definition BC := Eval vm_compute in bad_corr cases.\nDefinition BM := Eval vm_compute in bad_monitor cases.\nDefinition KF := Eval vm_compute in known_monitor cases.\nPrint BC. Print BM. Print KF.\n")
	if len(items) == 1 {
		sb.WriteString("Definition MODEL := Eval vm_compute in map (fun c => decode (w_input c)) cases.\nPrint MODEL.\n")
	}
	os.WriteFile(path, []byte(sb.String()), 0o644)
}
