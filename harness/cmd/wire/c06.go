package main

func genC06(out string, n int)          { panic("C06 not built yet") }
func replayC06(data []byte, out string) { panic("C06 not built yet") }
