package main

import (
	"bufio"
	"bytes"
	"encoding/json"
	"fmt"
	"io"
	"math/rand"
	"net/netip"
	"os"
	"path/filepath"
	"strings"

	"github.com/jech/storrent/pex"
	"github.com/jech/storrent/protocol"

	"verifharness/internal/cq"
	"verifharness/internal/wm"
)

// mspec is a JSON-serialisable description of one message (for replay).
type mspec struct {
	T       string           `json:"t"`
	Sub     uint8            `json:"sub,omitempty"`
	A       uint32           `json:"a,omitempty"`
	B       uint32           `json:"b,omitempty"`
	C       uint32           `json:"c,omitempty"`
	Data    string           `json:"data,omitempty"` // encodeInput form
	Ver     string           `json:"ver,omitempty"`
	IP4     string           `json:"ip4,omitempty"`
	IP6     string           `json:"ip6,omitempty"`
	Msgs    map[string]uint8 `json:"msgs,omitempty"`
	UO      bool             `json:"uo,omitempty"`
	Enc     bool             `json:"enc,omitempty"`
	Added   []pspec          `json:"added,omitempty"`
	Dropped []pspec          `json:"dropped,omitempty"`
}
type pspec struct {
	Addr  string `json:"addr"`
	Flags byte   `json:"flags"`
}

type scase struct {
	ID    int     `json:"id"`
	Msgs  []mspec `json:"msgs"`
	Cut   string  `json:"cut"`
	CutSd int64   `json:"cutseed"`
	Obs   string  `json:"obs,omitempty"`
}

func (s mspec) build() protocol.Message {
	data := func() []byte { return append([]byte(nil), decodeInput(s.Data)...) }
	switch s.T {
	case "KeepAlive":
		return protocol.KeepAlive{}
	case "Choke":
		return protocol.Choke{}
	case "Unchoke":
		return protocol.Unchoke{}
	case "Interested":
		return protocol.Interested{}
	case "NotInterested":
		return protocol.NotInterested{}
	case "HaveAll":
		return protocol.HaveAll{}
	case "HaveNone":
		return protocol.HaveNone{}
	case "Have":
		return protocol.Have{Index: s.A}
	case "SuggestPiece":
		return protocol.SuggestPiece{Index: s.A}
	case "AllowedFast":
		return protocol.AllowedFast{Index: s.A}
	case "Request":
		return protocol.Request{Index: s.A, Begin: s.B, Length: s.C}
	case "Cancel":
		return protocol.Cancel{Index: s.A, Begin: s.B, Length: s.C}
	case "RejectRequest":
		return protocol.RejectRequest{Index: s.A, Begin: s.B, Length: s.C}
	case "Port":
		return protocol.Port{Port: uint16(s.A)}
	case "Bitfield":
		return protocol.Bitfield{Bitfield: data()}
	case "Piece":
		return protocol.Piece{Index: s.A, Begin: s.B, Data: data()}
	case "ExtendedDontHave":
		return protocol.ExtendedDontHave{Subtype: s.Sub, Index: s.A}
	case "ExtendedMetadata":
		return protocol.ExtendedMetadata{Subtype: s.Sub, Type: uint8(s.A), Piece: s.B, TotalSize: s.C, Data: data()}
	case "Extended0":
		m := protocol.Extended0{Version: s.Ver, Port: uint16(s.A), ReqQ: s.B, MetadataSize: s.C,
			Messages: s.Msgs, UploadOnly: s.UO, Encrypt: s.Enc}
		if s.IP4 != "" {
			m.IPv4 = netip.MustParseAddr(s.IP4)
		}
		if s.IP6 != "" {
			m.IPv6 = netip.MustParseAddr(s.IP6)
		}
		return m
	case "ExtendedPex":
		conv := func(ps []pspec) []pex.Peer {
			var out []pex.Peer
			for _, p := range ps {
				out = append(out, pex.Peer{Addr: netip.MustParseAddrPort(p.Addr), Flags: p.Flags})
			}
			return out
		}
		return protocol.ExtendedPex{Subtype: s.Sub, Added: conv(s.Added), Dropped: conv(s.Dropped)}
	}
	panic("unknown mspec " + s.T)
}

var b32 = []uint32{0, 1, 2, 255, 256, 65535, 65536, 16384, 16383, 1 << 24, 1<<31 - 1, 1 << 31, 1<<32 - 1, 0x01020304, 0xfffefdfc}

func r32(r *rand.Rand) uint32 {
	if r.Intn(2) == 0 {
		return b32[r.Intn(len(b32))]
	}
	return r.Uint32()
}

func rdata(r *rand.Rand, n int) string {
	if n > 300 {
		d := make([]byte, n)
		fill := byte(r.Intn(256))
		for i := range d {
			d[i] = fill
		}
		d[0], d[n-1] = byte(r.Intn(256)), byte(r.Intn(256))
		return encodeInput(d)
	}
	return encodeInput(rbytes(r, n))
}

func raddr(r *rand.Rand) string {
	if r.Intn(2) == 0 {
		return netip.AddrFrom4([4]byte(rbytes(r, 4))).String()
	}
	return ""
}

func rpeers(r *rand.Rand) []pspec {
	var out []pspec
	for i := r.Intn(5); i > 0; i-- {
		var a netip.Addr
		if r.Intn(2) == 0 {
			a = netip.AddrFrom4([4]byte(rbytes(r, 4)))
		} else {
			a = netip.AddrFrom16([16]byte(rbytes(r, 16)))
		}
		out = append(out, pspec{netip.AddrPortFrom(a, uint16(r.Intn(65536))).String(), byte(r.Intn(256))})
	}
	return out
}

var mtypes = []string{"KeepAlive", "Choke", "Unchoke", "Interested", "NotInterested", "HaveAll", "HaveNone",
	"Have", "SuggestPiece", "AllowedFast", "Request", "Cancel", "RejectRequest", "Port", "Bitfield", "Piece",
	"ExtendedDontHave", "ExtendedMetadata", "Extended0", "ExtendedPex"}

func rmspec(r *rand.Rand, t string) mspec {
	s := mspec{T: t}
	// the sub-id used when sending is the one the remote peer announced: usually
	// storrent's own numbering, sometimes anything in 1..255
	own := map[string]uint8{"ExtendedPex": protocol.ExtPex, "ExtendedMetadata": protocol.ExtMetadata, "ExtendedDontHave": protocol.ExtDontHave}
	if o, ok := own[t]; ok {
		s.Sub = o
		if r.Intn(4) == 0 {
			s.Sub = uint8(1 + r.Intn(255))
		}
	}
	switch t {
	case "Have", "SuggestPiece", "AllowedFast", "ExtendedDontHave":
		s.A = r32(r)
	case "Request", "Cancel", "RejectRequest":
		s.A, s.B, s.C = r32(r), r32(r), r32(r)
	case "Port":
		s.A = uint32([]int{0, 1, 255, 256, 6881, 65535, r.Intn(65536)}[r.Intn(7)])
	case "Bitfield":
		s.Data = rdata(r, []int{0, 1, 2, 8, 9, 100, 5000}[r.Intn(7)])
	case "Piece":
		s.A, s.B = r32(r), r32(r)
		sz := []int{0, 1, 100, 16383, 16384, 16385, 300, 17}[r.Intn(8)]
		if r.Intn(25) == 0 {
			sz = []int{32768, 65536}[r.Intn(2)]
		}
		s.Data = rdata(r, sz)
	case "ExtendedMetadata":
		s.A = uint32(r.Intn(3))
		s.B = r32(r)
		if r.Intn(2) == 0 {
			s.C = r32(r)
		}
		s.Data = rdata(r, []int{0, 0, 1, 100, 16384, 5000}[r.Intn(6)])
	case "Extended0":
		if r.Intn(3) != 0 {
			s.Ver = []string{"storrent 0.0", "x", "é\x00<>", strings.Repeat("v", 300)}[r.Intn(4)]
		}
		s.A = uint32([]int{0, 0, 1, 6881, 65535}[r.Intn(5)])
		s.B = []uint32{0, 0, 1, 250, 1<<32 - 1}[r.Intn(5)]
		s.C = []uint32{0, 0, 1, 16384, 49999, 1<<32 - 1}[r.Intn(6)]
		s.IP4 = raddr(r)
		if r.Intn(2) == 0 {
			s.IP6 = netip.AddrFrom16([16]byte(rbytes(r, 16))).String()
		}
		if r.Intn(3) != 0 {
			s.Msgs = map[string]uint8{}
			names := []string{"ut_pex", "ut_metadata", "lt_donthave", "upload_only", "zz", "", "a"}
			for i := r.Intn(6); i > 0; i-- {
				s.Msgs[names[r.Intn(len(names))]] = uint8(r.Intn(256))
			}
		}
		s.UO = r.Intn(2) == 0
		s.Enc = r.Intn(2) == 0
	case "ExtendedPex":
		s.Added = rpeers(r)
		s.Dropped = rpeers(r)
	}
	return s
}

func runC06(c *scase) (coq string, distinctKey string, nontrivial bool) {
	var buf bytes.Buffer
	w := bufio.NewWriter(&buf)
	var rendered []string
	var key []string
	nt := false
	for _, s := range c.Msgs {
		m := s.build()
		rs, cl := wm.Render(s.build())
		rendered = append(rendered, rs)
		key = append(key, cl)
		if s.Data != "" || s.A != 0 || s.Ver != "" || len(s.Added) > 0 || len(s.Dropped) > 0 || len(s.Msgs) > 0 {
			nt = true
		}
		if err := protocol.Write(w, m, nil); err != nil {
			panic(err)
		}
	}
	w.Flush()
	written := append([]byte(nil), buf.Bytes()...)
	cr := &cutReader{data: written, mode: c.Cut, rnd: rand.New(rand.NewSource(c.CutSd))}
	br := bufio.NewReader(cr)
	var read []string
	clean := true
	for {
		m, err := protocol.Read(br, nil)
		if err == io.EOF {
			break
		}
		if err != nil || m == nil {
			clean = false
			break
		}
		rs, _ := wm.Render(m)
		read = append(read, rs)
	}
	c.Obs = fmt.Sprintf("written=%d bytes read=%d msgs clean=%v", len(written), len(read), clean)
	coq = fmt.Sprintf("{| s_id := %d; s_msgs := %s; s_written := %s; s_read := %s; s_clean := %s |}",
		c.ID, cq.List(rendered), cq.Bytes(written), cq.List(read), cq.Bool(clean))
	return coq, strings.Join(key, ",") + "/" + c.Cut, nt
}

func finishC06(cases []*scase, out string) {
	kinds := map[string]int{}
	lens := map[string]int{}
	distinct := map[string]bool{}
	jf, _ := os.Create(filepath.Join(out, "cases.jsonl"))
	defer jf.Close()
	var shard []string
	nshard := 0
	flush := func() {
		if len(shard) == 0 {
			return
		}
		var sb strings.Builder
		sb.WriteString("From Storrent Require Import Base.Bytes Base.Bencode Model.Wire Model.WireSpec Check.WireCheck Check.WireSpecCheck.\nOpen Scope N_scope.\n")
		sb.WriteString("Definition cases : list scase := [\n" + strings.Join(shard, ";\n") + "\n].\n")
		sb.WriteString("Definition BC := Eval vm_compute in bad_corr6 cases.\nDefinition BM := Eval vm_compute in bad_monitor6 cases.\nPrint BC. Print BM.\n")
		if len(shard) == 1 {
			sb.WriteString("Definition SPEC := Eval vm_compute in map (fun c => concat (map encode_spec (s_msgs c))) cases.\nPrint SPEC.\n")
		}
		os.WriteFile(filepath.Join(out, fmt.Sprintf("shard%03d.v", nshard)), []byte(sb.String()), 0o644)
		nshard++
		shard = nil
	}
	var samples []*scase
	size := 0
	for _, c := range cases {
		coq, key, nt := runC06(c)
		for _, m := range c.Msgs {
			kinds[m.T]++
		}
		switch n := len(c.Msgs); {
		case n == 1:
			lens["1"]++
		case n <= 5:
			lens["2-5"]++
		default:
			lens["6-50"]++
		}
		if nt {
			distinct[key] = true
		}
		b, _ := json.Marshal(c)
		jf.Write(append(b, '\n'))
		shard = append(shard, coq)
		size += len(coq)
		if len(shard) >= 40 || size > 1<<18 {
			flush()
			size = 0
		}
		if len(samples) < 5 && (c.ID%53 == 7 || len(cases) < 5) {
			samples = append(samples, c)
		}
	}
	flush()
	meta := map[string]interface{}{
		"evaluations":         len(cases),
		"distinct_nontrivial": len(distinct),
		"rule":                "one evaluation = one stream of 1..50 messages written by protocol.Write, compared byte for byte with the independent encoder and read back by protocol.Read under one cut pattern; distinct non-trivial = new (sequence of message types, cut pattern) with at least one non-empty payload or non-zero field",
		"message_types":       kinds,
		"stream_lengths":      lens,
		"samples":             samples,
		"shards":              nshard,
	}
	b, _ := json.MarshalIndent(meta, "", " ")
	os.WriteFile(filepath.Join(out, "meta.json"), b, 0o644)
}

func genC06(out string, n int) {
	r := cq.Rand()
	var cases []*scase
	add := func(ms []mspec, cut string) {
		cases = append(cases, &scase{ID: len(cases), Msgs: ms, Cut: cut, CutSd: r.Int63()})
	}
	cuts := []string{"all", "one", "seven", "rand"}
	// every type alone, several values, every cut mode for small ones
	for _, t := range mtypes {
		for k := 0; k < 6; k++ {
			add([]mspec{rmspec(r, t)}, cuts[k%4])
		}
	}
	big := rmspec(r, "Piece")
	big.Data = rdata(r, 1<<20-9) // the largest frame the decoder accepts
	add([]mspec{big}, "rand")
	// streams
	for i := 0; i < n; i++ {
		k := 2 + r.Intn(8)
		if r.Intn(10) == 0 {
			k = 20 + r.Intn(30)
		}
		var ms []mspec
		for j := 0; j < k; j++ {
			t := mtypes[r.Intn(len(mtypes))]
			s := rmspec(r, t)
			if k > 10 && len(s.Data) > 2000 {
				s.Data = rdata(r, 50)
			}
			ms = append(ms, s)
		}
		add(ms, cuts[r.Intn(4)])
	}
	finishC06(cases, out)
}

func replayC06(data []byte, out string) {
	var c scase
	var wrap struct {
		Case scase `json:"case"`
	}
	if json.Unmarshal(data, &wrap) == nil && len(wrap.Case.Msgs) > 0 {
		c = wrap.Case
	} else if err := json.Unmarshal(data, &c); err != nil {
		fmt.Fprintln(os.Stderr, err)
		os.Exit(2)
	}
	c.ID = 0
	finishC06([]*scase{&c}, out)
}
