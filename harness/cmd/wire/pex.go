package main

import "github.com/jech/storrent/pex"

type pexPeer struct {
	ip    []byte
	port  int
	flags int
}

func pexPeers(ps []pex.Peer) []pexPeer {
	var out []pexPeer
	for _, p := range ps {
		out = append(out, pexPeer{p.Addr.Addr().AsSlice(), int(p.Addr.Port()), int(p.Flags)})
	}
	return out
}
