package main

// The depth limiter in front of the bencode decoder (protocol.LimitBencodeDepth), observed on its
// own: does it let the whole input through?  Compared with Model/DepthLimiter.v (lim_passes).

import (
	"bytes"
	"fmt"
	"io"
	"math/rand"
	"os"
	"path/filepath"
	"strings"

	"github.com/jech/storrent/protocol"

	"verifharness/internal/cq"
)

type lcase struct {
	ID     int    `json:"id"`
	Kind   string `json:"kind"`
	Input  string `json:"input"` // run-length hex, as for frames
	Passes bool   `json:"passes"`
}

func limPasses(b []byte) bool {
	_, err := io.Copy(io.Discard, protocol.LimitBencodeDepth(bytes.NewReader(b)))
	return err == nil
}

func genLim(r *rand.Rand, n int, frames []*wcase) []*lcase {
	var out []*lcase
	add := func(kind string, b []byte) {
		out = append(out, &lcase{ID: 500000 + len(out), Kind: "lim/" + kind, Input: encodeInput(b)})
	}
	deep := func(d int) string { return strings.Repeat("l", d) }
	// what precedes the nesting decides whether the limiter still follows the structure
	prefixes := []string{"", "d1:a", "d+1:a", "d-0:", "d+0:", "d0001:a", "d1:ai5e1:b", "d1:a3:lll1:b", "li5e", "d1:ad1:b", "l0:",
		"d2147483647:", "d2147483648:", "d99999999999999999999:", "d-1:a", "d1x:a", "d:a", "d+:a", "d1:a+1:b", "di5e", "dl1:ae1:b",
		"5:hello", "i5e", "e", "de", "le", "d1:ai-e", "d1:aie", "d3:a:b", "d1:a1:b1:c"}
	for _, p := range prefixes {
		for _, d := range []int{0, 1, 60, 61, 62, 63, 64, 65, 66, 200} {
			add("prefix", []byte(p+deep(d)))
			if d > 0 && d < 70 {
				add("balanced", []byte(p+deep(d)+strings.Repeat("e", d)+"e"+deep(100)))
			}
		}
	}
	for i := 0; i < n; i++ {
		// random token soup around the bound
		var sb strings.Builder
		toks := []string{"l", "l", "l", "d", "e", "i5e", "i-e", "1:a", "0:", "+1:b", "-0:", "3:lll", "2:dd", "x", ":", "12:", "d1:a"}
		for k := r.Intn(120); k > 0; k-- {
			sb.WriteString(toks[r.Intn(len(toks))])
		}
		add("soup", []byte(sb.String()))
	}
	// the payloads of the bencoded extension frames of this run
	for _, c := range frames {
		b := decodeInput(c.Input)
		if len(b) > 6 && b[4] == 20 && b[5] <= 2 && len(b) < 70000 {
			add("frame", b[6:])
		}
	}
	for _, c := range out {
		c.Passes = limPasses(decodeInput(c.Input))
	}
	return out
}

func writeLimShards(out string, first int, cases []*lcase) int {
	n := first
	for i := 0; i < len(cases); i += 400 {
		j := i + 400
		if j > len(cases) {
			j = len(cases)
		}
		var items []string
		for _, c := range cases[i:j] {
			items = append(items, fmt.Sprintf("(%d, %s, %s)", c.ID, cq.Bytes(decodeInput(c.Input)), cq.Bool(c.Passes)))
		}
		var sb strings.Builder
		sb.WriteString("From Storrent Require Import Base.Bytes Base.Bencode Model.DepthLimiter Check.WireCheck.\nOpen Scope N_scope.\n")
		sb.WriteString("Definition cases : list (N * bytes * bool) := [\n" + strings.Join(items, ";\n") + "\n].\n")
		sb.WriteString("Definition BC := Eval vm_compute in bad_lim cases.\nPrint BC.\n")
		os.WriteFile(filepath.Join(out, fmt.Sprintf("shard%03d.v", n)), []byte(sb.String()), 0o644)
		n++
	}
	return n
}
