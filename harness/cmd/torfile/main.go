// torfile: correspondence harness for C13 (tor.ReadTorrent, MetadataComplete, WriteTorrent, ReadMagnet).
package main

import (
	"bytes"
	"crypto/sha1"
	"encoding/hex"
	"encoding/json"
	"flag"
	"fmt"
	"math/rand"
	"os"
	"path/filepath"
	"reflect"
	"sort"
	"strings"

	"github.com/jech/storrent/tor"

	"verifharness/internal/cq"
)

type tcase struct {
	ID    int    `json:"id"`
	Kind  string `json:"kind"`
	Input string `json:"input"` // cq.EncodeRuns form
	Obs   string `json:"obs,omitempty"`
	Class string `json:"class,omitempty"`
}

func bstr(s []byte) []byte { return append([]byte(fmt.Sprintf("%d:", len(s))), s...) }
func bint(s string) []byte { return []byte("i" + s + "e") }
func blist(items ...[]byte) []byte {
	out := []byte("l")
	for _, i := range items {
		out = append(out, i...)
	}
	return append(out, 'e')
}

type kv struct {
	k string
	v []byte
}

func dict(kvs []kv, sorted bool, r *rand.Rand) []byte {
	if sorted {
		sort.SliceStable(kvs, func(i, j int) bool { return kvs[i].k < kvs[j].k })
	} else {
		r.Shuffle(len(kvs), func(i, j int) { kvs[i], kvs[j] = kvs[j], kvs[i] })
	}
	out := []byte("d")
	for _, e := range kvs {
		out = append(out, bstr([]byte(e.k))...)
		out = append(out, e.v...)
	}
	return append(out, 'e')
}

func rbytes(r *rand.Rand, n int) []byte {
	b := make([]byte, n)
	r.Read(b)
	return b
}

var urlPool = []string{"http://tr.example/announce", "https://t2.example:8080/a?x=1", "udp://tr3.example:6969", "foo://bar",
	"", "http://a\x7fb/", ":nocolon", "http://ws.example/files/", "https://ws2.example/f", "ftp://ws3.example/", "http://bad\x01/", "relative/path"}

func rurl(r *rand.Rand) []byte { return []byte(urlPool[r.Intn(len(urlPool))]) }

func rname(r *rand.Rand) []byte {
	return [][]byte{[]byte("name"), []byte("a b"), []byte("x/y"), []byte("<b>&\"'"), []byte("é"), {}, []byte(".."), []byte("n\r\nm")}[r.Intn(8)]
}

var plenPool = []string{"16384", "16384", "32768", "49152", "262144", "1048576", "0", "1", "16383", "16385", "4294967296", "4294983680",
	"2147483648", "-16384", "18446744073709551616", "1073741824", "4294950912"}
var lenPool = []string{"0", "1", "16383", "16384", "16385", "32768", "49152", "100000", "1048576", "1099511627776", "70368744177664",
	"70368744177665", "4611686018427387904", "9223372036854775807", "-1", "-16384", "9223372036854775808"}

func parseI(s string) (int64, bool) {
	var v int64
	_, err := fmt.Sscan(s, &v)
	return v, err == nil
}

type gen struct {
	r     *rand.Rand
	cases []*tcase
}

func (g *gen) add(kind string, input []byte) {
	g.cases = append(g.cases, &tcase{ID: len(g.cases), Kind: kind, Input: cq.EncodeRuns(input)})
}

// info builds an info dictionary; consistent says whether to make the hash table match.
func (g *gen) info(hostile bool) ([]byte, string) {
	r := g.r
	tag := "ok"
	plenS := "16384"
	if r.Intn(2) == 0 {
		plenS = plenPool[r.Intn(6)]
	}
	if hostile && r.Intn(2) == 0 {
		plenS = plenPool[r.Intn(len(plenPool))]
		tag = "plen"
	}
	var kvs []kv
	var total int64
	multi := r.Intn(2) == 0
	if multi {
		var files [][]byte
		n := 1 + r.Intn(4)
		for i := 0; i < n; i++ {
			ls := lenPool[r.Intn(9)]
			if hostile && r.Intn(3) == 0 {
				ls = lenPool[r.Intn(len(lenPool))]
				tag = "flen"
			}
			if v, ok := parseI(ls); ok {
				total += v
			}
			var comps [][]byte
			for j := 1 + r.Intn(3); j > 0; j-- {
				comps = append(comps, rname(r))
			}
			f := []kv{{"length", bint(ls)}, {"path", blist(func() [][]byte {
				var o [][]byte
				for _, c := range comps {
					o = append(o, bstr(c))
				}
				return o
			}()...)}}
			if r.Intn(4) == 0 {
				f = append(f, kv{"attr", bstr([]byte([]string{"p", "x", "hp", ""}[r.Intn(4)]))})
			}
			if r.Intn(6) == 0 {
				f = append(f, kv{"path.utf-8", blist(bstr([]byte("u8")), bstr(rname(r)))})
			}
			if hostile && r.Intn(8) == 0 {
				f[1].v = []byte("le")
				tag = "nopath"
			}
			if hostile && r.Intn(10) == 0 {
				f = append(f, kv{"zz", []byte("i99999999999999999999e")})
				tag = "badint"
			}
			files = append(files, dict(f, r.Intn(2) == 0, r))
		}
		kvs = append(kvs, kv{"files", blist(files...)})
		if hostile && r.Intn(6) == 0 {
			kvs = append(kvs, kv{"length", bint(lenPool[r.Intn(len(lenPool))])})
			tag = "both"
		}
	} else {
		ls := lenPool[1+r.Intn(8)]
		if hostile && r.Intn(2) == 0 {
			ls = lenPool[r.Intn(len(lenPool))]
			tag = "len"
		}
		if v, ok := parseI(ls); ok {
			total = v
		}
		kvs = append(kvs, kv{"length", bint(ls)})
	}
	// hash table
	var np int64
	if pl, ok := parseI(plenS); ok && pl > 0 && total >= 0 {
		pl &= 0xffffffff
		if pl > 0 {
			np = (total + pl - 1) / pl
		}
	}
	if np < 0 || np > 200000 {
		np = 3
		tag = "hugepieces"
	}
	if hostile {
		switch r.Intn(6) {
		case 0:
			np++
			tag = "hash+1"
		case 1:
			if np > 0 {
				np--
				tag = "hash-1"
			}
		}
	}
	pieces := make([]byte, 20*np)
	fill := byte(r.Intn(256))
	for i := range pieces {
		pieces[i] = fill
	}
	if len(pieces) > 0 {
		pieces[0] = byte(r.Intn(256))
	}
	if hostile && r.Intn(8) == 0 {
		pieces = append(pieces, 1, 2, 3)
		tag = "oddpieces"
	}
	kvs = append(kvs, kv{"pieces", bstr(pieces)}, kv{"piece length", bint(plenS)})
	if r.Intn(8) != 0 {
		kvs = append(kvs, kv{"name", bstr(rname(r))})
	}
	if r.Intn(5) == 0 {
		kvs = append(kvs, kv{"name.utf-8", bstr(rname(r))})
	}
	if r.Intn(4) == 0 {
		kvs = append(kvs, kv{"private", bint("1")})
	}
	if r.Intn(6) == 0 {
		kvs = append(kvs, kv{"meta", dict([]kv{{"a", blist(bint("1"), bstr([]byte("x")))}}, true, r)})
	}
	if hostile && r.Intn(10) == 0 {
		// an unknown key nesting deeply: the decoder is recursive (a few megabytes of this overflow its stack)
		kvs = append(kvs, kv{"zdeep", deepValue(pickDepth(r))})
		tag = "deepinfo"
	}
	return dict(kvs, r.Intn(3) != 0, r), tag
}

func (g *gen) torrent(hostile bool) ([]byte, string) {
	r := g.r
	info, tag := g.info(hostile)
	var kvs []kv
	if !(hostile && r.Intn(10) == 0) {
		kvs = append(kvs, kv{"info", info})
	} else {
		tag = "noinfo"
	}
	if r.Intn(2) == 0 {
		kvs = append(kvs, kv{"announce", bstr(rurl(r))})
	}
	if r.Intn(2) == 0 {
		var tiers [][]byte
		for i := r.Intn(4); i > 0; i-- {
			var t [][]byte
			for j := r.Intn(4); j > 0; j-- {
				t = append(t, bstr(rurl(r)))
			}
			tiers = append(tiers, blist(t...))
		}
		kvs = append(kvs, kv{"announce-list", blist(tiers...)})
	}
	if r.Intn(2) == 0 {
		if r.Intn(2) == 0 {
			kvs = append(kvs, kv{"url-list", bstr(rurl(r))})
		} else {
			var l [][]byte
			for j := r.Intn(4); j > 0; j-- {
				l = append(l, bstr(rurl(r)))
			}
			kvs = append(kvs, kv{"url-list", blist(l...)})
		}
	}
	if r.Intn(3) == 0 {
		kvs = append(kvs, kv{"httpseeds", blist(bstr(rurl(r)), bstr(rurl(r)))})
	}
	if r.Intn(2) == 0 {
		kvs = append(kvs, kv{"creation date", bint([]string{"0", "1700000000", "-5", "9223372036854775807", "9223372036854775808", "x"}[r.Intn(6)])})
	}
	if r.Intn(3) == 0 {
		kvs = append(kvs, kv{"comment", bstr([]byte("hello"))})
	}
	if hostile && r.Intn(8) == 0 {
		kvs = append(kvs, kv{"announce", blist(bstr([]byte("x")))})
		tag = "typeconfusion"
	}
	if hostile && r.Intn(12) == 0 {
		kvs = append(kvs, kv{"info", []byte("i5e")})
		tag = "dupinfo"
	}
	if hostile && r.Intn(10) == 0 {
		kvs = append(kvs, kv{"zdeep", deepValue(pickDepth(r))})
		tag = "deeptop"
	}
	out := dict(kvs, r.Intn(3) != 0, r)
	if r.Intn(10) == 0 {
		out = append(out, rbytes(r, 1+r.Intn(5))...)
		tag += "+trail"
	}
	return out, tag
}

// deepValue is a well-formed value nesting d lists deep.
func deepValue(d int) []byte {
	return []byte(strings.Repeat("l", d) + strings.Repeat("e", d))
}

func pickDepth(r *rand.Rand) int {
	return []int{5, 60, 61, 62, 63, 64, 65, 100, 3000}[r.Intn(9)]
}

func renderStrs(l []string) string {
	var o []string
	for _, s := range l {
		o = append(o, cq.Bytes([]byte(s)))
	}
	return cq.List(o)
}

func runRead(input []byte) (obs, class string) {
	var t *tor.Torrent
	var err error
	panicked := false
	func() {
		defer func() {
			if r := recover(); r != nil {
				panicked = true
			}
		}()
		t, err = tor.ReadTorrent("", bytes.NewReader(input))
	}()
	if panicked {
		return "TObsPanic", "panic"
	}
	if err != nil {
		return "TObsErr", "err"
	}
	hsh := sha1.Sum(t.Info)
	hashOK := bytes.Equal(hsh[:], t.Hash)
	// write back and re-read
	wrOK := true
	var written []byte
	func() {
		defer func() {
			if r := recover(); r != nil {
				wrOK = false
			}
		}()
		var buf bytes.Buffer
		if err := tor.WriteTorrent(&buf, t); err != nil {
			wrOK = false
			return
		}
		written = append([]byte{}, buf.Bytes()...)
		t2, err := tor.ReadTorrent("", bytes.NewReader(buf.Bytes()))
		if err != nil {
			wrOK = false
			return
		}
		u1, g1 := t.VerifWebseeds()
		u2, g2 := t2.VerifWebseeds()
		tr1, tr2 := t.VerifTrackers(), t2.VerifTrackers()
		if !bytes.Equal(t.Hash, t2.Hash) || !sameTiers(tr1, tr2) || !reflect.DeepEqual(u1, u2) || !reflect.DeepEqual(g1, g2) {
			wrOK = false
		}
	}()
	var files []string
	for _, f := range t.Files {
		var comps []string
		for _, c := range f.Path {
			comps = append(comps, c)
		}
		files = append(files, fmt.Sprintf("{| f_path := %s; f_off := %d; f_len := %d; f_pad := %s |}", renderStrs(comps), f.Offset, f.Length, cq.Bool(f.Padding)))
	}
	var tiers []string
	for _, tier := range t.VerifTrackers() {
		tiers = append(tiers, renderStrs(tier))
	}
	urls, gr := t.VerifWebseeds()
	var ul, hs []string
	for i, u := range urls {
		if gr[i] {
			ul = append(ul, u)
		} else {
			hs = append(hs, u)
		}
	}
	geo := fmt.Sprintf("{| g_name := %s; g_plen := %d; g_total := %d; g_files := %s; g_nhashes := %d; g_chunks := %d; g_npieces := %d |}",
		cq.Bytes([]byte(t.Name)), t.Pieces.PieceSize(), t.Pieces.Length(), cq.List(files), len(t.PieceHashes), len(t.VerifInFlight()), t.Pieces.Num())
	return fmt.Sprintf("(TObsOk %s %s (%d)%%Z %s %s %s %s %s %s)", cq.Bytes(t.Info), geo, t.CreationDate, cq.List(tiers), renderStrs(ul), renderStrs(hs), cq.Bool(hashOK), cq.Bool(wrOK), cq.Bytes(written)), "ok"
}

func sameTiers(a, b [][]string) bool {
	if len(a) != len(b) {
		return false
	}
	for i := range a {
		if len(a[i]) != len(b[i]) {
			return false
		}
		for j := range a[i] {
			if a[i][j] != b[i][j] {
				return false
			}
		}
	}
	return true
}

var corpus = []struct{ name, hexs string }{
	{"plen0", hex.EncodeToString([]byte("d4:infod6:lengthi5e4:name1:a12:piece lengthi0e6:pieces20:aaaaaaaaaaaaaaaaaaaaee"))},
	{"neg-file-len", hex.EncodeToString([]byte("d4:infod5:filesld6:lengthi-5e4:pathl1:aeee4:name1:a12:piece lengthi16384e6:pieces0:ee"))},
	{"extra-hash", hex.EncodeToString([]byte("d4:infod6:lengthi5e4:name1:a12:piece lengthi16384e6:pieces40:aaaaaaaaaaaaaaaaaaaabbbbbbbbbbbbbbbbbbbbee"))},
	{"no-hash", hex.EncodeToString([]byte("d4:infod6:lengthi5e4:name1:a12:piece lengthi16384e6:pieces0:ee"))},
	{"good", hex.EncodeToString([]byte("d8:announce26:http://tr.example/announce4:infod6:lengthi5e4:name1:a12:piece lengthi16384e6:pieces20:aaaaaaaaaaaaaaaaaaaaee"))},
}

func main() {
	fs := flag.NewFlagSet("torfile", flag.ExitOnError)
	fs.String("prop", "C13", "property")
	out := fs.String("out", "", "output directory")
	n := fs.Int("n", 1500, "number of generated cases")
	casef := fs.String("case", "", "case file (replay)")
	fs.Parse(os.Args[2:])
	os.MkdirAll(*out, 0o755)
	var cases []*tcase
	var magnets []*mcase
	switch os.Args[1] {
	case "gen":
		g := &gen{r: cq.Rand()}
		for _, c := range corpus {
			b, _ := hex.DecodeString(c.hexs)
			g.add("corpus/"+c.name, b)
		}
		for i := 0; i < *n; i++ {
			hostile := i%3 == 0
			b, tag := g.torrent(hostile)
			kind := "valid/"
			if hostile {
				kind = "hostile/"
			}
			if !hostile && i%8 == 1 && len(b) > 2 && b[0] == 'd' && b[len(b)-1] == 'e' {
				// an otherwise valid file with one more key, nesting deeply, at the end of the
				// top-level dictionary ("zdeep" sorts last) or of the info dictionary
				d := pickDepth(g.r)
				extra := append([]byte("5:zdeep"), deepValue(d)...)
				if j := bytes.LastIndex(b, []byte("ee")); g.r.Intn(2) == 0 && j > 0 && tag == "" {
					b = append(append(append([]byte{}, b[:j]...), extra...), b[j:]...)
					kind += "deepinfo-"
				} else {
					b = append(append(append([]byte{}, b[:len(b)-1]...), extra...), 'e')
					kind += "deeptop-"
				}
			}
			switch g.r.Intn(12) {
			case 0:
				if len(b) > 2 {
					b[g.r.Intn(len(b))] = byte(g.r.Intn(256))
					kind += "mut-"
				}
			case 1:
				b = b[:g.r.Intn(len(b)+1)]
				kind += "trunc-"
			}
			g.add(kind+tag, b)
		}
		for i := 0; i < *n/20; i++ {
			g.add("random", rbytes(g.r, g.r.Intn(30)))
		}
		cases = g.cases
		magnets = genMagnets(g.r, *n/2)
	case "replay":
		data, err := os.ReadFile(*casef)
		if err != nil {
			fmt.Fprintln(os.Stderr, err)
			os.Exit(2)
		}
		var c tcase
		var wrap struct {
			Case tcase `json:"case"`
		}
		if json.Unmarshal(data, &wrap) == nil && wrap.Case.Input != "" {
			c = wrap.Case
		} else {
			json.Unmarshal(data, &c)
		}
		if strings.HasPrefix(c.Kind, "magnet/") {
			b, _ := hex.DecodeString(c.Input)
			magnets = []*mcase{{ID: 0, Kind: c.Kind, Input: c.Input, Obs: runMagnet(string(b))}}
		} else {
			c.ID = 0
			cases = []*tcase{&c}
		}
	}
	finish(cases, magnets, *out)
}

func finish(cases []*tcase, magnets []*mcase, out string) {
	classes := map[string]int{}
	kinds := map[string]int{}
	distinct := map[string]bool{}
	jf, _ := os.Create(filepath.Join(out, "cases.jsonl"))
	defer jf.Close()
	var shard []string
	nshard, size := 0, 0
	flush := func() {
		if len(shard) == 0 {
			return
		}
		var sb strings.Builder
		sb.WriteString("From Storrent Require Import Base.Bytes Base.Bencode Model.Wire Model.Torfile Model.TorWrite Check.WireCheck Check.TorfileCheck.\nOpen Scope N_scope.\n")
		sb.WriteString("Definition cases : list tcase := [\n" + strings.Join(shard, ";\n") + "\n].\n")
		sb.WriteString("Definition BC := Eval vm_compute in bad_corr13 cases.\nDefinition BM := Eval vm_compute in bad_monitor13 cases.\nPrint BC. Print BM.\n")
		if len(shard) == 1 {
			sb.WriteString("Definition MODEL := Eval vm_compute in map (fun c => read_torrent (t_input c)) cases.\nPrint MODEL.\n")
		}
		os.WriteFile(filepath.Join(out, fmt.Sprintf("shard%03d.v", nshard)), []byte(sb.String()), 0o644)
		nshard++
		shard, size = nil, 0
	}
	var samples []*tcase
	for _, c := range cases {
		input := cq.DecodeRuns(c.Input)
		c.Obs, c.Class = runRead(input)
		classes[c.Class]++
		kinds[c.Kind]++
		if bytes.HasPrefix(input, []byte("d")) && len(input) > 20 {
			distinct[c.Kind+"/"+c.Class] = true
		}
		b, _ := json.Marshal(c)
		jf.Write(append(b, '\n'))
		s := fmt.Sprintf("{| t_id := %d; t_input := %s; t_obs := %s |}", c.ID, cq.Bytes(input), c.Obs)
		shard = append(shard, s)
		size += len(s)
		if len(shard) >= 100 || size > 1<<18 {
			flush()
		}
		if len(samples) < 5 && (c.ID%211 == 3 || len(cases) < 5) {
			samples = append(samples, c)
		}
	}
	flush()
	for _, c := range magnets {
		b, _ := json.Marshal(c)
		jf.Write(append(b, '\n'))
		kinds[c.Kind]++
		cl := c.Obs
		if strings.HasPrefix(cl, "(MObsOk") {
			cl = "MObsOk"
		}
		classes["magnet/"+cl]++
	}
	nshard = writeMagnetShards(out, nshard, magnets)
	meta := map[string]interface{}{
		"evaluations":         len(cases) + len(magnets),
		"distinct_nontrivial": len(distinct),
		"rule":                "one evaluation = one byte string given to tor.ReadTorrent (then WriteTorrent + ReadTorrent again when accepted) or one string given to tor.ReadMagnet; distinct non-trivial = new (generator structure class incl. the hostile field, outcome class) among inputs that pass the outer dictionary test",
		"outcome_classes":     classes,
		"generator_kinds":     kinds,
		"samples":             samples,
		"shards":              nshard,
	}
	b, _ := json.MarshalIndent(meta, "", " ")
	os.WriteFile(filepath.Join(out, "meta.json"), b, 0o644)
}
