package main

// tor.ReadMagnet on generated magnet links and bare hashes: never a crash, and the info-hash is the one
// the link carries (Model/Magnet.v on the specified shapes).

import (
	"encoding/base32"
	"encoding/hex"
	"fmt"
	"math/rand"
	"os"
	"path/filepath"
	"strings"

	"github.com/jech/storrent/tor"

	"verifharness/internal/cq"
)

type mcase struct {
	ID    int    `json:"id"`
	Kind  string `json:"kind"`
	Input string `json:"input"` // hex
	Obs   string `json:"obs"`
}

func runMagnet(s string) (obs string) {
	defer func() {
		if r := recover(); r != nil {
			obs = "MObsPanic"
		}
	}()
	t, err := tor.ReadMagnet("", s)
	switch {
	case err != nil:
		return "MObsErr"
	case t == nil:
		return "MObsNil"
	}
	var tiers []string
	for _, tier := range t.VerifTrackers() {
		tiers = append(tiers, renderStrs(tier))
	}
	urls, gr := t.VerifWebseeds()
	allgr := true
	for _, g := range gr {
		allgr = allgr && g
	}
	return "(MObsOk " + cq.Bytes(t.Hash) + " " + cq.Bytes([]byte(t.Name)) + " " + cq.List(tiers) + " " + renderStrs(urls) + " " + cq.Bool(allgr) + ")"
}

func genMagnets(r *rand.Rand, n int) []*mcase {
	var out []*mcase
	add := func(kind, s string) {
		out = append(out, &mcase{ID: 700000 + len(out), Kind: "magnet/" + kind, Input: hex.EncodeToString([]byte(s))})
	}
	rhash := func() []byte { b := make([]byte, 20); r.Read(b); return b }
	hexs := func(h []byte) string {
		s := hex.EncodeToString(h)
		if r.Intn(3) == 0 {
			s = strings.ToUpper(s)
		}
		return s
	}
	b32 := func(h []byte) string { return base32.StdEncoding.EncodeToString(h) }
	enc := func(h []byte) string {
		if r.Intn(2) == 0 {
			return hexs(h)
		}
		return b32(h)
	}
	for i := 0; i < n; i++ {
		h := rhash()
		switch r.Intn(15) {
		case 11:
			// other URNs, of several lengths, with a different hash; short values
			urn := []string{"urn:sha1:", "urn:md5:", "urn:btmh:", "urn:", "urn:btih", "urn:bti:", "URN:BTIH:", "urn:btih::"}[r.Intn(8)]
			tail := []string{"", "&xt=urn:btih:" + enc(h), "&xt=urn:x&xt=u&xt=urn:btih:" + enc(h)}[r.Intn(3)]
			add("otherurn2", "magnet:?xt="+urn+enc(rhash())+tail)
		case 12:
			// hashes of other lengths, in both encodings
			k := []int{15, 19, 21, 24, 25, 30, 40}[r.Intn(7)]
			b := make([]byte, k)
			r.Read(b)
			e := hex.EncodeToString(b)
			if r.Intn(2) == 0 {
				e = base32.StdEncoding.EncodeToString(b)
			}
			if r.Intn(2) == 0 {
				add("longhash", e)
			} else {
				add("longhash", "magnet:?xt=urn:btih:"+e+"&xt=urn:btih:"+enc(h))
			}
		case 13:
			// strings that are both hex and base32
			k := []int{32, 40, 48}[r.Intn(3)]
			b := make([]byte, k)
			for j := range b {
				b[j] = "ABCDEF234567"[r.Intn(12)]
			}
			if r.Intn(2) == 0 {
				add("ambiguous", string(b))
			} else {
				add("ambiguous", "magnet:?xt=urn:btih:"+string(b))
			}
		case 0:
			add("bare", enc(h))
		case 1:
			e := enc(h)
			add("barebad", e[:r.Intn(len(e))])
		case 2:
			add("plain", "magnet:?xt=urn:btih:"+enc(h))
		case 3:
			// further parameters: names, trackers and web seeds of every kind, in any order, repeated, empty
			vals := []string{"http://t.example/a", "https://t2.example:8080/announce", "udp://t.example:6969", "ftp://x.example/y", "", "noscheme", "http://w.example/f", "wss://t.example/x", "http://w.example/dir/"}
			s := "magnet:?"
			if r.Intn(2) == 0 {
				s += "dn=name" + fmt.Sprint(r.Intn(3)) + "&"
			}
			s += "xt=urn:btih:" + enc(h)
			for k := r.Intn(7); k > 0; k-- {
				key := []string{"tr", "ws", "as", "dn", "x.pe", "tr"}[r.Intn(6)]
				if r.Intn(12) == 0 {
					s += "&" + key
				} else {
					s += "&" + key + "=" + vals[r.Intn(len(vals))]
				}
			}
			add("params", s)
		case 4:
			add("twoxt", "magnet:?xt=urn:btih:"+enc(h)[:r.Intn(30)]+"&xt=urn:btih:"+enc(rhash())+"&xt=urn:btih:"+enc(rhash()))
		case 5:
			add("otherurn", "magnet:?xt=urn:sha1:"+enc(h)+"&xt=urn:btih:"+enc(h))
		case 6:
			add("nohash", "magnet:?dn=x&tr=http://t.example/a")
		case 7:
			add("scheme", []string{"MAGNET", "Magnet", "magnets", "http", "m-agnet", "1magnet", ""}[r.Intn(7)]+":?xt=urn:btih:"+enc(h))
		case 8:
			add("lower32", "magnet:?xt=urn:btih:"+strings.ToLower(b32(h)))
		case 9:
			add("noquery", []string{"magnet:", "magnet:?", "magnet:xt=urn:btih:" + enc(h), "magnet:?xt", "magnet:?xt=", "magnet:?=urn:btih:" + enc(h), "magnet:?&&xt=urn:btih:" + enc(h)}[r.Intn(7)])
		case 10:
			b := make([]byte, r.Intn(60))
			r.Read(b)
			add("noise", string(b))
		default:
			// escapes and separators: outside the specified shapes, judged for crashes only
			add("escaped", "magnet:?xt=urn%3Abtih%3A"+enc(h)+[]string{"", ";x=1", "&dn=a+b", "#frag", "&tr=%zz"}[r.Intn(5)])
		}
	}
	for _, c := range out {
		b, _ := hex.DecodeString(c.Input)
		c.Obs = runMagnet(string(b))
	}
	return out
}

func writeMagnetShards(out string, first int, cases []*mcase) int {
	n := first
	for i := 0; i < len(cases); i += 300 {
		j := i + 300
		if j > len(cases) {
			j = len(cases)
		}
		var items []string
		for _, c := range cases[i:j] {
			b, _ := hex.DecodeString(c.Input)
			items = append(items, fmt.Sprintf("(%d, %s, %s)", c.ID, cq.Bytes(b), c.Obs))
		}
		var sb strings.Builder
		sb.WriteString("From Storrent Require Import Base.Bytes Base.Bencode Model.Wire Model.Torfile Model.Magnet Check.WireCheck Check.TorfileCheck.\nOpen Scope N_scope.\n")
		sb.WriteString("Definition cases : list (N * bytes * mobs) := [\n" + strings.Join(items, ";\n") + "\n].\n")
		sb.WriteString("Definition BC := Eval vm_compute in bad_corr_magnet cases.\nDefinition BM := Eval vm_compute in bad_monitor_magnet cases.\nPrint BC. Print BM.\n")
		os.WriteFile(filepath.Join(out, fmt.Sprintf("shard%03d.v", n)), []byte(sb.String()), 0o644)
		n++
	}
	return n
}
