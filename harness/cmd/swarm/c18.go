package main

import (
	"bufio"
	"bytes"
	"context"
	"crypto/sha1"
	"encoding/json"
	"fmt"
	"io"
	"math/rand"
	"net"
	"net/http"
	"net/http/httptest"
	"net/netip"
	"os"
	"path/filepath"
	"strings"
	"sync"
	"time"

	"github.com/jech/storrent/config"
	"github.com/jech/storrent/crypto"
	"github.com/jech/storrent/hash"
	"github.com/jech/storrent/peer"
	"github.com/jech/storrent/protocol"
	"github.com/jech/storrent/tor"
	"github.com/jech/storrent/tracker"
	"github.com/jech/storrent/webseed"

	"verifharness/internal/cq"
	"verifharness/internal/pipe"
)

// C18: many torrents run their real main loops side by side for about 45 s (two ticks of the
// 20 s ticker), each with its own switches, changed on the way; whatever each of them contacts -
// the DHT (observation hook), its tracker (an injected tracker.Tracker), its web seed (a local
// HTTP server), its peers (a scripted remote) and the listening socket (tor.Server) - is recorded
// with the time.

type cobs struct {
	Ms   int64  `json:"ms"`
	Kind string `json:"kind"` // dht tracker webseed hello accept
	A    int    `json:"a"`
	B    int    `json:"b"`
	C    int    `json:"c"`
	Flag bool   `json:"flag"`
}

type syncObs struct {
	Ev       string `json:"ev"` // add setconf announce newpeer incoming
	Conf     [3]int `json:"conf"`
	IPv6     bool   `json:"ipv6"`
	Contacts []cobs `json:"contacts"`
}

type confChange struct {
	AtMs int    `json:"at_ms"`
	Conf [3]int `json:"conf"`
}

type pvCase struct {
	ID        int          `json:"id"`
	Kind      string       `json:"kind"`
	Proxied   bool         `json:"proxied"`
	NWebseeds int          `json:"nwebseeds"`
	Init      [3]int       `json:"init"`
	Changes   []confChange `json:"changes"`
	Timeline  []confChange `json:"timeline"`
	Contacts  []cobs       `json:"contacts"`
	Sync      []syncObs    `json:"sync"`

	mu    sync.Mutex
	t0    time.Time
	hash  []byte
	total time.Duration
}

func (c *pvCase) record(k cobs) {
	c.mu.Lock()
	k.Ms = time.Since(c.t0).Milliseconds()
	c.Contacts = append(c.Contacts, k)
	c.mu.Unlock()
}

func (c *pvCase) since(n int) []cobs {
	c.mu.Lock()
	defer c.mu.Unlock()
	return append([]cobs(nil), c.Contacts[n:]...)
}

func (c *pvCase) ncontacts() int {
	c.mu.Lock()
	defer c.mu.Unlock()
	return len(c.Contacts)
}

var pvByHash sync.Map

type recTracker struct{ c *pvCase }

func (r *recTracker) URL() string                            { return fmt.Sprintf("http://tracker.invalid/%d", r.c.ID) }
func (r *recTracker) GetState() (tracker.State, error)       { return tracker.Ready, nil }
func (r *recTracker) Announce(ctx context.Context, h []byte, myid []byte, want int, size int64, port4, port6 int, proxy string, f func(netip.AddrPort) bool) error {
	r.c.record(cobs{Kind: "tracker", A: port4, B: port6, Flag: proxy != ""})
	return nil
}

// tcpEnd is a pipe end that claims a public TCP address for its peer.
type tcpEnd struct{ *pipe.End }

func (t tcpEnd) RemoteAddr() net.Addr { return &net.TCPAddr{IP: net.IPv4(93, 184, 216, 34), Port: 50000} }

func confOf(v [3]int) peer.TorConf {
	return peer.TorConf{DhtMode: config.DhtMode(v[0]), UseTrackers: v[1] != 0, UseWebseeds: v[2] != 0}
}

func runPv(c *pvCase, wsURL string, creation *sync.Mutex) {
	proxy := ""
	if c.Proxied {
		proxy = "socks5://127.0.0.1:9"
	}
	// a one-piece torrent with real hashes
	content := mkContent(32768, int64(c.ID)+900)
	h := sha1.Sum(content)
	var info bytes.Buffer
	fmt.Fprintf(&info, "d6:lengthi32768e4:name%d:%s12:piece lengthi32768e6:pieces20:", len(fmt.Sprintf("pv%d", c.ID)), fmt.Sprintf("pv%d", c.ID))
	info.Write(h[:])
	info.WriteString("e")
	ih := sha1.Sum(info.Bytes())
	c.hash = ih[:]
	var wss []webseed.Webseed
	for k := 0; k < c.NWebseeds; k++ {
		wss = append(wss, webseed.New(fmt.Sprintf("%s/%d/", wsURL, c.ID), true))
	}
	creation.Lock()
	config.DefaultDhtMode = config.DhtMode(c.Init[0])
	config.DefaultUseTrackers = c.Init[1] != 0
	config.DefaultUseWebseeds = c.Init[2] != 0
	t, err := tor.New(proxy, hash.Hash(ih[:]), "", info.Bytes(), 0, [][]tracker.Tracker{{&recTracker{c}}}, wss)
	if err == nil {
		err = t.MetadataComplete()
	}
	creation.Unlock()
	if err != nil {
		panic(err)
	}
	t.Log.SetOutput(io.Discard)
	pvByHash.Store(string(ih[:]), c)
	ctx, cancel := context.WithCancel(context.Background())
	defer cancel()
	c.t0 = time.Now()
	c.Timeline = append(c.Timeline, confChange{0, c.Init})
	n0 := c.ncontacts()
	t, err = tor.AddTorrent(ctx, t)
	if err != nil {
		panic(err)
	}
	time.Sleep(40 * time.Millisecond)
	c.Sync = append(c.Sync, syncObs{Ev: "add", Contacts: c.since(n0)})

	// a peer that can do everything
	{
		n0 := c.ncontacts()
		a, b := pipe.New()
		id := make([]byte, 20)
		copy(id, fmt.Sprintf("-PV%04d-0000000000", c.ID))
		ch := make(chan protocol.Message, 64)
		done := make(chan struct{})
		go protocol.Reader(b, nil, nil, ch, done)
		t.NewPeer(proxy, a, netip.MustParseAddrPort("93.184.216.35:6881"), false,
			protocol.HandshakeResult{Hash: ih[:], Id: id, Dht: true, Fast: true, Extended: true}, nil)
		hello := cobs{Kind: "hello", C: -1}
		seen := false
		deadline := time.After(2 * time.Second)
	loop:
		for {
			select {
			case m := <-ch:
				switch m := m.(type) {
				case protocol.Extended0:
					seen = true
					hello.Flag = m.Version != ""
					hello.A = int(m.Port)
				case protocol.Port:
					seen = true
					hello.C = int(m.Port)
				case protocol.HaveNone, protocol.HaveAll, protocol.Bitfield, protocol.Have:
					break loop
				case protocol.Error:
					break loop
				}
			case <-deadline:
				break loop
			}
		}
		if seen {
			c.record(hello)
		}
		c.Sync = append(c.Sync, syncObs{Ev: "newpeer", Contacts: c.since(n0)})
		go func() {
			for range ch {
			}
		}()
		defer func() { b.Close(); close(done) }()
	}
	// somebody connects to us for this torrent
	{
		n0 := c.ncontacts()
		a, b := pipe.New()
		go func() {
			w := bufio.NewWriter(b)
			w.Write(append([]byte{19}, []byte("BitTorrent protocol")...))
			w.Write([]byte{0, 0, 0, 0, 0, 0x10, 0, 0x05})
			w.Write(ih[:])
			id := make([]byte, 20)
			copy(id, fmt.Sprintf("-IN%04d-0000000000", c.ID))
			w.Write(id)
			w.Flush()
			io.Copy(io.Discard, b)
		}()
		err := tor.Server(tcpEnd{a}, crypto.DefaultOptions(false, false))
		if err == nil {
			c.record(cobs{Kind: "accept"})
		}
		c.Sync = append(c.Sync, syncObs{Ev: "incoming", Contacts: c.since(n0)})
		defer b.Close()
	}
	// somebody wants the data, nobody has it
	t.Request(0, 1, true, false)

	for _, chg := range c.Changes {
		d := time.Duration(chg.AtMs)*time.Millisecond - time.Since(c.t0)
		if d > 0 {
			time.Sleep(d)
		}
		n0 := c.ncontacts()
		// the new switches may take effect any time from now on
		c.mu.Lock()
		c.Timeline = append(c.Timeline, confChange{int(time.Since(c.t0).Milliseconds()), chg.Conf})
		c.mu.Unlock()
		t.SetConf(confOf(chg.Conf))
		time.Sleep(40 * time.Millisecond)
		// what the change itself causes (no tick of the slow ticker is near: web-seed fetches,
		// which the request ticker starts all the time, are left to the timeline)
		var dh []cobs
		for _, k := range c.since(n0) {
			if k.Kind == "dht" || k.Kind == "tracker" {
				dh = append(dh, k)
			}
		}
		c.Sync = append(c.Sync, syncObs{Ev: "setconf", Conf: chg.Conf, Contacts: dh})
		for _, v6 := range []bool{false, true} {
			n0 := c.ncontacts()
			tor.Announce(ih[:], v6)
			time.Sleep(30 * time.Millisecond)
			var dh []cobs
			for _, k := range c.since(n0) {
				if k.Kind == "dht" {
					dh = append(dh, k)
				}
			}
			c.Sync = append(c.Sync, syncObs{Ev: "announce", IPv6: v6, Contacts: dh})
		}
	}
	if d := c.total - time.Since(c.t0); d > 0 {
		time.Sleep(d)
	}
	kctx, kcancel := context.WithTimeout(context.Background(), 3*time.Second)
	t.Kill(kctx)
	kcancel()
}

func genPv(r *rand.Rand, id int, total time.Duration) *pvCase {
	c := &pvCase{ID: id, Kind: "pv", Proxied: r.Intn(2) == 0, NWebseeds: pick(r, 1, 1, 0), total: total}
	rc := func() [3]int { return [3]int{r.Intn(3), r.Intn(2), r.Intn(2)} }
	c.Init = rc()
	mid := int(total.Milliseconds()) / 2
	c.Changes = []confChange{{300 + r.Intn(400), rc()}, {mid + 500 + r.Intn(1500), rc()}}
	if r.Intn(2) == 0 {
		c.Changes = append(c.Changes, confChange{mid + 2500 + r.Intn(500), rc()})
	}
	return c
}

func kTerm(k cobs) string {
	switch k.Kind {
	case "dht":
		return fmt.Sprintf("KDht %s %d", cq.Bool(k.Flag), k.A)
	case "tracker":
		return fmt.Sprintf("KTracker %d %d", k.A, k.B)
	case "webseed":
		return "KWebseed"
	case "hello":
		d := "None"
		if k.C >= 0 {
			d = fmt.Sprintf("(Some %d)", k.C)
		}
		return fmt.Sprintf("KHello %s %d %s", cq.Bool(k.Flag), k.A, d)
	case "accept":
		return "KAccept"
	}
	return "KAccept"
}

func confTerm(v [3]int) string {
	return fmt.Sprintf("(mk_conf %d %s %s)", v[0], cq.Bool(v[1] != 0), cq.Bool(v[2] != 0))
}

func pvTerm(c *pvCase) string {
	var tl, ks, sy []string
	for _, x := range c.Timeline {
		tl = append(tl, fmt.Sprintf("(%d, %s)", x.AtMs, confTerm(x.Conf)))
	}
	for _, k := range c.Contacts {
		ks = append(ks, fmt.Sprintf("(%d, %s)", k.Ms, kTerm(k)))
	}
	for _, s := range c.Sync {
		var cs []string
		for _, k := range s.Contacts {
			cs = append(cs, kTerm(k))
		}
		obs := "[" + strings.Join(cs, "; ") + "]"
		switch s.Ev {
		case "add":
			// AddTorrent announces for IPv6, then for IPv4
			var a6, a4 []string
			for _, k := range s.Contacts {
				if k.Kind == "dht" && k.Flag {
					a6 = append(a6, kTerm(k))
				} else if k.Kind == "dht" {
					a4 = append(a4, kTerm(k))
				}
			}
			sy = append(sy, fmt.Sprintf("(EAnnounce true, [%s])", strings.Join(a6, "; ")), fmt.Sprintf("(EAnnounce false, [%s])", strings.Join(a4, "; ")))
		case "setconf":
			sy = append(sy, fmt.Sprintf("(ESetConf %s, %s)", confTerm(s.Conf), obs))
		case "announce":
			sy = append(sy, fmt.Sprintf("(EAnnounce %s, %s)", cq.Bool(s.IPv6), obs))
		case "newpeer":
			var hs []string
			for _, k := range s.Contacts {
				if k.Kind == "hello" {
					hs = append(hs, kTerm(k))
				}
			}
			sy = append(sy, fmt.Sprintf("(ENewPeer true true, [%s])", strings.Join(hs, "; ")))
		case "incoming":
			var hs []string
			for _, k := range s.Contacts {
				if k.Kind == "accept" {
					hs = append(hs, kTerm(k))
				}
			}
			sy = append(sy, fmt.Sprintf("(EIncoming, [%s])", strings.Join(hs, "; ")))
		}
	}
	return fmt.Sprintf("mk_pv %d %s %d 23457 23456 23458 23456 %s\n  [%s]\n  [%s]\n  [%s]", c.ID, cq.Bool(c.Proxied), c.NWebseeds, confTerm(c.Init),
		strings.Join(tl, "; "), strings.Join(ks, "; "), strings.Join(sy, ";\n   "))
}

func pvMain(mode string, out *string, n *int, casef *string, r *rand.Rand) {
	total := 44 * time.Second
	if os.Getenv("VERIF_C18_SHORT") != "" {
		total = 6 * time.Second // no tracker tick: for debugging the harness only
	}
	config.ProtocolPort = 23456
	config.SetExternalIPv4Port(23458, true)
	config.SetExternalIPv4Port(23457, false)
	tor.VerifAnnounceHook = func(h hash.Hash, ipv6 bool, port uint16) {
		if v, ok := pvByHash.Load(string(h)); ok {
			v.(*pvCase).record(cobs{Kind: "dht", A: int(port), Flag: ipv6})
		}
	}
	srv := httptest.NewServer(http.HandlerFunc(func(w http.ResponseWriter, req *http.Request) {
		var id int
		fmt.Sscanf(req.URL.Path, "/%d/", &id)
		pvByHash.Range(func(_, v interface{}) bool {
			if c := v.(*pvCase); c.ID == id {
				c.record(cobs{Kind: "webseed"})
				return false
			}
			return true
		})
		http.Error(w, "no", http.StatusNotFound)
	}))
	defer srv.Close()
	var cases []*pvCase
	switch mode {
	case "gen":
		for i := 0; i < *n; i++ {
			cases = append(cases, genPv(r, i, total))
		}
	case "replay":
		data, _ := os.ReadFile(*casef)
		var wrap struct {
			Case pvCase `json:"case"`
		}
		json.Unmarshal(data, &wrap)
		c := &wrap.Case
		c.Timeline, c.Contacts, c.Sync = nil, nil, nil
		c.total = total
		cases = append(cases, c)
	}
	var creation sync.Mutex
	var wg sync.WaitGroup
	for _, c := range cases {
		wg.Add(1)
		go func(c *pvCase) {
			defer wg.Done()
			runPv(c, srv.URL, &creation)
		}(c)
		time.Sleep(3 * time.Millisecond)
	}
	wg.Wait()
	var terms []string
	kinds := map[string]int{}
	distinct := map[string]bool{}
	evals := 0
	for _, c := range cases {
		terms = append(terms, pvTerm(c))
		for _, k := range c.Contacts {
			kinds[k.Kind]++
		}
		if c.Proxied {
			kinds["proxied"]++
		}
		evals += len(c.Contacts) + len(c.Sync)
		distinct[fmt.Sprintf("%v/%v/%v/%d", c.Proxied, c.Init, c.Changes, len(c.Contacts))] = true
	}
	jf, _ := os.Create(filepath.Join(*out, "cases.jsonl"))
	for _, c := range cases {
		b, _ := json.Marshal(c)
		jf.Write(append(b, '\n'))
	}
	jf.Close()
	nshard := 0
	for i := 0; i < len(terms); i += 8 {
		j := i + 8
		if j > len(terms) {
			j = len(terms)
		}
		var sb bytes.Buffer
		sb.WriteString("From Storrent Require Import Base.Bytes Model.Privacy Check.PrivacyCheck.\nOpen Scope N_scope.\n")
		sb.WriteString("Definition cases : list pvcase := [\n" + strings.Join(terms[i:j], ";\n") + "\n].\n")
		sb.WriteString("Definition BC := Eval vm_compute in bad_corr_pv cases.\nDefinition BM := Eval vm_compute in bad_monitor_pv cases.\nPrint BC. Print BM.\n")
		os.WriteFile(filepath.Join(*out, fmt.Sprintf("shard%03d.v", nshard)), sb.Bytes(), 0o644)
		nshard++
	}
	meta := map[string]interface{}{
		"evaluations":         evals,
		"distinct_nontrivial": len(distinct),
		"rule":                "one evaluation = one contact made by a torrent (DHT announce, tracker announce, web-seed request, what its handshake tells a peer, an accepted incoming connection) judged against the switches in force, or one harness-caused event (AddTorrent, SetConf, Announce, new peer, incoming handshake) whose immediate contacts are compared with the model; all torrents run their real main loops side by side for 44 s; distinct = new (proxied, initial switches, changes, number of contacts)",
		"kinds":               kinds,
		"samples":             cases[:min(3, len(cases))],
		"shards":              nshard,
	}
	b, _ := json.MarshalIndent(meta, "", " ")
	os.WriteFile(filepath.Join(*out, "meta.json"), b, 0o644)
}
