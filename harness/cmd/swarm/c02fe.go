package main

// C02, front-ends: HTTP Range requests through the real handler (http.ServeContent over a tor.Reader) and
// FUSE reads through the real handle (called without mounting, several at once on one handle), on real
// multi-file torrents whose pieces are all available.

import (
	"bytes"
	"context"
	"crypto/sha1"
	"fmt"
	"math/rand"
	"net/http"
	"net/http/httptest"
	"net/url"
	"strings"
	"time"

	bfuse "bazil.org/fuse"
	"bazil.org/fuse/fs"

	sfuse "github.com/jech/storrent/fuse"
	shttp "github.com/jech/storrent/http"
	"github.com/jech/storrent/tor"

	"verifharness/internal/cq"
)

type feReq struct {
	Via  string `json:"via"` // http fuse
	File int    `json:"file"`
	Spec string `json:"spec"` // none fromto from suffix (http)
	A    int64  `json:"a"`    // range start / suffix length / fuse offset
	B    int64  `json:"b"`    // range end / fuse size
	Par  int    `json:"par"`  // fuse: reads issued at once on the same handle as this one (group id)
	// observed
	Status int   `json:"status"`
	Start  int64 `json:"start"`
	Cnt    int64 `json:"cnt"`
	CREnd  int64 `json:"crend"`
	CRSize int64 `json:"crsize"`
	DataOK bool  `json:"data_ok"`
}

type feCase struct {
	ID    int      `json:"id"`
	Kind  string   `json:"kind"`
	Psize int      `json:"psize"`
	Files []int64  `json:"files"`
	Names []string `json:"names"`
	Reqs  []feReq  `json:"reqs"`
}

func genFe(r *rand.Rand, id int) *feCase {
	c := &feCase{ID: id, Kind: "fe", Psize: pick(r, 16384, 32768)}
	nf := 1 + r.Intn(4)
	exts := []string{".bin", ".png", "", ".mkv", ".html"}
	for i := 0; i < nf; i++ {
		l := int64(pick(r, 0, 1, 100, 16383, 16384, 16385, 40000, 70001, c.Psize, 3*c.Psize+5))
		if r.Intn(2) == 0 {
			l = r.Int63n(90000)
		}
		c.Files = append(c.Files, l)
		c.Names = append(c.Names, fmt.Sprintf("f%d%s", i, exts[r.Intn(len(exts))]))
	}
	var total int64
	for _, l := range c.Files {
		total += l
	}
	if total == 0 {
		c.Files[0] = 5000
	}
	n := 6 + r.Intn(10)
	for k := 0; k < n; k++ {
		f := r.Intn(nf)
		fl := c.Files[f]
		pos := func() int64 {
			switch r.Intn(6) {
			case 0:
				return 0
			case 1:
				return fl - 1
			case 2:
				return fl
			case 3:
				return fl + int64(r.Intn(50))
			}
			return r.Int63n(fl + 1)
		}
		nn := func() int64 { return int64(pick(r, 1, 2, 100, 4096, 16384, 32768, 32769, 65536, 131072, 200000)) }
		if r.Intn(2) == 0 {
			q := feReq{Via: "http", File: f}
			switch r.Intn(5) {
			case 0:
				q.Spec = "none"
			case 1, 2:
				q.Spec = "fromto"
				q.A = pos()
				if q.A < 0 {
					q.A = 0
				}
				q.B = q.A + nn() - 1
				if r.Intn(3) == 0 {
					q.B = q.A
				}
			case 3:
				q.Spec = "from"
				q.A = pos()
				if q.A < 0 {
					q.A = 0
				}
			case 4:
				q.Spec = "suffix"
				q.A = nn()
			}
			c.Reqs = append(c.Reqs, q)
		} else {
			par := 1 + r.Intn(4)
			for j := 0; j < par; j++ {
				o := pos()
				if o < 0 {
					o = 0
				}
				c.Reqs = append(c.Reqs, feReq{Via: "fuse", File: f, A: o, B: nn(), Par: k + 1})
			}
		}
	}
	return c
}

func feMetainfo(c *feCase, content []byte) []byte {
	var sb bytes.Buffer
	sb.WriteString("d4:infod5:filesl")
	for i, l := range c.Files {
		fmt.Fprintf(&sb, "d6:lengthi%de4:pathl%d:%see", l, len(c.Names[i]), c.Names[i])
	}
	name := fmt.Sprintf("fe%d", c.ID)
	var hashes []byte
	for o := 0; o < len(content); o += c.Psize {
		e := o + c.Psize
		if e > len(content) {
			e = len(content)
		}
		h := sha1.Sum(content[o:e])
		hashes = append(hashes, h[:]...)
	}
	fmt.Fprintf(&sb, "e4:name%d:%s12:piece lengthi%de6:pieces%d:", len(name), name, c.Psize, len(hashes))
	sb.Write(hashes)
	sb.WriteString("ee")
	return sb.Bytes()
}

func runFe(c *feCase, mux *http.ServeMux) {
	var total int64
	offs := make([]int64, len(c.Files))
	for i, l := range c.Files {
		offs[i] = total
		total += l
	}
	content := mkContent(total, int64(c.ID)+4242)
	t, err := tor.ReadTorrent("", bytes.NewReader(feMetainfo(c, content)))
	if err != nil {
		panic("harness metainfo rejected: " + err.Error())
	}
	t.Log.SetOutput(discard{})
	ctx, cancel := context.WithCancel(context.Background())
	defer cancel()
	t, err = tor.AddTorrent(ctx, t)
	if err != nil {
		panic("harness torrent not added: " + err.Error())
	}
	defer func() {
		kctx, kcancel := context.WithTimeout(context.Background(), 5*time.Second)
		t.Kill(kctx)
		kcancel()
	}()
	for i, o := 0, int64(0); o < total; i, o = i+1, o+int64(c.Psize) {
		e := o + int64(c.Psize)
		if e > total {
			e = total
		}
		t.Pieces.AddData(uint32(i), 0, content[o:e], ^uint32(0))
		t.Pieces.Finalise(uint32(i), t.PieceHashes[i])
	}
	matches := func(f int, start int64, body []byte) bool {
		a := offs[f] + start
		return len(body) == 0 || (start >= 0 && a+int64(len(body)) <= total && bytes.Equal(body, content[a:a+int64(len(body))]))
	}
	name := fmt.Sprintf("fe%d", c.ID)
	hash := t.Hash.String()
	handles := map[int]fs.Handle{}
	stuck := false
	openFuse := func(f int) fs.Handle {
		if h, ok := handles[f]; ok {
			return h
		}
		top, err := sfuse.VerifRoot().(fs.NodeStringLookuper).Lookup(context.Background(), name)
		if err != nil {
			return nil
		}
		node, err := top.(fs.NodeStringLookuper).Lookup(context.Background(), c.Names[f])
		if err != nil {
			return nil
		}
		h, err := node.(fs.NodeOpener).Open(context.Background(), &bfuse.OpenRequest{Flags: bfuse.OpenReadOnly}, &bfuse.OpenResponse{})
		if err != nil {
			return nil
		}
		handles[f] = h
		return h
	}
	for k := 0; k < len(c.Reqs); {
		q := &c.Reqs[k]
		if q.Via == "http" {
			req := httptest.NewRequest("GET", "http://localhost:8080/"+hash+"/"+url.PathEscape(c.Names[q.File]), nil)
			rctx, rcancel := context.WithTimeout(context.Background(), 5*time.Second)
			req = req.WithContext(rctx)
			switch q.Spec {
			case "fromto":
				req.Header.Set("Range", fmt.Sprintf("bytes=%d-%d", q.A, q.B))
			case "from":
				req.Header.Set("Range", fmt.Sprintf("bytes=%d-", q.A))
			case "suffix":
				req.Header.Set("Range", fmt.Sprintf("bytes=-%d", q.A))
			}
			rec := httptest.NewRecorder()
			served := make(chan bool, 1)
			go func() {
				defer func() {
					if x := recover(); x != nil {
						fmt.Printf("HARNESS-VIOLATION %d panic in the HTTP file handler: %v\n", c.ID, x)
					}
					served <- true
				}()
				mux.ServeHTTP(rec, req)
			}()
			select {
			case <-served:
			case <-time.After(15 * time.Second):
				fmt.Printf("HARNESS-VIOLATION %d an HTTP request did not return within 15 s\n", c.ID)
				rcancel()
				q.Status, q.Start, q.CREnd, q.CRSize = 9, 0, -1, -1
				k++
				continue
			}
			rcancel()
			q.Status = rec.Code
			body := rec.Body.Bytes()
			q.Cnt = int64(len(body))
			q.Start, q.CREnd, q.CRSize = 0, -1, -1
			if cr := rec.Header().Get("Content-Range"); rec.Code == 206 {
				if _, err := fmt.Sscanf(strings.TrimPrefix(cr, "bytes "), "%d-%d/%d", &q.Start, &q.CREnd, &q.CRSize); err != nil {
					q.Start, q.CREnd, q.CRSize = -7, -7, -7
				}
			}
			q.DataOK = (rec.Code != 200 && rec.Code != 206) || matches(q.File, q.Start, body)
			k++
			continue
		}
		// a group of FUSE reads issued at once on one handle
		j := k
		for j < len(c.Reqs) && c.Reqs[j].Via == "fuse" && c.Reqs[j].Par == q.Par && c.Reqs[j].File == q.File {
			j++
		}
		h := openFuse(q.File)
		// every read reports through a channel; one that has not returned after 10 s is reported as such
		// (status 9) and left behind
		type res struct {
			i      int
			status int
			cnt    int64
			ok     bool
		}
		ch := make(chan res, j-k)
		for i := k; i < j; i++ {
			c.Reqs[i].Start, c.Reqs[i].CREnd, c.Reqs[i].CRSize = c.Reqs[i].A, -1, -1
			c.Reqs[i].Status = 9
			go func(i int, a, b int64, f int) {
				out := res{i: i, status: 1}
				defer func() {
					if x := recover(); x != nil {
						fmt.Printf("HARNESS-VIOLATION %d panic in FUSE read: %v\n", c.ID, x)
					}
					ch <- out
				}()
				if h == nil {
					return
				}
				rctx, rcancel := context.WithTimeout(context.Background(), 5*time.Second)
				defer rcancel()
				resp := &bfuse.ReadResponse{Data: make([]byte, 0, b)}
				if err := h.(fs.HandleReader).Read(rctx, &bfuse.ReadRequest{Offset: a, Size: int(b)}, resp); err != nil {
					return
				}
				out.status, out.cnt, out.ok = 0, int64(len(resp.Data)), matches(f, a, resp.Data)
			}(i, c.Reqs[i].A, c.Reqs[i].B, c.Reqs[i].File)
		}
		deadline := time.After(10 * time.Second)
	collect:
		for n := k; n < j; n++ {
			select {
			case o := <-ch:
				c.Reqs[o.i].Status, c.Reqs[o.i].Cnt, c.Reqs[o.i].DataOK = o.status, o.cnt, o.ok
			case <-deadline:
				fmt.Printf("HARNESS-VIOLATION %d a FUSE read did not return within 10 s\n", c.ID)
				stuck = true
				break collect
			}
		}
		k = j
	}
	if stuck {
		return // Release would wait for the read that is stuck
	}
	for _, h := range handles {
		h.(fs.HandleReleaser).Release(context.Background(), &bfuse.ReleaseRequest{})
	}
}

type discard struct{}

func (discard) Write(p []byte) (int, error) { return len(p), nil }

func feTerm(c *feCase) string {
	var qs []string
	for _, q := range c.Reqs {
		via := ""
		if q.Via == "http" {
			switch q.Spec {
			case "none":
				via = "FHttp RNoRange"
			case "fromto":
				via = fmt.Sprintf("FHttp (RFromTo %d %d)", q.A, q.B)
			case "from":
				via = fmt.Sprintf("FHttp (RFrom %d)", q.A)
			case "suffix":
				via = fmt.Sprintf("FHttp (RSuffix %d)", q.A)
			}
		} else {
			via = fmt.Sprintf("FFuse %d %d", q.A, q.B)
		}
		qs = append(qs, fmt.Sprintf("mk_fereq (%s) %d %d (%d) %d (%d) (%d) %s", via, c.Files[q.File], q.Status, q.Start, q.Cnt, q.CREnd, q.CRSize, cq.Bool(q.DataOK)))
	}
	return fmt.Sprintf("mk_fecase %d [%s]", c.ID, strings.Join(qs, ";\n  "))
}

func feMux() *http.ServeMux { return shttp.VerifMux() }
