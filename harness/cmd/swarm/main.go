// Command swarm runs a real storrent torrent (event handler, scheduler, piece store) with real
// peer goroutines (peer.Run) talking over in-memory connections to scripted remote peers, and
// audits the torrent's bookkeeping at quiescent points (C09).
package main

import (
	"bufio"
	"bytes"
	"context"
	"crypto/sha1"
	"encoding/json"
	"flag"
	"fmt"
	"io"
	"math/rand"
	"net/netip"
	"os"
	"path/filepath"
	"sort"
	"strings"
	"sync"
	"time"

	"github.com/jech/storrent/bitmap"
	"github.com/jech/storrent/config"
	"github.com/jech/storrent/hash"
	"github.com/jech/storrent/peer"
	"github.com/jech/storrent/protocol"
	"github.com/jech/storrent/tor"

	"verifharness/internal/cq"
	"verifharness/internal/pipe"
)

const chunkSize = 16384

type step struct {
	Op    string `json:"op"` // join have unchoke choke want unwant tick serve leave
	Peer  int    `json:"peer,omitempty"`
	Piece int    `json:"piece,omitempty"`
	Prio  int    `json:"prio,omitempty"`
	N     int    `json:"n,omitempty"`
	Mode  string `json:"mode,omitempty"` // serve: good corrupt reject unrequested
	Has   []int  `json:"has,omitempty"`  // join: pieces advertised (nil with All=false: none)
	All   bool   `json:"all,omitempty"`
	Fast  bool   `json:"fast,omitempty"`
	ReqQ  int    `json:"reqq,omitempty"` // join: >0: the remote speaks the extension protocol and advertises this queue depth
	Race  bool   `json:"race,omitempty"` // do not wait for quiescence before the next step
	Chunks []int `json:"chunks,omitempty"` // cmd: blocks handed to the peer; cancel: blocks cancelled
	Wait   bool  `json:"wait,omitempty"`   // want: ask for a completion channel
}

type scenario struct {
	ID    int    `json:"id"`
	Psize int    `json:"psize"`
	Total int64  `json:"total"`
	Steps []step `json:"steps"`
	// observations
	Audits []audit  `json:"audits"`
	TorLog []torEv  `json:"-"`
	Note   string   `json:"note,omitempty"`
	// C10
	Prop    string    `json:"prop,omitempty"`
	Waiters []*waiter `json:"waiters,omitempty"`
	Haves   [][2]int  `json:"haves,omitempty"` // (piece, seq) of every TorHave(true) handled
}

// a consumer waiting for a piece
type waiter struct {
	ID      int `json:"id"`
	Piece   int `json:"piece"`
	Seq     int `json:"seq"`     // when the channel was handed out
	Abandon int `json:"abandon"` // when the last priority on the piece was withdrawn afterwards (0: never)
	ch      <-chan struct{}
}

type reqObs struct {
	Index   int   `json:"index"`
	Prio    []int `json:"prio"`
	Waiting bool  `json:"waiting"`
}

// one audit at a quiescent point, after step Step
type audit struct {
	Step     int      `json:"step"`
	InFlight [][2]int `json:"inflight"` // (chunk, count), non-zero only
	Held     [][2]int `json:"held"`     // (chunk, number of connected peers holding a request for it)
	Avail    [][2]int `json:"avail"`    // (piece, count)
	Adv      [][2]int `json:"adv"`      // (piece, number of connected peers advertising it)
	Peers    int      `json:"peers"`
	// C10
	Seq       int      `json:"seq,omitempty"`
	Closed    []int    `json:"closed,omitempty"`    // waiters whose channel is closed
	Complete  []int    `json:"complete,omitempty"`  // verified pieces
	Requested []reqObs `json:"requested,omitempty"` // Torrent.requested
	Wanted    [][2]int `json:"wanted,omitempty"`    // (piece, prio) held by the consumers
}

// one step of the torrent's event handler, with what it did to the counters
type torEv struct {
	Kind   string // data drop peerhave peerbitmap request other
	Index  int
	Begin  int
	Length int
	Have   bool
	Bits   []int
	DIF    [][3]int // (chunk, before, after)
	DAV    [][3]int // (piece, before, after)
}

type remote struct {
	idx    int
	e      *pipe.End
	w      *bufio.Writer
	id     []byte
	has    map[int]bool
	mu     sync.Mutex
	reqs   []protocol.Request
	nmsgs  int
	closed bool
	p      *peer.Peer
}

type swarm struct {
	sc      *scenario
	t       *tor.Torrent
	content []byte
	ctx     context.Context
	cancel  context.CancelFunc
	remotes map[int]*remote
	pumped  int
	wanted  [][2]int // (piece, prio) the consumers hold, in order
}

func (s *swarm) npieces() int { return int((s.sc.Total + int64(s.sc.Psize) - 1) / int64(s.sc.Psize)) }

func mkContent(total int64, seed int64) []byte {
	r := rand.New(rand.NewSource(seed))
	b := make([]byte, total)
	r.Read(b)
	return b
}

func newSwarm(sc *scenario) *swarm {
	s := &swarm{sc: sc, remotes: map[int]*remote{}}
	s.content = mkContent(sc.Total, int64(sc.ID)+77)
	var hashes []byte
	for o := int64(0); o < sc.Total; o += int64(sc.Psize) {
		e := o + int64(sc.Psize)
		if e > sc.Total {
			e = sc.Total
		}
		h := sha1.Sum(s.content[o:e])
		hashes = append(hashes, h[:]...)
	}
	var sb bytes.Buffer
	fmt.Fprintf(&sb, "d4:infod6:lengthi%de4:name4:data12:piece lengthi%de6:pieces%d:", sc.Total, sc.Psize, len(hashes))
	sb.Write(hashes)
	sb.WriteString("ee")
	t, err := tor.ReadTorrent("", bytes.NewReader(sb.Bytes()))
	if err != nil {
		panic(fmt.Sprintf("harness metainfo rejected: %v", err))
	}
	t.VerifInit()
	t.Log.SetOutput(io.Discard)
	s.t = t
	s.ctx, s.cancel = context.WithCancel(context.Background())
	return s
}

func sparse(v []int) [][2]int {
	var out [][2]int
	for i, x := range v {
		if x != 0 {
			out = append(out, [2]int{i, x})
		}
	}
	return out
}

func (s *swarm) counters() ([]int, []int) {
	f := s.t.VerifInFlight()
	a := s.t.VerifAvailable()
	fi := make([]int, len(f))
	for i, x := range f {
		fi[i] = int(x)
	}
	ai := make([]int, s.npieces())
	for i, x := range a {
		if i < len(ai) {
			ai[i] = int(x)
		} else if x != 0 {
			ai = append(ai, make([]int, i-len(ai)+1)...)
			ai[i] = int(x)
		}
	}
	return fi, ai
}

func diff(a, b []int) [][3]int {
	var out [][3]int
	n := len(a)
	if len(b) > n {
		n = len(b)
	}
	for i := 0; i < n; i++ {
		x, y := 0, 0
		if i < len(a) {
			x = a[i]
		}
		if i < len(b) {
			y = b[i]
		}
		if x != y {
			out = append(out, [3]int{i, x, y})
		}
	}
	return out
}

// handle runs one event through the torrent's handler and logs its effect on the counters.
func (s *swarm) handle(e peer.TorEvent) {
	f0, a0 := s.counters()
	ev := torEv{Kind: "other"}
	switch c := e.(type) {
	case peer.TorData:
		ev = torEv{Kind: "data", Index: int(c.Index), Begin: int(c.Begin), Length: int(c.Length)}
	case peer.TorDrop:
		ev = torEv{Kind: "drop", Index: int(c.Index), Begin: int(c.Begin), Length: int(c.Length)}
	case peer.TorPeerHave:
		ev = torEv{Kind: "peerhave", Index: int(c.Index), Have: c.Have}
	case peer.TorPeerBitmap:
		ev = torEv{Kind: "peerbitmap", Have: c.Have}
		c.Bitmap.Range(func(i int) bool { ev.Bits = append(ev.Bits, i); return true })
	case peer.TorPeerGoaway:
		ev = torEv{Kind: "goaway"}
	}
	s.t.VerifHandleEvent(s.ctx, e)
	s.pumped++
	if h, ok := e.(peer.TorHave); ok && h.Have {
		s.sc.Haves = append(s.sc.Haves, [2]int{int(h.Index), s.pumped})
	}
	f1, a1 := s.counters()
	ev.DIF, ev.DAV = diff(f0, f1), diff(a0, a1)
	if ev.Kind != "other" || len(ev.DIF) > 0 || len(ev.DAV) > 0 {
		s.sc.TorLog = append(s.sc.TorLog, ev)
	}
}

func (s *swarm) pump() {
	for {
		select {
		case e := <-s.t.Event:
			s.handle(e)
		default:
			return
		}
	}
}

func (s *swarm) tick() {
	f0, a0 := s.counters()
	s.t.VerifPeriodicRequest(s.ctx)
	f1, a1 := s.counters()
	s.sc.TorLog = append(s.sc.TorLog, torEv{Kind: "request", DIF: diff(f0, f1), DAV: diff(a0, a1)})
}

func (s *swarm) listed(p *peer.Peer) bool {
	for _, q := range s.t.VerifPeers() {
		if q == p {
			return true
		}
	}
	return false
}

func (s *swarm) signature() string {
	var sb strings.Builder
	fmt.Fprintf(&sb, "%d/%d;", s.pumped, len(s.t.Event))
	ids := make([]int, 0, len(s.remotes))
	for i := range s.remotes {
		ids = append(ids, i)
	}
	sort.Ints(ids)
	for _, i := range ids {
		r := s.remotes[i]
		a, b, c := r.e.Counters()
		r.mu.Lock()
		fmt.Fprintf(&sb, "%d:%d,%d,%d,%d,%d", i, a, b, c, r.nmsgs, len(r.reqs))
		r.mu.Unlock()
		if r.p != nil {
			fmt.Fprintf(&sb, ",%d", len(r.p.Event))
		}
		sb.WriteString(";")
	}
	return sb.String()
}

func (s *swarm) settle(rounds int) {
	stable := 0
	last := ""
	for i := 0; stable < rounds && i < 4000; i++ {
		s.pump()
		sig := s.signature()
		if sig == last {
			stable++
		} else {
			stable = 0
			last = sig
		}
		time.Sleep(1200 * time.Microsecond)
	}
}

func (s *swarm) audit(stepno int) audit {
	f, a := s.counters()
	held := make([]int, len(f))
	adv := make([]int, len(a))
	peers := s.t.VerifPeers()
	for _, p := range peers {
		if p.GetStatus() == nil {
			continue // exiting: its goaway has not been handled yet
		}
		st := p.VerifState()
		for _, c := range st.Queue {
			if int(c) < len(held) {
				held[c]++
			}
		}
		for _, c := range st.Requested {
			if int(c) < len(held) {
				held[c]++
			}
		}
		st.Bitmap.Range(func(i int) bool {
			for len(adv) <= i {
				adv = append(adv, 0)
			}
			adv[i]++
			return true
		})
	}
	au := audit{Step: stepno, InFlight: sparse(f), Held: sparse(held), Avail: sparse(a), Adv: sparse(adv), Peers: len(peers)}
	if s.sc.Prop == "C10" {
		au.Seq = s.pumped
		for _, w := range s.sc.Waiters {
			select {
			case <-w.ch:
				au.Closed = append(au.Closed, w.ID)
			default:
			}
		}
		for i := 0; i < s.npieces(); i++ {
			if s.t.Pieces.Complete(uint32(i)) {
				au.Complete = append(au.Complete, i)
			}
		}
		for _, r := range s.t.VerifRequested() {
			o := reqObs{Index: int(r.Index), Waiting: r.Waiting, Prio: []int{}}
			for _, p := range r.Prio {
				o.Prio = append(o.Prio, int(p))
			}
			au.Requested = append(au.Requested, o)
		}
		au.Wanted = append([][2]int(nil), s.wanted...)
	}
	return au
}

func (a audit) ok() bool {
	return fmt.Sprint(a.InFlight) == fmt.Sprint(a.Held) && fmt.Sprint(a.Avail) == fmt.Sprint(a.Adv)
}

func (r *remote) send(m protocol.Message) {
	r.mu.Lock()
	defer r.mu.Unlock()
	if r.closed {
		return
	}
	protocol.Write(r.w, m, nil)
	r.w.Flush()
}

func (s *swarm) join(st step) {
	a, b := pipe.New()
	id := make([]byte, 20)
	copy(id, fmt.Sprintf("-RM%04d-%010d", st.Peer, s.sc.ID))
	r := &remote{idx: st.Peer, e: b, w: bufio.NewWriter(b), id: id, has: map[int]bool{}}
	_ = a
	s.remotes[st.Peer] = r
	ch := make(chan protocol.Message, 1024)
	done := make(chan struct{})
	go protocol.Reader(b, nil, nil, ch, done)
	go func() {
		for m := range ch {
			r.mu.Lock()
			r.nmsgs++
			switch m := m.(type) {
			case protocol.Request:
				r.reqs = append(r.reqs, m)
			case protocol.Cancel:
				for i, q := range r.reqs {
					if q.Index == m.Index && q.Begin == m.Begin {
						r.reqs = append(r.reqs[:i], r.reqs[i+1:]...)
						break
					}
				}
			case protocol.Error:
				r.closed = true
				r.mu.Unlock()
				close(done) // stops protocol.Reader, which otherwise reports the error for ever
				return
			}
			r.mu.Unlock()
		}
	}()
	addr := netip.AddrPortFrom(netip.AddrFrom4([4]byte{10, 0, byte(st.Peer >> 8), byte(st.Peer)}), uint16(6881+st.Peer))
	err := s.t.NewPeer("", a, addr, false, protocol.HandshakeResult{Hash: s.t.Hash, Id: hash.Hash(id), Fast: st.Fast, Extended: st.ReqQ > 0}, nil)
	if err != nil {
		panic(err)
	}
	s.pump()
	for _, p := range s.t.VerifPeers() {
		if bytes.Equal(p.Id, id) {
			r.p = p
		}
	}
	np := s.npieces()
	if st.ReqQ > 0 {
		r.send(protocol.Extended0{ReqQ: uint32(st.ReqQ)})
	}
	if st.All {
		for i := 0; i < np; i++ {
			r.has[i] = true
		}
		if st.Fast {
			r.send(protocol.HaveAll{})
		} else {
			bm := bitmap.New(np)
			for i := 0; i < np; i++ {
				bm.Set(i)
			}
			r.send(protocol.Bitfield{Bitfield: bm})
		}
	} else if len(st.Has) > 0 {
		bm := bitmap.New(np)
		for _, i := range st.Has {
			if i < np {
				bm.Set(i)
				r.has[i] = true
			}
		}
		r.send(protocol.Bitfield{Bitfield: bm})
	} else if st.Fast {
		r.send(protocol.HaveNone{})
	}
}

func (s *swarm) serve(st step) {
	r := s.remotes[st.Peer]
	if r == nil {
		return
	}
	r.mu.Lock()
	n := st.N
	if n > len(r.reqs) {
		n = len(r.reqs)
	}
	reqs := append([]protocol.Request(nil), r.reqs[:n]...)
	r.reqs = r.reqs[n:]
	r.mu.Unlock()
	for _, q := range reqs {
		off := int64(q.Index)*int64(s.sc.Psize) + int64(q.Begin)
		end := off + int64(q.Length)
		if off > s.sc.Total {
			off = s.sc.Total
		}
		if end > s.sc.Total {
			end = s.sc.Total
		}
		data := append([]byte(nil), s.content[off:end]...)
		switch st.Mode {
		case "good":
			r.send(protocol.Piece{Index: q.Index, Begin: q.Begin, Data: data})
		case "corrupt":
			if len(data) > 0 {
				data[0] ^= 0x55
			}
			r.send(protocol.Piece{Index: q.Index, Begin: q.Begin, Data: data})
		case "reject":
			r.send(protocol.RejectRequest{Index: q.Index, Begin: q.Begin, Length: q.Length})
		case "twice":
			r.send(protocol.Piece{Index: q.Index, Begin: q.Begin, Data: data})
			r.send(protocol.Piece{Index: q.Index, Begin: q.Begin, Data: data})
		}
	}
	if st.Mode == "unrequested" {
		// a block nobody asked for
		idx := st.Piece % s.npieces()
		off := int64(idx) * int64(s.sc.Psize)
		end := off + chunkSize
		if end > s.sc.Total {
			end = s.sc.Total
		}
		r.send(protocol.Piece{Index: uint32(idx), Begin: 0, Data: append([]byte(nil), s.content[off:end]...)})
	}
}

func (s *swarm) run() {
	sc := s.sc
	for i, st := range sc.Steps {
		switch st.Op {
		case "join":
			s.join(st)
		case "have":
			if r := s.remotes[st.Peer]; r != nil && st.Piece < s.npieces() {
				r.has[st.Piece] = true
				r.send(protocol.Have{Index: uint32(st.Piece)})
			}
		case "unchoke":
			if r := s.remotes[st.Peer]; r != nil {
				r.send(protocol.Unchoke{})
			}
		case "choke":
			if r := s.remotes[st.Peer]; r != nil {
				r.send(protocol.Choke{})
			}
		case "want":
			if st.Wait {
				ch := make(chan (<-chan struct{}), 1)
				s.handle(peer.TorRequest{Index: uint32(st.Piece), Priority: int8(st.Prio), Request: true, Ch: ch})
				if done := <-ch; done != nil {
					sc.Waiters = append(sc.Waiters, &waiter{ID: len(sc.Waiters), Piece: st.Piece, Seq: s.pumped, ch: done})
				}
			} else {
				s.handle(peer.TorRequest{Index: uint32(st.Piece), Priority: int8(st.Prio), Request: true})
			}
			if st.Prio > -128 {
				s.wanted = append(s.wanted, [2]int{st.Piece, st.Prio})
			}
		case "unwant":
			s.handle(peer.TorRequest{Index: uint32(st.Piece), Priority: int8(st.Prio), Request: false})
			for k, w := range s.wanted {
				if w[0] == st.Piece && w[1] == st.Prio {
					s.wanted = append(append([][2]int(nil), s.wanted[:k]...), s.wanted[k+1:]...)
					break
				}
			}
			left := false
			for _, w := range s.wanted {
				if w[0] == st.Piece {
					left = true
				}
			}
			if !left {
				for _, w := range sc.Waiters {
					if w.Piece == st.Piece && w.Abandon == 0 {
						w.Abandon = s.pumped
					}
				}
			}
		case "evictall":
			s.t.Pieces.Expire(0, nil, func(index uint32) {
				s.handle(peer.TorHave{Index: index, Have: false})
			})
		case "tick":
			s.tick()
		case "cmd":
			// a decision of the scheduler, made for it: request(t, p, chunks)
			if r := s.remotes[st.Peer]; r != nil && r.p != nil && s.listed(r.p) {
				f0, a0 := s.counters()
				var cs []uint32
				for _, c := range st.Chunks {
					if c < len(f0) {
						cs = append(cs, uint32(c))
					}
				}
				s.t.VerifRequest(r.p, cs)
				f1, a1 := s.counters()
				s.sc.TorLog = append(s.sc.TorLog, torEv{Kind: "command", Bits: st.Chunks, DIF: diff(f0, f1), DAV: diff(a0, a1)})
			}
		case "cancel":
			if r := s.remotes[st.Peer]; r != nil && r.p != nil && s.listed(r.p) {
				for _, c := range st.Chunks {
					select {
					case r.p.Event <- peer.PeerCancel{Chunk: uint32(c)}:
					case <-r.p.Done:
					}
				}
			}
		case "serve":
			s.serve(st)
		case "leave":
			if r := s.remotes[st.Peer]; r != nil {
				r.mu.Lock()
				r.closed = true
				r.mu.Unlock()
				r.e.Close()
				if st.Mode == "wait" && r.p != nil {
					// until the peer's main loop has exited; its goaway stays unhandled
					select {
					case <-r.p.Done:
					case <-time.After(time.Second):
					}
				}
			}
		}
		if st.Race {
			continue
		}
		s.settle(3)
		a := s.audit(i)
		if !a.ok() {
			// a transient reading? look again after a long pause
			s.settle(40)
			a = s.audit(i)
		}
		sc.Audits = append(sc.Audits, a)
	}
	// everybody leaves: all counters must return to zero
	ids := make([]int, 0)
	for i := range s.remotes {
		ids = append(ids, i)
	}
	sort.Ints(ids)
	for _, i := range ids {
		r := s.remotes[i]
		r.mu.Lock()
		r.closed = true
		r.mu.Unlock()
		r.e.Close()
	}
	s.settle(6)
	a := s.audit(len(sc.Steps))
	if !a.ok() || len(a.InFlight) > 0 || len(a.Avail) > 0 {
		s.settle(60)
		a = s.audit(len(sc.Steps))
	}
	sc.Audits = append(sc.Audits, a)
	s.cancel()
	s.t.VerifFinish()
}

// ---------- generation ----------

func pick(r *rand.Rand, v ...int) int { return v[r.Intn(len(v))] }

func genScenario(r *rand.Rand, id int) *scenario {
	sc := &scenario{ID: id}
	sc.Psize = pick(r, 16384, 32768, 65536)
	np := 2 + r.Intn(5)
	sc.Total = int64(sc.Psize)*int64(np-1) + int64(pick(r, 1, 100, 16384, 16385, sc.Psize-1, sc.Psize))
	npeers := 1 + r.Intn(3)
	joined := map[int]bool{}
	add := func(st step) { sc.Steps = append(sc.Steps, st) }
	for p := 0; p < npeers; p++ {
		st := step{Op: "join", Peer: p, Fast: r.Intn(2) == 0, ReqQ: pick(r, 0, 0, 1, 2, 3)}
		switch r.Intn(3) {
		case 0:
			st.All = true
		case 1:
			for i := 0; i < np; i++ {
				if r.Intn(2) == 0 {
					st.Has = append(st.Has, i)
				}
			}
		}
		if !st.All && r.Intn(2) == 0 {
			// an advertisement that changes while the first one is still in transit
			st.Race = true
			add(st)
			add(step{Op: "have", Peer: p, Piece: r.Intn(np), Race: r.Intn(2) == 0})
			add(step{Op: "have", Peer: p, Piece: r.Intn(np)})
		} else {
			add(st)
		}
		joined[p] = true
		if r.Intn(4) > 0 {
			add(step{Op: "unchoke", Peer: p})
		}
	}
	if r.Intn(2) == 0 {
		for k := 0; k < 3; k++ {
			add(step{Op: "want", Piece: r.Intn(np), Prio: pick(r, 1, 1, 0)})
		}
		add(step{Op: "tick"})
	}
	nsteps := 6 + r.Intn(14)
	for k := 0; k < nsteps; k++ {
		p := r.Intn(npeers)
		switch x := r.Intn(20); {
		case x < 3:
			add(step{Op: "want", Piece: r.Intn(np), Prio: pick(r, 1, 1, 0, -1)})
		case x < 7:
			add(step{Op: "tick"})
		case x < 12:
			add(step{Op: "serve", Peer: p, N: 1 + r.Intn(6), Mode: []string{"good", "good", "good", "corrupt", "reject", "twice", "unrequested"}[r.Intn(7)], Piece: r.Intn(np)})
		case x < 13:
			if r.Intn(2) == 0 {
				add(step{Op: "have", Peer: p, Piece: r.Intn(np)})
			} else {
				// the remote chokes while the scheduler hands it blocks: they stay queued at the
				// peer; then somebody else delivers them
				add(step{Op: "want", Piece: r.Intn(np), Prio: pick(r, 1, 0)})
				add(step{Op: "choke", Peer: p, Race: true})
				add(step{Op: "tick"})
				q := r.Intn(npeers)
				add(step{Op: "tick"})
				add(step{Op: "serve", Peer: q, N: 8, Mode: "good"})
				add(step{Op: "unwant", Piece: r.Intn(np), Prio: pick(r, 1, 0)})
			}
		case x < 14:
			if r.Intn(2) == 0 {
				add(step{Op: "choke", Peer: p})
			} else {
				// more blocks than the peer's pipeline takes, then some of them are cancelled
				nch := int((sc.Total + chunkSize - 1) / chunkSize)
				var cs []int
				for k := 0; k < 3+r.Intn(4); k++ {
					cs = append(cs, r.Intn(nch))
				}
				add(step{Op: "cmd", Peer: p, Chunks: cs, Race: r.Intn(3) == 0})
				add(step{Op: "cancel", Peer: p, Chunks: []int{cs[len(cs)-1], cs[r.Intn(len(cs))]}})
			}
		case x < 15:
			add(step{Op: "unchoke", Peer: p})
		case x < 16:
			add(step{Op: "unwant", Piece: r.Intn(np), Prio: pick(r, 1, 0, -1)})
		case x < 18:
			if joined[p] {
				// the peer goes away while the scheduler is at work
				if r.Intn(2) == 0 {
					add(step{Op: "want", Piece: r.Intn(np), Prio: 1})
				}
				lv := step{Op: "leave", Peer: p, Race: r.Intn(3) > 0}
				if lv.Race && r.Intn(2) == 0 {
					lv.Mode = "wait"
				}
				add(lv)
				if r.Intn(2) == 0 {
					nch := int((sc.Total + chunkSize - 1) / chunkSize)
					add(step{Op: "cmd", Peer: p, Chunks: []int{r.Intn(nch), r.Intn(nch)}, Race: true})
				}
				add(step{Op: "tick", Race: r.Intn(2) == 0})
				add(step{Op: "tick"})
				joined[p] = false
			}
		default:
			if !joined[p] {
				add(step{Op: "join", Peer: p + 10*(k+1), All: true, Fast: r.Intn(2) == 0})
				add(step{Op: "unchoke", Peer: p + 10*(k+1)})
			}
		}
	}
	return sc
}

// ---------- rendering ----------

func pairs(v [][2]int) string {
	s := make([]string, len(v))
	for i, x := range v {
		s[i] = fmt.Sprintf("(%d,%d)", x[0], x[1])
	}
	return "[" + strings.Join(s, ";") + "]"
}

func triples(v [][3]int) string {
	s := make([]string, len(v))
	for i, x := range v {
		s[i] = fmt.Sprintf("(%d,%d,%d)", x[0], x[1], x[2])
	}
	return "[" + strings.Join(s, ";") + "]"
}

func ints(v []int) string {
	s := make([]string, len(v))
	for i, x := range v {
		s[i] = fmt.Sprint(x)
	}
	return "[" + strings.Join(s, ";") + "]"
}

func term(sc *scenario) string {
	var evs []string
	for _, e := range sc.TorLog {
		var k string
		switch e.Kind {
		case "data":
			k = fmt.Sprintf("TvData %d %d %d", e.Index, e.Begin, e.Length)
		case "drop":
			k = fmt.Sprintf("TvDrop %d %d %d", e.Index, e.Begin, e.Length)
		case "peerhave":
			k = fmt.Sprintf("TvPeerHave %d %s", e.Index, cq.Bool(e.Have))
		case "peerbitmap":
			k = fmt.Sprintf("TvPeerBitmap %s %s", ints(e.Bits), cq.Bool(e.Have))
		case "request":
			k = "TvRequest"
		case "command":
			var cs []int
			for _, c := range e.Bits {
				if c < int((sc.Total+chunkSize-1)/chunkSize) {
					cs = append(cs, c)
				}
			}
			k = "TvCommand " + ints(cs)
		case "goaway":
			k = "TvGoaway"
		default:
			k = "TvOther"
		}
		evs = append(evs, fmt.Sprintf("(%s, %s, %s)", k, triples(e.DIF), triples(e.DAV)))
	}
	var auds []string
	for _, a := range sc.Audits {
		auds = append(auds, fmt.Sprintf("mk_audit %d %s %s %s %s", a.Step, pairs(a.InFlight), pairs(a.Held), pairs(a.Avail), pairs(a.Adv)))
	}
	return fmt.Sprintf("mk_scase %d %d %d\n  [%s]\n  [%s]", sc.ID, sc.Psize, sc.Total, strings.Join(evs, ";\n   "), strings.Join(auds, ";\n   "))
}

func main() {
	fs := flag.NewFlagSet("swarm", flag.ExitOnError)
	prop := fs.String("prop", "C09", "property")
	out := fs.String("out", "", "output directory")
	n := fs.Int("n", 100, "number of scenarios")
	casef := fs.String("case", "", "case file (replay)")
	fs.Parse(os.Args[2:])
	os.MkdirAll(*out, 0o755)
	config.SetDefaultProxy("")
	r := cq.Rand()
	if *prop == "C18" {
		pvMain(os.Args[1], out, n, casef, r)
		return
	}
	if *prop == "C17" {
		lcMain(os.Args[1], out, n, casef, r)
		return
	}
	if *prop == "C01" || *prop == "C03" {
		piecesMain(os.Args[1], out, n, casef, r)
		return
	}
	var scs []*scenario
	var rqs []*rqCase
	var rds []*rdCase
	var lvs []*lvCase
	var fes []*feCase
	config.PrefetchRate = 768 * 1024
	switch os.Args[1] {
	case "gen":
		for i := 0; i < *n; i++ {
			if *prop == "C02" {
				if i%4 == 3 {
					lvs = append(lvs, genLv(r, i))
				} else if i%4 == 1 {
					fes = append(fes, genFe(r, i))
				} else {
					rds = append(rds, genRd(r, i))
				}
			} else if *prop == "C10" {
				if i%2 == 0 {
					rqs = append(rqs, genRq(r, i))
				} else {
					scs = append(scs, genWaiters(r, i))
				}
			} else {
				scs = append(scs, genScenario(r, i))
			}
		}
	case "replay":
		data, _ := os.ReadFile(*casef)
		var wrap struct {
			Case json.RawMessage `json:"case"`
		}
		json.Unmarshal(data, &wrap)
		var probe struct {
			Kind string `json:"kind"`
		}
		json.Unmarshal(wrap.Case, &probe)
		if probe.Kind == "rd" {
			var c rdCase
			json.Unmarshal(wrap.Case, &c)
			c.ID = 0
			rds = append(rds, &c)
		} else if probe.Kind == "fe" {
			// concurrent reads: several chances
			for i := 0; i < 5; i++ {
				var c feCase
				json.Unmarshal(wrap.Case, &c)
				c.ID = i
				fes = append(fes, &c)
			}
		} else if probe.Kind == "lv" {
			for i := 0; i < 5; i++ {
				var c lvCase
				json.Unmarshal(wrap.Case, &c)
				c.Reads, c.LeftPrios, c.LeftReader = nil, 0, 0
				c.ID = i
				lvs = append(lvs, &c)
			}
		} else if probe.Kind == "rq" {
			var c rqCase
			json.Unmarshal(wrap.Case, &c)
			c.ID = 0
			rqs = append(rqs, &c)
		} else {
			// a race is a race: give it several chances
			for i := 0; i < 20; i++ {
				var c scenario
				json.Unmarshal(wrap.Case, &c)
				c.Audits, c.Waiters, c.Haves = nil, nil, nil
				c.ID = i
				scs = append(scs, &c)
			}
		}
	}
	var terms, rterms []string
	ops := map[string]int{}
	distinct := map[string]bool{}
	naudits := 0
	for _, c := range rqs {
		runRq(c)
		rterms = append(rterms, rqTerm(c))
		for _, o := range c.Ops {
			ops["rq/"+o.Op]++
			distinct[fmt.Sprintf("rq/%d/%v/%v", c.ID, o.Snap, o.Closed)] = true
		}
		naudits += len(c.Ops)
	}
	var rdterms, lvterms []string
	for _, c := range rds {
		func() {
			// a crash of the code under test is a violation on this case, not a harness failure
			defer func() {
				if x := recover(); x != nil {
					fmt.Printf("HARNESS-VIOLATION %d panic in Reader: %v\n", c.ID, x)
				}
			}()
			runRd(c)
		}()
		rdterms = append(rdterms, rdTerm(c))
		for _, o := range c.Ops {
			ops["rd/"+o.Op]++
			distinct[fmt.Sprintf("rd/%d/%d/%d/%d", c.ID, o.Res, o.Err, o.Pos)] = true
		}
		naudits += len(c.Ops)
	}
	var feterms []string
	if len(fes) > 0 {
		mux := feMux()
		for _, c := range fes {
			func() {
				defer func() {
					if x := recover(); x != nil {
						fmt.Printf("HARNESS-VIOLATION %d panic in a front-end read: %v\n", c.ID, x)
					}
				}()
				runFe(c, mux)
			}()
			feterms = append(feterms, feTerm(c))
			for _, q := range c.Reqs {
				ops["fe/"+q.Via+"/"+q.Spec]++
				distinct[fmt.Sprintf("fe/%d/%d/%d/%d", c.ID, q.Status, q.Start, q.Cnt)] = true
			}
			naudits += len(c.Reqs)
		}
	}
	for _, c := range lvs {
		runLv(c)
		lvterms = append(lvterms, lvTerm(c))
		ops["lv/"+c.Mode]++
		naudits += len(c.Reads)
		distinct[fmt.Sprintf("lv/%d/%v", c.ID, c.Reads)] = true
	}
	for _, sc := range scs {
		s := newSwarm(sc)
		s.run()
		if sc.Prop == "C10" {
			terms = append(terms, wTerm(sc))
		} else {
			terms = append(terms, term(sc))
		}
		for _, st := range sc.Steps {
			ops[st.Op]++
			if st.Op == "serve" {
				ops["serve/"+st.Mode]++
			}
		}
		naudits += len(sc.Audits)
		for _, a := range sc.Audits {
			distinct[fmt.Sprintf("%d/%v/%v/%d/%v/%v", sc.ID, a.InFlight, a.Avail, a.Peers, a.Closed, a.Requested)] = true
		}
		if sc.Prop == "C10" {
			ops["waiters"] += len(sc.Waiters)
			ops["verified"] += len(sc.Haves)
		}
	}
	jf, _ := os.Create(filepath.Join(*out, "cases.jsonl"))
	for _, c := range rqs {
		b, _ := json.Marshal(c)
		jf.Write(append(b, '\n'))
	}
	for _, sc := range scs {
		b, _ := json.Marshal(sc)
		jf.Write(append(b, '\n'))
	}
	for _, c := range rds {
		b, _ := json.Marshal(c)
		jf.Write(append(b, '\n'))
	}
	for _, c := range lvs {
		b, _ := json.Marshal(c)
		jf.Write(append(b, '\n'))
	}
	for _, c := range fes {
		b, _ := json.Marshal(c)
		jf.Write(append(b, '\n'))
	}
	jf.Close()
	nshard := 0
	writeShards := func(terms []string, per int, header, typ, defs string) {
		for i := 0; i < len(terms); i += per {
			j := i + per
			if j > len(terms) {
				j = len(terms)
			}
			var sb bytes.Buffer
			sb.WriteString(header)
			sb.WriteString("Definition cases : list " + typ + " := [\n" + strings.Join(terms[i:j], ";\n") + "\n].\n")
			sb.WriteString(defs)
			os.WriteFile(filepath.Join(*out, fmt.Sprintf("shard%03d.v", nshard)), sb.Bytes(), 0o644)
			nshard++
		}
	}
	if *prop == "C02" {
		h := "From Storrent Require Import Base.Bytes Model.Reader Check.ReaderCheck.\nOpen Scope Z_scope.\n"
		writeShards(rdterms, 12, h, "rdcase", "Definition BC := Eval vm_compute in bad_corr_rd cases.\nDefinition BM := Eval vm_compute in bad_monitor_rd cases.\nPrint BC. Print BM.\n")
		writeShards(lvterms, 20, h, "lvcase", "Definition BM := Eval vm_compute in bad_monitor_lv cases.\nPrint BM.\n")
		writeShards(feterms, 20, h, "fecase", "Definition BC := Eval vm_compute in bad_corr_fe cases.\nDefinition BM := Eval vm_compute in bad_monitor_fe cases.\nPrint BC. Print BM.\n")
	} else if *prop == "C10" {
		h := "From Storrent Require Import Base.Bytes Model.Requested Check.RequestedCheck.\nOpen Scope N_scope.\n"
		writeShards(rterms, 10, h, "rqcase", "Definition BC := Eval vm_compute in bad_corr_rq cases.\nDefinition BM := Eval vm_compute in bad_monitor_rq cases.\nPrint BC. Print BM.\n")
		writeShards(terms, 8, h, "wcase", "Definition BM := Eval vm_compute in bad_monitor_w cases.\nPrint BM.\n")
	} else {
		writeShards(terms, 8, "From Storrent Require Import Base.Bytes Model.Sched Check.SchedCheck.\nOpen Scope N_scope.\n", "scase",
			"Definition BC := Eval vm_compute in bad_corr09 cases.\nDefinition BM := Eval vm_compute in bad_monitor09 cases.\nPrint BC. Print BM.\n")
	}
	var samples []interface{}
	for i, sc := range scs {
		if i%37 == 1 || len(scs) < 4 {
			samples = append(samples, sc)
		}
	}
	for i, c := range rqs {
		if i%41 == 1 {
			samples = append(samples, c)
		}
	}
	rule := "one evaluation = one audit of Torrent.inFlight / Torrent.available against the requests held and pieces advertised by the connected peers, at a quiescent point of a scenario run on the real event handler with real peer goroutines and scripted remote peers; distinct = new (scenario, counters, number of peers)"
	if *prop == "C02" {
		rule = "one evaluation = one Seek or Read on a real tor.Reader over a fully available torrent (result, error, position and the bytes compared with the torrent's content), or one HTTP request (with or without a Range header, through the real handler: status, Content-Range and body against the file's content) or FUSE read (several at once on one handle) on a real multi-file torrent, or one Read of a liveness scenario (honest seed connected, pieces evicted between reads, context cancelled, torrent deleted, reader closed) with a 6 s watchdog; distinct = new (case, result, error, position)"
	}
	if *prop == "C10" {
		rule = "one evaluation = one operation on a real tor.Requested (return values, entries and the closed state of every channel handed out compared with the model), or one audit at a quiescent point of a scenario on the real event handler (which waiting consumers have been woken, which pieces are verified, Torrent.requested against the priorities the consumers hold); distinct = new (case, entries, closed channels)"
	}
	meta := map[string]interface{}{
		"evaluations":         naudits,
		"distinct_nontrivial": len(distinct),
		"rule":                rule,
		"scenarios":           len(scs),
		"sequences":           len(rqs),
		"ops":                 ops,
		"samples":             samples,
		"shards":              nshard,
	}
	b, _ := json.MarshalIndent(meta, "", " ")
	os.WriteFile(filepath.Join(*out, "meta.json"), b, 0o644)
}

func pipeNew() (*pipe.End, *pipe.End) { return pipe.New() }

func lcMain(mode string, out *string, n *int, casef *string, r *rand.Rand) {
	var cases []*lcCase
	switch mode {
	case "gen":
		for i := 0; i < *n; i++ {
			cases = append(cases, genLc(r, i))
		}
	case "replay":
		data, _ := os.ReadFile(*casef)
		var wrap struct {
			Case lcCase `json:"case"`
		}
		json.Unmarshal(data, &wrap)
		for i := 0; i < 3; i++ {
			c := wrap.Case
			c.Calls = nil
			cases = append(cases, &c)
		}
	}
	var terms []string
	kinds := map[string]int{}
	distinct := map[string]bool{}
	evals := 0
	for _, c := range cases {
		runLc(c)
		terms = append(terms, lcTerm(c))
		kinds[c.Point]++
		for _, x := range c.Calls {
			kinds[x.Name+"/"+x.Result]++
			distinct[fmt.Sprintf("%s/%s/%s/%d", c.Point, x.Name, x.Result, c.Peers)] = true
		}
		evals += len(c.Calls) + 1
	}
	jf, _ := os.Create(filepath.Join(*out, "cases.jsonl"))
	for _, c := range cases {
		b, _ := json.Marshal(c)
		jf.Write(append(b, '\n'))
	}
	jf.Close()
	var sb bytes.Buffer
	sb.WriteString("From Coq Require Import String.\nFrom Storrent Require Import Base.Bytes Check.LifecycleCheck.\nOpen Scope N_scope.\n")
	sb.WriteString("Definition cases : list lccase := [\n" + strings.Join(terms, ";\n") + "\n].\n")
	sb.WriteString("Definition BM := Eval vm_compute in bad_monitor_lc cases.\nPrint BM.\n")
	os.WriteFile(filepath.Join(*out, "shard000.v"), sb.Bytes(), 0o644)
	meta := map[string]interface{}{
		"evaluations":         evals,
		"distinct_nontrivial": len(distinct),
		"rule":                "one evaluation = one call of an exported operation of a running torrent (real main loop, real peers) issued before, concurrently with, or queued behind the torrent's deletion, with a 5 s watchdog; plus one audit of what is left after each deletion (listing, peer connections, readers, memory, goroutines); distinct = new (stop point, operation, outcome, number of peers)",
		"kinds":               kinds,
		"samples":             cases[:min(3, len(cases))],
		"shards":              1,
	}
	b, _ := json.MarshalIndent(meta, "", " ")
	os.WriteFile(filepath.Join(*out, "meta.json"), b, 0o644)
}
