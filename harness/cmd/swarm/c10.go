package main

import (
	"fmt"
	"math/rand"
	"sort"
	"strings"

	"github.com/jech/storrent/tor"

	"verifharness/internal/cq"
)

// ---------- operation sequences on a real tor.Requested ----------

type rqOp struct {
	Op    string `json:"op"` // add del done delidle delidlepiece
	Index int    `json:"index"`
	Prio  int    `json:"prio"`
	Want  bool   `json:"want"`
	// observed
	Ch     int      `json:"ch"` // channel returned by Add (-1: nil)
	Flag   bool     `json:"flag"`
	Panic  bool     `json:"panic"`
	Snap   []reqObs `json:"snap"`
	Closed []int    `json:"closed"`
}

type rqCase struct {
	ID   int    `json:"id"`
	Kind string `json:"kind"`
	Keys int    `json:"keys"`
	Ops  []rqOp `json:"ops"`
}

func runRq(c *rqCase) {
	rs := tor.VerifNewRequested()
	chans := map[<-chan struct{}]int{}
	var order []<-chan struct{}
	for k := range c.Ops {
		op := &c.Ops[k]
		op.Ch = -1
		func() {
			defer func() {
				if e := recover(); e != nil {
					op.Panic = true
				}
			}()
			switch op.Op {
			case "add":
				ch, added := rs.Add(uint32(op.Index), int8(op.Prio), op.Want)
				op.Flag = added
				if ch != nil {
					id, ok := chans[ch]
					if !ok {
						id = len(order)
						chans[ch] = id
						order = append(order, ch)
					}
					op.Ch = id
				}
			case "del":
				op.Flag = rs.Del(uint32(op.Index), int8(op.Prio))
			case "done":
				rs.Done(uint32(op.Index))
			case "delidle":
				rs.DelIdle()
			case "delidlepiece":
				rs.DelIdlePiece(uint32(op.Index))
			}
		}()
		for _, r := range rs.VerifSnapshot() {
			o := reqObs{Index: int(r.Index), Waiting: r.Waiting, Prio: []int{}}
			for _, p := range r.Prio {
				o.Prio = append(o.Prio, int(p))
			}
			op.Snap = append(op.Snap, o)
		}
		op.Closed = []int{}
		for id, ch := range order {
			select {
			case <-ch:
				op.Closed = append(op.Closed, id)
			default:
			}
		}
	}
}

func genRq(r *rand.Rand, id int) *rqCase {
	c := &rqCase{ID: id, Kind: "rq", Keys: 2 + r.Intn(4)}
	var held [][2]int
	n := 5 + r.Intn(25)
	for k := 0; k < n; k++ {
		i := r.Intn(c.Keys)
		switch x := r.Intn(12); {
		case x < 5:
			p := pick(r, 1, 1, 0, -1, -128, 5)
			c.Ops = append(c.Ops, rqOp{Op: "add", Index: i, Prio: p, Want: r.Intn(2) == 0})
			if p > -128 {
				held = append(held, [2]int{i, p})
			}
		case x < 8:
			if len(held) > 0 && r.Intn(5) > 0 {
				j := r.Intn(len(held))
				c.Ops = append(c.Ops, rqOp{Op: "del", Index: held[j][0], Prio: held[j][1]})
				held = append(held[:j], held[j+1:]...)
			} else {
				// a priority nobody holds
				c.Ops = append(c.Ops, rqOp{Op: "del", Index: i, Prio: pick(r, 1, 0, -1, 7)})
			}
		case x < 10:
			c.Ops = append(c.Ops, rqOp{Op: "done", Index: i})
		case x < 11:
			c.Ops = append(c.Ops, rqOp{Op: "delidle"})
		default:
			c.Ops = append(c.Ops, rqOp{Op: "delidlepiece", Index: i})
		}
	}
	return c
}

func zlist(v []int) string {
	s := make([]string, len(v))
	for i, x := range v {
		s[i] = fmt.Sprintf("(%d)%%Z", x)
	}
	return "[" + strings.Join(s, ";") + "]"
}

func snapTerm(sn []reqObs) string {
	var es []string
	for _, e := range sn {
		es = append(es, fmt.Sprintf("(%d, %s, %s)", e.Index, zlist(e.Prio), cq.Bool(e.Waiting)))
	}
	return "[" + strings.Join(es, ";") + "]"
}

func rqTerm(c *rqCase) string {
	var keys []int
	for i := 0; i < c.Keys; i++ {
		keys = append(keys, i)
	}
	var ops []string
	for _, o := range c.Ops {
		var k string
		switch o.Op {
		case "add":
			k = fmt.Sprintf("(RAdd %d (%d)%%Z %s)", o.Index, o.Prio, cq.Bool(o.Want))
		case "del":
			k = fmt.Sprintf("(RDel %d (%d)%%Z)", o.Index, o.Prio)
		case "done":
			k = fmt.Sprintf("(RDone %d)", o.Index)
		case "delidle":
			k = "RDelIdle"
		case "delidlepiece":
			k = fmt.Sprintf("(RDelIdlePiece %d)", o.Index)
		}
		ch := "None"
		if o.Ch >= 0 {
			ch = fmt.Sprintf("(Some %d)", o.Ch)
		}
		ops = append(ops, fmt.Sprintf("mk_rqobs %s %s %s %s %s %s", k, ch, cq.Bool(o.Flag), snapTerm(o.Snap), ints(o.Closed), cq.Bool(o.Panic)))
	}
	return fmt.Sprintf("mk_rqcase %d %s [\n   %s]", c.ID, ints(keys), strings.Join(ops, ";\n   "))
}

// ---------- consumers of a real torrent ----------

func genWaiters(r *rand.Rand, id int) *scenario {
	sc := &scenario{ID: id, Prop: "C10"}
	sc.Psize = pick(r, 16384, 32768)
	np := 2 + r.Intn(4)
	sc.Total = int64(sc.Psize)*int64(np-1) + int64(pick(r, 100, 16384, sc.Psize))
	add := func(st step) { sc.Steps = append(sc.Steps, st) }
	npeers := 1 + r.Intn(2)
	for p := 0; p < npeers; p++ {
		add(step{Op: "join", Peer: p, All: true, Fast: r.Intn(2) == 0})
		add(step{Op: "unchoke", Peer: p})
	}
	var held [][2]int
	n := 8 + r.Intn(16)
	for k := 0; k < n; k++ {
		switch x := r.Intn(16); {
		case x < 5:
			st := step{Op: "want", Piece: r.Intn(np), Prio: pick(r, 1, 1, 0, -1), Wait: r.Intn(4) > 0}
			add(st)
			held = append(held, [2]int{st.Piece, st.Prio})
		case x < 8:
			if len(held) > 0 {
				j := r.Intn(len(held))
				add(step{Op: "unwant", Piece: held[j][0], Prio: held[j][1]})
				held = append(held[:j], held[j+1:]...)
			}
		case x < 11:
			add(step{Op: "tick"})
			add(step{Op: "serve", Peer: r.Intn(npeers), N: 1 + r.Intn(8), Mode: []string{"good", "good", "good", "good", "corrupt", "reject"}[r.Intn(6)]})
		case x < 12:
			add(step{Op: "evictall"})
		case x < 14:
			// everything outstanding is delivered
			for q := 0; q < 3; q++ {
				add(step{Op: "tick"})
				for p := 0; p < npeers; p++ {
					add(step{Op: "serve", Peer: p, N: 16, Mode: "good"})
				}
			}
		default:
			// a request that raced with the piece's completion: the consumer saw it incomplete
			add(step{Op: "want", Piece: r.Intn(np), Prio: 1, Wait: true})
			held = append(held, [2]int{sc.Steps[len(sc.Steps)-1].Piece, 1})
		}
	}
	return sc
}

func wTerm(sc *scenario) string {
	var ws []string
	for _, w := range sc.Waiters {
		ws = append(ws, fmt.Sprintf("(%d,%d,%d,%d)", w.ID, w.Piece, w.Seq, w.Abandon))
	}
	var hs []string
	for _, h := range sc.Haves {
		hs = append(hs, fmt.Sprintf("(%d,%d)", h[0], h[1]))
	}
	var as []string
	for _, a := range sc.Audits {
		var wanted []string
		for _, w := range a.Wanted {
			wanted = append(wanted, fmt.Sprintf("(%d,(%d)%%Z)", w[0], w[1]))
		}
		sort.Ints(a.Closed)
		as = append(as, fmt.Sprintf("mk_waud %d %s %s %s [%s]", a.Seq, ints(a.Closed), ints(a.Complete), snapTerm(a.Requested), strings.Join(wanted, ";")))
	}
	np := (sc.Total + int64(sc.Psize) - 1) / int64(sc.Psize)
	return fmt.Sprintf("mk_wcase %d %d [%s] [%s] [\n   %s]", sc.ID, np, strings.Join(ws, ";"), strings.Join(hs, ";"), strings.Join(as, ";\n   "))
}
