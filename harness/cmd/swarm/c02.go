package main

import (
	"bytes"
	"context"
	"errors"
	"fmt"
	"io"
	"math/rand"
	"net"
	"strings"
	"sync"
	"time"

	"github.com/jech/storrent/hash"
	"github.com/jech/storrent/peer"
	"github.com/jech/storrent/protocol"
	"github.com/jech/storrent/tor"

	"verifharness/internal/cq"
)

// ---------- seek/read sequences on a Reader over a fully available torrent ----------

type rdOp struct {
	Op     string `json:"op"` // seek read close
	Off    int64  `json:"off"`
	Whence int    `json:"whence"`
	N      int    `json:"n"`
	// observed
	Res    int64 `json:"res"`
	Err    int   `json:"err"`
	Pos    int64 `json:"pos"`
	DataOK bool  `json:"data_ok"`
}

type rdCase struct {
	ID     int    `json:"id"`
	Kind   string `json:"kind"`
	Psize  int    `json:"psize"`
	Total  int64  `json:"total"`
	Offset int64  `json:"offset"`
	Length int64  `json:"length"`
	Ops    []rdOp `json:"ops"`
}

// fill stores and verifies every piece of the torrent.
func (s *swarm) fill() {
	np := s.npieces()
	for i := 0; i < np; i++ {
		o := int64(i) * int64(s.sc.Psize)
		e := o + int64(s.sc.Psize)
		if e > s.sc.Total {
			e = s.sc.Total
		}
		if _, _, err := s.t.Pieces.AddData(uint32(i), 0, s.content[o:e], ^uint32(0)); err != nil {
			panic(err)
		}
		done, _, err := s.t.Pieces.Finalise(uint32(i), hash.Hash(s.t.PieceHashes[i]))
		if !done || err != nil {
			panic(fmt.Sprintf("finalise: %v %v", done, err))
		}
	}
}

func errClass(err error) int {
	switch {
	case err == nil:
		return 0
	case err == io.EOF:
		return 1
	case errors.Is(err, net.ErrClosed):
		return 2
	case errors.Is(err, context.Canceled), errors.Is(err, context.DeadlineExceeded):
		return 4
	case errors.Is(err, tor.ErrTorrentDead):
		return 5
	}
	return 3
}

func runRd(c *rdCase) {
	sc := &scenario{ID: c.ID, Psize: c.Psize, Total: c.Total}
	s := newSwarm(sc)
	s.fill()
	r := s.t.NewReader(context.Background(), c.Offset, c.Length)
	pos := int64(0)
	closed := false
	for k := range c.Ops {
		op := &c.Ops[k]
		switch op.Op {
		case "seek":
			p, err := r.Seek(op.Off, op.Whence)
			op.Res, op.Err = p, errClass(err)
			if err != nil {
				op.Res = -1
			}
		case "read":
			buf := make([]byte, op.N)
			n, err := r.Read(buf)
			op.Res, op.Err = int64(n), errClass(err)
			a := c.Offset + pos
			op.DataOK = n == 0 || (a >= 0 && a+int64(n) <= c.Total && bytes.Equal(buf[:n], s.content[a:a+int64(n)]))
		case "close":
			r.Close()
			closed = true
		}
		if !closed {
			pos, _ = r.Seek(0, io.SeekCurrent)
		}
		op.Pos = pos
	}
	s.cancel()
	s.t.VerifFinish()
}

func genRd(r *rand.Rand, id int) *rdCase {
	c := &rdCase{ID: id, Kind: "rd", Psize: pick(r, 16384, 32768)}
	np := 1 + r.Intn(5)
	c.Total = int64(c.Psize)*int64(np-1) + int64(pick(r, 1, 100, 16383, 16384, 16385, c.Psize))
	c.Offset = r.Int63n(c.Total)
	if r.Intn(4) == 0 {
		c.Offset = int64(pick(r, 0, c.Psize, c.Psize-1))
		if c.Offset >= c.Total {
			c.Offset = 0
		}
	}
	c.Length = 1 + r.Int63n(c.Total-c.Offset)
	if r.Intn(3) == 0 {
		c.Length = c.Total - c.Offset
	}
	n := 4 + r.Intn(20)
	for k := 0; k < n; k++ {
		switch x := r.Intn(10); {
		case x < 6:
			c.Ops = append(c.Ops, rdOp{Op: "read", N: pick(r, 0, 1, 7, 100, 4096, c.Psize-1, c.Psize, c.Psize+1, 3*c.Psize, 200000)})
		case x < 9:
			w := r.Intn(3)
			var off int64
			switch w {
			case 0:
				off = r.Int63n(c.Length+10) - 3
			case 1:
				off = r.Int63n(2*int64(c.Psize)) - int64(c.Psize)
			case 2:
				off = -r.Int63n(c.Length + 5)
			}
			c.Ops = append(c.Ops, rdOp{Op: "seek", Off: off, Whence: w})
		default:
			if r.Intn(4) == 0 {
				c.Ops = append(c.Ops, rdOp{Op: "close"})
			} else {
				c.Ops = append(c.Ops, rdOp{Op: "seek", Off: c.Length - int64(r.Intn(3)), Whence: 0})
			}
		}
	}
	return c
}

func rdTerm(c *rdCase) string {
	var ops []string
	for _, o := range c.Ops {
		var k string
		switch o.Op {
		case "seek":
			k = fmt.Sprintf("(OSeek (%d) %s)", o.Off, []string{"SeekStart", "SeekCurrent", "SeekEnd"}[o.Whence])
		case "read":
			k = fmt.Sprintf("(ORead %d)", o.N)
		case "close":
			k = "OClose"
		}
		ops = append(ops, fmt.Sprintf("mk_rdobs %s (%d) %d (%d) %s", k, o.Res, o.Err, o.Pos, cq.Bool(o.DataOK)))
	}
	return fmt.Sprintf("mk_rdcase %d %d %d %d %d [\n   %s]", c.ID, c.Psize, c.Total, c.Offset, c.Length, strings.Join(ops, ";\n   "))
}

// ---------- liveness: blocked reads, eviction, cancellation, deletion ----------

type lvRead struct {
	Expect int   `json:"expect"`
	Got    int   `json:"got"`
	OK     bool  `json:"ok"`
	Millis int64 `json:"millis"`
}

type lvCase struct {
	ID    int      `json:"id"`
	Kind  string   `json:"kind"`
	Mode  string   `json:"mode"` // evict cancel kill close eof
	Prefilled bool `json:"prefilled,omitempty"` // evict: everything is already in memory when the reader first asks
	Psize int      `json:"psize"`
	Total int64    `json:"total"`
	Off   int64    `json:"off"`
	Len   int64    `json:"len"`
	Seek  int64    `json:"seek"`
	Buf   int      `json:"buf"`
	Reads []lvRead `json:"reads"`
	LeftPrios  int `json:"left_prios"`
	LeftReader int `json:"left_reader"`
}

// live is a swarm whose torrent loop, request ticker and honest seed run by themselves.
type live struct {
	*swarm
	mu   sync.Mutex
	stop chan struct{}
	wg   sync.WaitGroup
}

func newLive(sc *scenario, seeds int) *live {
	l := &live{swarm: newSwarm(sc), stop: make(chan struct{})}
	for p := 0; p < seeds; p++ {
		l.join(step{Op: "join", Peer: p, All: true, Fast: p%2 == 0})
		l.remotes[p].send(protocol.Unchoke{})
	}
	l.wg.Add(1)
	go func() {
		defer l.wg.Done()
		tk := time.NewTicker(2 * time.Millisecond)
		defer tk.Stop()
		for {
			select {
			case <-l.stop:
				return
			case e := <-l.t.Event:
				l.mu.Lock()
				l.handle(e)
				l.mu.Unlock()
			case <-tk.C:
				l.mu.Lock()
				l.pump()
				l.tick()
				for _, r := range l.remotes {
					l.serve(step{Peer: r.idx, N: 64, Mode: "good"})
				}
				l.mu.Unlock()
			}
		}
	}()
	return l
}

func (l *live) halt() {
	close(l.stop)
	l.wg.Wait()
}

// read performs one Read with a watchdog.
func (l *live) read(c *lvCase, r *tor.Reader, pos *int64, buf int, expect int) {
	type res struct {
		n   int
		err error
		b   []byte
	}
	ch := make(chan res, 1)
	t0 := time.Now()
	go func() {
		b := make([]byte, buf)
		defer func() {
			if x := recover(); x != nil {
				ch <- res{0, fmt.Errorf("panic in Read: %v", x), b} // class 3: never expected
			}
		}()
		n, err := r.Read(b)
		ch <- res{n, err, b}
	}()
	out := lvRead{Expect: expect}
	select {
	case x := <-ch:
		out.Got = errClass(x.err)
		a := c.Off + *pos
		out.OK = x.n == 0 || bytes.Equal(x.b[:x.n], l.content[a:a+int64(x.n)])
		if out.Got == 0 && x.n == 0 && buf > 0 {
			out.OK = false // no data and no error
		}
		if out.Got == 1 && x.n > 0 {
			out.Got = 0 // data together with EOF
		}
		*pos += int64(x.n)
	case <-time.After(6 * time.Second):
		out.Got = 9
	}
	out.Millis = time.Since(t0).Milliseconds()
	c.Reads = append(c.Reads, out)
}

func runLv(c *lvCase) {
	sc := &scenario{ID: c.ID, Psize: c.Psize, Total: c.Total}
	seeds := 1
	if c.Mode == "cancel" || c.Mode == "kill" {
		seeds = 0 // nobody can provide the data: the read blocks
	}
	l := newLive(sc, seeds)
	ctx, cancel := context.WithCancel(context.Background())
	r := l.t.NewReader(ctx, c.Off, c.Len)
	pos := c.Seek
	r.Seek(c.Seek, io.SeekStart)
	dead := false
	switch c.Mode {
	case "evict":
		exp := func() int {
			if pos >= c.Len {
				return 1
			}
			return 0
		}
		evict := func() {
			l.mu.Lock()
			l.t.Pieces.Expire(0, nil, func(index uint32) { l.handle(peer.TorHave{Index: index, Have: false}) })
			l.mu.Unlock()
		}
		if c.Prefilled {
			l.mu.Lock()
			l.fill()
			l.mu.Unlock()
		}
		l.read(c, r, &pos, c.Buf, exp())
		evict()
		l.read(c, r, &pos, c.Buf, exp())
		// the same place again, evicted once more
		r.Seek(c.Seek, io.SeekStart)
		pos = c.Seek
		evict()
		l.read(c, r, &pos, c.Buf, exp())
		r.Close()
	case "cancel":
		go func() { time.Sleep(30 * time.Millisecond); cancel() }()
		l.read(c, r, &pos, c.Buf, 4)
		r.Close()
	case "kill":
		go func() {
			time.Sleep(30 * time.Millisecond)
			l.mu.Lock()
			l.t.VerifFinish()
			dead = true
			l.mu.Unlock()
		}()
		l.read(c, r, &pos, c.Buf, 5)
	case "close":
		l.read(c, r, &pos, c.Buf, 0)
		r.Close()
	case "eof":
		if c.Buf < 4096 {
			c.Buf = 4096
		}
		for pos < c.Len {
			before := len(c.Reads)
			l.read(c, r, &pos, c.Buf, 0)
			if c.Reads[before].Got != 0 || len(c.Reads) > 60 {
				break
			}
		}
		l.read(c, r, &pos, c.Buf, 1)
	}
	cancel()
	time.Sleep(15 * time.Millisecond)
	l.halt()
	if !dead {
		l.pump()
		for _, e := range l.t.VerifRequested() {
			c.LeftPrios += len(e.Prio)
		}
	}
	c.LeftReader = len(r.VerifRequested())
	if c.Mode == "kill" {
		c.LeftReader = 0 // the torrent is gone; there is nobody to withdraw from
	}
	for _, rm := range l.remotes {
		rm.e.Close()
	}
	if !dead {
		l.cancel()
		l.t.VerifFinish()
	}
}

func genLv(r *rand.Rand, id int) *lvCase {
	c := &lvCase{ID: id, Kind: "lv", Psize: pick(r, 16384, 32768)}
	np := 2 + r.Intn(4)
	c.Total = int64(c.Psize)*int64(np-1) + int64(pick(r, 100, 16384, c.Psize))
	c.Mode = []string{"evict", "evict", "cancel", "kill", "close", "close", "eof"}[r.Intn(7)]
	c.Off = int64(pick(r, 0, 0, 1, c.Psize, c.Psize+5))
	if c.Off >= c.Total {
		c.Off = 0
	}
	c.Len = c.Total - c.Off
	if r.Intn(2) == 0 && c.Len > 10 {
		c.Len = 1 + r.Int63n(c.Len)
	}
	c.Seek = 0
	if r.Intn(3) == 0 {
		c.Seek = r.Int63n(c.Len)
	}
	c.Buf = pick(r, 1, 100, 4096, c.Psize, 3*c.Psize)
	c.Prefilled = c.Mode == "evict" && r.Intn(2) == 0
	return c
}

func lvTerm(c *lvCase) string {
	var rs []string
	for _, x := range c.Reads {
		rs = append(rs, fmt.Sprintf("mk_lvread %d %d %s", x.Expect, x.Got, cq.Bool(x.OK)))
	}
	return fmt.Sprintf("mk_lvcase %d [%s] %d %d", c.ID, strings.Join(rs, "; "), c.LeftPrios, c.LeftReader)
}
