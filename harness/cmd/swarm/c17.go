package main

import (
	"context"
	"fmt"
	"io"
	"math/rand"
	"net/netip"
	"runtime"
	"strings"
	"sync"
	"time"

	"github.com/jech/storrent/alloc"
	"github.com/jech/storrent/known"
	"github.com/jech/storrent/peer"
	"github.com/jech/storrent/protocol"
	"github.com/jech/storrent/tor"

	"verifharness/internal/cq"
)

// C17: every operation on a torrent returns, however it interleaves with the torrent's
// deletion; after deletion nothing is left.  The torrent runs its real main loop (AddTorrent).

var apiNames = []string{"GetStats", "GetAvailable", "DropPeer", "GetPeer", "GetPeers", "GetKnown", "GetKnowns",
	"Have", "GetConf", "SetConf", "AddKnown", "BadPeer", "NewPeer", "Request", "Announce", "Read", "Kill"}

type apiCall struct {
	Name   string `json:"name"`
	Point  string `json:"point"` // before: the loop has stopped; queued: the event sits behind the deletion; during: concurrently
	Result string `json:"result"` // ok | dead | err | hang
	Millis int64  `json:"millis"`
}

type lcCase struct {
	ID      int       `json:"id"`
	Kind    string    `json:"kind"`
	Point   string    `json:"point"`
	Peers   int       `json:"peers"`
	Backlog int       `json:"backlog"` // events queued behind the deletion
	Calls   []apiCall `json:"calls"`
	// after deletion
	Listed      bool  `json:"listed"`
	OpenConns   int   `json:"open_conns"`
	ReaderHangs int   `json:"reader_hangs"`
	LeftBytes   int64 `json:"left_bytes"`
	LeftGo      int   `json:"left_goroutines"`
	LeftUnchoking int `json:"left_unchoking"` // upload slots still counted as taken after everybody is gone
	Unchoked    int   `json:"unchoked"`       // peers that were unchoked when the torrent was deleted
	KillResult  string `json:"kill_result"`
}

func classify(err error) string {
	switch {
	case err == nil:
		return "ok"
	case strings.Contains(err.Error(), "dead"):
		return "dead"
	}
	return "err"
}

// callAPI performs one operation; the result is reported through the channel.
func callAPI(t *tor.Torrent, s *swarm, name string, n int) string {
	switch name {
	case "GetStats":
		_, err := t.GetStats()
		return classify(err)
	case "GetAvailable":
		_, err := t.GetAvailable()
		return classify(err)
	case "DropPeer":
		_, err := t.DropPeer()
		return classify(err)
	case "GetPeer":
		_, err := t.GetPeer(t.MyId)
		return classify(err)
	case "GetPeers":
		_, err := t.GetPeers()
		return classify(err)
	case "GetKnown":
		_, err := t.GetKnown(nil, netip.MustParseAddrPort("10.1.1.1:6881"))
		return classify(err)
	case "GetKnowns":
		_, err := t.GetKnowns()
		return classify(err)
	case "Have":
		return classify(t.Have(0, true))
	case "GetConf":
		_, err := t.GetConf()
		return classify(err)
	case "SetConf":
		return classify(t.SetConf(peer.TorConf{}))
	case "AddKnown":
		return classify(t.AddKnown(netip.MustParseAddrPort("10.1.1.2:6881"), nil, "", known.Seen))
	case "BadPeer":
		return classify(t.BadPeer(12345, true))
	case "NewPeer":
		a, b := pipeNew()
		go io.Copy(io.Discard, b)
		id := make([]byte, 20)
		copy(id, fmt.Sprintf("-NP%04d-%010d", n, s.sc.ID))
		err := t.NewPeer("", a, netip.MustParseAddrPort("10.2.0.1:7000"), false, protocol.HandshakeResult{Hash: t.Hash, Id: id}, nil)
		b.Close()
		return classify(err)
	case "Request":
		_, _, err := t.Request(uint32(n%s.npieces()), 1, true, true)
		return classify(err)
	case "Announce":
		return classify(tor.Announce(t.Hash, false))
	case "Read":
		r := t.NewReader(context.Background(), 0, s.sc.Total)
		_, err := r.Read(make([]byte, 100))
		r.Close()
		return classify(err)
	case "Kill":
		ctx, cancel := context.WithTimeout(context.Background(), 4*time.Second)
		defer cancel()
		return classify(t.Kill(ctx))
	}
	return "err"
}

func runLc(c *lcCase) {
	sc := &scenario{ID: c.ID, Psize: 32768, Total: 32768*3 + 100}
	s := newSwarm(sc)
	baseGo := runtime.NumGoroutine()
	baseBytes := alloc.Bytes()
	baseUnchoking := peer.NumUnchoking()
	ctx, cancel := context.WithCancel(context.Background())
	defer cancel()
	t, err := tor.AddTorrent(ctx, s.t)
	if err != nil {
		panic(err)
	}
	s.t = t
	// some peers, a verified piece, a blocked reader
	var remotes []interface{ Close() error }
	type rem struct {
		closed chan struct{}
	}
	var rems []*rem
	for p := 0; p < c.Peers; p++ {
		a, b := pipeNew()
		id := make([]byte, 20)
		copy(id, fmt.Sprintf("-LC%04d-%010d", p, c.ID))
		rm := &rem{closed: make(chan struct{})}
		rems = append(rems, rm)
		go func() {
			io.Copy(io.Discard, b) // returns when storrent closes its end
			close(rm.closed)
		}()
		remotes = append(remotes, b)
		b.Write([]byte{0, 0, 0, 1, 2}) // interested: we may unchoke it
		t.NewPeer("", a, netip.AddrPortFrom(netip.AddrFrom4([4]byte{10, 3, byte(p >> 8), byte(p)}), uint16(7000+p)), false,
			protocol.HandshakeResult{Hash: t.Hash, Id: id, Fast: p%2 == 0}, nil)
	}
	t.Pieces.AddData(0, 0, s.content[:32768], 1)
	t.Pieces.Finalise(0, t.PieceHashes[0])
	time.Sleep(5 * time.Millisecond)
	c.Unchoked = peer.NumUnchoking() - baseUnchoking
	readerDone := make(chan string, 1)
	go func() {
		r := t.NewReader(context.Background(), 40000, 1000)
		_, err := r.Read(make([]byte, 10))
		readerDone <- classify(err)
	}()
	time.Sleep(3 * time.Millisecond)

	results := make(chan apiCall, 64)
	var wg sync.WaitGroup
	launch := func(name string, n int) {
		wg.Add(1)
		go func() {
			defer wg.Done()
			t0 := time.Now()
			done := make(chan string, 1)
			go func() { done <- callAPI(t, s, name, n) }()
			select {
			case r := <-done:
				results <- apiCall{Name: name, Point: c.Point, Result: r, Millis: time.Since(t0).Milliseconds()}
			case <-time.After(5 * time.Second):
				results <- apiCall{Name: name, Point: c.Point, Result: "hang", Millis: 5000}
			}
		}()
	}
	killDone := make(chan string, 1)
	kill := func() {
		kctx, kcancel := context.WithTimeout(context.Background(), 5*time.Second)
		defer kcancel()
		killDone <- classify(t.Kill(kctx))
	}
	names := apiNames[:len(apiNames)-1] // Kill is issued by the scenario itself
	switch c.Point {
	case "before":
		go kill()
		c.KillResult = <-killDone
		for i, n := range names {
			launch(n, i)
		}
	case "during":
		for i, n := range names {
			launch(n, i)
		}
		go kill()
		for i, n := range names {
			launch(n, i+100)
		}
		c.KillResult = <-killDone
	case "queued":
		// stall the loop inside a handler, queue the deletion, queue the calls behind it, release
		stall := make(chan *peer.TorStats)
		t.Event <- peer.TorGetStats{Ch: stall}
		time.Sleep(2 * time.Millisecond)
		go kill()
		time.Sleep(2 * time.Millisecond)
		for k := 0; k < c.Backlog; k++ {
			select {
			case t.Event <- peer.TorAddKnown{Addr: netip.MustParseAddrPort("10.9.9.9:1"), Kind: known.Seen}:
			default:
			}
		}
		for i, n := range names {
			launch(n, i)
		}
		time.Sleep(5 * time.Millisecond)
		<-stall
		c.KillResult = <-killDone
	}
	wg.Wait()
	close(results)
	for r := range results {
		c.Calls = append(c.Calls, r)
	}
	// deletion is complete
	c.Listed = tor.Get(t.Hash) != nil
	for _, rm := range rems {
		select {
		case <-rm.closed:
		case <-time.After(3 * time.Second):
			c.OpenConns++
		}
	}
	select {
	case r := <-readerDone:
		if r == "ok" {
			c.ReaderHangs = 2 // a read of an unavailable piece succeeded?
		}
	case <-time.After(3 * time.Second):
		c.ReaderHangs = 1
	}
	for _, b := range remotes {
		b.Close()
	}
	for k := 0; k < 200; k++ {
		if runtime.NumGoroutine() <= baseGo+1 && alloc.Bytes() == baseBytes {
			break
		}
		time.Sleep(5 * time.Millisecond)
	}
	c.LeftUnchoking = peer.NumUnchoking() - baseUnchoking
	c.LeftBytes = alloc.Bytes() - baseBytes
	c.LeftGo = runtime.NumGoroutine() - baseGo
	if c.LeftGo < 0 {
		c.LeftGo = 0
	}
}

func genLc(r *rand.Rand, id int) *lcCase {
	c := &lcCase{ID: id, Kind: "lc", Point: []string{"before", "during", "queued", "queued"}[r.Intn(4)], Peers: r.Intn(5)}
	if c.Point == "queued" && r.Intn(3) == 0 {
		c.Peers = 30 + r.Intn(15)
		c.Backlog = 470 + r.Intn(40)
	}
	return c
}

func lcTerm(c *lcCase) string {
	var cs []string
	for _, x := range c.Calls {
		code := map[string]int{"ok": 0, "dead": 1, "err": 2, "hang": 9}[x.Result]
		cs = append(cs, fmt.Sprintf("(\"%s\"%%string, %d)", x.Name, code))
	}
	kr := map[string]int{"ok": 0, "dead": 1, "err": 2, "hang": 9}[c.KillResult]
	lu := c.LeftUnchoking
	if lu < 0 {
		lu = 999999
	}
	return fmt.Sprintf("mk_lccase %d [%s] %d %s %d %d %d %d %d", c.ID, strings.Join(cs, "; "), kr, cq.Bool(c.Listed), c.OpenConns, c.ReaderHangs, c.LeftBytes, c.LeftGo, lu)
}
