// c01.go drives the in-RAM piece store (tor/piece) for C01 and C03: deterministic
// operation sequences compared with the transition system of Model/PieceStore.v, and
// concurrent stress runs judged by monitors.
package main

import (
	"bytes"
	"crypto/sha1"
	"encoding/json"
		"fmt"
	"math/rand"
	"os"
	"path/filepath"
	"sort"
	"strings"
	"sync"
	"sync/atomic"
	"time"

	"context"

	"github.com/jech/storrent/alloc"
	"github.com/jech/storrent/config"
	"github.com/jech/storrent/hash"
	"github.com/jech/storrent/mono"
	"github.com/jech/storrent/tor"
	"github.com/jech/storrent/tor/piece"

	"verifharness/internal/cq"
)

const cs = chunkSize

type pop struct {
	Op      string `json:"op"` // add fin read expire delall age
	Index   int    `json:"index"`
	Block   int    `json:"block"`
	N       int    `json:"n"`       // add: number of blocks
	Corrupt int    `json:"corrupt"` // add: 0 good, k>0: k-th corrupt variant
	Target  int64  `json:"target"`  // expire
	Off     int64  `json:"off"`     // read
	Len     int    `json:"len"`     // read
	Secs    int    `json:"secs"`    // age
	// observed
	Count    int    `json:"r_count"`    // add: bytes consumed
	Complete bool   `json:"r_complete"` // add: all blocks present; fin: done
	Err      string `json:"r_err,omitempty"`
	Mismatch bool   `json:"r_mismatch"` // fin: hash mismatch
	ReadN    int    `json:"r_n"`
	ReadOK   bool   `json:"r_ok"`    // the bytes read are the torrent's true content there
	Evicted  []int  `json:"evicted"` // expire: pieces dropped, in order; negative-1 encoding below
	Reported []int  `json:"reported"`
	// state afterwards
	Holds   []int   `json:"holds"`
	Done    []int   `json:"done"`
	Blocks  [][]int `json:"blocks"`
	SCount  int     `json:"s_count"`
	SBytes  int64   `json:"s_bytes"`
	Alloc   int64   `json:"alloc"`
	Panic   string  `json:"panic,omitempty"`
}

type pcase struct {
	ID    int    `json:"id"`
	Kind  string `json:"kind"` // seq | stress
	Psize int    `json:"psize"`
	Total int64  `json:"total"`
	Ops   []pop   `json:"ops,omitempty"`
	// stress
	Workers  int    `json:"workers,omitempty"`
	Millis   int    `json:"millis,omitempty"`
	Delete   bool   `json:"delete,omitempty"`
	DelRace  bool   `json:"delrace,omitempty"` // deletion while a high piece is being hashed and low pieces receive data
	BadReads int    `json:"bad_reads"`
	Reads    int    `json:"reads"`
	Finals   int    `json:"finals"`
	Evicts   int    `json:"evicts"`
	EndAlloc int64  `json:"end_alloc"`
	EndHeld  int64  `json:"end_held"`
	EndCount int    `json:"end_count"`
	PostAdd  string `json:"post_add,omitempty"`
	SPanic   string `json:"s_panic,omitempty"`
}

type env struct {
	c       *pcase
	ps      *piece.Pieces
	content []byte
	hashes  []hash.Hash
	base    int64
}

func (e *env) np() int { return int((e.c.Total + int64(e.c.Psize) - 1) / int64(e.c.Psize)) }
func (e *env) plen(i int) int {
	o := int64(i) * int64(e.c.Psize)
	n := int64(e.c.Psize)
	if o+n > e.c.Total {
		n = e.c.Total - o
	}
	return int(n)
}
func (e *env) nblocks(i int) int { return (e.plen(i) + cs - 1) / cs }

func newEnv(c *pcase) *env {
	e := &env{c: c, ps: &piece.Pieces{}}
	r := rand.New(rand.NewSource(int64(c.ID) + 4242))
	e.content = make([]byte, c.Total)
	r.Read(e.content)
	e.ps.MetadataComplete(uint32(c.Psize), c.Total)
	for i := 0; i < e.np(); i++ {
		o := int64(i) * int64(c.Psize)
		h := sha1.Sum(e.content[o : o+int64(e.plen(i))])
		e.hashes = append(e.hashes, hash.Hash(h[:]))
	}
	e.base = alloc.Bytes()
	return e
}

// data returns n blocks of piece i starting at block b: the true content, or a corrupt variant.
func (e *env) data(i, b, n, corrupt int) []byte {
	o := int64(i)*int64(e.c.Psize) + int64(b)*cs
	end := o + int64(n)*cs
	pe := int64(i)*int64(e.c.Psize) + int64(e.plen(i))
	if end > pe {
		end = pe
	}
	if o > end {
		o = end
	}
	d := append([]byte(nil), e.content[o:end]...)
	if corrupt > 0 {
		for k := 0; k < len(d); k += cs {
			d[k] ^= byte(corrupt)
		}
	}
	return d
}

func (e *env) snapshot(o *pop) {
	for i := 0; i < e.np(); i++ {
		if e.ps.VerifHolds(uint32(i)) {
			o.Holds = append(o.Holds, i)
		}
		if e.ps.Complete(uint32(i)) {
			o.Done = append(o.Done, i)
		}
		_, bm := e.ps.PieceBitmap(uint32(i))
		var bl []int
		bm.Range(func(k int) bool { bl = append(bl, k); return true })
		o.Blocks = append(o.Blocks, bl)
	}
	o.SCount = e.ps.Count()
	o.SBytes = e.ps.Bytes()
	o.Alloc = alloc.Bytes() - e.base
}

func runSeq(c *pcase) {
	e := newEnv(c)
	for k := range c.Ops {
		o := &c.Ops[k]
		func() {
			defer func() {
				if x := recover(); x != nil {
					o.Panic = fmt.Sprint(x)
				}
			}()
			switch o.Op {
			case "add":
				n, complete, err := e.ps.AddData(uint32(o.Index), uint32(o.Block)*cs, e.data(o.Index, o.Block, o.N, o.Corrupt), 7)
				o.Count, o.Complete = int(n), complete
				if err != nil {
					o.Err = err.Error()
				}
			case "fin":
				done, _, err := e.ps.Finalise(uint32(o.Index), e.hashes[o.Index])
				o.Complete = done
				if err != nil {
					o.Err = err.Error()
					o.Mismatch = err == piece.ErrHashMismatch
				}
			case "read":
				buf := make([]byte, o.Len)
				n, err := e.ps.ReadAt(buf, o.Off)
				o.ReadN = n
				if err != nil {
					o.Err = err.Error()
				}
				o.ReadOK = n == 0 || bytes.Equal(buf[:n], e.content[o.Off:o.Off+int64(n)])
			case "age":
				e.ps.VerifSetAge(uint32(o.Index), uint32(o.Secs))
			case "expire":
				before := map[int]bool{}
				for i := 0; i < e.np(); i++ {
					before[i] = e.ps.VerifHolds(uint32(i))
				}
				e.ps.Expire(o.Target, nil, func(index uint32) { o.Reported = append(o.Reported, int(index)) })
				for i := 0; i < e.np(); i++ {
					if before[i] && !e.ps.VerifHolds(uint32(i)) {
						o.Evicted = append(o.Evicted, i)
					}
				}
			case "delall":
				e.ps.Del()
			}
		}()
		e.snapshot(o)
	}
	if !contains(c.Ops, "delall") {
		e.ps.Del()
	}
}

func contains(ops []pop, name string) bool {
	for _, o := range ops {
		if o.Op == name {
			return true
		}
	}
	return false
}


func genSeq(r *rand.Rand, id int) *pcase {
	c := &pcase{ID: id, Kind: "seq", Psize: pick(r, 16384, 32768, 65536, 262144)}
	np := 1 + r.Intn(5)
	c.Total = int64(c.Psize)*int64(np-1) + int64(pick(r, 1, 100, 16384, 16385, c.Psize-1, c.Psize))
	e := &env{c: c}
	n := 6 + r.Intn(30)
	for k := 0; k < n; k++ {
		i := r.Intn(np)
		nb := e.nblocks(i)
		switch x := r.Intn(20); {
		case x < 8:
			o := pop{Op: "add", Index: i, Block: r.Intn(nb + 1), N: 1 + r.Intn(nb+1)}
			if r.Intn(5) == 0 {
				o.Corrupt = 1 + r.Intn(3)
			}
			c.Ops = append(c.Ops, o)
		case x < 10:
			// the whole piece at once, then its verification
			cor := 0
			if r.Intn(4) == 0 {
				cor = 1 + r.Intn(3)
			}
			c.Ops = append(c.Ops, pop{Op: "add", Index: i, Block: 0, N: nb, Corrupt: cor}, pop{Op: "fin", Index: i})
		case x < 13:
			c.Ops = append(c.Ops, pop{Op: "fin", Index: i})
		case x < 17:
			off := r.Int63n(c.Total)
			c.Ops = append(c.Ops, pop{Op: "read", Off: off, Len: pick(r, 0, 1, 100, cs, c.Psize, 2*c.Psize)})
		case x < 18:
			c.Ops = append(c.Ops, pop{Op: "age", Index: i, Secs: pick(r, 0, 5, 100, 3000, 8000)})
		case x < 19:
			tg := int64(r.Intn(np+1)) * int64(c.Psize)
			if r.Intn(2) == 0 {
				tg = r.Int63n(int64(np)*int64(c.Psize) + 1)
			}
			c.Ops = append(c.Ops, pop{Op: "expire", Target: tg})
		default:
			if r.Intn(3) == 0 {
				c.Ops = append(c.Ops, pop{Op: "delall"})
			}
		}
	}
	return c
}

// ---------- concurrent stress ----------

// runDelRace: the torrent is deleted while its last piece is being hashed; blocks for the
// first piece keep arriving.
func runDelRace(c *pcase) {
	e := newEnv(c)
	last := e.np() - 1
	e.ps.AddData(uint32(last), 0, e.data(last, 0, e.nblocks(last), 0), 1)
	e.ps.AddData(0, 0, e.data(0, 0, 1, 0), 1)
	var wg sync.WaitGroup
	stop := make(chan struct{})
	wg.Add(3)
	go func() { defer wg.Done(); e.ps.Finalise(uint32(last), e.hashes[last]) }()
	go func() {
		defer wg.Done()
		for {
			select {
			case <-stop:
				return
			default:
				e.ps.AddData(0, 0, e.data(0, 0, 1, 0), 1)
				n, _ := e.ps.ReadAt(make([]byte, 64), 0)
				c.Reads++
				if n > 0 {
					c.BadReads++ // piece 0 was never verified
				}
			}
		}
	}()
	go func() {
		defer wg.Done()
		for !e.ps.VerifBusy(uint32(last)) && !e.ps.Complete(uint32(last)) {
			time.Sleep(20 * time.Microsecond)
		}
		e.ps.Del()
		time.Sleep(2 * time.Millisecond)
		close(stop)
	}()
	wg.Wait()
	for i := 0; i < e.np(); i++ {
		if e.ps.VerifHolds(uint32(i)) {
			c.EndHeld += int64(e.plen(i))
		}
	}
	c.EndAlloc = alloc.Bytes() - e.base
	c.EndCount = e.ps.Count()
	_, _, err := e.ps.AddData(0, 0, e.data(0, 0, 1, 0), 1)
	c.PostAdd = fmt.Sprint(err)
	e.ps.Del()
}

func runStress(c *pcase) {
	if c.DelRace {
		runDelRace(c)
		return
	}
	e := newEnv(c)
	var wg sync.WaitGroup
	var bad, reads, finals, evicts int64
	var panicMsg atomic.Value
	stop := make(chan struct{})
	worker := func(seed int64) {
		defer wg.Done()
		defer func() {
			if x := recover(); x != nil {
				panicMsg.Store(fmt.Sprint(x))
			}
		}()
		r := rand.New(rand.NewSource(seed))
		np := e.np()
		for {
			select {
			case <-stop:
				return
			default:
			}
			i := r.Intn(np)
			switch x := r.Intn(20); {
			case x < 9:
				b := r.Intn(e.nblocks(i))
				cor := 0
				if r.Intn(12) == 0 {
					cor = 1 + r.Intn(3)
				}
				_, complete, _ := e.ps.AddData(uint32(i), uint32(b)*cs, e.data(i, b, 1+r.Intn(4), cor), uint32(1+r.Intn(5)))
				if complete {
					done, _, _ := e.ps.Finalise(uint32(i), e.hashes[i])
					if done {
						atomic.AddInt64(&finals, 1)
					}
				}
			case x < 11:
				e.ps.Finalise(uint32(i), e.hashes[i])
			case x < 12:
				cor := 0
				if r.Intn(3) == 0 {
					cor = 1
				}
				e.ps.AddData(uint32(i), 0, e.data(i, 0, 1, cor), 3)
				e.ps.AddData(uint32(i), 0, e.data(i, 0, e.nblocks(i), 0), 3)
			case x < 18:
				off := r.Int63n(c.Total)
				buf := make([]byte, 1+r.Intn(2*cs))
				n, _ := e.ps.ReadAt(buf, off)
				atomic.AddInt64(&reads, 1)
				if n > 0 && !bytes.Equal(buf[:n], e.content[off:off+int64(n)]) {
					atomic.AddInt64(&bad, 1)
				}
			default:
				k := e.ps.Expire(int64(r.Intn(np+1))*int64(c.Psize), nil, func(index uint32) {})
				atomic.AddInt64(&evicts, int64(k))
			}
		}
	}
	// most pieces start full (some with a corrupt block), so that hashing is going on all the time
	pre := rand.New(rand.NewSource(int64(c.ID) + 99))
	for i := 0; i < e.np(); i++ {
		if pre.Intn(4) > 0 {
			e.ps.AddData(uint32(i), 0, e.data(i, 0, e.nblocks(i), 0), 1)
			if pre.Intn(4) == 0 {
				e.ps.Expire(0, nil, func(uint32) {})
				e.ps.AddData(uint32(i), 0, e.data(i, 0, 1, 2), 2)
				e.ps.AddData(uint32(i), 0, e.data(i, 0, e.nblocks(i), 0), 1)
			}
		}
	}
	for w := 0; w < c.Workers; w++ {
		wg.Add(1)
		go worker(int64(c.ID)*100 + int64(w))
	}
	time.Sleep(time.Duration(c.Millis) * time.Millisecond)
	if c.Delete {
		// the torrent is deleted while everybody is at work
		func() {
			defer func() {
				if x := recover(); x != nil {
					panicMsg.Store(fmt.Sprint(x))
				}
			}()
			e.ps.Del()
		}()
		time.Sleep(3 * time.Millisecond)
	}
	close(stop)
	wg.Wait()
	c.BadReads, c.Reads, c.Finals, c.Evicts = int(bad), int(reads), int(finals), int(evicts)
	for i := 0; i < e.np(); i++ {
		if e.ps.VerifHolds(uint32(i)) {
			c.EndHeld += int64(e.plen(i))
		}
	}
	c.EndAlloc = alloc.Bytes() - e.base
	c.EndCount = e.ps.Count()
	if c.Delete {
		_, _, err := e.ps.AddData(0, 0, e.data(0, 0, 1, 0), 1)
		c.PostAdd = fmt.Sprint(err)
	}
	if v := panicMsg.Load(); v != nil {
		c.SPanic = v.(string)
	}
	func() {
		defer func() {
			if x := recover(); x != nil {
				c.SPanic = fmt.Sprint(x)
			}
		}()
		e.ps.Del()
	}()
}

func genStress(r *rand.Rand, id int) *pcase {
	c := &pcase{ID: id, Kind: "stress", Psize: pick(r, 65536, 262144, 1048576, 4194304)}
	np := 2 + r.Intn(4)
	c.Total = int64(c.Psize)*int64(np-1) + int64(pick(r, 16385, c.Psize/2, c.Psize))
	c.Workers = 4 + r.Intn(8)
	c.Millis = 15 + r.Intn(25)
	c.Delete = r.Intn(2) == 0
	if r.Intn(3) == 0 {
		c.DelRace, c.Delete = true, true
		c.Psize = pick(r, 1048576, 4194304)
		c.Total = int64(c.Psize) * int64(np)
	}
	return c
}

// ---------- rendering ----------

func seqTerm(c *pcase) string {
	var ops []string
	for _, o := range c.Ops {
		var k string
		switch o.Op {
		case "add":
			k = fmt.Sprintf("PAdd %d %d %d %d", o.Index, o.Block, o.N, o.Corrupt)
		case "fin":
			k = fmt.Sprintf("PFin %d", o.Index)
		case "read":
			k = fmt.Sprintf("PRead %d %d", o.Off, o.Len)
		case "age":
			k = fmt.Sprintf("PAge %d %d", o.Index, o.Secs)
		case "expire":
			sort.Ints(o.Evicted)
			sort.Ints(o.Reported)
			k = fmt.Sprintf("PExpire %d %s %s", o.Target, ints(o.Evicted), ints(o.Reported))
		case "delall":
			k = "PDelAll"
		}
		errc := 0
		switch {
		case o.Err == "":
		case o.Mismatch:
			errc = 2
		case strings.Contains(o.Err, "deleted"):
			errc = 3
		case o.Err == "EOF":
			errc = 4
		default:
			errc = 1
		}
		var bl []string
		for _, b := range o.Blocks {
			bl = append(bl, ints(b))
		}
		nn := func(v int64) int64 {
			if v < 0 {
				return 999999999999
			}
			return v
		}
		ops = append(ops, fmt.Sprintf("mk_pobs (%s) %d %s %d %d %s %s %s [%s] %d %d %d %s", k, o.Count, cq.Bool(o.Complete), errc, o.ReadN, cq.Bool(o.ReadOK),
			ints(o.Holds), ints(o.Done), strings.Join(bl, ";"), nn(int64(o.SCount)), nn(o.SBytes), nn(o.Alloc), cq.Bool(o.Panic != "")))
	}
	return fmt.Sprintf("mk_pcase %d %d %d [\n   %s]", c.ID, c.Psize, c.Total, strings.Join(ops, ";\n   "))
}

func stressTerm(c *pcase) string {
	post := 0
	if strings.Contains(c.PostAdd, "deleted") {
		post = 1
	} else if c.Delete {
		post = 2
	}
	nn := func(v int64) int64 {
		if v < 0 {
			return 999999999999 // a counter that went negative
		}
		return v
	}
	return fmt.Sprintf("mk_stress %d %s %d %d %d %d %d %s", c.ID, cq.Bool(c.Delete), c.BadReads, nn(c.EndAlloc), nn(c.EndHeld), nn(int64(c.EndCount)), post, cq.Bool(c.SPanic != ""))
}

func piecesMain(mode string, out *string, n *int, casef *string, r *rand.Rand) {
	mono.VerifAdvance(4 * time.Hour) // so that pieces can be given ages up to hours
	var gxs []*gxCase
	var cases []*pcase
	switch mode {
	case "gen":
		for i := 0; i < *n; i++ {
			if i%10 == 9 {
				gxs = append(gxs, genGx(r, i))
			} else if i%5 == 4 {
				cases = append(cases, genStress(r, i))
			} else {
				cases = append(cases, genSeq(r, i))
			}
		}
	case "replay":
		data, _ := os.ReadFile(*casef)
		var wrap struct {
			Case pcase `json:"case"`
		}
		json.Unmarshal(data, &wrap)
		if wrap.Case.Kind == "gx" {
			var w2 struct {
				Case gxCase `json:"case"`
			}
			json.Unmarshal(data, &w2)
			gxs = append(gxs, &w2.Case)
			break
		}
		reps := 1
		if wrap.Case.Kind == "stress" {
			reps = 10
		}
		for i := 0; i < reps; i++ {
			c := wrap.Case
			c.ID = i
			if reps > 1 {
				c.ID = wrap.Case.ID
			}
			cases = append(cases, &c)
		}
	}
	var sterms, tterms []string
	kinds := map[string]int{}
	distinct := map[string]bool{}
	evals := 0
	for _, c := range cases {
		if c.Kind == "seq" {
			runSeq(c)
			sterms = append(sterms, seqTerm(c))
			for _, o := range c.Ops {
				kinds["seq/"+o.Op]++
				distinct[fmt.Sprintf("%d/%v/%v/%d/%d", c.ID, o.Holds, o.Done, o.Alloc, o.ReadN)] = true
			}
			evals += len(c.Ops)
		} else {
			runStress(c)
			tterms = append(tterms, stressTerm(c))
			kinds["stress"]++
			kinds["stress/reads"] += c.Reads
			kinds["stress/finalised"] += c.Finals
			kinds["stress/evicted"] += c.Evicts
			distinct[fmt.Sprintf("s/%d/%d/%d", c.ID, c.Reads, c.Finals)] = true
			evals++
		}
	}
	var gterms []string
	for _, c := range gxs {
		runGx(c)
		gterms = append(gterms, gxTerm(c))
		kinds["gx"]++
		distinct[fmt.Sprintf("gx/%d/%d/%d", c.ID, c.RC, c.After)] = true
		evals++
	}
	jf, _ := os.Create(filepath.Join(*out, "cases.jsonl"))
	for _, c := range cases {
		b, _ := json.Marshal(c)
		jf.Write(append(b, '\n'))
	}
	for _, c := range gxs {
		b, _ := json.Marshal(c)
		jf.Write(append(b, '\n'))
	}
	jf.Close()
	nshard := 0
	h := "From Storrent Require Import Base.Bytes Model.PieceStore Check.PieceStoreCheck.\nOpen Scope N_scope.\n"
	for i := 0; i < len(sterms); i += 10 {
		j := i + 10
		if j > len(sterms) {
			j = len(sterms)
		}
		var sb bytes.Buffer
		sb.WriteString(h)
		sb.WriteString("Definition cases : list pcase := [\n" + strings.Join(sterms[i:j], ";\n") + "\n].\n")
		sb.WriteString("Definition BC := Eval vm_compute in bad_corr_ps cases.\nDefinition BM := Eval vm_compute in bad_monitor_ps cases.\nPrint BC. Print BM.\n")
		os.WriteFile(filepath.Join(*out, fmt.Sprintf("shard%03d.v", nshard)), sb.Bytes(), 0o644)
		nshard++
	}
	if len(tterms) > 0 {
		var sb bytes.Buffer
		sb.WriteString(h)
		sb.WriteString("Definition cases : list stress := [\n" + strings.Join(tterms, ";\n") + "\n].\n")
		sb.WriteString("Definition BM := Eval vm_compute in bad_monitor_stress cases.\nPrint BM.\n")
		os.WriteFile(filepath.Join(*out, fmt.Sprintf("shard%03d.v", nshard)), sb.Bytes(), 0o644)
		nshard++
	}
	if len(gterms) > 0 {
		var sb bytes.Buffer
		sb.WriteString(h)
		sb.WriteString("Definition cases : list gx := [\n" + strings.Join(gterms, ";\n") + "\n].\n")
		sb.WriteString("Definition BM := Eval vm_compute in bad_monitor_gx cases.\nPrint BM.\n")
		os.WriteFile(filepath.Join(*out, fmt.Sprintf("shard%03d.v", nshard)), sb.Bytes(), 0o644)
		nshard++
	}
	var samples []*pcase
	for i, c := range cases {
		if i%43 == 1 || len(cases) < 4 {
			samples = append(samples, c)
		}
	}
	meta := map[string]interface{}{
		"evaluations":         evals,
		"distinct_nontrivial": len(distinct),
		"rule":                "one evaluation = one operation on a real piece.Pieces in a deterministic sequence (results and the whole store state compared with the transition system), or one concurrent stress run of 4-11 goroutines adding good and corrupt blocks, finalising, reading and evicting on pieces of 64 KiB-4 MiB, with or without deletion of the torrent in the middle; distinct = new (case, pieces held, pieces verified, bytes accounted, bytes read)",
		"kinds":               kinds,
		"samples":             samples,
		"shards":              nshard,
	}
	b, _ := json.MarshalIndent(meta, "", " ")
	os.WriteFile(filepath.Join(*out, "meta.json"), b, 0o644)
}

// ---------- the global eviction pass (tor.Expire) ----------

type gxTorrent struct {
	Psize int `json:"psize"`
	NP    int `json:"np"`
	Fill  int `json:"fill"`
}

type gxCase struct {
	ID       int         `json:"id"`
	Kind     string      `json:"kind"`
	Mark     int64       `json:"mark"`
	Torrents []gxTorrent `json:"torrents"`
	RC       int         `json:"rc"`
	Panic    string      `json:"panic,omitempty"`
	Before   int64       `json:"before"`
	After    int64       `json:"after"`
	Dirty    bool        `json:"dirty"` // memory was held before the case started: nothing is judged
	Sizes    []int64     `json:"sizes"`  // bytes held by each torrent before the pass
	Afters   []int64     `json:"afters"` // ... and after it
}

func runGx(c *gxCase) {
	if alloc.Bytes() != 0 {
		c.Dirty = true
		return
	}
	ctx, cancel := context.WithCancel(context.Background())
	defer cancel()
	var ts []*tor.Torrent
	for k, gt := range c.Torrents {
		sc := &scenario{ID: c.ID*16 + k, Psize: gt.Psize, Total: int64(gt.Psize) * int64(gt.NP)}
		s := newSwarm(sc)
		t, err := tor.AddTorrent(ctx, s.t)
		if err != nil {
			continue
		}
		ts = append(ts, t)
		for i := 0; i < gt.Fill && i < gt.NP; i++ {
			o := int64(i) * int64(gt.Psize)
			t.Pieces.AddData(uint32(i), 0, s.content[o:o+int64(gt.Psize)], 1)
			t.Pieces.Finalise(uint32(i), t.PieceHashes[i])
		}
	}
	config.MemoryMark = c.Mark
	c.Before = alloc.Bytes()
	c.Sizes, c.Afters = nil, nil
	for _, t := range ts {
		c.Sizes = append(c.Sizes, t.Pieces.Bytes())
	}
	func() {
		defer func() {
			if x := recover(); x != nil {
				c.Panic = fmt.Sprint(x)
			}
		}()
		c.RC = tor.Expire()
	}()
	last := int64(-1)
	for k := 0; k < 100; k++ {
		time.Sleep(3 * time.Millisecond)
		now := alloc.Bytes()
		if now == last {
			break
		}
		last = now
	}
	c.After = alloc.Bytes()
	for _, t := range ts {
		c.Afters = append(c.Afters, t.Pieces.Bytes())
	}
	for _, t := range ts {
		kctx, kcancel := context.WithTimeout(context.Background(), 2*time.Second)
		t.Kill(kctx)
		kcancel()
	}
	for k := 0; k < 100 && alloc.Bytes() != 0; k++ {
		time.Sleep(2 * time.Millisecond)
	}
}

func genGx(r *rand.Rand, id int) *gxCase {
	c := &gxCase{ID: id, Kind: "gx"}
	nt := r.Intn(4)
	var total int64
	for k := 0; k < nt; k++ {
		gt := gxTorrent{Psize: pick(r, 16384, 65536, 262144), NP: 1 + r.Intn(6)}
		gt.Fill = r.Intn(gt.NP + 1)
		total += int64(gt.Fill) * int64(gt.Psize)
		c.Torrents = append(c.Torrents, gt)
	}
	switch r.Intn(4) {
	case 0:
		c.Mark = 0
	case 1:
		c.Mark = total / 2
	case 2:
		c.Mark = total
	default:
		c.Mark = int64(pick(r, 16384, 100000, 1000000))
	}
	return c
}

func gxTerm(c *gxCase) string {
	var sizes []string
	for _, t := range c.Torrents {
		sizes = append(sizes, fmt.Sprint(t.Psize))
	}
	rc := c.RC + 1
	if c.Before < 0 || c.After < 0 {
		c.Before, c.After = 0, 999999999999
	}
	zl := func(l []int64) string {
		var xs []string
		for _, x := range l {
			xs = append(xs, fmt.Sprintf("(%d)%%Z", x))
		}
		return "[" + strings.Join(xs, "; ") + "]"
	}
	return fmt.Sprintf("mk_gx %d %d %d %d %d %s %s %s %s", c.ID, c.Mark, rc, c.Before, c.After, cq.Bool(c.Panic != ""), cq.Bool(c.Dirty), zl(c.Sizes), zl(c.Afters))
}
