package main

// extraWants grows as models are added.
var extraWants = []want{}
