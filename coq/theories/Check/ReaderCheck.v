(* Check/ReaderCheck.v — correspondence and monitors for C02. *)
From Storrent Require Import Base.Bytes Model.Reader.
Open Scope Z_scope.

Inductive rdop := OSeek (o : Z) (w : whence) | ORead (n : Z) | OClose.

(* observed: for Seek the result (or -1 for an error); for Read the count; error class
   (0 none, 1 EOF, 2 closed, 3 other); the position afterwards; whether the bytes returned equal the
   torrent's content at offset + position-before *)
Record rdobs := mk_rdobs { ob_op : rdop; ob_res : Z; ob_err : Z; ob_pos : Z; ob_data_ok : bool }.
Record rdcase := mk_rdcase { rc_id : N; rc_psize : Z; rc_total : Z; rc_offset : Z; rc_length : Z; rc_ops : list rdobs }.

Definition err_code (e : rerr) : Z := match e with RNone => 0 | REOF => 1 | RClosed => 2 end.

Definition rd_step_ok (psize total : Z) (r : rdr) (o : rdobs) : option rdr :=
  match ob_op o with
  | OSeek off w =>
    let (r', res) := rd_seek r off w in
    match res with
    | Some p => if (ob_res o =? p) && (ob_err o =? 0) && (ob_pos o =? rd_pos r') then Some r' else None
    | None => if (ob_err o =? (if rd_closed r then 2 else 3)) && (ob_pos o =? rd_pos r') then Some r' else None
    end
  | ORead n =>
    let '(r', _, cnt, err) := rd_read psize total r n in
    if (ob_res o =? cnt) && (ob_err o =? err_code err) && (ob_pos o =? rd_pos r') then Some r' else None
  | OClose => Some (rd_close r)
  end.

Fixpoint rd_run (psize total : Z) (r : rdr) (os : list rdobs) : bool :=
  match os with
  | [] => true
  | o :: rest => match rd_step_ok psize total r o with Some r' => rd_run psize total r' rest | None => false end
  end.

Definition corr_rd (c : rdcase) : bool :=
  rd_run (rc_psize c) (rc_total c) (rd_new (rc_offset c) (rc_length c)) (rc_ops c).

(* on the observations alone: every byte returned is the torrent's byte at that place, no read goes
   beyond the range, end of file is reported exactly at the end of the range (or of the torrent) *)
Fixpoint mon_rd_run (total offset length pos : Z) (os : list rdobs) : bool :=
  match os with
  | [] => true
  | o :: rest =>
    match ob_op o with
    | ORead n =>
      ob_data_ok o && (0 <=? ob_res o) && (ob_res o <=? n) &&
      ((ob_res o =? 0) || (pos + ob_res o <=? length)) &&
      (negb (ob_err o =? 1) || (length <=? pos + ob_res o) || (total <=? offset + pos + ob_res o)) &&
      (negb ((ob_err o =? 0) && (0 <? n)) || (0 <? ob_res o)) &&
      (ob_pos o =? pos + ob_res o)
    | _ => true
    end && mon_rd_run total offset length (ob_pos o) rest
  end.

Definition mon_rd (c : rdcase) : bool := mon_rd_run (rc_total c) (rc_offset c) (rc_length c) 0 (rc_ops c).

(* liveness scenarios: each read is reported as (expected outcome class, observed outcome class,
   data ok); classes: 0 data, 1 EOF, 4 context cancelled, 5 torrent dead, 9 did not return *)
Record lvread := mk_lvread { lv_expect : Z; lv_got : Z; lv_ok : bool }.
Record lvcase := mk_lvcase { lc_id : N; lc_reads : list lvread;
                             lc_left_prios : N;     (* priorities left in Torrent.requested after the readers are gone *)
                             lc_left_reader : N }.  (* requests a closed or failed reader still records *)

Definition mon_lv (c : lvcase) : bool :=
  forallb (fun r => (lv_expect r =? lv_got r) && lv_ok r) (lc_reads c) && (lc_left_prios c =? 0)%N && (lc_left_reader c =? 0)%N.

Definition bad_corr_rd (cs : list rdcase) : list N := map rc_id (filter (fun c => negb (corr_rd c)) cs).
Definition bad_monitor_rd (cs : list rdcase) : list N := map rc_id (filter (fun c => negb (mon_rd c)) cs).
Definition bad_monitor_lv (cs : list lvcase) : list N := map lc_id (filter (fun c => negb (mon_lv c)) cs).

(* ---------- front-ends ---------- *)
Inductive fevia := FHttp (s : rspec) | FFuse (o n : Z).
(* observed: the HTTP status (0 for a FUSE read that succeeded, 1 for one that failed, 9 for one that did not return); the first byte the
   reply claims (Content-Range, 0 for a 200, the offset asked for FUSE); the number of bytes in the body;
   last byte and size of Content-Range (-1 without one); whether the body equals the torrent's content at
   the file's offset + the first byte claimed *)
Record fereq := mk_fereq { fq_via : fevia; fq_flen : Z; fq_status : Z; fq_start : Z; fq_cnt : Z;
                           fq_crend : Z; fq_crsize : Z; fq_data_ok : bool }.
Record fecase := mk_fecase { fc_id : N; fc_reqs : list fereq }.

Definition corr_fereq (q : fereq) : bool :=
  match fq_via q with
  | FHttp s =>
    negb (rspec_ok s) ||
    let '(st, a, cnt) := http_range (fq_flen q) s in
    (fq_status q =? st) &&
    ((st =? 416) || ((fq_start q =? a) && (fq_cnt q =? cnt)))
  | FFuse o n => (fq_status q =? 0) && (fq_start q =? o) && (fq_cnt q =? fuse_read (fq_flen q) o n)
  end.
(* on the observation alone: the body is the file's content at the place the reply names, it lies inside
   the file, and a Content-Range describes exactly the body *)
Definition mon_fereq (q : fereq) : bool :=
  negb (fq_status q =? 9) &&
  ((fq_status q =? 416) || (fq_status q =? 1) ||
   (fq_data_ok q && (0 <=? fq_start q) && (0 <=? fq_cnt q) && ((fq_cnt q =? 0) || (fq_start q + fq_cnt q <=? fq_flen q)))) &&
  (negb (fq_status q =? 206) || ((fq_crend q =? fq_start q + fq_cnt q - 1) && (fq_crsize q =? fq_flen q))) &&
  (negb (fq_status q =? 200) || (fq_cnt q =? fq_flen q)).
Definition bad_corr_fe (cs : list fecase) : list N := map fc_id (filter (fun c => negb (forallb corr_fereq (fc_reqs c))) cs).
Definition bad_monitor_fe (cs : list fecase) : list N := map fc_id (filter (fun c => negb (forallb mon_fereq (fc_reqs c))) cs).
