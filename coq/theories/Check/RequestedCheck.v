(* Check/RequestedCheck.v — correspondence and monitors for C10: operation sequences on a real
   tor.Requested, and consumers waiting for pieces of a real torrent. *)
From Storrent Require Import Base.Bytes Model.Requested.
Open Scope N_scope.

Fixpoint memN' (x : N) (l : list N) : bool := match l with [] => false | y :: r => (x =? y) || memN' x r end.

Fixpoint insertN (x : N) (l : list N) : list N :=
  match l with [] => [x] | y :: r => if x <=? y then x :: l else y :: insertN x r end.
Definition sortN (l : list N) : list N := fold_right insertN [] l.
Fixpoint insertZ (x : Z) (l : list Z) : list Z :=
  match l with [] => [x] | y :: r => if (x <=? y)%Z then x :: l else y :: insertZ x r end.
Definition sortZ (l : list Z) : list Z := fold_right insertZ [] l.

Fixpoint listN_eqb (a b : list N) : bool :=
  match a, b with [], [] => true | x :: a', y :: b' => (x =? y) && listN_eqb a' b' | _, _ => false end.
Fixpoint listZ_eqb (a b : list Z) : bool :=
  match a, b with [], [] => true | x :: a', y :: b' => (x =? y)%Z && listZ_eqb a' b' | _, _ => false end.

(* ---------- operation sequences on tor.Requested ---------- *)

Definition snap := list (N * list Z * bool).     (* index, priorities, somebody waits *)

Record rqobs := mk_rqobs { ro_op : rop; ro_ch : option N; ro_flag : bool; ro_snap : snap; ro_closed : list N; ro_panic : bool }.
Record rqcase := mk_rqcase { rq_id : N; rq_keys : list N; rq_ops : list rqobs }.

Fixpoint snap_get (s : snap) (i : N) : option (list Z * bool) :=
  match s with [] => None | (j, p, w) :: r => if j =? i then Some (p, w) else snap_get r i end.

Definition entry_eqb (m : option rpiece) (o : option (list Z * bool)) : bool :=
  match m, o with
  | None, None => true
  | Some r, Some (p, w) => listZ_eqb (rp_prio r) p && Bool.eqb (match rp_done r with Some _ => true | None => false end) w
  | _, _ => false
  end.

Definition optN_eqb (a b : option N) : bool :=
  match a, b with None, None => true | Some x, Some y => x =? y | _, _ => false end.

Definition rq_step_ok (keys : list N) (s : rstate) (o : rqobs) : option rstate :=
  let s' := r_step keys s (ro_op o) in
  let ret_ok :=
    match ro_op o with
    | RAdd i p w => let '(_, ch, added) := r_add s i p w in optN_eqb ch (ro_ch o) && Bool.eqb added (ro_flag o)
    | RDel i p => Bool.eqb (snd (r_del s i p)) (ro_flag o)
    | _ => true
    end in
  if ret_ok && negb (ro_panic o) && negb (r_panic s') &&
     forallb (fun i => entry_eqb (r_pieces s' i) (snap_get (ro_snap o) i)) keys &&
     listN_eqb (sortN (r_closed s')) (ro_closed o)
  then Some s' else None.

Fixpoint rq_run (keys : list N) (s : rstate) (os : list rqobs) : bool :=
  match os with
  | [] => true
  | o :: r => match rq_step_ok keys s o with Some s' => rq_run keys s' r | None => false end
  end.

Definition corr_rq (c : rqcase) : bool := rq_run (rq_keys c) r_init (rq_ops c).

(* judged on the observations alone: no panic; a channel is closed only by an operation on its piece
   (or by DelIdle), never by Add; Done closes the channel of its piece and leaves nobody waiting *)
Fixpoint assoc (l : list (N * N)) (c : N) : option N :=
  match l with [] => None | (x, i) :: r => if x =? c then Some i else assoc r c end.

Definition waiting (s : snap) (i : N) : bool := match snap_get s i with Some (_, w) => w | None => false end.

Fixpoint mon_rq_run (chans : list (N * N)) (prev_closed : list N) (prev : snap) (os : list rqobs) : bool :=
  match os with
  | [] => true
  | o :: r =>
    let newly := filter (fun c => negb (memN' c prev_closed)) (ro_closed o) in
    let chans' := match ro_op o, ro_ch o with RAdd i _ _, Some c => (c, i) :: chans | _, _ => chans end in
    let owner_ok (i : N) := forallb (fun c => match assoc chans c with Some j => j =? i | None => false end) newly in
    negb (ro_panic o) &&
    forallb (fun c => memN' c (ro_closed o)) prev_closed &&
    match ro_op o with
    | RAdd _ _ _ => match newly with [] => true | _ => false end
    | RDel i _ | RDelIdlePiece i => owner_ok i
    | RDone i => owner_ok i && (negb (waiting prev i) || match newly with [] => false | _ => true end) && negb (waiting (ro_snap o) i)
    | RDelIdle => true
    end &&
    mon_rq_run chans' (ro_closed o) (ro_snap o) r
  end.

Definition mon_rq (c : rqcase) : bool := mon_rq_run [] [] [] (rq_ops c).

(* ---------- consumers of a real torrent ---------- *)

Record waud := mk_waud { wa_seq : N; wa_closed : list N; wa_complete : list N; wa_requested : snap; wa_wanted : list (N * Z) }.
Record wcase := mk_wcase { wc_id : N; wc_np : N;
                           wc_waiters : list (N * N * N * N);   (* id, piece, seq, abandoned at (0: never) *)
                           wc_haves : list (N * N);             (* piece, seq: verified and announced *)
                           wc_audits : list waud }.

Definition prios_of (w : list (N * Z)) (i : N) : list Z := map snd (filter (fun e => fst e =? i) w).

Definition mon_waud (c : wcase) (a : waud) : bool :=
  (* a consumer is woken when, and only when, its piece has been verified or its wait abandoned *)
  forallb (fun w => let '(id, piece, seq, ab) := w in
     if wa_seq a <? seq then true else
     let verified := existsb (fun h => (fst h =? piece) && (seq <? snd h) && (snd h <=? wa_seq a)) (wc_haves c) in
     let abandoned := (0 <? ab) && (ab <=? wa_seq a) in
     let closed := memN' id (wa_closed a) in
     Bool.eqb closed (verified || abandoned) &&
     (closed || negb (memN' piece (wa_complete a)))) (wc_waiters c) &&
  (* each piece carries exactly the priorities its consumers hold *)
  forallb (fun i =>
     let have := match snap_get (wa_requested a) i with Some (p, _) => sortZ p | None => [] end in
     listZ_eqb have (sortZ (prios_of (wa_wanted a) i)) &&
     (match prios_of (wa_wanted a) i with [] => true | _ => match snap_get (wa_requested a) i with Some _ => true | None => false end end))
    (map N.of_nat (seq 0 (N.to_nat (wc_np c)))).

Definition mon_w (c : wcase) : bool := forallb (mon_waud c) (wc_audits c).

Definition bad_corr_rq (cs : list rqcase) : list N := map rq_id (filter (fun c => negb (corr_rq c)) cs).
Definition bad_monitor_rq (cs : list rqcase) : list N := map rq_id (filter (fun c => negb (mon_rq c)) cs).
Definition bad_monitor_w (cs : list wcase) : list N := map wc_id (filter (fun c => negb (mon_w c)) cs).
