(* Check/SchedCheck.v — correspondence and monitor for the swarm scenarios (C09). *)
From Storrent Require Import Base.Bytes Gen.Consts Model.Sched.
Open Scope N_scope.

Inductive tvk :=
| TvData (i b l : N) | TvDrop (i b l : N) | TvPeerHave (i : N) (have : bool)
| TvPeerBitmap (bits : list N) (have : bool) | TvRequest | TvCommand (chunks : list N) | TvGoaway | TvOther.

Definition delta := list (N * N * N).    (* index, before, after *)

Record auditc := mk_audit { au_step : N; au_inflight : cnt; au_held : cnt; au_avail : cnt; au_adv : cnt }.
Record scase := mk_scase { sc_id : N; sc_psize : N; sc_total : N;
                           sc_evs : list (tvk * delta * delta); sc_audits : list auditc }.

Fixpoint cnt_eqb (a b : cnt) : bool :=
  match a, b with
  | [], [] => true
  | (i, v) :: a', (j, w) :: b' => (i =? j) && (v =? w) && cnt_eqb a' b'
  | _, _ => false
  end.

Definition apply_delta (c : cnt) (d : delta) : option cnt :=
  fold_left (fun oc e => match oc with
                         | None => None
                         | Some c => let '(i, before, after) := e in
                                     if cget c i =? before then Some (cset c i after) else None
                         end) d (Some c).

(* scheduler steps: every change is more requests for a block, never beyond three in flight (one pass may
   pick a block once per priority at which its piece is wanted) *)
Definition legit_up (d : delta) : bool := forallb (fun e => let '(_, b, a) := e in (b <? a) && (a <=? 3)) d.
(* a departed peer's unhandled commands are released: decrements only *)
Definition legit_down (d : delta) : bool := forallb (fun e => let '(_, b, a) := e in a <? b) d.
Definition is_nil {A} (l : list A) : bool := match l with [] => true | _ => false end.

Definition step_ok (psize : N) (f a : cnt) (e : tvk * delta * delta) : option (cnt * cnt) :=
  let '(k, df, da) := e in
  match apply_delta f df, apply_delta a da with
  | Some f', Some a' =>
    let okf (m : cnt) := cnt_eqb m f' in
    let oka (m : cnt) := cnt_eqb m a' in
    let good :=
      match k with
      | TvData i b l | TvDrop i b l => okf (release psize f i b l) && oka a
      | TvPeerHave i h => okf f && oka (peer_have a i h)
      | TvPeerBitmap bits h => okf f && oka (peer_bitmap a bits h)
      | TvRequest | TvOther => legit_up df && oka a
      | TvCommand chunks => (okf (commanded f chunks) || is_nil df) && oka a   (* counted only if the queue accepted it *)
      | TvGoaway => legit_down df && oka a
      end in
    if good then Some (f', a') else None
  | _, _ => None
  end.

Fixpoint run_evs (psize : N) (f a : cnt) (evs : list (tvk * delta * delta)) : bool :=
  match evs with
  | [] => true
  | e :: r => match step_ok psize f a e with Some (f', a') => run_evs psize f' a' r | None => false end
  end.

Definition corr09 (c : scase) : bool := run_evs (sc_psize c) [] [] (sc_evs c).

(* the property, judged on the implementation's own counters at each quiescent point *)
Definition audit_ok (a : auditc) : bool := cnt_eqb (au_inflight a) (au_held a) && cnt_eqb (au_avail a) (au_adv a).
Definition mon09 (c : scase) : bool := forallb audit_ok (sc_audits c).

Definition bad_corr09 (cs : list scase) : list N := map sc_id (filter (fun c => negb (corr09 c)) cs).
Definition bad_monitor09 (cs : list scase) : list N := map sc_id (filter (fun c => negb (mon09 c)) cs).
