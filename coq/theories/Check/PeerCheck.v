(* Check/PeerCheck.v — correspondence and monitor predicates for the peer core
   (C05, C11, C16; the peer half of C09).  A case is a history of steps on one peer;
   each step records what the implementation did: verdict, messages written, events
   sent to the torrent, bytes allocated, and a snapshot of the peer's state. *)
From Storrent Require Import Base.Bytes Base.Bencode Gen.Consts Model.Wire Model.PeerCore Check.WireCheck.
Open Scope N_scope.

Record psnap := {
  n_info_known : bool;
  n_bitmap : option bm;
  n_my : list N;
  n_flags : list bool;      (* is_seed unchoked interested am_unchoking should_interested am_interested got_extended upload_only *)
  n_exts : list N;          (* pex metadata donthave uploadonly reqq *)
  n_queue : list N;
  n_requested : list (N * bool);
  n_upload : list (N * N * N);
  n_fast : list N;
  n_pex : list peer;
  n_pending : list peer; n_pending_del : list peer; n_sent : list peer }.

Definition bm_eqb (a b : bm) : bool := (blen a =? blen b) && list_eqb N.eqb (bits a) (bits b).
Definition opt_bm_eqb (a b : option bm) : bool :=
  match a, b with Some x, Some y => bm_eqb x y | None, None => true | _, _ => false end.

Definition snap_of (s : pstate) : psnap :=
  {| n_info_known := match s_geo s with Some _ => true | None => false end;
     n_bitmap := s_bitmap s;
     n_my := bits (s_my s);
     n_flags := [s_is_seed s; s_unchoked s; s_interested s; s_am_unchoking s; s_should_interested s;
                 s_am_interested s; s_got_extended s; s_upload_only s];
     n_exts := [s_pex_ext s; s_metadata_ext s; s_donthave_ext s; s_uploadonly_ext s; s_reqq s];
     n_queue := rq_queue (s_reqs s);
     n_requested := rq_requested (s_reqs s);
     n_upload := map (fun r => (u_index r, u_begin r, u_length r)) (s_requested s);
     n_fast := s_fast s;
     n_pex := s_pex s;
     n_pending := px_pending (s_pexst s); n_pending_del := px_pending_del (s_pexst s); n_sent := px_sent (s_pexst s) |}.

Definition nlist_eqb := list_eqb N.eqb.
Definition peers_eqb := list_eqb peer_eqb.

Definition snap_eqb (a b : psnap) : bool :=
  Bool.eqb (n_info_known a) (n_info_known b) && opt_bm_eqb (n_bitmap a) (n_bitmap b) &&
  list_eqb N.eqb (n_my a) (n_my b) && list_eqb Bool.eqb (n_flags a) (n_flags b) && nlist_eqb (n_exts a) (n_exts b) &&
  nlist_eqb (n_queue a) (n_queue b) &&
  list_eqb (fun x y => (fst x =? fst y) && Bool.eqb (snd x) (snd y)) (n_requested a) (n_requested b) &&
  list_eqb (fun x y => (fst (fst x) =? fst (fst y)) && (snd (fst x) =? snd (fst y)) && (snd x =? snd y)) (n_upload a) (n_upload b) &&
  nlist_eqb (n_fast a) (n_fast b) && peers_eqb (n_pex a) (n_pex b) &&
  peers_eqb (n_pending a) (n_pending b) && peers_eqb (n_pending_del a) (n_pending_del b) && peers_eqb (n_sent a) (n_sent b).

Definition tev_eqb (a b : tev) : bool :=
  match a, b with
  | TDrop i b l, TDrop i' b' l' => (i =? i') && (b =? b') && (l =? l')
  | TData i b l c, TData i' b' l' c' => (i =? i') && (b =? b') && (l =? l') && Bool.eqb c c'
  | TPeerHave i h, TPeerHave i' h' => (i =? i') && Bool.eqb h h'
  | TPeerBitmap x h, TPeerBitmap x' h' => bm_eqb x x' && Bool.eqb h h'
  | TPeerUnchoke u, TPeerUnchoke u' => Bool.eqb u u'
  | TPeerInterested u, TPeerInterested u' => Bool.eqb u u'
  | TPeerExtended n, TPeerExtended n' => n =? n'
  | TMetaData s i l, TMetaData s' i' l' => (s =? s') && (i =? i') && (l =? l')
  | _, _ => false
  end.

(* messages we wrote: metadata blocks are compared by length (the model does not carry the info bytes) *)
Definition out_msg_eqb (a b : msg) : bool :=
  match a, b with
  | ExtendedMetadata s t p z d, ExtendedMetadata s' t' p' z' d' =>
      (s =? s') && (t =? t') && (p =? p') && (z =? z') && (len d =? len d')
  | _, _ => msg_eqb a b
  end.

Definition verdict_eqb (a b : verdict) : bool :=
  match a, b with VOk, VOk | VDisconnect, VDisconnect | VPanic, VPanic => true | _, _ => false end.

Record pstep := {
  st_ballast : N; st_op : op; st_verdict : verdict;
  st_msgs : list msg; st_evs : list tev; st_alloc : N; st_snap : psnap }.

Record pcase := {
  p_id : N; p_geo : option geo; p_fast : bool; p_ext : bool; p_my : bytes; p_steps : list pstep }.

Definition step_matches (r : res) (o : pstep) : bool :=
  let (a, v) := r in
  a_legit a && verdict_eqb v (st_verdict o) &&
  list_eqb out_msg_eqb (a_msgs a) (st_msgs o) && list_eqb tev_eqb (a_evs a) (st_evs o) &&
  snap_eqb (snap_of (a_st a)) (st_snap o).

(* find the oracle value k the implementation chose *)
Fixpoint find_k (n : nat) (k : nat) (s : pstate) (o : pstep) : option res :=
  match n with
  | O => None
  | S n' =>
    let r := step s (st_ballast o) (st_op o) k in
    if step_matches r o then Some r else find_k n' (S k) s o
  end.

Definition kmax (s : pstate) : nat := S (S (length (rq_queue (s_reqs s)))) + 8.

(* run a history; result: index of the first step the model cannot reproduce, the
   per-step (model state before, model result) pairs for the monitors *)
Fixpoint run_steps (s : pstate) (steps : list pstep) (i : N) (acc : list (pstate * res * pstep))
  : option N * list (pstate * res * pstep) :=
  match steps with
  | [] => (None, rev acc)
  | o :: rest =>
    let extra := match st_op o with OpEv (PeerRequest cs) => length cs | _ => O end in
    match find_k (kmax s + extra) 0 s o with
    | None => (Some i, rev acc)
    | Some r => run_steps (a_st (fst r)) rest (i + 1) ((s, r, o) :: acc)
    end
  end.

Definition run_case (c : pcase) :=
  run_steps (init_state (p_geo c) (p_fast c) (p_ext c) (bm_of_bytes (p_my c))) (p_steps c) 0 [].

(* the first step the model could not follow, with the model state it was taken in: the
   send-time clauses of the monitors still apply to what the implementation wrote there *)
Fixpoint first_unmatched (s : pstate) (steps : list pstep) : option (pstate * pstep) :=
  match steps with
  | [] => None
  | o :: rest =>
    let extra := match st_op o with OpEv (PeerRequest cs) => length cs | _ => O end in
    match find_k (kmax s + extra) 0 s o with
    | None => Some (s, o)
    | Some r => first_unmatched (a_st (fst r)) rest
    end
  end.
Definition unmatched (c : pcase) : option (pstate * pstep) :=
  first_unmatched (init_state (p_geo c) (p_fast c) (p_ext c) (bm_of_bytes (p_my c))) (p_steps c).

Definition corr_peer (c : pcase) : bool := match fst (run_case c) with None => true | Some _ => false end.
Definition bad_corr_peer (cs : list pcase) : list N := map p_id (filter (fun c => negb (corr_peer c)) cs).
Definition bad_corr_steps (cs : list pcase) : list (N * N) :=
  flat_map (fun c => match fst (run_case c) with Some i => [(p_id c, i)] | None => [] end) cs.

(* ---------- C05 monitor: never a panic; allocation proportional to the message ---------- *)

Definition msg_size (m : msg) : N := len (match m with
  | Bitfield b => b | Piece _ _ d => d | ExtendedMetadata _ _ _ _ d => d
  | ExtendedPex _ a d => repeat 0 (18 * (length a + length d))
  | Extended0 e => repeat 0 (100 + length (e_version e) + 16 * length (e_messages e))
  | _ => [] end) + 20.

Definition op_size (o : op) : N :=
  match o with
  | OpMsg m _ => msg_size m
  | OpEv (PeerRequest cs) => 64 * llen cs + 64
  | OpEv (PeerPex ps _) => 64 * llen ps + 64
  | OpEv (PeerMetadataComplete g) => num_pieces g + 64
  | OpUpload _ (Some d) => len d + 64
  | _ => 64
  end.

(* Allocation bound for one handled message: proportional to the message, plus a
   constant.  The one exception is a Have received before the metadata is known: the
   bitmap may then grow up to max_pieces_unknown bits (838,861 bytes), the cap imposed
   by the handler itself, which is also what a maximal Bitfield frame may claim. *)
Definition alloc_bound (s : pstate) (o : op) : N :=
  (* a handler may copy the peer's current bitmap (when it is retracted: TorPeerBitmap carries a copy) *)
  3 * blen (peer_bm s) +
  match o, s_geo s with
  | OpMsg (Have _) _, None => max_pieces_unknown / 8 + 65536
  | _, _ => 24 * op_size o + 65536
  end.

(* ... and the model's cost function accounts for what the Go runtime measured (TotalAlloc over
   the handler), up to the constant factor and slack of Go's allocator and of the messages and
   events the handler builds: this is what ties Properties/C05.v's c05_alloc_proportional to peer.go *)
Definition mon05_step (x : pstate * res * pstep) : bool :=
  let '(s, r, o) := x in
  negb (verdict_eqb (st_verdict o) VPanic) &&
  match st_op o with
  | OpMsg m ad =>
    (* the piece store's buffer for a piece's first block is an oracle of this model (C01/C03) *)
    let store := match m, ad, s_geo s with Piece _ _ _, Some _, Some g => 2 * psize g | _, _, _ => 0 end in
    (st_alloc o <=? alloc_bound s (st_op o)) && (st_alloc o <=? 24 * a_alloc (fst r) + store + 65536)
  | _ => true
  end.
(* a panic is a violation whether or not the model could follow the history up to it *)
(* ... and, whether or not the model can follow the history, no observed step allocates more than
   a constant factor of its input plus the largest buffers a handler may legitimately create (a
   bitmap for the 838,861-byte cap before the metadata is known, a piece buffer, a 128 KiB block) *)
Definition mon05_free (c : pcase) (o : pstep) : bool :=
  let store := match p_geo c with Some g => 2 * psize g | None => 0 end in
  match st_op o with
  | OpMsg _ _ => st_alloc o <=? 24 * op_size (st_op o) + store + 65536 + 1048576
  | OpUpload _ _ => st_alloc o <=? 24 * 131072 + store + 65536 + 1048576
  | _ => true
  end.
Definition monitor05 (c : pcase) : bool :=
  forallb (fun o => negb (verdict_eqb (st_verdict o) VPanic)) (p_steps c) &&
  forallb (mon05_free c) (p_steps c) &&
  forallb mon05_step (snd (run_case c)).
Definition bad_monitor05 (cs : list pcase) : list N := map p_id (filter (fun c => negb (monitor05 c)) cs).

(* debugging aid: at the first step the model cannot reproduce, the observed step and
   what the model produces for the first oracle values *)
Fixpoint explain_steps (s : pstate) (steps : list pstep) : option (pstep * list (nat * bool * verdict * list msg * list tev * psnap)) :=
  match steps with
  | [] => None
  | o :: rest =>
    match find_k (kmax s + 8) 0 s o with
    | Some r => explain_steps (a_st (fst r)) rest
    | None =>
      Some (o, map (fun k => let r := step s (st_ballast o) (st_op o) k in
                             (k, a_legit (fst r), snd r, a_msgs (fst r), a_evs (fst r), snap_of (a_st (fst r)))) [0%nat; 1%nat; 2%nat; 3%nat])
    end
  end.
Definition explain (c : pcase) :=
  explain_steps (init_state (p_geo c) (p_fast c) (p_ext c) (bm_of_bytes (p_my c))) (p_steps c).

(* ---------- C11 monitor: everything we send is protocol-conformant ---------- *)

Definition nchunks (g : geo) : N := (total g + ChunkSize - 1) / ChunkSize.

(* a block request is conformant w.r.t. the state in which the handler ran *)
Definition request_ok (s : pstate) (i b l : N) : bool :=
  match s_geo s with
  | None => false
  | Some g =>
    let c := i * cpp g + b / ChunkSize in
    (i <? num_pieces g) && bm_get (peer_bm s) i && (b mod ChunkSize =? 0) && (b <? psize g) &&
    (c <? nchunks g) && (0 <? l) &&
    (l =? N.min ChunkSize (total g - c * ChunkSize)) &&
    (s_unchoked s || is_fast s i)
  end.

Definition cancel_ok (s : pstate) (i b l : N) : bool :=
  match s_geo s with
  | None => false
  | Some g =>
    let c := i * cpp g + b / ChunkSize in
    (* refers to a request outstanding (sent, not yet cancelled) before the step *)
    existsb (fun e => (fst e =? c) && negb (snd e)) (rq_requested (s_reqs s)) &&
    (l =? N.min ChunkSize (total g - c * ChunkSize))
  end.

Fixpoint nodupN (l : list N) : bool :=
  match l with [] => true | x :: r => negb (memN x r) && nodupN r end.

Definition count_requests (ms : list msg) : N :=
  llen (filter (fun m => match m with Request _ _ _ => true | _ => false end) ms).

Definition mon11_sent (s : pstate) (o : pstep) : bool :=
  forallb (fun m =>
    match m with
    | Request i b l =>
        request_ok s i b l &&
        (* not a duplicate of a request outstanding before the step *)
        (match s_geo s with Some g => negb (memN (i * cpp g + b / ChunkSize) (map fst (rq_requested (s_reqs s)))) | None => false end)
    | Cancel i b l => cancel_ok s i b l
    | Have i => match s_geo s with Some g => i <? num_pieces g | None => false end
    | ExtendedDontHave _ i => match s_geo s with Some g => i <? num_pieces g | None => false end
    | _ => true
    end) (st_msgs o) &&
  forallb (fun m =>
    match m with
    | ExtendedPex _ added dropped =>
        forallb (fun p => negb (pfind p (px_sent (s_pexst s))) && negb (pfind p (px_pending_del (s_pexst s)))) added &&
        forallb (fun p => pfind p (px_pending_del (s_pexst s))) dropped
    | _ => true
    end) (st_msgs o).

Definition mon11_step (x : pstate * res * pstep) : bool :=
  let '(s, r, o) := x in
  let s' := a_st (fst r) in
  mon11_sent s o &&
  (* outstanding requests stay distinct, and a step that sends requests respects the queue depth *)
  nodupN (map fst (rq_requested (s_reqs s')) ++ rq_queue (s_reqs s')) &&
  ((count_requests (st_msgs o) =? 0) || (nreq s' <=? N.max 2 (s_reqq s'))).

(* scheduler commands outside the torrent are the harness's own hostile inputs: the
   monitor is only meaningful for histories whose commands name existing blocks *)
Definition commands_in_range (c : pcase) : bool :=
  forallb (fun o =>
    match st_op o with
    | OpEv (PeerHave _ _) => true
    | _ => true
    end) (p_steps c).

Definition mon11_snap (o : pstep) : bool :=
  let n := st_snap o in
  nodupN (map fst (n_requested n) ++ n_queue n) &&
  ((count_requests (st_msgs o) =? 0) || (llen (n_requested n) <=? N.max 2 (nth 4 (n_exts n) 0))).

Definition monitor11 (c : pcase) : bool :=
  forallb mon11_snap (p_steps c) &&
  forallb mon11_step (snd (run_case c)) &&
  match unmatched c with Some (s, o) => mon11_sent s o | None => true end.
Definition bad_monitor11 (cs : list pcase) : list N := map p_id (filter (fun c => negb (monitor11 c)) cs).

(* ---------- C16 monitor: upload and choking discipline ---------- *)

Definition mon16_sent (s : pstate) (o : pstep) : bool :=
  forallb (fun m =>
    match m with
    | Piece i b d =>
        (* only while unchoking, only the head of the pending requests, exactly its length *)
        s_am_unchoking s &&
        match s_requested s with
        | h :: _ => (u_index h =? i) && (u_begin h =? b) && (u_length h =? len d)
        | [] => false
        end &&
        (* and only the torrent's own bytes: inside piece i, with the content the harness stored
           there (every byte of piece i is (7 i + 1) mod 256) *)
        match s_geo s with
        | Some g => (b + len d <=? N.min (psize g) (total g - i * psize g)) &&
                    forallb (fun x => x =? (i * 7 + 1) mod 256) d
        | None => false
        end
    | _ => true
    end) (st_msgs o).

Definition mon16_step (x : pstate * res * pstep) : bool :=
  let '(s, r, o) := x in
  let s' := a_st (fst r) in
  mon16_sent s o &&
  (* nothing stays queued for a peer we are choking; queue bounded; counter in step with the flag *)
  (s_am_unchoking s' || match s_requested s' with [] => true | _ => false end) &&
  (llen (s_requested s') <=? upload_queue_max) &&
  (s_counter s' =? (if s_am_unchoking s' then 1 else 0))%Z.

(* the state clauses, judged on the implementation's own snapshot after every step,
   whether or not the model could follow the history *)
Definition mon16_snap (o : pstep) : bool :=
  let n := st_snap o in
  let am := nth 3 (n_flags n) false in
  (am || match n_upload n with [] => true | _ => false end) &&
  (llen (n_upload n) <=? upload_queue_max).

Definition monitor16 (c : pcase) : bool :=
  forallb mon16_snap (p_steps c) &&
  forallb mon16_step (snd (run_case c)) &&
  match unmatched c with Some (s, o) => mon16_sent s o | None => true end.
Definition bad_monitor16 (cs : list pcase) : list N := map p_id (filter (fun c => negb (monitor16 c)) cs).

(* ---------- the initial advertisement, observed on the wire of a real peer.Run ---------- *)
Record advcase := mk_adv { av_id : N; av_geo : geo; av_fast : bool; av_ext : bool; av_my : bm; av_obs : list msg;
                           av_stall : bool; av_returned : bool; av_announced : bool }.

Definition is_ext0 (m : msg) : bool := match m with Extended0 _ => true | _ => false end.
Definition adv_obs (c : advcase) : list msg := filter (fun m => negb (is_ext0 m)) (av_obs c).

Definition msgs_eqb (a b : list msg) : bool := list_eqb msg_eqb a b.
Definition corr_adv (c : advcase) : bool :=
  av_stall c ||
  msgs_eqb (adv_obs c) (initial_adv (Some (av_geo c)) (av_fast c) (av_my c)) &&
  (* the extended handshake comes first, exactly when the peer supports the extension protocol *)
  match av_obs c with
  | Extended0 _ :: r => av_ext c && forallb (fun m => negb (is_ext0 m)) r
  | l => negb (av_ext c) && forallb (fun m => negb (is_ext0 m)) l
  end.

(* conformance, independently of the model: every message is well-formed for this torrent,
   fast-extension messages only to peers that support it, and the whole says exactly what we have *)
Definition mon_adv (c : advcase) : bool :=
  let n := num_pieces (av_geo c) in
  (* every exit path of Run closes Done and announces the departure to the torrent (C05) *)
  av_returned c && av_announced c &&
  (av_stall c ||
   (forallb (fun m => match m with HaveAll | HaveNone => av_fast c | _ => true end) (adv_obs c) &&
    match adv_set n (adv_obs c) [] with
    | Some s => list_eqb N.eqb s (bits (av_my c))
    | None => false
    end)).

Definition bad_corr_adv (cs : list advcase) : list N := map av_id (filter (fun c => negb (corr_adv c)) cs).
Definition bad_monitor_adv (cs : list advcase) : list N := map av_id (filter (fun c => negb (mon_adv c)) cs).
