(* Check/TorfileCheck.v — correspondence and monitor predicates for C13. *)
From Storrent Require Import Base.Bytes Base.Bencode Gen.Consts Model.Wire Model.Torfile Model.TorWrite Model.Magnet Check.WireCheck.
Open Scope N_scope.

Inductive tobs :=
| TObsOk (info : bytes) (g : geometry) (cdate : Z) (trackers : list (list bytes))
         (urllist httpseeds : list bytes) (hash_ok wr_ok : bool) (written : bytes)
| TObsErr
| TObsPanic.

Record tcase := { t_id : N; t_input : bytes; t_obs : tobs }.

Definition strs_eqb := list_eqb bytes_eqb.
Definition torfile_eqb (a b : torfile) : bool :=
  strs_eqb (f_path a) (f_path b) && (f_off a =? f_off b)%Z && (f_len a =? f_len b)%Z && Bool.eqb (f_pad a) (f_pad b).
Definition geometry_eqb (a b : geometry) : bool :=
  bytes_eqb (g_name a) (g_name b) && (g_plen a =? g_plen b) && (g_total a =? g_total b)%Z &&
  list_eqb torfile_eqb (g_files a) (g_files b) && (g_nhashes a =? g_nhashes b) &&
  (g_chunks a =? g_chunks b) && (g_npieces a =? g_npieces b).

Fixpoint is_infix (fuel : nat) (p s : bytes) : bool :=
  match fuel with
  | O => false
  | S f => has_prefix p s || match s with [] => false | _ :: s' => is_infix f p s' end
  end.

(* net/url is specified, not modelled (Model/Torfile.v: url_ok, http_url), and only on the shapes the
   generator writes: lower-case scheme, "://", then printable ASCII without spaces, quotes, angle
   brackets, backslashes, '%' or '['.  When a byte mutation has produced anything else in a URL of
   the input, the lists of trackers and web seeds are not compared. *)
Definition plain_url_char (c : N) : bool :=
  (33 <=? c) && (c <=? 126) && negb ((c =? 34) || (c =? 37) || (c =? 60) || (c =? 62) || (c =? 91) || (c =? 92) || (c =? 93) || (c =? 94) || (c =? 96) || (c =? 123) || (c =? 124) || (c =? 125)).
Fixpoint after_scheme (u : bytes) : option bytes :=
  match u with
  | 58 :: 47 :: 47 :: r => Some r
  | c :: r => if (97 <=? c) && (c <=? 122) then after_scheme r else None
  | [] => None
  end.
(* ... and whose authority part (up to the first '/', '?' or '#') has no user information and at most a
   numeric port: url.Parse refuses "foo://:ar" (a byte mutation of foo://bar) for its port *)
Fixpoint host_part (r : bytes) : bytes :=
  match r with
  | c :: r' => if (c =? 47) || (c =? 63) || (c =? 35) then [] else c :: host_part r'
  | [] => []
  end.
Definition authority_ok (h : bytes) : bool :=
  negb (existsb (N.eqb 64) h) &&
  match split_at 58 h with Some (_, p) => forallb (fun c => (48 <=? c) && (c <=? 57)) p | None => true end.
Definition specified_url (u : bytes) : bool :=
  match u with
  | [] => true
  | _ => forallb plain_url_char u && match after_scheme u with Some (c :: r) => authority_ok (host_part (c :: r)) | _ => false end
  end.
Definition urls_specified (bs : bytes) : bool :=
  match decode_btor bs with
  | Some b => specified_url (b_announce b) && forallb (forallb specified_url) (b_alist b) &&
              forallb specified_url (b_urllist b) && forallb specified_url (b_httpseeds b)
  | None => true
  end.

Definition corr13 (c : tcase) : bool :=
  match read_torrent (t_input c), t_obs c with
  | ROk raw g cd tr ul hs, TObsOk info g' cd' tr' ul' hs' _ _ wr =>
      bytes_eqb raw info && geometry_eqb g g' && (cd =? cd')%Z &&
      (negb (urls_specified (t_input c)) || (list_eqb strs_eqb tr tr' && strs_eqb ul ul' && strs_eqb hs hs')) &&
      (* tor.WriteTorrent's bytes are those of the model (Model/TorWrite.v) *)
      bytes_eqb wr (write_torrent info cd' tr' ul' hs')
  | RErr, TObsErr => true
  | RPanic, TObsPanic => true
  | _, _ => false
  end.

Definition monitor13 (c : tcase) : bool :=
  match t_obs c with
  | TObsPanic => false
  | TObsErr => true
  | TObsOk info g _ _ _ _ hash_ok wr_ok _ =>
      geometry_ok g && hash_ok && wr_ok && is_infix (S (length (t_input c))) info (t_input c)
  end.

Definition bad_corr13 (cs : list tcase) : list N := map t_id (filter (fun c => negb (corr13 c)) cs).
Definition bad_monitor13 (cs : list tcase) : list N := map t_id (filter (fun c => negb (monitor13 c)) cs).

(* ---------- magnet links ---------- *)
(* MObsOk: hash, name, tracker tiers, web seed URLs, whether every web seed is of the GetRight kind *)
Inductive mobs := MObsNil | MObsErr | MObsOk (h name : bytes) (tiers : list (list bytes)) (ws : list bytes) (getright : bool) | MObsPanic.

(* on the specified shapes the outcome is the model's; everywhere: no crash, and a hash has 20 bytes *)
Definition corr_magnet (c : N * bytes * mobs) : bool :=
  let '(_, m, o) := c in
  negb (magnet_shape m) ||
  match read_magnet m, o with
  | MgNil, MObsNil | MgErr, MObsErr => true
  | MgOk h, MObsOk h' dn tiers ws gr =>
    let mp := magnet_params m in
    bytes_eqb h h' && bytes_eqb (mp_name mp) dn && gr &&
    (negb (forallb specified_url (param_values key_tr (query_of m) ++ param_values key_as (query_of m) ++ param_values key_ws (query_of m))) ||
     (list_eqb strs_eqb (mp_tiers mp) tiers && strs_eqb (mp_webseeds mp) ws))
  | _, _ => false
  end.
(* the hash named by the link: some 40 characters of the input are its hex form or some 32 its base32 form
   (judged where no escape can hide it: the specified shapes) *)
(* (the encoders of Model/Magnet.v, used in the round-trip theorems, are exercised here too: a link that
   names the hash contains the model's lower- or upper-case hex spelling or its base32 spelling of it) *)
Definition upper (c : N) : N := if (97 <=? c) && (c <=? 122) then c - 32 else c.
Fixpoint contains (p m : bytes) : bool :=
  match m with [] => match p with [] => true | _ => false end | _ :: r => has_prefix p m || contains p r end.
Definition spelled (h m : bytes) : bool :=
  contains (hex_encode h) (map lower m) || contains (b32_encode h) m.
Fixpoint names_hash (h m : bytes) : bool :=
  match m with
  | [] => false
  | _ :: r =>
    (match hex_decode (firstn 40 m) with Some x => bytes_eqb x h | None => false end) ||
    (match b32_decode 5 (firstn 32 m) with Some x => bytes_eqb x h | None => false end) ||
    names_hash h r
  end.
Definition mon_magnet (c : N * bytes * mobs) : bool :=
  let '(_, m, o) := c in
  match o with
  | MObsPanic => false
  | MObsOk h _ _ _ _ => (len h =? 20) && (negb (magnet_shape m) || (names_hash h m && spelled h m))
  | _ => true
  end.
Definition bad_corr_magnet (cs : list (N * bytes * mobs)) : list N := map (fun c => fst (fst c)) (filter (fun c => negb (corr_magnet c)) cs).
Definition bad_monitor_magnet (cs : list (N * bytes * mobs)) : list N := map (fun c => fst (fst c)) (filter (fun c => negb (mon_magnet c)) cs).
