(* Check/DhTable.v — the Diffie-Hellman values of the secrets the handshake harness uses,
   computed once here (by Base/Crypto.modexp, inside Coq) so that the case files need not
   recompute a 768-bit modular exponentiation for every case.  [mexp_memo] is proved equal
   to modexp, so the table is a cache, not an assumption. *)
From Storrent Require Import Base.Bytes Base.Crypto.
Open Scope N_scope.

Definition dh_secrets : list N :=
  [0x9a3c51e7; 0x5bd1e9950badc0de; 0xc3a5c85c97cb3127b492b66fbe98f273d4e5a1b7; 0x01000193].

Definition dh_pairs_raw : list (N * N) :=
  map (fun x => (2, x)) dh_secrets ++
  flat_map (fun x => map (fun y => (modexp 2 x P768, y)) dh_secrets) dh_secrets.

Definition dh_tab_raw : list (N * N * N) :=
  map (fun p => (fst p, snd p, modexp (fst p) (snd p) P768)) dh_pairs_raw.

Definition dh_tab : list (N * N * N) := Eval vm_compute in dh_tab_raw.

Fixpoint dh_lookup (t : list (N * N * N)) (b e : N) : option N :=
  match t with
  | [] => None
  | (b', e', r) :: t' => if (b =? b') && (e =? e') then Some r else dh_lookup t' b e
  end.

Definition mexp_memo (b e : N) : N :=
  match dh_lookup dh_tab b e with Some r => r | None => modexp b e P768 end.

Lemma dh_tab_ok : dh_tab = dh_tab_raw.
Proof. vm_compute. reflexivity. Qed.

Lemma dh_lookup_ok t b e r :
  (forall b' e' r', In (b', e', r') t -> r' = modexp b' e' P768) ->
  dh_lookup t b e = Some r -> r = modexp b e P768.
Proof.
  induction t as [|[[b' e'] r'] t IH]; cbn [dh_lookup]; intros H; [discriminate|].
  destruct ((b =? b') && (e =? e')) eqn:E.
  - intros [= <-]. apply andb_prop in E as [E1 E2]. apply N.eqb_eq in E1, E2. subst.
    apply (H b' e' r'). now left.
  - apply IH. intros b2 e2 r2 Hin. apply H. now right.
Qed.

Lemma mexp_memo_eq b e : mexp_memo b e = modexp b e P768.
Proof.
  unfold mexp_memo. destruct (dh_lookup dh_tab b e) as [r|] eqn:E; [|reflexivity].
  apply (dh_lookup_ok dh_tab b e r); [|exact E].
  rewrite dh_tab_ok. unfold dh_tab_raw. intros b' e' r' Hin.
  apply in_map_iff in Hin as ([b2 e2] & [= <- <- <-] & _). reflexivity.
Qed.
