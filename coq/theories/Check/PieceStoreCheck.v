(* Check/PieceStoreCheck.v — correspondence and monitors for the piece store (C01, C03). *)
From Storrent Require Import Base.Bytes Model.PieceStore Model.Expire.
Open Scope N_scope.

Definition CS : N := 16384.

Inductive pk :=
| PAdd (i b n corrupt : N) | PFin (i : N) | PRead (off len : N) | PAge (i secs : N)
| PExpire (target : N) (evicted reported : list N) | PDelAll.

(* error classes: 0 none, 1 other, 2 hash mismatch, 3 deleted, 4 EOF *)
Record pobs := mk_pobs {
  po_k : pk; po_count : N; po_complete : bool; po_err : N; po_readn : N; po_readok : bool;
  po_holds : list N; po_done : list N; po_blocks : list (list N);
  po_scount : N; po_sbytes : N; po_alloc : N; po_panic : bool }.
Record pcase := mk_pcase { pcs_id : N; pcs_psize : N; pcs_total : N; pcs_ops : list pobs }.
Record stress := mk_stress { sx_id : N; sx_delete : bool; sx_bad : N; sx_alloc : N; sx_held : N; sx_count : N;
                             sx_post : N; sx_panic : bool }.

Section Geo.
Variable psize total : N.

Definition np : N := (total + psize - 1) / psize.
Definition plenN (i : N) : N := N.min psize (total - i * psize).
Definition nblocksN (i : N) : N := (plenN i + CS - 1) / CS.
Definition blen (i b : N) : N := N.min CS (plenN i - b * CS).

(* the content of block b of piece i, and its corrupt variants *)
Definition tv (i b : N) : N := 1 + i * 1000 + b.
Definition val (i b corrupt : N) : N := tv i b + corrupt * 1000000.

Definition Hh (l : list (option N)) : N :=
  fold_left (fun acc x => (acc * 1000003 + match x with Some v => v + 1 | None => 0 end) mod 18446744073709551557) l 7.
Definition true_buf (i : nat) : list (option N) :=
  map (fun b => Some (tv (N.of_nat i) (N.of_nat b))) (seq 0 (N.to_nat (nblocksN (N.of_nat i)))).
Definition exp (i : nat) : N := Hh (true_buf i).
Definition nbl (i : nat) : nat := N.to_nat (nblocksN (N.of_nat i)).
Definition pl (i : nat) : N := plenN (N.of_nat i).

Definition mstep := step Hh exp nbl pl.

Fixpoint listN_eqb (a b : list N) : bool :=
  match a, b with [], [] => true | x :: a', y :: b' => (x =? y) && listN_eqb a' b' | _, _ => false end.
Fixpoint memNb (x : N) (l : list N) : bool := match l with [] => false | y :: r => (x =? y) || memNb x r end.

Definition idxs (f : pc -> bool) (s : store) : list N :=
  map (fun p => N.of_nat (fst p)) (filter (fun p => f (snd p)) (combine (seq 0 (length (st_pieces s))) (st_pieces s))).
Definition holds_b (p : pc) : bool := match pc_buf p with Some _ => true | None => false end.
Definition done_b (p : pc) : bool := match pc_state p with Complete => true | _ => false end.
Definition set_blocks (p : pc) : list N :=
  match pc_buf p with
  | None => []
  | Some l => map (fun q => N.of_nat (fst q)) (filter (fun q => match snd q with Some _ => true | None => false end) (combine (seq 0 (length l)) l))
  end.

Definition state_ok (s : store) (o : pobs) : bool :=
  listN_eqb (idxs holds_b s) (po_holds o) && listN_eqb (idxs done_b s) (po_done o) &&
  (fix eq (a b : list (list N)) := match a, b with [], [] => true | x :: a', y :: b' => listN_eqb x y && eq a' b' | _, _ => false end)
    (map set_blocks (st_pieces s)) (po_blocks o) &&
  (st_count s =? po_scount o) && (st_count s * psize =? po_sbytes o) && (st_alloc s =? po_alloc o).

(* bytes of the blocks b .. b+cnt-1 of piece i *)
Definition span (i b : N) (cnt : nat) : N := fold_left (fun acc k => acc + blen i (b + N.of_nat k)) (seq 0 cnt) 0.

Definition pstep_ok (s : store) (o : pobs) : option store :=
  let r :=
    match po_k o with
    | PAdd i b n corrupt =>
      let avail := N.to_nat (N.min n (nblocksN i - b)) in
      let data := map (fun k => val i (b + N.of_nat k) corrupt) (seq 0 avail) in
      let (s', res) := mstep s (AAdd (N.to_nat i) (N.to_nat b) data) in
      match res with
      | RAdded cnt complete =>
        if (span i b cnt =? po_count o) && Bool.eqb complete (po_complete o) && (po_err o =? 0) then Some s' else None
      | RErr => if (po_count o =? 0) && negb (po_err o =? 0) then Some s' else None
      | _ => if (po_count o =? 0) && negb (po_complete o) && (po_err o =? 0) then Some s' else None
      end
    | PFin i =>
      let (s1, r1) := mstep s (AFinBegin (N.to_nat i)) in
      match r1 with
      | RErr => if (po_err o =? 3) && negb (po_complete o) then Some s1 else None
      | _ =>
        let (s2, r2) := mstep s1 (AFinEnd (N.to_nat i)) in
        match r2 with
        | RFinal true => if po_complete o && (po_err o =? 0) then Some s2 else None
        | RFinal false => if negb (po_complete o) && (po_err o =? 2) then Some s2 else None
        | _ => if negb (po_complete o) && (po_err o =? 0) then Some s2 else None
        end
      end
    | PRead off len =>
      let i := off / psize in
      let begin := off mod psize in
      let want := if done_b (get s (N.to_nat i)) then N.min len (plenN i - begin) else 0 in
      if (po_readn o =? want) && (po_err o =? 0) then Some s else None
    | PAge _ _ => Some s
    | PExpire _ evicted reported =>
      let r := fold_left (fun acc i => match acc with
                           | None => None
                           | Some (st, rep) =>
                             match mstep st (ADel (N.to_nat i)) with
                             | (st', RDeleted c) => Some (st', if c then rep ++ [i] else rep)
                             | _ => None
                             end
                           end) evicted (Some (s, [])) in
      match r with
      | Some (s', rep) => if listN_eqb rep reported then Some s' else None
      | None => None
      end
    | PDelAll =>
      let s1 := fst (mstep s ASetDeleted) in
      Some (fold_left (fun st i => fst (mstep st (ADelForce i))) (seq 0 (length (st_pieces s1))) s1)
    end in
  match r with
  | Some s' => if state_ok s' o && negb (po_panic o) then Some s' else None
  | None => None
  end.

Fixpoint prun (s : store) (os : list pobs) : bool :=
  match os with [] => true | o :: r => match pstep_ok s o with Some s' => prun s' r | None => false end end.

(* ---------- on the observations alone ---------- *)

Definition sum_plen (l : list N) : N := fold_left (fun acc i => acc + plenN i) l 0.
Fixpoint age_of (ages : list (N * N)) (i : N) : option N :=
  match ages with [] => None | (j, a) :: r => if j =? i then Some a else age_of r i end.

Fixpoint pmon (ages : list (N * N)) (prev_holds prev_done : list N) (deleted : bool) (os : list pobs) : bool :=
  match os with
  | [] => true
  | o :: r =>
    negb (po_panic o) &&
    (* the memory accounted is that of the buffers held *)
    (po_alloc o =? sum_plen (po_holds o)) && (po_scount o =? N.of_nat (length (po_holds o))) &&
    (* only verified pieces hold readable data, and a verified piece holds a buffer *)
    forallb (fun i => memNb i (po_holds o)) (po_done o) &&
    (* after deletion nothing is held or allocated *)
    (negb deleted || match po_holds o with [] => true | _ => false end) &&
    match po_k o with
    | PRead off len => po_readok o && ((po_readn o =? 0) || memNb (off / psize) (po_done o))
    | PExpire target evicted reported =>
      (* down to the target, unless nothing is left to evict *)
      ((po_sbytes o <=? target) || match po_holds o with [] => true | _ => false end) &&
      (* every verified piece dropped is reported, and nothing else *)
      listN_eqb reported (filter (fun i => memNb i prev_done) evicted) &&
      (* least recently accessed first *)
      forallb (fun e => forallb (fun k => match age_of ages e, age_of ages k with
                                          | Some ae, Some ak => ak <=? ae
                                          | _, _ => true end) (po_holds o)) evicted
    | _ => true
    end &&
    pmon (match po_k o with PAge i secs => (i, secs) :: ages | _ => ages end) (po_holds o) (po_done o)
         (deleted || match po_k o with PDelAll => true | _ => false end) r
  end.

End Geo.

Definition corr_ps (c : pcase) : bool :=
  prun (pcs_psize c) (pcs_total c) (init (N.to_nat (np (pcs_psize c) (pcs_total c)))) (pcs_ops c).
Definition mon_ps (c : pcase) : bool := pmon (pcs_psize c) (pcs_total c) [] [] [] false (pcs_ops c).

Definition mon_stress (x : stress) : bool :=
  negb (sx_panic x) && (sx_bad x =? 0) && (sx_alloc x =? sx_held x) &&
  (negb (sx_delete x) || ((sx_alloc x =? 0) && (sx_count x =? 0) && (sx_post x =? 1))).

Definition bad_corr_ps (cs : list pcase) : list N := map pcs_id (filter (fun c => negb (corr_ps c)) cs).
Definition bad_monitor_ps (cs : list pcase) : list N := map pcs_id (filter (fun c => negb (mon_ps c)) cs).
Definition bad_monitor_stress (cs : list stress) : list N := map sx_id (filter (fun c => negb (mon_stress c)) cs).

(* the global eviction pass: return code + 1, memory before and after, and per torrent *)
Record gx := mk_gx { gx_id : N; gx_mark : N; gx_rc : N; gx_before : N; gx_after : N; gx_panic : bool; gx_dirty : bool;
                     gx_sizes : list Z; gx_afters : list Z }.

Fixpoint all2 {A C} (f : A -> C -> bool) (l1 : list A) (l2 : list C) : bool :=
  match l1, l2 with
  | [], [] => true
  | a :: r1, b :: r2 => f a b && all2 f r1 r2
  | _, _ => false
  end.

(* it never crashes; when it decides to evict (rc = -1) memory comes down to the low-water mark
   (7/8 of the target); otherwise memory was below the target.  Its decision and the share it
   gives each torrent are those of Model/Expire.v: torrents above the share come down to it, the
   others are left alone. *)
Definition mon_gx (g : gx) : bool :=
  gx_dirty g ||
  (negb (gx_panic g) &&
   (if gx_rc g =? 0 then (gx_after g <=? gx_mark g * 7 / 8) || (gx_before g =? 0)
    else gx_before g <? N.max 1 (gx_mark g)) &&
   (gx_after g <=? gx_before g) &&
   (let '(rc, share) := expire_plan (Z.of_N (gx_mark g)) (Z.of_N (gx_before g)) (gx_sizes g) in
    (Z.of_N (gx_rc g) - 1 =? rc)%Z &&
    match share with
    | None => all2 Z.eqb (gx_sizes g) (gx_afters g)
    | Some f2 => all2 (fun b a => if asked f2 b then (a <=? f2)%Z && (0 <=? a)%Z else (a =? b)%Z) (gx_sizes g) (gx_afters g)
    end)).
Definition bad_monitor_gx (gs : list gx) : list N := map gx_id (filter (fun g => negb (mon_gx g)) gs).
