(* Check/WireSpecCheck.v — correspondence and monitor predicates for C06. *)
From Storrent Require Import Base.Bytes Base.Bencode Gen.Consts Model.Wire Model.WireSpec Check.WireCheck.
Open Scope N_scope.

(* one case: a list of messages written by protocol.Write into one stream, the bytes
   produced, and what protocol.Read decoded from those bytes under some cut pattern *)
Record scase := {
  s_id : N;
  s_msgs : list msg;
  s_written : bytes;
  s_read : list msg;
  s_clean : bool        (* reading ended with a clean end-of-stream, not an error *)
}.

Definition msgs_eqb := list_eqb msg_eqb.

(* the property on the implementation's own behaviour, judged against the independent codec *)
(* extension sub-ids are chosen by the receiving side; storrent reads a message back
   as itself only when it was sent with storrent's own numbering *)
Definition own_sub (m : msg) : bool :=
  match m with
  | ExtendedPex s _ _ => s =? ExtPex
  | ExtendedMetadata s _ _ _ _ => s =? ExtMetadata
  | ExtendedDontHave s _ => s =? ExtDontHave
  | _ => true
  end.

Definition monitor6 (c : scase) : bool :=
  bytes_eqb (s_written c) (concat (map encode_spec (s_msgs c)))
  && (negb (forallb own_sub (s_msgs c)) || (s_clean c && msgs_eqb (s_read c) (map norm (s_msgs c)))).

(* model vs implementation: the stream decoder of the model reads the written bytes
   exactly as protocol.Read did *)
Definition corr6 (c : scase) : bool :=
  let (ms, e) := decode_stream (S (length (s_written c))) (s_written c) in
  msgs_eqb ms (s_read c) && Bool.eqb (match e with None => true | Some _ => false end) (s_clean c).

Definition bad_corr6 (cs : list scase) : list N := map s_id (filter (fun c => negb (corr6 c)) cs).
Definition bad_monitor6 (cs : list scase) : list N := map s_id (filter (fun c => negb (monitor6 c)) cs).
