(* Check/WebseedCheck.v — correspondence and monitor predicates for C14. *)
From Storrent Require Import Base.Bytes Base.Bencode Gen.Consts Model.Wire Model.Torfile Model.Namespace Model.Webseed Check.WireCheck Check.NamespaceCheck.
Open Scope N_scope.

(* the test stream of the writer cases: byte j is (13 j + 5) mod 256; sbytes p n is the
   n bytes from position p on (keeps case files small) *)
Fixpoint sbytes_from (fuel : nat) (p : N) : bytes :=
  match fuel with O => [] | S f => ((13 * p + 5) mod 256) :: sbytes_from f (p + 1) end.
Definition sbytes (p n : N) : bytes := sbytes_from (N.to_nat n) p.

Definition fchunk_eqb (a b : fchunk) : bool :=
  path_eqb (fc_path a) (fc_path b) && (fc_flen a =? fc_flen b)%Z && (fc_off a =? fc_off b)%Z &&
  (fc_len a =? fc_len b)%Z && Bool.eqb (fc_pad a) (fc_pad b).

Definition wev_eqb (a b : wev) : bool :=
  match a, b with
  | WData o c, WData o' c' | WDrop o c, WDrop o' c' => (o =? o') && (c =? c')
  | WStore o d, WStore o' d' => (o =? o') && bytes_eqb d d'
  | _, _ => false
  end.

Inductive wcall := CWrite (p : bytes) | CReadFrom (stream : bytes) (cuts : list N) | CClose.

(* per call: bytes accepted (n), error class 0 none / 1 short / 2 closed / 3 other, events *)
Record wcallobs := { wc_call : wcall; wc_n : N; wc_err : N; wc_evs : list wev }.

Inductive wobs14 :=
| OChunks (files : list torfile) (psize : N) (total : Z) (index offset length : N) (chunks : list fchunk)
(* a writer on a piece of length pl, range [start, start+length): calls, and the final content
   of the range's blocks as (offset, bytes) for the blocks present *)
| OWriter (pl start length : N) (calls : list wcallobs) (stored : list (N * bytes))
(* a GetRight fetch: per file chunk the response the server gave and what the model decides;
   flags computed by the harness: every stored byte is the right byte of the right file,
   nothing outside the range was stored, reservations were all released *)
| OGet (decisions : list (N * crange * option (option Z) * Z * Z * Z * bool (* some data of this chunk stored *)))
       (content_ok inrange_ok released_ok : bool)
| OPanic14.

Record wcase14 := { w14_id : N; w14_obs : wobs14 }.

Definition err_class (e : werr2) : N :=
  match e with WNoErr => 0 | WShort => 1 | WClosed => 2 | WAdd _ => 3 | WEOF => 4 end.

(* only TorData/TorDrop are visible to the harness; stores are compared through [stored] *)
Definition visible (l : list wev) : list wev :=
  filter (fun e => match e with WStore _ _ => false | _ => true end) l.

Fixpoint run_writer (pl : N) (s : wstate) (calls : list wcallobs) (stores : list wev) : bool * list wev :=
  match calls with
  | [] => (true, stores)
  | c :: rest =>
    match wc_call c with
    | CWrite p =>
      let '(s', n, evs, err) := w_Write pl s p in
      if (n =? wc_n c) && (err_class err =? wc_err c) && list_eqb wev_eqb (visible evs) (wc_evs c)
      then run_writer pl s' rest (stores ++ evs) else (false, stores)
    | CReadFrom stream cuts =>
      let '(s', n, evs, err, _) := w_ReadFrom pl s stream cuts in
      if (n =? wc_n c) && (err_class err =? wc_err c) && list_eqb wev_eqb (visible evs) (wc_evs c)
      then run_writer pl s' rest (stores ++ evs) else (false, stores)
    | CClose =>
      let (s', evs) := w_Close s in
      if list_eqb wev_eqb evs (wc_evs c) then run_writer pl s' rest (stores ++ evs) else (false, stores)
    end
  end.

(* the blocks the model stored, as (offset, bytes) per 16 KiB block, in order of offset *)
Fixpoint blocks_of (off : N) (data : bytes) (fuel : nat) : list (N * bytes) :=
  match fuel with
  | O => []
  | S f => match data with
           | [] => []
           | _ => (off, firstn (N.to_nat ChunkSize) data) :: blocks_of (off + ChunkSize) (skipn (N.to_nat ChunkSize) data) f
           end
  end.
Definition stored_blocks (evs : list wev) : list (N * bytes) :=
  flat_map (fun e => match e with WStore o d => blocks_of o d (S (length d)) | _ => [] end) evs.

Definition corr14 (c : wcase14) : bool :=
  match w14_obs c with
  | OChunks files psize total index offset length chunks =>
      list_eqb fchunk_eqb (file_chunks files psize total index offset length) chunks
  | OWriter pl start length calls stored =>
      let '(ok, evs) := run_writer pl {| w_off := start; w_count := length; w_buf := []; w_closed := false |} calls [] in
      ok && list_eqb (fun a b : N * bytes => (fst a =? fst b) && bytes_eqb (snd a) (snd b)) (stored_blocks evs) stored
  | OGet decisions _ _ _ =>
      forallb (fun d => let '(status, cr, cl, off, len, flen, stored) := d in
                        match get_decide status cr cl off len flen with
                        | GRefuse => negb stored
                        | GCopy _ => true
                        end) decisions
  | OPanic14 => false
  end.

(* C14 on the observations alone *)
Fixpoint tiles (chunks : list fchunk) (files : list torfile) (o : Z) : option Z :=
  match chunks with
  | [] => Some o
  | c :: r =>
    (* the chunk lies inside a file of the table with that path and length, and starts where the previous ended *)
    if existsb (fun f => path_eqb (f_path f) (fc_path c) && (f_len f =? fc_flen c)%Z && (f_off f + fc_off c =? o)%Z &&
                         (0 <=? fc_off c)%Z && (0 <? fc_len c)%Z && (fc_off c + fc_len c <=? f_len f)%Z &&
                         Bool.eqb (f_pad f) (fc_pad c)) files
    then tiles r files (o + fc_len c)%Z else None
  end.

Definition monitor14 (c : wcase14) : bool :=
  match w14_obs c with
  | OPanic14 => false
  | OChunks files psize total index offset length chunks =>
      let o := (Z.of_N index * Z.of_N psize + Z.of_N offset)%Z in
      match files with
      | [] => true
      | _ => match tiles chunks files o with
             | Some e => (e =? o + Z.of_N length)%Z
             | None => false
             end
      end
  | OWriter pl start length calls stored =>
      (* whole blocks only, inside the range; released = reserved *)
      forallb (fun b => (start <=? fst b) && (fst b + len (snd b) <=? start + length) &&
                        (fst b mod ChunkSize =? 0)) stored &&
      (let released := fold_left (fun acc co =>
                          fold_left (fun a e => match e with WData _ n | WDrop _ n => a + (n + ChunkSize - 1) / ChunkSize | _ => a end)
                                    (wc_evs co) acc) calls 0 in
       match rev calls with
       | co :: _ => match wc_call co with
                    | CClose => released =? (length + ChunkSize - 1) / ChunkSize
                    | _ => true
                    end
       | [] => true
       end)
  | OGet _ content_ok inrange_ok released_ok => content_ok && inrange_ok && released_ok
  end.

Definition bad_corr14 (cs : list wcase14) : list N := map w14_id (filter (fun c => negb (corr14 c)) cs).
Definition bad_monitor14 (cs : list wcase14) : list N := map w14_id (filter (fun c => negb (monitor14 c)) cs).
