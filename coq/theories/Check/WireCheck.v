(* Check/WireCheck.v — correspondence and monitor predicates for C04/C06, evaluated
   by vm_compute on case files written by the Go harness (harness/cmd/wire). *)
From Storrent Require Import Model.DepthLimiter Base.Bytes Base.Bencode Model.Wire.
Open Scope N_scope.

(* compact rendering of long uniform runs in case files *)
Definition rep (n b : N) : bytes := N.iter n (cons b) [].

Definition opt_bytes_eqb (a b : option bytes) : bool :=
  match a, b with
  | Some x, Some y => bytes_eqb x y
  | None, None => true
  | _, _ => false
  end.

Fixpoint bytes_leb (a b : bytes) : bool :=   (* lexicographic a <= b *)
  match a, b with
  | [], _ => true
  | _ :: _, [] => false
  | x :: a', y :: b' => if x <? y then true else if y <? x then false else bytes_leb a' b'
  end.

(* map semantics for Extended0.Messages: last binding wins, then sort by key *)
Fixpoint remove_key (k : bytes) (l : list (bytes * N)) : list (bytes * N) :=
  match l with
  | [] => []
  | (k', v) :: r => if bytes_eqb k k' then remove_key k r else (k', v) :: remove_key k r
  end.
Fixpoint insert_sorted (kv : bytes * N) (l : list (bytes * N)) : list (bytes * N) :=
  match l with
  | [] => [kv]
  | kv' :: r => if bytes_leb (fst kv) (fst kv') then kv :: l else kv' :: insert_sorted kv r
  end.
Fixpoint canon_messages (l : list (bytes * N)) : list (bytes * N) :=
  match l with
  | [] => []
  | (k, v) :: r =>
    let c := canon_messages r in
    match find (fun kv => bytes_eqb k (fst kv)) c with
    | Some _ => c                      (* a later binding exists *)
    | None => insert_sorted (k, v) c
    end
  end.

Fixpoint list_eqb {A} (eqb : A -> A -> bool) (a b : list A) : bool :=
  match a, b with
  | [], [] => true
  | x :: a', y :: b' => eqb x y && list_eqb eqb a' b'
  | _, _ => false
  end.

Definition peer_eqb (a b : peer) : bool :=
  bytes_eqb (p_ip a) (p_ip b) && (p_port a =? p_port b) && (p_flags a =? p_flags b).

Definition ext0_eqb (a b : ext0) : bool :=
  bytes_eqb (e_version a) (e_version b) && (e_port a =? e_port b) && (e_reqq a =? e_reqq b)
  && opt_bytes_eqb (e_ipv4 a) (e_ipv4 b) && opt_bytes_eqb (e_ipv6 a) (e_ipv6 b)
  && (e_metadata_size a =? e_metadata_size b)
  && list_eqb (fun x y => bytes_eqb (fst x) (fst y) && (snd x =? snd y))
              (canon_messages (e_messages a)) (canon_messages (e_messages b))
  && Bool.eqb (e_upload_only a) (e_upload_only b) && Bool.eqb (e_encrypt a) (e_encrypt b).

Definition msg_eqb (a b : msg) : bool :=
  match a, b with
  | KeepAlive, KeepAlive | Choke, Choke | Unchoke, Unchoke | Interested, Interested
  | NotInterested, NotInterested | HaveAll, HaveAll | HaveNone, HaveNone => true
  | Have i, Have j | SuggestPiece i, SuggestPiece j | AllowedFast i, AllowedFast j
  | Port i, Port j | ExtendedUnknown i, ExtendedUnknown j | Unknown i, Unknown j => i =? j
  | Bitfield x, Bitfield y => bytes_eqb x y
  | Request i b l, Request i' b' l' | Cancel i b l, Cancel i' b' l'
  | RejectRequest i b l, RejectRequest i' b' l' => (i =? i') && (b =? b') && (l =? l')
  | Piece i b d, Piece i' b' d' => (i =? i') && (b =? b') && bytes_eqb d d'
  | Extended0 e, Extended0 e' => ext0_eqb e e'
  | ExtendedPex s a d, ExtendedPex s' a' d' =>
      (s =? s') && list_eqb peer_eqb a a' && list_eqb peer_eqb d d'
  | ExtendedMetadata s t p z d, ExtendedMetadata s' t' p' z' d' =>
      (s =? s') && (t =? t') && (p =? p') && (z =? z') && bytes_eqb d d'
  | ExtendedDontHave s i, ExtendedDontHave s' i' => (s =? s') && (i =? i')
  | ExtendedUploadOnly s v, ExtendedUploadOnly s' v' => (s =? s') && Bool.eqb v v'
  | _, _ => false
  end.

(* what the harness observed of protocol.Read on an input *)
Inductive wobs :=
| OMsg (m : msg) (consumed allocd : N)
| OErr (e : derr) (consumed allocd : N)
| ONil (consumed : N)
| OPanic.

Record wcase := { w_id : N; w_input : bytes; w_obs : wobs }.

Definition alloc_slack : N := 65536.
Definition alloc_ok (observed bound : N) : bool := observed <=? 8 * bound + alloc_slack.

(* correspondence: the model's result on the input equals the observation *)
Definition corr (c : wcase) : bool :=
  match decode (w_input c), w_obs c with
  | DMsg m n a, OMsg m' n' a' => msg_eqb m m' && (n =? n') && alloc_ok a' a
  | DErr EBencode n a, OErr (EBencode | EEof) n' a' => (n' <=? n) && alloc_ok a' a
  | DErr e n a, OErr e' n' a' =>
      match e, e' with
      | EEof, EEof | EParse, EParse | ETooLong, ETooLong => (n =? n') && alloc_ok a' a
      | _, _ => false
      end
  | DNilNil n, ONil n' => n =? n'
  | _, _ => false
  end.

(* the property C04 itself, as a decidable predicate on (input, observation) *)
Definition frame_bound (bs : bytes) : N :=
  match announced bs with
  | Some l => if max_frame <? l then 0 else l
  | None => 0
  end.

Definition monitor (c : wcase) : bool :=
  let bs := w_input c in
  match w_obs c with
  | OPanic => false
  | ONil _ => false
  | OMsg m n a =>
      match announced bs with
      | Some l => (n =? 4 + l) && (n <=? len bs) && (l <=? max_frame) && alloc_ok a l
      | None => false
      end
  | OErr e n a =>
      (match announced bs with
       | Some l => n <=? 4 + l
       | None => n <=? len bs
       end) && alloc_ok a (frame_bound bs)
  end.

(* Known finding C04-bencode-alloc: the only failing clause is the allocation bound,
   the frame is a bencoded extended message, and the excess is explained by the
   third-party decoder allocating declared string lengths before reading them. *)
Definition is_bencoded_ext (bs : bytes) : bool :=
  match bs with
  | _ :: _ :: _ :: _ :: t :: s :: _ => (t =? 20) && (s <=? 2)
  | _ => false
  end.
Definition monitor_noalloc (c : wcase) : bool :=
  let bs := w_input c in
  match w_obs c with
  | OPanic => false
  | ONil _ => false
  | OMsg m n a =>
      match announced bs with
      | Some l => (n =? 4 + l) && (n <=? len bs) && (l <=? max_frame)
      | None => false
      end
  | OErr e n a =>
      match announced bs with
      | Some l => n <=? 4 + l
      | None => n <=? len bs
      end
  end.
Definition known_bencode_alloc (c : wcase) : bool :=
  negb (monitor c) && monitor_noalloc c && is_bencoded_ext (w_input c) &&
  match decode (w_input c), w_obs c with
  | DErr _ _ a, OErr _ _ a' => alloc_ok a' a
  | DMsg _ _ a, OMsg _ _ a' => alloc_ok a' a
  | _, _ => false
  end.

Definition bad_corr (cs : list wcase) : list N :=
  map w_id (filter (fun c => negb (corr c)) cs).
Definition bad_monitor (cs : list wcase) : list N :=
  map w_id (filter (fun c => negb (monitor c) && negb (known_bencode_alloc c)) cs).
Definition known_monitor (cs : list wcase) : list N :=
  map w_id (filter known_bencode_alloc cs).

(* the depth limiter on its own: the Go reader lets an input through exactly when the model does *)
Definition bad_lim (cs : list (N * bytes * bool)) : list N :=
  map (fun c => fst (fst c)) (filter (fun c => negb (Bool.eqb (lim_passes (snd (fst c))) (snd c))) cs).
