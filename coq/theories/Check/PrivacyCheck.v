(* Check/PrivacyCheck.v — correspondence and monitor for the privacy scenarios (C18). *)
From Storrent Require Import Base.Bytes Model.Privacy.
Open Scope N_scope.

Definition mk_conf (d : N) (t w : bool) : conf :=
  {| c_dht := if d =? 0 then DhtNone else if d =? 1 then DhtPassive else DhtNormal; c_trackers := t; c_webseeds := w |}.

Record pvcase := mk_pv {
  pv_id : N; pv_proxied : bool; pv_nwebseeds : N; pv_udp4 : N; pv_udp6 : N; pv_tcp4 : N; pv_tcp6 : N;
  pv_init : conf;
  pv_timeline : list (N * conf);          (* from this time (ms) on, this configuration is in force *)
  pv_contacts : list (N * contact);       (* everything the torrent was seen to contact, with the time *)
  pv_sync : list (pev * list contact)     (* events caused by the harness and what followed at once *)
}.

Definition st0 (c : pvcase) : tstate :=
  {| t_conf := pv_init c; t_proxied := pv_proxied c; t_nwebseeds := pv_nwebseeds c;
     t_udp4 := pv_udp4 c; t_udp6 := pv_udp6 c; t_tcp4 := pv_tcp4 c; t_tcp6 := pv_tcp6 c |}.

Definition optN_eqb (a b : option N) : bool :=
  match a, b with None, None => true | Some x, Some y => x =? y | _, _ => false end.
Definition contact_eqb (a b : contact) : bool :=
  match a, b with
  | KDht i p, KDht j q => Bool.eqb i j && (p =? q)
  | KTracker a1 a2, KTracker b1 b2 => (a1 =? b1) && (a2 =? b2)
  | KWebseed, KWebseed => true
  | KHello v p d, KHello w q e => Bool.eqb v w && (p =? q) && optN_eqb d e
  | KAccept, KAccept => true
  | _, _ => false
  end.
Fixpoint contacts_eqb (a b : list contact) : bool :=
  match a, b with [], [] => true | x :: a', y :: b' => contact_eqb x y && contacts_eqb a' b' | _, _ => false end.

Fixpoint sync_run (s : tstate) (l : list (pev * list contact)) : bool :=
  match l with
  | [] => true
  | (e, ks) :: r => let (s', ks') := pstep s e in contacts_eqb ks' ks && sync_run s' r
  end.
Definition corr_pv (c : pvcase) : bool := sync_run (st0 c) (pv_sync c).

(* the configurations in force at some moment of [a, b] *)
Fixpoint in_force (tl : list (N * conf)) (a b : N) : list conf :=
  match tl with
  | [] => []
  | (t, c) :: r =>
    let until := match r with (t', _) :: _ => t' | [] => b + 1 end in
    (if (t <=? b) && (a <? until) then [c] else []) ++ in_force r a b
  end.

Definition grace : N := 1500.

(* every contact is permitted by a configuration that was in force when it was made (or at most
   [grace] ms earlier: a fetch or an announce already under way when the switch was turned) *)
(* what a configuration change itself causes is judged against the new switches, strictly *)
Fixpoint sync_mon (s : tstate) (l : list (pev * list contact)) : bool :=
  match l with
  | [] => true
  | (e, ks) :: r =>
    let s' := fst (pstep s e) in
    match e with ESetConf _ => forallb (permitted s') ks | _ => true end && sync_mon s' r
  end.

Definition mon_pv (c : pvcase) : bool :=
  sync_mon (st0 c) (pv_sync c) &&
  forallb (fun tk => let '(t, k) := tk in
     existsb (fun cf => permitted (with_conf (st0 c) cf) k) (in_force (pv_timeline c) (t - grace) t))
    (pv_contacts c).

Definition bad_corr_pv (cs : list pvcase) : list N := map pv_id (filter (fun c => negb (corr_pv c)) cs).
Definition bad_monitor_pv (cs : list pvcase) : list N := map pv_id (filter (fun c => negb (mon_pv c)) cs).
