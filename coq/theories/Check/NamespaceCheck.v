(* Check/NamespaceCheck.v — correspondence and monitor predicates for C20. *)
From Storrent Require Import Base.Bytes Base.Bencode Model.Wire Model.Torfile Model.Namespace Check.WireCheck.
Open Scope N_scope.

Definition paths_eqb := list_eqb path_eqb.

Inductive nobs :=
(* fileParms(p), and the status / Content-Length of HEAD /<hash>/<p> *)
| NFile (p : pth) (parms : option (Z * Z)) (status : N) (clen : Z)
(* the file links of GET /<hash>/<dir>/, in order; status *)
| NListing (dir : pth) (status : N) (links : list pth)
(* the entries of GET /<hash>/<dir>/?playlist; status *)
| NPlaylist (dir : pth) (status : N) (entries : list pth)
(* FUSE: walking p from the torrent's node: kind 0 ENOENT / 1 file (size) / 2 dir *)
| NWalk (p : pth) (kind : N) (size : Z)
(* FUSE ReadDirAll of directory p (reached by walking): (name, is-dir) list *)
| NReaddir (p : pth) (ents : list (bytes * bool))
| NPanic.

Record ncase := { nc_id : N; nc_files : list torfile; nc_name : bytes; nc_total : Z; nc_obs : list nobs }.

Definition opt_zz_eqb (a b : option (Z * Z)) : bool :=
  match a, b with
  | Some (x, y), Some (x', y') => (x =? x')%Z && (y =? y')%Z
  | None, None => true
  | _, _ => false
  end.

Definition ents_eqb := list_eqb (fun a b : bytes * bool => bytes_eqb (fst a) (fst b) && Bool.eqb (snd a) (snd b)).

(* root.Lookup(name): a file node for a single-file torrent, else the top directory *)
Definition top_node (c : ncase) : fnode :=
  match nc_files c with [] => FFile (nc_name c) | _ => FDir [] end.

Definition model_walk (c : ncase) (p : pth) : N * Z :=
  match walk (nc_files c) (top_node c) p with
  | None => (0, 0%Z)
  | Some (FDir _) => (2, 0%Z)
  | Some (FFile n) => match file_attr (nc_files c) (nc_total c) n with
                      | Some sz => (1, sz)
                      | None => (0, 0%Z)
                      end
  end.

(* listings with equal paths may come in either order: compare as the implementation
   ordered them, up to the order of equal-path neighbours (paths are what is shown) *)
Definition corr_obs (c : ncase) (o : nobs) : bool :=
  match o with
  | NFile p parms status clen =>
      let m := file_parms (nc_files c) (nc_name c) (nc_total c) p in
      opt_zz_eqb m parms &&
      match m with
      | Some (_, l) => (status =? 200) && (clen =? l)%Z
      | None => status =? 404
      end
  | NListing dir status links =>
      (status =? 200) &&
      match nc_files c with
      | [] => paths_eqb links (match dir with [] => [parse (nc_name c)] | _ => [] end)
      | _ => paths_eqb links (map f_path (listing (nc_files c) dir))
      end
  | NPlaylist dir status entries =>
      match playlist (nc_files c) (nc_name c) dir with
      | Some l => (status =? 200) && paths_eqb entries l
      | None => status =? 404
      end
  | NWalk p kind size => let (k, s) := model_walk c p in (k =? kind) && (s =? size)%Z
  | NReaddir p ents =>
      match walk (nc_files c) (top_node c) p with
      | Some (FDir d) => ents_eqb ents (dir_readdir (nc_files c) d)
      | _ => false
      end
  | NPanic => false
  end.

Definition corr20 (c : ncase) : bool := forallb (corr_obs c) (nc_obs c).

(* C20 as a predicate on the observations alone, against the specification *)
Definition spec_children (files : list torfile) (p : pth) : list (bytes * bool) :=
  (* the distinct next components of the non-padding files within p, in table order *)
  readdir_loop files p [].

Definition mon_obs (c : ncase) (o : nobs) : bool :=
  let files := nc_files c in
  match o with
  | NPanic => false
  | NFile p parms status clen =>
      match files with
      | [] => match parms with
              | Some (o, l) => path_eqb p [nc_name c] && (o =? 0)%Z && (l =? nc_total c)%Z && (status =? 200) && (clen =? l)%Z
              | None => negb (path_eqb p [nc_name c]) && (status =? 404)
              end
      | _ => match parms with
             | Some (o, l) => existsb (fun f => path_eqb p (f_path f) && (f_off f =? o)%Z && (f_len f =? l)%Z) files
                              && (status =? 200) && (clen =? l)%Z
             | None => negb (existsb (fun f => path_eqb p (f_path f)) files) && (status =? 404)
             end
      end
  | NListing dir status links =>
      match files with
      | [] => true
      | _ =>
        (* exactly the files within dir (as a multiset of paths), in Compare order *)
        (length links =? length (filter (fun f => within (f_path f) dir) files))%nat &&
        forallb (fun l => existsb (fun f => path_eqb l (f_path f) && within (f_path f) dir) files) links &&
        forallb (fun f => negb (within (f_path f) dir) || existsb (path_eqb (f_path f)) links) files &&
        (fix sorted (l : list pth) : bool :=
           match l with
           | a :: ((b :: _) as r) => match path_cmp a b with Gt => false | _ => sorted r end
           | _ => true
           end) links
      end
  | NPlaylist dir status entries =>
      match files with
      | [] => true
      | _ => if existsb (fun f => within (f_path f) dir) files
             then (status =? 200) &&
                  (length entries =? length (filter (fun f => within (f_path f) dir) files))%nat &&
                  forallb (fun l => existsb (fun f => path_eqb l (f_path f) && within (f_path f) dir) files) entries
             else status =? 404
      end
  | NWalk p kind size =>
      match files with
      | [] => true
      | _ =>
        if sane files then
          match spec_resolve files p, kind with
          | RFile _ l, 1 => (size =? l)%Z
          | RDir, 2 => true
          | RNone, 0 => true
          | _, _ => false
          end
        else true
      end
  | NReaddir p ents =>
      if sane files then
        (* each name once; exactly the next components of the non-padding files within p *)
        forallb (fun e => existsb (fun f => negb (f_pad f) && within (f_path f) p &&
                                           bytes_eqb (nth (length p) (f_path f) []) (fst e) &&
                                           Bool.eqb (snd e) (length p + 1 <? length (f_path f))%nat) files) ents &&
        forallb (fun f => f_pad f || negb (within (f_path f) p) ||
                          existsb (fun e => bytes_eqb (fst e) (nth (length p) (f_path f) [])) ents) files &&
        (fix nodup (l : list (bytes * bool)) : bool :=
           match l with [] => true | e :: r => negb (existsb (fun x => bytes_eqb (fst x) (fst e)) r) && nodup r end) ents
      else true
  end.

Definition monitor20 (c : ncase) : bool := forallb (mon_obs c) (nc_obs c).

Definition bad_corr20 (cs : list ncase) : list N := map nc_id (filter (fun c => negb (corr20 c)) cs).
Definition bad_monitor20 (cs : list ncase) : list N := map nc_id (filter (fun c => negb (monitor20 c)) cs).
Definition bad_obs20 (cs : list ncase) : list (N * list nobs) :=
  flat_map (fun c => match filter (fun o => negb (corr_obs c o && mon_obs c o)) (nc_obs c) with
                     | [] => [] | l => [(nc_id c, firstn 2 l)] end) cs.
