(* Check/LifecycleCheck.v — monitors for the lifecycle scenarios (C17). *)
From Coq Require Import String.
From Storrent Require Import Base.Bytes.
Open Scope N_scope.

(* outcome codes: 0 returned a result, 1 returned "torrent is dead", 2 another error, 9 did not return *)
Record lccase := mk_lccase { lc_id : N; lc_calls : list (string * N); lc_kill : N; lc_listed : bool;
                             lc_open_conns : N; lc_reader_hangs : N; lc_left_bytes : N; lc_left_go : N;
                             lc_left_unchoking : N }.   (* upload slots still counted as taken (peer.NumUnchoking) *)

(* every call returned; the deletion itself returned; afterwards the torrent is not listed, every
   peer connection is closed, the blocked reader failed, no memory and no goroutine is left *)
Definition mon_lc (c : lccase) : bool :=
  forallb (fun x => negb (snd x =? 9)) (lc_calls c) && negb (lc_kill c =? 9) &&
  negb (lc_listed c) && (lc_open_conns c =? 0) && (lc_reader_hangs c =? 0) &&
  (lc_left_bytes c =? 0) && (lc_left_go c <=? 2) && (lc_left_unchoking c =? 0).

Definition bad_monitor_lc (cs : list lccase) : list N := map lc_id (filter (fun c => negb (mon_lc c)) cs).
