(* Check/MetadataCheck.v — correspondence and monitor predicates for C12. *)
From Storrent Require Import Base.Bytes Base.Bencode Gen.Consts Model.Wire Model.Torfile Model.Metadata Check.WireCheck.
Open Scope N_scope.

(* SHA-1 is a parameter of the model.  For execution it is instantiated with the
   indicator of the authentic info dictionary (which the harness generated): distinct
   generated contents have distinct SHA-1 digests except with negligible probability. *)
Definition Hind (auth : bytes) (x : bytes) : bytes := if bytes_eqb x auth then [1] else [0].
Definition hgood : bytes := [1].

Inductive mverdict := MVOk | MVErr | MVPanic.

Record mobs := {
  mo_verdict : mverdict;
  mo_complete : bool;
  mo_size : N;                 (* len(t.Info) *)
  mo_have : list N;            (* indices of blocks present *)
  mo_slots : N;                (* len(t.infoRequested) *)
  mo_votes : list (N * N);     (* sorted by size *)
  mo_info_ok : bool }.         (* when complete: t.Info equals the authentic dictionary and sha1(t.Info) = t.Hash *)

Record mstepo := { ms_op : mop; ms_obs : mobs }.
(* mc_expect_complete: the history ends with two honest rounds (each preceded by a
   request) after the last corruption, the dictionary is valid and the true size led the
   vote: the liveness clause of C12 then requires completion *)
Record mcase := { mc_id : N; mc_auth : bytes; mc_authentic_valid : bool; mc_expect_complete : bool;
                  mc_round1 : N; mc_steps : list mstepo }.

Fixpoint present_idx (bs : list (option bytes)) (i : N) : list N :=
  match bs with
  | [] => []
  | Some _ :: r => i :: present_idx r (i + 1)
  | None :: r => present_idx r (i + 1)
  end.

Fixpoint ins_vote (v : N * N) (l : list (N * N)) : list (N * N) :=
  match l with
  | [] => [v]
  | w :: r => if fst v <? fst w then v :: l else w :: ins_vote v r
  end.
Definition sort_votes (l : list (N * N)) : list (N * N) := fold_right ins_vote [] l.

Definition pairs_eqb := list_eqb (fun x y : N * N => (fst x =? fst y) && (snd x =? snd y)).

Definition state_matches (auth : bytes) (st : mstate) (o : mobs) : bool :=
  Bool.eqb (match ms_complete st with Some _ => true | None => false end) (mo_complete o) &&
  (if mo_complete o
   then mo_info_ok o && match ms_info st with Some i => bytes_eqb i auth | None => false end
   else (ms_size st =? mo_size o) && list_eqb N.eqb (present_idx (ms_blocks st) 0) (mo_have o) &&
        (N.of_nat (length (ms_blocks st)) =? mo_slots o) && pairs_eqb (sort_votes (ms_votes st)) (mo_votes o)).

Definition verdict_matches (r : gres) (v : mverdict) : bool :=
  match r, v with
  | GPanic, MVPanic => true
  | GPanic, _ | _, MVPanic => false
  | GErr, MVErr => true
  | (GMore | GDone), MVOk => true
  | _, _ => false
  end.

Fixpoint run_m (auth : bytes) (st : mstate) (steps : list mstepo) (i : N) : option N :=
  match steps with
  | [] => None
  | s :: rest =>
    let '(st', r, guess_ok) := mstep (Hind auth) hgood st (ms_op s) in
    if guess_ok && verdict_matches r (mo_verdict (ms_obs s)) && state_matches auth st' (ms_obs s)
    then run_m auth st' rest (i + 1) else Some i
  end.

Definition corr12 (c : mcase) : bool :=
  match run_m (mc_auth c) ms_init (mc_steps c) 0 with None => true | Some _ => false end.

(* C12 on the implementation's own observations: never a panic; complete only with
   the authentic dictionary (and only if that dictionary is valid metainfo) *)
Definition monitor12 (c : mcase) : bool :=
  forallb (fun s =>
    let o := ms_obs s in
    match mo_verdict o with MVPanic => false | _ => true end &&
    (negb (mo_complete o) || (mo_info_ok o && mc_authentic_valid c))) (mc_steps c) &&
  (negb (mc_expect_complete c) ||
   match rev (mc_steps c) with
   | s :: _ => mo_complete (ms_obs s) || match mo_verdict (ms_obs s) with MVPanic => true | _ => false end
   | [] => true
   end).

Definition bad_corr12 (cs : list mcase) : list N := map mc_id (filter (fun c => negb (corr12 c)) cs).
Definition bad_monitor12 (cs : list mcase) : list N := map mc_id (filter (fun c => negb (monitor12 c)) cs).
Definition bad_corr12_steps (cs : list mcase) : list (N * N) :=
  flat_map (fun c => match run_m (mc_auth c) ms_init (mc_steps c) 0 with Some i => [(mc_id c, i)] | None => [] end) cs.

(* Known finding C12-forged-block-holds-index: one honest round after the last
   corruption did not complete (a forged block still occupied an index, so the round
   ended in the hash-mismatch reset); the second round did. *)
Definition known12_case (c : mcase) : bool :=
  monitor12 c && mc_expect_complete c &&
  match nth_error (mc_steps c) (N.to_nat (mc_round1 c)) with
  | Some s => negb (mo_complete (ms_obs s))
  | None => false
  end.
Definition known12 (cs : list mcase) : list N := map mc_id (filter known12_case cs).
