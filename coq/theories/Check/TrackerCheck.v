(* Check/TrackerCheck.v — correspondence and monitor predicates for C15. *)
From Storrent Require Import Base.Bytes Base.Bencode Model.Wire Model.Tracker Check.WireCheck.
Open Scope N_scope.

Definition peer2_eqb (a b : bytes * N) : bool := bytes_eqb (fst a) (fst b) && (snd a =? snd b).
Definition peers2_eqb := list_eqb peer2_eqb.

(* observations *)
Inductive uobs := UObsOk (rest : bytes) | UObsTracker (msg : bytes) | UObsAction | UObsOther | UObsPanic.

Inductive aobs := AObs (ok : bool) (interval_ns : Z) (peers : list (bytes * N)) | AObsPanic.

Inductive tev :=
| TAnnounce (now : Z) (body : bytes) (notready : bool) (err : bool) (contacted : bool) (interval_after : Z)
| TState (now : Z) (st : tstate).

Inductive kcase :=
| KUdpLoop (atts : list attempt) (min action tid : N) (o : uobs)
| KUdpAnnounce (reply : bytes) (tid : N) (o : aobs)
| KHttp (body : bytes) (o : aobs) (retry_after : Z)
| KTiming (evs : list tev) (stuck : bool).

Record tcase15 := { k_id : N; k_case : kcase }.

Definition corr_udp_loop atts min action tid (o : uobs) : bool :=
  match udp_request_reply atts min action tid, o with
  | UOk r, UObsOk r' => bytes_eqb r r'
  | UErrTracker m, UObsTracker m' => bytes_eqb m m'
  | UErrAction, UObsAction => true
  | UErrTimeout, UObsOther => true
  | UPanic, UObsPanic => true
  | _, _ => false
  end.

Definition corr_udp_announce reply tid (o : aobs) : bool :=
  match udp_request_reply [ADatagram reply] 20 1 tid, o with
  | UOk r, AObs ok i ps =>
    match udp_announce_reply 4 r with
    | Some (intvl, mps, clean) => Bool.eqb ok clean && (i =? Z.of_N intvl * second)%Z && peers2_eqb ps mps
    | None => false
    end
  | (UErrTracker _ | UErrAction | UErrTimeout), AObs false _ [] => true
  | _, _ => false
  end.

Definition outcome_of (body : bytes) : outcome :=
  match http_reply body with
  | HOk i _ => {| oc_interval := wrap64 (i * second); oc_err := false; oc_failure_retry := None |}
  | HFailure _ r => {| oc_interval := 0%Z; oc_err := true; oc_failure_retry := Some r |}
  | HErr => {| oc_interval := 0%Z; oc_err := true; oc_failure_retry := None |}
  end.

Definition corr_http body (o : aobs) (retry_after : Z) : bool :=
  match http_reply body, o with
  | HOk i ps, AObs true i' ps' => (wrap64 (i * second) =? i')%Z && peers2_eqb ps ps'
  | HFailure _ r, AObs false _ [] => (r =? retry_after)%Z
  | HErr, AObs false _ [] => true
  | _, _ => false
  end.

Fixpoint run_timing (b : tbase) (evs : list tev) : bool :=
  match evs with
  | [] => true
  | TAnnounce now body notready err contacted ia :: rest =>
    let '(b', res, c) := announce b now (outcome_of body) in
    Bool.eqb c contacted &&
    match res with
    | ANotReady => notready
    | ADone e => negb notready && Bool.eqb e err && (tb_interval b' =? ia)%Z
    end && run_timing b' rest
  | TState now st :: rest =>
    match get_state b now, st with
    | TBusy, TBusy | TReady, TReady | TError, TError | TIdle, TIdle => run_timing b rest
    | _, _ => false
    end
  end.

Definition start_time : Z := 1000000000000000000%Z.

Definition corr15 (c : tcase15) : bool :=
  match k_case c with
  | KUdpLoop atts min action tid o => corr_udp_loop atts min action tid o
  | KUdpAnnounce reply tid o => corr_udp_announce reply tid o
  | KHttp body o r => corr_http body o r
  | KTiming evs _ => run_timing tb_init evs
  end.

(* C15 on the implementation's observations *)
Fixpoint spacing_ok (last : option (Z * Z)) (evs : list tev) : bool :=
  match evs with
  | [] => true
  | TAnnounce now _ _ _ contacted ia :: rest =>
    if contacted then
      match last with
      | Some (t, i) => (t + Z.max (5 * minute) i <? now)%Z
      | None => true
      end && spacing_ok (Some (now, ia)) rest
    else spacing_ok last rest
  | TState now st :: rest =>
    match st with TBusy => false | _ => true end && spacing_ok last rest
  end.

Definition monitor15 (c : tcase15) : bool :=
  match k_case c with
  | KUdpLoop _ _ _ _ UObsPanic => false
  | KUdpLoop _ _ _ _ _ => true
  | KUdpAnnounce _ _ AObsPanic => false
  | KUdpAnnounce reply _ (AObs ok _ ps) =>
      (* exactly the complete 6-byte entries after the 20-byte header, in order *)
      peers2_eqb ps (fst (entries (S (length reply)) 4 (skipn 20 reply))) || negb (20 <=? len reply)
      || match ps with [] => true | _ => false end
  | KHttp _ AObsPanic _ => false
  | KHttp _ _ _ => true
  | KTiming evs stuck => negb stuck && spacing_ok None evs
  end.

Definition bad_corr15 (cs : list tcase15) : list N := map k_id (filter (fun c => negb (corr15 c)) cs).
Definition bad_monitor15 (cs : list tcase15) : list N := map k_id (filter (fun c => negb (monitor15 c)) cs).
