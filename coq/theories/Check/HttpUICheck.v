(* Check/HttpUICheck.v — correspondence and monitor predicates for C19. *)
From Storrent Require Import Base.Bytes Base.Bencode Model.Wire Model.Tracker Model.HttpUI Check.WireCheck.
Open Scope N_scope.

Inductive uobs19 :=
(* a request with this Host header: HTTP status; did the set of torrents / their configuration change? *)
| UHost (hostport : bytes) (status : N) (changed : bool)
(* escaping functions on a hostile string: html.EscapeString, url.PathEscape, playlist title *)
| UEsc (s : bytes) (html url title : bytes)
(* a hostile string rendered on a page: does it occur raw / html-escaped / url-escaped? *)
| USite (s : bytes) (raw escaped urlescaped : bool)
(* a playlist with n entries has this many lines *)
| ULines (entries lines : N)
| UPanic19.

Record ucase := { u_id : N; u_obs : list uobs19 }.

Definition refused (status : N) : bool := (status =? 403) || (status =? 400).

Definition corr_u (o : uobs19) : bool :=
  match o with
  | UHost hp status _ =>
      match check_local hp with
      | HostOk => negb (refused status)
      | HostForbidden => status =? 403
      | HostBad => status =? 400
      end
  | UEsc s h u t => bytes_eqb (html_escape s) h && bytes_eqb (path_escape s) u && bytes_eqb (m3u_title s) t
  | USite _ _ _ _ => true
  | ULines _ _ => true
  | UPanic19 => false
  end.

(* does the host part look like a DNS name: letters, digits, hyphens and dots, at least
   one letter beyond the hexadecimal range or a hyphen, and not "localhost" *)
Definition dns_name (h : bytes) : bool :=
  forallb (fun c => is_alnum c || (c =? 45) || (c =? 46)) h &&
  existsb (fun c => ((103 <=? c) && (c <=? 122)) || ((71 <=? c) && (c <=? 90)) || (c =? 45)) h &&
  negb (bytes_eqb h localhost).

Definition mon_u (o : uobs19) : bool :=
  match o with
  | UPanic19 => false
  | UHost hp status changed =>
      (* a DNS name other than localhost is refused, and a refused request changes nothing *)
      match split_host hp with
      | Some h => if dns_name h then refused status && negb changed else negb (refused status) || negb changed
      | None => negb changed
      end
  | UEsc s h u t =>
      forallb (fun c => negb ((c =? 60) || (c =? 62) || (c =? 34) || (c =? 39))) h &&
      forallb (fun c => negb (is_url_meta c)) u &&
      forallb (fun c => negb ((c =? 10) || (c =? 13))) t
  | USite s raw escaped urlescaped =>
      (* never raw when it contains a metacharacter; and it was rendered at all *)
      (negb raw || negb (existsb is_meta s)) && (escaped || urlescaped || raw)
  | ULines entries lines => lines =? 1 + 2 * entries
  end.

Definition corr19 (c : ucase) : bool := forallb corr_u (u_obs c).
Definition monitor19 (c : ucase) : bool := forallb mon_u (u_obs c).
Definition bad_corr19 (cs : list ucase) : list N := map u_id (filter (fun c => negb (corr19 c)) cs).
Definition bad_monitor19 (cs : list ucase) : list N := map u_id (filter (fun c => negb (monitor19 c)) cs).
Definition bad_obs19 (cs : list ucase) : list (N * list uobs19) :=
  flat_map (fun c => match filter (fun o => negb (corr_u o && mon_u o)) (u_obs c) with
                     | [] => [] | l => [(u_id c, firstn 3 l)] end) cs.
