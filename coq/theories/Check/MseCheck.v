(* Check/MseCheck.v — correspondence and monitors for the handshake cases (C07, C08). *)
From Storrent Require Import Base.Bytes Base.Bencode Base.Crypto Model.Hs Model.Mse Model.CryptoConn Check.DhTable.
Open Scope N_scope.

(* long uniform runs in case files *)
Definition rep (n b : N) : bytes := N.iter n (cons b) [].

Definition mk_opts a b c d e f :=
  {| allowCH := a; preferCH := b; forceCH := c; allowE := d; preferE := e; forceE := f |}.

Record hcase := mk_hcase {
  hc_id : N; hc_group : N; hc_pair : N; hc_client : bool; hc_kind : bool; hc_opts : opts;
  hc_infohash : bytes; hc_myid : bytes; hc_hashes : list (bytes * bytes);
  hc_tape : bytes; hc_phases : list bytes; hc_orc : list N;
  (* observed on the implementation *)
  hc_code : N; hc_hash : bytes; hc_pid : bytes; hc_dht : bool; hc_fast : bool; hc_ext : bool; hc_rc4 : bool;
  hc_reads : list (N * N); hc_writes : bytes; hc_delivered : bytes; hc_payload : bytes; hc_wire : bytes;
  (* what the other end sent after its handshake, and whether it completed and received our payload *)
  hc_expect : bytes; hc_peer_ok : bool
}.

Definition prog_of (c : hcase) : prog hres :=
  if hc_client c then client_prog mexp_memo (hc_kind c) (hc_opts c) (hc_infohash c) (hc_myid c)
  else server_prog mexp_memo (hc_opts c) (hc_hashes c).

Fixpoint reads_eqb (a b : list (N * N)) : bool :=
  match a, b with
  | [], [] => true
  | (x1, y1) :: a', (x2, y2) :: b' => (x1 =? x2) && (y1 =? y2) && reads_eqb a' b'
  | _, _ => false
  end.

Definition is_some {A} (o : option A) : bool := match o with Some _ => true | None => false end.

(* which observable differs first: 0 none, 1 code, 2 result, 3 reads, 4 writes, 5 delivered, 6 wire *)
Definition corr_hs_why (c : hcase) : N :=
  let (out, s) := op_run (prog_of c) (o_init (hc_phases c) (hc_orc c) (hc_tape c)) in
  match out with
  | Err code => if hc_code c =? code then 0 else 1
  | OK r =>
    if negb (hc_code c =? 0) then 1
    else if negb (bytes_eqb (h_hash r) (hc_hash c) && bytes_eqb (h_id r) (hc_pid c) &&
                  Bool.eqb (h_dht r) (hc_dht c) && Bool.eqb (h_fast r) (hc_fast c) && Bool.eqb (h_ext r) (hc_ext c) &&
                  Bool.eqb (is_some (h_enc r)) (hc_rc4 c)) then 2
    else if negb (reads_eqb (rev (o_rd s)) (hc_reads c)) then 3
    else if negb (bytes_eqb (concat (rev (o_wr s))) (hc_writes c)) then 4
    else if negb (bytes_eqb (o_delivered s) (hc_delivered c)) then 5
    else if negb (bytes_eqb (dxor (h_enc r) (hc_payload c)) (hc_wire c)) then 6
    else 0
  end.

Definition bad_corr_hs (cs : list hcase) : list N :=
  map hc_id (filter (fun c => negb (corr_hs_why c =? 0)) cs).
Definition why_hs (cs : list hcase) : list (N * N) :=
  map (fun c => (hc_id c, corr_hs_why c)) (filter (fun c => negb (corr_hs_why c =? 0)) cs).

(* the reference run, which knows nothing of reads: (error code or 0, ambiguous) *)
Definition spec_of (c : hcase) : N * bool :=
  let (out, s) := spec_run (prog_of c) (p_init (hc_phases c) (hc_tape c)) in
  (match out with OK _ => 0 | Err code => code end, p_amb s).

(* ---------- monitors on the implementation's own observations ---------- *)

Fixpoint find_case (id : N) (cs : list hcase) : option hcase :=
  match cs with [] => None | c :: r => if hc_id c =? id then Some c else find_case id r end.

(* delivered exactly once and in order; the two ends agree *)
Definition mon_c07 (cs : list hcase) (c : hcase) : bool :=
  ((negb (hc_code c =? 0)) || negb (hc_peer_ok c) || bytes_eqb (hc_delivered c) (hc_expect c)) &&
  match (if hc_pair c =? 0 then None else find_case (hc_pair c) cs) with
  | None => true
  | Some p =>
    if (hc_code c =? 0) && (hc_code p =? 0) then
      bytes_eqb (hc_hash c) (hc_hash p) && bytes_eqb (hc_pid c) (hc_myid p) && bytes_eqb (hc_pid p) (hc_myid c) &&
      Bool.eqb (hc_rc4 c) (hc_rc4 p) && hc_dht c && hc_fast c && hc_ext c
    else true
  end.

Definition bad_monitor_c07 (cs : list hcase) : list N :=
  map hc_id (filter (fun c => negb (mon_c07 cs c)) cs).

(* the policy is honoured, the ends agree on the mode, the payload is (not) encrypted on the wire, and
   an independent implementation of the specification completes the handshake and reads our payload *)
Definition mon_c08 (cs : list hcase) (c : hcase) : bool :=
  if negb (hc_code c =? 0) then true else
  permits (hc_opts c) (if hc_rc4 c then MRC4 else MPlain) &&
  (if hc_rc4 c then (len (hc_payload c) <? 8) || negb (bytes_eqb (hc_wire c) (hc_payload c))
   else bytes_eqb (hc_wire c) (hc_payload c)) &&
  match (if hc_pair c =? 0 then None else find_case (hc_pair c) cs) with
  | None => hc_peer_ok c
  | Some p => if hc_code p =? 0 then Bool.eqb (hc_rc4 c) (hc_rc4 p) && bytes_eqb (hc_delivered c) (hc_expect c) else true
  end.

Definition bad_monitor_c08 (cs : list hcase) : list N :=
  map hc_id (filter (fun c => negb (mon_c08 cs c)) cs).

(* ---------- one scenario under several segmentations ---------- *)

(* [dg_class]: cases of a group whose incoming streams are the same (or cut short only because the
   implementation had already given up) share a class; [dg_out]: digest of the outcome *)
Record digest := mk_digest { dg_id : N; dg_group : N; dg_client : bool; dg_class : N; dg_out : bytes }.

Fixpoint first_like (d : digest) (ds : list digest) : option digest :=
  match ds with
  | [] => None
  | e :: r => if (dg_group e =? dg_group d) && Bool.eqb (dg_client e) (dg_client d) && (dg_class e =? dg_class d)
              then Some e else first_like d r
  end.

Definition bad_groups (ds : list digest) : list N :=
  map dg_id (filter (fun d => match first_like d ds with
                              | Some e => negb (bytes_eqb (dg_out e) (dg_out d))
                              | None => false end) ds).

(* ---------- the policy grid ---------- *)

Record gcase := mk_gcase { g_id : N; g_crypto : bool; g_co : N; g_so : N;
  g_cok : bool; g_sok : bool; g_crc4 : bool; g_src4 : bool; g_cplain : bool; g_splain : bool; g_agree : bool }.

Definition opts_of_N (v : N) : opts :=
  mk_opts (N.testbit v 0) (N.testbit v 1) (N.testbit v 2) (N.testbit v 3) (N.testbit v 4) (N.testbit v 5).

Definition mode_eqb (a b : conn_mode) : bool :=
  match a, b with MFail, MFail | MPlain, MPlain | MRC4, MRC4 => true | _, _ => false end.

Definition g_mode (g : gcase) : conn_mode :=
  if g_cok g && g_sok g then (if g_crc4 g then MRC4 else MPlain) else MFail.

Definition corr_grid (g : gcase) : bool :=
  mode_eqb (attempt (g_crypto g) (opts_of_N (g_co g)) (opts_of_N (g_so g))) (g_mode g).

Definition mon_grid (g : gcase) : bool :=
  if g_cok g && g_sok g then
    Bool.eqb (g_crc4 g) (g_src4 g) &&
    permits (opts_of_N (g_co g)) (g_mode g) && permits (opts_of_N (g_so g)) (g_mode g) &&
    (if g_crc4 g then negb (g_cplain g) && negb (g_splain g) else g_cplain g && g_splain g) &&
    g_agree g
  else
    (* an end that believes the connection established in a mode its policy forbids *)
    (negb (g_cok g) || permits (opts_of_N (g_co g)) (if g_crc4 g then MRC4 else MPlain)) &&
    (negb (g_sok g) || permits (opts_of_N (g_so g)) (if g_src4 g then MRC4 else MPlain)).

Definition bad_corr_grid (gs : list gcase) : list N := map g_id (filter (fun g => negb (corr_grid g)) gs).
Definition bad_monitor_grid (gs : list gcase) : list N := map g_id (filter (fun g => negb (mon_grid g)) gs).

(* ---------- crypto.Conn ---------- *)

Record cop := mk_cop { co_len : N; co_script : list (N * bool); co_n : N; co_failed : bool }.
Record ccase := mk_ccase { cc_id : N; cc_key : bytes; cc_ops : list cop; cc_wire : bytes; cc_got : bytes }.

(* the harness writes this pattern: the byte at stream offset o is (o / 1024) mod 256 *)
Fixpoint pat_from (n : nat) (off : N) : bytes :=
  match n with O => [] | S n' => (off / 1024) mod 256 :: pat_from n' (off + 1) end.

Fixpoint run_conn (ops : list cop) (s : cst) (off : N) : bool * cst :=
  match ops with
  | [] => (true, s)
  | o :: r =>
    let '(s', n, failed, _) := conn_write s (pat_from (N.to_nat (co_len o)) off) (co_script o) in
    if (n =? co_n o) && Bool.eqb failed (co_failed o) then run_conn r s' (off + co_len o) else (false, s')
  end.

Definition corr_conn (c : ccase) : bool :=
  let (ok, s) := run_conn (cc_ops c) {| c_enc := rc4_init (cc_key c); c_err := false; c_wire := [] |} 0 in
  ok && bytes_eqb (c_wire s) (cc_wire c).

Fixpoint sum_n (ops : list cop) : N := match ops with [] => 0 | o :: r => co_n o + sum_n r end.
Fixpoint total_len (ops : list cop) : N := match ops with [] => 0 | o :: r => co_len o + total_len r end.
Fixpoint latched (ops : list cop) (failed : bool) : bool :=
  match ops with
  | [] => true
  | o :: r => (if failed then (co_n o =? 0) && co_failed o else true) && latched r (failed || co_failed o)
  end.

(* judged with an RC4 that is not storrent's: the wire decrypts to a prefix of what was written, its
   length is what the Write calls reported, the receiving Conn returned exactly that, and nothing is
   written after the first failure *)
Definition mon_conn (c : ccase) : bool :=
  let plain := pat_from (N.to_nat (total_len (cc_ops c))) 0 in
  let dec := snd (rc4_xor (rc4_init (cc_key c)) (cc_wire c)) in
  bytes_eqb dec (ftake (len (cc_wire c)) plain) &&
  (sum_n (cc_ops c) =? len (cc_wire c)) &&
  bytes_eqb (cc_got c) dec &&
  latched (cc_ops c) false.

Definition bad_corr_conn (cs : list ccase) : list N := map cc_id (filter (fun c => negb (corr_conn c)) cs).
Definition bad_monitor_conn (cs : list ccase) : list N := map cc_id (filter (fun c => negb (mon_conn c)) cs).
