(* Model/Lifecycle.v — how a call into a torrent talks to the torrent's event loop, and what
   happens to it when the loop stops (tor/tor.go, the exported methods of Torrent and Reader).

   A call is a sequence of blocking channel operations; each is either a select over several
   alternatives or a bare send/receive.  The translator harness/cmd/genapi extracts this
   structure from the Go source on every run (Gen/TorApi.v).  The environment is the event
   loop: it takes queued events in order, answers them, and may stop at any moment, after which
   Done (and then Deleted) are closed and nothing is ever taken from the queue again.
   Definitions only. *)
From Coq Require Import String.
From Storrent Require Import Base.Bytes.

Inductive alt :=
| ASend       (* t.Event <- ...: enqueue an event for the loop *)
| ARecv       (* <-ch: the loop's reply to our event *)
| ADone       (* <-t.Done *)
| ADeleted    (* <-t.Deleted *)
| ACtx        (* <-ctx.Done(): may never happen *)
| APiece      (* <-done: completion of a piece; may never happen *)
| ADefault    (* default: never blocks *)
| AOther.     (* an operation the translator does not understand: may block for ever *)

Inductive cop :=
| CSel (alts : list (alt * list cop))   (* select; each alternative continues with its body *)
| CBare (a : alt).

Inductive evst := NotSent | Queued | Handled.
Inductive loopst := Running | Exited.

(* is the alternative ready?  [room]: the event queue has room *)
Definition ready (room : bool) (ev : evst) (l : loopst) (a : alt) : bool :=
  match a with
  | ASend => room
  | ARecv => match ev with Handled => true | _ => false end
  | ADone | ADeleted => match l with Exited => true | Running => false end
  | ADefault => true
  | ACtx | APiece | AOther => false
  end.

Definition after (a : alt) (ev : evst) : evst :=
  match a with ASend => Queued | _ => ev end.

(* [safe fuel prog ev l room]: from this configuration no execution leaves the call blocked for ever
   once the loop has exited.  All choices of the scheduler, of the loop (take the event, answer,
   stop) and of the queue (room or not) are explored. *)
Fixpoint safe (fuel : nat) (prog : list cop) (ev : evst) (l : loopst) (room : bool) : bool :=
  match fuel with
  | O => false
  | S f =>
    match prog with
    | [] => true
    | c :: rest =>
      let alts := match c with CSel alts => alts | CBare a => [(a, [])] end in
      let enabled := filter (fun ak => ready room ev l (fst ak)) alts in
      (* the client takes any enabled alternative *)
      forallb (fun ak => safe f (snd ak ++ rest) (after (fst ak) ev) l room) enabled &&
      match l with
      | Exited => match enabled with [] => false | _ => true end     (* nothing will ever change *)
      | Running =>
        (* the loop may stop now, or take our event and answer it *)
        safe f prog ev Exited room &&
        match ev with Queued => safe f prog Handled Running room | _ => true end
      end
    end
  end.

(* a call never hangs, whether or not the event queue has room *)
Definition call_safe (prog : list cop) : bool :=
  let n := 64%nat in   (* the calls are a handful of operations deep; running out of fuel counts as unsafe *)
  safe n prog NotSent Running true && safe n prog NotSent Running false &&
  safe n prog NotSent Exited true && safe n prog NotSent Exited false.
