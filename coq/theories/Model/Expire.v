(* Model/Expire.v — tor.Expire (tor/tor.go): the decision whether to evict, and the fair share each
   torrent is asked to come down to.  Memory sizes are int64 in the code; they are far from the
   limits of the type, so plain integers are used.  Definitions only. *)
From Coq Require Import ZArith List.
Import ListNotations.
Open Scope Z_scope.

Definition low_mark (mark : Z) : Z := mark * 7 / 8.      (* config.MemoryLowMark *)
Definition zsum (l : list Z) : Z := fold_right Z.add 0 l.

(* what Expire returns, and the target it passes to Pieces.Expire of every torrent above it *)
Definition expire_plan (mark space : Z) (sizes : list Z) : Z * option Z :=
  let low := low_mark mark in
  let high := mark in
  let mid := (low + high) / 2 in
  if space <? mid then (1, None)
  else if space <? high then (0, None)
  else
    match sizes with
    | [] => (0, None)
    | _ =>
      let fair := low / Z.of_nat (length sizes) in
      let smallspace := zsum (filter (fun b => b <=? fair) sizes) in
      let bigcount := Z.of_nat (length (filter (fun b => negb (b <=? fair)) sizes)) in
      if bigcount =? 0 then (0, None)
      else (-1, Some ((low - smallspace) / bigcount))
    end.

(* which torrents are asked to evict *)
Definition asked (fair2 : Z) (size : Z) : bool := fair2 <? size.
