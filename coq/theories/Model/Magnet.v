(* Model/Magnet.v — tor.ReadMagnet (tor/torfile.go) and hash.Parse (hash/hash.go) as far as the
   info-hash is concerned: a bare hash in hex or base32, or a magnet: URL whose xt parameters are
   searched for the first urn:btih: value that parses.  net/url is specified, not modelled, on the
   shapes of [magnet_shape] (no escapes, no ';', no '#'); elsewhere only "no crash, a hash has 20
   bytes" is judged.  Definitions only. *)
From Storrent Require Import Base.Bytes Base.Bencode Model.Wire Model.Torfile.
From Coq Require Import String.
Open Scope N_scope.

Definition hexval (c : N) : option N :=
  if (48 <=? c) && (c <=? 57) then Some (c - 48)
  else if (97 <=? c) && (c <=? 102) then Some (c - 87)
  else if (65 <=? c) && (c <=? 70) then Some (c - 55)
  else None.
Fixpoint hex_decode (s : bytes) : option bytes :=
  match s with
  | [] => Some []
  | a :: b :: r => match hexval a, hexval b, hex_decode r with
                   | Some x, Some y, Some t => Some (x * 16 + y :: t)
                   | _, _, _ => None end
  | [_] => None
  end.

(* RFC 4648 base32, standard alphabet, groups of 8 characters without padding *)
Definition b32val (c : N) : option N :=
  if (65 <=? c) && (c <=? 90) then Some (c - 65)
  else if (50 <=? c) && (c <=? 55) then Some (c - 24)
  else None.
Fixpoint b32_group (cs : bytes) (acc : N) : option N :=
  match cs with [] => Some acc | c :: r => match b32val c with Some v => b32_group r (acc * 32 + v) | None => None end end.
Definition group_bytes (v : N) : bytes :=
  [ (v / 4294967296) mod 256; (v / 16777216) mod 256; (v / 65536) mod 256; (v / 256) mod 256; v mod 256 ].
Fixpoint b32_decode (fuel : nat) (s : bytes) : option bytes :=
  match fuel with
  | O => None
  | S f =>
    match s with
    | [] => Some []
    | _ => match take 8 s with
           | Some (g, r) => match b32_group g 0, b32_decode f r with
                            | Some v, Some t => Some (group_bytes v ++ t)
                            | _, _ => None end
           | None => None
           end
    end
  end.

(* hash.Parse *)
Definition hash_parse (s : bytes) : option bytes :=
  match hex_decode s with
  | Some h => if len h =? 20 then Some h else
              match b32_decode (S (List.length s)) s with Some h' => if len h' =? 20 then Some h' else None | None => None end
  | None => match b32_decode (S (List.length s)) s with Some h' => if len h' =? 20 then Some h' else None | None => None end
  end.

Fixpoint split_on (c : N) (s cur : bytes) : list bytes :=
  match s with
  | [] => [rev cur]
  | x :: r => if x =? c then rev cur :: split_on c r [] else split_on c r (x :: cur)
  end.

Definition lower (c : N) : N := if (65 <=? c) && (c <=? 90) then c + 32 else c.
Definition is_letter (c : N) : bool := ((65 <=? c) && (c <=? 90)) || ((97 <=? c) && (c <=? 122)).
Definition scheme_char (c : N) : bool := is_letter c || ((48 <=? c) && (c <=? 57)) || (c =? 43) || (c =? 45) || (c =? 46).

(* net/url getScheme: (scheme, rest); no scheme when the first character is not a letter or another
   character than letters, digits, + - . comes before the first colon *)
Fixpoint scheme_loop (s acc : bytes) : bytes * bytes :=
  match s with
  | [] => ([], rev acc)
  | c :: r => if c =? 58 then (rev acc, r)
              else if scheme_char c then scheme_loop r (c :: acc) else ([], rev acc ++ s)
  end.
Definition get_scheme (s : bytes) : bytes * bytes :=
  match s with
  | c :: _ => if is_letter c then scheme_loop s [] else ([], s)
  | [] => ([], [])
  end.

Inductive mgres := MgNil | MgErr | MgOk (h : bytes).

Definition xt_prefix : bytes := ascii_bytes "urn:btih:".
Fixpoint first_hash (xts : list bytes) : option bytes :=
  match xts with
  | [] => None
  | v :: r => if has_prefix xt_prefix v then
                match hash_parse (skipn 9 v) with Some h => Some h | None => first_hash r end
              else first_hash r
  end.

(* url.ParseQuery as far as the xt values go: pairs separated by '&', empty pairs skipped, the key is
   what precedes the first '=' *)
Definition nonempty (p : bytes) : bool := match p with [] => false | _ => true end.
Definition xt_value (p : bytes) : list bytes :=
  match split_at 61 p with
  | Some (k, v) => if bytes_eqb k (ascii_bytes "xt") then [v] else []
  | None => []
  end.
Definition query_xts (q : bytes) : list bytes := flat_map xt_value (filter nonempty (split_on 38 q [])).

Definition read_magnet (m : bytes) : mgres :=
  match hash_parse m with
  | Some h => MgOk h
  | None =>
    let (sch, rest) := get_scheme m in
    if negb (bytes_eqb (map lower sch) (ascii_bytes "magnet")) then MgNil
    else
      let q := match split_at 63 rest with Some (_, q) => q | None => [] end in
      match first_hash (query_xts q) with Some h => MgOk h | None => MgErr end
  end.

(* the other parameters of a link (net/url specified as above: no escapes, so values are literal): every
   tr value that tracker.New accepts is a tier of its own, as and ws values that webseed.New accepts are
   GetRight web seeds (as before ws), the first dn is the name; a bare hash has none of them *)
Definition param_values (k : bytes) (q : bytes) : list bytes :=
  flat_map (fun p => match split_at 61 p with
                     | Some (k', v) => if bytes_eqb k' k then [v] else []
                     | None => if bytes_eqb p k then [[]] else []
                     end) (filter nonempty (split_on 38 q [])).
Definition key_dn : bytes := ascii_bytes "dn".
Definition key_tr : bytes := ascii_bytes "tr".
Definition key_as : bytes := ascii_bytes "as".
Definition key_ws : bytes := ascii_bytes "ws".
Definition query_of (m : bytes) : bytes := match split_at 63 (snd (get_scheme m)) with Some (_, q) => q | None => [] end.
Record mparams := { mp_name : bytes; mp_tiers : list (list bytes); mp_webseeds : list bytes }.
Definition magnet_params (m : bytes) : mparams :=
  match hash_parse m with
  | Some _ => {| mp_name := []; mp_tiers := []; mp_webseeds := [] |}
  | None =>
    let q := query_of m in
    {| mp_name := hd [] (param_values key_dn q);
       mp_tiers := map (fun u => [u]) (filter url_ok (param_values key_tr q));
       mp_webseeds := filter http_url (param_values key_as q) ++ filter http_url (param_values key_ws q) |}
  end.

(* the link storrent and other clients write for a hash: lower-case hex after magnet:?xt=urn:btih: *)
Definition hexdigit (v : N) : N := if v <? 10 then 48 + v else 87 + v.
Definition hex_encode (h : bytes) : bytes := flat_map (fun b => [hexdigit (b / 16); hexdigit (b mod 16)]) h.
Definition magnet_of (h params : bytes) : bytes := ascii_bytes "magnet:?xt=urn:btih:" ++ hex_encode h ++ params.

(* ... and the base32 form of the same link (RFC 4648, five bytes to eight characters) *)
Definition b32char (v : N) : N := if v <? 26 then 65 + v else 24 + v.
Definition enc_group (b0 b1 b2 b3 b4 : N) : bytes :=
  let v := (((b0 * 256 + b1) * 256 + b2) * 256 + b3) * 256 + b4 in
  let v1 := v / 32 in let v2 := v1 / 32 in let v3 := v2 / 32 in let v4 := v3 / 32 in
  let v5 := v4 / 32 in let v6 := v5 / 32 in let v7 := v6 / 32 in
  [ b32char (v7 mod 32); b32char (v6 mod 32); b32char (v5 mod 32); b32char (v4 mod 32);
    b32char (v3 mod 32); b32char (v2 mod 32); b32char (v1 mod 32); b32char (v mod 32) ].
Fixpoint b32_encode (bs : bytes) : bytes :=
  match bs with
  | b0 :: b1 :: b2 :: b3 :: b4 :: r => enc_group b0 b1 b2 b3 b4 ++ b32_encode r
  | _ => []
  end.
Definition magnet_of_b32 (h params : bytes) : bytes := ascii_bytes "magnet:?xt=urn:btih:" ++ b32_encode h ++ params.

(* the shapes on which net/url is specified here: letters, digits and : ? = & . / - only, and no
   path or authority part (what follows the scheme does not begin with '/') *)
Definition magnet_shape (m : bytes) : bool :=
  forallb (fun c => is_letter c || ((48 <=? c) && (c <=? 57)) || (c =? 58) || (c =? 63) || (c =? 61) || (c =? 38) || (c =? 46) || (c =? 47) || (c =? 45)) m &&
  negb (match snd (get_scheme m) with c :: _ => c =? 47 | [] => false end).
