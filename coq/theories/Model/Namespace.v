(* Model/Namespace.v — how the front-ends map names to the torrent's files:
   path.Parse/Equal/Within/Compare (path/path.go), fileParms, the directory listing and
   the playlist (http/http.go), and the FUSE node methods Lookup/ReadDirAll/Attr
   (fuse/fuse.go).  Definitions only.  A path is a list of components (byte strings). *)
From Storrent Require Import Base.Bytes Base.Bencode Model.Wire Model.Torfile.
Open Scope N_scope.

Definition pth := list bytes.
Definition slash : N := 47.

(* strings.Split(s, "/") *)
Fixpoint split_slash (s : bytes) (cur : bytes) : list bytes :=
  match s with
  | [] => [rev cur]
  | c :: r => if c =? slash then rev cur :: split_slash r [] else split_slash r (c :: cur)
  end.

Fixpoint drop_empty (l : list bytes) : list bytes :=
  match l with [] :: r => drop_empty r | _ => l end.

(* path.Parse *)
Definition parse (s : bytes) : pth := rev (drop_empty (rev (drop_empty (split_slash s [])))).

(* Path.String: strings.Join(p, "/") *)
Fixpoint join (p : pth) : bytes :=
  match p with
  | [] => []
  | [c] => c
  | c :: r => c ++ slash :: join r
  end.

Fixpoint path_eqb (p q : pth) : bool :=
  match p, q with
  | [], [] => true
  | a :: p', b :: q' => bytes_eqb a b && path_eqb p' q'
  | _, _ => false
  end.

(* Path.Within: p is strictly inside directory d *)
Fixpoint has_prefix_path (d p : pth) : bool :=
  match d, p with
  | [], _ => true
  | a :: d', b :: p' => bytes_eqb a b && has_prefix_path d' p'
  | _ :: _, [] => false
  end.
Definition within (p d : pth) : bool := (length d <? length p)%nat && has_prefix_path d p.

Fixpoint bytes_cmp (a b : bytes) : comparison :=    (* Go string comparison: bytewise *)
  match a, b with
  | [], [] => Eq
  | [], _ :: _ => Lt
  | _ :: _, [] => Gt
  | x :: a', y :: b' => match x ?= y with Eq => bytes_cmp a' b' | c => c end
  end.

(* Path.Compare *)
Fixpoint path_cmp (a b : pth) : comparison :=
  match a, b with
  | [], [] => Eq
  | [], _ :: _ => Lt
  | _ :: _, [] => Gt
  | x :: a', y :: b' => match bytes_cmp x y with Eq => path_cmp a' b' | c => c end
  end.

(* ---------- HTTP ---------- *)

(* fileParms: None = os.ErrNotExist *)
Definition file_parms (files : list torfile) (name : bytes) (total : Z) (p : pth) : option (Z * Z) :=
  match files with
  | [] => match p with
          | [c] => if bytes_eqb c name then Some (0%Z, total) else None
          | _ => None
          end
  | _ => match find (fun f => path_eqb p (f_path f)) files with
         | Some f => Some (f_off f, f_len f)
         | None => None
         end
  end.

Fixpoint insert_by (f : torfile) (l : list torfile) : list torfile :=
  match l with
  | [] => [f]
  | g :: r => match path_cmp (f_path f) (f_path g) with
              | Gt => g :: insert_by f r
              | _ => f :: l
              end
  end.
Definition sort_files (l : list torfile) : list torfile := fold_right insert_by [] l.

(* the files a directory page / playlist enumerates, in order *)
Definition listing (files : list torfile) (dir : pth) : list torfile :=
  sort_files (filter (fun f => within (f_path f) dir) files).

(* playlist: None = 404 *)
Definition playlist (files : list torfile) (name : bytes) (dir : pth) : option (list pth) :=
  match files with
  | [] => match dir with [] => Some [parse name] | _ => None end
  | _ => match listing files dir with
         | [] => None
         | l => Some (map f_path l)
         end
  end.

(* ---------- FUSE ---------- *)

Inductive fnode := FDir (name : bytes) | FFile (name : bytes).

(* directory.Lookup *)
Definition dir_lookup (files : list torfile) (dirname : bytes) (name : bytes) : option fnode :=
  let pth := parse dirname in
  match find (fun f => within (f_path f) pth &&
                       bytes_eqb (nth (length pth) (f_path f) []) name) files with
  | None => None
  | Some f =>
    let filename := join (pth ++ [name]) in
    if (length pth + 1 <? length (f_path f))%nat then Some (FDir filename) else Some (FFile filename)
  end.

(* directory.ReadDirAll without "." and "..": (name, is-directory) *)
Fixpoint readdir_loop (files : list torfile) (pth : pth) (dirs : list bytes) : list (bytes * bool) :=
  match files with
  | [] => []
  | f :: r =>
    if f_pad f then readdir_loop r pth dirs
    else if negb (within (f_path f) pth) then readdir_loop r pth dirs
    else
      let name := nth (length pth) (f_path f) [] in
      if (length pth + 1 <? length (f_path f))%nat then
        if existsb (bytes_eqb name) dirs then readdir_loop r pth dirs
        else (name, true) :: readdir_loop r pth (name :: dirs)
      else (name, false) :: readdir_loop r pth dirs
  end.
Definition dir_readdir (files : list torfile) (dirname : bytes) : list (bytes * bool) :=
  readdir_loop files (parse dirname) [].

(* file.Attr: size, None = ENOENT *)
Definition file_attr (files : list torfile) (total : Z) (fname : bytes) : option Z :=
  match files with
  | [] => Some total
  | _ => match find (fun f => path_eqb (parse fname) (f_path f)) files with
         | Some f => Some (f_len f)
         | None => None
         end
  end.

(* walking a path from the torrent's directory node, component by component *)
Fixpoint walk (files : list torfile) (node : fnode) (p : pth) : option fnode :=
  match p with
  | [] => Some node
  | c :: r =>
    match node with
    | FFile _ => None                 (* a file node has no Lookup *)
    | FDir d => match dir_lookup files d c with
                | Some n => walk files n r
                | None => None
                end
    end
  end.

(* ---------- the specification: what a path should resolve to ---------- *)

Inductive resolved := RFile (off len : Z) | RDir | RNone.

Definition spec_resolve (files : list torfile) (p : pth) : resolved :=
  match find (fun f => path_eqb p (f_path f)) files with
  | Some f => RFile (f_off f) (f_len f)
  | None => if existsb (fun f => within (f_path f) p) files then RDir else RNone
  end.

(* a sane table: valid components, distinct paths, no path a proper prefix of another *)
Definition is_nil_path (p : pth) : bool := match p with [] => true | _ => false end.

Definition sane (files : list torfile) : bool :=
  forallb (fun f => forallb valid_component (f_path f) && negb (is_nil_path (f_path f))) files &&
  (fix nodup (l : list torfile) : bool :=
     match l with
     | [] => true
     | f :: r => negb (existsb (fun g => path_eqb (f_path f) (f_path g) ||
                                         within (f_path f) (f_path g) || within (f_path g) (f_path f)) r)
                 && nodup r
     end) files.
