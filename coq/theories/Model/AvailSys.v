(* Model/AvailSys.v — the torrent's per-piece availability counters as a system: any number of
   peers (with or without metadata), each running the peer core of Model/PeerCore.v, their events
   travelling to the torrent in order, and the torrent's handler for TorPeerHave / TorPeerBitmap
   (Model/Sched.v: peer_have, peer_bitmap — saturating 16-bit counters that never go below zero).
   Definitions only. *)
From Storrent Require Import Base.Bytes Base.Bencode Gen.Consts Model.Wire Model.PeerCore Model.Sched.
Open Scope N_scope.

Record apeer := mkap { ap_state : pstate; ap_alive : bool }.
Record asys := mkas {
  v_peers : list apeer;
  v_evq : list (nat * tev);    (* events in transit to the torrent, oldest first, tagged with their sender *)
  v_done : list (nat * tev);   (* history variable: the events the torrent has handled *)
  v_avail : cnt                (* Torrent.available *)
}.
Inductive aop :=
| AJoin (g : option geo) (can_fast can_extended : bool) (my : bm)
| AStep (i : nat) (ballast : N) (o : op) (k : nat)
| AExit (i : nat)
| AHandle.

Definition tor_avail (c : cnt) (e : tev) : cnt :=
  match e with
  | TPeerHave j h => peer_have c j h
  | TPeerBitmap b h => peer_bitmap c (bits b) h
  | _ => c
  end.

Definition asys_init : asys := mkas [] [] [] [].

Definition asys_step (y : asys) (o : aop) : asys :=
  match o with
  | AJoin g cf ce my => mkas (v_peers y ++ [mkap (init_state g cf ce my) true]) (v_evq y) (v_done y) (v_avail y)
  | AStep i ballast o k =>
    match nth_error (v_peers y) i with
    | Some p =>
      if ap_alive p then
        let a := fst (step (ap_state p) ballast o k) in
        mkas (upd (v_peers y) i (mkap (a_st a) true)) (v_evq y ++ map (pair i) (a_evs a)) (v_done y) (v_avail y)
      else y
    | None => y
    end
  | AExit i =>
    match nth_error (v_peers y) i with
    | Some p =>
      if ap_alive p then
        let a := retract_bitmap (clear_requests (acc0 (ap_state p)) true) in
        mkas (upd (v_peers y) i (mkap (a_st a) false)) (v_evq y ++ map (pair i) (a_evs a)) (v_done y) (v_avail y)
      else y
    | None => y
    end
  | AHandle =>
    match v_evq y with
    | [] => y
    | (i, e) :: rest => mkas (v_peers y) rest (v_done y ++ [(i, e)]) (tor_avail (v_avail y) e)
    end
  end.

Definition b2n (b : bool) : nat := if b then 1%nat else 0%nat.
Definition advertises (i : N) (p : apeer) : bool := ap_alive p && bm_get (peer_bm (ap_state p)) i.
Definition advertisers (y : asys) (i : N) : nat := list_sum (map (fun p => b2n (advertises i p)) (v_peers y)).

