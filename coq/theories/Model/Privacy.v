(* Model/Privacy.v — what a torrent contacts, and what it reveals, as a function of its privacy
   switches (tor/tor.go: announce, trackerAnnounce*, hasWebseeds; peer/peer.go: the start of Run;
   tor/torrents.go, tor/initial.go: incoming connections).  Definitions only. *)
From Storrent Require Import Base.Bytes.
Open Scope N_scope.

Inductive dhtmode := DhtNone | DhtPassive | DhtNormal.
Definition mode_rank (m : dhtmode) : N := match m with DhtNone => 0 | DhtPassive => 1 | DhtNormal => 2 end.

Record conf := { c_dht : dhtmode; c_trackers : bool; c_webseeds : bool }.

Record tstate := {
  t_conf : conf;
  t_proxied : bool;
  t_nwebseeds : N;       (* web seeds in the metainfo *)
  t_udp4 : N; t_udp6 : N; t_tcp4 : N; t_tcp6 : N   (* the external ports *)
}.

Definition with_conf (s : tstate) (c : conf) : tstate :=
  {| t_conf := c; t_proxied := t_proxied s; t_nwebseeds := t_nwebseeds s;
     t_udp4 := t_udp4 s; t_udp6 := t_udp6 s; t_tcp4 := t_tcp4 s; t_tcp6 := t_tcp6 s |}.

Inductive contact :=
| KDht (ipv6 : bool) (port : N)                  (* dht.Announce(hash, ipv6, port) *)
| KTracker (port4 port6 : N)                     (* Tracker.Announce(..., port4, port6, proxy, ...) *)
| KWebseed                                       (* a fetch from a web seed *)
| KHello (version : bool) (port : N) (dhtport : option N)   (* extended handshake: has "v", "p"; the Port message *)
| KAccept.                                       (* an incoming connection was accepted for this torrent *)

(* Torrent.announce *)
Definition announce (s : tstate) (ipv6 : bool) : list contact :=
  match c_dht (t_conf s) with
  | DhtNone => []
  | m => [KDht ipv6 (if negb (t_proxied s) && (mode_rank DhtNormal <=? mode_rank m)
                    then (if ipv6 then t_udp6 s else t_udp4 s) else 0)]
  end.

Inductive pev :=
| ESetConf (c : conf)
| EAnnounce (ipv6 : bool)          (* TorAnnounce, and the 28-minute refresh *)
| ESlowTick (tracker_ready : bool) (* the slow ticker: a tracker is ready *)
| EFetch                           (* periodicRequest wants data nobody offers *)
| ENewPeer (can_dht can_extended : bool)
| EIncoming.                       (* a handshake for this torrent arrives on the listening socket *)

Definition pstep (s : tstate) (e : pev) : tstate * list contact :=
  match e with
  | ESetConf c =>
    let up := mode_rank (c_dht (t_conf s)) <? mode_rank (c_dht c) in
    let s' := with_conf s c in
    (s', if up then announce s' true ++ announce s' false else [])
  | EAnnounce ipv6 => (s, announce s ipv6)
  | ESlowTick ready =>
    (s, if c_trackers (t_conf s) && ready
        then [KTracker (if t_proxied s then 0 else t_tcp4 s) (if t_proxied s then 0 else t_tcp6 s)] else [])
  | EFetch => (s, if c_webseeds (t_conf s) && (0 <? t_nwebseeds s) then [KWebseed] else [])
  | ENewPeer can_dht can_ext =>
    (s, if can_ext
        then [KHello (negb (t_proxied s)) (if t_proxied s then 0 else t_tcp4 s)
                     (if can_dht && negb (t_proxied s) then Some (t_udp4 s) else None)]
        else if can_dht && negb (t_proxied s) then [KHello false 0 (Some (t_udp4 s))] else [])
  | EIncoming => (s, if t_proxied s then [] else [KAccept])
  end.

(* what the switches permit *)
Definition permitted (s : tstate) (k : contact) : bool :=
  match k with
  | KDht _ port =>
    negb (mode_rank (c_dht (t_conf s)) =? 0) &&
    ((port =? 0) || ((mode_rank (c_dht (t_conf s)) =? 2) && negb (t_proxied s)))
  | KTracker p4 p6 => c_trackers (t_conf s) && (negb (t_proxied s) || ((p4 =? 0) && (p6 =? 0)))
  | KWebseed => c_webseeds (t_conf s)
  | KHello version port dhtport =>
    negb (t_proxied s) || (negb version && (port =? 0) && match dhtport with None => true | Some _ => false end)
  | KAccept => negb (t_proxied s)
  end.

Fixpoint prun (s : tstate) (es : list pev) : list (tstate * contact) :=
  match es with
  | [] => []
  | e :: r => let (s', ks) := pstep s e in map (fun k => (s', k)) ks ++ prun s' r
  end.
