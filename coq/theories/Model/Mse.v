(* Model/Mse.v — the encryption policy (crypto.Options), the MSE handshake in both roles
   (crypto/crypto.go) and the BitTorrent handshake around it (protocol/handshake.go), as
   programs of Model/Hs.v.  Keys, hashes and the key stream are computed with the SHA-1,
   RC4 and modular exponentiation of Base/Crypto.v, so this is an implementation of the MSE
   specification that shares no code with storrent.  Definitions only. *)
From Coq Require Import String.
From Storrent Require Import Base.Bytes Base.Bencode Base.Crypto Model.Wire Model.Hs.
Open Scope N_scope.

(* ---------- options and policy ---------- *)

Record opts := { allowCH : bool; preferCH : bool; forceCH : bool;
                 allowE : bool; preferE : bool; forceE : bool }.

Definition client_provide (o : opts) : N :=
  (if forceE o then 0 else 1) + (if allowE o then 2 else 0).

(* 0: refuse *)
Definition server_select (provide : N) (o : opts) : N :=
  let p1 := N.testbit provide 0 in
  let p2 := N.testbit provide 1 in
  if p2 && allowE o && preferE o then 2
  else if p1 && negb (forceE o) && negb (preferE o) then 1
  else if p2 && allowE o then 2
  else if p1 && negb (forceE o) then 1
  else 0.

(* the client's verdict on the server's crypto_select: Some true: RC4, Some false: plaintext *)
Definition client_accept (select : N) (o : opts) : option bool :=
  if select =? 1 then (if forceE o then None else Some false)
  else if select =? 2 then (if allowE o then Some true else None)
  else None.

(* tor.DialClient: the handshake kind tried first, and the one tried if that attempt ends in
   ErrBadHandshake *)
Definition dial_first (o : opts) : bool := preferCH o && allowCH o.
Definition dial_retry (o : opts) (first : bool) : option bool :=
  if preferCH o && negb (forceCH o) && first then Some false
  else if negb (preferCH o) && allowCH o && negb first then Some true
  else None.

(* ---------- constants ---------- *)


Definition bt_header : bytes := 19 :: ascii_bytes "BitTorrent protocol".
Definition bt_reserved : bytes := [0; 0; 0; 0; 0; 16; 0; 5].
Definition bt_handshake (infohash myid : bytes) : bytes := bt_header ++ bt_reserved ++ infohash ++ myid.

Definition vc : bytes := [0; 0; 0; 0; 0; 0; 0; 0].
Definition s_req1 := ascii_bytes "req1".
Definition s_req2 := ascii_bytes "req2".
Definition s_req3 := ascii_bytes "req3".
Definition s_keyA := ascii_bytes "keyA".
Definition s_keyB := ascii_bytes "keyB".

Fixpoint xorb (a b : bytes) : bytes :=
  match a, b with x :: a', y :: b' => N.lxor x y :: xorb a' b' | _, _ => [] end.

Definition trivial (x : N) : bool := (x =? 0) || (x =? 1) || (x =? P768 - 1).

Definition pad_len (lb : bytes) : N := (nth 0 lb 0 mod 2) * 256 + nth 1 lb 0.

Definition stream_key (label sb skey : bytes) : rc4st :=
  rc4_skip 1024 (rc4_init (sha1 (label ++ sb ++ skey))).

(* the result of a handshake *)
Record hres := { h_hash : bytes; h_id : bytes; h_dht : bool; h_fast : bool; h_ext : bool;
                 h_enc : option rc4st }.     (* Some: the connection is a crypto.Conn writing with this state *)

Definition E_plain_forbidden : N := 1.
Definition E_bad_handshake : N := 2.
Definition E_infohash : N := 3.
Definition E_crypto_forbidden : N := 4.
Definition E_trivial : N := 5.
Definition E_negotiate : N := 6.
Definition E_not_encrypted : N := 7.
Definition E_encrypted : N := 8.
Definition E_bad_select : N := 9.
Definition E_unknown_torrent : N := 10.
Definition E_bad_vc : N := 11.
Definition E_no_algo : N := 12.
Definition E_extra : N := 13.
Definition E_hash_mismatch : N := 14.

Section WithDH.

(* modular exponentiation mod P768; the checker instantiates it with Base/Crypto.modexp
   (through a table of the values it already computed) *)
Variable mexp : N -> N -> N.

(* ---------- crypto.ClientHandshake ---------- *)

Definition mse_client (o : opts) (skey ia : bytes) (k : option rc4st -> prog hres) : prog hres :=
  if negb (allowCH o) then Fail E_crypto_forbidden else
  Rand 20 (fun xab =>
  let xa := be_to_N xab 0 in
  let ya := mexp 2 xa in
  Rand 2 (fun lb =>
  Rand (pad_len lb) (fun pad =>
  Write (N_to_be 96 ya [] ++ pad)
  (Need 96 608 (fun ybb =>
   let yb := be_to_N ybb 0 in
   if trivial yb then Fail E_trivial else
   let sb := N_to_be 96 (mexp yb xa) [] in
   let enc0 := stream_key s_keyA sb skey in
   let dec0 := stream_key s_keyB sb skey in
   let provide := client_provide o in
   if provide =? 0 then Fail E_negotiate else
   let (enc1, e) := rc4_xor enc0 (vc ++ [0; 0; 0; provide] ++ [0; 0] ++ enc16 (len ia) ++ ia) in
   Write (sha1 (s_req1 ++ sb) ++ xorb (sha1 (s_req2 ++ skey)) (sha1 (s_req3 ++ sb)) ++ e)
   (let (dec1, pat) := rc4_xor dec0 vc in
    Sync pat 520 526
    (Need 6 0 (fun est =>
     let (dec2, stuff) := rc4_xor dec1 est in
     let sel := be32 (nth 0 stuff 0) (nth 1 stuff 0) (nth 2 stuff 0) (nth 3 stuff 0) in
     let lpd := be16 (nth 4 stuff 0) (nth 5 stuff 0) in
     let after (dec3 : rc4st) : prog hres :=
       if sel =? 1 then (if forceE o then Fail E_not_encrypted else k None)
       else if sel =? 2 then (if allowE o then SetDec dec3 (k (Some enc1)) else Fail E_encrypted)
       else Fail E_bad_select in
     if 0 <? lpd then Need lpd 0 (fun padd => after (fst (rc4_xor dec2 padd))) else after dec2)))))))).

(* ---------- protocol.ClientHandshake ---------- *)

Definition client_tail (infohash : bytes) (enc : option rc4st) : prog hres :=
  Need 68 0 (fun b =>
  let rsv := ftake 8 (fdrop 20 b) in
  let ih := ftake 20 (fdrop 28 b) in
  if negb (bytes_eqb (ftake 20 b) bt_header) then Fail E_bad_handshake
  else if negb (bytes_eqb ih infohash) then Fail E_infohash
  else Done {| h_hash := ih; h_id := fdrop 48 b;
               h_dht := N.testbit (nth 7 rsv 0) 0; h_fast := N.testbit (nth 7 rsv 0) 2;
               h_ext := N.testbit (nth 5 rsv 0) 4; h_enc := enc |}).

Definition client_prog (crypto : bool) (o : opts) (infohash myid : bytes) : prog hres :=
  let hs := bt_handshake infohash myid in
  if crypto then mse_client o infohash hs (client_tail infohash)
  else if forceCH o || forceE o then Fail E_plain_forbidden
  else Write hs (client_tail infohash None).

(* ---------- crypto.ServerHandshake ---------- *)

Fixpoint find_skey (req2 : bytes) (skeys : list bytes) : option bytes :=
  match skeys with
  | [] => None
  | sk :: r => if bytes_eqb req2 (sha1 (s_req2 ++ sk)) then Some sk else find_skey req2 r
  end.

Definition mse_server (o : opts) (head : bytes) (skeys : list bytes)
                      (k : bytes -> option rc4st -> prog hres) : prog hres :=
  Need 76 588 (fun rest =>
  let ya := be_to_N (head ++ rest) 0 in
  if trivial ya then Fail E_trivial else
  Rand 20 (fun xbb =>
  let xb := be_to_N xbb 0 in
  let yb := mexp 2 xb in
  let sb := N_to_be 96 (mexp ya xb) [] in
  Rand 2 (fun lb =>
  Rand (pad_len lb) (fun pad =>
  Write (N_to_be 96 yb [] ++ pad)
  (Sync (sha1 (s_req1 ++ sb)) 612 1500
  (Need 20 1024 (fun req23 =>
   match find_skey (xorb req23 (sha1 (s_req3 ++ sb))) skeys with
   | None => Fail E_unknown_torrent
   | Some skey =>
     let enc0 := stream_key s_keyB sb skey in
     let dec0 := stream_key s_keyA sb skey in
     Need 14 528 (fun est =>
     let (dec1, stuff) := rc4_xor dec0 est in
     if negb (bytes_eqb (ftake 8 stuff) vc) then Fail E_bad_vc else
     let provide := be32 (nth 8 stuff 0) (nth 9 stuff 0) (nth 10 stuff 0) (nth 11 stuff 0) in
     let lpc := be16 (nth 12 stuff 0) (nth 13 stuff 0) in
     if N.land provide 3 =? 0 then Fail E_no_algo else
     let cont (dec2 : rc4st) : prog hres :=
       Need 2 1024 (fun el =>
       let (dec3, lb2) := rc4_xor dec2 el in
       let lia := be16 (nth 0 lb2 0) (nth 1 lb2 0) in
       Need lia 0 (fun eia =>
       let (dec4, ia) := rc4_xor dec3 eia in
       CheckEmpty E_extra
       (let sel := server_select provide o in
        if sel =? 0 then Fail E_negotiate else
        let (enc1, e) := rc4_xor enc0 (vc ++ [0; 0; 0; sel] ++ [0; 0]) in
        Write e
        (if sel =? 2 then SetDec dec4 (Unread ia (k skey (Some enc1)))
         else Unread ia (k skey None))))) in
     if 0 <? lpc then Need lpc 514 (fun padc => cont (fst (rc4_xor dec1 padc))) else cont dec1)
   end))))))).

(* ---------- protocol.ServerHandshake ---------- *)

Fixpoint find_hash (h : bytes) (hashes : list (bytes * bytes)) : option (bytes * bytes) :=
  match hashes with
  | [] => None
  | p :: r => if bytes_eqb h (fst p) then Some p else find_hash h r
  end.

Definition server_tail (hashes : list (bytes * bytes)) (skey : option bytes) (enc : option rc4st) : prog hres :=
  Need 28 48 (fun b =>
  let rsv := ftake 8 b in
  let hsh := fdrop 8 b in
  if match skey with Some sk => negb (bytes_eqb sk hsh) | None => false end then Fail E_hash_mismatch else
  match find_hash hsh hashes with
  | None => Fail E_unknown_torrent
  | Some hp =>
    (* conn.Write: through the crypto.Conn when RC4 was selected *)
    Write (dxor enc (bt_handshake hsh (snd hp)))
    (Need 20 0 (fun id =>
     Done {| h_hash := hsh; h_id := id;
             h_dht := N.testbit (nth 7 rsv 0) 0; h_fast := N.testbit (nth 7 rsv 0) 2;
             h_ext := N.testbit (nth 5 rsv 0) 4; h_enc := dstate enc (bt_handshake hsh (snd hp)) |}))
  end).

Definition server_prog (o : opts) (hashes : list (bytes * bytes)) : prog hres :=
  Need 20 68 (fun h =>
  let ok := bytes_eqb h bt_header in
  if ok && (forceCH o || forceE o) then Fail E_plain_forbidden
  else if negb ok && allowCH o then
    mse_server o h (map fst hashes) (fun skey enc =>
      Need 20 68 (fun h2 =>
      if bytes_eqb h2 bt_header then server_tail hashes (Some skey) enc else Fail E_bad_handshake))
  else if ok then server_tail hashes None None
  else Fail E_bad_handshake).

End WithDH.

(* ---------- the policy as a whole: storrent talking to storrent ---------- *)

Inductive conn_mode := MFail | MPlain | MRC4.

(* what the accepting end believes after an attempt with the given handshake kind *)
Definition server_view (crypto : bool) (co so : opts) : conn_mode :=
  if crypto then
    if negb (allowCH co) then MFail else      (* the client sends nothing *)
    if negb (allowCH so) then MFail else
    let provide := client_provide co in
    if provide =? 0 then MFail else
    let sel := server_select provide so in
    if sel =? 0 then MFail else if sel =? 2 then MRC4 else MPlain
  else
    if forceCH co || forceE co then MFail
    else if forceCH so || forceE so then MFail
    else MPlain.

(* what the connecting end believes *)
Definition client_view (crypto : bool) (co so : opts) : conn_mode :=
  if crypto then
    if negb (allowCH co) then MFail else
    if negb (allowCH so) then MFail else      (* the server hangs up *)
    let provide := client_provide co in
    if provide =? 0 then MFail else
    let sel := server_select provide so in
    if sel =? 0 then MFail else
    match client_accept sel co with
    | None => MFail
    | Some true => MRC4
    | Some false => MPlain
    end
  else
    if forceCH co || forceE co then MFail
    else if forceCH so || forceE so then MFail    (* the server hangs up *)
    else MPlain.

(* the connection is established when both ends believe so *)
Definition attempt (crypto : bool) (co so : opts) : conn_mode :=
  match client_view crypto co so, server_view crypto co so with
  | MFail, _ | _, MFail => MFail
  | m, _ => m
  end.

Definition permits (o : opts) (m : conn_mode) : bool :=
  match m with
  | MFail => true
  | MPlain => negb (forceE o)
  | MRC4 => allowE o
  end.
