(* Model/DepthLimiter.v — protocol.LimitBencodeDepth (protocol/reader.go): the reader put in front of
   the recursive bencode decoder wherever the data is not ours.  It follows the structure of the
   first bencoded value byte by byte and fails once it nests deeper than 64 levels.  Also: the
   decoder with a bound on its recursion, the notion against which the limiter is judged.
   Definitions only. *)
From Storrent Require Import Base.Bytes Base.Bencode.
Open Scope N_scope.

Inductive lst :=
| LStart                                       (* start of a value or of a dictionary key *)
| LInt                                         (* inside i...e *)
| LLen (n digits : N) (neg bad : bool)         (* reading a string length, as strconv.ParseInt will see it *)
| LBody (n : N)                                (* n bytes of string body left *)
| LDone.                                       (* the first value is complete, or the decoder has failed *)

Record lim := mk_lim { l_depth : N; l_st : lst }.
Definition lim_init : lim := mk_lim 0 LStart.

Definition end_value (d : N) : lst := if d =? 0 then LDone else LStart.

(* one byte; None = errTooDeep *)
Definition lstep (s : lim) (c : N) : option lim :=
  let d := l_depth s in
  match l_st s with
  | LStart =>
    if (c =? ch_l) || (c =? ch_d) then (if max_bencode_depth <? d + 1 then None else Some (mk_lim (d + 1) LStart))
    else if c =? ch_e then (if d <=? 1 then Some (mk_lim 0 LDone) else Some (mk_lim (d - 1) LStart))
    else if c =? ch_i then Some (mk_lim d LInt)
    else if is_digit c then Some (mk_lim d (LLen (c - 48) 1 false false))
    else Some (mk_lim d (LLen 0 0 (c =? ch_minus) (negb ((c =? ch_minus) || (c =? ch_plus)))))
  | LInt => if c =? ch_e then Some (mk_lim d (end_value d)) else Some s
  | LLen n dg neg bad =>
    if c =? ch_colon then
      if bad || (dg =? 0) || (2147483647 <? n) || (neg && negb (n =? 0)) then Some (mk_lim d LDone)
      else if n =? 0 then Some (mk_lim d (end_value d))
      else Some (mk_lim d (LBody n))
    else if is_digit c then Some (mk_lim d (LLen (if n <? 1099511627776 then n * 10 + (c - 48) else n) (dg + 1) neg bad))
    else Some (mk_lim d (LLen n dg neg true))
  | LBody n => if n - 1 =? 0 then Some (mk_lim d (end_value d)) else Some (mk_lim d (LBody (n - 1)))
  | LDone => Some s
  end.

Fixpoint lrun (s : lim) (bs : bytes) : option lim :=
  match bs with
  | [] => Some s
  | c :: r => match lstep s c with Some s' => lrun s' r | None => None end
  end.

(* does the limiter let the whole of bs through? *)
Definition lim_passes (bs : bytes) : bool := match lrun lim_init bs with Some _ => true | None => false end.

(* ---------- the decoder with bounded recursion ---------- *)
(* budget: how many more containers may be opened below this point; BSyntax stands for "refused
   here" (the real decoder never gets that far: the limiter has failed the read) *)
Fixpoint bparse_b (fuel : nat) (budget : N) (bs : bytes) {struct fuel} : bres bval :=
  match fuel with
  | O => BErr BFuel 0
  | S f =>
    match bs with
    | [] => BErr BEof 0
    | c :: r =>
      if c =? ch_i then
        match split_at ch_e r with
        | Some (ds, r') => BOk (BInt ds) r' 0
        | None => BErr BEof 0
        end
      else if is_digit c then
        match parse_bstr bs with
        | BOk s r' k => BOk (BStr s) r' k
        | BErr e k => BErr e k
        end
      else if c =? ch_l then (if budget =? 0 then BErr BSyntax 0 else list_loop (bparse_b f (budget - 1)) f r [] 0)
      else if c =? ch_d then (if budget =? 0 then BErr BSyntax 0 else dict_loop (bparse_b f (budget - 1)) f r [] 0)
      else BErr BSyntax 0
    end
  end.
