(* Model/Hs.v — how the handshake code reads its connection.

   The handshakes (protocol/handshake.go, crypto/crypto.go) are straight-line programs over
   five primitives: readMore (read until at least n bytes are buffered, never more than m, then
   consume n), synchronise (scan for a marker, reading as needed), Write, crand.Read, and the
   switch of the connection to RC4.  A handshake is a value of [prog]; it is given two
   semantics:

   - [op_run]: the operational one.  The connection delivers the peer's bytes in pieces whose
     sizes are chosen by an oracle (the TCP segmentation); the program keeps a buffer, exactly
     as the Go code does, and what it has read beyond what it consumed is the [init] slice
     handed to the message layer.
   - [spec_run]: the reference one, over the peer's byte stream as a whole, with no notion of
     reads.

   Causality: the peer's bytes come in phases; phase k can only arrive after our k-th Write
   (the peer computes it from what we sent).  [o_avail] holds what may arrive now.

   Definitions only; Proof/Hs.v shows the two semantics agree for every oracle. *)
From Storrent Require Import Base.Bytes Base.Bencode Base.Crypto.
Open Scope N_scope.

Inductive prog (R : Type) : Type :=
| Done (r : R)
| Fail (code : N)
| Need (n m : N) (k : bytes -> prog R)         (* readMore(buf, n, m); consume buf[:n] *)
| Sync (pat : bytes) (n m : N) (k : prog R)    (* synchronise(buf, pat, n, m) *)
| Write (b : bytes) (k : prog R)
| Rand (n : N) (k : bytes -> prog R)           (* crand.Read of n bytes *)
| SetDec (st : rc4st) (k : prog R)             (* buf = decrypt(buf); conn = &Conn{dec: st} *)
| Unread (b : bytes) (k : prog R)              (* buf = b ++ buf (the decrypted IA) *)
| CheckEmpty (code : N) (k : prog R).          (* if len(buf) > 0 { error } *)
Arguments Done {R}. Arguments Fail {R}. Arguments Need {R}. Arguments Sync {R}.
Arguments Write {R}. Arguments Rand {R}. Arguments SetDec {R}. Arguments Unread {R}.
Arguments CheckEmpty {R}.

Inductive outcome (R : Type) := OK (r : R) | Err (code : N).
Arguments OK {R}. Arguments Err {R}.

(* bytes.Index *)
Fixpoint prefix_eqb (p s : bytes) : bool :=
  match p, s with
  | [], _ => true
  | a :: p', b :: s' => (a =? b) && prefix_eqb p' s'
  | _ :: _, [] => false
  end.

Fixpoint find (p s : bytes) : option N :=
  if prefix_eqb p s then Some 0 else
  match s with [] => None | _ :: s' => option_map N.succ (find p s') end.

Definition dxor (d : option rc4st) (b : bytes) : bytes :=
  match d with None => b | Some st => snd (rc4_xor st b) end.
Definition dstate (d : option rc4st) (b : bytes) : option rc4st :=
  match d with None => None | Some st => Some (fst (rc4_xor st b)) end.

Definition ftake (n : N) (b : bytes) := firstn (N.to_nat n) b.
Definition fdrop (n : N) (b : bytes) := skipn (N.to_nat n) b.

(* ---------- operational semantics ---------- *)

Record ost := {
  o_buf : bytes;            (* read and not yet consumed (decrypted once the cipher is on) *)
  o_avail : bytes;          (* sent by the peer, not yet read (raw) *)
  o_future : list bytes;    (* phases the peer sends after our next Writes (raw) *)
  o_orc : list N;           (* sizes of the coming reads, as the network chooses them *)
  o_dec : option rc4st;
  o_tape : bytes;           (* what crand.Read will return *)
  o_wr : list bytes;        (* our Writes, latest first *)
  o_rd : list (N * N)       (* (capacity, returned) of each Read, latest first *)
}.

(* one conn.Read into a slice of [cap] bytes; None: nothing can arrive (EOF or deadlock) *)
Definition read1 (s : ost) (cap : N) : option (ost * N) :=
  if len (o_avail s) =? 0 then None else
  let want := match o_orc s with [] => cap | k :: _ => N.max 1 k end in
  let n := N.min (N.min cap (len (o_avail s))) want in
  let raw := ftake n (o_avail s) in
  Some ({| o_buf := o_buf s ++ dxor (o_dec s) raw; o_avail := fdrop n (o_avail s);
           o_future := o_future s; o_orc := tl (o_orc s); o_dec := dstate (o_dec s) raw;
           o_tape := o_tape s; o_wr := o_wr s; o_rd := (cap, n) :: o_rd s |}, n).

(* io.ReadAtLeast(conn, slice of cap bytes, min) *)
Fixpoint ral (fuel : nat) (s : ost) (cap min : N) : option ost :=
  if min =? 0 then Some s else
  match fuel with
  | O => None
  | S f => match read1 s cap with
           | None => None
           | Some (s', n) => ral f s' (cap - n) (min - n)
           end
  end.

Definition set_buf (s : ost) (b : bytes) : ost :=
  {| o_buf := b; o_avail := o_avail s; o_future := o_future s; o_orc := o_orc s; o_dec := o_dec s;
     o_tape := o_tape s; o_wr := o_wr s; o_rd := o_rd s |}.

Definition read_more (s : ost) (n m : N) : option ost :=
  let l := len (o_buf s) in
  if n <=? l then Some s else ral (S (N.to_nat (n - l))) s (N.max m n - l) (n - l).

Fixpoint sync_loop (fuel : nat) (s : ost) (pat : bytes) (n m : N) : option ost :=
  match find pat (o_buf s) with
  | Some i => Some (set_buf s (fdrop (i + len pat) (o_buf s)))
  | None =>
    if n <=? len (o_buf s) then None else
    match fuel with
    | O => None
    | S f => match read1 s (m - len (o_buf s)) with
             | None => None
             | Some (s', _) => sync_loop f s' pat n m
             end
    end
  end.

Definition EOFcode : N := 99.

Fixpoint op_run {R} (p : prog R) (s : ost) : outcome R * ost :=
  match p with
  | Done r => (OK r, s)
  | Fail c => (Err c, s)
  | Need n m k =>
    match read_more s n m with
    | None => (Err EOFcode, s)
    | Some s' => op_run (k (ftake n (o_buf s'))) (set_buf s' (fdrop n (o_buf s')))
    end
  | Sync pat n m k =>
    let m' := N.max m n in
    match sync_loop (S (N.to_nat m')) s pat n m' with
    | None => (Err EOFcode, s)
    | Some s' => op_run k s'
    end
  | Write b k =>
    op_run k {| o_buf := o_buf s; o_avail := o_avail s ++ hd [] (o_future s); o_future := tl (o_future s);
                o_orc := o_orc s; o_dec := o_dec s; o_tape := o_tape s; o_wr := b :: o_wr s; o_rd := o_rd s |}
  | Rand n k =>
    op_run (k (ftake n (o_tape s)))
           {| o_buf := o_buf s; o_avail := o_avail s; o_future := o_future s; o_orc := o_orc s; o_dec := o_dec s;
              o_tape := fdrop n (o_tape s); o_wr := o_wr s; o_rd := o_rd s |}
  | SetDec st k =>
    op_run k {| o_buf := snd (rc4_xor st (o_buf s)); o_avail := o_avail s; o_future := o_future s;
                o_orc := o_orc s; o_dec := Some (fst (rc4_xor st (o_buf s))); o_tape := o_tape s;
                o_wr := o_wr s; o_rd := o_rd s |}
  | Unread b k => op_run k (set_buf s (b ++ o_buf s))
  | CheckEmpty c k => match o_buf s with [] => op_run k s | _ => (Err c, s) end
  end.

(* what the message layer will read: init, then the rest of the connection *)
Definition o_delivered (s : ost) : bytes :=
  o_buf s ++ dxor (o_dec s) (o_avail s ++ concat (o_future s)).

(* ---------- reference semantics ---------- *)

Record pst := {
  p_pend : bytes;           (* the part of the peer's stream that may have arrived, not yet consumed (decrypted view) *)
  p_future : list bytes;
  p_dec : option rc4st;     (* cipher state after p_pend *)
  p_tape : bytes;
  p_wr : list bytes;
  p_amb : bool              (* the peer broke the MSE framing in a way whose effect depends on timing *)
}.

Definition set_pend (s : pst) (b : bytes) : pst :=
  {| p_pend := b; p_future := p_future s; p_dec := p_dec s; p_tape := p_tape s; p_wr := p_wr s; p_amb := p_amb s |}.
Definition set_amb (s : pst) : pst :=
  {| p_pend := p_pend s; p_future := p_future s; p_dec := p_dec s; p_tape := p_tape s; p_wr := p_wr s; p_amb := true |}.

Fixpoint spec_run {R} (p : prog R) (s : pst) : outcome R * pst :=
  match p with
  | Done r => (OK r, s)
  | Fail c => (Err c, s)
  | Need n m k =>
    if n <=? len (p_pend s) then spec_run (k (ftake n (p_pend s))) (set_pend s (fdrop n (p_pend s)))
    else (Err EOFcode, s)
  | Sync pat n m k =>
    match find pat (p_pend s) with
    | Some i =>
      if i + len pat <=? n then spec_run k (set_pend s (fdrop (i + len pat) (p_pend s)))
      else (Err EOFcode, set_amb s)   (* a marker later than the specification allows: found or not, by timing *)
    | None => (Err EOFcode, s)
    end
  | Write b k =>
    let ph := hd [] (p_future s) in
    spec_run k {| p_pend := p_pend s ++ dxor (p_dec s) ph; p_future := tl (p_future s);
                  p_dec := dstate (p_dec s) ph; p_tape := p_tape s; p_wr := b :: p_wr s; p_amb := p_amb s |}
  | Rand n k =>
    spec_run (k (ftake n (p_tape s)))
             {| p_pend := p_pend s; p_future := p_future s; p_dec := p_dec s; p_tape := fdrop n (p_tape s);
                p_wr := p_wr s; p_amb := p_amb s |}
  | SetDec st k =>
    match p_dec s with
    | Some _ => (Err EOFcode, set_amb s)     (* the cipher is switched on once; no handshake does this *)
    | None =>
      spec_run k {| p_pend := snd (rc4_xor st (p_pend s)); p_future := p_future s;
                    p_dec := Some (fst (rc4_xor st (p_pend s))); p_tape := p_tape s; p_wr := p_wr s; p_amb := p_amb s |}
    end
  | Unread b k => spec_run k (set_pend s (b ++ p_pend s))
  | CheckEmpty c k => match p_pend s with [] => spec_run k s | _ => (Err c, set_amb s) end
  end.

Definition p_delivered (s : pst) : bytes := p_pend s ++ dxor (p_dec s) (concat (p_future s)).

Definition o_init (phases : list bytes) (orc : list N) (tape : bytes) : ost :=
  {| o_buf := []; o_avail := hd [] phases; o_future := tl phases; o_orc := orc; o_dec := None;
     o_tape := tape; o_wr := []; o_rd := [] |}.
Definition p_init (phases : list bytes) (tape : bytes) : pst :=
  {| p_pend := hd [] phases; p_future := tl phases; p_dec := None; p_tape := tape; p_wr := []; p_amb := false |}.
