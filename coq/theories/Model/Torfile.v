(* Model/Torfile.v — executable model of tor.ReadTorrent and Torrent.MetadataComplete
   (tor/torfile.go:160-270) and Pieces.MetadataComplete (tor/piece/piece.go:131-139).
   Definitions only.  Go's int64/uint32 arithmetic is written out where it can wrap. *)
From Coq Require Import String.
From Storrent Require Import Base.Bytes Base.Bencode Gen.Consts Model.Wire.
Open Scope N_scope.

(* ---------- raw capture of the top-level dictionary's values (bencode.RawMessage) ---------- *)

(* entries of a dictionary body (after the 'd'), each with the exact bytes of its value *)
Fixpoint raw_entries (g : nat) (r : bytes) (acc : list (bytes * bval * bytes)) : option (list (bytes * bval * bytes) * bytes) :=
  match g with
  | O => None
  | S g' =>
    match r with
    | [] => None
    | x :: r' =>
      if x =? ch_e then Some (rev acc, r')
      else match parse_bstr r with
           | BErr _ _ => None
           | BOk key r1 _ =>
             match bparse (S (length r1)) r1 with
             | BOk v r2 _ =>
               let raw := firstn (length r1 - length r2) r1 in
               raw_entries g' r2 ((key, v, raw) :: acc)
             | BErr _ _ => None
             end
           end
    end
  end.

Definition top_entries (bs : bytes) : option (list (bytes * bval * bytes)) :=
  match bs with
  | c :: r => if c =? ch_d then
                match raw_entries (S (length r)) r [] with
                | Some (es, _) => Some es
                | None => None
                end
              else None
  | [] => None
  end.

(* ---------- typed views ---------- *)

Fixpoint all_str (l : list bval) : option (list bytes) :=
  match l with
  | [] => Some []
  | v :: r => match as_str v, all_str r with Some s, Some t => Some (s :: t) | _, _ => None end
  end.
Definition as_strlist (v : bval) : option (list bytes) :=
  match v with BList l => all_str l | _ => None end.
Fixpoint all_strlist (l : list bval) : option (list (list bytes)) :=
  match l with
  | [] => Some []
  | v :: r => match as_strlist v, all_strlist r with Some s, Some t => Some (s :: t) | _, _ => None end
  end.
(* listOrString.UnmarshalBencode *)
Definition as_list_or_string (v : bval) : option (list bytes) :=
  match v with BStr s => Some [s] | BList l => all_str l | _ => None end.

Record btor := {
  b_info : option bytes;
  b_cdate : Z;
  b_announce : bytes;
  b_alist : list (list bytes);       (* [] = nil *)
  b_urllist : list bytes;
  b_httpseeds : list bytes }.

Definition btor_zero := {| b_info := None; b_cdate := 0%Z; b_announce := []; b_alist := [];
                           b_urllist := []; b_httpseeds := [] |}.

Definition btor_field (a : btor) (e : bytes * bval * bytes) : option btor :=
  let '(k, v, raw) := e in
  if key_is k "info" then
    Some {| b_info := Some raw; b_cdate := b_cdate a; b_announce := b_announce a; b_alist := b_alist a; b_urllist := b_urllist a; b_httpseeds := b_httpseeds a |}
  else if key_is k "creation date" then
    match as_int64 v with Some z => Some {| b_info := b_info a; b_cdate := z; b_announce := b_announce a; b_alist := b_alist a; b_urllist := b_urllist a; b_httpseeds := b_httpseeds a |} | None => None end
  else if key_is k "announce" then
    match as_str v with Some s => Some {| b_info := b_info a; b_cdate := b_cdate a; b_announce := s; b_alist := b_alist a; b_urllist := b_urllist a; b_httpseeds := b_httpseeds a |} | None => None end
  else if key_is k "announce-list" then
    match v with
    | BList l => match all_strlist l with
                 | Some al => Some {| b_info := b_info a; b_cdate := b_cdate a; b_announce := b_announce a; b_alist := al; b_urllist := b_urllist a; b_httpseeds := b_httpseeds a |}
                 | None => None end
    | _ => None end
  else if key_is k "url-list" then
    match as_list_or_string v with Some l => Some {| b_info := b_info a; b_cdate := b_cdate a; b_announce := b_announce a; b_alist := b_alist a; b_urllist := l; b_httpseeds := b_httpseeds a |} | None => None end
  else if key_is k "httpseeds" then
    match as_list_or_string v with Some l => Some {| b_info := b_info a; b_cdate := b_cdate a; b_announce := b_announce a; b_alist := b_alist a; b_urllist := b_urllist a; b_httpseeds := l |} | None => None end
  else if valid_iface v then Some a else None.

(* the file goes through protocol.LimitBencodeDepth before the decoder: the top-level value may
   nest at most max_bencode_depth levels *)
Definition entries_depth (es : list (bytes * bval * bytes)) : N :=
  1 + fold_right (fun e m => N.max (vdepth (snd (fst e))) m) 0 es.

Definition decode_btor (bs : bytes) : option btor :=
  match top_entries bs with
  | Some es => if max_bencode_depth <? entries_depth es then None else fold_opt btor_field btor_zero es
  | None => None
  end.

(* ---------- the info dictionary ---------- *)

Record bfile := { bf_path : list bytes; bf_path8 : list bytes; bf_len : Z; bf_attr : bytes }.
Definition bfile_zero := {| bf_path := []; bf_path8 := []; bf_len := 0%Z; bf_attr := [] |}.

Definition bfile_field (a : bfile) (kv : bytes * bval) : option bfile :=
  let (k, v) := kv in
  if key_is k "path" then
    match as_strlist v with Some p => Some {| bf_path := p; bf_path8 := bf_path8 a; bf_len := bf_len a; bf_attr := bf_attr a |} | None => None end
  else if key_is k "path.utf-8" then
    match as_strlist v with Some p => Some {| bf_path := bf_path a; bf_path8 := p; bf_len := bf_len a; bf_attr := bf_attr a |} | None => None end
  else if key_is k "length" then
    match as_int64 v with Some z => Some {| bf_path := bf_path a; bf_path8 := bf_path8 a; bf_len := z; bf_attr := bf_attr a |} | None => None end
  else if key_is k "attr" then
    match as_str v with Some s => Some {| bf_path := bf_path a; bf_path8 := bf_path8 a; bf_len := bf_len a; bf_attr := s |} | None => None end
  else if valid_iface v then Some a else None.

Definition as_bfile (v : bval) : option bfile :=
  match v with BDict kvs => fold_opt bfile_field bfile_zero kvs | _ => None end.
Fixpoint all_bfile (l : list bval) : option (list bfile) :=
  match l with
  | [] => Some []
  | v :: r => match as_bfile v, all_bfile r with Some f, Some t => Some (f :: t) | _, _ => None end
  end.

Record binfo := { i_name : bytes; i_name8 : bytes; i_plen : N; i_pieces : bytes; i_length : Z;
                  i_files : list bfile }.
Definition binfo_zero := {| i_name := []; i_name8 := []; i_plen := 0; i_pieces := []; i_length := 0%Z; i_files := [] |}.

Definition binfo_field (a : binfo) (kv : bytes * bval) : option binfo :=
  let (k, v) := kv in
  if key_is k "name" then
    match as_str v with Some s => Some {| i_name := s; i_name8 := i_name8 a; i_plen := i_plen a; i_pieces := i_pieces a; i_length := i_length a; i_files := i_files a |} | None => None end
  else if key_is k "name.utf-8" then
    match as_str v with Some s => Some {| i_name := i_name a; i_name8 := s; i_plen := i_plen a; i_pieces := i_pieces a; i_length := i_length a; i_files := i_files a |} | None => None end
  else if key_is k "piece length" then
    match as_uint 32 v with Some n => Some {| i_name := i_name a; i_name8 := i_name8 a; i_plen := n; i_pieces := i_pieces a; i_length := i_length a; i_files := i_files a |} | None => None end
  else if key_is k "pieces" then
    match as_bytes_field v with Some s => Some {| i_name := i_name a; i_name8 := i_name8 a; i_plen := i_plen a; i_pieces := s; i_length := i_length a; i_files := i_files a |} | None => None end
  else if key_is k "length" then
    match as_int64 v with Some z => Some {| i_name := i_name a; i_name8 := i_name8 a; i_plen := i_plen a; i_pieces := i_pieces a; i_length := z; i_files := i_files a |} | None => None end
  else if key_is k "files" then
    match v with
    | BList l => match all_bfile l with
                 | Some fs => Some {| i_name := i_name a; i_name8 := i_name8 a; i_plen := i_plen a; i_pieces := i_pieces a; i_length := i_length a; i_files := fs |}
                 | None => None end
    | _ => None end
  else if valid_iface v then Some a else None.

Definition decode_binfo (info : bytes) : option binfo :=
  match bdecode_lim info with
  | BOk (BDict kvs) _ _ => fold_opt binfo_field binfo_zero kvs
  | _ => None
  end.

(* ---------- MetadataComplete ---------- *)

Record torfile := { f_path : list bytes; f_off : Z; f_len : Z; f_pad : bool }.

Record geometry := {
  g_name : bytes;
  g_plen : N;             (* piece length *)
  g_total : Z;            (* total length *)
  g_files : list torfile;
  g_nhashes : N;          (* len(PieceHashes) *)
  g_chunks : N;           (* len(inFlight) *)
  g_npieces : N }.        (* Pieces.Num() *)

Inductive mres := MOk (g : geometry) | MErr | MPanic.

Definition int64_max : Z := 9223372036854775807%Z.

Fixpoint contains (c : N) (s : bytes) : bool :=
  match s with [] => false | x :: r => (x =? c) || contains c r end.

(* a path component must be non-empty and free of '/' *)
Definition valid_component (s : bytes) : bool :=
  match s with
  | [] => false
  | [46] => false            (* "." *)
  | [46; 46] => false        (* ".." *)
  | _ => negb (contains 47 s)
  end.

(* the files loop: offsets accumulate; a negative length or an int64 overflow is refused *)
Fixpoint layout (fs : list bfile) (off : Z) (acc : list torfile) : option (list torfile * Z) :=
  match fs with
  | [] => Some (rev acc, off)
  | f :: r =>
    let path := match bf_path8 f with [] => bf_path f | p => p end in
    match path with
    | [] => None
    | _ =>
      if negb (forallb valid_component path) then None
      else if (bf_len f <? 0)%Z then None
      else if (int64_max <? off + bf_len f)%Z then None
      else layout r (off + bf_len f)%Z
             ({| f_path := path; f_off := off; f_len := bf_len f; f_pad := contains 112 (bf_attr f) |} :: acc)
    end
  end.

Definition metadata_complete (info : bytes) : mres :=
  match decode_binfo info with
  | None => MErr
  | Some i =>
    if negb ((len (i_pieces i)) mod 20 =? 0) then MErr
    else if (i_plen i =? 0) || negb (i_plen i mod ChunkSize =? 0) then MErr
    else
      let nh := len (i_pieces i) / 20 in
      let r :=
        if (0 <? i_length i)%Z then
          match i_files i with [] => Some ([], i_length i) | _ => None end
        else
          match i_files i with [] => None | fs => layout fs 0%Z [] end in
      match r with
      | None => MErr
      | Some (files, total) =>
        let chunks := ((total + Z.of_N ChunkSize - 1) / Z.of_N ChunkSize)%Z in
        if (4294967295 <? chunks)%Z then MErr
        else if (chunks <? 0)%Z then MPanic          (* make([]uint8, chunks) *)
        else if i_plen i =? 0 then MPanic            (* integer divide by zero *)
        else
          let np := ((total + Z.of_N (i_plen i) - 1) / Z.of_N (i_plen i))%Z in
          if negb (Z.of_N nh =? np)%Z then MErr
          else
            let name := match i_name8 i with [] => i_name i | n => n end in
            match name with
            | [] => MErr
            | _ => if negb (valid_component name) then MErr else MOk {| g_name := name; g_plen := i_plen i; g_total := total; g_files := files;
                          g_nhashes := nh; g_chunks := Z.to_N chunks; g_npieces := Z.to_N np |}
            end
      end
  end.

(* the geometry clause of C13, as a decidable predicate on the result *)
Fixpoint contiguous (fs : list torfile) (off : Z) : option Z :=
  match fs with
  | [] => Some off
  | f :: r => if (f_off f =? off)%Z && (0 <=? f_len f)%Z then contiguous r (off + f_len f)%Z else None
  end.

Definition ceil_div (a b : Z) : Z := ((a + b - 1) / b)%Z.

Definition geometry_ok (g : geometry) : bool :=
  (0 <? g_plen g) && (g_plen g mod ChunkSize =? 0) && (0 <=? g_total g)%Z &&
  (match g_files g with
   | [] => true
   | fs => match contiguous fs 0%Z with Some t => (t =? g_total g)%Z | None => false end
   end) &&
  (Z.of_N (g_chunks g) =? ceil_div (g_total g) (Z.of_N ChunkSize))%Z &&
  (Z.of_N (g_npieces g) =? ceil_div (g_total g) (Z.of_N (g_plen g)))%Z &&
  (g_nhashes g =? g_npieces g).

(* ---------- ReadTorrent ---------- *)

Inductive rres :=
| ROk (raw_info : bytes) (g : geometry) (cdate : Z) (trackers : list (list bytes)) (urllist httpseeds : list bytes)
| RErr
| RPanic.

(* net/url is specified, not modelled: a URL string is refused by url.Parse when it
   contains an ASCII control character or starts with a colon (the shapes the
   generator produces); everything else is accepted.  tracker.New refuses the
   empty string itself. *)
Definition url_ok (u : bytes) : bool :=
  forallb (fun c => (32 <=? c) && negb (c =? 127)) u &&
  match u with c :: _ => negb (c =? 58) | [] => false end.

Fixpoint has_prefix (p s : bytes) : bool :=
  match p, s with
  | [], _ => true
  | x :: p', y :: s' => (x =? y) && has_prefix p' s'
  | _, [] => false
  end.
Definition http_url (u : bytes) : bool :=
  url_ok u && (has_prefix (ascii_bytes "http://") u || has_prefix (ascii_bytes "https://") u).

Definition trackers_of (b : btor) : list (list bytes) :=
  match b_alist b with
  | [] => match b_announce b with
          | [] => []
          | a => if url_ok a then [[a]] else []
          end
  | al => map (filter url_ok) al
  end.

Definition read_torrent (bs : bytes) : rres :=
  match decode_btor bs with
  | None => RErr
  | Some b =>
    match b_info b with
    | None => RErr
    | Some raw =>
      match metadata_complete raw with
      | MOk g => ROk raw g (b_cdate b) (trackers_of b) (filter http_url (b_urllist b)) (filter http_url (b_httpseeds b))
      | MErr => RErr
      | MPanic => RPanic
      end
    end
  end.
