(* Model/PeerCore.v — executable model of the single-threaded core of a peer
   (peer/peer.go): handleMessage, handleEvent, maybeRequest, scheduleUpload, unchoke,
   expireRequests, sendPex/pexState, the request queue (peer/requests/requests.go) and
   bitmaps (bitmap/bitmap.go).  Definitions only.

   Conventions: the writer channel is a counter [wq] (capacity 64); a write fails with
   ErrCongested when it is full and with EOF when the writer is dead.  Everything that
   depends on real time or on rate estimators is an oracle argument of the step:
   the number of iterations of maybeRequest's loop, which requests a tick expires, the
   result of Pieces.AddData / ReadAt, the upload rate limiter.  The theorems quantify
   over all oracle values; the correspondence check finds the value the implementation
   chose and verifies that the model allows it. *)
From Coq Require Import String.
From Storrent Require Import Base.Bytes Base.Bencode Gen.Consts Model.Wire.
Open Scope N_scope.

Definition llen {A} (l : list A) : N := N.of_nat (length l).

(* ---------- bitmaps (sparse: byte length + sorted list of set bits) ---------- *)

Record bm := { blen : N; bits : list N }.
Definition bm_nil : bm := {| blen := 0; bits := [] |}.

Fixpoint memN (x : N) (l : list N) : bool :=
  match l with [] => false | y :: r => (x =? y) || memN x r end.
Fixpoint insN (x : N) (l : list N) : list N :=   (* sorted insert, no duplicates *)
  match l with
  | [] => [x]
  | y :: r => if x <? y then x :: l else if x =? y then l else y :: insN x r
  end.
Fixpoint remN (x : N) (l : list N) : list N :=
  match l with [] => [] | y :: r => if x =? y then r else y :: remN x r end.

Definition bm_get (b : bm) (i : N) : bool := (i / 8 <? blen b) && memN i (bits b).
Definition bm_extend (b : bm) (i : N) : bm :=
  if blen b <=? i / 8 then {| blen := i / 8 + 1; bits := bits b |} else b.
Definition bm_set (b : bm) (i : N) : bm :=
  let b' := bm_extend b i in {| blen := blen b'; bits := insN i (bits b') |}.
Definition bm_reset (b : bm) (i : N) : bm :=
  if blen b <=? i / 8 then b else {| blen := blen b; bits := remN i (bits b) |}.
Definition bm_set_multiple (b : bm) (n : N) : bm :=
  N.recursion (bm_extend b n) (fun i acc => bm_set acc i) n.
Definition bm_empty (b : bm) : bool := match bits b with [] => true | _ => false end.
Definition bm_count (b : bm) : N := len (bits b).
Definition bm_len (b : bm) : N := fold_left (fun m i => N.max m (i + 1)) (bits b) 0.
(* All(n): bits 0..n-1 set and, when n is not a multiple of 8, no other bit in the last byte *)
Definition bm_all (b : bm) (n : N) : bool :=
  if n =? 0 then true else
  N.recursion true (fun i acc => acc && bm_get b i) n &&
  ((n mod 8 =? 0) || forallb (fun i => negb ((n <=? i) && (i <? (n / 8 + 1) * 8))) (bits b)).

(* wire form: big-endian bit order inside each byte *)
Definition byte_bits (base byte : N) : list N :=
  flat_map (fun j => if N.testbit byte (7 - j) then [base + j] else []) [0;1;2;3;4;5;6;7].
Fixpoint bits_of_bytes (base : N) (bs : bytes) : list N :=
  match bs with [] => [] | x :: r => byte_bits base x ++ bits_of_bytes (base + 8) r end.
Definition bm_of_bytes (bs : bytes) : bm := {| blen := len bs; bits := bits_of_bytes 0 bs |}.
Definition byte_of_bits (base : N) (l : list N) : N :=
  fold_left (fun acc j => if memN (base + j) l then acc + 2 ^ (7 - j) else acc) [0;1;2;3;4;5;6;7] 0.
Definition bm_to_bytes (b : bm) : bytes :=
  N.recursion [] (fun i acc => acc ++ [byte_of_bits (i * 8) (bits b)]) (blen b).

(* ---------- geometry ---------- *)

Record geo := { psize : N; total : N; info_len : N }.
Definition cpp (g : geo) : N := psize g / ChunkSize.
Definition num_pieces (g : geo) : N := (total g + psize g - 1) / psize g.
Definition to_chunk (g : geo) (index begin : N) : N :=
  if 4294967295 / cpp g <? index then 0
  else (index * cpp g + begin / ChunkSize) mod 4294967296.
Definition from_chunk (g : geo) (chunk : N) : N * N :=
  (chunk / cpp g, (chunk * ChunkSize) mod psize g).
Definition chunk_size (g : geo) (chunk : N) : N :=
  if chunk <? (total g / ChunkSize) mod 4294967296 then ChunkSize else total g mod ChunkSize.

(* ---------- request queue ---------- *)

Record reqs := { rq_queue : list N; rq_requested : list (N * bool) (* chunk, cancelled *) }.
Definition reqs_nil : reqs := {| rq_queue := []; rq_requested := [] |}.
Definition rq_member (r : reqs) (c : N) : bool :=
  memN c (rq_queue r) || memN c (map fst (rq_requested r)).

(* Go's "swap with last, shrink" removal of the first element satisfying p *)
Fixpoint remove_swap {A} (p : A -> bool) (l : list A) : option (A * list A) :=
  match l with
  | [] => None
  | x :: r =>
    if p x then
      Some (x, match rev r with [] => [] | lst :: rr => lst :: rev rr end)
    else match remove_swap p r with
         | Some (y, r') => Some (y, x :: r')
         | None => None
         end
  end.

Definition rq_cancel (r : reqs) (c : N) : reqs * bool * bool :=
  if negb (rq_member r c) then (r, false, false) else
  match find (fun e => fst e =? c) (rq_requested r) with
  | None => (r, false, false)
  | Some (_, cancelled) =>
    ({| rq_queue := rq_queue r;
        rq_requested := map (fun e => if fst e =? c then (fst e, true) else e) (rq_requested r) |},
     true, negb cancelled)
  end.

(* del: (state, was-queued, was-requested); None = panic("Requests is broken!") *)
Definition rq_del (r : reqs) (c : N) (reqonly : bool) : option (reqs * bool * bool) :=
  if negb (rq_member r c) then Some (r, false, false) else
  match remove_swap (fun e => fst e =? c) (rq_requested r) with
  | Some (_, rest) => Some ({| rq_queue := rq_queue r; rq_requested := rest |}, false, true)
  | None =>
    if reqonly then Some (r, false, false) else
    match remove_swap (fun e => e =? c) (rq_queue r) with
    | Some (_, rest) => Some ({| rq_queue := rest; rq_requested := rq_requested r |}, true, false)
    | None => None
    end
  end.

Definition rq_enqueue (r : reqs) (c : N) : reqs * bool :=
  if rq_member r c then (r, false)
  else ({| rq_queue := rq_queue r ++ [c]; rq_requested := rq_requested r |}, true).

(* ---------- peer state ---------- *)

Record upreq := { u_index : N; u_begin : N; u_length : N }.

Record pexst := { px_pending : list peer; px_pending_del : list peer; px_sent : list peer }.
Definition pexst_nil := {| px_pending := []; px_pending_del := []; px_sent := [] |}.

Record pstate := {
  s_geo : option geo;            (* Some when peer.Info <> nil *)
  s_can_fast : bool; s_can_extended : bool;
  s_my : bm;                     (* myBitmap *)
  s_bitmap : option bm;          (* peer.bitmap; None = nil *)
  s_is_seed : bool;
  s_unchoked : bool; s_interested : bool; s_am_unchoking : bool;
  s_should_interested : bool; s_am_interested : bool;
  s_got_extended : bool;
  s_pex_ext : N; s_metadata_ext : N; s_donthave_ext : N; s_uploadonly_ext : N;
  s_upload_only : bool;
  s_reqq : N;
  s_reqs : reqs;
  s_requested : list upreq;      (* upload queue *)
  s_fast : list N;
  s_pex : list peer;             (* peers learnt from the remote *)
  s_pexst : pexst;
  s_wq : N; s_wdead : bool;      (* writer channel occupancy / writer gone *)
  s_counter : Z                  (* this peer's contribution to numUnchoking *)
}.

Definition max_request_length : N := 131072.
Definition max_pieces_unknown : N := 6710886.
Definition upload_queue_max : N := 250.
Definition writer_cap : N := 64.

Inductive tev :=
| TDrop (i b l : N)
| TData (i b l : N) (complete : bool)
| TPeerHave (i : N) (have : bool)
| TPeerBitmap (b : bm) (have : bool)
| TPeerUnchoke (u : bool)
| TPeerInterested (i : bool)
| TPeerExtended (size : N)
| TMetaData (size index dlen : N).

Inductive verdict := VOk | VDisconnect | VPanic.

(* accumulated effect of a step *)
Record acc := {
  a_st : pstate;
  a_msgs : list msg;        (* written to the writer channel, in order *)
  a_evs : list tev;         (* sent to the torrent, in order *)
  a_alloc : N;              (* bytes allocated *)
  a_legit : bool }.         (* the oracle values were ones the code could have produced *)

Definition acc0 (s : pstate) : acc := {| a_st := s; a_msgs := []; a_evs := []; a_alloc := 0; a_legit := true |}.

Definition upd_st (a : acc) (s : pstate) : acc :=
  {| a_st := s; a_msgs := a_msgs a; a_evs := a_evs a; a_alloc := a_alloc a; a_legit := a_legit a |}.
Definition add_ev (a : acc) (e : tev) : acc :=
  {| a_st := a_st a; a_msgs := a_msgs a; a_evs := a_evs a ++ [e]; a_alloc := a_alloc a; a_legit := a_legit a |}.
Definition add_alloc (a : acc) (n : N) : acc :=
  {| a_st := a_st a; a_msgs := a_msgs a; a_evs := a_evs a; a_alloc := a_alloc a + n; a_legit := a_legit a |}.
Definition set_legit (a : acc) (b : bool) : acc :=
  {| a_st := a_st a; a_msgs := a_msgs a; a_evs := a_evs a; a_alloc := a_alloc a; a_legit := a_legit a && b |}.

(* record update helpers for the fields that change most *)
Definition with_wq (s : pstate) (n : N) : pstate :=
  {| s_geo := s_geo s; s_can_fast := s_can_fast s; s_can_extended := s_can_extended s; s_my := s_my s;
     s_bitmap := s_bitmap s; s_is_seed := s_is_seed s; s_unchoked := s_unchoked s; s_interested := s_interested s;
     s_am_unchoking := s_am_unchoking s; s_should_interested := s_should_interested s; s_am_interested := s_am_interested s;
     s_got_extended := s_got_extended s; s_pex_ext := s_pex_ext s; s_metadata_ext := s_metadata_ext s;
     s_donthave_ext := s_donthave_ext s; s_uploadonly_ext := s_uploadonly_ext s; s_upload_only := s_upload_only s;
     s_reqq := s_reqq s; s_reqs := s_reqs s; s_requested := s_requested s; s_fast := s_fast s; s_pex := s_pex s;
     s_pexst := s_pexst s; s_wq := n; s_wdead := s_wdead s; s_counter := s_counter s |}.
Definition with_reqs (s : pstate) (r : reqs) : pstate :=
  {| s_geo := s_geo s; s_can_fast := s_can_fast s; s_can_extended := s_can_extended s; s_my := s_my s;
     s_bitmap := s_bitmap s; s_is_seed := s_is_seed s; s_unchoked := s_unchoked s; s_interested := s_interested s;
     s_am_unchoking := s_am_unchoking s; s_should_interested := s_should_interested s; s_am_interested := s_am_interested s;
     s_got_extended := s_got_extended s; s_pex_ext := s_pex_ext s; s_metadata_ext := s_metadata_ext s;
     s_donthave_ext := s_donthave_ext s; s_uploadonly_ext := s_uploadonly_ext s; s_upload_only := s_upload_only s;
     s_reqq := s_reqq s; s_reqs := r; s_requested := s_requested s; s_fast := s_fast s; s_pex := s_pex s;
     s_pexst := s_pexst s; s_wq := s_wq s; s_wdead := s_wdead s; s_counter := s_counter s |}.
Definition with_requested (s : pstate) (l : list upreq) : pstate :=
  {| s_geo := s_geo s; s_can_fast := s_can_fast s; s_can_extended := s_can_extended s; s_my := s_my s;
     s_bitmap := s_bitmap s; s_is_seed := s_is_seed s; s_unchoked := s_unchoked s; s_interested := s_interested s;
     s_am_unchoking := s_am_unchoking s; s_should_interested := s_should_interested s; s_am_interested := s_am_interested s;
     s_got_extended := s_got_extended s; s_pex_ext := s_pex_ext s; s_metadata_ext := s_metadata_ext s;
     s_donthave_ext := s_donthave_ext s; s_uploadonly_ext := s_uploadonly_ext s; s_upload_only := s_upload_only s;
     s_reqq := s_reqq s; s_reqs := s_reqs s; s_requested := l; s_fast := s_fast s; s_pex := s_pex s;
     s_pexst := s_pexst s; s_wq := s_wq s; s_wdead := s_wdead s; s_counter := s_counter s |}.
Definition with_bitmap (s : pstate) (b : option bm) (seed : bool) : pstate :=
  {| s_geo := s_geo s; s_can_fast := s_can_fast s; s_can_extended := s_can_extended s; s_my := s_my s;
     s_bitmap := b; s_is_seed := seed; s_unchoked := s_unchoked s; s_interested := s_interested s;
     s_am_unchoking := s_am_unchoking s; s_should_interested := s_should_interested s; s_am_interested := s_am_interested s;
     s_got_extended := s_got_extended s; s_pex_ext := s_pex_ext s; s_metadata_ext := s_metadata_ext s;
     s_donthave_ext := s_donthave_ext s; s_uploadonly_ext := s_uploadonly_ext s; s_upload_only := s_upload_only s;
     s_reqq := s_reqq s; s_reqs := s_reqs s; s_requested := s_requested s; s_fast := s_fast s; s_pex := s_pex s;
     s_pexst := s_pexst s; s_wq := s_wq s; s_wdead := s_wdead s; s_counter := s_counter s |}.
(* choke-related flags *)
Definition with_flags (s : pstate) (unchoked interested am_unchoking should_i am_i : bool) (counter : Z) : pstate :=
  {| s_geo := s_geo s; s_can_fast := s_can_fast s; s_can_extended := s_can_extended s; s_my := s_my s;
     s_bitmap := s_bitmap s; s_is_seed := s_is_seed s; s_unchoked := unchoked; s_interested := interested;
     s_am_unchoking := am_unchoking; s_should_interested := should_i; s_am_interested := am_i;
     s_got_extended := s_got_extended s; s_pex_ext := s_pex_ext s; s_metadata_ext := s_metadata_ext s;
     s_donthave_ext := s_donthave_ext s; s_uploadonly_ext := s_uploadonly_ext s; s_upload_only := s_upload_only s;
     s_reqq := s_reqq s; s_reqs := s_reqs s; s_requested := s_requested s; s_fast := s_fast s; s_pex := s_pex s;
     s_pexst := s_pexst s; s_wq := s_wq s; s_wdead := s_wdead s; s_counter := counter |}.
Definition with_my (s : pstate) (b : bm) : pstate :=
  {| s_geo := s_geo s; s_can_fast := s_can_fast s; s_can_extended := s_can_extended s; s_my := b;
     s_bitmap := s_bitmap s; s_is_seed := s_is_seed s; s_unchoked := s_unchoked s; s_interested := s_interested s;
     s_am_unchoking := s_am_unchoking s; s_should_interested := s_should_interested s; s_am_interested := s_am_interested s;
     s_got_extended := s_got_extended s; s_pex_ext := s_pex_ext s; s_metadata_ext := s_metadata_ext s;
     s_donthave_ext := s_donthave_ext s; s_uploadonly_ext := s_uploadonly_ext s; s_upload_only := s_upload_only s;
     s_reqq := s_reqq s; s_reqs := s_reqs s; s_requested := s_requested s; s_fast := s_fast s; s_pex := s_pex s;
     s_pexst := s_pexst s; s_wq := s_wq s; s_wdead := s_wdead s; s_counter := s_counter s |}.
Definition with_ext (s : pstate) (got : bool) (pexe mde dhe uoe : N) (uo : bool) (reqq : N) : pstate :=
  {| s_geo := s_geo s; s_can_fast := s_can_fast s; s_can_extended := s_can_extended s; s_my := s_my s;
     s_bitmap := s_bitmap s; s_is_seed := s_is_seed s; s_unchoked := s_unchoked s; s_interested := s_interested s;
     s_am_unchoking := s_am_unchoking s; s_should_interested := s_should_interested s; s_am_interested := s_am_interested s;
     s_got_extended := got; s_pex_ext := pexe; s_metadata_ext := mde;
     s_donthave_ext := dhe; s_uploadonly_ext := uoe; s_upload_only := uo;
     s_reqq := reqq; s_reqs := s_reqs s; s_requested := s_requested s; s_fast := s_fast s; s_pex := s_pex s;
     s_pexst := s_pexst s; s_wq := s_wq s; s_wdead := s_wdead s; s_counter := s_counter s |}.
Definition with_lists (s : pstate) (fast : list N) (pex : list peer) (px : pexst) : pstate :=
  {| s_geo := s_geo s; s_can_fast := s_can_fast s; s_can_extended := s_can_extended s; s_my := s_my s;
     s_bitmap := s_bitmap s; s_is_seed := s_is_seed s; s_unchoked := s_unchoked s; s_interested := s_interested s;
     s_am_unchoking := s_am_unchoking s; s_should_interested := s_should_interested s; s_am_interested := s_am_interested s;
     s_got_extended := s_got_extended s; s_pex_ext := s_pex_ext s; s_metadata_ext := s_metadata_ext s;
     s_donthave_ext := s_donthave_ext s; s_uploadonly_ext := s_uploadonly_ext s; s_upload_only := s_upload_only s;
     s_reqq := s_reqq s; s_reqs := s_reqs s; s_requested := s_requested s; s_fast := fast; s_pex := pex;
     s_pexst := px; s_wq := s_wq s; s_wdead := s_wdead s; s_counter := s_counter s |}.
Definition with_geo (s : pstate) (g : option geo) : pstate :=
  {| s_geo := g; s_can_fast := s_can_fast s; s_can_extended := s_can_extended s; s_my := s_my s;
     s_bitmap := s_bitmap s; s_is_seed := s_is_seed s; s_unchoked := s_unchoked s; s_interested := s_interested s;
     s_am_unchoking := s_am_unchoking s; s_should_interested := s_should_interested s; s_am_interested := s_am_interested s;
     s_got_extended := s_got_extended s; s_pex_ext := s_pex_ext s; s_metadata_ext := s_metadata_ext s;
     s_donthave_ext := s_donthave_ext s; s_uploadonly_ext := s_uploadonly_ext s; s_upload_only := s_upload_only s;
     s_reqq := s_reqq s; s_reqs := s_reqs s; s_requested := s_requested s; s_fast := s_fast s; s_pex := s_pex s;
     s_pexst := s_pexst s; s_wq := s_wq s; s_wdead := s_wdead s; s_counter := s_counter s |}.
Definition with_wdead (s : pstate) : pstate :=
  {| s_geo := s_geo s; s_can_fast := s_can_fast s; s_can_extended := s_can_extended s; s_my := s_my s;
     s_bitmap := s_bitmap s; s_is_seed := s_is_seed s; s_unchoked := s_unchoked s; s_interested := s_interested s;
     s_am_unchoking := s_am_unchoking s; s_should_interested := s_should_interested s; s_am_interested := s_am_interested s;
     s_got_extended := s_got_extended s; s_pex_ext := s_pex_ext s; s_metadata_ext := s_metadata_ext s;
     s_donthave_ext := s_donthave_ext s; s_uploadonly_ext := s_uploadonly_ext s; s_upload_only := s_upload_only s;
     s_reqq := s_reqq s; s_reqs := s_reqs s; s_requested := s_requested s; s_fast := s_fast s; s_pex := s_pex s;
     s_pexst := s_pexst s; s_wq := writer_cap; s_wdead := true; s_counter := s_counter s |}.

(* ---------- write ---------- *)

Inductive werr := WOk | WCongested | WEof.

Definition write (a : acc) (m : msg) : acc * werr :=
  let s := a_st a in
  if s_wdead s then (a, WEof)
  else if s_wq s <? writer_cap then
    ({| a_st := with_wq s (s_wq s + 1); a_msgs := a_msgs a ++ [m]; a_evs := a_evs a;
        a_alloc := a_alloc a; a_legit := a_legit a |}, WOk)
  else (a, WCongested).

Definition congested (s : pstate) : bool := writer_cap / 2 <? s_wq s.

Definition the_geo (s : pstate) : geo :=
  match s_geo s with Some g => g | None => {| psize := ChunkSize; total := 0; info_len := 0 |} end.

Definition drop (a : acc) (chunk : N) : acc :=
  let (i, b) := from_chunk (the_geo (a_st a)) chunk in add_ev a (TDrop i b ChunkSize).

Definition reject (a : acc) (i b l : N) : acc * werr :=
  if s_can_fast (a_st a) then write a (RejectRequest i b l) else (a, WOk).

Definition docancel (a : acc) (chunk : N) : acc * werr :=
  let g := the_geo (a_st a) in
  let (i, b) := from_chunk g chunk in write a (Cancel i b (chunk_size g chunk)).

Definition peer_bm (s : pstate) : bm := match s_bitmap s with Some b => b | None => bm_nil end.
Definition is_fast (s : pstate) (i : N) : bool := memN i (s_fast s).

(* ---------- maybeInterested ---------- *)

Definition maybe_interested (a : acc) : acc * werr :=
  let s := a_st a in
  let interested :=
    s_should_interested s && (match s_geo s with Some _ => true | None => false end) &&
    match s_bitmap s with
    | Some b => existsb (fun i => negb (bm_get (s_my s) i)) (filter (fun i => i / 8 <? blen b) (bits b))
    | None => false
    end in
  if Bool.eqb interested (s_am_interested s) then (a, WOk) else
  let (a', e) := write a (if interested then Interested else NotInterested) in
  match e with
  | WOk => let s' := a_st a' in
           (upd_st a' (with_flags s' (s_unchoked s') (s_interested s') (s_am_unchoking s')
                                  (s_should_interested s') interested (s_counter s')), WOk)
  | _ => (a', e)
  end.

(* ---------- maybeRequest, with the number of loop iterations as oracle ---------- *)

Definition nreq (s : pstate) : N := llen (rq_requested (s_reqs s)).

Fixpoint mr_loop (k : nat) (a : acc) : acc :=
  match k with
  | O =>
    let s := a_st a in
    (* the loop may stop here only if its guard is false or the pipeline test breaks *)
    set_legit a (congested s || match rq_queue (s_reqs s) with [] => true | _ => false end || (2 <=? nreq s))
  | S k' =>
    let s := a_st a in
    match rq_queue (s_reqs s) with
    | [] => set_legit a false
    | index :: qrest =>
      if congested s || ((2 <=? nreq s) && (s_reqq s <=? nreq s)) then set_legit a false else
      let g := the_geo s in
      let (i, b) := from_chunk g index in
      let s1 := with_reqs s {| rq_queue := qrest; rq_requested := rq_requested (s_reqs s) |} in
      let a1 := upd_st a s1 in
      if (negb (s_unchoked s) && negb (is_fast s i)) || negb (bm_get (peer_bm s) i) then
        mr_loop k' (drop a1 index)
      else
        let (a2, e) := write a1 (Request i b (chunk_size g index)) in
        match e with
        | WOk =>
          let s2 := a_st a2 in
          mr_loop k' (upd_st a2 (with_reqs s2 {| rq_queue := rq_queue (s_reqs s2);
                                                 rq_requested := rq_requested (s_reqs s2) ++ [(index, false)] |}))
        | _ => set_legit (drop a2 index) (match k' with O => true | _ => false end)
        end
    end
  end.

Definition maybe_request (k : nat) (a : acc) : acc :=
  let s := a_st a in
  if negb (s_unchoked s) && match s_fast s with [] => true | _ => false end
  then set_legit a (match k with O => true | _ => false end)
  else mr_loop k a.

(* ---------- unchoke ---------- *)

Fixpoint reject_all (a : acc) (l : list upreq) : acc * werr :=
  match l with
  | [] => (a, WOk)
  | r :: t => let (a', e) := reject a (u_index r) (u_begin r) (u_length r) in
              match e with WOk => reject_all a' t | _ => (a', e) end
  end.

(* returns the error unchoke() returns *)
Definition unchoke (a : acc) (u : bool) : acc * werr :=
  let s := a_st a in
  let u := u && s_interested s in
  if Bool.eqb u (s_am_unchoking s) then (a, WOk) else
  if u then
    let (a', e) := write a Unchoke in
    match e with
    | WOk => let s' := a_st a' in
             (upd_st a' (with_flags s' (s_unchoked s') (s_interested s') true (s_should_interested s')
                                    (s_am_interested s') (s_counter s' + 1)%Z), WOk)
    | _ => (a', WOk)
    end
  else
    let (a', e) := write a Choke in
    match e with
    | WOk => let s' := a_st a' in
             let req := s_requested s' in
             let s'' := with_requested (with_flags s' (s_unchoked s') (s_interested s') false (s_should_interested s')
                                                   (s_am_interested s') (s_counter s' - 1)%Z) [] in
             reject_all (upd_st a' s'') req
    | _ => (a', e)
    end.

(* ---------- scheduleUpload(immediate = true), with oracles ---------- *)

(* allow: the rate limiter lets the head request through;
   data: Some d when Pieces.ReadAt returned exactly r.Length bytes d *)
Definition schedule_upload (a : acc) (allow : bool) (data : option bytes) : acc * werr :=
  let s := a_st a in
  if negb (s_am_unchoking s) then (a, WOk) else
  match s_requested s with
  | [] => (a, WOk)
  | r :: rest =>
    if congested s then (a, WOk)
    else if negb allow then (a, WOk)
    else
      let a1 := add_alloc (upd_st a (with_requested s rest)) (u_length r) in
      match data with
      | None => reject a1 (u_index r) (u_begin r) (u_length r)
      | Some d =>
        let (a2, e) := write a1 (Piece (u_index r) (u_begin r) d) in
        match e with
        | WOk => (a2, WOk)
        | WCongested => (upd_st a2 (with_requested (a_st a2) (r :: s_requested (a_st a2))), WOk)
        | WEof => (a2, WEof)
        end
      end
  end.

(* ---------- PEX bookkeeping ---------- *)

Definition peer_addr_eqb (p q : peer) : bool := bytes_eqb (p_ip p) (p_ip q) && (p_port p =? p_port q).
Definition pfind (p : peer) (l : list peer) : bool := existsb (peer_addr_eqb p) l.
Fixpoint premove (p : peer) (l : list peer) : list peer :=
  match l with [] => [] | q :: r => if peer_addr_eqb p q then r else q :: premove p r end.

Definition pex_add (st : pexst) (p : peer) : pexst :=
  if pfind p (px_pending_del st) then
    {| px_pending := px_pending st; px_pending_del := premove p (px_pending_del st); px_sent := px_sent st ++ [p] |}
  else if pfind p (px_sent st) then st
  else if pfind p (px_pending st) then st
  else {| px_pending := px_pending st ++ [p]; px_pending_del := px_pending_del st; px_sent := px_sent st |}.

Definition pex_del (st : pexst) (p : peer) : pexst :=
  if pfind p (px_pending st) then
    {| px_pending := premove p (px_pending st); px_pending_del := px_pending_del st; px_sent := px_sent st |}
  else if negb (pfind p (px_sent st)) then st
  else
    let sent' := premove p (px_sent st) in
    if pfind p (px_pending_del st) then
      {| px_pending := px_pending st; px_pending_del := px_pending_del st; px_sent := sent' |}
    else {| px_pending := px_pending st; px_pending_del := px_pending_del st ++ [p]; px_sent := sent' |}.

Definition is_nil {A} (l : list A) : bool := match l with [] => true | _ => false end.

Definition send_pex (a : acc) : acc :=
  let s := a_st a in
  if (s_pex_ext s =? 0) || congested s then a else
  let st := s_pexst s in
  if is_nil (px_pending st) && is_nil (px_pending_del st) then a else
    let tosend := firstn 50 (px_pending st) in
    let todel := firstn 50 (px_pending_del st) in
    let (a', e) := write a (ExtendedPex (s_pex_ext s) tosend todel) in
    match e with
    | WOk =>
      let s' := a_st a' in
      upd_st a' (with_lists s' (s_fast s') (s_pex s')
        {| px_pending := skipn 50 (px_pending st); px_pending_del := skipn 50 (px_pending_del st);
           px_sent := px_sent st ++ tosend |})
    | _ => a'   (* delta re-queued: state unchanged *)
    end.

(* ---------- events from the torrent (handleEvent) ---------- *)

Inductive pevent :=
| PeerMetadataComplete (g : geo)
| PeerRequest (chunks : list N)
| PeerHave (i : N) (have : bool)
| PeerCancel (c : N)
| PeerCancelPiece (i : N)
| PeerInterested (b : bool)
| PeerGetMetadata (i : N)
| PeerPex (ps : list peer) (add : bool)
| PeerUnchoke (u : bool)
| PeerDone.

Definition res := (acc * verdict)%type.
Definition ok (a : acc) : res := (a, VOk).
Definition of_werr (x : acc * werr) : res :=
  match snd x with WOk => (fst x, VOk) | _ => (fst x, VDisconnect) end.

Definition cancel_chunk (a : acc) (chunk : N) : option acc :=
  let s := a_st a in
  let '(r1, found, docan) := rq_cancel (s_reqs s) chunk in
  if found then
    let a1 := upd_st a (with_reqs s r1) in
    Some (if docan then fst (docancel a1 chunk) else a1)
  else
    match rq_del (s_reqs s) chunk false with
    | None => None
    | Some (r2, q, r) =>
      let a1 := upd_st a (with_reqs s r2) in
      if q || r then
        let a2 := if r then fst (docancel a1 chunk) else a1 in
        Some (drop a2 chunk)
      else Some a1
    end.

Fixpoint enqueue_all (a : acc) (chunks : list N) : acc :=
  match chunks with
  | [] => a
  | c :: r =>
    let s := a_st a in
    let (i, _) := from_chunk (the_geo s) c in
    if bm_get (peer_bm s) i then
      let (rq, done) := rq_enqueue (s_reqs s) c in
      let a1 := upd_st a (with_reqs s rq) in
      enqueue_all (if done then a1 else drop a1 c) r
    else enqueue_all (drop a c) r
  end.

Fixpoint cancel_many (a : acc) (cs : list N) : option acc :=
  match cs with
  | [] => Some a
  | c :: r => match cancel_chunk a c with Some a' => cancel_many a' r | None => None end
  end.

Definition handle_event (a : acc) (e : pevent) (k : nat) : res :=
  let s := a_st a in
  match e with
  | PeerMetadataComplete g =>
    match s_geo s with
    | Some _ => (a, VDisconnect)
    | None =>
      let s1 := with_geo s (Some g) in
      if s_is_seed s then
        match s_bitmap s with
        | Some _ => (upd_st a s1, VDisconnect)
        | None =>
          let b := bm_set_multiple bm_nil (num_pieces g) in
          let a1 := add_ev (add_alloc (upd_st a (with_bitmap s1 (Some b) true)) (blen b)) (TPeerBitmap b true) in
          ok (fst (maybe_interested a1))
        end
      else if num_pieces g <? bm_len (peer_bm s) then (upd_st a s1, VDisconnect)
      else ok (fst (maybe_interested (upd_st a s1)))
    end
  | PeerRequest chunks =>
    match s_geo s with
    | None => (a, VDisconnect)
    | Some _ => ok (maybe_request k (enqueue_all a chunks))
    end
  | PeerHave i have =>
    if have then
      let a1 := upd_st a (with_my s (bm_set (s_my s) i)) in
      let (a2, e) := write a1 (Have i) in
      match e with WOk => ok (fst (maybe_interested a2)) | _ => (a2, VDisconnect) end
    else
      let a1 := upd_st a (with_my s (bm_reset (s_my s) i)) in
      if 0 <? s_donthave_ext s then
        let (a2, e) := write a1 (ExtendedDontHave (s_donthave_ext s) i) in
        match e with WOk => ok (fst (maybe_interested a2)) | _ => (a2, VDisconnect) end
      else ok (fst (maybe_interested a1))
  | PeerCancel c =>
    match s_geo s with
    | None => (a, VDisconnect)
    | Some _ => match cancel_chunk a c with Some a' => ok a' | None => (a, VPanic) end
    end
  | PeerCancelPiece i =>
    match s_geo s with
    | None => (a, VDisconnect)
    | Some g =>
      let n := cpp g in
      match cancel_many a (map (fun j => (i * n + j) mod 4294967296) (map N.of_nat (seq 0 (N.to_nat n)))) with
      | Some a' => ok a' | None => (a, VPanic) end
    end
  | PeerInterested b =>
    let s1 := with_flags s (s_unchoked s) (s_interested s) (s_am_unchoking s) b (s_am_interested s) (s_counter s) in
    ok (fst (maybe_interested (upd_st a s1)))
  | PeerGetMetadata i =>
    if (s_metadata_ext s =? 0) || congested s then ok a
    else ok (fst (write a (ExtendedMetadata (s_metadata_ext s) 0 i 0 [])))
  | PeerPex ps add =>
    if s_pex_ext s =? 0 then ok a
    else
      let st' := fold_left (fun st p => if add then pex_add st p else pex_del st p) ps (s_pexst s) in
      ok (upd_st a (with_lists s (s_fast s) (s_pex s) st'))
  | PeerUnchoke u =>
    let (a1, e) := unchoke a u in
    match e with
    | WOk => ok a1      (* scheduleUpload(false) / stopUpload only touch the ticker *)
    | _ => (a1, VDisconnect)
    end
  | PeerDone => (a, VDisconnect)
  end.

(* ---------- messages from the remote peer (handleMessage) ---------- *)

Fixpoint remove_first_upreq (i b l : N) (rs : list upreq) : option (list upreq) :=
  match rs with
  | [] => None
  | r :: t =>
    if (u_index r =? i) && (u_begin r =? b) && (u_length r =? l) then Some t
    else match remove_first_upreq i b l t with Some t' => Some (r :: t') | None => None end
  end.

Definition clear_requests (a : acc) (both : bool) : acc :=
  let s := a_st a in
  let rq := s_reqs s in
  let a1 := upd_st a (with_reqs s (if both then reqs_nil else {| rq_queue := []; rq_requested := rq_requested rq |})) in
  let a2 := if both then fold_left drop (map fst (rq_requested rq)) a1 else a1 in
  fold_left drop (rq_queue rq) a2.

Definition retract_bitmap (a : acc) : acc :=
  match s_bitmap (a_st a) with
  | Some b => add_alloc (add_ev a (TPeerBitmap b false)) (blen b)
  | None => a
  end.

(* AddData oracle for a Piece: Some complete = all bytes stored; None = rejected/short *)
Definition handle_message (a : acc) (m : msg) (k : nat) (adddata : option bool) : res :=
  let s := a_st a in
  match m with
  | KeepAlive => ok a
  | Choke =>
    let s1 := with_flags s false (s_interested s) (s_am_unchoking s) (s_should_interested s) (s_am_interested s) (s_counter s) in
    ok (add_ev (clear_requests (upd_st a s1) (negb (s_can_fast s))) (TPeerUnchoke false))
  | Unchoke =>
    let s1 := with_flags s true (s_interested s) (s_am_unchoking s) (s_should_interested s) (s_am_interested s) (s_counter s) in
    ok (add_ev (upd_st a s1) (TPeerUnchoke true))
  | Interested =>
    let s1 := with_flags s (s_unchoked s) true (s_am_unchoking s) (s_should_interested s) (s_am_interested s) (s_counter s) in
    ok (add_ev (upd_st a s1) (TPeerInterested true))
  | NotInterested =>
    let s1 := with_flags s (s_unchoked s) false (s_am_unchoking s) (s_should_interested s) (s_am_interested s) (s_counter s) in
    let (a1, _) := unchoke (upd_st a s1) false in
    ok (add_ev a1 (TPeerInterested false))
  | Have i =>
    match s_geo s with
    | Some g => if num_pieces g <=? i then (a, VDisconnect) else
      if bm_get (peer_bm s) i then ok a else
      let b := bm_set (peer_bm s) i in
      let a1 := add_alloc (upd_st a (with_bitmap s (Some b) (s_is_seed s))) (blen b - blen (peer_bm s)) in
      ok (fst (maybe_interested (add_ev a1 (TPeerHave i true))))
    | None => if max_pieces_unknown <=? i then (a, VDisconnect) else
      if bm_get (peer_bm s) i then ok a else
      let b := bm_set (peer_bm s) i in
      let a1 := add_alloc (upd_st a (with_bitmap s (Some b) (s_is_seed s))) (blen b - blen (peer_bm s)) in
      ok (fst (maybe_interested (add_ev a1 (TPeerHave i true))))
    end
  | Bitfield bf =>
    let b := bm_of_bytes bf in
    let too_long := match s_geo s with Some g => num_pieces g <? bm_len b | None => false end in
    if too_long then (add_alloc a (len bf), VDisconnect) else
    let a1 := retract_bitmap (add_alloc a (len bf)) in
    let a2 := upd_st a1 (with_bitmap (a_st a1) (Some b) (s_is_seed s)) in
    ok (fst (maybe_interested (add_alloc (add_ev a2 (TPeerBitmap b true)) (len bf))))
  | Request i b l =>
    if (match s_geo s with None => true | Some _ => false end) || negb (s_am_unchoking s) || (max_request_length <? l)
    then of_werr (reject a i b l)
    else
      let r0 :=
        if upload_queue_max <=? llen (s_requested s) then
          match s_requested s with
          | h :: t =>
            let (a1, e) := reject (upd_st a (with_requested s t)) (u_index h) (u_begin h) (u_length h) in
            (a1, match e with WEof => false | _ => true end)
          | [] => (a, true)
          end
        else (a, true) in
      let (a1, fine) := r0 in
      if negb fine then (a1, VDisconnect) else
      let s1 := a_st a1 in
      ok (add_alloc (upd_st a1 (with_requested s1 (s_requested s1 ++ [{| u_index := i; u_begin := b; u_length := l |}]))) 12)
  | Piece i b d =>
    match s_geo s with
    | None => (a, VDisconnect)
    | Some g =>
      if num_pieces g <=? i then (a, VDisconnect) else
      let c := to_chunk g i b in
      match rq_del (s_reqs s) c false with
      | None => (a, VPanic)
      | Some (rq, q, r) =>
        let a1 := upd_st a (with_reqs s rq) in
        let a2 :=
          if r || q then
            if len d =? chunk_size g c then
              match adddata with
              | Some complete => add_ev a1 (TData i b (len d) complete)
              | None => drop a1 c
              end
            else drop (set_legit a1 (match adddata with None => true | Some _ => false end)) c
          else a1 in
        ok (maybe_request k a2)
      end
    end
  | Cancel i b l =>
    match s_geo s with
    | None => (a, VDisconnect)
    | Some _ =>
      match remove_first_upreq i b l (s_requested s) with
      | Some rest => of_werr (reject (upd_st a (with_requested s rest)) i b l)
      | None => ok a
      end
    end
  | Port _ => ok a
  | SuggestPiece _ => if s_can_fast s then ok a else (a, VDisconnect)
  | RejectRequest i b l =>
    if negb (s_can_fast s) then (a, VDisconnect) else
    match s_geo s with
    | None => (a, VDisconnect)
    | Some g =>
      let c := to_chunk g i b in
      match rq_del (s_reqs s) c true with
      | None => (a, VPanic)
      | Some (rq, _, r) =>
        let a1 := upd_st a (with_reqs s rq) in
        ok (maybe_request k (if r then drop a1 c else a1))
      end
    end
  | AllowedFast i =>
    if negb (s_can_fast s) then (a, VDisconnect) else
    if is_fast s i then ok a
    else ok (add_alloc (upd_st a (with_lists s (s_fast s ++ [i]) (s_pex s) (s_pexst s))) 4)
  | HaveAll =>
    if negb (s_can_fast s) then (a, VDisconnect) else
    let a1 := retract_bitmap a in
    let s1 := with_bitmap (a_st a1) None true in
    match s_geo s with
    | Some g =>
      let b := bm_set_multiple bm_nil (num_pieces g) in
      let a2 := add_alloc (add_ev (upd_st a1 (with_bitmap s1 (Some b) true)) (TPeerBitmap b true)) (2 * blen b) in
      ok (fst (maybe_interested a2))
    | None => ok (fst (maybe_interested (upd_st a1 s1)))
    end
  | HaveNone =>
    if negb (s_can_fast s) then (a, VDisconnect) else
    let a1 := retract_bitmap a in
    ok (upd_st a1 (with_bitmap (a_st a1) None false))
  | Extended0 e =>
    if s_got_extended s then (a, VDisconnect) else
    let find k := match find (fun kv => bytes_eqb (fst kv) (ascii_bytes k)) (rev (e_messages e)) with
                  | Some kv => snd kv | None => 0 end in
    let has_m := match e_messages e with [] => false | _ => true end in
    let s1 := with_ext s true
                (if has_m then find "ut_pex"%string else s_pex_ext s)
                (if has_m then find "ut_metadata"%string else s_metadata_ext s)
                (if has_m then find "lt_donthave"%string else s_donthave_ext s)
                (if has_m then find "upload_only"%string else s_uploadonly_ext s)
                (e_upload_only e)
                (if 0 <? e_reqq e then e_reqq e else s_reqq s) in
    ok (add_ev (upd_st a s1) (TPeerExtended (e_metadata_size e)))
  | ExtendedPex _ added dropped =>
    let pex1 := fold_left (fun l p => if pfind p l then map (fun q => if peer_addr_eqb p q then p else q) l else l ++ [p]) added (s_pex s) in
    let pex2 := fold_left (fun l p => premove p l) dropped pex1 in
    ok (add_alloc (upd_st a (with_lists s (s_fast s) pex2 (s_pexst s))) (32 * llen added))
  | ExtendedMetadata _ tpe piece total d =>
    if tpe =? 0 then
      if (s_metadata_ext s =? 0) || congested s then ok a else
      let il := match s_geo s with Some g => info_len g | None => 0 end in
      let offset := piece * 16384 in
      let l := if il <? offset + 16384 then (Z.of_N il - Z.of_N offset)%Z else 16384%Z in
      if (0 <? l)%Z then
        let (a1, e) := write a (ExtendedMetadata (s_metadata_ext s) 1 piece il (repeat 0 (Z.to_nat l))) in
        match e with
        | WOk => ok a1
        | WCongested => ok (fst (write a1 (ExtendedMetadata (s_metadata_ext s) 2 piece 0 [])))
        | WEof => (a1, VDisconnect)
        end
      else ok (fst (write a (ExtendedMetadata (s_metadata_ext s) 2 piece 0 [])))
    else if tpe =? 1 then ok (add_ev a (TMetaData total piece (len d)))
    else if tpe =? 2 then ok a
    else (a, VDisconnect)
  | ExtendedDontHave _ i =>
    if s_is_seed s && (match s_geo s with None => true | Some _ => false end) then (a, VDisconnect) else
    let a0 := upd_st a (with_bitmap s (s_bitmap s) false) in
    let out_of_range := match s_geo s with Some g => num_pieces g <=? i | None => false end in
    if out_of_range then (a0, VDisconnect) else
    if bm_get (peer_bm s) i then
      ok (add_ev (upd_st a0 (with_bitmap (a_st a0) (Some (bm_reset (peer_bm s) i)) false)) (TPeerHave i false))
    else ok a0
  | ExtendedUploadOnly _ v =>
    ok (upd_st a (with_ext s (s_got_extended s) (s_pex_ext s) (s_metadata_ext s) (s_donthave_ext s) (s_uploadonly_ext s) v (s_reqq s)))
  | ExtendedUnknown _ => (a, VDisconnect)
  | Unknown _ => (a, VDisconnect)
  end.

(* ---------- the periodic tick: expireRequests, then maybeRequest if something was dropped ---------- *)

(* drops: cancelled requests the implementation judged expired (ctime before t1);
   cancels: requests it judged too old (rtime before t0).  Faithful to Requests.Expire:
   the scan re-examines position i after a swap-with-last removal. *)
Fixpoint expire_loop (fuel : nat) (i : nat) (a : acc) (drops cancels : list N) (dropped : bool) : acc * bool :=
  match fuel with
  | O => (a, dropped)
  | S f =>
    let s := a_st a in
    let rq := s_reqs s in
    match nth_error (rq_requested rq) i with
    | None => (a, dropped)
    | Some (c, cancelled) =>
      if cancelled && memN c drops then
        match remove_swap (fun e => fst e =? c) (rq_requested rq) with
        | Some (_, rest) =>
          expire_loop f i (drop (upd_st a (with_reqs s {| rq_queue := rq_queue rq; rq_requested := rest |})) c) drops cancels true
        | None => (a, dropped)
        end
      else if negb cancelled && memN c cancels then
        let rq' := {| rq_queue := rq_queue rq;
                      rq_requested := map (fun e => if fst e =? c then (fst e, true) else e) (rq_requested rq) |} in
        expire_loop f (S i) (fst (docancel (upd_st a (with_reqs s rq')) c)) drops cancels dropped
      else expire_loop f (S i) a drops cancels dropped
    end
  end.

Definition tick (a : acc) (drops cancels : list N) (k : nat) : acc :=
  match rq_requested (s_reqs (a_st a)) with
  | [] => set_legit a (match k with O => true | _ => false end)
  | l =>
    let (a1, dropped) := expire_loop (2 * length l + 2) 0 a drops cancels false in
    if dropped then maybe_request k a1 else set_legit a1 (match k with O => true | _ => false end)
  end.

(* ---------- one step of the core ---------- *)

Inductive op :=
| OpMsg (m : msg) (adddata : option bool)
| OpEv (e : pevent)
| OpTick (drops cancels : list N)
| OpPexTick
| OpUpload (allow : bool) (data : option bytes)
| OpWriterDie.

(* ballast: messages left in the writer channel at the start of the step (congestion) *)
Definition step (s : pstate) (ballast : N) (o : op) (k : nat) : res :=
  let s0 := if s_wdead s then s else with_wq s ballast in
  let a := acc0 s0 in
  let k0 (r : res) : res := (set_legit (fst r) (match k with O => true | _ => false end), snd r) in
  match o with
  | OpMsg m ad =>
    match m with
    | Piece _ _ _ | RejectRequest _ _ _ => handle_message a m k ad
    | _ => k0 (handle_message a m 0 ad)
    end
  | OpEv e =>
    match e with
    | PeerRequest _ => handle_event a e k
    | _ => k0 (handle_event a e 0)
    end
  | OpTick drops cancels => ok (tick a drops cancels k)
  | OpPexTick => k0 (ok (send_pex a))
  | OpUpload allow data => k0 (of_werr (schedule_upload a allow data))
  | OpWriterDie => k0 (ok (upd_st a (with_wdead s0)))
  end.

Definition init_state (g : option geo) (can_fast can_extended : bool) (my : bm) : pstate :=
  {| s_geo := g; s_can_fast := can_fast; s_can_extended := can_extended; s_my := my; s_bitmap := None;
     s_is_seed := false; s_unchoked := false; s_interested := false; s_am_unchoking := false;
     s_should_interested := false; s_am_interested := false; s_got_extended := false;
     s_pex_ext := 0; s_metadata_ext := 0; s_donthave_ext := 0; s_uploadonly_ext := 0; s_upload_only := false;
     s_reqq := 128; s_reqs := reqs_nil; s_requested := []; s_fast := []; s_pex := []; s_pexst := pexst_nil;
     s_wq := 0; s_wdead := false; s_counter := 0%Z |}.

(* ---------- the initial advertisement of peer.Run (after the optional extended handshake) ---------- *)
Definition initial_adv (g : option geo) (can_fast : bool) (my : bm) : list msg :=
  if bm_empty my then (if can_fast then [HaveNone] else [])
  else
    let n := match g with Some g => num_pieces g | None => 0 end in
    let seed := match g with Some _ => bm_all my n | None => false end in
    if can_fast && seed then [HaveAll]
    else if bm_count my <? n / 72 then (if can_fast then [HaveNone] else []) ++ map Have (bits my)
    else [Bitfield (bm_to_bytes (bm_extend my (n - 1)))].

(* what the remote peer understands we have, message by message (None: a message that is malformed
   for a torrent of n pieces) *)
Fixpoint adv_set (n : N) (ms : list msg) (acc : list N) : option (list N) :=
  match ms with
  | [] => Some acc
  | HaveNone :: r => adv_set n r []
  | HaveAll :: r => adv_set n r (map N.of_nat (seq 0 (N.to_nat n)))
  | Have i :: r => if n <=? i then None else adv_set n r (insN i acc)
  | Bitfield bf :: r =>
      (* exactly ceil(n/8) bytes, no spare bit set *)
      if negb (len bf =? (n + 7) / 8) then None
      else if existsb (fun i => n <=? i) (bits (bm_of_bytes bf)) then None
      else adv_set n r (bits (bm_of_bytes bf))
  | _ :: r => None
  end.
