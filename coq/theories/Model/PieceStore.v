(* Model/PieceStore.v — the in-RAM piece store (tor/piece/piece.go) as a transition system.
   Every action is one critical section of the Go code (the store's lock is held throughout);
   Finalise, which computes the SHA-1 outside the lock, is two actions with the piece marked
   busy in between.  Any interleaving of any number of goroutines is a sequence of actions.
   The content of a block is an abstract value (two blocks are equal iff their bytes are);
   [H] stands for SHA-1 over the piece's blocks.  Definitions only. *)
From Storrent Require Import Base.Bytes.
Open Scope N_scope.

Inductive pstate := Incomplete | Busy | Complete.

Record pc := {
  pc_buf : option (list (option N));    (* the allocated buffer: for each block, what was stored (None: nothing yet) *)
  pc_state : pstate
}.

Record store := {
  st_pieces : list pc;
  st_deleted : bool;
  st_count : N;          (* Pieces.count: pieces holding a buffer *)
  st_alloc : N           (* bytes accounted by alloc.Alloc / alloc.Free for this store *)
}.

Section Store.
Variable H : list (option N) -> N.        (* digest of a buffer *)
Variable expected : nat -> N.             (* the metainfo's hash of each piece *)
Variable nblocks : nat -> nat.            (* blocks of each piece (the last piece may have fewer) *)
Variable plen : nat -> N.                 (* bytes of each piece *)

Definition empty_pc : pc := {| pc_buf := None; pc_state := Incomplete |}.
Definition get (s : store) (i : nat) : pc := nth i (st_pieces s) empty_pc.
Definition setp (s : store) (i : nat) (p : pc) (count alloc : N) : store :=
  {| st_pieces := firstn i (st_pieces s) ++ p :: skipn (S i) (st_pieces s);
     st_deleted := st_deleted s; st_count := count; st_alloc := alloc |}.

Definition all_set (l : list (option N)) : bool := forallb (fun b => match b with Some _ => true | None => false end) l.

(* store the blocks [data] from block b on, never overwriting a block already present *)
Fixpoint put (l : list (option N)) (b : nat) (data : list N) : list (option N) :=
  match l, b with
  | [], _ => []
  | x :: r, S b' => x :: put r b' data
  | x :: r, O =>
    match data with
    | [] => l
    | d :: data' => (match x with Some _ => x | None => Some d end) :: put r O data'
    end
  end.

Inductive action :=
| AAdd (i b : nat) (data : list N)     (* AddData(i, b * 16 KiB, data) *)
| AFinBegin (i : nat)                  (* Finalise, up to the release of the lock *)
| AFinEnd (i : nat)                    (* Finalise, after the digest has been computed *)
| ARead (i b : nat)                    (* ReadAt of block b of piece i *)
| ADel (i : nat)                       (* del(i, false): an eviction pass *)
| ADelForce (i : nat)                  (* del(i, true) of Pieces.Del: waits while the piece is busy *)
| ASetDeleted.                         (* Pieces.Del latches deleted *)

Inductive result :=
| RNothing
| RAdded (blocks : nat) (complete : bool)
| RErr
| RData (d : option N)        (* ReadAt: the block's content, or no data *)
| RFinal (ok : bool)          (* Finalise: done / hash mismatch *)
| RDeleted (complete : bool). (* del freed the piece; it was complete *)

Definition free (s : store) (i : nat) : store * result :=
  let p := get s i in
  match pc_buf p with
  | None => (s, RNothing)
  | Some _ =>
    (setp s i empty_pc (st_count s - 1) (st_alloc s - plen i),
     RDeleted (match pc_state p with Complete => true | _ => false end))
  end.

Definition index_of (a : action) : option nat :=
  match a with
  | AAdd i _ _ | AFinBegin i | AFinEnd i | ARead i _ | ADel i | ADelForce i => Some i
  | ASetDeleted => None
  end.

Definition step_inner (s : store) (a : action) : store * result :=
  match a with
  | AAdd i b data =>
    let p := get s i in
    match pc_state p with
    | Incomplete =>
      if st_deleted s then (s, RErr)
      else if (nblocks i <=? b)%nat then (s, RErr)
      else
        let '(buf, count, alloc) :=
          match pc_buf p with
          | Some l => (l, st_count s, st_alloc s)
          | None => (repeat None (nblocks i), st_count s + 1, st_alloc s + plen i)
          end in
        let buf' := put buf b data in
        (setp s i {| pc_buf := Some buf'; pc_state := Incomplete |} count alloc,
         RAdded (Nat.min (length data) (nblocks i - b)) (all_set buf'))
    | _ => (s, RNothing)
    end
  | AFinBegin i =>
    let p := get s i in
    match pc_state p, pc_buf p with
    | Incomplete, Some l =>
      if st_deleted s then (s, RErr)
      else if all_set l then (setp s i {| pc_buf := Some l; pc_state := Busy |} (st_count s) (st_alloc s), RNothing)
      else (s, RNothing)
    | Incomplete, None => if st_deleted s then (s, RErr) else (s, RNothing)
    | _, _ => (s, RNothing)
    end
  | AFinEnd i =>
    let p := get s i in
    match pc_state p, pc_buf p with
    | Busy, Some l =>
      if H l =? expected i
      then (setp s i {| pc_buf := Some l; pc_state := Complete |} (st_count s) (st_alloc s), RFinal true)
      else (fst (free (setp s i {| pc_buf := Some l; pc_state := Incomplete |} (st_count s) (st_alloc s)) i), RFinal false)
    | _, _ => (s, RNothing)
    end
  | ARead i b =>
    let p := get s i in
    match pc_state p, pc_buf p with
    | Complete, Some l => (s, RData (nth b l None))
    | _, _ => (s, RData None)
    end
  | ADel i =>
    match pc_state (get s i) with
    | Busy => (s, RNothing)
    | _ => free s i
    end
  | ADelForce i =>
    match pc_state (get s i) with
    | Busy => (s, RNothing)       (* still waiting *)
    | _ => free s i
    end
  | ASetDeleted =>
    ({| st_pieces := st_pieces s; st_deleted := true; st_count := st_count s; st_alloc := st_alloc s |}, RNothing)
  end.

(* an index beyond the torrent is refused by every caller before it reaches the store *)
Definition step (s : store) (a : action) : store * result :=
  match index_of a with
  | Some i => if (length (st_pieces s) <=? i)%nat then (s, RErr) else step_inner s a
  | None => step_inner s a
  end.

Definition run (s : store) (l : list action) : store := fold_left (fun s a => fst (step s a)) l s.

Definition init (n : nat) : store :=
  {| st_pieces := repeat empty_pc n; st_deleted := false; st_count := 0; st_alloc := 0 |}.

End Store.
