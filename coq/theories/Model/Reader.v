(* Model/Reader.v — tor.Reader (tor/reader.go) over a torrent whose pieces are available:
   Seek, and Read through Pieces.ReadAt (one piece per call).  Definitions only. *)
From Storrent Require Import Base.Bytes.
Open Scope Z_scope.

Record rdr := { rd_offset : Z; rd_length : Z; rd_pos : Z; rd_closed : bool }.

Definition rd_new (offset length : Z) : rdr := {| rd_offset := offset; rd_length := length; rd_pos := 0; rd_closed := false |}.

Inductive whence := SeekStart | SeekCurrent | SeekEnd.

(* Seek: the new position, or None for an error (position unchanged) *)
Definition rd_seek (r : rdr) (o : Z) (w : whence) : rdr * option Z :=
  if rd_closed r then (r, None) else
  let pos := match w with SeekStart => o | SeekCurrent => rd_pos r + o | SeekEnd => rd_length r + o end in
  if pos <? 0 then (r, None)
  else ({| rd_offset := rd_offset r; rd_length := rd_length r; rd_pos := pos; rd_closed := false |}, Some pos).

Inductive rerr := RNone | REOF | RClosed.

(* length of piece [index] of a torrent of [total] bytes in pieces of [psize] *)
Definition piece_len (psize total index : Z) : Z := Z.min psize (total - index * psize).

(* Read into a buffer of n bytes, every piece being complete:
   (reader, start of the bytes returned in the torrent, how many, error) *)
Definition rd_read (psize total : Z) (r : rdr) (n : Z) : rdr * Z * Z * rerr :=
  if rd_closed r then (r, 0, 0, RClosed) else
  if rd_length r <=? rd_pos r then (r, 0, 0, REOF) else
  let want := if rd_pos r + n <? rd_length r then n else rd_length r - rd_pos r in
  let abs := rd_offset r + rd_pos r in
  if total <=? abs then (r, abs, 0, REOF) else     (* ReadAt: beyond the torrent *)
  let index := abs / psize in
  let begin := abs mod psize in
  let cnt := Z.min want (piece_len psize total index - begin) in
  let err := if cnt =? rd_length r - rd_pos r then REOF else RNone in
  ({| rd_offset := rd_offset r; rd_length := rd_length r; rd_pos := rd_pos r + cnt; rd_closed := false |}, abs, cnt, err).

Definition rd_close (r : rdr) : rdr :=
  {| rd_offset := rd_offset r; rd_length := rd_length r; rd_pos := rd_pos r; rd_closed := true |}.

(* the file the reader stands for: bytes [offset, offset+length) of the torrent (cut at its end) *)
Definition file_len (total : Z) (r : rdr) : Z := Z.max 0 (Z.min (rd_length r) (total - rd_offset r)).

(* reading to the end with buffers of the given sizes: the ranges returned, in order *)
Fixpoint read_all (psize total : Z) (r : rdr) (bufs : list Z) : list (Z * Z) * rdr :=
  match bufs with
  | [] => ([], r)
  | n :: rest =>
    let '(r', abs, cnt, err) := rd_read psize total r n in
    match err with
    | RNone => let (l, r'') := read_all psize total r' rest in ((abs, cnt) :: l, r'')
    | _ => ([(abs, cnt)], r')
    end
  end.

(* ---------- the front-ends: HTTP Range requests and FUSE reads ---------- *)
(* reading n bytes from where the reader stands with buffers of at most [cap] bytes, as io.CopyN
   (cap = 32 KiB, under http.ServeContent) and io.ReadFull (cap = n, under the FUSE handle) do:
   the ranges returned, until n bytes have been read or a Read reports an error *)
Fixpoint read_n (fuel : nat) (cap psize total : Z) (r : rdr) (n : Z) : list (Z * Z) * rdr :=
  match fuel with
  | O => ([], r)
  | S f =>
    if n <=? 0 then ([], r) else
    let '(r', abs, cnt, err) := rd_read psize total r (Z.min cap n) in
    match err with
    | RNone => if cnt =? 0 then ([], r')
               else let (l, r'') := read_n f cap psize total r' (n - cnt) in ((abs, cnt) :: l, r'')
    | _ => ([(abs, cnt)], r')
    end
  end.

(* what http.ServeContent (net/http, specified here, not modelled) asks of the reader for one
   Range header over a file of flen bytes: (status, first byte, number of bytes) *)
Inductive rspec := RNoRange | RFromTo (a b : Z) | RFrom (a : Z) | RSuffix (n : Z).
Definition rspec_ok (s : rspec) : bool :=
  match s with RNoRange => true | RFromTo a b => (0 <=? a) && (a <=? b) | RFrom a => 0 <=? a | RSuffix n => 0 <? n end.
Definition http_range (flen : Z) (s : rspec) : Z * Z * Z :=
  match s with
  | RNoRange => (200, 0, flen)
  | RFromTo a b => if flen <=? a then (if flen =? 0 then (200, 0, 0) else (416, 0, 0))   (* an empty file: the header is ignored *)
                   else (206, a, Z.min b (flen - 1) - a + 1)
  | RFrom a => if flen <=? a then (if flen =? 0 then (200, 0, 0) else (416, 0, 0)) else (206, a, flen - a)
  | RSuffix n => let k := Z.min n flen in (206, flen - k, k)
  end.

(* the FUSE handle: Seek(o) then io.ReadFull of n bytes, end of file not being an error *)
Definition fuse_read (flen o n : Z) : Z := Z.min n (Z.max 0 (flen - o)).

(* the handle of fuse.go under its semaphore: reads are served one after the other, in any order *)
(* one read of the handle, from whatever state the reader is in: Seek(o), then ReadFull of n bytes *)
Definition fuse_op (psize total : Z) (r : rdr) (op : Z * Z) : list (Z * Z) * rdr :=
  read_n (Z.to_nat (snd op)) (snd op) psize total (fst (rd_seek r (fst op) SeekStart)) (snd op).
Fixpoint fuse_ops (psize total : Z) (r : rdr) (ops : list (Z * Z)) : list (list (Z * Z)) :=
  match ops with
  | [] => []
  | op :: rest => let (l, r') := fuse_op psize total r op in l :: fuse_ops psize total r' rest
  end.

