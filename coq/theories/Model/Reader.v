(* Model/Reader.v — tor.Reader (tor/reader.go) over a torrent whose pieces are available:
   Seek, and Read through Pieces.ReadAt (one piece per call).  Definitions only. *)
From Storrent Require Import Base.Bytes.
Open Scope Z_scope.

Record rdr := { rd_offset : Z; rd_length : Z; rd_pos : Z; rd_closed : bool }.

Definition rd_new (offset length : Z) : rdr := {| rd_offset := offset; rd_length := length; rd_pos := 0; rd_closed := false |}.

Inductive whence := SeekStart | SeekCurrent | SeekEnd.

(* Seek: the new position, or None for an error (position unchanged) *)
Definition rd_seek (r : rdr) (o : Z) (w : whence) : rdr * option Z :=
  if rd_closed r then (r, None) else
  let pos := match w with SeekStart => o | SeekCurrent => rd_pos r + o | SeekEnd => rd_length r + o end in
  if pos <? 0 then (r, None)
  else ({| rd_offset := rd_offset r; rd_length := rd_length r; rd_pos := pos; rd_closed := false |}, Some pos).

Inductive rerr := RNone | REOF | RClosed.

(* length of piece [index] of a torrent of [total] bytes in pieces of [psize] *)
Definition piece_len (psize total index : Z) : Z := Z.min psize (total - index * psize).

(* Read into a buffer of n bytes, every piece being complete:
   (reader, start of the bytes returned in the torrent, how many, error) *)
Definition rd_read (psize total : Z) (r : rdr) (n : Z) : rdr * Z * Z * rerr :=
  if rd_closed r then (r, 0, 0, RClosed) else
  if rd_length r <=? rd_pos r then (r, 0, 0, REOF) else
  let want := if rd_pos r + n <? rd_length r then n else rd_length r - rd_pos r in
  let abs := rd_offset r + rd_pos r in
  if total <=? abs then (r, abs, 0, REOF) else     (* ReadAt: beyond the torrent *)
  let index := abs / psize in
  let begin := abs mod psize in
  let cnt := Z.min want (piece_len psize total index - begin) in
  let err := if cnt =? rd_length r - rd_pos r then REOF else RNone in
  ({| rd_offset := rd_offset r; rd_length := rd_length r; rd_pos := rd_pos r + cnt; rd_closed := false |}, abs, cnt, err).

Definition rd_close (r : rdr) : rdr :=
  {| rd_offset := rd_offset r; rd_length := rd_length r; rd_pos := rd_pos r; rd_closed := true |}.

(* the file the reader stands for: bytes [offset, offset+length) of the torrent (cut at its end) *)
Definition file_len (total : Z) (r : rdr) : Z := Z.max 0 (Z.min (rd_length r) (total - rd_offset r)).

(* reading to the end with buffers of the given sizes: the ranges returned, in order *)
Fixpoint read_all (psize total : Z) (r : rdr) (bufs : list Z) : list (Z * Z) * rdr :=
  match bufs with
  | [] => ([], r)
  | n :: rest =>
    let '(r', abs, cnt, err) := rd_read psize total r n in
    match err with
    | RNone => let (l, r'') := read_all psize total r' rest in ((abs, cnt) :: l, r'')
    | _ => ([(abs, cnt)], r')
    end
  end.
