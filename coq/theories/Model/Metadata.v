(* Model/Metadata.v — executable model of the magnet-link metadata exchange on the
   torrent side: metadataVote / metadataGuess / resizeMetadata / requestMetadata and
   gotMetadata (tor/metadata.go), followed by MetadataComplete (Model/Torfile.v).
   The metadata buffer is kept at block granularity (16 KiB blocks, the last one
   shorter); the implementation's flat byte array is compared with the concatenation
   by the correspondence check.  SHA-1 is a Section variable. Definitions only. *)
From Storrent Require Import Base.Bytes Base.Bencode Gen.Consts Model.Wire Model.Torfile.
Open Scope N_scope.

Definition mblock : N := 16384.
Definition max_metadata : N := 134217728.

Section Metadata.
  Variable H : bytes -> bytes.      (* SHA-1 *)
  Variable ihash : bytes.           (* the torrent's info-hash *)

  Record mstate := {
    ms_complete : option geometry;        (* Some g once infoComplete = 1 *)
    ms_info : option bytes;               (* the published Info, once complete *)
    ms_size : N;                          (* len(t.Info) while assembling; 0 = nil *)
    ms_blocks : list (option bytes);      (* one slot per 16 KiB block; Some = present *)
    ms_votes : list (N * N) }.            (* size -> number of votes *)

  Definition ms_init : mstate :=
    {| ms_complete := None; ms_info := None; ms_size := 0; ms_blocks := []; ms_votes := [] |}.

  Definition nblocks (size : N) : N := (size + mblock - 1) / mblock.

  Fixpoint vote_add (size : N) (vs : list (N * N)) : list (N * N) :=
    match vs with
    | [] => [(size, 1)]
    | (s, c) :: r => if s =? size then (s, c + 1) :: r else (s, c) :: vote_add size r
    end.

  (* metadataVote *)
  Definition vote (st : mstate) (size : N) : mstate * bool :=
    match ms_complete st with
    | Some _ => (st, false)
    | None =>
      if (size =? 0) || (max_metadata <? size) then (st, false)
      else ({| ms_complete := None; ms_info := None; ms_size := ms_size st; ms_blocks := ms_blocks st;
               ms_votes := vote_add size (ms_votes st) |}, true)
    end.

  (* metadataGuess picks a size with the most votes; ties are broken by Go's map
     iteration order, so the guess the implementation made is an argument, checked here *)
  Definition max_count (vs : list (N * N)) : N := fold_left (fun m v => N.max m (snd v)) vs 0.
  Definition valid_guess (st : mstate) (g : N) : bool :=
    match ms_votes st with
    | [] => g =? 0
    | vs => existsb (fun v => (fst v =? g) && (snd v =? max_count vs)) vs
    end.

  (* requestMetadata up to the choice of blocks and peers: resize when the guess changed *)
  Definition request (st : mstate) (g : N) : mstate :=
    match ms_complete st with
    | Some _ => st
    | None =>
      if g =? 0 then st
      else if ms_size st =? g then st
      else if max_metadata <? g then st
      else {| ms_complete := None; ms_info := None; ms_size := g;
              ms_blocks := repeat None (N.to_nat (nblocks g)); ms_votes := ms_votes st |}
    end.

  Inductive gres := GErr | GMore | GDone | GPanic.

  Definition reset (st : mstate) : mstate :=
    {| ms_complete := None; ms_info := None; ms_size := 0; ms_blocks := []; ms_votes := ms_votes st |}.

  Fixpoint set_nth {A} (n : nat) (x : A) (l : list A) : list A :=
    match l, n with
    | [], _ => []
    | _ :: r, O => x :: r
    | y :: r, S n' => y :: set_nth n' x r
    end.

  Definition all_present (bs : list (option bytes)) : bool :=
    forallb (fun b => match b with Some _ => true | None => false end) bs.
  Definition assemble (bs : list (option bytes)) : bytes :=
    flat_map (fun b => match b with Some d => d | None => [] end) bs.

  (* gotMetadata *)
  Definition got (st : mstate) (index size : N) (data : bytes) : mstate * gres :=
    match ms_complete st with
    | Some _ => (st, GErr)
    | None =>
      if negb (size =? ms_size st) then (st, GErr)
      else if N.of_nat (length (ms_blocks st)) <=? index then (st, GErr)
      else if negb (len data =? mblock) && negb (index * mblock + len data =? ms_size st) then (st, GErr)
      else
        match nth_error (ms_blocks st) (N.to_nat index) with
        | Some (Some _) => (st, GMore)
        | _ =>
          if ms_size st <? index * mblock then (st, GPanic)     (* t.Info[index*16384:] *)
          else
            let room := ms_size st - index * mblock in
            let stored := firstn (N.to_nat (N.min (len data) room)) data in
            let bs := set_nth (N.to_nat index) (Some stored) (ms_blocks st) in
            if negb (all_present bs) then
              ({| ms_complete := None; ms_info := None; ms_size := ms_size st; ms_blocks := bs; ms_votes := ms_votes st |}, GMore)
            else
              let info := assemble bs in
              if negb (bytes_eqb (H info) ihash) then (reset st, GErr)
              else
                match metadata_complete info with
                | MOk g => ({| ms_complete := Some g; ms_info := Some info; ms_size := ms_size st;
                               ms_blocks := []; ms_votes := [] |}, GDone)
                | MErr => (reset st, GErr)
                | MPanic => (reset st, GPanic)
                end
        end
    end.

  Inductive mop :=
  | MVote (size : N) (guess : N)          (* TorPeerExtended: vote, then requestMetadata *)
  | MRequest (guess : N)                  (* periodic requestMetadata *)
  | MBlock (index size : N) (data : bytes) (guess : N).   (* TorMetaData, then requestMetadata if not done *)

  (* one event; the boolean says whether the recorded guesses were admissible *)
  Definition mstep (st : mstate) (o : mop) : mstate * gres * bool :=
    match o with
    | MVote size g =>
      match ms_complete st with
      | Some _ => (st, GMore, true)
      | None =>
        if size =? 0 then (st, GMore, true) else
        let (st1, ok) := vote st size in
        if ok then (request st1 g, GMore, valid_guess st1 g) else (st1, GMore, true)
      end
    | MRequest g =>
      match ms_complete st with
      | Some _ => (st, GMore, true)
      | None => (request st g, GMore, valid_guess st g)
      end
    | MBlock index size data g =>
      match ms_complete st with
      | Some _ => (st, GMore, true)
      | None =>
        let (st1, r) := got st index size data in
        match r with
        | GMore => (request st1 g, GMore, valid_guess st1 g)
        | _ => (st1, r, true)
        end
      end
    end.
End Metadata.
