(* Model/Sched.v — the torrent's side of the request bookkeeping (tor/tor.go): the per-block
   in-flight counters and the per-piece availability counters, and how the events sent by peers
   and web-seed writers change them.  Definitions only. *)
From Storrent Require Import Base.Bytes Gen.Consts.
Open Scope N_scope.

(* a counter array; absent = 0; kept sorted by index without zero entries *)
Definition cnt := list (N * N).

Fixpoint cget (c : cnt) (i : N) : N :=
  match c with [] => 0 | (j, v) :: r => if j =? i then v else cget r i end.

Fixpoint cset (c : cnt) (i v : N) : cnt :=
  match c with
  | [] => if v =? 0 then [] else [(i, v)]
  | (j, w) :: r =>
    if j =? i then (if v =? 0 then r else (i, v) :: r)
    else if i <? j then (if v =? 0 then c else (i, v) :: c)
    else (j, w) :: cset r i v
  end.

(* noteInFlight / noteAvailable: saturating up, no underflow *)
Definition note (limit : N) (c : cnt) (i : N) (up : bool) : cnt :=
  let v := cget c i in
  if up then (if limit <=? v then c else cset c i (v + 1))
  else (if v =? 0 then c else cset c i (v - 1)).

Definition note_inflight := note 255.
Definition note_avail := note 65535.

(* the blocks covered by (index, begin, length) *)
Definition covered (psize index begin length : N) : list N :=
  let cpp := psize / ChunkSize in
  let n := (length + ChunkSize - 1) / ChunkSize in
  map (fun k => index * cpp + begin / ChunkSize + N.of_nat k) (seq 0 (N.to_nat n)).

(* TorData / TorDrop *)
Definition release (psize : N) (inflight : cnt) (index begin length : N) : cnt :=
  if negb (begin mod ChunkSize =? 0) then inflight
  else if psize <? begin + length then inflight
  else fold_left (fun c ch => note_inflight c ch false) (covered psize index begin length) inflight.

(* request(): the command was accepted by the peer *)
Definition commanded (inflight : cnt) (chunks : list N) : cnt :=
  fold_left (fun c ch => note_inflight c ch true) chunks inflight.

Definition peer_have (avail : cnt) (i : N) (have : bool) : cnt := note_avail avail i have.
Definition peer_bitmap (avail : cnt) (bits : list N) (have : bool) : cnt :=
  fold_left (fun c i => note_avail c i have) bits avail.

(* how many requests for one block the scheduler allows, by priority *)
Definition max_in_flight (prio : Z) : N := if (0 <? prio)%Z then 3 else if (0 <=? prio)%Z then 2 else 1.

(* ---------- the system: a torrent, its peers, and the queues between them ---------- *)

From Storrent Require Import Base.Bencode Model.Wire Model.PeerCore.

(* one peer as the torrent sees it *)
Record speer := {
  sp_state : pstate;
  sp_cmds : list (list N);   (* PeerRequest commands accepted by its event queue, not yet handled *)
  sp_alive : bool;           (* false: its main loop has exited *)
  sp_listed : bool           (* still in Torrent.peers: its goaway has not been handled *)
}.

(* what travels to the torrent *)
Inductive sev := SRelease (c : N) | SGoaway (i : nat).

Record sys := {
  y_peers : list speer;
  y_evq : list sev;              (* the torrent's event queue, oldest first *)
  y_inflight : N -> nat          (* Torrent.inFlight *)
}.

Definition upd {A} (l : list A) (i : nat) (x : A) : list A := firstn i l ++ x :: skipn (S i) l.
Definition fupd (f : N -> nat) (c : N) (v : nat) : N -> nat := fun x => if N.eq_dec x c then v else f x.
Definition occ (l : list N) (c : N) : nat := count_occ N.eq_dec l c.

(* the blocks named by the TorData / TorDrop events of a peer step *)
Definition ev_blocks (g : geo) (e : tev) : list N :=
  match e with TDrop i b _ | TData i b _ _ => [i * cpp g + b / ChunkSize] | _ => [] end.

Inductive sop :=
| SJoin (can_fast can_extended : bool) (my : bm)  (* a new peer; it holds no request *)
| SCommand (i : nat) (chunks : list N)            (* request(): the peer's queue accepted the command *)
| SPeerCmd (i : nat) (ballast : N) (k : nat)      (* the peer handles its oldest pending command *)
| SPeerStep (i : nat) (ballast : N) (o : op) (k : nat)   (* a message, a tick, another event *)
| SPeerExit (i : nat)                             (* Run returns: Clear(true), goaway *)
| STorHandle.                                     (* the torrent handles its oldest event *)

Definition is_request (o : op) : bool := match o with OpEv (PeerRequest _) => true | _ => false end.
(* Pieces.AddData accepts a block only inside its piece *)
Definition op_legitb (g : geo) (o : op) : bool :=
  match o with OpMsg (Piece i b d) (Some _) => b <? psize g | _ => true end.

Definition mkp (s : pstate) (cmds : list (list N)) (alive listed : bool) : speer :=
  {| sp_state := s; sp_cmds := cmds; sp_alive := alive; sp_listed := listed |}.

Definition sys_step (g : geo) (y : sys) (o : sop) : sys :=
  match o with
  | SJoin cf ce my =>
    {| y_peers := y_peers y ++ [mkp (init_state (Some g) cf ce my) [] true true]; y_evq := y_evq y; y_inflight := y_inflight y |}
  | SCommand i chunks =>
    match nth_error (y_peers y) i with
    | Some p =>
      if sp_listed p then
        {| y_peers := upd (y_peers y) i (mkp (sp_state p) (sp_cmds p ++ [chunks]) (sp_alive p) true);
           y_evq := y_evq y;
           y_inflight := fun c => (y_inflight y c + occ chunks c)%nat |}
      else y
    | None => y
    end
  | SPeerCmd i ballast k =>
    match nth_error (y_peers y) i with
    | Some p =>
      match sp_alive p, sp_cmds p with
      | true, chunks :: rest =>
        let a := fst (step (sp_state p) ballast (OpEv (PeerRequest chunks)) k) in
        {| y_peers := upd (y_peers y) i (mkp (a_st a) rest true (sp_listed p));
           y_evq := y_evq y ++ map SRelease (flat_map (ev_blocks g) (a_evs a));
           y_inflight := y_inflight y |}
      | _, _ => y
      end
    | None => y
    end
  | SPeerStep i ballast o k =>
    match nth_error (y_peers y) i with
    | Some p =>
      if sp_alive p && negb (is_request o) && op_legitb g o then
        let a := fst (step (sp_state p) ballast o k) in
        {| y_peers := upd (y_peers y) i (mkp (a_st a) (sp_cmds p) true (sp_listed p));
           y_evq := y_evq y ++ map SRelease (flat_map (ev_blocks g) (a_evs a));
           y_inflight := y_inflight y |}
      else y
    | None => y
    end
  | SPeerExit i =>
    match nth_error (y_peers y) i with
    | Some p =>
      if sp_alive p then
        let a := clear_requests (acc0 (sp_state p)) true in
        {| y_peers := upd (y_peers y) i (mkp (a_st a) (sp_cmds p) false (sp_listed p));
           y_evq := y_evq y ++ map SRelease (flat_map (ev_blocks g) (a_evs a)) ++ [SGoaway i];
           y_inflight := y_inflight y |}
      else y
    | None => y
    end
  | STorHandle =>
    match y_evq y with
    | [] => y
    | SRelease c :: rest =>
      {| y_peers := y_peers y; y_evq := rest; y_inflight := fupd (y_inflight y) c (y_inflight y c - 1)%nat |}
    | SGoaway i :: rest =>
      match nth_error (y_peers y) i with
      | Some p =>
        (* delPeer: the departed peer's unhandled commands are released *)
        {| y_peers := upd (y_peers y) i (mkp (sp_state p) [] (sp_alive p) false);
           y_evq := rest;
           y_inflight := fun c => (y_inflight y c - occ (concat (sp_cmds p)) c)%nat |}
      | None => {| y_peers := y_peers y; y_evq := rest; y_inflight := y_inflight y |}
      end
    end
  end.

(* requests for block c held by the peers that are still running *)
Definition held_by (p : speer) (c : N) : nat :=
  if sp_alive p then (occ (rq_queue (s_reqs (sp_state p))) c + occ (map fst (rq_requested (s_reqs (sp_state p)))) c)%nat
  else 0%nat.
Definition total_held (y : sys) (c : N) : nat := list_sum (map (fun p => held_by p c) (y_peers y)).
Definition total_cmds (y : sys) (c : N) : nat := list_sum (map (fun p => occ (concat (sp_cmds p)) c) (y_peers y)).
Definition rel1 (c : N) (e : sev) : nat :=
  match e with SRelease c' => if N.eq_dec c' c then 1%nat else 0%nat | SGoaway _ => 0%nat end.
Definition releases (q : list sev) (c : N) : nat := list_sum (map (rel1 c) q).

Definition quiescent (y : sys) : Prop := y_evq y = [] /\ forall p, In p (y_peers y) -> sp_cmds p = [].
Definition sys_init : sys := {| y_peers := []; y_evq := []; y_inflight := fun _ => 0%nat |}.
