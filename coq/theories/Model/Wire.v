(* Model/Wire.v — executable model of protocol.Read (protocol/reader.go:60-357),
   pex.ParseCompact (pex/pex.go:31-60) and of the typed bencode views used by the
   extended messages (protocol/requests.go:52-81).  Definitions only. *)
From Coq Require Import String Ascii.
From Storrent Require Import Base.Bytes Base.Bencode Gen.Consts.
Open Scope N_scope.

Definition ascii_bytes (s : string) : bytes := map N_of_ascii (list_ascii_of_string s).

Record peer := { p_ip : bytes; p_port : N; p_flags : N }.

Record ext0 := {
  e_version : bytes;
  e_port : N;
  e_reqq : N;
  e_ipv4 : option bytes;
  e_ipv6 : option bytes;
  e_metadata_size : N;
  e_messages : list (bytes * N);   (* in order of (last) appearance; compared as a map *)
  e_upload_only : bool;
  e_encrypt : bool }.

Inductive msg :=
| KeepAlive | Choke | Unchoke | Interested | NotInterested
| Have (i : N)
| Bitfield (b : bytes)
| Request (i b l : N)
| Piece (i b : N) (d : bytes)
| Cancel (i b l : N)
| Port (p : N)
| SuggestPiece (i : N)
| HaveAll | HaveNone
| RejectRequest (i b l : N)
| AllowedFast (i : N)
| Extended0 (e : ext0)
| ExtendedPex (sub : N) (added dropped : list peer)
| ExtendedMetadata (sub tpe piece total : N) (d : bytes)
| ExtendedDontHave (sub i : N)
| ExtendedUploadOnly (sub : N) (v : bool)
| ExtendedUnknown (sub : N)
| Unknown (t : N).

Inductive derr := EEof | EParse | ETooLong | EBencode.

(* consumed: bytes taken from the stream.  For EBencode errors it is an upper bound
   (the library reads ahead inside the frame); everywhere else it is exact. *)
Inductive dres :=
| DMsg (m : msg) (consumed alloc : N)
| DErr (e : derr) (consumed alloc : N)
| DNilNil (consumed : N).

(* ---------- typed bencode views ---------- *)

(* boolOrString.UnmarshalBencode *)
Definition as_bool_or_string (v : bval) : option bool :=
  match v with
  | BInt ds => match parse_uint64 ds with Some n => Some (negb (n =? 0)) | None => None end
  | BStr [48] => Some false
  | BStr [49] => Some true
  | _ => None
  end.

Fixpoint as_msgmap (kvs : list (bytes * bval)) : option (list (bytes * N)) :=
  match kvs with
  | [] => Some []
  | (k, v) :: r =>
    match as_uint 8 v, as_msgmap r with
    | Some n, Some m => Some ((k, n) :: m)
    | _, _ => None
    end
  end.

Definition ext0_zero : ext0 :=
  {| e_version := []; e_port := 0; e_reqq := 0; e_ipv4 := None; e_ipv6 := None;
     e_metadata_size := 0; e_messages := []; e_upload_only := false; e_encrypt := false |}.

Record ext0raw := {
  r_version : bytes; r_ipv4 : bytes; r_ipv6 : bytes; r_port : N; r_reqq : N;
  r_msize : N; r_messages : list (bytes * N); r_uo : bool; r_enc : bool }.

Definition ext0raw_zero : ext0raw :=
  {| r_version := []; r_ipv4 := []; r_ipv6 := []; r_port := 0; r_reqq := 0;
     r_msize := 0; r_messages := []; r_uo := false; r_enc := false |}.

Definition key_is (k : bytes) (s : string) : bool := bytes_eqb k (ascii_bytes s).

(* one key/value pair stored into extensionInfo; None = the library reports an error *)
Definition ext0_field (a : ext0raw) (kv : bytes * bval) : option ext0raw :=
  let (k, v) := kv in
  if key_is k "v" then
    match as_str v with Some s => Some {| r_version := s; r_ipv4 := r_ipv4 a; r_ipv6 := r_ipv6 a; r_port := r_port a; r_reqq := r_reqq a; r_msize := r_msize a; r_messages := r_messages a; r_uo := r_uo a; r_enc := r_enc a |} | None => None end
  else if key_is k "ipv4" then
    match as_bytes_field v with Some s => Some {| r_version := r_version a; r_ipv4 := (if is_list v then overlay s (r_ipv4 a) else s); r_ipv6 := r_ipv6 a; r_port := r_port a; r_reqq := r_reqq a; r_msize := r_msize a; r_messages := r_messages a; r_uo := r_uo a; r_enc := r_enc a |} | None => None end
  else if key_is k "ipv6" then
    match as_bytes_field v with Some s => Some {| r_version := r_version a; r_ipv4 := r_ipv4 a; r_ipv6 := (if is_list v then overlay s (r_ipv6 a) else s); r_port := r_port a; r_reqq := r_reqq a; r_msize := r_msize a; r_messages := r_messages a; r_uo := r_uo a; r_enc := r_enc a |} | None => None end
  else if key_is k "p" then
    match as_uint 16 v with Some n => Some {| r_version := r_version a; r_ipv4 := r_ipv4 a; r_ipv6 := r_ipv6 a; r_port := n; r_reqq := r_reqq a; r_msize := r_msize a; r_messages := r_messages a; r_uo := r_uo a; r_enc := r_enc a |} | None => None end
  else if key_is k "reqq" then
    match as_uint 32 v with Some n => Some {| r_version := r_version a; r_ipv4 := r_ipv4 a; r_ipv6 := r_ipv6 a; r_port := r_port a; r_reqq := n; r_msize := r_msize a; r_messages := r_messages a; r_uo := r_uo a; r_enc := r_enc a |} | None => None end
  else if key_is k "metadata_size" then
    match as_uint 32 v with Some n => Some {| r_version := r_version a; r_ipv4 := r_ipv4 a; r_ipv6 := r_ipv6 a; r_port := r_port a; r_reqq := r_reqq a; r_msize := n; r_messages := r_messages a; r_uo := r_uo a; r_enc := r_enc a |} | None => None end
  else if key_is k "m" then
    match v with
    | BDict kvs =>
      match as_msgmap kvs with
      | Some m => Some {| r_version := r_version a; r_ipv4 := r_ipv4 a; r_ipv6 := r_ipv6 a; r_port := r_port a; r_reqq := r_reqq a; r_msize := r_msize a; r_messages := r_messages a ++ m; r_uo := r_uo a; r_enc := r_enc a |}
      | None => None end
    | _ => None end
  else if key_is k "upload_only" then
    match as_bool_or_string v with Some b => Some {| r_version := r_version a; r_ipv4 := r_ipv4 a; r_ipv6 := r_ipv6 a; r_port := r_port a; r_reqq := r_reqq a; r_msize := r_msize a; r_messages := r_messages a; r_uo := b; r_enc := r_enc a |} | None => None end
  else if key_is k "e" then
    match as_bool_or_string v with Some b => Some {| r_version := r_version a; r_ipv4 := r_ipv4 a; r_ipv6 := r_ipv6 a; r_port := r_port a; r_reqq := r_reqq a; r_msize := r_msize a; r_messages := r_messages a; r_uo := r_uo a; r_enc := b |} | None => None end
  else if valid_iface v then Some a else None.

Fixpoint fold_opt {A B} (f : A -> B -> option A) (a : A) (l : list B) : option A :=
  match l with
  | [] => Some a
  | x :: r => match f a x with Some a' => fold_opt f a' r | None => None end
  end.

Definition ext0_of_raw (a : ext0raw) : ext0 :=
  {| e_version := r_version a; e_port := r_port a; e_reqq := r_reqq a;
     e_ipv4 := if len (r_ipv4 a) =? 4 then Some (r_ipv4 a) else None;
     e_ipv6 := if len (r_ipv6 a) =? 16 then Some (r_ipv6 a) else None;
     e_metadata_size := r_msize a; e_messages := r_messages a;
     e_upload_only := r_uo a; e_encrypt := r_enc a |}.

Definition decode_ext0 (v : bval) : option ext0 :=
  match v with
  | BDict kvs => match fold_opt ext0_field ext0raw_zero kvs with
                 | Some a => Some (ext0_of_raw a) | None => None end
  | _ => None
  end.

(* pex.ParseCompact: entries of l+2 bytes; flags by position *)
Fixpoint parse_compact (fuel : nat) (l : N) (data flags : bytes) : list peer :=
  match fuel with
  | O => []
  | S f =>
    match take (l + 2) data with
    | None => []
    | Some (e, r) =>
      let ip := firstn (N.to_nat l) e in
      let port := match skipn (N.to_nat l) e with a :: b :: _ => be16 a b | _ => 0 end in
      let fl := match flags with x :: _ => x | [] => 0 end in
      {| p_ip := ip; p_port := port; p_flags := fl |} :: parse_compact f l r (tl flags)
    end
  end.

Definition compact (l : N) (data : option bytes) (flags : bytes) : list peer :=
  match data with
  | Some d => if (len d) mod (l + 2) =? 0 then parse_compact (length d) l d flags else []
  | None => []
  end.

Record pexraw := { x_added : option bytes; x_addedf : bytes; x_added6 : option bytes;
                   x_added6f : bytes; x_dropped : option bytes; x_dropped6 : option bytes }.
Definition pexraw_zero := {| x_added := None; x_addedf := []; x_added6 := None; x_added6f := [];
                             x_dropped := None; x_dropped6 := None |}.

Definition pex_field (a : pexraw) (kv : bytes * bval) : option pexraw :=
  let (k, v) := kv in
  if key_is k "added" then
    match as_bytes_field v with Some s => Some {| x_added := Some (if is_list v then overlay s (match x_added a with Some o => o | None => [] end) else s); x_addedf := x_addedf a; x_added6 := x_added6 a; x_added6f := x_added6f a; x_dropped := x_dropped a; x_dropped6 := x_dropped6 a |} | None => None end
  else if key_is k "added.f" then
    match as_bytes_field v with Some s => Some {| x_added := x_added a; x_addedf := (if is_list v then overlay s (x_addedf a) else s); x_added6 := x_added6 a; x_added6f := x_added6f a; x_dropped := x_dropped a; x_dropped6 := x_dropped6 a |} | None => None end
  else if key_is k "added6" then
    match as_bytes_field v with Some s => Some {| x_added := x_added a; x_addedf := x_addedf a; x_added6 := Some (if is_list v then overlay s (match x_added6 a with Some o => o | None => [] end) else s); x_added6f := x_added6f a; x_dropped := x_dropped a; x_dropped6 := x_dropped6 a |} | None => None end
  else if key_is k "added6.f" then
    match as_bytes_field v with Some s => Some {| x_added := x_added a; x_addedf := x_addedf a; x_added6 := x_added6 a; x_added6f := (if is_list v then overlay s (x_added6f a) else s); x_dropped := x_dropped a; x_dropped6 := x_dropped6 a |} | None => None end
  else if key_is k "dropped" then
    match as_bytes_field v with Some s => Some {| x_added := x_added a; x_addedf := x_addedf a; x_added6 := x_added6 a; x_added6f := x_added6f a; x_dropped := Some (if is_list v then overlay s (match x_dropped a with Some o => o | None => [] end) else s); x_dropped6 := x_dropped6 a |} | None => None end
  else if key_is k "dropped6" then
    match as_bytes_field v with Some s => Some {| x_added := x_added a; x_addedf := x_addedf a; x_added6 := x_added6 a; x_added6f := x_added6f a; x_dropped := x_dropped a; x_dropped6 := Some (if is_list v then overlay s (match x_dropped6 a with Some o => o | None => [] end) else s) |} | None => None end
  else if valid_iface v then Some a else None.

Definition decode_pex (v : bval) : option (list peer * list peer) :=
  match v with
  | BDict kvs =>
    match fold_opt pex_field pexraw_zero kvs with
    | Some a =>
      Some (compact 4 (x_added a) (x_addedf a) ++ compact 16 (x_added6 a) (x_added6f a),
            compact 4 (x_dropped a) [] ++ compact 16 (x_dropped6 a) [])
    | None => None
    end
  | _ => None
  end.

Record metaraw := { m_type : option N; m_piece : option N; m_total : option N }.
Definition meta_field (a : metaraw) (kv : bytes * bval) : option metaraw :=
  let (k, v) := kv in
  if key_is k "msg_type" then
    match as_uint 8 v with Some n => Some {| m_type := Some n; m_piece := m_piece a; m_total := m_total a |} | None => None end
  else if key_is k "piece" then
    match as_uint 32 v with Some n => Some {| m_type := m_type a; m_piece := Some n; m_total := m_total a |} | None => None end
  else if key_is k "total_size" then
    match as_uint 32 v with Some n => Some {| m_type := m_type a; m_piece := m_piece a; m_total := Some n |} | None => None end
  else if valid_iface v then Some a else None.

Definition decode_meta (v : bval) : option metaraw :=
  match v with
  | BDict kvs => fold_opt meta_field {| m_type := None; m_piece := None; m_total := None |} kvs
  | _ => None
  end.

(* ---------- protocol.Read ---------- *)

Definition bcost (bs : bytes) : N := match bdecode bs with BOk _ _ k => k | BErr _ k => k end.

Definition max_frame : N := 1048576.

(* r = stream after the 4-byte length prefix and the type byte; all [consumed]
   values below are counted from the start of the stream. *)
Definition decode_body (length tpe : N) (r : bytes) : dres :=
  let three (mk : N -> N -> N -> msg) :=
    if negb (length =? 13) then DErr EParse 5 0 else
    match read32 r with None => DErr EEof (5 + len r) 0 | Some (i, r1) =>
    match read32 r1 with None => DErr EEof (5 + len r) 0 | Some (b, r2) =>
    match read32 r2 with None => DErr EEof (5 + len r) 0 | Some (l, _) =>
      DMsg (mk i b l) 17 0 end end end in
  let one (mk : N -> msg) :=
    if negb (length =? 5) then DErr EParse 5 0 else
    match read32 r with None => DErr EEof (5 + len r) 0 | Some (i, _) => DMsg (mk i) 9 0 end in
  let zero (m : msg) := if negb (length =? 1) then DErr EParse 5 0 else DMsg m 5 0 in
  if tpe =? 0 then zero Choke
  else if tpe =? 1 then zero Unchoke
  else if tpe =? 2 then zero Interested
  else if tpe =? 3 then zero NotInterested
  else if tpe =? 4 then one Have
  else if tpe =? 5 then
    match take (length - 1) r with
    | None => DErr EEof (5 + len r) (length - 1)
    | Some (bf, _) => DMsg (Bitfield bf) (4 + length) (length - 1)
    end
  else if tpe =? 6 then three Request
  else if tpe =? 8 then three Cancel
  else if tpe =? 16 then three RejectRequest
  else if tpe =? 7 then
    if length <? 9 then DErr EParse 5 0 else
    match read32 r with None => DErr EEof (5 + len r) 0 | Some (i, r1) =>
    match read32 r1 with None => DErr EEof (5 + len r) 0 | Some (b, r2) =>
    match take (length - 9) r2 with
    | None => DErr EEof (5 + len r) (length - 9)
    | Some (d, _) => DMsg (Piece i b d) (4 + length) (length - 9)
    end end end
  else if tpe =? 9 then
    if negb (length =? 3) then DErr EParse 5 0 else
    match read16 r with None => DErr EEof (5 + len r) 0 | Some (p, _) => DMsg (Port p) 7 0 end
  else if tpe =? 13 then one SuggestPiece
  else if tpe =? 17 then one AllowedFast
  else if tpe =? 14 then zero HaveAll
  else if tpe =? 15 then zero HaveNone
  else if tpe =? 20 then
    if length <? 2 then DErr EParse 5 0 else
    match r with
    | [] => DErr EEof 5 0
    | sub :: r1 =>
      let plen := length - 2 in
      if sub =? 0 then
        match take plen r1 with
        | None =>
          (* frame truncated by end of stream: the decoder may or may not see a
             complete value, but the message is then refused *)
          DErr EBencode (6 + len r1) (bcost r1 + plen)
        | Some (payload, _) =>
          match bdecode_lim payload with
          | BErr _ k => DErr EBencode (4 + length) (k + plen)
          | BOk v _ k =>
            match decode_ext0 v with
            | Some e => DMsg (Extended0 e) (4 + length) (k + plen)
            | None => DErr EBencode (4 + length) (k + plen)
            end
          end
        end
      else if sub =? ExtPex then
        match take plen r1 with
        | None => DErr EBencode (6 + len r1) (bcost r1 + plen)
        | Some (payload, _) =>
          match bdecode_lim payload with
          | BErr _ k => DErr EBencode (4 + length) (k + plen)
          | BOk v _ k =>
            match decode_pex v with
            | Some (a, d) => DMsg (ExtendedPex ExtPex a d) (4 + length) (k + 2 * plen)
            | None => DErr EBencode (4 + length) (k + plen)
            end
          end
        end
      else if sub =? ExtMetadata then
        match take plen r1 with
        | None => DErr EEof (6 + len r1) plen
        | Some (payload, _) =>
          match bdecode_lim payload with
          | BErr _ k => DErr EBencode (4 + length) (k + plen)
          | BOk v rest k =>
            match decode_meta v with
            | None => DErr EBencode (4 + length) (k + plen)
            | Some mr =>
              match m_type mr, m_piece mr with
              | Some t, Some p =>
                DMsg (ExtendedMetadata ExtMetadata t p
                        (match m_total mr with Some s => s | None => 0 end) rest)
                     (4 + length) (k + 2 * plen)
              | _, _ => DErr EParse (4 + length) (k + plen)
              end
            end
          end
        end
      else if sub =? ExtDontHave then
        if negb (plen =? 4) then DErr EParse 6 0 else
        match read32 r1 with None => DErr EEof (6 + len r1) 0 | Some (i, _) =>
          DMsg (ExtendedDontHave ExtDontHave i) 10 0 end
      else if sub =? ExtUploadOnly then
        if negb (plen =? 1) then DErr EParse 6 0 else
        match r1 with
        | [] => DErr EParse 6 0
        | v :: _ => if v =? 0 then DMsg (ExtendedUploadOnly ExtUploadOnly false) 7 0
                    else if v =? 1 then DMsg (ExtendedUploadOnly ExtUploadOnly true) 7 0
                    else DErr EParse 7 0
        end
      else
        match take plen r1 with
        | None => DErr EEof (6 + len r1) 0
        | Some _ => DMsg (ExtendedUnknown sub) (4 + length) 0
        end
    end
  else
    match take (length - 1) r with
    | None => DErr EEof (5 + len r) 0
    | Some _ => DMsg (Unknown tpe) (4 + length) 0
    end.

Definition decode (bs : bytes) : dres :=
  match read32 bs with
  | None => DErr EEof (len bs) 0
  | Some (length, r) =>
    if length =? 0 then DMsg KeepAlive 4 0
    else if max_frame <? length then DErr ETooLong 4 0
    else match r with
         | [] => DErr EEof 4 0
         | tpe :: r1 => decode_body length tpe r1
         end
  end.

(* the announced length, when the prefix is present *)
Definition announced (bs : bytes) : option N :=
  match read32 bs with Some (l, _) => Some l | None => None end.

(* decoding a whole stream: messages until the first error / end *)
Fixpoint decode_stream (fuel : nat) (bs : bytes) : list msg * option derr :=
  match fuel with
  | O => ([], None)
  | S f =>
    match bs with
    | [] => ([], None)
    | _ =>
      match decode bs with
      | DMsg m n _ => let (ms, e) := decode_stream f (skipn (N.to_nat n) bs) in (m :: ms, e)
      | DErr e _ _ => ([], Some e)
      | DNilNil _ => ([], Some EParse)
      end
    end
  end.
