(* Model/TorWrite.v — tor.WriteTorrent (tor/torfile.go): the .torrent file storrent serves back for
   a torrent, as written by zeebo/bencode's struct encoder (keys in sorted order, omitempty).
   Definitions only. *)
From Coq Require Import String.
From Storrent Require Import Base.Bytes Base.Bencode Gen.Consts Model.Wire Model.WireSpec Model.Torfile.
Open Scope N_scope.

Definition benc_list (items : list bytes) : bytes := ch_l :: concat items ++ [ch_e].
Definition dec_z (z : Z) : bytes := if (z <? 0)%Z then ch_minus :: dec (Z.to_N (- z)) else dec (Z.to_N z).
Definition benc_int_z (z : Z) : bytes := ch_i :: dec_z z ++ [ch_e].
Definition benc_strs (l : list bytes) : bytes := benc_list (map benc_str l).

Definition write_torrent (raw : bytes) (cdate : Z) (trackers : list (list bytes)) (urllist httpseeds : list bytes) : bytes :=
  let a := match trackers with (x :: _) :: _ => x | _ => [] end in
  let al := match trackers with [[_]] => [] | _ => trackers end in
  benc_d (ent (nonempty a) "announce" (benc_str a) ++
          ent (nonempty al) "announce-list" (benc_list (map benc_strs al)) ++
          ent (negb (cdate =? 0)%Z) "creation date" (benc_int_z cdate) ++
          ent (nonempty httpseeds) "httpseeds" (benc_strs httpseeds) ++
          ent true "info" raw ++
          ent (nonempty urllist) "url-list" (benc_strs urllist)).
