(* Model/CryptoConn.v — crypto.Conn (crypto/conn.go): Write encrypts through a 32 KiB staging
   buffer and latches the first error; Read decrypts in place.  Definitions only. *)
From Storrent Require Import Base.Bytes Base.Bencode Base.Crypto Model.Hs.
Open Scope N_scope.

Record cst := { c_enc : rc4st; c_err : bool; c_wire : bytes }.

Definition staging : N := 32768.

(* [script]: what the underlying connection does on its successive Write calls:
   (bytes accepted, reports an error) *)
Fixpoint cw_loop (fuel : nat) (s : cst) (b : bytes) (n : N) (script : list (N * bool))
  : cst * N * bool * list (N * bool) :=
  match fuel with
  | O => (s, n, false, script)
  | S f =>
    match b with
    | [] => (s, n, false, script)
    | _ =>
      let m := N.min (len b) staging in
      let (enc', ct) := rc4_xor (c_enc s) (ftake m b) in
      let '(acc, fl) := match script with [] => (m, false) | (a, f) :: _ => (N.min a m, f) end in
      let err := fl || (acc <? m) in
      let s' := {| c_enc := enc'; c_err := err; c_wire := c_wire s ++ ftake acc ct |} in
      if err then (s', n + acc, true, tl script)
      else cw_loop f s' (fdrop m b) (n + acc) (tl script)
    end
  end.

(* Conn.Write: (state, n, failed, rest of the script) *)
Definition conn_write (s : cst) (b : bytes) (script : list (N * bool)) : cst * N * bool * list (N * bool) :=
  if c_err s then (s, 0, true, script)
  else cw_loop (S (N.to_nat (len b / staging))) s b 0 script.

(* Conn.Read over a connection delivering [raw] *)
Definition conn_read (dec : rc4st) (raw : bytes) : rc4st * bytes := rc4_xor dec raw.
