(* Model/Webseed.v — executable model of the web-seed path: fileChunks (tor/tor.go),
   the block-aligning writer (tor/writer.go) on top of Pieces.AddData's block
   arithmetic, and the response validation of GetRight.Get (webseed/getright.go).
   Definitions only. *)
From Storrent Require Import Base.Bytes Base.Bencode Gen.Consts Model.Wire Model.Torfile Model.Namespace.
Open Scope N_scope.

(* ---------- fileChunks ---------- *)

Record fchunk := { fc_path : pth; fc_flen : Z; fc_off : Z; fc_len : Z; fc_pad : bool }.

Fixpoint fc_loop (files : list torfile) (o l : Z) : list fchunk :=
  match files with
  | [] => []
  | f :: r =>
    if (f_off f + f_len f <=? o)%Z then fc_loop r o l
    else if (o + l <=? f_off f)%Z then []
    else
      let m := Z.min (f_len f - (o - f_off f)) l in
      let c := {| fc_path := f_path f; fc_flen := f_len f; fc_off := (o - f_off f)%Z; fc_len := m; fc_pad := f_pad f |} in
      if (l - m <=? 0)%Z then [c] else c :: fc_loop r (o + m) (l - m)
  end.

Definition file_chunks (files : list torfile) (psize : N) (total : Z) (index offset length : N) : list fchunk :=
  let o := (Z.of_N index * Z.of_N psize + Z.of_N offset)%Z in
  match files with
  | [] => [{| fc_path := []; fc_flen := total; fc_off := o; fc_len := Z.of_N length; fc_pad := false |}]
  | _ => fc_loop files o (Z.of_N length)
  end.

(* ---------- Pieces.AddData: how many bytes of [data] are consumed as whole blocks ---------- *)

(* pl: length of the piece; off: block-aligned offset in the piece; n: len(data) *)
Fixpoint add_count (fuel : nat) (pl off n count : N) : N :=
  match fuel with
  | O => count
  | S f =>
    if n <=? count then count else
    if pl <=? off then count else
    let l := N.min ChunkSize (pl - off) in
    if n <? count + l then count
    else if l mod ChunkSize =? 0 then add_count f pl (off + l) n (count + l)
    else count + l
  end.

Inductive adderr := AddOk | AddOdd | AddBeyond.

Definition add_data (pl off n : N) : N * adderr :=
  if negb (off mod ChunkSize =? 0) then (0, AddOdd)
  else if pl <=? off then (0, AddBeyond)
  else (add_count (S (N.to_nat (n / ChunkSize + 1))) pl off n 0, AddOk).

(* ---------- the writer ---------- *)

Record wstate := { w_off : N; w_count : N; w_buf : bytes; w_closed : bool }.

(* what a step of the writer does to the piece store and which event it sends *)
Inductive wev :=
| WStore (off : N) (data : bytes)      (* AddData consumed these bytes at this piece offset *)
| WData (off count : N)                (* TorData{index, off, count} *)
| WDrop (off count : N).               (* TorDrop{index, off, count} *)

Inductive werr2 := WNoErr | WShort | WClosed | WAdd (e : adderr) | WEOF.

(* writer.write *)
Definition w_write (pl : N) (s : wstate) (data : bytes) : wstate * N * list wev * werr2 :=
  let (count, e) := add_data pl (w_off s) (len data) in
  let err := match e with AddOk => WNoErr | _ => WAdd e end in
  if 0 <? count then
    ({| w_off := w_off s + count; w_count := w_count s - count; w_buf := w_buf s; w_closed := false |},
     count, [WStore (w_off s) (firstn (N.to_nat count) data); WData (w_off s) count], err)
  else (s, 0, [], err).

(* writer.Write *)
Definition w_Write (pl : N) (s : wstate) (p : bytes) : wstate * N * list wev * werr2 :=
  if w_closed s then (s, 0, [], WClosed) else
  if w_count s <? len (w_buf s) then (s, 0, [], WShort) else
  let max := w_count s - len (w_buf s) in
  let q := firstn (N.to_nat max) p in
  let data := w_buf s ++ q in
  let '(s1, n, evs, err) := w_write pl s data in
  let s2 := {| w_off := w_off s1; w_count := w_count s1; w_buf := skipn (N.to_nat n) data; w_closed := false |} in
  let err2 := match err with WNoErr => if len q <? len p then WShort else WNoErr | e => e end in
  (s2, len q, evs, err2).

(* writer.ReadFrom over a reader holding [stream]; the i-th Read delivers at most
   cuts[i] bytes (and at most what fits); the loop ends on a zero-length read *)
Fixpoint w_ReadFrom_loop (pl : N) (s : wstate) (stream : bytes) (cuts : list N) (evs : list wev) (total : N)
  : wstate * N * list wev * werr2 * bytes :=
  match cuts with
  | [] => (s, total, evs, WEOF, stream)       (* the reader reports end of stream *)
  | cut :: rest =>
    let max := N.min 32768 (w_count s) in
    let room := max - len (w_buf s) in
    let n := N.min room (N.min cut (len stream)) in
    if n =? 0 then (s, total, evs, match stream with [] => WEOF | _ => WNoErr end, stream) else
    let got := firstn (N.to_nat n) stream in
    let data := w_buf s ++ got in
    let '(s1, m, e1, err) := w_write pl {| w_off := w_off s; w_count := w_count s; w_buf := data; w_closed := false |} data in
    let s2 := {| w_off := w_off s1; w_count := w_count s1; w_buf := skipn (N.to_nat m) data; w_closed := false |} in
    match err with
    | WNoErr => w_ReadFrom_loop pl s2 (skipn (N.to_nat n) stream) rest (evs ++ e1) (total + n)
    | e => (s2, total + n, evs ++ e1, e, skipn (N.to_nat n) stream)
    end
  end.

Definition w_ReadFrom (pl : N) (s : wstate) (stream : bytes) (cuts : list N) :=
  if w_closed s then (s, 0, [], WClosed, stream)
  else if w_count s <? len (w_buf s) then (s, 0, [], WEOF, stream)
  else w_ReadFrom_loop pl s stream cuts [] 0.

(* writer.Close *)
Definition w_Close (s : wstate) : wstate * list wev :=
  if w_closed s then (s, [])
  else ({| w_off := w_off s; w_count := 0; w_buf := w_buf s; w_closed := true |},
        if 0 <? w_count s then [WDrop (w_off s) (w_count s)] else []).

(* ---------- GetRight.Get: validation of the response ---------- *)

(* Content-Range as parsed: (first, length of range, total) with -1 for unknown *)
Inductive crange := CRNone | CRBad | CR (o l fl : Z).

Inductive gdec := GRefuse | GCopy (limit : Z).

Definition get_decide (status : N) (cr : crange) (cl : option (option Z)) (* None: absent; Some None: unparsable *)
                      (offset length flength : Z) : gdec :=
  let after (l fl : Z) : gdec :=
    if (0 <=? fl)%Z && negb (fl =? flength)%Z then GRefuse else GCopy length in
  if status =? 200 then
    if negb (offset =? 0)%Z then GRefuse else
    match cl with
    | None => after (flength - offset)%Z (-1)%Z
    | Some None => GRefuse
    | Some (Some n) => after n n
    end
  else if status =? 206 then
    match cr with
    | CRNone | CRBad => GRefuse
    | CR o l fl => if negb (o =? offset)%Z then GRefuse else after l fl
    end
  else GRefuse.
