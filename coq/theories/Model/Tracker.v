(* Model/Tracker.v — executable model of the tracker clients (tracker/udp.go,
   tracker/http.go, tracker/tracker.go): the UDP retransmission loop and reply parsers,
   the HTTP reply decoder, and the announce-timing state machine.  Definitions only. *)
From Coq Require Import String.
From Storrent Require Import Base.Bytes Base.Bencode Gen.Consts Model.Wire.
Open Scope N_scope.

(* ---------- UDP (BEP 15) ---------- *)

Inductive attempt := AWriteErr | AReadErr | ADatagram (d : bytes).

Inductive ures :=
| UOk (rest : bytes)          (* reply accepted; bytes after action and transaction id *)
| UErrTimeout                 (* all attempts failed: the last error is returned *)
| UErrTracker (msg : bytes)   (* action 3 *)
| UErrAction
| UPanic.                     (* panic("eek") *)

(* udpRequestReply: up to four attempts; [err] mirrors the Go variable *)
Fixpoint udp_loop (n : nat) (atts : list attempt) (min action tid : N) (err : bool) : ures :=
  match n with
  | O => if err then UErrTimeout else UPanic
  | S n' =>
    match atts with
    | [] => if err then UErrTimeout else UPanic
    | a :: rest =>
      match a with
      | AWriteErr => udp_loop n' rest min action tid true
      | AReadErr => udp_loop n' rest min action tid true
      | ADatagram d0 =>
        let d := firstn 4096 d0 in
        if len d <? min then udp_loop n' rest min action tid true
        else
          match read32 d with
          | None => udp_loop n' rest min action tid true
          | Some (a, r1) =>
            match read32 r1 with
            | None => udp_loop n' rest min action tid true
            | Some (t, r2) =>
              if negb (t =? tid) then udp_loop n' rest min action tid true
              else if a =? 3 then UErrTracker r2
              else if negb (a =? action) then UErrAction
              else UOk r2
            end
          end
      end
    end
  end.

Definition udp_request_reply (atts : list attempt) (min action tid : N) : ures :=
  udp_loop 4 atts min action tid false.

(* compact peer entries of [sz]+2 bytes; Some leftover = trailing partial entry *)
Fixpoint entries (fuel : nat) (sz : N) (data : bytes) : list (bytes * N) * bool :=
  match fuel with
  | O => ([], false)
  | S f =>
    match data with
    | [] => ([], true)                        (* io.EOF: clean end *)
    | _ =>
      match take (sz + 2) data with
      | None => ([], false)                   (* io.ErrUnexpectedEOF *)
      | Some (e, r) =>
        let ip := firstn (N.to_nat sz) e in
        let port := match skipn (N.to_nat sz) e with a :: b :: _ => 256 * a + b | _ => 0 end in
        let (l, clean) := entries f sz r in ((ip, port mod 65536) :: l, clean)
      end
    end
  end.

(* the announce reply after action and transaction id: interval, leechers, seeders, peers *)
Definition udp_announce_reply (sz : N) (r : bytes) : option (N * list (bytes * N) * bool) :=
  match read32 r with
  | None => None
  | Some (intvl, r1) =>
    match read32 r1 with
    | None => None
    | Some (_, r2) =>
      match read32 r2 with
      | None => None
      | Some (_, r3) => let (ps, clean) := entries (S (length r3)) sz r3 in Some (intvl, ps, clean)
      end
    end
  end.

(* ---------- HTTP (BEP 3, 7, 23) ---------- *)

Record hraw := { h_failure : bytes; h_retry : bytes; h_interval : Z; h_peers : option (bval);
                 h_peers6 : bytes }.
Definition hraw_zero := {| h_failure := []; h_retry := []; h_interval := 0%Z; h_peers := None; h_peers6 := [] |}.

Definition hfield (a : hraw) (kv : bytes * bval) : option hraw :=
  let (k, v) := kv in
  if key_is k "failure reason" then
    match as_str v with Some s => Some {| h_failure := s; h_retry := h_retry a; h_interval := h_interval a; h_peers := h_peers a; h_peers6 := h_peers6 a |} | None => None end
  else if key_is k "retry in" then
    match as_str v with Some s => Some {| h_failure := h_failure a; h_retry := s; h_interval := h_interval a; h_peers := h_peers a; h_peers6 := h_peers6 a |} | None => None end
  else if key_is k "interval" then
    match as_int64 v with Some z => Some {| h_failure := h_failure a; h_retry := h_retry a; h_interval := z; h_peers := h_peers a; h_peers6 := h_peers6 a |} | None => None end
  else if key_is k "peers" then
    Some {| h_failure := h_failure a; h_retry := h_retry a; h_interval := h_interval a; h_peers := Some v; h_peers6 := h_peers6 a |}
  else if key_is k "peers6" then
    match as_bytes_field v with Some s => Some {| h_failure := h_failure a; h_retry := h_retry a; h_interval := h_interval a; h_peers := h_peers a; h_peers6 := s |} | None => None end
  else if valid_iface v then Some a else None.

(* dotted-decimal IPv4 as netip.ParseAddr accepts it (no leading zeros, 4 fields 0..255);
   other textual forms are outside the model (the generator does not produce them) *)
Fixpoint split_dots (s : bytes) (cur : bytes) : list bytes :=
  match s with
  | [] => [rev cur]
  | c :: r => if c =? 46 then rev cur :: split_dots r [] else split_dots r (c :: cur)
  end.
Definition ip_field (f : bytes) : option N :=
  match f with
  | [] => None
  | [c] => if is_digit c then Some (c - 48) else None
  | c :: _ => if c =? 48 then None else
              match parse_udec f with Some n => if (n <? 256) && (len f <=? 3) then Some n else None | None => None end
  end.
Definition parse_ipv4 (s : bytes) : option bytes :=
  match map ip_field (split_dots s []) with
  | [Some a; Some b; Some c; Some d] => Some [a; b; c; d]
  | _ => None
  end.

Definition dict_peer (v : bval) : option (option (bytes * N)) :=   (* None = decode error *)
  match v with
  | BDict kvs =>
    let step (acc : option (bytes * N)) (kv : bytes * bval) : option (option (bytes * N)) :=
      None in
    (* fields: ip string, port uint16; unknown keys must be valid *)
    match fold_opt (fun (a : bytes * N) kv =>
             let (k, x) := (kv : bytes * bval) in
             if key_is k "ip" then match as_str x with Some s => Some (s, snd a) | None => None end
             else if key_is k "port" then match as_uint 16 x with Some n => Some (fst a, n) | None => None end
             else if valid_iface x then Some a else None) ([], 0) kvs with
    | Some (ip, port) => Some (match parse_ipv4 ip with Some a => Some (a, port) | None => None end)
    | None => None
    end
  | _ => None
  end.

Fixpoint dict_peers (l : list bval) : option (list (bytes * N)) :=
  match l with
  | [] => Some []
  | v :: r =>
    match dict_peer v, dict_peers r with
    | Some (Some p), Some t => Some (p :: t)
    | Some None, Some t => Some t
    | _, _ => None
    end
  end.

(* raw-mode validity of the captured "peers" value: nothing is validated *)
Definition peers_of (v : option bval) : list (bytes * N) :=
  match v with
  | None => []
  | Some x =>
    let compact := match as_bytes_field x with
                   | Some s => if len s mod 6 =? 0 then Some (fst (entries (S (length s)) 4 s)) else None
                   | None => None end in
    match compact with
    | Some ps => ps
    | None => match x with
              | BList l => match dict_peers l with Some ps => ps | None => [] end
              | _ => []
              end
    end
  end.

Definition peers6_of (s : bytes) : list (bytes * N) :=
  if len s mod 18 =? 0 then fst (entries (S (length s)) 16 s) else [].

Definition wrap64 (z : Z) : Z :=
  let m := (z mod 18446744073709551616)%Z in if (m <? 9223372036854775808)%Z then m else (m - 18446744073709551616)%Z.

Definition minute : Z := 60000000000%Z.
Definition second : Z := 1000000000%Z.

(* strconv.Atoi *)
Definition atoi (s : bytes) : option Z := parse_int 64 s.

Inductive hres :=
| HOk (interval_s : Z) (peers : list (bytes * N))
| HFailure (reason : bytes) (retry : Z)     (* sets tracker.interval := retry *)
| HErr.

Definition http_reply (body : bytes) : hres :=
  match bdecode_lim body with
  | BOk (BDict kvs) _ _ =>
    match fold_opt hfield hraw_zero kvs with
    | None => HErr
    | Some h =>
      match h_failure h with
      | _ :: _ =>
        let retry :=
          if bytes_eqb (h_retry h) (ascii_bytes "never") then (2400 * 60 * minute)%Z
          else match h_retry h with
               | [] => 0%Z
               | s => match atoi s with
                      | Some m => if (0 <? m)%Z then wrap64 (m * minute) else 0%Z
                      | None => 0%Z end
               end in
        HFailure (h_failure h) retry
      | [] => HOk (h_interval h) (peers_of (h_peers h) ++ peers6_of (h_peers6 h))
      end
    end
  | _ => HErr
  end.

(* ---------- announce timing (tracker.go) ---------- *)

Record tbase := { tb_time : Z; tb_interval : Z; tb_err : bool; tb_locked : bool }.
Definition tb_init : tbase := {| tb_time := 0%Z; tb_interval := 0%Z; tb_err := false; tb_locked := false |}.

Definition effective (interval : Z) : Z :=
  let i := if (interval <=? 0)%Z then (30 * minute)%Z else interval in
  Z.max i (5 * minute)%Z.

Definition ready (b : tbase) (now : Z) : bool := (tb_time b + effective (tb_interval b) <? now)%Z.

Definition update_interval (b : tbase) (interval : Z) (err : bool) : tbase :=
  {| tb_time := tb_time b;
     tb_interval := if (minute <? interval)%Z then interval
                    else if (tb_interval b <? 15 * minute)%Z then (15 * minute)%Z else tb_interval b;
     tb_err := err; tb_locked := tb_locked b |}.

(* outcome of the network part of an announce: the interval to report, whether it
   failed, and the retry interval a failure reason may have stored meanwhile *)
Record outcome := { oc_interval : Z; oc_err : bool; oc_failure_retry : option Z }.

Inductive ares := ANotReady | ADone (err : bool).

(* Announce = tryLock; defer unlock; ready?; time := now; network; updateInterval *)
Definition announce (b : tbase) (now : Z) (oc : outcome) : tbase * ares * bool (* contacted *) :=
  if tb_locked b then (b, ANotReady, false)
  else if negb (ready b now) then (b, ANotReady, false)
  else
    let b1 := {| tb_time := now; tb_interval := match oc_failure_retry oc with Some r => r | None => tb_interval b end;
                 tb_err := tb_err b; tb_locked := false |} in
    (update_interval b1 (oc_interval oc) (oc_err oc), ADone (oc_err oc), true).

Inductive tstate := TBusy | TReady | TError | TIdle.
Definition get_state (b : tbase) (now : Z) : tstate :=
  if tb_locked b then TBusy else if ready b now then TReady else if tb_err b then TError else TIdle.
