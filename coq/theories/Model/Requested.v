(* Model/Requested.v — the set of requested pieces (tor/requests.go): for each piece the
   priorities of the consumers that want it and, when somebody waits for it, a completion
   channel.  Channels are numbered in order of creation; closing one twice is the Go panic
   "close of closed channel".  Definitions only. *)
From Storrent Require Import Base.Bytes.
Open Scope N_scope.

Definition IdlePriority : Z := (-128)%Z.

Record rpiece := { rp_prio : list Z; rp_done : option N }.

Record rstate := {
  r_pieces : N -> option rpiece;
  r_next : N;               (* the next channel to be created *)
  r_closed : list N;        (* channels closed so far, latest first *)
  r_panic : bool            (* a closed channel was closed again *)
}.

Definition r_init : rstate := {| r_pieces := fun _ => None; r_next := 0; r_closed := []; r_panic := false |}.

Definition pupd (m : N -> option rpiece) (i : N) (v : option rpiece) : N -> option rpiece :=
  fun j => if j =? i then v else m j.

Definition with_pieces (s : rstate) (m : N -> option rpiece) : rstate :=
  {| r_pieces := m; r_next := r_next s; r_closed := r_closed s; r_panic := r_panic s |}.

Fixpoint memc (x : N) (l : list N) : bool := match l with [] => false | y :: r => (x =? y) || memc x r end.

Definition close_ch (s : rstate) (ch : N) : rstate :=
  {| r_pieces := r_pieces s; r_next := r_next s; r_closed := ch :: r_closed s;
     r_panic := r_panic s || memc ch (r_closed s) |}.

(* Requested.Add: (state, channel or nil, added) *)
Definition r_add (s : rstate) (index : N) (prio : Z) (want : bool) : rstate * option N * bool :=
  let '(r0, fresh) := match r_pieces s index with
                      | Some r => (r, false)
                      | None => ({| rp_prio := []; rp_done := None |}, true)
                      end in
  let real := (IdlePriority <? prio)%Z in
  let r1 := if real then {| rp_prio := rp_prio r0 ++ [prio]; rp_done := rp_done r0 |} else r0 in
  match want, rp_done r1 with
  | true, None =>
    let r2 := {| rp_prio := rp_prio r1; rp_done := Some (r_next s) |} in
    ({| r_pieces := pupd (r_pieces s) index (Some r2); r_next := r_next s + 1; r_closed := r_closed s; r_panic := r_panic s |},
     Some (r_next s), fresh || real)
  | _, d => (with_pieces s (pupd (r_pieces s) index (Some r1)), d, fresh || real)
  end.

(* Requested.del: the entry exists *)
Definition r_del_entry (s : rstate) (index : N) : rstate :=
  match r_pieces s index with
  | Some r =>
    let s1 := match rp_done r with Some ch => close_ch s ch | None => s end in
    with_pieces s1 (pupd (r_pieces s1) index None)
  | None => s
  end.

Fixpoint remove_first (p : Z) (l : list Z) : option (list Z) :=
  match l with
  | [] => None
  | x :: r => if (x =? p)%Z then Some r else option_map (cons x) (remove_first p r)
  end.

(* Requested.Del: (state, the piece is no longer wanted by anybody) *)
Definition r_del (s : rstate) (index : N) (prio : Z) : rstate * bool :=
  match r_pieces s index with
  | None => (s, false)
  | Some r =>
    match remove_first prio (rp_prio r) with
    | None => (s, false)
    | Some rest =>
      let s1 := with_pieces s (pupd (r_pieces s) index (Some {| rp_prio := rest; rp_done := rp_done r |})) in
      match rest with
      | [] => (r_del_entry s1 index, true)
      | _ => (s1, false)
      end
    end
  end.

Definition r_del_idle_piece (s : rstate) (index : N) : rstate :=
  match r_pieces s index with
  | Some r => match rp_prio r with [] => r_del_entry s index | _ => s end
  | None => s
  end.

(* Requested.Done *)
Definition r_done (s : rstate) (index : N) : rstate :=
  match r_pieces s index with
  | None => s
  | Some r =>
    let s1 := match rp_done r with
              | Some ch => with_pieces (close_ch s ch) (pupd (r_pieces s) index (Some {| rp_prio := rp_prio r; rp_done := None |}))
              | None => s
              end in
    r_del_idle_piece s1 index
  end.

(* Requested.DelIdle over the pieces of the torrent *)
Definition r_del_idle (s : rstate) (keys : list N) : rstate := fold_left r_del_idle_piece keys s.

Inductive rop :=
| RAdd (index : N) (prio : Z) (want : bool)
| RDel (index : N) (prio : Z)
| RDone (index : N)
| RDelIdle
| RDelIdlePiece (index : N).

Definition r_step (keys : list N) (s : rstate) (o : rop) : rstate :=
  match o with
  | RAdd i p w => fst (fst (r_add s i p w))
  | RDel i p => fst (r_del s i p)
  | RDone i => r_done s i
  | RDelIdle => r_del_idle s keys
  | RDelIdlePiece i => r_del_idle_piece s i
  end.
