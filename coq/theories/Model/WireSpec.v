(* Model/WireSpec.v — an independent encoder for the BitTorrent wire format, written
   from BEP 3 (core messages), BEP 5 (port), BEP 6 (fast extension), BEP 10
   (extension protocol), BEP 9 (ut_metadata), BEP 11 (ut_pex), lt_donthave and the
   upload_only convention — NOT from storrent's protocol/writer.go.  It is the
   "independent implementation" of property C06.  Definitions only. *)
From Coq Require Import String.
From Storrent Require Import Base.Bytes Base.Bencode Gen.Consts Model.Wire.
Open Scope N_scope.

(* ---- bencoding (BEP 3): canonical encoder ---- *)

(* decimal digits of n, most significant first; fuel = number of digits allowed *)
Fixpoint to_digits (fuel : nat) (n : N) : bytes :=
  match fuel with
  | O => [48 + n mod 10]
  | S f => if n <? 10 then [48 + n] else to_digits f (n / 10) ++ [48 + n mod 10]
  end.
Definition dec (n : N) : bytes := to_digits 40 n.

Definition benc_int (n : N) : bytes := ch_i :: dec n ++ [ch_e].
Definition benc_str (s : bytes) : bytes := dec (len s) ++ ch_colon :: s.
Fixpoint benc_dict (kvs : list (bytes * bytes)) : bytes :=   (* values already encoded *)
  match kvs with
  | [] => []
  | (k, v) :: r => benc_str k ++ v ++ benc_dict r
  end.
Definition benc_d (kvs : list (bytes * bytes)) : bytes := ch_d :: benc_dict kvs ++ [ch_e].

(* optional dictionary entry: present iff [present] *)
Definition ent (present : bool) (k : string) (v : bytes) : list (bytes * bytes) :=
  if present then [(ascii_bytes k, v)] else [].

Definition nonempty {A} (b : list A) : bool := match b with [] => false | _ => true end.
Definition benc_bool (b : bool) : bytes := benc_int (if b then 1 else 0).

(* ---- message framing (BEP 3): <length prefix: 4 bytes BE><id: 1 byte><payload> ---- *)

Definition frame (id : N) (payload : bytes) : bytes := enc32 (1 + len payload) ++ id :: payload.
Definition ext_frame (sub : N) (payload : bytes) : bytes := frame 20 (sub :: payload).

(* ---- compact peer lists (BEP 11 / BEP 23) ---- *)
Definition is_v4 (p : peer) : bool := len (p_ip p) =? 4.
Definition compact_of (ps : list peer) : bytes := flat_map (fun p => p_ip p ++ enc16 (p_port p)) ps.
Definition flags_of (ps : list peer) : bytes := map p_flags ps.

(* keys of the "m" dictionary must be sorted (bencoding canonical form); the
   message carries them as an association list *)
Fixpoint insert_kv (kv : bytes * N) (l : list (bytes * N)) : list (bytes * N) :=
  match l with
  | [] => [kv]
  | kv' :: r =>
    if bytes_eqb (fst kv) (fst kv') then kv :: r
    else if (fix leb (a b : bytes) : bool :=
               match a, b with
               | [], _ => true
               | _ :: _, [] => false
               | x :: a', y :: b' => if x <? y then true else if y <? x then false else leb a' b'
               end) (fst kv) (fst kv')
         then kv :: l else kv' :: insert_kv kv r
  end.
Definition sort_kvs (l : list (bytes * N)) : list (bytes * N) := fold_right insert_kv [] l.

Definition encode_spec (m : msg) : bytes :=
  match m with
  | KeepAlive => [0; 0; 0; 0]
  | Choke => frame 0 []
  | Unchoke => frame 1 []
  | Interested => frame 2 []
  | NotInterested => frame 3 []
  | Have i => frame 4 (enc32 i)
  | Bitfield b => frame 5 b
  | Request i b l => frame 6 (enc32 i ++ enc32 b ++ enc32 l)
  | Piece i b d => frame 7 (enc32 i ++ enc32 b ++ d)
  | Cancel i b l => frame 8 (enc32 i ++ enc32 b ++ enc32 l)
  | Port p => frame 9 (enc16 p)
  | SuggestPiece i => frame 13 (enc32 i)
  | HaveAll => frame 14 []
  | HaveNone => frame 15 []
  | RejectRequest i b l => frame 16 (enc32 i ++ enc32 b ++ enc32 l)
  | AllowedFast i => frame 17 (enc32 i)
  | Extended0 e =>
    ext_frame 0 (benc_d (
      ent (e_encrypt e) "e" (benc_bool true) ++
      ent (match e_ipv4 e with Some _ => true | None => false end) "ipv4"
          (benc_str (match e_ipv4 e with Some a => a | None => [] end)) ++
      ent (match e_ipv6 e with Some _ => true | None => false end) "ipv6"
          (benc_str (match e_ipv6 e with Some a => a | None => [] end)) ++
      ent (match e_messages e with [] => false | _ => true end) "m"
          (benc_d (map (fun kv => (fst kv, benc_int (snd kv))) (sort_kvs (e_messages e)))) ++
      ent (negb (e_metadata_size e =? 0)) "metadata_size" (benc_int (e_metadata_size e)) ++
      ent (negb (e_port e =? 0)) "p" (benc_int (e_port e)) ++
      ent (negb (e_reqq e =? 0)) "reqq" (benc_int (e_reqq e)) ++
      ent true "upload_only" (benc_bool (e_upload_only e)) ++
      ent (nonempty (e_version e)) "v" (benc_str (e_version e))))
  | ExtendedPex sub added dropped =>
    let a4 := filter is_v4 added in let a6 := filter (fun p => negb (is_v4 p)) added in
    let d4 := filter is_v4 dropped in let d6 := filter (fun p => negb (is_v4 p)) dropped in
    ext_frame sub (benc_d (
      ent (nonempty a4) "added" (benc_str (compact_of a4)) ++
      ent (nonempty a4) "added.f" (benc_str (flags_of a4)) ++
      ent (nonempty a6) "added6" (benc_str (compact_of a6)) ++
      ent (nonempty a6) "added6.f" (benc_str (flags_of a6)) ++
      ent (nonempty d4) "dropped" (benc_str (compact_of d4)) ++
      ent (nonempty d6) "dropped6" (benc_str (compact_of d6))))
  | ExtendedMetadata sub tpe piece total d =>
    ext_frame sub (benc_d (
      ent true "msg_type" (benc_int tpe) ++
      ent true "piece" (benc_int piece) ++
      ent (negb (total =? 0)) "total_size" (benc_int total)) ++ d)
  | ExtendedDontHave sub i => ext_frame sub (enc32 i)
  | ExtendedUploadOnly sub v => ext_frame sub [if v then 1 else 0]
  | ExtendedUnknown sub => ext_frame sub []
  | Unknown t => frame t []
  end.

(* what a message reads back as: identity, except that peer lists come back IPv4
   first and the flags of dropped peers are not transmitted *)
Definition norm_peers (ps : list peer) : list peer :=
  filter is_v4 ps ++ filter (fun p => negb (is_v4 p)) ps.
Definition clear_flags (p : peer) : peer := {| p_ip := p_ip p; p_port := p_port p; p_flags := 0 |}.
Definition norm (m : msg) : msg :=
  match m with
  | ExtendedPex sub a d => ExtendedPex sub (norm_peers a) (map clear_flags (norm_peers d))
  | _ => m
  end.

(* messages storrent can emit, with fields in range *)
Definition u32 (n : N) : bool := n <? 4294967296.
Definition wf_peer (p : peer) : bool :=
  wf_bytes (p_ip p) && ((len (p_ip p) =? 4) || (len (p_ip p) =? 16)) && (p_port p <? 65536) && (p_flags p <? 256).

Definition fixed_width (m : msg) : bool :=
  match m with
  | KeepAlive | Choke | Unchoke | Interested | NotInterested | HaveAll | HaveNone => true
  | Have i | SuggestPiece i | AllowedFast i => u32 i
  | Request i b l | Cancel i b l | RejectRequest i b l => u32 i && u32 b && u32 l
  | Port p => p <? 65536
  | Bitfield b => len b <? max_frame
  | Piece i b d => u32 i && u32 b && (len d + 9 <=? max_frame)
  | ExtendedDontHave sub i => (sub =? ExtDontHave) && u32 i
  | _ => false
  end.
