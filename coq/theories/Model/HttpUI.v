(* Model/HttpUI.v — the pieces of http/http.go that C19 is about: the Host check in
   front of every handler, and the escaping applied where attacker-controlled strings
   enter a page or a playlist.  html.EscapeString, url.PathEscape, net.SplitHostPort and
   net.ParseIP are specified here (not verified); the correspondence check compares the
   specifications with the library functions on hostile strings.  Definitions only. *)
From Storrent Require Import Base.Bytes Base.Bencode Model.Wire Model.Tracker.
Open Scope N_scope.

(* html.EscapeString *)
Definition esc_char (c : N) : bytes :=
  if c =? 38 then [38;97;109;112;59]            (* &amp; *)
  else if c =? 39 then [38;35;51;57;59]         (* &#39; *)
  else if c =? 60 then [38;108;116;59]          (* &lt; *)
  else if c =? 62 then [38;103;116;59]          (* &gt; *)
  else if c =? 34 then [38;35;51;52;59]         (* &#34; *)
  else [c].
Definition html_escape (s : bytes) : bytes := flat_map esc_char s.

(* url.PathEscape: unreserved characters and $ & + : = @ are kept, the rest is %XX *)
Definition is_alnum (c : N) : bool :=
  ((48 <=? c) && (c <=? 57)) || ((65 <=? c) && (c <=? 90)) || ((97 <=? c) && (c <=? 122)).
Definition path_keep (c : N) : bool :=
  is_alnum c || (c =? 45) || (c =? 95) || (c =? 46) || (c =? 126) ||
  (c =? 36) || (c =? 38) || (c =? 43) || (c =? 58) || (c =? 61) || (c =? 64).
Definition hexdigit (n : N) : N := if n <? 10 then 48 + n else 55 + n.
Definition pct (c : N) : bytes := [37; hexdigit (c / 16); hexdigit (c mod 16)].
Definition path_escape (s : bytes) : bytes := flat_map (fun c => if path_keep c then [c] else pct c) s.

(* playlist title: commas, CR and LF removed *)
Definition m3u_title (s : bytes) : bytes :=
  filter (fun c => negb ((c =? 44) || (c =? 13) || (c =? 10))) s.

(* HTML metacharacters *)
Definition is_meta (c : N) : bool := (c =? 60) || (c =? 62) || (c =? 38) || (c =? 34) || (c =? 39).
Definition is_url_meta (c : N) : bool := (c =? 60) || (c =? 62) || (c =? 34) || (c =? 39) || (c <=? 32).

(* ---------- checkLocal ---------- *)

Inductive hostres := HostOk | HostForbidden | HostBad.

(* net.SplitHostPort, enough of it: [v6]:port, or host:port with exactly one colon *)
Fixpoint count_colon (s : bytes) : N :=
  match s with [] => 0 | c :: r => (if c =? 58 then 1 else 0) + count_colon r end.
Fixpoint before_last_colon (s : bytes) : bytes :=
  match s with
  | [] => []
  | c :: r => if (c =? 58) && (count_colon r =? 0) then [] else c :: before_last_colon r
  end.
Fixpoint until_bracket (s : bytes) : option (bytes * bytes) :=
  match s with
  | [] => None
  | c :: r => if c =? 93 then Some ([], r)
              else match until_bracket r with Some (a, b) => Some (c :: a, b) | None => None end
  end.
Definition split_host (hostport : bytes) : option bytes :=
  match hostport with
  | 91 :: r =>                                   (* '[' *)
    match until_bracket r with
    | Some (h, 58 :: _) => Some h
    | _ => None
    end
  | _ => if count_colon hostport =? 1 then Some (before_last_colon hostport) else None
  end.

Definition is_hexish (c : N) : bool :=
  ((48 <=? c) && (c <=? 57)) || ((65 <=? c) && (c <=? 70)) || ((97 <=? c) && (c <=? 102)) || (c =? 58) || (c =? 46).
(* net.ParseIP on the shapes the generator produces: dotted IPv4, or text made of hex
   digits, colons and dots that contains a colon (an IPv6 literal) *)
Definition is_ip_literal (h : bytes) : bool :=
  match parse_ipv4 h with
  | Some _ => true
  | None => forallb is_hexish h && (0 <? count_colon h)
  end.

Definition localhost : bytes := [108;111;99;97;108;104;111;115;116].

Definition check_local (hostport : bytes) : hostres :=
  match split_host hostport with
  | None => HostBad
  | Some h => if bytes_eqb h localhost || is_ip_literal h then HostOk else HostForbidden
  end.
