(* Base/Bytes.v — byte strings as [list N], big-endian fields, Go-style slicing.
   Definitions and their basic lemmas; used by every codec model. *)
From Coq Require Export List NArith ZArith Lia Bool.
From Coq Require Import ZifyBool ZifyN ZifyNat.
Export ListNotations.
Open Scope N_scope.

Ltac Zify.zify_post_hook ::= Z.div_mod_to_equations.

Definition bytes := list N.

Definition is_byte (b : N) : bool := b <? 256.
Definition wf_bytes (bs : bytes) : bool := forallb is_byte bs.

Definition len (bs : bytes) : N := N.of_nat (length bs).

(* take n bs = Some (first n bytes, rest), or None when fewer than n remain
   (what io.ReadFull / binary.Read report as an error). *)
Definition take (n : N) (bs : bytes) : option (bytes * bytes) :=
  if n <=? len bs then Some (firstn (N.to_nat n) bs, skipn (N.to_nat n) bs) else None.

Definition be16 (a b : N) : N := a * 256 + b.
Definition be32 (a b c d : N) : N := ((a * 256 + b) * 256 + c) * 256 + d.

Definition enc16 (v : N) : bytes := [ (v / 256) mod 256; v mod 256 ].
Definition enc32 (v : N) : bytes :=
  [ (v / 16777216) mod 256; (v / 65536) mod 256; (v / 256) mod 256; v mod 256 ].

Definition read16 (bs : bytes) : option (N * bytes) :=
  match bs with a :: b :: r => Some (be16 a b, r) | _ => None end.
Definition read32 (bs : bytes) : option (N * bytes) :=
  match bs with a :: b :: c :: d :: r => Some (be32 a b c d, r) | _ => None end.

Definition wrap32 (z : Z) : N := Z.to_N (z mod 4294967296).

(* ---------- lemmas ---------- *)

Lemma len_app a b : len (a ++ b) = len a + len b.
Proof. unfold len. rewrite app_length. lia. Qed.

Lemma len_nil : len [] = 0. Proof. reflexivity. Qed.
Lemma len_cons x l : len (x :: l) = 1 + len l.
Proof. unfold len. cbn [length]. lia. Qed.

Lemma take_app n bs pre rest tail :
  take n bs = Some (pre, rest) -> take n (bs ++ tail) = Some (pre, rest ++ tail).
Proof.
  unfold take. destruct (n <=? len bs) eqn:E; [|discriminate].
  intros H. injection H as <- <-.
  assert (Hn : (N.to_nat n <= length bs)%nat) by (unfold len in E; lia).
  rewrite len_app. destruct (n <=? len bs + len tail) eqn:E2; [|lia].
  f_equal. f_equal.
  - rewrite firstn_app. replace (N.to_nat n - length bs)%nat with 0%nat by lia.
    cbn [firstn]. now rewrite app_nil_r.
  - rewrite skipn_app. replace (N.to_nat n - length bs)%nat with 0%nat by lia.
    reflexivity.
Qed.

Lemma take_len n bs pre rest :
  take n bs = Some (pre, rest) -> len pre = n /\ len bs = n + len rest /\ bs = pre ++ rest.
Proof.
  unfold take. destruct (n <=? len bs) eqn:E; [|discriminate].
  intros H. injection H as <- <-. unfold len in *.
  rewrite firstn_length, skipn_length. rewrite firstn_skipn. repeat split; lia.
Qed.

Lemma take_exact pre rest : take (len pre) (pre ++ rest) = Some (pre, rest).
Proof.
  unfold take. rewrite len_app. destruct (len pre <=? len pre + len rest) eqn:E; [|lia].
  unfold len. rewrite Nat2N.id. rewrite firstn_app, skipn_app, Nat.sub_diag.
  rewrite firstn_all, skipn_all. cbn. now rewrite app_nil_r.
Qed.

Lemma read32_app bs v r tail : read32 bs = Some (v, r) -> read32 (bs ++ tail) = Some (v, r ++ tail).
Proof.
  destruct bs as [|a [|b [|c [|d r']]]]; cbn; try discriminate.
  intros H; injection H as <- <-. reflexivity.
Qed.

Lemma read16_app bs v r tail : read16 bs = Some (v, r) -> read16 (bs ++ tail) = Some (v, r ++ tail).
Proof.
  destruct bs as [|a [|b r']]; cbn; try discriminate.
  intros H; injection H as <- <-. reflexivity.
Qed.

Lemma read32_len bs v r : read32 bs = Some (v, r) -> len bs = 4 + len r.
Proof.
  destruct bs as [|a [|b [|c [|d r']]]]; cbn [read32]; try discriminate.
  intros H; injection H as <- <-. rewrite !len_cons. lia.
Qed.

Lemma read16_len bs v r : read16 bs = Some (v, r) -> len bs = 2 + len r.
Proof.
  destruct bs as [|a [|b r']]; cbn [read16]; try discriminate.
  intros H; injection H as <- <-. rewrite !len_cons. lia.
Qed.

Lemma enc32_read32 v r : v < 4294967296 -> read32 (enc32 v ++ r) = Some (v, r).
Proof.
  intros Hv. unfold enc32. cbn [app read32]. f_equal. f_equal. unfold be32. lia.
Qed.

Lemma enc16_read16 v r : v < 65536 -> read16 (enc16 v ++ r) = Some (v, r).
Proof.
  intros Hv. unfold enc16. cbn [app read16]. f_equal. f_equal. unfold be16. lia.
Qed.

Lemma enc32_wf v : wf_bytes (enc32 v) = true.
Proof. unfold enc32, wf_bytes, is_byte. cbn [forallb]. repeat rewrite andb_true_iff. repeat split; lia. Qed.

Lemma enc32_len v : len (enc32 v) = 4. Proof. reflexivity. Qed.
Lemma enc16_len v : len (enc16 v) = 2. Proof. reflexivity. Qed.

Lemma be32_bound a b c d : a < 256 -> b < 256 -> c < 256 -> d < 256 -> be32 a b c d < 4294967296.
Proof. unfold be32. lia. Qed.

Lemma read32_none bs : read32 bs = None -> len bs < 4.
Proof. destruct bs as [|a [|b [|c [|d r']]]]; cbn [read32]; try discriminate; intros _; rewrite ?len_cons, ?len_nil; lia. Qed.
Lemma read16_none bs : read16 bs = None -> len bs < 2.
Proof. destruct bs as [|a [|b r']]; cbn [read16]; try discriminate; intros _; rewrite ?len_cons, ?len_nil; lia. Qed.
Lemma take_none n bs : take n bs = None -> len bs < n.
Proof. unfold take. destruct (n <=? len bs) eqn:E; [discriminate|]. intros _. lia. Qed.
