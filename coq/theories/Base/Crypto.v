(* Base/Crypto.v — SHA-1 (FIPS 180-4), RC4 and modular exponentiation, written from their
   specifications.  They make the model of the MSE handshake an independent implementation:
   the keys, the synchronisation hashes and the key stream are computed here, inside the
   assistant, and compared with what storrent put on the wire.  Definitions only. *)
From Storrent Require Import Base.Bytes.
Open Scope N_scope.

(* ---------- 32-bit words ---------- *)

Definition w32 : N := 4294967296.
Definition add32 (a b : N) : N := (a + b) mod w32.
Definition rotl32 (n : N) (x : N) : N :=
  (N.shiftl x n mod w32) + N.shiftr x (32 - n).
Definition not32 (x : N) : N := w32 - 1 - x.

(* ---------- SHA-1 ---------- *)

Fixpoint words_of (bs : bytes) (fuel : nat) : list N :=
  match fuel with
  | O => []
  | S f => match bs with
           | a :: b :: c :: d :: r => be32 a b c d :: words_of r f
           | _ => []
           end
  end.

(* the message schedule, kept as a sliding window of the last 16 words, oldest first *)
Definition sched_next (w : list N) : N :=
  rotl32 1 (N.lxor (N.lxor (nth 13 w 0) (nth 8 w 0)) (N.lxor (nth 2 w 0) (nth 0 w 0))).

Definition sha1_f (t : nat) (b c d : N) : N :=
  if (t <? 20)%nat then N.lor (N.land b c) (N.land (not32 b) d)
  else if (t <? 40)%nat then N.lxor b (N.lxor c d)
  else if (t <? 60)%nat then N.lor (N.lor (N.land b c) (N.land b d)) (N.land c d)
  else N.lxor b (N.lxor c d).

Definition sha1_k (t : nat) : N :=
  if (t <? 20)%nat then 1518500249 (* 5A827999 *)
  else if (t <? 40)%nat then 1859775393 (* 6ED9EBA1 *)
  else if (t <? 60)%nat then 2400959708 (* 8F1BBCDC *)
  else 3395469782 (* CA62C1D6 *).

Record sha1st := { s1a : N; s1b : N; s1c : N; s1d : N; s1e : N }.

Fixpoint sha1_rounds (n : nat) (t : nat) (w : list N) (s : sha1st) : sha1st :=
  match n with
  | O => s
  | S n' =>
    let wt := nth 0 w 0 in
    let tmp := add32 (add32 (add32 (add32 (rotl32 5 (s1a s)) (sha1_f t (s1b s) (s1c s) (s1d s))) (s1e s)) (sha1_k t)) wt in
    let s' := {| s1a := tmp; s1b := s1a s; s1c := rotl32 30 (s1b s); s1d := s1c s; s1e := s1d s |} in
    sha1_rounds n' (S t) (tl w ++ [sched_next w]) s'
  end.

Definition sha1_block (s : sha1st) (blk : bytes) : sha1st :=
  let r := sha1_rounds 80 0 (words_of blk 16) s in
  {| s1a := add32 (s1a s) (s1a r); s1b := add32 (s1b s) (s1b r); s1c := add32 (s1c s) (s1c r);
     s1d := add32 (s1d s) (s1d r); s1e := add32 (s1e s) (s1e r) |}.

Fixpoint sha1_blocks (fuel : nat) (s : sha1st) (m : bytes) : sha1st :=
  match fuel with
  | O => s
  | S f => match m with
           | [] => s
           | _ => sha1_blocks f (sha1_block s (firstn 64 m)) (skipn 64 m)
           end
  end.

Definition enc64 (v : N) : bytes := enc32 (v / w32) ++ enc32 (v mod w32).

Definition sha1_pad (m : bytes) : bytes :=
  let l := len m in
  let z := (64 + 55 - l mod 64) mod 64 in
  m ++ [128] ++ repeat 0 (N.to_nat z) ++ enc64 (8 * l).

Definition sha1 (m : bytes) : bytes :=
  let p := sha1_pad m in
  let s := sha1_blocks (S (length p / 64)) {| s1a := 1732584193; s1b := 4023233417; s1c := 2562383102;
                                               s1d := 271733878; s1e := 3285377520 |} p in
  enc32 (s1a s) ++ enc32 (s1b s) ++ enc32 (s1c s) ++ enc32 (s1d s) ++ enc32 (s1e s).

(* ---------- RC4 ---------- *)

(* the permutation as a perfect binary tree of depth 8, indexed by the bits of the byte,
   most significant first *)
Inductive sbox := SLeaf (v : N) | SNode (l r : sbox).

Fixpoint sb_build (d : nat) (base : N) : sbox :=
  match d with
  | O => SLeaf base
  | S d' => SNode (sb_build d' base) (sb_build d' (base + N.pow 2 (N.of_nat d')))
  end.

Fixpoint sb_get (d : nat) (t : sbox) (i : N) : N :=
  match t with
  | SLeaf v => v
  | SNode l r =>
    match d with
    | O => 0
    | S d' => if N.testbit i (N.of_nat d') then sb_get d' r i else sb_get d' l i
    end
  end.

Fixpoint sb_set (d : nat) (t : sbox) (i v : N) : sbox :=
  match t with
  | SLeaf _ => SLeaf v
  | SNode l r =>
    match d with
    | O => t
    | S d' => if N.testbit i (N.of_nat d') then SNode l (sb_set d' r i v) else SNode (sb_set d' l i v) r
    end
  end.

Record rc4st := { rs : sbox; ri : N; rj : N }.

Definition sget (s : sbox) (i : N) := sb_get 8 s i.
Definition sset (s : sbox) (i v : N) := sb_set 8 s i v.

(* key scheduling: for i = 0..255, j += S[i] + key[i mod keylen]; swap *)
Fixpoint rc4_ksa (n : nat) (i j : N) (key : bytes) (s : sbox) : sbox :=
  match n with
  | O => s
  | S n' =>
    let si := sget s i in
    let j' := (j + si + nth (N.to_nat (i mod len key)) key 0) mod 256 in
    let sj := sget s j' in
    rc4_ksa n' (i + 1) j' key (sset (sset s i sj) j' si)
  end.

Definition rc4_init (key : bytes) : rc4st :=
  {| rs := rc4_ksa 256 0 0 key (sb_build 8 0); ri := 0; rj := 0 |}.

(* one output byte *)
Definition rc4_next (st : rc4st) : rc4st * N :=
  let i := (ri st + 1) mod 256 in
  let si := sget (rs st) i in
  let j := (rj st + si) mod 256 in
  let sj := sget (rs st) j in
  let s' := sset (sset (rs st) i sj) j si in
  ({| rs := s'; ri := i; rj := j |}, sget s' ((si + sj) mod 256)).

(* XORKeyStream *)
Fixpoint rc4_xor (st : rc4st) (bs : bytes) : rc4st * bytes :=
  match bs with
  | [] => (st, [])
  | b :: r =>
    let (st1, k) := rc4_next st in
    let (st2, out) := rc4_xor st1 r in
    (st2, N.lxor b k :: out)
  end.


Fixpoint rc4_skip (n : nat) (st : rc4st) : rc4st :=
  match n with O => st | S n' => rc4_skip n' (fst (rc4_next st)) end.

(* ---------- modular exponentiation ---------- *)

Fixpoint modexp_pos (b : N) (e : positive) (m : N) : N :=
  match e with
  | xH => b mod m
  | xO e' => let r := modexp_pos b e' m in (r * r) mod m
  | xI e' => let r := modexp_pos b e' m in (((r * r) mod m) * b) mod m
  end.

Definition modexp (b e m : N) : N :=
  match e with N0 => 1 mod m | Npos p => modexp_pos b p m end.

(* the prime of the MSE key exchange *)
Definition P768 : N := 0xFFFFFFFFFFFFFFFFC90FDAA22168C234C4C6628B80DC1CD129024E088A67CC74020BBEA63B139B22514A08798E3404DDEF9519B3CD3A431B302B0A6DF25F14374FE1356D6D51C245E485B576625E7EC6F44C42E9A63A36210000000000090563.

(* big-endian integers of a fixed width *)
Fixpoint be_to_N (bs : bytes) (acc : N) : N :=
  match bs with [] => acc | b :: r => be_to_N r (acc * 256 + b) end.

Fixpoint N_to_be (width : nat) (v : N) (acc : bytes) : bytes :=
  match width with O => acc | S w => N_to_be w (v / 256) (v mod 256 :: acc) end.
