(* Base/Bencode.v — bencoding as decoded by github.com/zeebo/bencode v1.0.0.

   The library is third-party: it is *specified* here, not verified.  The parser
   below is the library's raw grammar (what it accepts when capturing a RawMessage):
     i<any bytes up to the first 'e'>e
     <strconv.ParseInt(.,10,32) >= 0>:<that many bytes>
     l<values>e      d(<string><value>)*e
   Integers keep their digit string, because the library validates them differently
   depending on the Go type it stores into (ParseInt for interface{}/intN, ParseUint
   for uintN/bool, nothing in raw mode).  The typed views further down apply that
   validation.  [cost] counts the bytes the library allocates for strings *before*
   reading them (make([]byte, l) with the declared l). *)
From Storrent Require Import Base.Bytes.
Open Scope N_scope.

Inductive bval :=
| BInt (digits : bytes)
| BStr (s : bytes)
| BList (l : list bval)
| BDict (kvs : list (bytes * bval)).

Inductive berr := BEof | BSyntax | BFuel.

Inductive bres (A : Type) :=
| BOk (v : A) (rest : bytes) (cost : N)
| BErr (e : berr) (cost : N).
Arguments BOk {A}. Arguments BErr {A}.

Definition ch_i := 105. Definition ch_l := 108. Definition ch_d := 100. Definition ch_e := 101.
Definition ch_colon := 58. Definition ch_minus := 45. Definition ch_plus := 43. Definition ch_0 := 48.

Definition is_digit (c : N) : bool := (48 <=? c) && (c <=? 57).

(* split_at c bs = Some (before, after) at the first occurrence of c *)
Fixpoint split_at (c : N) (bs : bytes) : option (bytes * bytes) :=
  match bs with
  | [] => None
  | x :: r => if x =? c then Some ([], r)
              else match split_at c r with
                   | Some (a, b) => Some (x :: a, b)
                   | None => None
                   end
  end.

(* decimal digits -> N ; None on a non-digit or empty string *)
Fixpoint digits_val (acc : N) (ds : bytes) : option N :=
  match ds with
  | [] => Some acc
  | d :: r => if is_digit d then digits_val (acc * 10 + (d - 48)) r else None
  end.
Definition parse_udec (ds : bytes) : option N :=
  match ds with [] => None | _ => digits_val 0 ds end.

(* strconv.ParseUint(s, 10, 64) *)
Definition parse_uint64 (ds : bytes) : option N :=
  match parse_udec ds with
  | Some n => if n <? 18446744073709551616 then Some n else None
  | None => None
  end.

(* strconv.ParseInt(s, 10, bits): optional sign, then digits; range checked *)
Definition parse_int (bits : N) (ds : bytes) : option Z :=
  let lim := Z.pow 2 (Z.of_N bits - 1) in
  match ds with
  | [] => None
  | c :: r =>
    if c =? ch_minus then
      match parse_udec r with
      | Some n => if (Z.of_N n <=? lim)%Z then Some (- Z.of_N n)%Z else None
      | None => None end
    else if c =? ch_plus then
      match parse_udec r with
      | Some n => if (Z.of_N n <? lim)%Z then Some (Z.of_N n) else None
      | None => None end
    else
      match parse_udec ds with
      | Some n => if (Z.of_N n <? lim)%Z then Some (Z.of_N n) else None
      | None => None end
  end.

(* a bencoded string header+body at the head of bs (decodeString) *)
Definition parse_bstr (bs : bytes) : bres bytes :=
  match split_at ch_colon bs with
  | None => BErr BEof 0
  | Some (hd, r) =>
    match parse_int 32 hd with
    | None => BErr BSyntax 0
    | Some l =>
      if (l <? 0)%Z then BErr BSyntax 0 else
      let n := Z.to_N l in
      match take n r with
      | Some (s, r') => BOk s r' n
      | None => BErr BEof n
      end
    end
  end.

(* the element loops of lists and dictionaries, over an element parser p *)
Fixpoint list_loop (p : bytes -> bres bval) (g : nat) (r : bytes) (acc : list bval) (k : N)
  {struct g} : bres bval :=
  match g with
  | O => BErr BFuel k
  | S g' =>
    match r with
    | [] => BErr BEof k
    | x :: r' =>
      if x =? ch_e then BOk (BList (rev acc)) r' k
      else match p r with
           | BOk v r'' k' => list_loop p g' r'' (v :: acc) (k + k')
           | BErr e k' => BErr e (k + k')
           end
    end
  end.

Fixpoint dict_loop (p : bytes -> bres bval) (g : nat) (r : bytes) (acc : list (bytes * bval)) (k : N)
  {struct g} : bres bval :=
  match g with
  | O => BErr BFuel k
  | S g' =>
    match r with
    | [] => BErr BEof k
    | x :: r' =>
      if x =? ch_e then BOk (BDict (rev acc)) r' k
      else match parse_bstr r with
           | BErr e k' => BErr e (k + k')
           | BOk key r1 k1 =>
             match p r1 with
             | BOk v r2 k2 => dict_loop p g' r2 ((key, v) :: acc) (k + k1 + k2)
             | BErr e k2 => BErr e (k + k1 + k2)
             end
           end
    end
  end.

Fixpoint bparse (fuel : nat) (bs : bytes) {struct fuel} : bres bval :=
  match fuel with
  | O => BErr BFuel 0
  | S f =>
    match bs with
    | [] => BErr BEof 0
    | c :: r =>
      if c =? ch_i then
        match split_at ch_e r with
        | Some (ds, r') => BOk (BInt ds) r' 0
        | None => BErr BEof 0
        end
      else if is_digit c then
        match parse_bstr bs with
        | BOk s r' k => BOk (BStr s) r' k
        | BErr e k => BErr e k
        end
      else if c =? ch_l then list_loop (bparse f) f r [] 0
      else if c =? ch_d then dict_loop (bparse f) f r [] 0
      else BErr BSyntax 0
    end
  end.

Definition bdecode (bs : bytes) : bres bval := bparse (S (length bs)) bs.

(* nesting depth of a value: scalars 0, a list or dictionary one more than its deepest element *)
Fixpoint vdepth (v : bval) : N :=
  match v with
  | BInt _ | BStr _ => 0
  | BList l => 1 + fold_right (fun x m => N.max (vdepth x) m) 0 l
  | BDict kvs => 1 + fold_right (fun kv m => N.max (vdepth (snd kv)) m) 0 kvs
  end.

(* protocol/reader.go passes the payload of a bencoded extension message through a reader that
   fails once the first value nests deeper than maxBencodeDepth (the decoder is recursive).  On a
   payload the decoder would have accepted, the composition fails exactly when the value nests
   deeper than that; on anything else it fails as before. *)
Definition max_bencode_depth : N := 64.
Definition bdecode_lim (bs : bytes) : bres bval :=
  match bdecode bs with
  | BOk v r k => if max_bencode_depth <? vdepth v then BErr BSyntax k else BOk v r k
  | e => e
  end.

(* ---------- typed views (what Decode stores into Go values) ---------- *)

(* interface{} destination: every integer must satisfy ParseInt(.,10,64) *)
Fixpoint valid_iface (v : bval) : bool :=
  match v with
  | BInt ds => match parse_int 64 ds with Some _ => true | None => false end
  | BStr _ => true
  | BList l => forallb valid_iface l
  | BDict kvs => forallb (fun kv => valid_iface (snd kv)) kvs
  end.

(* uintN destination (reflect.SetUint truncates silently) *)
Definition as_uint (bits : N) (v : bval) : option N :=
  match v with
  | BInt ds => match parse_uint64 ds with Some n => Some (n mod 2 ^ bits) | None => None end
  | _ => None
  end.

(* intN destination *)
Definition as_int64 (v : bval) : option Z :=
  match v with BInt ds => parse_int 64 ds | _ => None end.

Definition as_str (v : bval) : option bytes :=
  match v with BStr s => Some s | _ => None end.

(* []byte destination: a string, or (library quirk: a []byte is a slice, so
   decodeList accepts it) a list of integers each stored into a uint8 *)
Fixpoint all_uint8 (l : list bval) : option bytes :=
  match l with
  | [] => Some []
  | v :: r => match as_uint 8 v, all_uint8 r with
              | Some n, Some t => Some (n :: t)
              | _, _ => None end
  end.
Definition as_bytes_field (v : bval) : option bytes :=
  match v with BStr s => Some s | BList l => all_uint8 l | _ => None end.

(* library quirk: a list decoded into a []byte field that already holds a value is written over it
   element by element: the first len(list) bytes change, the others stay (seen with a repeated key:
   5:added6:......  5:addedli0ei63ee keeps bytes 3..6 of the first value; an empty list changes nothing) *)
Definition is_list (v : bval) : bool := match v with BList _ => true | _ => false end.
Definition overlay (new old : bytes) : bytes := new ++ skipn (length new) old.

Fixpoint bytes_eqb (a b : bytes) : bool :=
  match a, b with
  | [], [] => true
  | x :: a', y :: b' => (x =? y) && bytes_eqb a' b'
  | _, _ => false
  end.

Lemma bytes_eqb_eq a b : bytes_eqb a b = true <-> a = b.
Proof.
  revert b; induction a as [|x a IH]; intros [|y b]; cbn; split; intros H; try congruence; try discriminate.
  - apply andb_true_iff in H as [H1 H2]. apply N.eqb_eq in H1. apply IH in H2. congruence.
  - injection H as -> ->. rewrite N.eqb_refl. cbn. now apply IH.
Qed.

(* last binding of a key wins (the library overwrites struct fields / map entries) *)
Fixpoint lookup_last (k : bytes) (kvs : list (bytes * bval)) : option bval :=
  match kvs with
  | [] => None
  | (k', v) :: r =>
    match lookup_last k r with
    | Some v' => Some v'
    | None => if bytes_eqb k k' then Some v else None
    end
  end.

(* ASCII helper: a Coq string literal as bytes is avoided; keys are given as lists. *)
