(* Proof/Mse.v — the encryption policy: exhaustively for storrent talking to storrent, and for
   each role against an arbitrary peer (any crypto_provide / crypto_select, any byte stream,
   any segmentation). *)
From Coq Require Import ZifyBool ZifyN ZifyNat.
From Storrent Require Import Base.Bytes Base.Bencode Base.Crypto Model.Wire Model.Hs Model.Mse Proof.Crypto Proof.Hs.
Open Scope N_scope.

(* ---------- the 2 x 64 x 64 table ---------- *)

Lemma policy_cell crypto co so :
  permits co (attempt crypto co so) = true /\ permits so (attempt crypto co so) = true /\
  (client_view crypto co so <> MFail -> server_view crypto co so <> MFail ->
   client_view crypto co so = server_view crypto co so).
Proof.
  destruct crypto, co as [[] [] [] [] [] []], so as [[] [] [] [] [] []];
    vm_compute; (split; [reflexivity|split; [reflexivity|intros; congruence]]).
Qed.

(* ---------- each end against any peer ---------- *)

Lemma server_select_sound provide o :
  match server_select provide o with
  | 0 => True
  | 1 => forceE o = false /\ N.testbit provide 0 = true
  | 2 => allowE o = true /\ N.testbit provide 1 = true
  | _ => False
  end.
Proof.
  unfold server_select.
  destruct (N.testbit provide 0), (N.testbit provide 1), (allowE o), (preferE o), (forceE o); cbn; auto.
Qed.

Lemma client_accept_sound sel o m :
  client_accept sel o = Some m ->
  (m = true -> sel = 2 /\ allowE o = true) /\ (m = false -> sel = 1 /\ forceE o = false) /\
  N.land sel (client_provide o) <> 0.
Proof.
  unfold client_accept, client_provide.
  destruct (sel =? 1) eqn:E1; [apply N.eqb_eq in E1; subst sel|].
  - destruct (forceE o) eqn:F; [discriminate|]. intros [= <-].
    split; [discriminate|]. split; [auto|]. destruct (allowE o); cbn; discriminate.
  - destruct (sel =? 2) eqn:E2; [apply N.eqb_eq in E2; subst sel|discriminate].
    destruct (allowE o) eqn:A; [|discriminate]. intros [= <-].
    split; [auto|]. split; [discriminate|]. destruct (forceE o); cbn; discriminate.
Qed.

(* ---------- every way a program can finish ---------- *)

Inductive all_done {A} (Q : A -> Prop) : prog A -> Prop :=
| ad_done r : Q r -> all_done Q (Done r)
| ad_fail c : all_done Q (Fail c)
| ad_need n m k : (forall b, all_done Q (k b)) -> all_done Q (Need n m k)
| ad_sync pat n m k : all_done Q k -> all_done Q (Sync pat n m k)
| ad_write b k : all_done Q k -> all_done Q (Write b k)
| ad_rand n k : (forall b, all_done Q (k b)) -> all_done Q (Rand n k)
| ad_setdec st k : all_done Q k -> all_done Q (SetDec st k)
| ad_unread b k : all_done Q k -> all_done Q (Unread b k)
| ad_check c k : all_done Q k -> all_done Q (CheckEmpty c k).

Lemma all_done_op {A} (Q : A -> Prop) (p : prog A) :
  all_done Q p -> forall s r, fst (op_run p s) = OK r -> Q r.
Proof.
  induction 1 as [r Hr|c|n m k _ IH|pat n m k _ IH|b k _ IH|n k _ IH|st k _ IH|b k _ IH|c k _ IH];
    intros s r0; cbn [op_run].
  - intros [= <-]. exact Hr.
  - discriminate.
  - destruct (read_more s n m); [apply IH|discriminate].
  - destruct (sync_loop _ s pat n _); [apply IH|discriminate].
  - apply IH.
  - apply IH.
  - apply IH.
  - apply IH.
  - destruct (o_buf s); [apply IH|discriminate].
Qed.

Definition mode_of (r : hres) : conn_mode := match h_enc r with Some _ => MRC4 | None => MPlain end.

(* case analysis by lemma: [destruct] would abstract the scrutinee throughout these large goals *)
Lemma ad_if {A} (Q : A -> Prop) (c : bool) (a b : prog A) :
  (c = true -> all_done Q a) -> (c = false -> all_done Q b) -> all_done Q (if c then a else b).
Proof. destruct c; auto. Qed.

Lemma ad_pair {A B C} (Q : A -> Prop) (e : B * C) (f : B -> C -> prog A) :
  (forall x y, e = (x, y) -> all_done Q (f x y)) -> all_done Q (let (x, y) := e in f x y).
Proof. destruct e as [x y]. intros H. now apply H. Qed.

Lemma ad_opt {A B} (Q : A -> Prop) (e : option B) (f : B -> prog A) (g : prog A) :
  (forall x, e = Some x -> all_done Q (f x)) -> (e = None -> all_done Q g) ->
  all_done Q (match e with Some x => f x | None => g end).
Proof. destruct e; auto. Qed.

Ltac ad_step :=
  match goal with
  | |- all_done _ (Fail _) => apply ad_fail
  | |- all_done _ (Done _) => apply ad_done
  | |- all_done _ (Need _ _ _) => apply ad_need; intros ?
  | |- all_done _ (Rand _ _) => apply ad_rand; intros ?
  | |- all_done _ (Sync _ _ _ _) => apply ad_sync
  | |- all_done _ (Write _ _) => apply ad_write
  | |- all_done _ (SetDec _ _) => apply ad_setdec
  | |- all_done _ (Unread _ _) => apply ad_unread
  | |- all_done _ (CheckEmpty _ _) => apply ad_check
  | |- all_done ?Q (if ?c then ?a else ?b) => refine (ad_if Q c a b _ _); intros ?
  | |- all_done ?Q (let (x, y) := ?e in @?f x y) => apply (ad_pair Q e f); intros ? ? ?
  | |- all_done ?Q (match ?e with Some x => @?f x | None => ?g end) => apply (ad_opt Q e f g); [intros ? ?|intros ?]
  end.

Section WithDH.
Variable mexp : N -> N -> N.

(* the cryptography plays no part in these proofs: keep it folded *)
Local Opaque stream_key sha1 rc4_xor rc4_skip rc4_init be_to_N N_to_be trivial xorb find_skey P768 modexp
  server_select client_provide be32 be16 bytes_eqb N.land.

(* the server: whatever the client sends, a connection it accepts is in a mode its options permit,
   and a torrent hash it reports is one it serves *)
Lemma server_tail_done o hashes skey enc :
  permits o (match enc with Some _ => MRC4 | None => MPlain end) = true ->
  all_done (fun r => permits o (mode_of r) = true /\ exists id, In (h_hash r, id) hashes) (server_tail hashes skey enc).
Proof.
  intros Hp. unfold server_tail. repeat ad_step.
  unfold mode_of. cbn [h_enc h_hash]. split.
  - destruct enc; cbn [dstate]; exact Hp.
  - match goal with H : find_hash _ _ = Some ?p |- _ => exists (snd p); revert H end.
    clear. induction hashes as [|q l IH]; cbn [find_hash]; [discriminate|].
    destruct (bytes_eqb (fdrop 8 b) (fst q)) eqn:E.
    + intros [= <-]. apply bytes_eqb_eq in E. left. rewrite E. now destruct q.
    + intros H. right. now apply IH.
Qed.

Lemma server_prog_done o hashes :
  all_done (fun r => permits o (mode_of r) = true /\ exists id, In (h_hash r, id) hashes) (server_prog mexp o hashes).
Proof.
  unfold server_prog, mse_server. ad_step. ad_step; [ad_step|].
  ad_step.
  - (* MSE *)
    repeat (first [ad_step | match goal with |- all_done _ (server_tail _ _ _) => apply server_tail_done end]); cbn [permits];
      match goal with
      | H2 : (server_select ?pv o =? 2) = true |- allowE o = true =>
        apply N.eqb_eq in H2; pose proof (server_select_sound pv o) as S; rewrite H2 in S; exact (proj1 S)
      | H2 : (server_select ?pv o =? 2) = false, H0 : (server_select ?pv o =? 0) = false |- negb (forceE o) = true =>
        pose proof (server_select_sound pv o) as S; revert H2 H0 S; generalize (server_select pv o) as sel;
        intros sel H2 H0 S;
        destruct sel as [|[p|p|]];
          [discriminate H0
          |destruct S
          |destruct p; [destruct S|destruct S|discriminate H2]
          |destruct S as [S1 _]; now rewrite S1]
      end.
  - ad_step; [|ad_step]. apply server_tail_done. cbn [permits].
    match goal with H : (bytes_eqb _ _ && (_ || _)) = false, H' : bytes_eqb _ _ = true |- _ =>
      rewrite H' in H; cbn [andb] in H; apply orb_false_iff in H as [_ H]; now rewrite H end.
Qed.

(* the client *)
Lemma client_tail_done o infohash enc :
  permits o (match enc with Some _ => MRC4 | None => MPlain end) = true ->
  all_done (fun r => permits o (mode_of r) = true /\ h_hash r = infohash) (client_tail infohash enc).
Proof.
  intros Hp. unfold client_tail. repeat ad_step. unfold mode_of. cbn [h_enc h_hash]. split; [exact Hp|].
  match goal with H : negb (bytes_eqb ?a infohash) = false |- _ =>
    apply negb_false_iff, bytes_eqb_eq in H; exact H end.
Qed.

Lemma client_prog_done crypto o infohash myid :
  all_done (fun r => permits o (mode_of r) = true /\ h_hash r = infohash) (client_prog mexp crypto o infohash myid).
Proof.
  unfold client_prog, mse_client. destruct crypto.
  - repeat (first [ad_step | match goal with |- all_done _ (client_tail _ _) => apply client_tail_done end]); cbn [permits];
      try match goal with H : forceE o = false |- negb (forceE o) = true => now rewrite H end;
      try assumption.
  - ad_step; [ad_step|]. ad_step. apply client_tail_done. cbn [permits].
    match goal with H : (_ || _) = false |- _ => apply orb_false_iff in H as [_ H]; now rewrite H end.
Qed.

End WithDH.

(* statements of Properties/C08.v *)
Lemma server_any_peer mexp o hashes s r :
  fst (op_run (server_prog mexp o hashes) s) = OK r ->
  permits o (mode_of r) = true /\ exists id, In (h_hash r, id) hashes.
Proof. exact (all_done_op _ _ (server_prog_done mexp o hashes) s r). Qed.
Lemma client_any_peer mexp crypto o infohash myid s r :
  fst (op_run (client_prog mexp crypto o infohash myid) s) = OK r ->
  permits o (mode_of r) = true /\ h_hash r = infohash.
Proof. exact (all_done_op _ _ (client_prog_done mexp crypto o infohash myid) s r). Qed.
