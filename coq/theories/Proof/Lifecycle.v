(* Proof/Lifecycle.v — [safe] explores every behaviour of a call and of the event loop: if it
   answers true, no reachable configuration leaves the call blocked after the loop has stopped. *)
From Coq Require Import String.
From Storrent Require Import Base.Bytes Model.Lifecycle.

Definition cfg := (list cop * evst * loopst * bool)%type.

Definition alts_of (c : cop) : list (alt * list cop) := match c with CSel alts => alts | CBare a => [(a, [])] end.

Inductive cstep : cfg -> cfg -> Prop :=
| st_client c rest ev l room a k :
    In (a, k) (alts_of c) -> ready room ev l a = true ->
    cstep (c :: rest, ev, l, room) (k ++ rest, after a ev, l, room)
| st_exit prog ev room : prog <> [] -> cstep (prog, ev, Running, room) (prog, ev, Exited, room)
| st_handle prog room : prog <> [] -> cstep (prog, Queued, Running, room) (prog, Handled, Running, room).

(* blocked for ever: the loop has stopped and no alternative of the pending operation is ready *)
Definition stuck (c : cfg) : Prop :=
  let '(prog, ev, l, room) := c in
  match prog with
  | [] => False
  | op :: _ => l = Exited /\ forall a k, In (a, k) (alts_of op) -> ready room ev l a = false
  end.

Inductive reach : cfg -> cfg -> Prop :=
| r_refl c : reach c c
| r_step c c' c'' : cstep c c' -> reach c' c'' -> reach c c''.

Lemma safe_step f prog ev l room :
  safe (S f) prog ev l room = true ->
  ~ stuck (prog, ev, l, room) /\ forall c', cstep (prog, ev, l, room) c' ->
    let '(p', e', l', r') := c' in safe f p' e' l' r' = true.
Proof.
  intros H. cbn [safe] in H. destruct prog as [|c rest].
  { split; [intros []|]. intros c' S. inversion S; subst; congruence. }
  fold (alts_of c) in H. apply andb_prop in H as [Hc Hl]. split.
  - intros [El Hs]. subst l.
    destruct (filter (fun ak => ready room ev Exited (fst ak)) (alts_of c)) as [|x xs] eqn:F; [|].
    + discriminate Hl.
    + assert (Hin : In x (filter (fun ak => ready room ev Exited (fst ak)) (alts_of c))) by (rewrite F; now left).
      apply filter_In in Hin as [Hin Hr]. destruct x as [a k]. cbn [fst] in Hr. rewrite (Hs a k Hin) in Hr. discriminate.
  - intros c' S. inversion S; subst.
    + rewrite forallb_forall in Hc. apply (Hc (a, k)). apply filter_In. split; assumption.
    + apply andb_prop in Hl as [Hl _]. exact Hl.
    + apply andb_prop in Hl as [_ Hl]. exact Hl.
Qed.

Theorem safe_sound : forall n prog ev l room,
  safe n prog ev l room = true -> forall c', reach (prog, ev, l, room) c' -> ~ stuck c'.
Proof.
  induction n as [|f IH]; intros prog ev l room H c' R; [discriminate|].
  inversion R as [|c0 c1 c2 S R']; subst.
  - apply (safe_step f prog ev l room H).
  - destruct (safe_step f prog ev l room H) as [_ Hs]. specialize (Hs c1 S).
    destruct c1 as [[[p1 e1] l1] r1]. cbn in Hs. eapply IH; eauto.
Qed.

Theorem call_safe_sound prog :
  call_safe prog = true ->
  forall l room c', reach (prog, NotSent, l, room) c' -> ~ stuck c'.
Proof.
  unfold call_safe. intros H l room c' R.
  apply andb_prop in H as [H H4]. apply andb_prop in H as [H H3]. apply andb_prop in H as [H1 H2].
  destruct l, room.
  - exact (safe_sound _ _ _ _ _ H1 c' R).
  - exact (safe_sound _ _ _ _ _ H2 c' R).
  - exact (safe_sound _ _ _ _ _ H3 c' R).
  - exact (safe_sound _ _ _ _ _ H4 c' R).
Qed.
