(* Proof/TorWriteRT.v — reading back the .torrent file storrent writes for a torrent gives the same
   info dictionary (hence the same info-hash), creation date, trackers and web seeds. *)
From Coq Require Import ZifyBool ZifyN ZifyNat String.
From Storrent Require Import Base.Bytes Base.Bencode Gen.Consts Model.Wire Model.WireSpec Model.Torfile
  Proof.Bencode Proof.BencodeRT Proof.TorSlice Proof.WireExt.
From Storrent Require Import Model.TorWrite Proof.BencodeLocal.
Open Scope N_scope.

Ltac Zify.zify_post_hook ::= Z.div_mod_to_equations.

(* ---------- signed decimals ---------- *)
Lemma dec_z_all z : (- 2 ^ 63 <= z < 2 ^ 63)%Z ->
  parse_int 64 (dec_z z) = Some z /\ ~ In ch_e (dec_z z).
Proof.
  intros Hz. unfold dec_z. destruct (z <? 0)%Z eqn:E.
  - set (n := Z.to_N (- z)). assert (Hn : n < dec_max) by (unfold dec_max; change (10 ^ 41) with 100000000000000000000000000000000000000000; lia).
    destruct (dec_spec n Hn) as (_ & D & _). split.
    + unfold parse_int. rewrite N.eqb_refl, (parse_udec_dec n Hn). change (Z.of_N 64 - 1)%Z with 63%Z.
      replace (Z.of_N n <=? 2 ^ 63)%Z with true by lia. f_equal. lia.
    + intros [H|H]; [discriminate H|]. unfold all_digits in D. rewrite Forall_forall in D. specialize (D _ H). discriminate D.
  - set (n := Z.to_N z). assert (Hn : n < dec_max) by (unfold dec_max; change (10 ^ 41) with 100000000000000000000000000000000000000000; lia).
    destruct (dec_spec n Hn) as (_ & D & _). destruct (dec_head n Hn) as (c & r & Ec & Dc). split.
    + unfold parse_int. rewrite Ec. unfold is_digit in Dc.
      replace (c =? ch_minus) with false by (unfold ch_minus; lia). replace (c =? ch_plus) with false by (unfold ch_plus; lia).
      rewrite <- Ec, (parse_udec_dec n Hn). change (Z.of_N 64 - 1)%Z with 63%Z.
      replace (Z.of_N n <? 2 ^ 63)%Z with true by lia. f_equal. lia.
    + intros H. unfold all_digits in D. rewrite Forall_forall in D. specialize (D _ H). discriminate D.
Qed.

Lemma good_int_z f z : (- 2 ^ 63 <= z < 2 ^ 63)%Z -> good (S f) (benc_int_z z) (BInt (dec_z z)) 0.
Proof.
  intros Hz rest. destruct (dec_z_all z Hz) as [_ Hn]. unfold benc_int_z. cbn [app bparse]. rewrite N.eqb_refl, <- app_assoc. cbn [app].
  now rewrite (split_at_first ch_e _ _ Hn).
Qed.

(* ---------- lists ---------- *)
Lemma good_head f enc v k : good f enc v k -> exists c t, enc = c :: t /\ c <> ch_e.
Proof.
  intros G. specialize (G []). rewrite app_nil_r in G. destruct f as [|f]; [discriminate|]. destruct enc as [|c t]; [discriminate|].
  exists c, t. split; [reflexivity|]. intros ->. cbn [bparse] in G. discriminate.
Qed.

Record item := mk_item { it_enc : bytes; it_val : bval; it_cost : N }.
Definition good_item (f : nat) (i : item) : Prop := good f (it_enc i) (it_val i) (it_cost i).
Definition icost (its : list item) (k0 : N) : N := fold_left (fun k i => k + it_cost i) its k0.

Lemma list_loop_good f : forall its g acc k0 rest, Forall (good_item f) its -> (length its < g)%nat ->
  list_loop (bparse f) g (concat (map it_enc its) ++ ch_e :: rest) acc k0 =
  BOk (BList (rev acc ++ map it_val its)) rest (icost its k0).
Proof.
  induction its as [|i r IH]; intros g acc k0 rest His Hg.
  - destruct g as [|g]; [cbn in Hg; lia|]. cbn [map concat app list_loop icost fold_left]. rewrite N.eqb_refl, app_nil_r. reflexivity.
  - inversion His as [|? ? Hi Hr]; subst. destruct g as [|g]; [cbn in Hg; lia|].
    cbn [map concat]. rewrite <- app_assoc. destruct (good_head _ _ _ _ Hi) as (c & t & E & Hc).
    pose proof (Hi (concat (map it_enc r) ++ ch_e :: rest)) as P. rewrite E in *. cbn [app] in *. cbn [list_loop].
    replace (c =? ch_e) with false by (symmetry; now apply N.eqb_neq). rewrite P.
    rewrite IH by (auto; cbn [length] in Hg; lia). cbn [rev icost fold_left map]. rewrite <- app_assoc. reflexivity.
Qed.

Lemma good_list f its : Forall (good_item f) its -> (length its < f)%nat ->
  good (S f) (benc_list (map it_enc its)) (BList (map it_val its)) (icost its 0).
Proof.
  intros His Hf rest. unfold benc_list. cbn [app bparse]. change (ch_l =? ch_i) with false. change (is_digit ch_l) with false.
  rewrite N.eqb_refl. cbv iota. rewrite <- app_assoc. cbn [app]. now rewrite (list_loop_good f its f [] 0 rest His Hf).
Qed.

(* a value that is read back with the fuel its own length provides (as the raw-capturing reader of
   the top-level dictionary does) *)
Definition selfgood (enc : bytes) (v : bval) (k : N) : Prop := good (S (length enc)) enc v k.

Lemma selfgood_at enc v k tail : selfgood enc v k -> bparse (S (length (enc ++ tail))) (enc ++ tail) = BOk v tail k.
Proof. intros G. eapply bparse_mono; [|apply G]. rewrite app_length. lia. Qed.

Lemma selfgood_of_good enc v k : (forall f, good (S f) enc v k) -> selfgood enc v k.
Proof. intros H. apply H. Qed.

Lemma item_length_pos f i : good_item f i -> (1 <= length (it_enc i))%nat.
Proof. intros G. destruct (good_head _ _ _ _ G) as (c & t & -> & _). cbn. lia. Qed.

Lemma concat_length_ge (its : list item) : (forall i, In i its -> (1 <= length (it_enc i))%nat) -> (length its <= length (concat (map it_enc its)))%nat.
Proof.
  induction its as [|i r IH]; intros H; [cbn; lia|]. cbn [map concat length]. rewrite app_length.
  pose proof (H i (or_introl eq_refl)). specialize (IH (fun j Hj => H j (or_intror Hj))). lia.
Qed.

Lemma item_le_concat (its : list item) i : In i its -> (length (it_enc i) <= length (concat (map it_enc its)))%nat.
Proof.
  induction its as [|j r IH]; intros H; [destruct H|]. cbn [map concat]. rewrite app_length. destruct H as [->|H]; [lia|]. specialize (IH H). lia.
Qed.

(* a list of self-good items its self-good *)
Lemma selfgood_list its : Forall (fun i => selfgood (it_enc i) (it_val i) (it_cost i)) its ->
  selfgood (benc_list (map it_enc its)) (BList (map it_val its)) (icost its 0).
Proof.
  intros H. unfold selfgood.
  assert (Hlen : length (benc_list (map it_enc its)) = S (S (length (concat (map it_enc its)))))
    by (unfold benc_list; cbn [length]; rewrite app_length; cbn [length]; lia).
  assert (H1 : forall i, In i its -> (1 <= length (it_enc i))%nat).
  { intros i Hi. rewrite Forall_forall in H. eapply item_length_pos. exact (H i Hi). }
  rewrite Hlen. set (n := S (length (concat (map it_enc its)))).
  apply good_list.
  - rewrite Forall_forall in *. intros i Hi. unfold good_item. eapply good_mono; [|exact (H i Hi)].
    pose proof (item_le_concat its i Hi). subst n. lia.
  - pose proof (concat_length_ge its H1). subst n. lia.
Qed.

(* ---------- the raw-capturing reader of the top-level dictionary ---------- *)
Definition te_ok (e : entry) : Prop := len (en_key e) < 2147483648 /\ selfgood (en_enc e) (en_val e) (en_cost e).
Definition etriple (e : entry) : bytes * bval * bytes := (en_key e, en_val e, en_enc e).

Lemma raw_entries_good : forall es g acc rest, Forall te_ok es -> (length es < g)%nat ->
  raw_entries g (benc_dict (map ekv es) ++ ch_e :: rest) acc = Some (rev acc ++ map etriple es, rest).
Proof.
  induction es as [|e r IH]; intros g acc rest Hes Hg.
  - destruct g as [|g]; [cbn in Hg; lia|]. cbn [map benc_dict app raw_entries]. rewrite N.eqb_refl, app_nil_r. reflexivity.
  - inversion Hes as [|? ? [Hk Hv] Hr]; subst. destruct g as [|g]; [cbn in Hg; lia|].
    cbn [map]. unfold ekv at 1. cbn [benc_dict]. rewrite <- !app_assoc.
    destruct (benc_str_head _ Hk) as (c & t & E & Dc).
    assert (P := parse_bstr_benc (en_key e) (en_enc e ++ benc_dict (map ekv r) ++ ch_e :: rest) Hk).
    rewrite E in *. cbn [app] in *. cbn [raw_entries]. unfold is_digit in Dc.
    replace (c =? ch_e) with false by (unfold ch_e; lia). rewrite P.
    rewrite (selfgood_at _ _ _ (benc_dict (map ekv r) ++ ch_e :: rest) Hv).
    rewrite app_length, Nat.add_sub, firstn_app, Nat.sub_diag, firstn_all. cbn [firstn]. rewrite app_nil_r.
    rewrite IH by (auto; cbn [length] in Hg; lia). cbn [rev map]. rewrite <- app_assoc. reflexivity.
Qed.

Lemma top_entries_good es : Forall te_ok es -> top_entries (benc_d (map ekv es)) = Some (map etriple es).
Proof.
  intros H. unfold top_entries, benc_d. rewrite N.eqb_refl.
  rewrite (raw_entries_good es _ [] [] H); [reflexivity|].
  rewrite app_length. cbn [length]. pose proof (benc_dict_length (map ekv es)) as L. rewrite map_length in L. lia.
Qed.

(* ---------- strings and lists of strings ---------- *)
Definition sitem (s : bytes) : item := mk_item (benc_str s) (BStr s) (len s).
Lemma sitem_good s : len s < 2147483648 -> selfgood (it_enc (sitem s)) (it_val (sitem s)) (it_cost (sitem s)).
Proof. intros H. apply selfgood_of_good. intros f. now apply good_str. Qed.
Definition short (s : bytes) : Prop := len s < 2147483648.

Definition litem (l : list bytes) : item := mk_item (benc_strs l) (BList (map BStr l)) (icost (map sitem l) 0).
Lemma benc_strs_items l : benc_strs l = benc_list (map it_enc (map sitem l)).
Proof. unfold benc_strs. now rewrite map_map. Qed.
Lemma vals_sitems l : map it_val (map sitem l) = map BStr l.
Proof. now rewrite map_map. Qed.
Lemma litem_good l : Forall short l -> selfgood (it_enc (litem l)) (it_val (litem l)) (it_cost (litem l)).
Proof.
  intros H. unfold litem. cbn [it_enc it_val it_cost]. rewrite benc_strs_items, <- vals_sitems. apply selfgood_list.
  apply Forall_forall. intros i Hi. apply in_map_iff in Hi as [s [<- Hs]]. apply sitem_good. rewrite Forall_forall in H. now apply H.
Qed.

Lemma all_str_strs l : all_str (map BStr l) = Some l.
Proof. induction l as [|s r IH]; [reflexivity|]. cbn [map all_str as_str]. now rewrite IH. Qed.
Lemma all_strlist_lists ll : all_strlist (map it_val (map litem ll)) = Some ll.
Proof.
  induction ll as [|l r IH]; [reflexivity|]. cbn [map all_strlist]. unfold litem at 1. cbn [it_val as_strlist]. now rewrite all_str_strs, IH.
Qed.

(* ---------- the entries WriteTorrent writes ---------- *)
Definition tr_a (tr : list (list bytes)) : bytes := match tr with (x :: _) :: _ => x | _ => [] end.
Definition tr_al (tr : list (list bytes)) : list (list bytes) := match tr with [[_]] => [] | _ => tr end.

Definition e_ann (a : bytes) : entry := mk_entry (ascii_bytes "announce") (benc_str a) (BStr a) (len a).
Definition e_al (al : list (list bytes)) : entry :=
  mk_entry (ascii_bytes "announce-list") (benc_list (map it_enc (map litem al))) (BList (map it_val (map litem al))) (icost (map litem al) 0).
Definition e_cd (cd : Z) : entry := mk_entry (ascii_bytes "creation date") (benc_int_z cd) (BInt (dec_z cd)) 0.
Definition e_strs (k : string) (l : list bytes) : entry := mk_entry (ascii_bytes k) (it_enc (litem l)) (it_val (litem l)) (it_cost (litem l)).
Definition e_info (raw : bytes) (v : bval) (k : N) : entry := mk_entry (ascii_bytes "info") raw v k.

Definition write_entries (raw : bytes) (v : bval) (k : N) (cd : Z) (tr : list (list bytes)) (ul hs : list bytes) : list entry :=
  oent (nonempty (tr_a tr)) (e_ann (tr_a tr)) ++
  oent (nonempty (tr_al tr)) (e_al (tr_al tr)) ++
  oent (negb (cd =? 0)%Z) (e_cd cd) ++
  oent (nonempty hs) (e_strs "httpseeds" hs) ++
  oent true (e_info raw v k) ++
  oent (nonempty ul) (e_strs "url-list" ul).

Lemma write_kvs raw v k cd tr ul hs :
  write_torrent raw cd tr ul hs = benc_d (map ekv (write_entries raw v k cd tr ul hs)).
Proof.
  transitivity (benc_d (ent (nonempty (tr_a tr)) "announce" (benc_str (tr_a tr)) ++
          ent (nonempty (tr_al tr)) "announce-list" (benc_list (map benc_strs (tr_al tr))) ++
          ent (negb (cd =? 0)%Z) "creation date" (benc_int_z cd) ++
          ent (nonempty hs) "httpseeds" (benc_strs hs) ++
          ent true "info" raw ++
          ent (nonempty ul) "url-list" (benc_strs ul))); [reflexivity|].
  unfold write_entries. f_equal. rewrite !map_app.
  repeat match goal with |- _ ++ _ = _ ++ _ => apply f_equal2 end.
  - destruct (nonempty (tr_a tr)); reflexivity.
  - destruct (nonempty (tr_al tr)); [|reflexivity]. cbn [ent oent map ekv e_al en_key en_enc]. unfold ekv. cbn [en_key en_enc e_al].
    rewrite map_map. reflexivity.
  - destruct (negb _); reflexivity.
  - destruct (nonempty hs); reflexivity.
  - reflexivity.
  - destruct (nonempty ul); reflexivity.
Qed.

Definition urls_ok (l : list bytes) : Prop := Forall (fun u => http_url u = true /\ short u) l.
Definition tiers_ok (tr : list (list bytes)) : Prop := Forall (Forall (fun u => url_ok u = true /\ short u)) tr.

Lemma tr_a_ok tr : tiers_ok tr -> short (tr_a tr) /\ (tr_a tr <> [] -> url_ok (tr_a tr) = true).
Proof.
  unfold tr_a. intros H. destruct tr as [|[|x t] r]; try (split; [unfold short; cbn; lia|congruence]).
  inversion H as [|? ? H1 _]; subst. inversion H1 as [|? ? [Hu Hs] _]; subst. auto.
Qed.
Lemma tr_al_ok tr : tiers_ok tr -> tiers_ok (tr_al tr).
Proof. unfold tr_al. intros H. destruct tr as [|[|x [|y t]] [|t2 r]]; auto; constructor. Qed.

Lemma selfgood_tiers al : tiers_ok al ->
  selfgood (benc_list (map it_enc (map litem al))) (BList (map it_val (map litem al))) (icost (map litem al) 0).
Proof.
  intros H. apply selfgood_list. apply Forall_forall. intros i Hi. apply in_map_iff in Hi as [l [<- Hl]]. apply litem_good.
  unfold tiers_ok in H. rewrite Forall_forall in H. eapply Forall_impl; [|exact (H l Hl)]. intros u [_ Hs]. exact Hs.
Qed.

Lemma write_entries_ok raw v k cd tr ul hs :
  selfgood raw v k -> (- 2 ^ 63 <= cd < 2 ^ 63)%Z -> tiers_ok tr -> urls_ok ul -> urls_ok hs ->
  Forall te_ok (write_entries raw v k cd tr ul hs).
Proof.
  intros Hraw Hcd Htr Hul Hhs. unfold write_entries.
  assert (Hshort : forall l, urls_ok l -> Forall short l) by (intros l H; eapply Forall_impl; [|exact H]; intros u [_ Hs]; exact Hs).
  assert (O : forall b e, te_ok e -> Forall te_ok (oent b e)) by (intros b e H; destruct b; cbn [oent]; auto).
  repeat (apply Forall_app; split); apply O.
  - split; [key_ok|]. cbn [e_ann en_enc en_val en_cost]. apply (sitem_good (tr_a tr)). apply (tr_a_ok tr Htr).
  - split; [key_ok|]. cbn [e_al en_enc en_val en_cost]. apply selfgood_tiers. now apply tr_al_ok.
  - split; [key_ok|]. cbn [e_cd en_enc en_val en_cost]. apply selfgood_of_good. intros f. now apply good_int_z.
  - split; [key_ok|]. cbn [e_strs en_enc en_val en_cost]. apply litem_good. now apply Hshort.
  - split; [key_ok|]. exact Hraw.
  - split; [key_ok|]. cbn [e_strs en_enc en_val en_cost]. apply litem_good. now apply Hshort.
Qed.

(* ---------- decoding what was written ---------- *)
Section Read.
  Variables (raw : bytes) (v : bval) (k : N) (cd : Z) (tr : list (list bytes)) (ul hs : list bytes).
  Hypothesis Hcd : (- 2 ^ 63 <= cd < 2 ^ 63)%Z.

  Definition b_upto (i : nat) : btor :=
    {| b_announce := if (1 <=? i)%nat then tr_a tr else [];
       b_alist := if (2 <=? i)%nat then tr_al tr else [];
       b_cdate := if (3 <=? i)%nat then cd else 0%Z;
       b_httpseeds := if (4 <=? i)%nat then hs else [];
       b_info := if (5 <=? i)%nat then Some raw else None;
       b_urllist := if (6 <=? i)%nat then ul else [] |}.

  Notation bstep i l := (fold_opt btor_field (b_upto i) (map etriple l) = Some (b_upto (S i))).
  Ltac bstep_tac := unfold b_upto; cbn [Nat.leb oent map fold_opt]; unfold etriple, e_ann, e_al, e_cd, e_strs, e_info;
                    cbn [en_key en_val en_enc]; unfold btor_field; eval_keys.

  Lemma bstep1 : bstep 0 (oent (nonempty (tr_a tr)) (e_ann (tr_a tr))).
  Proof. destruct (tr_a tr) eqn:E; cbn [nonempty]; bstep_tac; now rewrite ?E. Qed.
  Lemma bstep2 : bstep 1 (oent (nonempty (tr_al tr)) (e_al (tr_al tr))).
  Proof.
    destruct (tr_al tr) as [|l r] eqn:E; cbn [nonempty]; [bstep_tac; now rewrite ?E|].
    remember (l :: r) as L. bstep_tac. rewrite all_strlist_lists, E. subst L. reflexivity.
  Qed.
  Lemma bstep3 : bstep 2 (oent (negb (cd =? 0)%Z) (e_cd cd)).
  Proof.
    destruct (cd =? 0)%Z eqn:E; cbn [negb]; bstep_tac; [apply Z.eqb_eq in E; now rewrite E|].
    cbn [as_int64]. now rewrite (proj1 (dec_z_all cd Hcd)).
  Qed.
  Lemma bstep4 : bstep 3 (oent (nonempty hs) (e_strs "httpseeds" hs)).
  Proof.
    destruct hs as [|h r] eqn:E; cbn [nonempty]; [bstep_tac; now rewrite E|].
    remember (h :: r) as L. bstep_tac. unfold litem. cbn [it_val as_list_or_string]. rewrite all_str_strs, E. subst L. reflexivity.
  Qed.
  Lemma bstep5 : bstep 4 (oent true (e_info raw v k)).
  Proof. bstep_tac. reflexivity. Qed.
  Lemma bstep6 : bstep 5 (oent (nonempty ul) (e_strs "url-list" ul)).
  Proof.
    destruct ul as [|h r] eqn:E; cbn [nonempty]; [bstep_tac; now rewrite E|].
    remember (h :: r) as L. bstep_tac. unfold litem. cbn [it_val as_list_or_string]. rewrite all_str_strs, E. subst L. reflexivity.
  Qed.

  Lemma fold_written : fold_opt btor_field btor_zero (map etriple (write_entries raw v k cd tr ul hs)) = Some (b_upto 6).
  Proof.
    unfold write_entries. change btor_zero with (b_upto 0). rewrite !map_app.
    rewrite (fold_chain _ _ _ _ _ bstep1), (fold_chain _ _ _ _ _ bstep2), (fold_chain _ _ _ _ _ bstep3),
            (fold_chain _ _ _ _ _ bstep4), (fold_chain _ _ _ _ _ bstep5).
    exact bstep6.
  Qed.
End Read.

(* nesting of what is written *)
Lemma fold_max_le {A} (f : A -> N) d l : Forall (fun x => f x <= d) l -> fold_right (fun x m => N.max (f x) m) 0 l <= d.
Proof. induction 1 as [|x r Hx _ IH]; cbn [fold_right]; lia. Qed.
Lemma entries_depth_le es d : Forall (fun e => vdepth (en_val e) <= d) es -> entries_depth (map etriple es) <= 1 + d.
Proof.
  intros H. unfold entries_depth. assert (G : fold_right (fun e m => N.max (vdepth (snd (fst e))) m) 0 (map etriple es) <= d); [|lia].
  induction H as [|e r He _ IH]; cbn [map fold_right]; [lia|]. unfold etriple at 1. cbn [fst snd]. lia.
Qed.
Lemma vdepth_strs l : vdepth (BList (map BStr l)) <= 1.
Proof. cbn [vdepth]. assert (fold_right (fun x m => N.max (vdepth x) m) 0 (map BStr l) <= 0); [|lia]. apply fold_max_le. apply Forall_forall. intros x Hx. apply in_map_iff in Hx as [s [<- _]]. cbn. lia. Qed.
Lemma vdepth_tiers al : vdepth (BList (map it_val (map litem al))) <= 2.
Proof.
  cbn [vdepth]. assert (fold_right (fun x m => N.max (vdepth x) m) 0 (map it_val (map litem al)) <= 1); [|lia].
  apply fold_max_le. apply Forall_forall. intros x Hx. apply in_map_iff in Hx as [i [<- Hi]]. apply in_map_iff in Hi as [l [<- _]].
  unfold litem. cbn [it_val]. apply vdepth_strs.
Qed.
Lemma write_entries_depth raw v k cd tr ul hs : vdepth v < 64 ->
  entries_depth (map etriple (write_entries raw v k cd tr ul hs)) <= max_bencode_depth.
Proof.
  intros Hv. eapply N.le_trans; [apply (entries_depth_le _ 63)|unfold max_bencode_depth; lia].
  assert (O : forall b e, vdepth (en_val e) <= 63 -> Forall (fun e => vdepth (en_val e) <= 63) (oent b e)) by (intros b e H; destruct b; cbn [oent]; auto).
  unfold write_entries. repeat (apply Forall_app; split); apply O.
  - cbn. lia.
  - cbn [e_al en_val]. pose proof (vdepth_tiers (tr_al tr)). lia.
  - cbn. lia.
  - unfold e_strs, litem. cbn [en_val it_val]. pose proof (vdepth_strs hs). lia.
  - cbn [e_info en_val]. lia.
  - unfold e_strs, litem. cbn [en_val it_val]. pose proof (vdepth_strs ul). lia.
Qed.

Lemma url_ok_nonempty u : url_ok u = true -> u <> [].
Proof. intros H ->. unfold url_ok in H. cbn in H. discriminate. Qed.

Lemma filter_all_true {A} (p : A -> bool) l : Forall (fun x => p x = true) l -> filter p l = l.
Proof. induction 1 as [|x r Hx _ IH]; [reflexivity|]. cbn [filter]. now rewrite Hx, IH. Qed.

Lemma trackers_rt tr : tiers_ok tr ->
  trackers_of {| b_info := None; b_cdate := 0; b_announce := tr_a tr; b_alist := tr_al tr; b_urllist := []; b_httpseeds := [] |} = tr.
Proof.
  intros H. unfold trackers_of. cbn [b_alist b_announce].
  assert (Hmap : map (filter url_ok) tr = tr).
  { induction H as [|t r Ht _ IH]; [reflexivity|]. cbn [map]. rewrite IH. f_equal. apply filter_all_true.
    eapply Forall_impl; [|exact Ht]. intros u [Hu _]. exact Hu. }
  destruct tr as [|[|x [|y t]] [|t2 r]]; cbn [tr_a tr_al]; try exact Hmap; try reflexivity.
  (* a single tier with a single URL: written as "announce" only *)
  inversion H as [|? ? H1 _]; subst. inversion H1 as [|? ? [Hu _] _]; subst.
  pose proof (url_ok_nonempty x Hu). destruct x as [|c x']; [congruence|]. now rewrite Hu.
Qed.

Lemma trackers_of_ext b1 b2 : b_alist b1 = b_alist b2 -> b_announce b1 = b_announce b2 -> trackers_of b1 = trackers_of b2.
Proof. unfold trackers_of. now intros -> ->. Qed.

(* Reading back the file storrent serves for a torrent: the same info dictionary byte for byte
   (hence the same info-hash), the same creation date, the same tracker tiers and the same web
   seeds, whatever they are — provided the info dictionary is one bencoded value, nesting
   less than 64 levels, that MetadataComplete accepts (it is: the torrent was accepted), the URLs are ones the reader
   accepts and every string is shorter than 2 GiB. *)
Theorem write_read raw v k g cd tr ul hs :
  bdecode raw = BOk v [] k -> vdepth v < 64 -> metadata_complete raw = MOk g ->
  (- 2 ^ 63 <= cd < 2 ^ 63)%Z -> tiers_ok tr -> urls_ok ul -> urls_ok hs ->
  read_torrent (write_torrent raw cd tr ul hs) = ROk raw g cd tr ul hs.
Proof.
  intros Hdec Hdep Hmeta Hcd Htr Hul Hhs.
  assert (Hraw : selfgood raw v k).
  { intros rest. unfold bdecode in Hdec. rewrite <- (app_nil_r raw) in Hdec at 2. exact (bparse_local _ _ _ _ _ Hdec rest). }
  unfold read_torrent, decode_btor. rewrite (write_kvs raw v k), (top_entries_good _ (write_entries_ok raw v k cd tr ul hs Hraw Hcd Htr Hul Hhs)).
  replace (max_bencode_depth <? entries_depth (map etriple (write_entries raw v k cd tr ul hs))) with false
    by (pose proof (write_entries_depth raw v k cd tr ul hs Hdep); lia).
  rewrite (fold_written raw v k cd tr ul hs Hcd). cbn [b_upto Nat.leb b_info b_cdate b_urllist b_httpseeds]. rewrite Hmeta.
  f_equal.
  - rewrite <- (trackers_rt tr Htr) at 2. apply trackers_of_ext; reflexivity.
  - apply filter_all_true. eapply Forall_impl; [|exact Hul]. intros u [Hu _]. exact Hu.
  - apply filter_all_true. eapply Forall_impl; [|exact Hhs]. intros u [Hu _]. exact Hu.
Qed.
