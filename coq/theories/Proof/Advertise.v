(* Proof/Advertise.v — the initial advertisement of peer.Run is conformant and says exactly what we
   have: a Bitfield of exactly ceil(n/8) bytes with no spare bit, Haves in range, HaveAll only when
   we have everything, fast-extension messages only to peers that support them. *)
From Coq Require Import ZifyBool ZifyN ZifyNat Sorted.
From Storrent Require Import Base.Bytes Base.Bencode Gen.Consts Model.Wire Model.PeerCore Proof.PeerCore Proof.Avail Proof.BmCodec.
Open Scope N_scope.

Lemma fold_insN_sorted l : forall acc, sortedN acc -> sortedN (fold_left (fun a i => insN i a) l acc).
Proof. induction l as [|x r IH]; intros acc S; cbn [fold_left]; [exact S|]. apply IH. now apply insN_sorted. Qed.
Lemma fold_insN_in l : forall acc x, In x (fold_left (fun a i => insN i a) l acc) <-> In x l \/ In x acc.
Proof.
  induction l as [|y r IH]; intros acc x; cbn [fold_left]; [cbn; tauto|]. rewrite IH, In_insN. cbn [In]. intuition.
Qed.
Lemma fold_insN_id l : sortedN l -> fold_left (fun a i => insN i a) l [] = l.
Proof.
  intros S. apply sorted_ext; [apply fold_insN_sorted; constructor|exact S|]. intros x. rewrite fold_insN_in. cbn [In]. tauto.
Qed.

Lemma adv_set_haves n l : forall acc, (forall i, In i l -> i < n) ->
  adv_set n (map Have l) acc = Some (fold_left (fun a i => insN i a) l acc).
Proof.
  induction l as [|x r IH]; intros acc H; cbn [map adv_set fold_left]; [reflexivity|].
  replace (n <=? x) with false by (specialize (H x (or_introl eq_refl)); lia). apply IH. intros i Hi. apply H. now right.
Qed.

Lemma recursion_all b n : N.recursion true (fun i acc => acc && bm_get b i) n = true -> forall i, i < n -> bm_get b i = true.
Proof.
  induction n as [|n IH] using N.peano_ind; intros H i Hi; [lia|].
  rewrite N.recursion_succ in H by (try reflexivity; intros ? ? -> ? ? ->; reflexivity).
  apply andb_true_iff in H as [H1 H2]. destruct (N.eq_dec i n) as [->|Hne]; [exact H2|]. apply IH; [exact H1|lia].
Qed.

Lemma seq_sorted : forall k a, sortedN (map N.of_nat (seq a k)).
Proof.
  induction k as [|k IH]; intros a; cbn [seq map]; [constructor|]. constructor; [apply IH|].
  apply Forall_forall. intros x Hx. apply in_map_iff in Hx as [y [<- Hy]]. apply in_seq in Hy. lia.
Qed.

Theorem adv_conformant g can_fast my :
  let n := num_pieces g in
  wf_bm my -> (forall i, In i (bits my) -> i < n) -> blen my <= (n + 7) / 8 -> 0 < n ->
  adv_set n (initial_adv (Some g) can_fast my) [] = Some (bits my) /\
  Forall (fun m => match m with HaveAll | HaveNone => can_fast = true | _ => True end) (initial_adv (Some g) can_fast my).
Proof.
  cbn zeta. intros W Hr Hb Hn. pose proof W as [S R]. unfold initial_adv.
  destruct (bm_empty my) eqn:E.
  { unfold bm_empty in E. destruct (bits my) eqn:Eb; [|discriminate]. destruct can_fast; cbn [adv_set]; split; repeat constructor. }
  destruct (can_fast && bm_all my (num_pieces g)) eqn:Sd.
  { apply andb_true_iff in Sd as [-> A]. cbn [adv_set]. split; [|repeat constructor]. f_equal.
    unfold bm_all in A. replace (num_pieces g =? 0) with false in A by lia. apply andb_true_iff in A as [A _].
    apply sorted_ext; [apply seq_sorted|exact S|]. intros x. rewrite in_map_iff. split.
    - intros [y [<- Hy]]. apply in_seq in Hy. pose proof (recursion_all my _ A (N.of_nat y) ltac:(lia)) as G.
      unfold bm_get in G. apply andb_true_iff in G as [_ G]. now apply memN_In'.
    - intros Hx. exists (N.to_nat x). split; [lia|]. apply in_seq. specialize (Hr x Hx). lia. }
  destruct (bm_count my <? num_pieces g / 72).
  { destruct can_fast; cbn [app adv_set]; (split; [rewrite (adv_set_haves _ _ _ Hr), (fold_insN_id _ S); reflexivity|]).
    - constructor; [reflexivity|]. apply Forall_forall. intros m Hm. apply in_map_iff in Hm as [i [<- _]]. exact I.
    - apply Forall_forall. intros m Hm. apply in_map_iff in Hm as [i [<- _]]. exact I. }
  destruct (wf_extend my (num_pieces g - 1) W) as [We Ge].
  assert (Eb : bits (bm_extend my (num_pieces g - 1)) = bits my) by (unfold bm_extend; destruct (_ <=? _); reflexivity).
  assert (El : blen (bm_extend my (num_pieces g - 1)) = (num_pieces g + 7) / 8).
  { unfold bm_extend. destruct (blen my <=? (num_pieces g - 1) / 8) eqn:L; cbn [blen]; lia. }
  cbn [adv_set]. rewrite bm_to_bytes_len, El, N.eqb_refl. cbn [negb]. rewrite (bm_codec _ We), Eb.
  replace (existsb (fun i => num_pieces g <=? i) (bits my)) with false.
  - split; [reflexivity|repeat constructor].
  - symmetry. apply not_true_is_false. intros X. apply existsb_exists in X as [i [Hi Hx]]. specialize (Hr i Hi). lia.
Qed.
