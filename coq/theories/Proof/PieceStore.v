(* Proof/PieceStore.v — invariants of the piece store over every interleaving (= every sequence of
   actions): a readable piece is one whose digest matched; the memory accounted is exactly that of
   the buffers held; no buffer is released while it is being hashed; after deletion nothing is
   ever allocated again. *)
From Coq Require Import ZifyBool ZifyN ZifyNat.
From Storrent Require Import Base.Bytes Model.PieceStore.
Open Scope N_scope.

Section Proofs.
Variable H : list (option N) -> N.
Variable expected : nat -> N.
Variable nblocks : nat -> nat.
Variable plen : nat -> N.

Notation step := (step H expected nblocks plen).
Notation step_inner := (step_inner H expected nblocks plen).
Notation free := (free plen).

(* ---------- accounting ---------- *)

Definition holds (p : pc) : bool := match pc_buf p with Some _ => true | None => false end.

Fixpoint acct (k : nat) (l : list pc) : N * N :=
  match l with
  | [] => (0, 0)
  | p :: r => let (c, b) := acct (S k) r in if holds p then (c + 1, b + plen k) else (c, b)
  end.

Definition piece_ok (i : nat) (p : pc) : Prop :=
  match pc_state p with
  | Complete => exists l, pc_buf p = Some l /\ all_set l = true /\ H l = expected i
  | Busy => exists l, pc_buf p = Some l /\ all_set l = true
  | Incomplete => True
  end.

Definition Inv (s : store) : Prop :=
  (forall i, (i < length (st_pieces s))%nat -> piece_ok i (get s i)) /\
  (st_count s, st_alloc s) = acct 0 (st_pieces s).

Lemma get_setp_same s i p c a : (i < length (st_pieces s))%nat -> get (setp s i p c a) i = p.
Proof.
  intros Hi. unfold get, setp. cbn [st_pieces].
  rewrite app_nth2; rewrite firstn_length_le by lia; [|lia]. now rewrite Nat.sub_diag.
Qed.

Lemma nth_firstn_lt {A} (d : A) : forall n (l : list A) j, (j < n)%nat -> nth j (firstn n l) d = nth j l d.
Proof.
  induction n as [|n IH]; intros [|x l] j Hj; cbn [firstn nth]; try lia; try reflexivity.
  destruct j as [|j]; [reflexivity|]. apply IH. lia.
Qed.
Lemma nth_skipn_add {A} (d : A) : forall n (l : list A) j, nth j (skipn n l) d = nth (n + j) l d.
Proof.
  induction n as [|n IH]; intros [|x l] j; cbn [skipn nth Nat.add]; try reflexivity.
  - now destruct j.
  - apply IH.
Qed.

Lemma get_setp_other s i j p c a : (i < length (st_pieces s))%nat -> j <> i -> get (setp s i p c a) j = get s j.
Proof.
  intros Hi Hne. unfold get, setp. cbn [st_pieces].
  destruct (Nat.lt_ge_cases j i) as [Hlt|Hge].
  - rewrite app_nth1 by (rewrite firstn_length_le; lia). apply nth_firstn_lt. exact Hlt.
  - rewrite app_nth2 by (rewrite firstn_length_le; lia). rewrite firstn_length_le by lia.
    destruct (j - i)%nat as [|d] eqn:E; [lia|]. cbn [nth]. rewrite nth_skipn_add. f_equal. lia.
Qed.

Lemma setp_length s i p c a : (i < length (st_pieces s))%nat -> length (st_pieces (setp s i p c a)) = length (st_pieces s).
Proof.
  intros Hi. unfold setp. cbn [st_pieces]. rewrite app_length, firstn_length_le by lia. cbn [length].
  rewrite skipn_length. lia.
Qed.

(* replacing one piece changes the account by its own contribution only *)
Lemma acct_cons k x l :
  acct k (x :: l) = (fst (acct (S k) l) + (if holds x then 1 else 0), snd (acct (S k) l) + (if holds x then plen k else 0)).
Proof. cbn [acct]. destruct (acct (S k) l) as [c b]. cbn [fst snd]. destruct (holds x); f_equal; lia. Qed.

Lemma acct_upd : forall l k i p,
  (i < length l)%nat ->
  fst (acct k (firstn i l ++ p :: skipn (S i) l)) + (if holds (nth i l empty_pc) then 1 else 0) =
    fst (acct k l) + (if holds p then 1 else 0) /\
  snd (acct k (firstn i l ++ p :: skipn (S i) l)) + (if holds (nth i l empty_pc) then plen (k + i) else 0) =
    snd (acct k l) + (if holds p then plen (k + i) else 0).
Proof.
  induction l as [|x l IH]; intros k i p Hi; [cbn in Hi; lia|].
  destruct i as [|i].
  - cbn [nth firstn skipn app]. rewrite !acct_cons. cbn [fst snd]. replace (k + 0)%nat with k by lia.
    destruct (holds x), (holds p); split; lia.
  - cbn [length] in Hi. specialize (IH (S k) i p ltac:(lia)).
    change (skipn (S (S i)) (x :: l)) with (skipn (S i) l). change (firstn (S i) (x :: l)) with (x :: firstn i l).
    cbn [nth app]. rewrite !acct_cons. cbn [fst snd]. replace (k + S i)%nat with (S k + i)%nat by lia.
    destruct IH as [I1 I2]. destruct (holds x), (holds p), (holds (nth i l empty_pc)); split; lia.
Qed.

(* the account never goes below what one held piece contributes *)
Lemma acct_has : forall l k i, (i < length l)%nat -> holds (nth i l empty_pc) = true ->
  1 <= fst (acct k l) /\ plen (k + i) <= snd (acct k l).
Proof.
  induction l as [|x l IH]; intros k i Hi Hh; [cbn in Hi; lia|].
  destruct i as [|i]; cbn [nth acct] in *.
  - destruct (acct (S k) l) as [c b]. rewrite Hh. cbn [fst snd]. rewrite Nat.add_0_r. lia.
  - cbn [length] in Hi. specialize (IH (S k) i ltac:(lia) Hh). destruct (acct (S k) l) as [c b].
    replace (k + S i)%nat with (S k + i)%nat by lia. cbn [fst snd] in IH. destruct (holds x); cbn [fst snd]; lia.
Qed.

Lemma Inv_setp s i p c a :
  Inv s -> (i < length (st_pieces s))%nat -> piece_ok i p ->
  c + (if holds (get s i) then 1 else 0) = st_count s + (if holds p then 1 else 0) ->
  a + (if holds (get s i) then plen i else 0) = st_alloc s + (if holds p then plen i else 0) ->
  Inv (setp s i p c a).
Proof.
  intros [I1 I2] Hi Hp Hc Ha. split.
  - intros j Hj. rewrite setp_length in Hj by exact Hi. destruct (Nat.eq_dec j i) as [->|Hne].
    + now rewrite get_setp_same.
    + rewrite get_setp_other by assumption. now apply I1.
  - pose proof (acct_upd (st_pieces s) 0 i p Hi) as [U1 U2]. cbn [Nat.add] in U2.
    unfold setp. cbn [st_pieces st_count st_alloc].
    assert (Ec : st_count s = fst (acct 0 (st_pieces s))) by (now rewrite <- I2).
    assert (Eb : st_alloc s = snd (acct 0 (st_pieces s))) by (now rewrite <- I2).
    unfold get in Hc, Ha.
    rewrite (surjective_pairing (acct 0 (firstn i (st_pieces s) ++ p :: skipn (S i) (st_pieces s)))). f_equal; lia.
Qed.

Lemma free_inv s i : Inv s -> (i < length (st_pieces s))%nat -> pc_state (get s i) <> Busy -> Inv (fst (free s i)).
Proof.
  intros HI Hi Hnb. unfold free. destruct (pc_buf (get s i)) as [l|] eqn:E; [|exact HI].
  cbn [fst]. destruct HI as [I1 I2].
  assert (Hh : holds (get s i) = true) by (unfold holds; now rewrite E).
  pose proof (acct_has (st_pieces s) 0 i Hi Hh) as [A1 A2]. rewrite <- I2 in A1, A2. cbn [fst snd Nat.add] in A1, A2.
  apply Inv_setp; [now split|exact Hi|exact I| |]; rewrite Hh; cbn [holds empty_pc pc_buf]; lia.
Qed.

Lemma all_set_put : forall l b data, all_set l = true -> put l b data = l.
Proof.
  induction l as [|x r IH]; intros b data Hs; [reflexivity|].
  cbn [all_set forallb] in Hs. apply andb_prop in Hs as [Hx Hr]. destruct x as [v|]; [|discriminate].
  destruct b as [|b]; cbn [put]; [destruct data; [reflexivity|]|]; f_equal; now apply IH.
Qed.

Theorem step_inv s a : Inv s -> Inv (fst (step s a)).
Proof.
  intros HI. unfold PieceStore.step.
  destruct (index_of a) as [i|] eqn:Ei.
  2:{ destruct a; try discriminate. cbn [step_inner fst]. destruct HI as [I1 I2]. split; [exact I1|exact I2]. }
  destruct (length (st_pieces s) <=? i)%nat eqn:Er; [exact HI|].
  assert (Hi : (i < length (st_pieces s))%nat) by (apply Nat.leb_gt; exact Er).
  pose proof HI as [I1 I2]. pose proof (I1 i Hi) as Pi.
  destruct a as [j b data|j|j|j b|j|j|]; cbn [index_of] in Ei; try discriminate; injection Ei as ->; cbn [step_inner].
  - (* AddData *)
    destruct (pc_state (get s i)) eqn:St; [|exact HI|exact HI].
    destruct (st_deleted s); [exact HI|]. destruct (nblocks i <=? b)%nat; [exact HI|].
    destruct (pc_buf (get s i)) as [l|] eqn:E; cbn [fst].
    + apply Inv_setp; [exact HI|exact Hi|exact I| |]; unfold holds; rewrite E; cbn [pc_buf]; lia.
    + apply Inv_setp; [exact HI|exact Hi|exact I| |]; unfold holds; rewrite E; cbn [pc_buf]; lia.
  - (* Finalise begins *)
    destruct (pc_state (get s i)) eqn:St; [|exact HI|exact HI].
    destruct (pc_buf (get s i)) as [l|] eqn:E; [|destruct (st_deleted s); exact HI].
    destruct (st_deleted s); [exact HI|]. destruct (all_set l) eqn:A; [|exact HI]. cbn [fst].
    apply Inv_setp; [exact HI|exact Hi| | |].
    + unfold piece_ok. cbn [pc_state]. exists l. now split.
    + unfold holds. rewrite E. cbn [pc_buf]. lia.
    + unfold holds. rewrite E. cbn [pc_buf]. lia.
  - (* Finalise ends *)
    destruct (pc_state (get s i)) eqn:St; [exact HI| |exact HI].
    destruct (pc_buf (get s i)) as [l|] eqn:E; [|exact HI].
    unfold piece_ok in Pi. rewrite St in Pi. destruct Pi as (l' & E' & A'). rewrite E in E'. injection E' as <-.
    destruct (H l =? expected i) eqn:Hh; cbn [fst].
    + apply Inv_setp; [exact HI|exact Hi| | |].
      * unfold piece_ok. cbn [pc_state]. exists l. repeat split; [exact A'|now apply N.eqb_eq].
      * unfold holds. rewrite E. cbn [pc_buf]. lia.
      * unfold holds. rewrite E. cbn [pc_buf]. lia.
    + apply free_inv.
      * apply Inv_setp; [exact HI|exact Hi|exact I| |]; unfold holds; rewrite E; cbn [pc_buf]; lia.
      * now rewrite setp_length.
      * rewrite get_setp_same by exact Hi. cbn [pc_state]. discriminate.
  - (* ReadAt *) destruct (pc_state (get s i)); try exact HI. destruct (pc_buf (get s i)); exact HI.
  - (* eviction *)
    destruct (pc_state (get s i)) eqn:St; [|exact HI|]; apply free_inv; auto; rewrite St; discriminate.
  - (* deletion *)
    destruct (pc_state (get s i)) eqn:St; [|exact HI|]; apply free_inv; auto; rewrite St; discriminate.
Qed.

Lemma init_inv n : Inv (init n).
Proof.
  split.
  - intros i Hi. unfold get, init. cbn [st_pieces]. rewrite nth_repeat. exact I.
  - unfold init. cbn [st_pieces st_count st_alloc]. generalize 0%nat. induction n as [|n IH]; intros k; cbn [repeat acct]; [reflexivity|].
    rewrite <- IH. reflexivity.
Qed.

Theorem run_inv n l : Inv (run H expected nblocks plen (init n) l).
Proof.
  unfold run. assert (G : forall s, Inv s -> Inv (fold_left (fun s a => fst (step s a)) l s)).
  { induction l as [|a r IH]; intros s Hs; cbn [fold_left]; [exact Hs|]. apply IH. now apply step_inv. }
  apply G, init_inv.
Qed.

(* ---------- C01: what ReadAt hands out ---------- *)

Theorem read_verified s i b d :
  Inv s -> fst (step s (ARead i b)) = s /\
  (snd (step s (ARead i b)) = RData (Some d) ->
   exists l, pc_buf (get s i) = Some l /\ pc_state (get s i) = Complete /\
             H l = expected i /\ all_set l = true /\ nth b l None = Some d).
Proof.
  intros [I1 _]. unfold PieceStore.step. cbn [index_of].
  destruct (length (st_pieces s) <=? i)%nat eqn:Er; [split; [reflexivity|discriminate]|].
  assert (Hi : (i < length (st_pieces s))%nat) by (apply Nat.leb_gt; exact Er).
  specialize (I1 i Hi). cbn [step_inner]. unfold piece_ok in I1.
  destruct (pc_state (get s i)) eqn:St; [split; [reflexivity|discriminate]|split; [reflexivity|discriminate]|].
  destruct I1 as (l & E & A & Hh). rewrite E. split; [reflexivity|].
  intros [= Hn]. exists l. repeat split; assumption.
Qed.

(* ---------- C03: nothing is released while it is being hashed, nothing is allocated after deletion ---------- *)

Theorem busy_is_kept s i a :
  pc_state (get s i) = Busy -> (i < length (st_pieces s))%nat ->
  a = ADel i \/ a = ADelForce i \/ (exists b d, a = AAdd i b d) \/ a = AFinBegin i ->
  fst (step s a) = s.
Proof.
  intros St Hi Ha. unfold PieceStore.step.
  destruct Ha as [Ha|[Ha|[Ha|Ha]]]; [| |destruct Ha as (b & d & Ha)|]; subst a; cbn [index_of];
    (destruct (length (st_pieces s) <=? i)%nat; [reflexivity|]); cbn [step_inner]; rewrite St; reflexivity.
Qed.

Theorem deleted_stays_empty s a j :
  st_deleted s = true -> (j < length (st_pieces s))%nat -> pc_buf (get s j) = None -> pc_state (get s j) = Incomplete ->
  st_deleted (fst (step s a)) = true /\ pc_buf (get (fst (step s a)) j) = None /\ pc_state (get (fst (step s a)) j) = Incomplete /\
  length (st_pieces (fst (step s a))) = length (st_pieces s).
Proof.
  intros D Hj E St. unfold PieceStore.step.
  destruct (index_of a) as [i|] eqn:Ei.
  2:{ destruct a; try discriminate. cbn [step_inner fst st_deleted st_pieces]. unfold get in *. cbn [st_pieces]. auto. }
  destruct (length (st_pieces s) <=? i)%nat eqn:Er; [cbn [fst]; auto|].
  assert (Hi : (i < length (st_pieces s))%nat) by (apply Nat.leb_gt; exact Er).
  assert (K : forall p c al, (i <> j \/ (pc_buf p = None /\ pc_state p = Incomplete)) ->
              st_deleted (setp s i p c al) = true /\ pc_buf (get (setp s i p c al) j) = None /\
              pc_state (get (setp s i p c al) j) = Incomplete /\ length (st_pieces (setp s i p c al)) = length (st_pieces s)).
  { intros p c al Hc. split; [exact D|]. rewrite setp_length by exact Hi.
    destruct (Nat.eq_dec j i) as [->|Hne].
    - rewrite get_setp_same by exact Hi. destruct Hc as [Hc|[H1 H2]]; [congruence|auto].
    - rewrite get_setp_other by assumption. auto. }
  destruct a as [k b data|k|k|k b|k|k|]; cbn [index_of] in Ei; try discriminate; injection Ei as ->; cbn [step_inner].
  - destruct (pc_state (get s i)); cbn [fst]; auto. rewrite D. cbn [fst]. auto.
  - destruct (pc_state (get s i)); cbn [fst]; auto. destruct (pc_buf (get s i)); rewrite D; cbn [fst]; auto.
  - destruct (pc_state (get s i)) eqn:Si; cbn [fst]; auto. destruct (pc_buf (get s i)) as [l|] eqn:Bi; cbn [fst]; auto.
    assert (Hne : i <> j) by (intros ->; congruence).
    destruct (H l =? expected i); cbn [fst]; [apply K; now left|].
    unfold PieceStore.free. rewrite get_setp_same by exact Hi. cbn [pc_buf fst].
    unfold setp at 1. cbn [st_pieces st_deleted st_count st_alloc].
    match goal with |- context [setp ?s0 i empty_pc ?c ?al] => set (s1 := s0) end.
    assert (L1 : length (st_pieces s1) = length (st_pieces s)) by (unfold s1; now rewrite setp_length).
    split; [exact D|].
    assert (Hi1 : (i < length (st_pieces s1))%nat) by lia.
    rewrite get_setp_other by (auto || lia). rewrite setp_length by exact Hi1.
    unfold s1. rewrite get_setp_other by auto. auto.
  - destruct (pc_state (get s i)); cbn [fst]; auto. destruct (pc_buf (get s i)); cbn [fst]; auto.
  - destruct (pc_state (get s i)); cbn [fst]; auto; unfold PieceStore.free; destruct (pc_buf (get s i)); cbn [fst]; auto; apply K; right; auto.
  - destruct (pc_state (get s i)); cbn [fst]; auto; unfold PieceStore.free; destruct (pc_buf (get s i)); cbn [fst]; auto; apply K; right; auto.
Qed.

(* an eviction reports a piece as complete exactly when it was readable *)
Theorem evict_reports s i c :
  snd (free s i) = RDeleted c -> (c = true <-> pc_state (get s i) = Complete).
Proof.
  unfold PieceStore.free. destruct (pc_buf (get s i)); [|discriminate]. cbn [snd]. intros [= <-].
  destruct (pc_state (get s i)); split; intros; congruence.
Qed.

End Proofs.

(* statement of Properties/C03.v: c03_accounting *)
Lemma accounting_all H expected nblocks plen n l :
  let s := run H expected nblocks plen (init n) l in
  (st_count s, st_alloc s) = acct plen 0 (st_pieces s).
Proof. exact (proj2 (run_inv H expected nblocks plen n l)). Qed.
