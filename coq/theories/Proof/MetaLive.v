(* Proof/MetaLive.v — liveness of the metadata exchange: from a buffer of the right size that
   holds only authentic blocks, delivering an authentic block for every index — in any order,
   with duplicates, interleaved with periodic requests — makes the torrent usable.  The full
   statement (from ANY reachable buffer) is refuted: a forged block holds its index. *)
From Coq Require Import ZifyBool ZifyN ZifyNat.
From Storrent Require Import Base.Bytes Base.Bencode Gen.Consts Model.Wire Model.Torfile Model.Metadata Proof.Metadata.
Open Scope N_scope.

Definition B : nat := N.to_nat mblock.
Lemma B_pos : (0 < B)%nat. Proof. unfold B, mblock. lia. Qed.

Lemma skipn_add {A} a : forall b (l : list A), skipn a (skipn b l) = skipn (b + a) l.
Proof. intros b. induction b as [|b IH]; intros l; [reflexivity|]. destruct l; [now rewrite !skipn_nil|]. cbn [skipn Nat.add]. apply IH. Qed.
(* block j of the authentic dictionary *)
Definition slice (info : bytes) (j : nat) : bytes := firstn B (skipn (j * B) info).

Lemma slices_concat : forall k info, (length info <= k * B)%nat -> flat_map (slice info) (seq 0 k) = info.
Proof.
  induction k as [|k IH]; intros info Hl.
  - destruct info; [reflexivity|cbn in Hl; lia].
  - change (seq 0 (S k)) with (0%nat :: seq 1 k). rewrite <- seq_shift. cbn [flat_map].
    rewrite flat_map_concat_map, map_map, <- flat_map_concat_map.
    replace (flat_map (fun x => slice info (S x)) (seq 0 k)) with (flat_map (slice (skipn B info)) (seq 0 k)).
    + rewrite IH by (rewrite skipn_length; lia). unfold slice. cbn [Nat.mul skipn]. apply firstn_skipn.
    + apply flat_map_ext. intros j. unfold slice. rewrite skipn_add. reflexivity.
Qed.

(* ---------- lists ---------- *)
Lemma nth_set_nth_eq {A} (x : A) : forall l j, (j < length l)%nat -> nth_error (set_nth j x l) j = Some x.
Proof. induction l as [|y r IH]; intros [|j] Hj; cbn in *; try lia; [reflexivity|]. apply IH. lia. Qed.
Lemma nth_set_nth_neq {A} (x : A) : forall l j k, k <> j -> nth_error (set_nth j x l) k = nth_error l k.
Proof. induction l as [|y r IH]; intros [|j] [|k] Hk; cbn; try reflexivity; try lia. apply IH. lia. Qed.

Lemma F2_length {A C} (R : A -> C -> Prop) l1 l2 : Forall2 R l1 l2 -> length l1 = length l2.
Proof. induction 1; cbn; congruence. Qed.

Section Slots.
  Variable f : nat -> bytes.
  Let R (j : nat) (b : option bytes) : Prop := b = None \/ b = Some (f j).

  Lemma F2_nth : forall m a bs j, Forall2 R (seq a m) bs -> (j < m)%nat ->
    exists b, nth_error bs j = Some b /\ (b = None \/ b = Some (f (a + j))).
  Proof.
    induction m as [|m IH]; intros a bs j F Hj; [lia|]. cbn [seq] in F. inversion F as [|? b ? r Hb Fr]; subst.
    destruct j as [|j]; [exists b; rewrite Nat.add_0_r; auto|].
    destruct (IH (S a) r j Fr) as [b' [E Hb']]; [lia|]. exists b'. split; [exact E|]. now rewrite <- plus_n_Sm.
  Qed.
  Lemma F2_set : forall m a bs j, Forall2 R (seq a m) bs -> (j < m)%nat ->
    Forall2 R (seq a m) (set_nth j (Some (f (a + j))) bs).
  Proof.
    induction m as [|m IH]; intros a bs j F Hj; [lia|]. cbn [seq] in *. inversion F as [|? b ? r Hb Fr]; subst.
    destruct j as [|j]; cbn [set_nth].
    - constructor; [right; now rewrite Nat.add_0_r|exact Fr].
    - constructor; [exact Hb|]. rewrite <- plus_n_Sm. apply (IH (S a)); [exact Fr|lia].
  Qed.
  Lemma F2_all : forall m a bs, Forall2 R (seq a m) bs -> all_present bs = true -> assemble bs = flat_map f (seq a m).
  Proof.
    induction m as [|m IH]; intros a bs F Hp; cbn [seq] in F; inversion F as [|? b ? r Hb Fr]; subst; [reflexivity|].
    cbn [all_present forallb] in Hp. apply andb_true_iff in Hp as [Hb1 Hr]. destruct Hb as [-> | ->]; [discriminate|].
    cbn [seq flat_map assemble]. f_equal. apply (IH (S a)); assumption.
  Qed.
  Lemma F2_has_all : forall m a bs, Forall2 R (seq a m) bs ->
    (forall j, (j < m)%nat -> nth_error bs j = Some (Some (f (a + j)))) -> all_present bs = true.
  Proof.
    induction m as [|m IH]; intros a bs F Hh; cbn [seq] in F; inversion F as [|? b ? r Hb Fr]; subst; [reflexivity|].
    cbn [all_present forallb]. apply andb_true_iff. split.
    - specialize (Hh 0%nat ltac:(lia)). cbn in Hh. now injection Hh as ->.
    - apply (IH (S a)); [exact Fr|]. intros j Hj. specialize (Hh (S j) ltac:(lia)). cbn [nth_error] in Hh. now rewrite <- plus_n_Sm in Hh.
  Qed.
End Slots.

Section Live.
  Variable H : bytes -> bytes.
  Variable info : bytes.
  Variable g : geometry.
  Let ihash := H info.
  Let size := len info.
  Let n := N.to_nat (nblocks size).
  Hypothesis Hvalid : metadata_complete info = MOk g.
  Hypothesis Hsize : 0 < size.

  (* an authentic round: blocks of the real dictionary; the size guess is the real size *)
  Inductive honest : mop -> Prop :=
  | honest_block j : (j < n)%nat -> honest (MBlock (N.of_nat j) size (slice info j) size)
  | honest_request : honest (MRequest size).

  Definition delivered (j : nat) (ops : list mop) : Prop := In (MBlock (N.of_nat j) size (slice info j) size) ops.

  (* the buffer has the right size, is not full, and whatever it holds is authentic *)
  Definition clean (st : mstate) : Prop :=
    ms_complete st = None /\ ms_size st = size /\
    Forall2 (fun j b => b = None \/ b = Some (slice info j)) (seq 0 n) (ms_blocks st) /\
    all_present (ms_blocks st) = false.
  Definition has (st : mstate) (j : nat) : Prop := nth_error (ms_blocks st) j = Some (Some (slice info j)).
  Definition done (st : mstate) : Prop := ms_complete st = Some g.

  Lemma n_spec : (length info <= n * B)%nat /\ forall j, (j < n)%nat -> (j * B < length info)%nat.
  Proof.
    unfold n, nblocks, size, len, B, mblock in *. split; [|intros j Hj]; nia.
  Qed.

  Lemma slice_len j : (j < n)%nat -> length (slice info j) = Nat.min B (length info - j * B).
  Proof. intros Hj. unfold slice. rewrite firstn_length, skipn_length. reflexivity. Qed.

  Lemma got_honest st j : clean st -> (j < n)%nat ->
    let r := got H ihash st (N.of_nat j) size (slice info j) in
    (snd r <> GMore /\ done (fst r)) \/
    (snd r = GMore /\ clean (fst r) /\ has (fst r) j /\ forall k, has st k -> has (fst r) k).
  Proof.
    intros (Hc & Hs & F & Hp) Hj. cbn zeta. destruct n_spec as [Hn1 Hn2]. specialize (Hn2 j Hj).
    pose proof (F2_length _ _ _ F) as HL. rewrite seq_length in HL.
    pose proof (slice_len j Hj) as Hsl. pose proof B_pos as HB.
    unfold got. cbv zeta. rewrite Hc, Hs, N.eqb_refl. cbn [negb].
    replace (N.of_nat (length (ms_blocks st)) <=? N.of_nat j) with false by lia.
    assert (HBm : N.of_nat B = mblock) by (unfold B; lia).
    replace (negb (len (slice info j) =? mblock) && negb (N.of_nat j * mblock + len (slice info j) =? size)) with false.
    2:{ unfold len, size, len. rewrite Hsl, <- HBm. destruct (Nat.le_ge_cases B (length info - j * B)) as [L|L].
        - rewrite (Nat.min_l _ _ L), N.eqb_refl. reflexivity.
        - rewrite (Nat.min_r _ _ L). replace (N.of_nat j * N.of_nat B + N.of_nat (length info - j * B) =? N.of_nat (length info)) with true by nia.
          cbn [negb]. now rewrite andb_false_r. }
    destruct (F2_nth (slice info) n 0 (ms_blocks st) j F Hj) as [b [Eb Hb]]. cbn [Nat.add] in Hb.
    rewrite Nat2N.id, Eb. destruct Hb as [-> | ->].
    2:{ right. cbn [fst snd]. repeat split; auto. }
    replace (size <? N.of_nat j * mblock) with false by (unfold size, len; rewrite <- HBm; nia).
    replace (firstn (N.to_nat (N.min (len (slice info j)) (size - N.of_nat j * mblock))) (slice info j)) with (slice info j).
    2:{ symmetry. apply firstn_all2. unfold len, size, len. rewrite Hsl, <- HBm. nia. }
    match goal with |- context [all_present ?x] => remember x as bs eqn:Ebs end.
    assert (F' : Forall2 (fun j b => b = None \/ b = Some (slice info j)) (seq 0 n) bs) by (rewrite Ebs; apply (F2_set (slice info) n 0 _ j F Hj)).
    assert (Hj' : nth_error bs j = Some (Some (slice info j))) by (rewrite Ebs; apply nth_set_nth_eq; (eapply Nat.lt_le_trans; [exact Hj|]; apply Nat.eq_le_incl; exact HL)).
    destruct (all_present bs) eqn:Ap; cbn [negb].
    - left. rewrite (F2_all (slice info) n 0 bs F' Ap), (slices_concat n info Hn1).
      replace (bytes_eqb (H info) ihash) with true by (symmetry; now apply bytes_eqb_eq). cbn [negb].
      rewrite Hvalid. cbn [fst snd]. split; [discriminate|reflexivity].
    - right. cbn [fst snd]. split; [reflexivity|]. split; [repeat split; auto|]. split; [exact Hj'|].
      intros k Hk. unfold has in *. cbn [ms_blocks]. destruct (Nat.eq_dec k j) as [->|Hne]; [exact Hj'|].
      rewrite Ebs. now rewrite nth_set_nth_neq.
  Qed.

  Lemma request_clean st : clean st -> request st size = st.
  Proof.
    intros (Hc & Hs & _). unfold request. rewrite Hc, Hs, N.eqb_refl. replace (size =? 0) with false by lia. reflexivity.
  Qed.

  Definition good (st : mstate) : Prop := done st \/ clean st.

  Lemma step_honest st o : honest o -> good st ->
    let st' := fst (fst (mstep H ihash st o)) in
    good st' /\ (forall k, done st \/ has st k -> done st' \/ has st' k) /\
    (forall j, o = MBlock (N.of_nat j) size (slice info j) size -> done st' \/ has st' j).
  Proof.
    intros Ho [Hd|Hc]; cbn zeta.
    - (* already usable: nothing changes *)
      unfold done in Hd. destruct Ho; unfold mstep; rewrite Hd; cbn [fst]; (split; [left; exact Hd|]); split; intros; left; exact Hd.
    - pose proof Hc as (Hn & _). destruct Ho as [j Hj|]; unfold mstep; rewrite Hn.
      + pose proof (got_honest st j Hc Hj) as G. cbn zeta in G.
        destruct (got H ihash st (N.of_nat j) size (slice info j)) as [st1 r]. cbn [fst snd] in G.
        destruct G as [[Hr Hd]|(-> & Hc1 & Hh & Hm)].
        * assert (E : fst (fst (match r with GMore => (request st1 size, GMore, valid_guess st1 size) | _ => (st1, r, true) end)) = st1 \/ r = GMore)
            by (destruct r; auto). destruct E as [E|E]; [|contradiction].
          rewrite E. split; [left; exact Hd|]. split; intros; left; exact Hd.
        * cbn [fst]. rewrite (request_clean st1 Hc1). split; [right; exact Hc1|]. split.
          -- intros k [Hk|Hk]; [unfold done in Hk; congruence|right; now apply Hm].
          -- intros j' E. injection E as E. apply Nat2N.inj in E. subst j'. right; exact Hh.
      + cbn [fst]. rewrite (request_clean st Hc). split; [right; exact Hc|]. split; [auto|discriminate].
  Qed.

  Lemma clean_not_full st : clean st -> ~ (forall j, (j < n)%nat -> has st j).
  Proof.
    intros (_ & _ & F & Hp) Hall. rewrite (F2_has_all (slice info) n 0 (ms_blocks st) F) in Hp; [discriminate|]. exact Hall.
  Qed.

  (* Liveness: from a buffer of the right size holding only authentic blocks, any authentic
     round that delivers every block — in any order, with repetitions and periodic requests in
     between — makes the torrent usable, with the geometry of the authentic dictionary. *)
  Theorem honest_round_completes ops : forall st,
    good st -> Forall honest ops ->
    (forall j, (j < n)%nat -> (done st \/ has st j) \/ delivered j ops) ->
    done (mrun H ihash st ops).
  Proof.
    induction ops as [|o r IH]; intros st Hg Hh Hall; cbn [mrun].
    - destruct Hg as [Hd|Hc]; [exact Hd|]. exfalso. apply (clean_not_full st Hc). intros j Hj.
      destruct (Hall j Hj) as [[Hd|Hj']|[]]; [unfold done in Hd; destruct Hc as (Hn & _); congruence|exact Hj'].
    - inversion Hh as [|? ? Ho Hr]; subst. destruct (step_honest st o Ho Hg) as (Hg' & Hm & Hb). cbn zeta in *.
      apply IH; [exact Hg'|exact Hr|]. intros j Hj. destruct (Hall j Hj) as [Hk|[E|Hd]].
      + left. now apply Hm.
      + left. apply Hb. exact E.
      + right. exact Hd.
  Qed.

  (* in particular after a reset (hash mismatch) or at the start, once the size has been guessed *)
  Lemma fresh_clean votes :
    clean {| ms_complete := None; ms_info := None; ms_size := size; ms_blocks := repeat None n; ms_votes := votes |}.
  Proof.
    unfold clean. cbn [ms_complete ms_size ms_blocks]. repeat split.
    - generalize 0%nat. induction n as [|m IH]; intros a; cbn [seq repeat]; constructor; auto.
    - assert (0 < n)%nat by (unfold n, nblocks, mblock in *; lia). destruct n; [lia|reflexivity].
  Qed.
  (* hence a round after a hash-mismatch reset (or at the very start) completes *)
  Theorem round_after_reset_completes st ops :
    ms_complete st = None -> ms_size st <> size -> size <= max_metadata ->
    Forall honest ops -> (forall j, (j < n)%nat -> delivered j ops) ->
    done (mrun H ihash st (MRequest size :: ops)).
  Proof.
    intros Hc Hs Hm Hh Hall. cbn [mrun]. unfold mstep. rewrite Hc. cbn [fst].
    unfold request. rewrite Hc. replace (size =? 0) with false by lia. replace (ms_size st =? size) with false by lia.
    replace (max_metadata <? size) with false by lia.
    apply honest_round_completes; [right; apply fresh_clean|exact Hh|]. intros j Hj. right. now apply Hall.
  Qed.
End Live.

(* ---------- the full statement is false: a forged block holds its index ---------- *)
From Coq Require Import String.
Definition wit_info : bytes :=
  ascii_bytes "d6:lengthi13434880e4:name1:a12:piece lengthi16384e6:pieces16400:"%string ++ repeat 0 (N.to_nat 16400) ++ ascii_bytes "e"%string.
Definition wit_H (b : bytes) : bytes := b.
Definition wit_size : N := len wit_info.
Definition wit_pre : list mop :=
  [MVote wit_size wit_size; MBlock 0 wit_size (repeat 1 (N.to_nat 16384)) wit_size].
Definition wit_ops : list mop :=
  [MBlock (N.of_nat 0) wit_size (slice wit_info 0) wit_size; MBlock (N.of_nat 1) wit_size (slice wit_info 1) wit_size].

(* "completes once an honest block for every index has been delivered after the last corruption",
   from any reachable state, does not hold: after one forged block for index 0, an authentic round
   (blocks 0 and 1 of the real dictionary) ends with the buffer reset, not with a usable torrent. *)
Theorem liveness_from_any_state_refuted :
  exists H info g pre ops,
    metadata_complete info = MOk g /\ 0 < len info /\
    Forall (honest info) ops /\
    (forall j, (j < N.to_nat (nblocks (len info)))%nat -> delivered info j ops) /\
    ms_complete (mrun H (H info) (mrun H (H info) ms_init pre) ops) = None.
Proof.
  assert (E : exists g, metadata_complete wit_info = MOk g).
  { destruct (metadata_complete wit_info) as [g| |] eqn:M; [eauto| |]; vm_compute in M; discriminate. }
  destruct E as [g Hg].
  exists wit_H, wit_info, g, wit_pre, wit_ops.
  assert (Hn : N.to_nat (nblocks (len wit_info)) = 2%nat) by (vm_compute; reflexivity).
  split; [exact Hg|]. split; [vm_compute; reflexivity|]. split.
  - unfold wit_ops. repeat constructor; rewrite Hn; lia.
  - split.
    + rewrite Hn. intros j Hj. unfold delivered, wit_ops. destruct j as [|[|j]]; [left; reflexivity|right; left; reflexivity|lia].
    + vm_compute. reflexivity.
Qed.
