(* Proof/BencodeRT.v — the canonical bencoder of Model/WireSpec.v is read back by the model of
   zeebo/bencode (Base/Bencode.v): integers, strings and dictionaries of such, whatever follows. *)
From Coq Require Import ZifyBool ZifyN ZifyNat.
From Storrent Require Import Base.Bytes Base.Bencode Gen.Consts Model.Wire Model.WireSpec Proof.Bencode.
Open Scope N_scope.

Ltac Zify.zify_post_hook ::= Z.div_mod_to_equations.

(* ---------- decimal ---------- *)
Lemma digits_val_app a : forall acc b,
  digits_val acc (a ++ b) = match digits_val acc a with Some x => digits_val x b | None => None end.
Proof.
  induction a as [|d r IH]; intros acc b; cbn [app digits_val]; [reflexivity|].
  destruct (is_digit d); [apply IH|reflexivity].
Qed.

Definition all_digits (ds : bytes) : Prop := Forall (fun d => is_digit d = true) ds.

Lemma to_digits_spec fuel : forall n, n < 10 ^ N.of_nat (S fuel) ->
  digits_val 0 (to_digits fuel n) = Some n /\ all_digits (to_digits fuel n) /\ to_digits fuel n <> [].
Proof.
  induction fuel as [|f IH]; intros n Hn.
  - cbn [to_digits]. change (10 ^ N.of_nat 1) with 10 in Hn. rewrite N.mod_small by lia.
    unfold all_digits, is_digit. cbn [digits_val]. unfold is_digit.
    replace ((48 <=? 48 + n) && (48 + n <=? 57)) with true by lia. repeat split; [f_equal; lia|repeat constructor; lia|discriminate].
  - cbn [to_digits]. destruct (n <? 10) eqn:E.
    + unfold all_digits. cbn [digits_val]. unfold is_digit.
      replace ((48 <=? 48 + n) && (48 + n <=? 57)) with true by lia. repeat split; [f_equal; lia|repeat constructor; lia|discriminate].
    + assert (Hn' : n / 10 < 10 ^ N.of_nat (S f)).
      { rewrite Nat2N.inj_succ, N.pow_succ_r' in Hn. apply N.div_lt_upper_bound; lia. }
      destruct (IH _ Hn') as (V & D & NE). split; [|split].
      * rewrite digits_val_app, V. cbn [digits_val]. unfold is_digit.
        replace ((48 <=? 48 + n mod 10) && (48 + n mod 10 <=? 57)) with true by lia. f_equal. lia.
      * apply Forall_app. split; [exact D|]. repeat constructor. unfold is_digit. lia.
      * intros H. apply app_eq_nil in H as [_ H]. discriminate.
Qed.

Definition dec_max : N := 10 ^ 41.
Lemma dec_spec n : n < dec_max -> digits_val 0 (dec n) = Some n /\ all_digits (dec n) /\ dec n <> [].
Proof. intros H. apply to_digits_spec. exact H. Qed.

Lemma parse_udec_dec n : n < dec_max -> parse_udec (dec n) = Some n.
Proof. intros H. destruct (dec_spec n H) as (V & _ & NE). unfold parse_udec. destruct (dec n); [congruence|exact V]. Qed.

Lemma dec_head n : n < dec_max -> exists c r, dec n = c :: r /\ is_digit c = true.
Proof.
  intros H. destruct (dec_spec n H) as (_ & D & NE). destruct (dec n) as [|c r]; [congruence|].
  inversion D; subst. eauto.
Qed.

Lemma parse_uint64_dec n : n < 18446744073709551616 -> parse_uint64 (dec n) = Some n.
Proof. intros H. unfold parse_uint64. rewrite parse_udec_dec by (unfold dec_max; lia). now replace (n <? 18446744073709551616) with true by lia. Qed.

Lemma parse_int32_dec n : n < 2147483648 -> parse_int 32 (dec n) = Some (Z.of_N n).
Proof.
  intros H. assert (Hd : n < dec_max) by (unfold dec_max; lia). destruct (dec_head n Hd) as (c & r & E & Dc).
  unfold parse_int. rewrite E. unfold is_digit in Dc.
  replace (c =? ch_minus) with false by (unfold ch_minus; lia). replace (c =? ch_plus) with false by (unfold ch_plus; lia).
  rewrite <- E, parse_udec_dec by exact Hd. change (Z.of_N 32 - 1)%Z with 31%Z.
  replace (Z.of_N n <? 2 ^ 31)%Z with true by lia. reflexivity.
Qed.

Lemma split_at_digits c ds rest : all_digits ds -> is_digit c = false -> split_at c (ds ++ c :: rest) = Some (ds, rest).
Proof.
  intros D Hc. induction D as [|d r Hd _ IH]; cbn [app split_at]; [now rewrite N.eqb_refl|].
  destruct (d =? c) eqn:E; [apply N.eqb_eq in E; congruence|]. now rewrite IH.
Qed.

(* ---------- atoms ---------- *)
Lemma parse_bstr_benc s rest : len s < 2147483648 -> parse_bstr (benc_str s ++ rest) = BOk s rest (len s).
Proof.
  intros H. unfold parse_bstr, benc_str. rewrite <- app_assoc. cbn [app].
  destruct (dec_spec (len s)) as (_ & D & _); [unfold dec_max; lia|].
  rewrite (split_at_digits ch_colon _ _ D eq_refl), (parse_int32_dec _ H).
  replace (Z.of_N (len s) <? 0)%Z with false by lia. rewrite N2Z.id, take_exact. reflexivity.
Qed.

Lemma bparse_int f n rest : n < dec_max -> bparse (S f) (benc_int n ++ rest) = BOk (BInt (dec n)) rest 0.
Proof.
  intros H. unfold benc_int. cbn [app bparse]. rewrite N.eqb_refl, <- app_assoc. cbn [app].
  destruct (dec_spec n H) as (_ & D & _). now rewrite (split_at_digits ch_e _ _ D eq_refl).
Qed.

Lemma bparse_str f s rest : len s < 2147483648 -> bparse (S f) (benc_str s ++ rest) = BOk (BStr s) rest (len s).
Proof.
  intros H. pose proof (parse_bstr_benc s rest H) as P. unfold benc_str in *.
  destruct (dec_head (len s)) as (c & r & E & Dc); [unfold dec_max; lia|]. rewrite E in *. cbn [app] in *. cbn [bparse].
  unfold is_digit in Dc. replace (c =? ch_i) with false by (unfold ch_i; lia). unfold is_digit. rewrite Dc. now rewrite P.
Qed.

(* ---------- more fuel never changes a successful parse ---------- *)
Section Mono.
  Variables p p' : bytes -> bres bval.
  Hypothesis pp : forall bs v r k, p bs = BOk v r k -> p' bs = BOk v r k.
  Lemma list_loop_mono g : forall g' r acc k0 v rest k, (g <= g')%nat ->
    list_loop p g r acc k0 = BOk v rest k -> list_loop p' g' r acc k0 = BOk v rest k.
  Proof.
    induction g as [|g IH]; intros g' r acc k0 v rest k Hg; cbn [list_loop]; [discriminate|].
    destruct g' as [|g']; [lia|]. cbn [list_loop]. destruct r as [|x r']; [discriminate|]. destruct (x =? ch_e); [auto|].
    destruct (p (x :: r')) as [v' r'' k'|e k'] eqn:P; [|discriminate]. rewrite (pp _ _ _ _ P). apply IH. lia.
  Qed.
  Lemma dict_loop_mono g : forall g' r acc k0 v rest k, (g <= g')%nat ->
    dict_loop p g r acc k0 = BOk v rest k -> dict_loop p' g' r acc k0 = BOk v rest k.
  Proof.
    induction g as [|g IH]; intros g' r acc k0 v rest k Hg; cbn [dict_loop]; [discriminate|].
    destruct g' as [|g']; [lia|]. cbn [dict_loop]. destruct r as [|x r']; [discriminate|]. destruct (x =? ch_e); [auto|].
    destruct (parse_bstr (x :: r')) as [key r1 k1|e k1]; [|discriminate].
    destruct (p r1) as [v' r2 k2|e k2] eqn:P; [|discriminate]. rewrite (pp _ _ _ _ P). apply IH. lia.
  Qed.
End Mono.

Lemma bparse_mono f : forall f' bs v r k, (f <= f')%nat -> bparse f bs = BOk v r k -> bparse f' bs = BOk v r k.
Proof.
  induction f as [|f IH]; intros f' bs v r k Hf; cbn [bparse]; [discriminate|].
  destruct f' as [|f']; [lia|]. cbn [bparse]. destruct bs as [|c t]; [discriminate|].
  destruct (c =? ch_i); [auto|]. destruct (is_digit c); [auto|].
  destruct (c =? ch_l); [apply list_loop_mono; [intros; eapply IH; [|eassumption]; lia|lia]|].
  destruct (c =? ch_d); [apply dict_loop_mono; [intros; eapply IH; [|eassumption]; lia|lia]|auto].
Qed.

(* ---------- dictionaries ---------- *)
(* enc is read back as v, at cost k, with fuel f, whatever follows *)
Definition good (f : nat) (enc : bytes) (v : bval) (k : N) : Prop :=
  forall rest, bparse f (enc ++ rest) = BOk v rest k.
Lemma good_mono f f' enc v k : (f <= f')%nat -> good f enc v k -> good f' enc v k.
Proof. intros Hf G rest. eapply bparse_mono; [exact Hf|apply G]. Qed.
Lemma good_int f n : n < dec_max -> good (S f) (benc_int n) (BInt (dec n)) 0.
Proof. intros H rest. now apply bparse_int. Qed.
Lemma good_str f s : len s < 2147483648 -> good (S f) (benc_str s) (BStr s) (len s).
Proof. intros H rest. now apply bparse_str. Qed.

Record entry := mk_entry { en_key : bytes; en_enc : bytes; en_val : bval; en_cost : N }.
Definition ekv (e : entry) : bytes * bytes := (en_key e, en_enc e).
Definition evv (e : entry) : bytes * bval := (en_key e, en_val e).
Definition good_entry (f : nat) (e : entry) : Prop :=
  len (en_key e) < 2147483648 /\ good f (en_enc e) (en_val e) (en_cost e).
Definition ecost (es : list entry) (k0 : N) : N := fold_left (fun k e => k + len (en_key e) + en_cost e) es k0.

Lemma benc_str_head s : len s < 2147483648 -> exists c r, benc_str s = c :: r /\ is_digit c = true.
Proof.
  intros H. destruct (dec_head (len s)) as (c & r & E & Dc); [unfold dec_max; lia|].
  unfold benc_str. rewrite E. cbn [app]. eauto.
Qed.

Lemma dict_loop_good f : forall es g acc k0 rest, Forall (good_entry f) es -> (length es < g)%nat ->
  dict_loop (bparse f) g (benc_dict (map ekv es) ++ ch_e :: rest) acc k0 =
  BOk (BDict (rev acc ++ map evv es)) rest (ecost es k0).
Proof.
  induction es as [|e r IH]; intros g acc k0 rest Hes Hg.
  - destruct g as [|g]; [cbn in Hg; lia|]. cbn [map benc_dict app dict_loop ecost fold_left]. rewrite N.eqb_refl, app_nil_r. reflexivity.
  - inversion Hes as [|? ? [Hk Hv] Hr]; subst. destruct g as [|g]; [cbn in Hg; lia|].
    cbn [map]. unfold ekv at 1. cbn [benc_dict]. rewrite <- !app_assoc.
    destruct (benc_str_head _ Hk) as (c & t & E & Dc).
    assert (P := parse_bstr_benc (en_key e) (en_enc e ++ benc_dict (map ekv r) ++ ch_e :: rest) Hk).
    rewrite E in *. cbn [app] in *. cbn [dict_loop]. unfold is_digit in Dc.
    replace (c =? ch_e) with false by (unfold ch_e; lia). rewrite P, (Hv _).
    rewrite IH by (auto; cbn [length] in Hg; lia). cbn [rev ecost fold_left map]. rewrite <- app_assoc. reflexivity.
Qed.

Theorem bparse_dict f es rest : Forall (good_entry f) es -> (length es < f)%nat ->
  bparse (S f) (benc_d (map ekv es) ++ rest) = BOk (BDict (map evv es)) rest (ecost es 0).
Proof.
  intros Hes Hf. unfold benc_d. cbn [app bparse]. change (ch_d =? ch_i) with false. change (is_digit ch_d) with false.
  change (ch_d =? ch_l) with false. rewrite N.eqb_refl. cbv iota. rewrite <- app_assoc. cbn [app].
  now rewrite (dict_loop_good f es f [] 0 rest Hes Hf).
Qed.

Lemma good_dict f es : Forall (good_entry f) es -> (length es < f)%nat ->
  good (S f) (benc_d (map ekv es)) (BDict (map evv es)) (ecost es 0).
Proof. intros H1 H2 rest. now apply bparse_dict. Qed.
