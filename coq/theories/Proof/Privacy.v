(* Proof/Privacy.v — over every sequence of configuration changes and events, every contact is
   one the switches in force at that moment permit. *)
From Storrent Require Import Base.Bytes Model.Privacy.
Open Scope N_scope.

Lemma announce_permitted s ipv6 k : In k (announce s ipv6) -> permitted s k = true.
Proof.
  unfold announce. destruct (c_dht (t_conf s)) eqn:M; cbn [In]; [tauto| |].
  - intros [<-|[]]. cbn [permitted mode_rank]. rewrite M. cbn. rewrite andb_false_r. reflexivity.
  - intros [<-|[]]. cbn [permitted mode_rank]. rewrite M. cbn. destruct (t_proxied s); cbn; [reflexivity|].
    now rewrite orb_true_r.
Qed.

Lemma step_permitted s e k : In k (snd (pstep s e)) -> permitted (fst (pstep s e)) k = true.
Proof.
  destruct e as [c|ipv6|ready| |cd ce|]; cbn [pstep fst snd].
  - destruct (_ <? _); [|intros []]. intros H. apply in_app_or in H as [H|H]; eapply announce_permitted; eauto.
  - apply announce_permitted.
  - destruct (c_trackers (t_conf s)) eqn:T; cbn [andb]; [|intros []]. destruct ready; [|intros []].
    intros [<-|[]]. cbn [permitted]. rewrite T. destruct (t_proxied s); reflexivity.
  - destruct (c_webseeds (t_conf s)) eqn:W; cbn [andb]; [|intros []]. destruct (0 <? _); [|intros []].
    intros [<-|[]]. cbn [permitted]. exact W.
  - destruct ce.
    + intros [<-|[]]. cbn [permitted]. destruct (t_proxied s); cbn; [now rewrite andb_false_r|reflexivity].
    + destruct (cd && negb (t_proxied s)) eqn:E; [|intros []]. intros [<-|[]]. cbn [permitted].
      apply andb_prop in E as [_ E]. now rewrite E.
  - destruct (t_proxied s) eqn:P; [intros []|]. intros [<-|[]]. cbn [permitted]. now rewrite P.
Qed.

Theorem run_permitted : forall es s sk, In sk (prun s es) -> permitted (fst sk) (snd sk) = true.
Proof.
  induction es as [|e r IH]; intros s sk; cbn [prun]; [intros []|].
  pose proof (step_permitted s e) as H. destruct (pstep s e) as [s' ks]. cbn [fst snd] in H.
  intros Hin. apply in_app_or in Hin as [Hin|Hin]; [|now apply (IH s')].
  apply in_map_iff in Hin as (k & <- & Hk). cbn [fst snd]. now apply H.
Qed.
