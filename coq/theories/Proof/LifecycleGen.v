(* Proof/LifecycleGen.v — the calls extracted from the source (Gen/TorApi.v) never hang. *)
From Coq Require Import String.
From Storrent Require Import Base.Bytes Model.Lifecycle Gen.TorApi Proof.Lifecycle.

Lemma all_calls_safe : forallb (fun a => call_safe (snd a)) tor_apis = true.
Proof. vm_compute. reflexivity. Qed.

Lemma no_call_hangs name prog :
  In (name, prog) tor_apis ->
  forall l room c', reach (prog, NotSent, l, room) c' -> ~ stuck c'.
Proof.
  intros Hin. apply call_safe_sound.
  pose proof all_calls_safe as H. rewrite forallb_forall in H. exact (H (name, prog) Hin).
Qed.

(* the translator found the calls that matter *)
Lemma apis_present :
  forallb (fun n => existsb (fun a => String.eqb (fst a) n) tor_apis)
    ["Torrent.GetStats"; "Torrent.GetAvailable"; "Torrent.DropPeer"; "Torrent.GetPeer"; "Torrent.GetPeers";
     "Torrent.GetKnown"; "Torrent.GetKnowns"; "Torrent.Have"; "Torrent.GetConf"; "Torrent.SetConf";
     "Torrent.AddKnown"; "Torrent.BadPeer"; "Torrent.NewPeer"; "Torrent.Request"; "Torrent.Kill";
     "Announce"; "Reader.Read"]%string = true.
Proof. vm_compute. reflexivity. Qed.

(* a call written without the Done alternative would be caught: the shape Torrent.Request had *)
Example bare_reply_refuted :
  call_safe [CSel [(ASend, [CBare ARecv]); (ADone, [])]] = false.
Proof. vm_compute. reflexivity. Qed.
