(* Proof/Requested.v — completion channels are closed at most once, and only by Done of their piece
   or by the removal of their entry; the priorities of an entry are exactly those its consumers
   hold. *)
From Coq Require Import ZifyBool ZifyN ZifyNat Permutation.
From Storrent Require Import Base.Bytes Model.Requested.
Open Scope N_scope.

Lemma memc_In x l : memc x l = true <-> In x l.
Proof.
  induction l as [|y r IH]; cbn [memc In]; [split; [discriminate|tauto]|].
  rewrite orb_true_iff, IH, N.eqb_eq. split; intros [H|H]; auto.
Qed.

Lemma pupd_same m i v : pupd m i v i = v.
Proof. unfold pupd. now rewrite N.eqb_refl. Qed.
Lemma pupd_other m i v j : j <> i -> pupd m i v j = m j.
Proof. unfold pupd. intros H. destruct (j =? i) eqn:E; [apply N.eqb_eq in E; congruence|reflexivity]. Qed.

(* ---------- channels ---------- *)

Record J (s : rstate) : Prop := {
  j_panic : r_panic s = false;
  j_nodup : NoDup (r_closed s);
  j_closed : forall ch, In ch (r_closed s) -> ch < r_next s;
  j_open : forall i r ch, r_pieces s i = Some r -> rp_done r = Some ch -> ch < r_next s /\ ~ In ch (r_closed s);
  j_uniq : forall i j r r' ch, r_pieces s i = Some r -> r_pieces s j = Some r' ->
           rp_done r = Some ch -> rp_done r' = Some ch -> i = j
}.

Lemma J_init : J r_init.
Proof. constructor; cbn; try constructor; try discriminate; intros; try contradiction; discriminate. Qed.

(* changing the priorities of an entry, or creating an entry without a channel *)
Lemma J_set_prio s i r :
  J s -> (rp_done r = None \/ exists r0, r_pieces s i = Some r0 /\ rp_done r0 = rp_done r) ->
  J (with_pieces s (pupd (r_pieces s) i (Some r))).
Proof.
  intros [P N C O U] H. constructor; cbn [with_pieces r_panic r_closed r_next r_pieces]; auto.
  - intros j r' ch Hj Hd. destruct (N.eq_dec j i) as [->|Hne].
    + rewrite pupd_same in Hj. injection Hj as <-. destruct H as [H|(r0 & H0 & H1)]; [congruence|].
      apply (O i r0 ch H0). congruence.
    + rewrite pupd_other in Hj by exact Hne. eapply O; eauto.
  - intros a b ra rb ch Ha Hb Hda Hdb.
    destruct (N.eq_dec a i) as [->|Ha'], (N.eq_dec b i) as [->|Hb']; auto.
    + rewrite pupd_same in Ha. injection Ha as <-. rewrite pupd_other in Hb by exact Hb'.
      destruct H as [H|(r0 & H0 & H1)]; [congruence|]. apply (U i b r0 rb ch H0 Hb); congruence.
    + rewrite pupd_same in Hb. injection Hb as <-. rewrite pupd_other in Ha by exact Ha'.
      destruct H as [H|(r0 & H0 & H1)]; [congruence|]. apply (U a i ra r0 ch Ha H0); congruence.
    + rewrite pupd_other in Ha, Hb by assumption. eapply U; eauto.
Qed.

(* closing the channel of entry i and forgetting it there (or forgetting the entry) *)
Lemma J_close s i r ch (v : option rpiece) :
  J s -> r_pieces s i = Some r -> rp_done r = Some ch ->
  (match v with Some r' => rp_done r' = None | None => True end) ->
  J (with_pieces (close_ch s ch) (pupd (r_pieces s) i v)).
Proof.
  intros [P N C O U] Hi Hd Hv. destruct (O i r ch Hi Hd) as [Hlt Hnc].
  constructor; cbn [with_pieces close_ch r_panic r_closed r_next r_pieces].
  - rewrite P. cbn [orb]. destruct (memc ch (r_closed s)) eqn:E; [apply memc_In in E; contradiction|reflexivity].
  - constructor; assumption.
  - intros c [<-|Hc]; [exact Hlt|now apply C].
  - intros j r' c Hj Hdj. destruct (N.eq_dec j i) as [->|Hne].
    + rewrite pupd_same in Hj. destruct v as [r2|]; [|discriminate]. injection Hj as <-. congruence.
    + rewrite pupd_other in Hj by exact Hne. destruct (O j r' c Hj Hdj) as [L Nc]. split; [exact L|].
      intros [<-|Hc]; [|contradiction]. apply Hne. symmetry. eapply U; eauto.
  - intros a b ra rb c Ha Hb Hda Hdb.
    destruct (N.eq_dec a i) as [->|Ha'].
    { rewrite pupd_same in Ha. destruct v as [r2|]; [|discriminate]. injection Ha as <-. congruence. }
    destruct (N.eq_dec b i) as [->|Hb'].
    { rewrite pupd_same in Hb. destruct v as [r2|]; [|discriminate]. injection Hb as <-. congruence. }
    rewrite pupd_other in Ha, Hb by assumption. eapply U; eauto.
Qed.

Lemma J_remove s i : J s -> (forall r, r_pieces s i = Some r -> rp_done r = None) ->
  J (with_pieces s (pupd (r_pieces s) i None)).
Proof.
  intros [P N C O U] H. constructor; cbn [with_pieces r_panic r_closed r_next r_pieces]; auto.
  - intros j r' ch Hj Hd. destruct (N.eq_dec j i) as [->|Hne]; [rewrite pupd_same in Hj; discriminate|].
    rewrite pupd_other in Hj by exact Hne. eapply O; eauto.
  - intros a b ra rb ch Ha Hb Hda Hdb.
    destruct (N.eq_dec a i) as [->|Ha']; [rewrite pupd_same in Ha; discriminate|].
    destruct (N.eq_dec b i) as [->|Hb']; [rewrite pupd_same in Hb; discriminate|].
    rewrite pupd_other in Ha, Hb by assumption. eapply U; eauto.
Qed.

Lemma J_del_entry s i : J s -> J (r_del_entry s i).
Proof.
  intros Hs. unfold r_del_entry. destruct (r_pieces s i) as [r|] eqn:E; [|exact Hs].
  destruct (rp_done r) as [ch|] eqn:D.
  - cbn [close_ch r_pieces]. apply (J_close s i r ch None Hs E D I).
  - apply J_remove; [exact Hs|]. intros r' H. congruence.
Qed.

Lemma J_add s i p w : J s -> J (fst (fst (r_add s i p w))).
Proof.
  intros Hs. unfold r_add.
  destruct (r_pieces s i) as [r|] eqn:E.
  - set (r1 := if (IdlePriority <? p)%Z then _ else r).
    assert (D1 : rp_done r1 = rp_done r) by (subst r1; now destruct (_ <? _)%Z).
    destruct w; [destruct (rp_done r1) as [ch|] eqn:D|]; cbn [fst].
    + apply J_set_prio; [exact Hs|]. right. exists r. split; [exact E|congruence].
    + (* a new channel *)
      destruct Hs as [P N C O U]. constructor; cbn [r_panic r_closed r_next r_pieces]; auto.
      * intros ch Hc. apply C in Hc. lia.
      * intros j r' ch Hj Hd. destruct (N.eq_dec j i) as [->|Hne].
        -- rewrite pupd_same in Hj. injection Hj as <-. cbn in Hd. injection Hd as <-. split; [lia|].
           intros Hc. apply C in Hc. lia.
        -- rewrite pupd_other in Hj by exact Hne. destruct (O j r' ch Hj Hd). split; [lia|assumption].
      * intros a b ra rb ch Ha Hb Hda Hdb.
        destruct (N.eq_dec a i) as [->|Ha'], (N.eq_dec b i) as [->|Hb']; auto.
        -- rewrite pupd_same in Ha. injection Ha as <-. cbn in Hda. injection Hda as <-.
           rewrite pupd_other in Hb by exact Hb'. destruct (O b rb _ Hb Hdb). lia.
        -- rewrite pupd_same in Hb. injection Hb as <-. cbn in Hdb. injection Hdb as <-.
           rewrite pupd_other in Ha by exact Ha'. destruct (O a ra _ Ha Hda). lia.
        -- rewrite pupd_other in Ha, Hb by assumption. eapply U; eauto.
    + apply J_set_prio; [exact Hs|]. right. exists r. split; [exact E|congruence].
  - set (r1 := if (IdlePriority <? p)%Z then _ else _).
    assert (D1 : rp_done r1 = None) by (subst r1; now destruct (_ <? _)%Z).
    rewrite D1. destruct w; cbn [fst].
    + destruct Hs as [P N C O U]. constructor; cbn [r_panic r_closed r_next r_pieces]; auto.
      * intros ch Hc. apply C in Hc. lia.
      * intros j r' ch Hj Hd. destruct (N.eq_dec j i) as [->|Hne].
        -- rewrite pupd_same in Hj. injection Hj as <-. cbn in Hd. injection Hd as <-. split; [lia|].
           intros Hc. apply C in Hc. lia.
        -- rewrite pupd_other in Hj by exact Hne. destruct (O j r' ch Hj Hd). split; [lia|assumption].
      * intros a b ra rb ch Ha Hb Hda Hdb.
        destruct (N.eq_dec a i) as [->|Ha'], (N.eq_dec b i) as [->|Hb']; auto.
        -- rewrite pupd_same in Ha. injection Ha as <-. cbn in Hda. injection Hda as <-.
           rewrite pupd_other in Hb by exact Hb'. destruct (O b rb _ Hb Hdb). lia.
        -- rewrite pupd_same in Hb. injection Hb as <-. cbn in Hdb. injection Hdb as <-.
           rewrite pupd_other in Ha by exact Ha'. destruct (O a ra _ Ha Hda). lia.
        -- rewrite pupd_other in Ha, Hb by assumption. eapply U; eauto.
    + apply J_set_prio; [exact Hs|]. now left.
Qed.

Lemma J_del s i p : J s -> J (fst (r_del s i p)).
Proof.
  intros Hs. unfold r_del. destruct (r_pieces s i) as [r|] eqn:E; [|exact Hs].
  destruct (remove_first p (rp_prio r)) as [rest|]; [|exact Hs].
  assert (H1 : J (with_pieces s (pupd (r_pieces s) i (Some {| rp_prio := rest; rp_done := rp_done r |})))).
  { apply J_set_prio; [exact Hs|]. right. exists r. now split. }
  destruct rest; cbn [fst]; [now apply J_del_entry|exact H1].
Qed.

Lemma J_del_idle_piece s i : J s -> J (r_del_idle_piece s i).
Proof.
  intros Hs. unfold r_del_idle_piece. destruct (r_pieces s i) as [r|]; [|exact Hs].
  destruct (rp_prio r); [now apply J_del_entry|exact Hs].
Qed.

Lemma J_done s i : J s -> J (r_done s i).
Proof.
  intros Hs. unfold r_done. destruct (r_pieces s i) as [r|] eqn:E; [|exact Hs].
  apply J_del_idle_piece. destruct (rp_done r) as [ch|] eqn:D; [|exact Hs].
  apply (J_close s i r ch (Some {| rp_prio := rp_prio r; rp_done := None |}) Hs E D). reflexivity.
Qed.

Lemma J_step keys s o : J s -> J (r_step keys s o).
Proof.
  intros Hs. destruct o; cbn [r_step].
  - now apply J_add.
  - now apply J_del.
  - now apply J_done.
  - unfold r_del_idle. revert s Hs. induction keys as [|k r IH]; intros s Hs; cbn [fold_left]; [exact Hs|].
    apply IH. now apply J_del_idle_piece.
  - now apply J_del_idle_piece.
Qed.

Theorem run_J keys ops : J (fold_left (r_step keys) ops r_init).
Proof.
  assert (H : forall s, J s -> J (fold_left (r_step keys) ops s)).
  { induction ops as [|o r IH]; intros s Hs; cbn [fold_left]; [exact Hs|]. apply IH. now apply J_step. }
  apply H, J_init.
Qed.

(* Done wakes whoever waits for the piece *)
Lemma done_closes s i r ch :
  r_pieces s i = Some r -> rp_done r = Some ch -> In ch (r_closed (r_done s i)).
Proof.
  intros E D. unfold r_done. rewrite E, D. unfold r_del_idle_piece.
  cbn [with_pieces close_ch r_pieces]. rewrite pupd_same. cbn [rp_prio].
  destruct (rp_prio r); [|cbn; now left].
  unfold r_del_entry. cbn [with_pieces close_ch r_pieces]. rewrite pupd_same. cbn [rp_done with_pieces r_closed]. now left.
Qed.

(* after Done nobody is left waiting on a stale channel: a later waiter gets a new one *)
Lemma done_clears s i : match r_pieces (r_done s i) i with Some r => rp_done r = None | None => True end.
Proof.
  unfold r_done. destruct (r_pieces s i) as [r|] eqn:E; [|now rewrite E].
  destruct (rp_done r) as [ch|] eqn:D.
  - unfold r_del_idle_piece. cbn [with_pieces close_ch r_pieces]. rewrite pupd_same. cbn [rp_prio].
    destruct (rp_prio r).
    + unfold r_del_entry. cbn [with_pieces close_ch r_pieces]. rewrite pupd_same. cbn [rp_done with_pieces r_pieces].
      now rewrite pupd_same.
    + cbn [with_pieces close_ch r_pieces]. now rewrite pupd_same.
  - unfold r_del_idle_piece. rewrite E. destruct (rp_prio r).
    + unfold r_del_entry. rewrite E, D. cbn [with_pieces r_pieces]. now rewrite pupd_same.
    + rewrite E. exact D.
Qed.

(* ---------- priorities ---------- *)

Definition prios (s : rstate) (i : N) : list Z := match r_pieces s i with Some r => rp_prio r | None => [] end.

Lemma remove_first_perm p : forall l rest, remove_first p l = Some rest -> Permutation l (p :: rest).
Proof.
  induction l as [|x l IH]; intros rest; cbn [remove_first]; [discriminate|].
  destruct (x =? p)%Z eqn:E.
  - intros [= <-]. apply Z.eqb_eq in E. subst. apply Permutation_refl.
  - destruct (remove_first p l) as [r'|]; [|discriminate]. cbn [option_map]. intros [= <-].
    apply perm_trans with (x :: p :: r'); [constructor; now apply IH|constructor].
Qed.

Lemma remove_first_none p : forall l, remove_first p l = None -> ~ In p l.
Proof.
  induction l as [|x l IH]; cbn [remove_first]; [auto|].
  destruct (x =? p)%Z eqn:E; [discriminate|]. destruct (remove_first p l); [discriminate|].
  intros _ [H|H]; [apply Z.eqb_neq in E; congruence|now apply IH].
Qed.

(* Add appends the consumer's priority to the piece and touches no other piece *)
Lemma add_prios s i p w j :
  prios (fst (fst (r_add s i p w))) j =
  if j =? i then (if (IdlePriority <? p)%Z then prios s i ++ [p] else prios s i) else prios s j.
Proof.
  unfold r_add, prios.
  destruct (r_pieces s i) as [r|] eqn:E;
    destruct (IdlePriority <? p)%Z; destruct w; cbn [rp_done rp_prio];
    try destruct (rp_done r); cbn [fst with_pieces r_pieces]; unfold pupd;
    destruct (j =? i) eqn:Eji; try reflexivity; cbn [rp_prio]; try reflexivity.
Qed.

(* Del withdraws exactly one occurrence of the priority, from that piece only; a priority
   nobody holds withdraws nothing *)
Lemma del_prios s i p j :
  (j <> i -> prios (fst (r_del s i p)) j = prios s j) /\
  (In p (prios s i) -> Permutation (prios s i) (p :: prios (fst (r_del s i p)) i)) /\
  (~ In p (prios s i) -> prios (fst (r_del s i p)) i = prios s i).
Proof.
  unfold r_del, prios. destruct (r_pieces s i) as [r|] eqn:E.
  2:{ cbn [fst]. rewrite ?E. repeat split; auto. intros []. }
  destruct (remove_first p (rp_prio r)) as [rest|] eqn:R.
  - pose proof (remove_first_perm p _ _ R) as P.
    destruct rest as [|x rest]; cbn [fst].
    + unfold r_del_entry. cbn [with_pieces r_pieces]. rewrite pupd_same. cbn [rp_done].
      repeat split.
      * intros Hne. destruct (rp_done r); cbn [with_pieces close_ch r_pieces]; rewrite !pupd_other by exact Hne; reflexivity.
      * intros _. destruct (rp_done r); cbn [with_pieces close_ch r_pieces]; rewrite pupd_same; exact P.
      * intros Hn. exfalso. apply Hn. eapply Permutation_in; [apply Permutation_sym; exact P|now left].
    + cbn [with_pieces r_pieces]. repeat split.
      * intros Hne. now rewrite pupd_other by exact Hne.
      * intros _. rewrite pupd_same. exact P.
      * intros Hn. exfalso. apply Hn. eapply Permutation_in; [apply Permutation_sym; exact P|now left].
  - cbn [fst]. rewrite ?E. repeat split; auto. intros Hin. exfalso. eapply remove_first_none; eauto.
Qed.

(* Done, DelIdle and DelIdlePiece never take a consumer's priority away *)
Lemma del_idle_piece_prios s i j : prios (r_del_idle_piece s i) j = prios s j.
Proof.
  unfold r_del_idle_piece, prios. destruct (r_pieces s i) as [r|] eqn:E; [|reflexivity].
  destruct (rp_prio r) eqn:Pr; [|reflexivity].
  unfold r_del_entry. rewrite E. destruct (rp_done r); cbn [with_pieces close_ch r_pieces]; unfold pupd;
    (destruct (j =? i) eqn:Eji; [apply N.eqb_eq in Eji; subst; now rewrite E, Pr|reflexivity]).
Qed.

Lemma done_prios s i j : prios (r_done s i) j = prios s j.
Proof.
  unfold r_done. destruct (r_pieces s i) as [r|] eqn:E; [|reflexivity].
  rewrite del_idle_piece_prios. destruct (rp_done r); [|reflexivity].
  unfold prios. cbn [with_pieces close_ch r_pieces]. unfold pupd.
  destruct (j =? i) eqn:Eji; [apply N.eqb_eq in Eji; subst; now rewrite E|reflexivity].
Qed.

Lemma del_idle_prios keys : forall s j, prios (r_del_idle s keys) j = prios s j.
Proof.
  unfold r_del_idle. induction keys as [|k r IH]; intros s j; cbn [fold_left]; [reflexivity|].
  now rewrite IH, del_idle_piece_prios.
Qed.

(* a piece with a consumer's priority stays requested *)
Lemma wanted_stays s i : prios s i <> [] -> r_pieces s i <> None.
Proof. unfold prios. destruct (r_pieces s i); [discriminate|congruence]. Qed.
