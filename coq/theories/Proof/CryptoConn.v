(* Proof/CryptoConn.v — crypto.Conn: for every sequence of Write calls of any sizes, and any
   failure or short write of the underlying connection at any point, what reached the wire is a
   prefix of the encryption of what the caller wrote, of exactly the length the calls reported;
   the receiver, reading in pieces of any size, obtains exactly those bytes. *)
From Coq Require Import ZifyBool ZifyN ZifyNat.
From Storrent Require Import Base.Bytes Base.Bencode Base.Crypto Model.Hs Model.CryptoConn Proof.Crypto Proof.Hs.
Open Scope N_scope.

Ltac Zify.zify_post_hook ::= Z.div_mod_to_equations.

Definition enc_all (st0 : rc4st) (plain : bytes) : bytes := snd (rc4_xor st0 plain).

Lemma len_enc_all st0 p : len (enc_all st0 p) = len p.
Proof. unfold enc_all, len. now rewrite rc4_xor_length. Qed.

Lemma enc_all_app st0 p b :
  enc_all st0 (p ++ b) = enc_all st0 p ++ snd (rc4_xor (fst (rc4_xor st0 p)) b).
Proof. unfold enc_all. now rewrite rc4_xor_app. Qed.

Lemma ftake_all n a : len a <= n -> ftake n a = a.
Proof. unfold len, ftake. intros H. apply firstn_all2. lia. Qed.

Lemma ftake_app_ge n a b : len a <= n -> ftake n (a ++ b) = a ++ ftake (n - len a) b.
Proof.
  unfold len, ftake. intros H. rewrite firstn_app, firstn_all2 by lia. f_equal. f_equal. lia.
Qed.

(* [plain]: everything handed to Write so far *)
Definition Inv (st0 : rc4st) (plain : bytes) (s : cst) : Prop :=
  len (c_wire s) <= len plain /\
  c_wire s = ftake (len (c_wire s)) (enc_all st0 plain) /\
  (c_err s = false -> len (c_wire s) = len plain /\ c_enc s = fst (rc4_xor st0 plain)).

Lemma Inv_extend st0 plain b s : Inv st0 plain s -> c_err s = true -> Inv st0 (plain ++ b) s.
Proof.
  intros (Hl & Hw & He) Herr. unfold Inv. rewrite len_app. split; [lia|]. split.
  - rewrite enc_all_app, ftake_app_le by (rewrite len_enc_all; lia). exact Hw.
  - rewrite Herr. discriminate.
Qed.

Lemma cw_loop_spec st0 fuel : forall s b n script plain,
  Inv st0 plain s -> c_err s = false -> len b <= N.of_nat fuel * staging ->
  match cw_loop fuel s b n script with
  | (s', n', failed, _) =>
    Inv st0 (plain ++ b) s' /\ n' + len (c_wire s) = n + len (c_wire s') /\ failed = c_err s'
  end.
Proof.
  induction fuel as [|f IH]; intros s b n script plain HI Herr Hf.
  - assert (b = []) by (destruct b; [reflexivity|rewrite len_cons in Hf; lia]). subst b.
    cbn [cw_loop]. rewrite app_nil_r. split; [exact HI|]. split; [lia|now symmetry].
  - cbn [cw_loop]. destruct b as [|x b'] eqn:Eb.
    { rewrite app_nil_r. split; [exact HI|]. split; [lia|now symmetry]. }
    rewrite <- Eb in *. clear Eb x b'.
    set (m := N.min (len b) staging).
    destruct (rc4_xor (c_enc s) (ftake m b)) as [enc' ct] eqn:Ex.
    destruct HI as (Hl & Hw & He). destruct (He Herr) as [Hlen Henc].
    assert (Hm : m <= len b) by (subst m; lia).
    assert (Hct : enc_all st0 (plain ++ ftake m b) = c_wire s ++ ct /\ enc' = fst (rc4_xor st0 (plain ++ ftake m b))).
    { rewrite enc_all_app. rewrite rc4_xor_app. cbn [fst]. rewrite <- Henc, Ex. cbn [fst snd]. split; [|reflexivity].
      f_equal. rewrite Hw. rewrite Hlen. symmetry. apply ftake_all. rewrite len_enc_all. lia. }
    destruct Hct as [Hct Henc'].
    assert (Hlct : len ct = m).
    { assert (H := rc4_xor_length (c_enc s) (ftake m b)). rewrite Ex in H. cbn [snd] in H.
      unfold len. rewrite H. fold (len (ftake m b)). now apply len_ftake. }
    assert (Hsplit : plain ++ b = (plain ++ ftake m b) ++ fdrop m b) by (now rewrite <- app_assoc, ftake_fdrop).
    set (af := match script with [] => (m, false) | (a, f0) :: _ => (N.min a m, f0) end).
    destruct af as [acc fl] eqn:Eaf.
    assert (Hacc : acc <= m) by (subst af; destruct script as [|[a f0] r]; injection Eaf as <- <-; lia).
    destruct (fl || (acc <? m)) eqn:Eerr.
    + (* the underlying write failed or was short: the error is latched *)
      cbn [c_wire c_err]. split; [|split; [rewrite len_app, len_ftake by lia; lia|reflexivity]].
      unfold Inv. cbn [c_wire c_err c_enc]. rewrite len_app, len_ftake by lia. rewrite len_app.
      split; [lia|]. split; [|discriminate].
      rewrite Hsplit, enc_all_app, Hct.
      rewrite ftake_app_le by (rewrite len_app; lia).
      rewrite ftake_app_ge by lia. f_equal. f_equal. lia.
    + (* the whole staging buffer went out *)
      assert (acc = m) by lia. subst acc.
      set (s1 := {| c_enc := enc'; c_err := false; c_wire := c_wire s ++ ftake m ct |}).
      assert (HI1 : Inv st0 (plain ++ ftake m b) s1).
      { unfold Inv, s1. cbn [c_wire c_err c_enc]. rewrite (ftake_all m ct) by lia.
        rewrite !len_app, Hlct, len_ftake by lia. split; [lia|]. split.
        - rewrite Hct. symmetry. apply ftake_all. rewrite len_app. lia.
        - intros _. split; [lia|exact Henc']. }
      specialize (IH s1 (fdrop m b) (n + m) (tl script) (plain ++ ftake m b) HI1 eq_refl).
      rewrite <- Hsplit in IH.
      assert (Hf' : len (fdrop m b) <= N.of_nat f * staging).
      { rewrite len_fdrop. subst m. unfold staging in *. lia. }
      specialize (IH Hf').
      destruct (cw_loop f s1 (fdrop m b) (n + m) (tl script)) as [[[s2 n2] failed2] sc2].
      destruct IH as (H1 & H2 & H3). split; [exact H1|]. split; [|exact H3].
      unfold s1 in H2. cbn [c_wire] in H2. rewrite len_app, len_ftake in H2 by lia. lia.
Qed.

Lemma conn_write_spec st0 s b script plain :
  Inv st0 plain s ->
  match conn_write s b script with
  | (s', n, failed, _) =>
    Inv st0 (plain ++ b) s' /\ n + len (c_wire s) = len (c_wire s') /\ failed = c_err s' /\
    (c_err s = true -> s' = s /\ n = 0)
  end.
Proof.
  intros HI. unfold conn_write. destruct (c_err s) eqn:Herr.
  - split; [now apply Inv_extend|]. split; [lia|]. split; [now symmetry|]. auto.
  - pose proof (cw_loop_spec st0 (S (N.to_nat (len b / staging))) s b 0 script plain HI Herr) as H.
    assert (Hf : len b <= N.of_nat (S (N.to_nat (len b / staging))) * staging) by (unfold staging; lia).
    specialize (H Hf). destruct (cw_loop _ s b 0 script) as [[[s' n'] failed] sc].
    destruct H as (H1 & H2 & H3). split; [exact H1|]. split; [lia|]. split; [exact H3|discriminate].
Qed.

(* a whole history of Write calls *)
Fixpoint run_writes (s : cst) (ops : list (bytes * list (N * bool))) : cst * N :=
  match ops with
  | [] => (s, 0)
  | (b, script) :: r =>
    let '(s', n, _, _) := conn_write s b script in
    let (s'', total) := run_writes s' r in (s'', n + total)
  end.

Definition all_data (ops : list (bytes * list (N * bool))) : bytes := concat (map fst ops).

Lemma run_writes_spec st0 : forall ops s plain,
  Inv st0 plain s ->
  Inv st0 (plain ++ all_data ops) (fst (run_writes s ops)) /\
  snd (run_writes s ops) + len (c_wire s) = len (c_wire (fst (run_writes s ops))).
Proof.
  induction ops as [|[b script] r IH]; intros s plain HI; cbn [run_writes all_data map concat fst snd].
  - rewrite app_nil_r. split; [exact HI|lia].
  - pose proof (conn_write_spec st0 s b script plain HI) as H.
    destruct (conn_write s b script) as [[[s1 n1] f1] sc1]. destruct H as (H1 & H2 & _).
    specialize (IH s1 (plain ++ b) H1). fold (all_data r) in *.
    destruct (run_writes s1 r) as [s2 total]. cbn [fst snd] in *.
    rewrite app_assoc. split; [apply IH|lia].
Qed.

Definition conn_init (key : bytes) : cst := {| c_enc := rc4_init key; c_err := false; c_wire := [] |}.

Lemma Inv_init key : Inv (rc4_init key) [] (conn_init key).
Proof. unfold Inv, conn_init. cbn. split; [lia|]. split; [reflexivity|]. intros _. split; reflexivity. Qed.

(* decrypting a prefix of the cipher text gives that prefix of the plain text *)
Lemma decrypt_prefix st0 plain k :
  k <= len plain -> snd (rc4_xor st0 (ftake k (enc_all st0 plain))) = ftake k plain.
Proof.
  intros Hk. rewrite <- (ftake_fdrop k plain) at 1. rewrite enc_all_app.
  rewrite ftake_app_le by (rewrite len_enc_all, len_ftake; lia).
  rewrite ftake_all by (rewrite len_enc_all, len_ftake; lia).
  apply rc4_xor_invol.
Qed.

(* the property, for a connection keyed with any key: *)
Theorem conn_transparent key ops :
  let s := fst (run_writes (conn_init key) ops) in
  let reported := snd (run_writes (conn_init key) ops) in
  reported = len (c_wire s) /\
  reported <= len (all_data ops) /\
  snd (conn_read (rc4_init key) (c_wire s)) = ftake reported (all_data ops) /\
  (c_err s = false -> reported = len (all_data ops)).
Proof.
  cbn zeta. destruct (run_writes_spec (rc4_init key) ops (conn_init key) [] (Inv_init key)) as [HI Hn].
  cbn [app] in HI. cbn [conn_init c_wire] in Hn. rewrite len_nil in Hn.
  destruct HI as (Hl & Hw & He).
  split; [lia|]. split; [lia|]. split.
  - unfold conn_read. rewrite Hw. replace (snd (run_writes (conn_init key) ops)) with (len (c_wire (fst (run_writes (conn_init key) ops)))) by lia.
    now apply decrypt_prefix.
  - intros H. destruct (He H). lia.
Qed.

(* reading in pieces: the receiver's cipher state carries over *)
Theorem conn_read_pieces dec a b :
  snd (conn_read dec (a ++ b)) = snd (conn_read dec a) ++ snd (conn_read (fst (conn_read dec a)) b).
Proof. unfold conn_read. now rewrite rc4_xor_app. Qed.
