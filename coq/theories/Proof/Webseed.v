(* Proof/Webseed.v — lemmas about Model/Webseed.v. *)
From Coq Require Import ZifyBool ZifyN ZifyNat.
From Storrent Require Import Base.Bytes Base.Bencode Gen.Consts Model.Wire Model.Torfile Model.Namespace Model.Webseed.
Open Scope N_scope.

Ltac Zify.zify_post_hook ::= Z.div_mod_to_equations.

(* ---------- fileChunks tiles the requested range ---------- *)

(* a well-formed table: non-negative lengths, laid out contiguously from [base] *)
Fixpoint laid_out (files : list torfile) (base : Z) : Prop :=
  match files with
  | [] => True
  | f :: r => f_off f = base /\ (0 <= f_len f)%Z /\ laid_out r (base + f_len f)%Z
  end.

Fixpoint total_len (files : list torfile) : Z :=
  match files with [] => 0%Z | f :: r => (f_len f + total_len r)%Z end.

(* the chunks, in order, cover consecutive torrent ranges starting at o *)
Fixpoint covers (chunks : list fchunk) (files : list torfile) (o : Z) : Prop :=
  match chunks with
  | [] => True
  | c :: r =>
    (exists f, In f files /\ f_path f = fc_path c /\ f_len f = fc_flen c /\ f_pad f = fc_pad c /\
               (f_off f + fc_off c = o)%Z /\ (0 <= fc_off c)%Z /\ (0 < fc_len c)%Z /\
               (fc_off c + fc_len c <= f_len f)%Z) /\
    covers r files (o + fc_len c)%Z
  end.

Fixpoint chunks_len (chunks : list fchunk) : Z :=
  match chunks with [] => 0%Z | c :: r => (fc_len c + chunks_len r)%Z end.

Lemma covers_weaken chunks files f0 o : covers chunks files o -> covers chunks (f0 :: files) o.
Proof.
  revert o; induction chunks as [|c r IH]; intros o; cbn [covers]; [auto|].
  intros [(f & Hin & H) Hr]. split; [exists f; split; [now right|exact H]|now apply IH].
Qed.

Lemma fc_loop_spec files : forall base o l,
  laid_out files base -> (base <= o)%Z -> (0 < l)%Z -> (o + l <= base + total_len files)%Z ->
  covers (fc_loop files o l) files o /\ chunks_len (fc_loop files o l) = l.
Proof.
  induction files as [|f r IH]; intros base o l L Ho Hl Hend; cbn [fc_loop].
  - cbn in Hend. lia.
  - cbn [laid_out total_len] in L, Hend. destruct L as (Hoff & Hlen & L).
    destruct (f_off f + f_len f <=? o)%Z eqn:E1.
    + destruct (IH (base + f_len f)%Z o l L ltac:(lia) Hl ltac:(lia)) as [C S].
      split. { now apply covers_weaken. } exact S.
    + destruct (o + l <=? f_off f)%Z eqn:E2; [lia|].
      set (m := Z.min (f_len f - (o - f_off f)) l).
      assert (Hm : (0 < m <= l)%Z) by (subst m; lia).
      assert (Hc : exists f', In f' (f :: r) /\ f_path f' = f_path f /\ f_len f' = f_len f /\ f_pad f' = f_pad f /\
                   (f_off f' + (o - f_off f) = o)%Z /\ (0 <= o - f_off f)%Z /\ (0 < m)%Z /\
                   (o - f_off f + m <= f_len f')%Z).
      { exists f. repeat split; try reflexivity; try lia; try (now left); subst m; lia. }
      destruct (l - m <=? 0)%Z eqn:E3.
      * cbn [covers chunks_len fc_path fc_flen fc_pad fc_off fc_len]. split; [split; [exact Hc|exact I]|].
        fold m. lia.
      * cbn [covers chunks_len fc_path fc_flen fc_pad fc_off fc_len].
        assert (Hm2 : m = (f_len f - (o - f_off f))%Z) by (subst m; lia).
        destruct (IH (base + f_len f)%Z (o + m)%Z (l - m)%Z L ltac:(lia) ltac:(lia) ltac:(lia)) as [C S].
        split; [split; [exact Hc|now apply covers_weaken]|]. fold m. lia.
Qed.

(* ---------- the writer never stores outside its range ---------- *)

Lemma add_count_le fuel : forall pl off n c, c <= n -> add_count fuel pl off n c <= n.
Proof.
  induction fuel as [|f IH]; intros pl off n c H; cbn [add_count]; [exact H|].
  destruct (n <=? c); [exact H|]. destruct (pl <=? off); [exact H|].
  destruct (n <? c + N.min ChunkSize (pl - off)) eqn:E; [exact H|].
  destruct (_ mod ChunkSize =? 0); [apply IH; lia|lia].
Qed.

Lemma add_data_le pl off n : fst (add_data pl off n) <= n.
Proof.
  unfold add_data. destruct (negb _); [cbn; lia|]. destruct (pl <=? off); [cbn; lia|].
  cbn [fst]. apply add_count_le. lia.
Qed.

(* every store made by w_write lies inside [w_off, w_off + len data) and the writer's
   offset and remaining count move by exactly what was stored *)
Lemma w_write_spec pl s data s' n evs err :
  w_write pl s data = (s', n, evs, err) ->
  n <= len data /\ w_off s' = w_off s + n /\ w_count s' = w_count s - n /\
  forall o d, In (WStore o d) evs -> o = w_off s /\ len d <= n.
Proof.
  unfold w_write. pose proof (add_data_le pl (w_off s) (len data)) as L.
  destruct (add_data pl (w_off s) (len data)) as [count e]. cbn [fst] in L.
  destruct (0 <? count) eqn:C; intros [= <- <- <- <-]; cbn [w_off w_count].
  - split; [lia|]. split; [lia|]. split; [lia|]. intros o d Hin.
    destruct Hin as [[= <- <-]|[Hin|[]]]; [|discriminate].
    split; [reflexivity|]. unfold len. rewrite firstn_length. lia.
  - split; [lia|]. split; [lia|]. split; [lia|]. intros o d [].
Qed.

(* Write: stores stay below the end of the range *)
Lemma w_Write_in_range pl s p s' n evs err :
  w_Write pl s p = (s', n, evs, err) ->
  (forall o d, In (WStore o d) evs -> w_off s <= o /\ o + len d <= w_off s + w_count s) /\
  w_off s' + w_count s' = w_off s + w_count s /\ len (w_buf s') <= w_count s' \/ evs = [].
Proof.
  unfold w_Write. destruct (w_closed s); [intros [= <- <- <- <-]; now right|].
  destruct (w_count s <? len (w_buf s)) eqn:B; [intros [= <- <- <- <-]; now right|].
  set (q := firstn _ p). set (data := w_buf s ++ q).
  destruct (w_write pl s data) as [[[s1 m] e1] er1] eqn:W.
  apply w_write_spec in W as (Hm & Ho & Hc & Hst).
  intros [= <- <- <- <-]. cbn [w_off w_count w_buf]. left.
  assert (Hd : len data <= w_count s).
  { subst data q. rewrite len_app. unfold len at 2. rewrite firstn_length. lia. }
  split; [|split].
  - intros o d Hin. apply Hst in Hin as [-> Hl]. lia.
  - lia.
  - unfold len. rewrite skipn_length. unfold len in *. lia.
Qed.

(* ---------- GetRight: an accepted response is copied up to the requested length only ---------- *)

Lemma get_decide_limit status cr cl offset length flength lim :
  get_decide status cr cl offset length flength = GCopy lim -> lim = length.
Proof.
  unfold get_decide. intros H.
  repeat match type of H with
  | context [if ?c then _ else _] => destruct c
  | context [match ?x with _ => _ end] => destruct x
  end; try discriminate; now injection H.
Qed.

(* ---------- every reserved byte is released exactly once: TorData for what was stored, TorDrop
   for the rest on Close ---------- *)

Definition rel_range (e : wev) : list (N * N) :=
  match e with WData o n => [(o, n)] | WDrop o n => [(o, n)] | WStore _ _ => [] end.
Definition released (evs : list wev) : list (N * N) := flat_map rel_range evs.

(* consecutive ranges starting at [start] *)
Fixpoint chained (start : N) (l : list (N * N)) : Prop :=
  match l with
  | [] => True
  | (o, n) :: r => o = start /\ chained (start + n) r
  end.
Fixpoint total_rel (l : list (N * N)) : N := match l with [] => 0 | (_, n) :: r => n + total_rel r end.

Lemma chained_app l1 : forall start l2,
  chained start l1 -> chained (start + total_rel l1) l2 -> chained start (l1 ++ l2).
Proof.
  induction l1 as [|[o n] r IH]; intros start l2 H1 H2; cbn [app chained total_rel] in *.
  - now rewrite N.add_0_r in H2.
  - destruct H1 as [-> H1]. split; [reflexivity|]. apply IH; [exact H1|]. now rewrite N.add_assoc in H2.
Qed.
Lemma total_rel_app l1 l2 : total_rel (l1 ++ l2) = total_rel l1 + total_rel l2.
Proof. induction l1 as [|[o n] r IH]; cbn [app total_rel]; [reflexivity|]. rewrite IH. lia. Qed.

(* a writer in a sound state: open, and never buffering more than remains *)
Definition w_ok (s : wstate) : Prop := w_closed s = false /\ len (w_buf s) <= w_count s.

Lemma w_Write_releases pl s p s' n evs err :
  w_ok s -> w_Write pl s p = (s', n, evs, err) ->
  w_ok s' /\ chained (w_off s) (released evs) /\
  w_off s' = w_off s + total_rel (released evs) /\ w_count s' + total_rel (released evs) = w_count s.
Proof.
  intros [Hc Hb]. unfold w_Write. rewrite Hc.
  destruct (w_count s <? len (w_buf s)) eqn:B; [lia|].
  set (q := firstn _ p). set (data := w_buf s ++ q).
  destruct (w_write pl s data) as [[[s1 m] e1] er1] eqn:W.
  assert (Hd : len data <= w_count s).
  { subst data q. rewrite len_app. unfold len at 2. rewrite firstn_length. lia. }
  pose proof W as W'. apply w_write_spec in W' as (Hm & Ho & Hcnt & _).
  unfold w_write in W. destruct (add_data pl (w_off s) (len data)) as [count e].
  intros [= <- <- <- <-]. cbn [w_off w_count w_buf w_closed].
  destruct (0 <? count) eqn:C; injection W as <- <- <- <-; cbn [w_off w_count w_buf w_closed released flat_map rel_range app chained total_rel] in *.
  - split; [unfold w_ok; cbn [w_closed w_buf w_count]; split; [reflexivity|unfold len in *; rewrite skipn_length; lia]|].
    split; [split; [reflexivity|exact I]|]. split; lia.
  - split; [unfold w_ok; cbn [w_closed w_buf w_count]; split; [reflexivity|unfold len in *; rewrite skipn_length; lia]|].
    split; [exact I|]. split; lia.
Qed.

Fixpoint w_run (pl : N) (s : wstate) (ws : list bytes) : wstate * list wev :=
  match ws with
  | [] => (s, [])
  | p :: r => let '(s1, _, evs, _) := w_Write pl s p in
              let (s2, evs2) := w_run pl s1 r in (s2, evs ++ evs2)
  end.

Lemma w_run_releases pl : forall ws s,
  w_ok s ->
  let (s', evs) := w_run pl s ws in
  w_ok s' /\ chained (w_off s) (released evs) /\
  w_off s' = w_off s + total_rel (released evs) /\ w_count s' + total_rel (released evs) = w_count s.
Proof.
  induction ws as [|p r IH]; intros s Hs; cbn [w_run].
  - cbn [released flat_map chained total_rel]. repeat split; try apply Hs; lia.
  - destruct (w_Write pl s p) as [[[s1 n] evs] err] eqn:W.
    destruct (w_Write_releases pl s p s1 n evs err Hs W) as (Hs1 & Hch & Hoff & Hcnt).
    specialize (IH s1 Hs1). destruct (w_run pl s1 r) as [s2 evs2]. destruct IH as (Hs2 & Hch2 & Hoff2 & Hcnt2).
    unfold released in *. rewrite flat_map_app. fold (released evs) (released evs2) in *.
    split; [exact Hs2|]. split; [|rewrite total_rel_app; split; lia].
    apply chained_app; [exact Hch|]. now rewrite <- Hoff.
Qed.

(* Any sequence of Writes (any sizes, any outcome of AddData) followed by Close releases exactly
   the range that was reserved: consecutive ranges from the initial offset, of total length the
   initial count. *)
Theorem writer_releases_all pl s ws :
  w_ok s ->
  let (s1, evs) := w_run pl s ws in
  let (s2, cl) := w_Close s1 in
  chained (w_off s) (released (evs ++ cl)) /\ total_rel (released (evs ++ cl)) = w_count s /\ w_count s2 = 0.
Proof.
  intros Hs. pose proof (w_run_releases pl ws s Hs) as H. destruct (w_run pl s ws) as [s1 evs].
  destruct H as ((Hc1 & Hb1) & Hch & Hoff & Hcnt). unfold w_Close. rewrite Hc1.
  unfold released. rewrite flat_map_app. fold (released evs).
  destruct (0 <? w_count s1) eqn:C; cbn [flat_map rel_range app w_count].
  - split; [|split; [rewrite total_rel_app; cbn [total_rel]; lia|reflexivity]].
    apply chained_app; [exact Hch|]. cbn [chained]. split; [lia|exact I].
  - rewrite app_nil_r. split; [exact Hch|]. split; [lia|reflexivity].
Qed.
