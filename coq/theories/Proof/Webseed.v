(* Proof/Webseed.v — lemmas about Model/Webseed.v. *)
From Coq Require Import ZifyBool ZifyN ZifyNat.
From Storrent Require Import Base.Bytes Base.Bencode Gen.Consts Model.Wire Model.Torfile Model.Namespace Model.Webseed.
Open Scope N_scope.

Ltac Zify.zify_post_hook ::= Z.div_mod_to_equations.

(* ---------- fileChunks tiles the requested range ---------- *)

(* a well-formed table: non-negative lengths, laid out contiguously from [base] *)
Fixpoint laid_out (files : list torfile) (base : Z) : Prop :=
  match files with
  | [] => True
  | f :: r => f_off f = base /\ (0 <= f_len f)%Z /\ laid_out r (base + f_len f)%Z
  end.

Fixpoint total_len (files : list torfile) : Z :=
  match files with [] => 0%Z | f :: r => (f_len f + total_len r)%Z end.

(* the chunks, in order, cover consecutive torrent ranges starting at o *)
Fixpoint covers (chunks : list fchunk) (files : list torfile) (o : Z) : Prop :=
  match chunks with
  | [] => True
  | c :: r =>
    (exists f, In f files /\ f_path f = fc_path c /\ f_len f = fc_flen c /\ f_pad f = fc_pad c /\
               (f_off f + fc_off c = o)%Z /\ (0 <= fc_off c)%Z /\ (0 < fc_len c)%Z /\
               (fc_off c + fc_len c <= f_len f)%Z) /\
    covers r files (o + fc_len c)%Z
  end.

Fixpoint chunks_len (chunks : list fchunk) : Z :=
  match chunks with [] => 0%Z | c :: r => (fc_len c + chunks_len r)%Z end.

Lemma covers_weaken chunks files f0 o : covers chunks files o -> covers chunks (f0 :: files) o.
Proof.
  revert o; induction chunks as [|c r IH]; intros o; cbn [covers]; [auto|].
  intros [(f & Hin & H) Hr]. split; [exists f; split; [now right|exact H]|now apply IH].
Qed.

Lemma fc_loop_spec files : forall base o l,
  laid_out files base -> (base <= o)%Z -> (0 < l)%Z -> (o + l <= base + total_len files)%Z ->
  covers (fc_loop files o l) files o /\ chunks_len (fc_loop files o l) = l.
Proof.
  induction files as [|f r IH]; intros base o l L Ho Hl Hend; cbn [fc_loop].
  - cbn in Hend. lia.
  - cbn [laid_out total_len] in L, Hend. destruct L as (Hoff & Hlen & L).
    destruct (f_off f + f_len f <=? o)%Z eqn:E1.
    + destruct (IH (base + f_len f)%Z o l L ltac:(lia) Hl ltac:(lia)) as [C S].
      split. { now apply covers_weaken. } exact S.
    + destruct (o + l <=? f_off f)%Z eqn:E2; [lia|].
      set (m := Z.min (f_len f - (o - f_off f)) l).
      assert (Hm : (0 < m <= l)%Z) by (subst m; lia).
      assert (Hc : exists f', In f' (f :: r) /\ f_path f' = f_path f /\ f_len f' = f_len f /\ f_pad f' = f_pad f /\
                   (f_off f' + (o - f_off f) = o)%Z /\ (0 <= o - f_off f)%Z /\ (0 < m)%Z /\
                   (o - f_off f + m <= f_len f')%Z).
      { exists f. repeat split; try reflexivity; try lia; try (now left); subst m; lia. }
      destruct (l - m <=? 0)%Z eqn:E3.
      * cbn [covers chunks_len fc_path fc_flen fc_pad fc_off fc_len]. split; [split; [exact Hc|exact I]|].
        fold m. lia.
      * cbn [covers chunks_len fc_path fc_flen fc_pad fc_off fc_len].
        assert (Hm2 : m = (f_len f - (o - f_off f))%Z) by (subst m; lia).
        destruct (IH (base + f_len f)%Z (o + m)%Z (l - m)%Z L ltac:(lia) ltac:(lia) ltac:(lia)) as [C S].
        split; [split; [exact Hc|now apply covers_weaken]|]. fold m. lia.
Qed.

(* ---------- the writer never stores outside its range ---------- *)

Lemma add_count_le fuel : forall pl off n c, c <= n -> add_count fuel pl off n c <= n.
Proof.
  induction fuel as [|f IH]; intros pl off n c H; cbn [add_count]; [exact H|].
  destruct (n <=? c); [exact H|]. destruct (pl <=? off); [exact H|].
  destruct (n <? c + N.min ChunkSize (pl - off)) eqn:E; [exact H|].
  destruct (_ mod ChunkSize =? 0); [apply IH; lia|lia].
Qed.

Lemma add_data_le pl off n : fst (add_data pl off n) <= n.
Proof.
  unfold add_data. destruct (negb _); [cbn; lia|]. destruct (pl <=? off); [cbn; lia|].
  cbn [fst]. apply add_count_le. lia.
Qed.

(* every store made by w_write lies inside [w_off, w_off + len data) and the writer's
   offset and remaining count move by exactly what was stored *)
Lemma w_write_spec pl s data s' n evs err :
  w_write pl s data = (s', n, evs, err) ->
  n <= len data /\ w_off s' = w_off s + n /\ w_count s' = w_count s - n /\
  forall o d, In (WStore o d) evs -> o = w_off s /\ len d <= n.
Proof.
  unfold w_write. pose proof (add_data_le pl (w_off s) (len data)) as L.
  destruct (add_data pl (w_off s) (len data)) as [count e]. cbn [fst] in L.
  destruct (0 <? count) eqn:C; intros [= <- <- <- <-]; cbn [w_off w_count].
  - split; [lia|]. split; [lia|]. split; [lia|]. intros o d Hin.
    destruct Hin as [[= <- <-]|[Hin|[]]]; [|discriminate].
    split; [reflexivity|]. unfold len. rewrite firstn_length. lia.
  - split; [lia|]. split; [lia|]. split; [lia|]. intros o d [].
Qed.

(* Write: stores stay below the end of the range *)
Lemma w_Write_in_range pl s p s' n evs err :
  w_Write pl s p = (s', n, evs, err) ->
  (forall o d, In (WStore o d) evs -> w_off s <= o /\ o + len d <= w_off s + w_count s) /\
  w_off s' + w_count s' = w_off s + w_count s /\ len (w_buf s') <= w_count s' \/ evs = [].
Proof.
  unfold w_Write. destruct (w_closed s); [intros [= <- <- <- <-]; now right|].
  destruct (w_count s <? len (w_buf s)) eqn:B; [intros [= <- <- <- <-]; now right|].
  set (q := firstn _ p). set (data := w_buf s ++ q).
  destruct (w_write pl s data) as [[[s1 m] e1] er1] eqn:W.
  apply w_write_spec in W as (Hm & Ho & Hc & Hst).
  intros [= <- <- <- <-]. cbn [w_off w_count w_buf]. left.
  assert (Hd : len data <= w_count s).
  { subst data q. rewrite len_app. unfold len at 2. rewrite firstn_length. lia. }
  split; [|split].
  - intros o d Hin. apply Hst in Hin as [-> Hl]. lia.
  - lia.
  - unfold len. rewrite skipn_length. unfold len in *. lia.
Qed.

(* ---------- GetRight: an accepted response is copied up to the requested length only ---------- *)

Lemma get_decide_limit status cr cl offset length flength lim :
  get_decide status cr cl offset length flength = GCopy lim -> lim = length.
Proof.
  unfold get_decide. intros H.
  repeat match type of H with
  | context [if ?c then _ else _] => destruct c
  | context [match ?x with _ => _ end] => destruct x
  end; try discriminate; now injection H.
Qed.
