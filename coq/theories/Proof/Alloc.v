(* Proof/Alloc.v — what handling one message from the remote peer may allocate: at most twice the
   size of the message, twice the size of the peer's current bitmap and twice the size a bitmap
   of this torrent can have, plus a constant. *)
From Coq Require Import ZifyBool ZifyN ZifyNat.
From Storrent Require Import Base.Bytes Base.Bencode Gen.Consts Model.Wire Model.PeerCore Proof.PeerCore.
Open Scope N_scope.

Definition msg_size (m : msg) : N := len (match m with
  | Bitfield b => b | Piece _ _ d => d | ExtendedMetadata _ _ _ _ d => d
  | ExtendedPex _ a d => repeat 0 (18 * (length a + length d))
  | Extended0 e => repeat 0 (100 + length (e_version e) + 16 * length (e_messages e))
  | _ => [] end) + 20.

(* the size of a bitmap of this torrent (or the cap the handler imposes before the metadata is known) *)
Definition bm_cap (s : pstate) : N :=
  match s_geo s with Some g => num_pieces g / 8 + 1 | None => max_pieces_unknown / 8 + 1 end.

Ltac al_simpl :=
  unfold upd_st, add_ev, add_alloc, set_legit, with_wq, with_reqs, with_bitmap, with_my, with_ext,
         with_lists, with_geo, with_wdead, with_flags, with_requested; cbn [a_alloc a_st].

Lemma al_set_legit x b : a_alloc (set_legit x b) = a_alloc x.
Proof. reflexivity. Qed.
Lemma al_write a m : a_alloc (fst (write a m)) = a_alloc a.
Proof. unfold write. break_goal; cbn [fst]; reflexivity. Qed.
Lemma al_drop a c : a_alloc (drop a c) = a_alloc a.
Proof. unfold drop. destruct (from_chunk _ _). reflexivity. Qed.
Lemma al_reject a i b l : a_alloc (fst (reject a i b l)) = a_alloc a.
Proof. unfold reject. destruct (s_can_fast _); [apply al_write|reflexivity]. Qed.
Lemma al_docancel a c : a_alloc (fst (docancel a c)) = a_alloc a.
Proof. unfold docancel. destruct (from_chunk _ _). apply al_write. Qed.
Lemma al_maybe_interested a : a_alloc (fst (maybe_interested a)) = a_alloc a.
Proof.
  unfold maybe_interested. destruct (Bool.eqb _ _); [reflexivity|].
  match goal with |- context [write a ?m] => pose proof (al_write a m) as H; destruct (write a m) as [a' e] end.
  cbn [fst] in H. destruct e; cbn [fst]; exact H.
Qed.
Lemma al_mr_loop k : forall a, a_alloc (mr_loop k a) = a_alloc a.
Proof.
  induction k as [|k IH]; intros a; cbn [mr_loop]; [reflexivity|].
  destruct (rq_queue _) as [|index qrest]; [reflexivity|]. destruct (congested _ || _); [reflexivity|].
  destruct (from_chunk _ index) as [i b]. destruct (_ || _).
  - now rewrite IH, al_drop.
  - match goal with |- context [write ?x ?m] => pose proof (al_write x m) as H; destruct (write x m) as [a2 e] end.
    cbn [fst] in H. destruct e; [rewrite IH; exact H| |]; unfold set_legit; cbn [a_alloc]; rewrite al_drop; exact H.
Qed.
Lemma al_maybe_request k a : a_alloc (maybe_request k a) = a_alloc a.
Proof. unfold maybe_request. destruct (_ && _); [reflexivity|apply al_mr_loop]. Qed.
Lemma al_fold_drop l : forall a, a_alloc (fold_left drop l a) = a_alloc a.
Proof. induction l as [|c r IH]; intros a; cbn [fold_left]; [reflexivity|]. now rewrite IH, al_drop. Qed.
Lemma al_clear_requests a both : a_alloc (clear_requests a both) = a_alloc a.
Proof. unfold clear_requests. rewrite al_fold_drop. destruct both; [rewrite al_fold_drop|]; reflexivity. Qed.
Lemma al_reject_all l : forall a, a_alloc (fst (reject_all a l)) = a_alloc a.
Proof.
  induction l as [|r t IH]; intros a; cbn [reject_all]; [reflexivity|].
  pose proof (al_reject a (u_index r) (u_begin r) (u_length r)) as H.
  destruct (reject a _ _ _) as [a' e]. cbn [fst] in H. destruct e; cbn [fst]; try exact H. now rewrite IH.
Qed.
Lemma al_unchoke a u : a_alloc (fst (unchoke a u)) = a_alloc a.
Proof.
  unfold unchoke. destruct (Bool.eqb _ _); [reflexivity|]. destruct (u && _).
  - pose proof (al_write a Unchoke) as H. destruct (write a Unchoke) as [a' e]. cbn [fst] in H. destruct e; cbn [fst]; exact H.
  - pose proof (al_write a Choke) as H. destruct (write a Choke) as [a' e]. cbn [fst] in H.
    destruct e; cbn [fst]; try exact H. rewrite al_reject_all. exact H.
Qed.
Lemma al_retract a : a_alloc (retract_bitmap a) = a_alloc a + blen (peer_bm (a_st a)).
Proof. unfold retract_bitmap, peer_bm. destruct (s_bitmap (a_st a)); cbn [a_alloc add_alloc add_ev bm_nil blen]; lia. Qed.

(* bitmaps grow only as far as the highest bit set *)
Lemma blen_set b i : blen (bm_set b i) = N.max (blen b) (i / 8 + 1).
Proof. unfold bm_set, bm_extend. destruct (blen b <=? i / 8) eqn:E; cbn [blen]; lia. Qed.

Lemma blen_set_multiple n : blen (bm_set_multiple bm_nil n) = n / 8 + 1.
Proof.
  unfold bm_set_multiple.
  assert (H : forall k, k <= n -> blen (N.recursion (bm_extend bm_nil n) (fun i acc => bm_set acc i) k) = n / 8 + 1).
  { intros k. induction k as [|k IH] using N.peano_ind; intros Hk.
    - rewrite N.recursion_0. unfold bm_extend, bm_nil. cbn [blen]. destruct (0 <=? n / 8) eqn:E; cbn [blen]; lia.
    - rewrite N.recursion_succ; [|reflexivity|intros x y -> a b ->; reflexivity].
      rewrite blen_set, IH by lia.
      assert (k / 8 <= n / 8) by (apply N.div_le_mono; lia). lia. }
  apply H. lia.
Qed.

Ltac fin := cbv beta iota zeta; cbn [fst snd negb a_alloc a_st add_alloc add_ev upd_st acc0 set_legit]; unfold len, llen; cbn [length]; lia.

Theorem message_alloc_bounded s ballast m ad k :
  a_alloc (fst (step s ballast (OpMsg m ad) k)) <=
  2 * msg_size m + 2 * blen (peer_bm s) + 2 * bm_cap s + 64.
Proof.
  unfold step. set (s0 := if s_wdead s then s else with_wq s ballast).
  assert (Eb : peer_bm s0 = peer_bm s) by (subst s0; now destruct (s_wdead s)).
  assert (Eg : s_geo s0 = s_geo s) by (subst s0; now destruct (s_wdead s)).
  assert (Ec : bm_cap s0 = bm_cap s) by (unfold bm_cap; now rewrite Eg).
  rewrite <- Eb, <- Ec. clear Eb Eg Ec. generalize s0. clear s s0 ballast. intros s.
  assert (K0 : forall r : res, a_alloc (fst (set_legit (fst r) (match k with O => true | _ => false end), snd r)) = a_alloc (fst r)) by reflexivity.
  destruct m as [| | | | |i|bf|i b l|i b d|i b l|pt|i| | |i b l|i|e|sub added dropped|sub tpe piece total d|sub i|sub v|sub|ty];
    cbn [fst]; rewrite ?al_set_legit; cbn [handle_message acc0 a_st]; unfold ok, of_werr, msg_size, bm_cap.
  - (* KeepAlive *) fin.
  - (* Choke *) cbn [fst]. unfold add_ev. cbn [a_alloc]. rewrite al_clear_requests. fin.
  - (* Unchoke *) fin.
  - (* Interested *) fin.
  - (* NotInterested *)
    match goal with |- context [unchoke ?x false] => pose proof (al_unchoke x false) as H; destruct (unchoke x false) as [a1 e] end.
    cbn [fst] in *. unfold add_ev. cbn [a_alloc]. rewrite H. fin.
  - (* Have *)
    destruct (s_geo s) as [g|] eqn:G.
    + destruct (num_pieces g <=? i) eqn:R; [fin|]. destruct (bm_get _ _); [fin|].
      cbn [fst]. rewrite al_maybe_interested. unfold add_ev, add_alloc, upd_st. cbn [a_alloc acc0].
      rewrite blen_set. assert (i / 8 <= num_pieces g / 8) by (apply N.div_le_mono; lia). unfold len; cbn [length]. lia.
    + destruct (max_pieces_unknown <=? i) eqn:R; [fin|]. destruct (bm_get _ _); [fin|].
      cbn [fst]. rewrite al_maybe_interested. unfold add_ev, add_alloc, upd_st. cbn [a_alloc acc0].
      rewrite blen_set. assert (i / 8 <= max_pieces_unknown / 8) by (apply N.div_le_mono; lia).
      set (M := max_pieces_unknown / 8) in *. unfold len; cbn [length]. lia.
  - (* Bitfield *)
    match goal with |- context [if ?c then _ else _] => destruct c end; [fin|].
    cbn [fst]. rewrite al_maybe_interested. cbn [a_alloc add_alloc add_ev upd_st]. rewrite al_retract.
    cbn [a_alloc add_alloc a_st acc0]. set (C := match s_geo s with Some g => _ | None => _ end). lia.
  - (* Request *)
    destruct (_ || _); [destruct (snd _); cbn [fst]; rewrite al_reject; fin|].
    destruct (upload_queue_max <=? _).
    + destruct (s_requested s) as [|h t]; [fin|].
      match goal with |- context [reject ?x ?i0 ?b0 ?l0] => pose proof (al_reject x i0 b0 l0) as H; destruct (reject x i0 b0 l0) as [a1 e] end.
      cbn [fst] in H. destruct e; cbn [negb fst]; unfold add_alloc, upd_st; cbn [a_alloc]; rewrite ?H; fin.
    + fin.
  - (* Piece *)
    destruct (s_geo s) as [g|]; [|fin]. destruct (num_pieces g <=? i); [fin|].
    destruct (rq_del _ _ false) as [[[rq q] r]|]; [|fin]. cbn [fst]. rewrite al_maybe_request.
    destruct (r || q); [|fin]. destruct (len d =? _); [destruct ad|]; unfold add_ev, set_legit; rewrite ?al_drop; fin.
  - (* Cancel *)
    destruct (s_geo s); [|fin]. destruct (remove_first_upreq _ _ _ _); [|fin].
    destruct (snd _); cbn [fst]; rewrite al_reject; fin.
  - (* Port *) fin.
  - (* SuggestPiece *) destruct (s_can_fast s); fin.
  - (* HaveAll *)
    destruct (negb _); [fin|]. destruct (s_geo s) as [g|] eqn:G; cbn [fst]; rewrite al_maybe_interested.
    + cbn [a_alloc add_alloc add_ev upd_st]. rewrite al_retract.
      rewrite blen_set_multiple. cbn [acc0 a_alloc a_st]. unfold len; cbn [length]. lia.
    + cbn [a_alloc upd_st]. rewrite al_retract. cbn [acc0 a_alloc a_st]. unfold len; cbn [length]. lia.
  - (* HaveNone *)
    destruct (negb _); [fin|]. cbn [fst a_alloc upd_st]. rewrite al_retract. cbn [acc0 a_alloc a_st].
    set (C := match s_geo s with Some g => _ | None => _ end). unfold len; cbn [length]. lia.
  - (* RejectRequest *)
    destruct (negb _); [fin|]. destruct (s_geo s); [|fin].
    destruct (rq_del _ _ true) as [[[rq q] r]|]; [|fin]. cbn [fst]. rewrite al_maybe_request.
    destruct r; rewrite ?al_drop; fin.
  - (* AllowedFast *) destruct (negb _); [fin|]. destruct (is_fast s i); fin.
  - (* Extended0 *) destruct (s_got_extended s); fin.
  - (* ExtendedPex *)
    cbn [fst a_alloc add_alloc upd_st acc0]. unfold len, llen. rewrite repeat_length. lia.
  - (* ExtendedMetadata *)
    destruct (tpe =? 0).
    + destruct (_ || _); [fin|]. destruct (0 <? _)%Z.
      * match goal with |- context [write ?x ?mm] => pose proof (al_write x mm) as H; destruct (write x mm) as [a1 e] end.
        cbn [fst] in H. destruct e; cbn [fst]; rewrite ?al_write, ?H; fin.
      * cbn [fst]. rewrite al_write. fin.
    + destruct (tpe =? 1); [fin|]. destruct (tpe =? 2); fin.
  - (* ExtendedDontHave *)
    destruct (_ && _); [fin|]. match goal with |- context [if ?c then _ else _] => destruct c end; [fin|].
    destruct (bm_get _ _); fin.
  - (* ExtendedUploadOnly *) fin.
  - (* ExtendedUnknown *) fin.
  - (* Unknown *) fin.
Qed.
