(* Proof/Magnet.v — magnet links: a hash that is returned has 20 bytes; the link written for a hash,
   followed by any further parameters, reads back as that hash. *)
From Storrent Require Import Base.Bytes Base.Bencode Model.Wire Model.Torfile Model.Magnet.
From Coq Require Import String Lia ZifyBool ZifyN ZifyNat.
Open Scope N_scope.

Ltac Zify.zify_post_hook ::= Z.div_mod_to_equations.

Lemma hash_parse_len s h : hash_parse s = Some h -> len h = 20.
Proof.
  unfold hash_parse. intros H.
  assert (B : match b32_decode (S (List.length s)) s with
              | Some h' => if len h' =? 20 then Some h' else None | None => None end = Some h -> len h = 20).
  { destruct (b32_decode _ s) as [y|]; [|discriminate].
    destruct (len y =? 20) eqn:E2; [|discriminate]. intros [= <-]. apply N.eqb_eq; exact E2. }
  destruct (hex_decode s) as [x|]; [|exact (B H)].
  destruct (len x =? 20) eqn:E; [|exact (B H)].
  injection H as <-. apply N.eqb_eq; exact E.
Qed.

Lemma first_hash_len xts h : first_hash xts = Some h -> len h = 20.
Proof.
  induction xts as [|v r IH]; cbn [first_hash]; [discriminate|].
  destruct (has_prefix xt_prefix v); [|exact IH].
  destruct (hash_parse (skipn 9 v)) eqn:E; [|exact IH].
  intros [= <-]. eapply hash_parse_len; eauto.
Qed.

Theorem magnet_hash_len m h : read_magnet m = MgOk h -> len h = 20.
Proof.
  unfold read_magnet. destruct (hash_parse m) eqn:E.
  { intros [= <-]; eapply hash_parse_len; eauto. }
  destruct (get_scheme m) as [sch rest]. destruct (negb _); [discriminate|].
  match goal with |- context [first_hash ?x] => destruct (first_hash x) eqn:F end; [|discriminate].
  intros [= <-]. eapply first_hash_len; eauto.
Qed.

(* ---------- the round trip ---------- *)
Lemma hexval_digit v : v < 16 -> hexval (hexdigit v) = Some v.
Proof.
  intros Hv. unfold hexval, hexdigit. destruct (v <? 10) eqn:E.
  - assert (H1 : (48 <=? 48 + v) && (48 + v <=? 57) = true) by lia. rewrite H1. f_equal; lia.
  - assert (H1 : (48 <=? 87 + v) && (87 + v <=? 57) = false) by lia. rewrite H1.
    assert (H2 : (97 <=? 87 + v) && (87 + v <=? 102) = true) by lia. rewrite H2. f_equal; lia.
Qed.

Lemma hex_decode_encode h : Forall (fun b => b < 256) h -> hex_decode (hex_encode h) = Some h.
Proof.
  induction h as [|a h IH]; intros F; [reflexivity|].
  inversion F as [|? ? Ha Fh]; subst.
  change (hex_encode (a :: h)) with (hexdigit (a / 16) :: hexdigit (a mod 16) :: hex_encode h).
  cbn [hex_decode]. rewrite !hexval_digit by lia. rewrite (IH Fh). f_equal. f_equal. lia.
Qed.

Lemma hexdigit_not_amp v : v < 16 -> hexdigit v <> 38.
Proof. unfold hexdigit. intros. destruct (v <? 10); lia. Qed.

Lemma hex_encode_no_amp h : Forall (fun b => b < 256) h -> ~ In 38 (hex_encode h).
Proof.
  induction h as [|a h IH]; intros F; [intros []|].
  inversion F as [|? ? Ha Fh]; subst.
  change (hex_encode (a :: h)) with (hexdigit (a / 16) :: hexdigit (a mod 16) :: hex_encode h).
  intros [H | [H | H]]; [| | exact (IH Fh H)]; revert H; apply hexdigit_not_amp; lia.
Qed.

Lemma hex_encode_length h : List.length (hex_encode h) = (2 * List.length h)%nat.
Proof. induction h as [|a h IH]; [reflexivity|]. change (hex_encode (a :: h)) with (hexdigit (a / 16) :: hexdigit (a mod 16) :: hex_encode h). cbn [List.length]. lia. Qed.

Lemma split_on_app c s : forall cur rest, ~ In c s ->
  split_on c (s ++ c :: rest) cur = (rev cur ++ s) :: split_on c rest [].
Proof.
  induction s as [|x s IH]; intros cur rest Hn; cbn [app split_on].
  - rewrite N.eqb_refl, app_nil_r. reflexivity.
  - destruct (x =? c) eqn:E. { apply N.eqb_eq in E. exfalso. apply Hn. left; exact E. }
    rewrite IH by (intros H; apply Hn; right; exact H). cbn [rev]. rewrite <- app_assoc. reflexivity.
Qed.

Lemma split_on_end c s : forall cur, ~ In c s -> split_on c s cur = [rev cur ++ s].
Proof.
  induction s as [|x s IH]; intros cur Hn; cbn [split_on].
  - rewrite app_nil_r. reflexivity.
  - destruct (x =? c) eqn:E. { apply N.eqb_eq in E. exfalso. apply Hn. left; exact E. }
    rewrite IH by (intros H; apply Hn; right; exact H). cbn [rev]. rewrite <- app_assoc. reflexivity.
Qed.

Lemma b32_bad_first f c s : b32val c = None -> b32_decode f (c :: s) = None.
Proof.
  intros Hc. destruct f as [|f]; [reflexivity|]. cbn [b32_decode]. unfold take.
  destruct (8 <=? len (c :: s)); [|reflexivity].
  change (N.to_nat 8) with 8%nat. cbn [firstn b32_group]. rewrite Hc. reflexivity.
Qed.

Definition xt_pair : bytes := [120; 116; 61; 117; 114; 110; 58; 98; 116; 105; 104; 58].   (* xt=urn:btih: *)

Lemma prefix_eq : ascii_bytes "magnet:?xt=urn:btih:"%string = [109; 97; 103; 110; 101; 116; 58; 63] ++ xt_pair.
Proof. vm_compute. reflexivity. Qed.

Lemma xt_pair_value hx : xt_value (xt_pair ++ hx) = [[117; 114; 110; 58; 98; 116; 105; 104; 58] ++ hx].
Proof. reflexivity. Qed.

Lemma first_of_pairs hx h more :
  hash_parse hx = Some h ->
  first_hash (flat_map xt_value (filter nonempty ((xt_pair ++ hx) :: more))) = Some h.
Proof.
  intros Hp. change (filter nonempty ((xt_pair ++ hx) :: more)) with ((xt_pair ++ hx) :: filter nonempty more).
  cbn [flat_map]. rewrite xt_pair_value. cbn [app first_hash].
  change (has_prefix xt_prefix (117 :: 114 :: 110 :: 58 :: 98 :: 116 :: 105 :: 104 :: 58 :: hx)) with true.
  cbn [skipn]. rewrite Hp. reflexivity.
Qed.

Lemma not_amp_xt_pair : ~ In 38 xt_pair.
Proof. unfold xt_pair. cbn [In]. lia. Qed.

(* the link for any spelling hx of a hash that hash.Parse reads and that contains no '&' *)
Lemma magnet_link_reads hx h params :
  hash_parse hx = Some h -> ~ In 38 hx ->
  params = [] \/ (exists r, params = 38 :: r) ->
  read_magnet (ascii_bytes "magnet:?xt=urn:btih:"%string ++ hx ++ params) = MgOk h.
Proof.
  intros HP Hx Hp.
  assert (Hn : ~ In 38 (xt_pair ++ hx)).
  { intros H. apply in_app_or in H. destruct H as [H | H]; [exact (not_amp_xt_pair H) | exact (Hx H)]. }
  rewrite prefix_eq. set (T := hx ++ params).
  change (([109; 97; 103; 110; 101; 116; 58; 63] ++ xt_pair) ++ T)
    with (109 :: 97 :: 103 :: 110 :: 101 :: 116 :: 58 :: 63 :: xt_pair ++ T).
  unfold read_magnet.
  assert (HN : hash_parse (109 :: 97 :: 103 :: 110 :: 101 :: 116 :: 58 :: 63 :: xt_pair ++ T) = None).
  { unfold hash_parse. change (hex_decode (109 :: 97 :: 103 :: 110 :: 101 :: 116 :: 58 :: 63 :: xt_pair ++ T)) with (@None bytes).
    rewrite b32_bad_first by reflexivity. reflexivity. }
  rewrite HN.
  change (get_scheme (109 :: 97 :: 103 :: 110 :: 101 :: 116 :: 58 :: 63 :: xt_pair ++ T))
    with ([109; 97; 103; 110; 101; 116], 63 :: xt_pair ++ T).
  change (negb (bytes_eqb (map lower [109; 97; 103; 110; 101; 116]) (ascii_bytes "magnet"%string))) with false.
  cbv iota. change (split_at 63 (63 :: xt_pair ++ T)) with (Some (@nil N, xt_pair ++ T)).
  cbv iota beta. unfold query_xts, T. rewrite app_assoc.
  destruct Hp as [-> | [r ->]].
  - rewrite app_nil_r, split_on_end by exact Hn. cbn [rev app]. rewrite (first_of_pairs _ h _ HP). reflexivity.
  - rewrite split_on_app by exact Hn. cbn [rev app]. rewrite (first_of_pairs _ h _ HP). reflexivity.
Qed.

Theorem magnet_roundtrip h params :
  List.length h = 20%nat -> Forall (fun b => b < 256) h ->
  params = [] \/ (exists r, params = 38 :: r) ->
  read_magnet (magnet_of h params) = MgOk h.
Proof.
  intros Hl Hb Hp. unfold magnet_of. apply magnet_link_reads; [|exact (hex_encode_no_amp h Hb)|exact Hp].
  unfold hash_parse. rewrite (hex_decode_encode h Hb). unfold len. rewrite Hl. reflexivity.
Qed.

(* ---------- the other parameters ---------- *)
Lemma link_not_bare T : hash_parse (109 :: 97 :: 103 :: 110 :: 101 :: 116 :: 58 :: 63 :: T) = None.
Proof.
  unfold hash_parse. change (hex_decode (109 :: 97 :: 103 :: 110 :: 101 :: 116 :: 58 :: 63 :: T)) with (@None bytes).
  rewrite b32_bad_first by reflexivity. reflexivity.
Qed.

Lemma link_query T : query_of (109 :: 97 :: 103 :: 110 :: 101 :: 116 :: 58 :: 63 :: T) = T.
Proof. reflexivity. Qed.

Lemma two_pairs_values k hx u : ~ In 38 (xt_pair ++ hx) -> ~ In 38 u ->
  param_values k ((xt_pair ++ hx) ++ 38 :: 116 :: 114 :: 61 :: u) =
  (if bytes_eqb [120; 116] k then [[117; 114; 110; 58; 98; 116; 105; 104; 58] ++ hx] else []) ++
  (if bytes_eqb [116; 114] k then [u] else []).
Proof.
  intros Hx Hu. unfold param_values. rewrite split_on_app by exact Hx.
  rewrite split_on_end.
  2:{ intros [H | [H | [H | H]]]; [discriminate H | discriminate H | discriminate H | exact (Hu H)]. }
  cbn [rev app]. 
  change (filter nonempty [xt_pair ++ hx; 116 :: 114 :: 61 :: u]) with [xt_pair ++ hx; 116 :: 114 :: 61 :: u].
  cbn [flat_map].
  change (split_at 61 (xt_pair ++ hx)) with (Some ([120; 116], [117; 114; 110; 58; 98; 116; 105; 104; 58] ++ hx)).
  change (split_at 61 (116 :: 114 :: 61 :: u)) with (Some ([116; 114], u)).
  cbv iota beta. rewrite app_nil_r. reflexivity.
Qed.

(* the link for a hash with one tracker: the hash, that tracker in a tier of its own, nothing else *)
Theorem magnet_with_tracker h u :
  List.length h = 20%nat -> Forall (fun b => b < 256) h -> url_ok u = true -> ~ In 38 u ->
  let m := magnet_of h (38 :: 116 :: 114 :: 61 :: u) in
  read_magnet m = MgOk h /\
  mp_tiers (magnet_params m) = [[u]] /\ mp_webseeds (magnet_params m) = [] /\ mp_name (magnet_params m) = [].
Proof.
  intros Hl Hb Hu Hamp m. split.
  { apply magnet_roundtrip; [exact Hl | exact Hb | right; eexists; reflexivity]. }
  assert (Hn : ~ In 38 (xt_pair ++ hex_encode h)).
  { intros H. apply in_app_or in H. destruct H as [H | H]; [exact (not_amp_xt_pair H) | exact (hex_encode_no_amp h Hb H)]. }
  assert (Em : m = 109 :: 97 :: 103 :: 110 :: 101 :: 116 :: 58 :: 63 :: (xt_pair ++ hex_encode h) ++ 38 :: 116 :: 114 :: 61 :: u).
  { unfold m, magnet_of. rewrite prefix_eq. rewrite <- !app_assoc. reflexivity. }
  unfold magnet_params. rewrite Em, link_not_bare, link_query.
  cbn [mp_tiers mp_webseeds mp_name].
  rewrite !two_pairs_values by assumption.
  change (bytes_eqb [120; 116] key_tr) with false. change (bytes_eqb [116; 114] key_tr) with true.
  change (bytes_eqb [120; 116] key_as) with false. change (bytes_eqb [116; 114] key_as) with false.
  change (bytes_eqb [120; 116] key_ws) with false. change (bytes_eqb [116; 114] key_ws) with false.
  change (bytes_eqb [120; 116] key_dn) with false. change (bytes_eqb [116; 114] key_dn) with false.
  cbn [app filter map hd]. rewrite Hu. repeat split; reflexivity.
Qed.

(* the same with a web seed: &ws=u *)
Lemma two_pairs_values_ws k hx u : ~ In 38 (xt_pair ++ hx) -> ~ In 38 u ->
  param_values k ((xt_pair ++ hx) ++ 38 :: 119 :: 115 :: 61 :: u) =
  (if bytes_eqb [120; 116] k then [[117; 114; 110; 58; 98; 116; 105; 104; 58] ++ hx] else []) ++
  (if bytes_eqb [119; 115] k then [u] else []).
Proof.
  intros Hx Hu. unfold param_values. rewrite split_on_app by exact Hx.
  rewrite split_on_end.
  2:{ intros [H | [H | [H | H]]]; [discriminate H | discriminate H | discriminate H | exact (Hu H)]. }
  cbn [rev app].
  change (filter nonempty [xt_pair ++ hx; 119 :: 115 :: 61 :: u]) with [xt_pair ++ hx; 119 :: 115 :: 61 :: u].
  cbn [flat_map].
  change (split_at 61 (xt_pair ++ hx)) with (Some ([120; 116], [117; 114; 110; 58; 98; 116; 105; 104; 58] ++ hx)).
  change (split_at 61 (119 :: 115 :: 61 :: u)) with (Some ([119; 115], u)).
  cbv iota beta. rewrite app_nil_r. reflexivity.
Qed.

Theorem magnet_with_webseed h u :
  List.length h = 20%nat -> Forall (fun b => b < 256) h -> http_url u = true -> ~ In 38 u ->
  let m := magnet_of h (38 :: 119 :: 115 :: 61 :: u) in
  read_magnet m = MgOk h /\
  mp_webseeds (magnet_params m) = [u] /\ mp_tiers (magnet_params m) = [] /\ mp_name (magnet_params m) = [].
Proof.
  intros Hl Hb Hu Hamp m. split.
  { apply magnet_roundtrip; [exact Hl | exact Hb | right; eexists; reflexivity]. }
  assert (Hn : ~ In 38 (xt_pair ++ hex_encode h)).
  { intros H. apply in_app_or in H. destruct H as [H | H]; [exact (not_amp_xt_pair H) | exact (hex_encode_no_amp h Hb H)]. }
  assert (Em : m = 109 :: 97 :: 103 :: 110 :: 101 :: 116 :: 58 :: 63 :: (xt_pair ++ hex_encode h) ++ 38 :: 119 :: 115 :: 61 :: u).
  { unfold m, magnet_of. rewrite prefix_eq. rewrite <- !app_assoc. reflexivity. }
  unfold magnet_params. rewrite Em, link_not_bare, link_query.
  cbn [mp_tiers mp_webseeds mp_name].
  rewrite !two_pairs_values_ws by assumption.
  change (bytes_eqb [120; 116] key_tr) with false. change (bytes_eqb [119; 115] key_tr) with false.
  change (bytes_eqb [120; 116] key_as) with false. change (bytes_eqb [119; 115] key_as) with false.
  change (bytes_eqb [120; 116] key_ws) with false. change (bytes_eqb [119; 115] key_ws) with true.
  change (bytes_eqb [120; 116] key_dn) with false. change (bytes_eqb [119; 115] key_dn) with false.
  cbn [app filter map hd]. rewrite Hu. repeat split; reflexivity.
Qed.

(* ---------- base32 ---------- *)
Lemma b32val_char v : v < 32 -> b32val (b32char v) = Some v.
Proof.
  intros Hv. unfold b32val, b32char. destruct (v <? 26) eqn:E.
  - assert (H1 : (65 <=? 65 + v) && (65 + v <=? 90) = true) by lia. rewrite H1. f_equal; lia.
  - assert (H1 : (65 <=? 24 + v) && (24 + v <=? 90) = false) by lia. rewrite H1.
    assert (H2 : (50 <=? 24 + v) && (24 + v <=? 55) = true) by lia. rewrite H2. f_equal; lia.
Qed.

Lemma b32char_not_amp v : v < 32 -> b32char v <> 38.
Proof. unfold b32char. intros. destruct (v <? 26) eqn:E; lia. Qed.

Lemma group_decodes v :
  v < 1099511627776 ->
  let v1 := v / 32 in let v2 := v1 / 32 in let v3 := v2 / 32 in let v4 := v3 / 32 in
  let v5 := v4 / 32 in let v6 := v5 / 32 in let v7 := v6 / 32 in
  (((((((v7 mod 32) * 32 + v6 mod 32) * 32 + v5 mod 32) * 32 + v4 mod 32) * 32 + v3 mod 32) * 32 + v2 mod 32) * 32 + v1 mod 32) * 32 + v mod 32 = v.
Proof.
  intros Hv. cbv zeta.
  remember (v / 32) as v1 eqn:E1. assert (B1 : v1 < 34359738368 /\ v1 * 32 + v mod 32 = v) by lia. clear E1 Hv.
  remember (v1 / 32) as v2 eqn:E2. assert (B2 : v2 < 1073741824 /\ v2 * 32 + v1 mod 32 = v1) by lia. clear E2.
  remember (v2 / 32) as v3 eqn:E3. assert (B3 : v3 < 33554432 /\ v3 * 32 + v2 mod 32 = v2) by lia. clear E3.
  remember (v3 / 32) as v4 eqn:E4. assert (B4 : v4 < 1048576 /\ v4 * 32 + v3 mod 32 = v3) by lia. clear E4.
  remember (v4 / 32) as v5 eqn:E5. assert (B5 : v5 < 32768 /\ v5 * 32 + v4 mod 32 = v4) by lia. clear E5.
  remember (v5 / 32) as v6 eqn:E6. assert (B6 : v6 < 1024 /\ v6 * 32 + v5 mod 32 = v5) by lia. clear E6.
  remember (v6 / 32) as v7 eqn:E7. assert (B7 : v7 < 32 /\ v7 * 32 + v6 mod 32 = v6) by lia. clear E7.
  rewrite (N.mod_small v7 32) by lia.
  destruct B7 as [_ ->]. destruct B6 as [_ ->]. destruct B5 as [_ ->]. destruct B4 as [_ ->].
  destruct B3 as [_ ->]. destruct B2 as [_ ->]. destruct B1 as [_ ->]. reflexivity.
Qed.

Lemma group_roundtrip b0 b1 b2 b3 b4 :
  b0 < 256 -> b1 < 256 -> b2 < 256 -> b3 < 256 -> b4 < 256 ->
  exists v, b32_group (enc_group b0 b1 b2 b3 b4) 0 = Some v /\ group_bytes v = [b0; b1; b2; b3; b4].
Proof.
  intros H0 H1 H2 H3 H4. unfold enc_group.
  set (v := (((b0 * 256 + b1) * 256 + b2) * 256 + b3) * 256 + b4).
  assert (Hv : v < 1099511627776) by (unfold v; lia).
  exists v. split.
  - cbv zeta. cbn [b32_group]. rewrite !b32val_char by (apply N.mod_lt; lia). f_equal.
    change (0 * 32 + v / 32 / 32 / 32 / 32 / 32 / 32 / 32 mod 32) with (v / 32 / 32 / 32 / 32 / 32 / 32 / 32 mod 32).
    exact (group_decodes v Hv).
  - unfold group_bytes. unfold v. repeat f_equal; lia.
Qed.

Lemma split5 (bs : bytes) k : List.length bs = (5 * S k)%nat ->
  exists b0 b1 b2 b3 b4 r, bs = b0 :: b1 :: b2 :: b3 :: b4 :: r /\ List.length r = (5 * k)%nat.
Proof.
  destruct bs as [|b0 [|b1 [|b2 [|b3 [|b4 r]]]]]; cbn [List.length]; intros H; try lia.
  exists b0, b1, b2, b3, b4, r. split; [reflexivity | lia].
Qed.

Lemma b32_decode_encode : forall k bs fuel,
  List.length bs = (5 * k)%nat -> Forall (fun b => b < 256) bs -> (k < fuel)%nat ->
  b32_decode fuel (b32_encode bs) = Some bs.
Proof.
  induction k as [|k IH]; intros bs fuel Hl Hb Hf.
  - destruct bs; [|cbn [List.length] in Hl; lia]. destruct fuel; [lia | reflexivity].
  - destruct (split5 bs k Hl) as (b0 & b1 & b2 & b3 & b4 & r & -> & Hr).
    inversion Hb as [|? ? H0 Hb1]; subst. inversion Hb1 as [|? ? H1 Hb2]; subst. inversion Hb2 as [|? ? H2 Hb3]; subst.
    inversion Hb3 as [|? ? H3 Hb4]; subst. inversion Hb4 as [|? ? H4 Hb5]; subst.
    destruct fuel as [|f]; [lia|].
    change (b32_encode (b0 :: b1 :: b2 :: b3 :: b4 :: r)) with (enc_group b0 b1 b2 b3 b4 ++ b32_encode r).
    destruct (group_roundtrip b0 b1 b2 b3 b4 H0 H1 H2 H3 H4) as (v & Hg & Hv).
    cbn [b32_decode].
    assert (Hs : exists c s, enc_group b0 b1 b2 b3 b4 ++ b32_encode r = c :: s) by (unfold enc_group; cbv zeta; cbn [app]; eauto).
    destruct Hs as (c & s & Hs). rewrite Hs. rewrite <- Hs.
    change 8 with (len (enc_group b0 b1 b2 b3 b4)). rewrite take_exact. rewrite Hg.
    rewrite (IH r f Hr Hb5) by lia. rewrite Hv. reflexivity.
Qed.

Lemma b32_encode_props : forall k bs,
  List.length bs = (5 * k)%nat -> List.length (b32_encode bs) = (8 * k)%nat /\ ~ In 38 (b32_encode bs).
Proof.
  induction k as [|k IH]; intros bs Hl.
  - destruct bs; [|cbn [List.length] in Hl; lia]. split; [reflexivity | intros []].
  - destruct (split5 bs k Hl) as (b0 & b1 & b2 & b3 & b4 & r & -> & Hr).
    change (b32_encode (b0 :: b1 :: b2 :: b3 :: b4 :: r)) with (enc_group b0 b1 b2 b3 b4 ++ b32_encode r).
    destruct (IH r Hr) as (Il & Ia). split.
    + rewrite app_length, Il. change (List.length (enc_group b0 b1 b2 b3 b4)) with 8%nat. lia.
    + intros H. apply in_app_or in H. destruct H as [H | H]; [|exact (Ia H)].
      unfold enc_group in H. cbv zeta in H. cbn [In] in H.
      repeat (destruct H as [H | H]; [revert H; apply b32char_not_amp; apply N.mod_lt; lia|]). exact H.
Qed.

Lemma hex_decode_length : forall x s, hex_decode s = Some x -> List.length s = (2 * List.length x)%nat.
Proof.
  induction x as [|y x IH]; intros s H.
  - destruct s as [|a [|b r]]; [reflexivity | discriminate |].
    cbn [hex_decode] in H. destruct (hexval a); [|discriminate]. destruct (hexval b); [|discriminate].
    destruct (hex_decode r); discriminate.
  - destruct s as [|a [|b r]]; [discriminate | discriminate |].
    cbn [hex_decode] in H. destruct (hexval a); [|discriminate]. destruct (hexval b); [|discriminate].
    destruct (hex_decode r) as [t|] eqn:E; [|discriminate]. injection H as _ ->.
    cbn [List.length]. rewrite (IH r E). lia.
Qed.

Theorem magnet_roundtrip_b32 h params :
  List.length h = 20%nat -> Forall (fun b => b < 256) h ->
  params = [] \/ (exists r, params = 38 :: r) ->
  read_magnet (magnet_of_b32 h params) = MgOk h.
Proof.
  intros Hl Hb Hp. unfold magnet_of_b32.
  assert (Hl4 : List.length h = (5 * 4)%nat) by (rewrite Hl; reflexivity).
  destruct (b32_encode_props 4 h Hl4) as (Hlen & Hamp).
  apply magnet_link_reads; [|exact Hamp|exact Hp].
  assert (HB : b32_decode (S (List.length (b32_encode h))) (b32_encode h) = Some h).
  { apply (b32_decode_encode 4); [exact Hl4 | exact Hb | lia]. }
  assert (H20 : (len h =? 20) = true) by (unfold len; rewrite Hl; reflexivity).
  unfold hash_parse. rewrite HB, H20.
  destruct (hex_decode (b32_encode h)) as [x|] eqn:E; [|reflexivity].
  apply hex_decode_length in E. replace (len x =? 20) with false; [reflexivity|].
  unfold len. symmetry. apply N.eqb_neq. lia.
Qed.

Example magnet_roundtrip_example :
  read_magnet (magnet_of [1;2;3;4;5;6;7;8;9;10;11;12;13;14;15;16;17;18;19;255]
                 (ascii_bytes "&dn=a&tr=http://t.example/announce"%string)) = MgOk [1;2;3;4;5;6;7;8;9;10;11;12;13;14;15;16;17;18;19;255].
Proof. vm_compute. reflexivity. Qed.

Example magnet_roundtrip_b32_example :
  read_magnet (magnet_of_b32 [1;2;3;4;5;6;7;8;9;10;11;12;13;14;15;16;17;18;19;255]
                 (ascii_bytes "&dn=a"%string)) = MgOk [1;2;3;4;5;6;7;8;9;10;11;12;13;14;15;16;17;18;19;255].
Proof. vm_compute. reflexivity. Qed.
