(* Proof/Magnet.v — magnet links: a hash that is returned has 20 bytes; the link written for a hash,
   followed by any further parameters, reads back as that hash. *)
From Storrent Require Import Base.Bytes Base.Bencode Model.Wire Model.Torfile Model.Magnet.
From Coq Require Import String Lia ZifyBool ZifyN ZifyNat.
Open Scope N_scope.

Ltac Zify.zify_post_hook ::= Z.div_mod_to_equations.

Lemma hash_parse_len s h : hash_parse s = Some h -> len h = 20.
Proof.
  unfold hash_parse. intros H.
  assert (B : match b32_decode (S (List.length s)) s with
              | Some h' => if len h' =? 20 then Some h' else None | None => None end = Some h -> len h = 20).
  { destruct (b32_decode _ s) as [y|]; [|discriminate].
    destruct (len y =? 20) eqn:E2; [|discriminate]. intros [= <-]. apply N.eqb_eq; exact E2. }
  destruct (hex_decode s) as [x|]; [|exact (B H)].
  destruct (len x =? 20) eqn:E; [|exact (B H)].
  injection H as <-. apply N.eqb_eq; exact E.
Qed.

Lemma first_hash_len xts h : first_hash xts = Some h -> len h = 20.
Proof.
  induction xts as [|v r IH]; cbn [first_hash]; [discriminate|].
  destruct (has_prefix xt_prefix v); [|exact IH].
  destruct (hash_parse (skipn 9 v)) eqn:E; [|exact IH].
  intros [= <-]. eapply hash_parse_len; eauto.
Qed.

Theorem magnet_hash_len m h : read_magnet m = MgOk h -> len h = 20.
Proof.
  unfold read_magnet. destruct (hash_parse m) eqn:E.
  { intros [= <-]; eapply hash_parse_len; eauto. }
  destruct (get_scheme m) as [sch rest]. destruct (negb _); [discriminate|].
  match goal with |- context [first_hash ?x] => destruct (first_hash x) eqn:F end; [|discriminate].
  intros [= <-]. eapply first_hash_len; eauto.
Qed.

(* ---------- the round trip ---------- *)
Lemma hexval_digit v : v < 16 -> hexval (hexdigit v) = Some v.
Proof.
  intros Hv. unfold hexval, hexdigit. destruct (v <? 10) eqn:E.
  - assert (H1 : (48 <=? 48 + v) && (48 + v <=? 57) = true) by lia. rewrite H1. f_equal; lia.
  - assert (H1 : (48 <=? 87 + v) && (87 + v <=? 57) = false) by lia. rewrite H1.
    assert (H2 : (97 <=? 87 + v) && (87 + v <=? 102) = true) by lia. rewrite H2. f_equal; lia.
Qed.

Lemma hex_decode_encode h : Forall (fun b => b < 256) h -> hex_decode (hex_encode h) = Some h.
Proof.
  induction h as [|a h IH]; intros F; [reflexivity|].
  inversion F as [|? ? Ha Fh]; subst.
  change (hex_encode (a :: h)) with (hexdigit (a / 16) :: hexdigit (a mod 16) :: hex_encode h).
  cbn [hex_decode]. rewrite !hexval_digit by lia. rewrite (IH Fh). f_equal. f_equal. lia.
Qed.

Lemma hexdigit_not_amp v : v < 16 -> hexdigit v <> 38.
Proof. unfold hexdigit. intros. destruct (v <? 10); lia. Qed.

Lemma hex_encode_no_amp h : Forall (fun b => b < 256) h -> ~ In 38 (hex_encode h).
Proof.
  induction h as [|a h IH]; intros F; [intros []|].
  inversion F as [|? ? Ha Fh]; subst.
  change (hex_encode (a :: h)) with (hexdigit (a / 16) :: hexdigit (a mod 16) :: hex_encode h).
  intros [H | [H | H]]; [| | exact (IH Fh H)]; revert H; apply hexdigit_not_amp; lia.
Qed.

Lemma hex_encode_length h : List.length (hex_encode h) = (2 * List.length h)%nat.
Proof. induction h as [|a h IH]; [reflexivity|]. change (hex_encode (a :: h)) with (hexdigit (a / 16) :: hexdigit (a mod 16) :: hex_encode h). cbn [List.length]. lia. Qed.

Lemma split_on_app c s : forall cur rest, ~ In c s ->
  split_on c (s ++ c :: rest) cur = (rev cur ++ s) :: split_on c rest [].
Proof.
  induction s as [|x s IH]; intros cur rest Hn; cbn [app split_on].
  - rewrite N.eqb_refl, app_nil_r. reflexivity.
  - destruct (x =? c) eqn:E. { apply N.eqb_eq in E. exfalso. apply Hn. left; exact E. }
    rewrite IH by (intros H; apply Hn; right; exact H). cbn [rev]. rewrite <- app_assoc. reflexivity.
Qed.

Lemma split_on_end c s : forall cur, ~ In c s -> split_on c s cur = [rev cur ++ s].
Proof.
  induction s as [|x s IH]; intros cur Hn; cbn [split_on].
  - rewrite app_nil_r. reflexivity.
  - destruct (x =? c) eqn:E. { apply N.eqb_eq in E. exfalso. apply Hn. left; exact E. }
    rewrite IH by (intros H; apply Hn; right; exact H). cbn [rev]. rewrite <- app_assoc. reflexivity.
Qed.

Lemma b32_bad_first f c s : b32val c = None -> b32_decode f (c :: s) = None.
Proof.
  intros Hc. destruct f as [|f]; [reflexivity|]. cbn [b32_decode]. unfold take.
  destruct (8 <=? len (c :: s)); [|reflexivity].
  change (N.to_nat 8) with 8%nat. cbn [firstn b32_group]. rewrite Hc. reflexivity.
Qed.

Definition xt_pair : bytes := [120; 116; 61; 117; 114; 110; 58; 98; 116; 105; 104; 58].   (* xt=urn:btih: *)

Lemma prefix_eq : ascii_bytes "magnet:?xt=urn:btih:"%string = [109; 97; 103; 110; 101; 116; 58; 63] ++ xt_pair.
Proof. vm_compute. reflexivity. Qed.

Lemma xt_pair_value hx : xt_value (xt_pair ++ hx) = [[117; 114; 110; 58; 98; 116; 105; 104; 58] ++ hx].
Proof. reflexivity. Qed.

Lemma first_of_pairs hx h more :
  hash_parse hx = Some h ->
  first_hash (flat_map xt_value (filter nonempty ((xt_pair ++ hx) :: more))) = Some h.
Proof.
  intros Hp. change (filter nonempty ((xt_pair ++ hx) :: more)) with ((xt_pair ++ hx) :: filter nonempty more).
  cbn [flat_map]. rewrite xt_pair_value. cbn [app first_hash].
  change (has_prefix xt_prefix (117 :: 114 :: 110 :: 58 :: 98 :: 116 :: 105 :: 104 :: 58 :: hx)) with true.
  cbn [skipn]. rewrite Hp. reflexivity.
Qed.

Lemma not_amp_xt_pair : ~ In 38 xt_pair.
Proof. unfold xt_pair. cbn [In]. lia. Qed.

Theorem magnet_roundtrip h params :
  List.length h = 20%nat -> Forall (fun b => b < 256) h ->
  params = [] \/ (exists r, params = 38 :: r) ->
  read_magnet (magnet_of h params) = MgOk h.
Proof.
  intros Hl Hb Hp.
  assert (HP : hash_parse (hex_encode h) = Some h).
  { unfold hash_parse. rewrite (hex_decode_encode h Hb). unfold len. rewrite Hl. reflexivity. }
  assert (Hn : ~ In 38 (xt_pair ++ hex_encode h)).
  { intros H. apply in_app_or in H. destruct H as [H | H]; [exact (not_amp_xt_pair H) | exact (hex_encode_no_amp h Hb H)]. }
  unfold magnet_of. rewrite prefix_eq. set (T := hex_encode h ++ params).
  change (([109; 97; 103; 110; 101; 116; 58; 63] ++ xt_pair) ++ T)
    with (109 :: 97 :: 103 :: 110 :: 101 :: 116 :: 58 :: 63 :: xt_pair ++ T).
  unfold read_magnet.
  assert (HN : hash_parse (109 :: 97 :: 103 :: 110 :: 101 :: 116 :: 58 :: 63 :: xt_pair ++ T) = None).
  { unfold hash_parse. change (hex_decode (109 :: 97 :: 103 :: 110 :: 101 :: 116 :: 58 :: 63 :: xt_pair ++ T)) with (@None bytes).
    rewrite b32_bad_first by reflexivity. reflexivity. }
  rewrite HN.
  change (get_scheme (109 :: 97 :: 103 :: 110 :: 101 :: 116 :: 58 :: 63 :: xt_pair ++ T))
    with ([109; 97; 103; 110; 101; 116], 63 :: xt_pair ++ T).
  change (negb (bytes_eqb (map lower [109; 97; 103; 110; 101; 116]) (ascii_bytes "magnet"%string))) with false.
  cbv iota. change (split_at 63 (63 :: xt_pair ++ T)) with (Some (@nil N, xt_pair ++ T)).
  cbv iota beta. unfold query_xts, T. rewrite app_assoc.
  destruct Hp as [-> | [r ->]].
  - rewrite app_nil_r, split_on_end by exact Hn. cbn [rev app]. rewrite (first_of_pairs _ h _ HP). reflexivity.
  - rewrite split_on_app by exact Hn. cbn [rev app]. rewrite (first_of_pairs _ h _ HP). reflexivity.
Qed.

Example magnet_roundtrip_example :
  read_magnet (magnet_of [1;2;3;4;5;6;7;8;9;10;11;12;13;14;15;16;17;18;19;255]
                 (ascii_bytes "&dn=a&tr=http://t.example/announce"%string)) = MgOk [1;2;3;4;5;6;7;8;9;10;11;12;13;14;15;16;17;18;19;255].
Proof. vm_compute. reflexivity. Qed.
