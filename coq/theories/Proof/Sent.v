(* Proof/Sent.v — which handlers can write a Piece or a Cancel to the remote peer, and what those
   messages refer to:
     - no handler other than the upload tick ever writes a Piece;
     - a Cancel is written only by the scheduler's cancel commands and by the expiry tick, and
       names a block whose request is outstanding at this peer at that moment. *)
From Coq Require Import ZifyBool ZifyN ZifyNat.
From Storrent Require Import Base.Bytes Base.Bencode Gen.Consts Model.Wire Model.PeerCore Proof.PeerCore Proof.Conserve.
Open Scope N_scope.

Definition is_pc (m : msg) : bool := match m with Piece _ _ _ | Cancel _ _ _ => true | _ => false end.
(* the Piece and Cancel messages written so far, in order *)
Definition pc (a : acc) : list msg := filter is_pc (a_msgs a).

Ltac pc_simpl :=
  unfold pc, upd_st, add_ev, add_alloc, set_legit; cbn [a_msgs].

Lemma pc_write a m : is_pc m = false -> pc (fst (write a m)) = pc a.
Proof.
  intros Hm. unfold write. destruct (s_wdead _); [reflexivity|]. destruct (_ <? _); [|reflexivity].
  cbn [fst]. unfold pc. cbn [a_msgs]. rewrite filter_app. cbn [filter]. rewrite Hm. apply app_nil_r.
Qed.
Lemma pc_write_any a m : pc (fst (write a m)) = pc a \/ (is_pc m = true /\ pc (fst (write a m)) = pc a ++ [m]).
Proof.
  unfold write. destruct (s_wdead _); [now left|]. destruct (_ <? _); [|now left].
  cbn [fst]. unfold pc. cbn [a_msgs]. rewrite filter_app. cbn [filter]. destruct (is_pc m); [right; auto|left; apply app_nil_r].
Qed.
Lemma pc_drop a c : pc (drop a c) = pc a.
Proof. unfold drop. destruct (from_chunk _ _). reflexivity. Qed.
Lemma pc_reject a x b l : pc (fst (reject a x b l)) = pc a.
Proof. unfold reject. destruct (s_can_fast _); [now apply pc_write|reflexivity]. Qed.
Lemma pc_maybe_interested a : pc (fst (maybe_interested a)) = pc a.
Proof.
  unfold maybe_interested. destruct (Bool.eqb _ _); [reflexivity|].
  match goal with |- context [write a ?m] => assert (H : pc (fst (write a m)) = pc a) by (apply pc_write; match goal with |- is_pc (if ?c then _ else _) = false => destruct c; reflexivity end); destruct (write a m) as [a' e] end.
  cbn [fst] in H. destruct e; cbn [fst]; exact H.
Qed.
Lemma pc_mr_loop k : forall a, pc (mr_loop k a) = pc a.
Proof.
  induction k as [|k IH]; intros a; cbn [mr_loop]; [reflexivity|].
  destruct (rq_queue _) as [|index qrest]; [reflexivity|]. destruct (congested _ || _); [reflexivity|].
  destruct (from_chunk _ index) as [x b]. destruct (_ || _).
  - now rewrite IH, pc_drop.
  - match goal with |- context [write ?x0 ?m] => pose proof (pc_write x0 m eq_refl) as H; destruct (write x0 m) as [a2 e] end.
    cbn [fst] in H. destruct e; [rewrite IH; exact H| |]; (etransitivity; [apply (pc_drop a2 index)|exact H]).
Qed.
Lemma pc_maybe_request k a : pc (maybe_request k a) = pc a.
Proof. unfold maybe_request. destruct (_ && _); [reflexivity|apply pc_mr_loop]. Qed.
Lemma pc_fold_drop l : forall a, pc (fold_left drop l a) = pc a.
Proof. induction l as [|c r IH]; intros a; cbn [fold_left]; [reflexivity|]. now rewrite IH, pc_drop. Qed.
Lemma pc_clear_requests a both : pc (clear_requests a both) = pc a.
Proof. unfold clear_requests. rewrite pc_fold_drop. destruct both; [rewrite pc_fold_drop|]; reflexivity. Qed.
Lemma pc_reject_all l : forall a, pc (fst (reject_all a l)) = pc a.
Proof.
  induction l as [|r t IH]; intros a; cbn [reject_all]; [reflexivity|].
  pose proof (pc_reject a (u_index r) (u_begin r) (u_length r)) as H.
  destruct (reject a _ _ _) as [a' e]. cbn [fst] in H. destruct e; cbn [fst]; try exact H. now rewrite IH.
Qed.
Lemma pc_unchoke a u : pc (fst (unchoke a u)) = pc a.
Proof.
  unfold unchoke. destruct (Bool.eqb _ _); [reflexivity|]. destruct (u && _).
  - pose proof (pc_write a Unchoke eq_refl) as H. destruct (write a Unchoke) as [a' e]. cbn [fst] in H. destruct e; cbn [fst]; exact H.
  - pose proof (pc_write a Choke eq_refl) as H. destruct (write a Choke) as [a' e]. cbn [fst] in H.
    destruct e; cbn [fst]; try exact H. rewrite pc_reject_all. exact H.
Qed.
Lemma pc_send_pex a : pc (send_pex a) = pc a.
Proof.
  unfold send_pex. destruct (_ || _); [reflexivity|]. destruct (_ && _); [reflexivity|].
  match goal with |- context [write a ?m] => pose proof (pc_write a m eq_refl) as H; destruct (write a m) as [a' e] end.
  cbn [fst] in H. destruct e; exact H.
Qed.
Lemma pc_enqueue_all cs : forall a, pc (enqueue_all a cs) = pc a.
Proof.
  induction cs as [|c r IH]; intros a; cbn [enqueue_all]; [reflexivity|].
  destruct (from_chunk _ c) as [x b]. destruct (bm_get _ _).
  - destruct (rq_enqueue _ _) as [q done]. rewrite IH. destruct done; [|rewrite pc_drop]; reflexivity.
  - now rewrite IH, pc_drop.
Qed.
Lemma pc_retract a : pc (retract_bitmap a) = pc a.
Proof. unfold retract_bitmap. destruct (s_bitmap _); reflexivity. Qed.

Definition pc_raw := pc.

Ltac pc_facts :=
  repeat match goal with
  | H : write ?x ?m = (?y, _) |- _ =>
      let F := fresh "F" in assert (F : pc (fst (write x m)) = pc x) by (apply pc_write; reflexivity);
      rewrite H in F; cbn [fst] in F; clear H
  | H : reject ?x ?a ?b ?l = (?y, _) |- _ =>
      let F := fresh "F" in pose proof (pc_reject x a b l) as F; rewrite H in F; cbn [fst] in F; clear H
  | H : unchoke ?x ?u = (?y, _) |- _ =>
      let F := fresh "F" in pose proof (pc_unchoke x u) as F; rewrite H in F; cbn [fst] in F; clear H
  end.

Ltac pc_peel :=
  repeat first
    [ reflexivity
    | eassumption
    | etransitivity;
      [ first [ apply pc_maybe_interested | (apply pc_write; reflexivity) | apply pc_reject
              | apply pc_send_pex | apply pc_unchoke
              | apply pc_maybe_request | apply pc_clear_requests | apply pc_drop | apply pc_enqueue_all | apply pc_retract
              | eassumption ] | ]
    | progress cbn [fst snd]
    | progress (unfold pc, upd_st, add_ev, add_alloc, set_legit; cbn [a_msgs]; fold pc_raw) ].

Lemma handle_message_pc a m k ad : pc (fst (handle_message a m k ad)) = pc a.
Proof.
  destruct m.
  8: { (* Request *)
    cbn [handle_message]. destruct (_ || _); [unfold of_werr; destruct (snd _); cbn [fst]; apply pc_reject|].
    destruct (upload_queue_max <=? _).
    - destruct (s_requested (a_st a)) as [|h t].
      + cbn [fst]. unfold ok. cbn [fst]. pc_peel.
      + match goal with |- context [reject ?x ?x1 ?x2 ?x3] => pose proof (pc_reject x x1 x2 x3) as H; destruct (reject x x1 x2 x3) as [a1 e] end.
        cbn [fst] in H. destruct e; cbn [negb fst]; unfold ok; cbn [fst]; (etransitivity; [|exact H]); pc_peel.
    - cbn [negb]. unfold ok. cbn [fst]. pc_peel. }
  8: { (* Piece *)
    cbn [handle_message]. unfold ok. destruct (s_geo (a_st a)) as [g|]; [|reflexivity].
    destruct (num_pieces g <=? i); [reflexivity|]. destruct (rq_del _ _ false) as [[[rq q] r]|]; [|reflexivity].
    cbn [fst]. rewrite pc_maybe_request. destruct (r || q); [|reflexivity].
    destruct (len d =? _); [destruct ad|]; unfold set_legit; rewrite ?pc_drop; pc_peel. }
  13: { (* RejectRequest *)
    cbn [handle_message]. unfold ok. destruct (negb _); [reflexivity|]. destruct (s_geo (a_st a)) as [g|]; [|reflexivity].
    destruct (rq_del _ _ true) as [[[rq q] r]|]; [|reflexivity]. cbn [fst]. rewrite pc_maybe_request.
    destruct r; rewrite ?pc_drop; reflexivity. }
  all: cbn [handle_message]; unfold ok, of_werr; break_goal; cbn [fst snd]; pc_facts; pc_peel.
Qed.

(* ---------- Cancel ---------- *)
From Coq Require Import Permutation.

Definition ul (l : list (N * bool)) : list N := map fst (filter (fun e => negb (snd e)) l).
(* the blocks requested from the remote peer for which no Cancel has been sent *)
Definition uncancelled (s : pstate) : list N := ul (rq_requested (s_reqs s)).
Definition cancel_of (g : geo) (c : N) : msg := let (i, b) := from_chunk g c in Cancel i b (chunk_size g c).
Definition mark (c : N) (e : N * bool) : N * bool := if fst e =? c then (fst e, true) else e.

Lemma ul_mark c x : forall l, In x (ul (map (mark c) l)) <-> In x (ul l) /\ x <> c.
Proof.
  unfold ul. induction l as [|[k m] r IH]; cbn [map]; [cbn; tauto|].
  destruct (k =? c) eqn:E.
  - replace (mark c (k, m)) with (k, true) by (unfold mark; cbn [fst]; now rewrite E).
    apply N.eqb_eq in E. subst k. cbn [filter snd negb]. rewrite IH. destruct m; cbn [negb map In fst]; [tauto|]. intuition congruence.
  - replace (mark c (k, m)) with (k, m) by (unfold mark; cbn [fst]; now rewrite E).
    cbn [filter snd]. destruct m; cbn [negb map In fst]; [exact IH|]. rewrite IH. apply N.eqb_neq in E. intuition congruence.
Qed.
Lemma ul_perm l l' : Permutation l l' -> Permutation (ul l) (ul l').
Proof. intros P. unfold ul. apply Permutation_map. induction P; cbn [filter]; try destruct (negb _); try destruct (negb (snd x)); eauto using Permutation. Qed.
Lemma ul_cons_incl x l : incl (ul l) (ul (x :: l)).
Proof. unfold ul. cbn [filter]. destruct (negb (snd x)); cbn [map]; [apply incl_tl|]; apply incl_refl. Qed.
Lemma ul_nth l i c : nth_error l i = Some (c, false) -> In c (ul l).
Proof. intros H. apply nth_error_In in H. unfold ul. apply in_map_iff. exists (c, false). split; [reflexivity|]. apply filter_In. auto. Qed.
Lemma ul_find l c k : find (fun e : N * bool => fst e =? c) l = Some (k, false) -> In c (ul l).
Proof.
  intros H. apply find_some in H as [H1 H2]. cbn [fst] in H2. apply N.eqb_eq in H2. subst k.
  unfold ul. apply in_map_iff. exists (c, false). split; [reflexivity|]. apply filter_In. auto.
Qed.
Lemma remove_swap_all_none {A} (p : A -> bool) : forall l, (forall x, In x l -> p x = false) -> remove_swap p l = None.
Proof.
  induction l as [|y r IH]; intros H; cbn [remove_swap]; [reflexivity|].
  rewrite (H y) by now left. rewrite IH; [reflexivity|]. intros x Hx. apply H. now right.
Qed.

Lemma NoDup_snoc {A} (l : list A) x : NoDup l -> ~ In x l -> NoDup (l ++ [x]).
Proof.
  induction l as [|y r IH]; intros N H; cbn [app]; [repeat constructor; auto|].
  inversion N as [|? ? Hy Nr]; subst. constructor.
  - intros Hin. apply in_app_or in Hin as [Hin|[<-|[]]]; [auto|]. apply H. now left.
  - apply IH; [exact Nr|]. intros Hin. apply H. now right.
Qed.

Lemma write_geo a m : the_geo (a_st (fst (write a m))) = the_geo (a_st a).
Proof. unfold write. destruct (s_wdead _); [reflexivity|]. destruct (_ <? _); reflexivity. Qed.
Lemma write_unc a m : uncancelled (a_st (fst (write a m))) = uncancelled (a_st a).
Proof. unfold uncancelled. now rewrite write_reqs. Qed.

(* what has been written so far in this step: Cancels for distinct blocks that were outstanding
   and uncancelled when the step began, each now marked (or gone) *)
Definition J (g : geo) (R0 : list N) (a : acc) : Prop :=
  the_geo (a_st a) = g /\
  incl (uncancelled (a_st a)) R0 /\
  exists sent, pc a = map (cancel_of g) sent /\ NoDup sent /\ incl sent R0 /\
               forall c, In c sent -> ~ In c (uncancelled (a_st a)).

Lemma J_shrink g R0 a a' :
  the_geo (a_st a') = the_geo (a_st a) -> pc a' = pc a -> incl (uncancelled (a_st a')) (uncancelled (a_st a)) ->
  J g R0 a -> J g R0 a'.
Proof.
  intros Hg Hp Hu (G & I & sent & P & N & S & D). split; [congruence|]. split; [eapply incl_tran; eauto|].
  exists sent. rewrite Hp. repeat split; auto. intros c Hc Hin. apply (D c Hc). now apply Hu.
Qed.

Lemma J_mark_cancel g R0 a c rq' :
  J g R0 a -> In c (uncancelled (a_st a)) ->
  rq_requested rq' = map (mark c) (rq_requested (s_reqs (a_st a))) ->
  J g R0 (fst (docancel (upd_st a (with_reqs (a_st a) rq')) c)).
Proof.
  intros (G & I & sent & P & N & S & D) Hc Hm.
  set (a1 := upd_st a (with_reqs (a_st a) rq')).
  assert (U1 : forall x, In x (uncancelled (a_st a1)) <-> In x (uncancelled (a_st a)) /\ x <> c).
  { intros x. unfold a1, uncancelled, upd_st, with_reqs. cbn [a_st s_reqs]. rewrite Hm. apply ul_mark. }
  assert (G1 : the_geo (a_st a1) = g) by exact G.
  unfold docancel. rewrite G1. fold (cancel_of g c).
  assert (E : cancel_of g c = (let (i, b) := from_chunk g c in Cancel i b (chunk_size g c))) by reflexivity.
  destruct (from_chunk g c) as [i b] eqn:F.
  split; [now rewrite write_geo|]. split.
  { rewrite write_unc. intros x Hx. apply I. now apply U1 in Hx. }
  destruct (pc_write_any a1 (Cancel i b (chunk_size g c))) as [Hw|[_ Hw]]; rewrite Hw, write_unc.
  - exists sent. repeat split; auto. intros x Hx Hin. apply U1 in Hin as [Hin _]. now apply (D x).
  - exists (sent ++ [c]). rewrite map_app. cbn [map]. rewrite E. change (pc a1) with (pc a). rewrite P. repeat split.
    + apply NoDup_snoc; [exact N|]. intros Hin. now apply (D c).
    + apply incl_app; [exact S|]. intros x [<-|[]]. now apply I.
    + intros x Hx Hin. apply U1 in Hin as [Hin Hne]. apply in_app_or in Hx as [Hx|[<-|[]]]; [now apply (D x)|congruence].
Qed.

Definition Sent (g : geo) (R0 : list N) (a : acc) : Prop :=
  exists sent, pc a = map (cancel_of g) sent /\ NoDup sent /\ incl sent R0.
Lemma J_Sent g R0 a : J g R0 a -> Sent g R0 a.
Proof. intros (_ & _ & sent & P & N & S & _). exists sent. auto. Qed.
Lemma Sent_pc g R0 a a' : pc a' = pc a -> Sent g R0 a -> Sent g R0 a'.
Proof. intros E (sent & P & N & S). exists sent. rewrite E. auto. Qed.

Lemma find_mark_eq c (l : list (N * bool)) :
  map (fun e => if fst e =? c then (fst e, true) else e) l = map (mark c) l.
Proof. reflexivity. Qed.

Lemma cancel_chunk_J g R0 a c a' : cancel_chunk a c = Some a' -> J g R0 a -> J g R0 a'.
Proof.
  unfold cancel_chunk, rq_cancel. intros H HJ.
  destruct (negb (rq_member (s_reqs (a_st a)) c)) eqn:M.
  - (* not a member: nothing to do *)
    unfold rq_del in H. rewrite M in H. cbn [orb] in H. injection H as <-.
    eapply J_shrink; [| | |exact HJ]; try reflexivity. apply incl_refl.
  - destruct (find (fun e : N * bool => fst e =? c) (rq_requested (s_reqs (a_st a)))) as [[k cancelled]|] eqn:F.
    + (* outstanding: mark it, send Cancel unless already sent *)
      injection H as <-. destruct cancelled; cbn [negb].
      * eapply J_shrink; [| | |exact HJ]; try reflexivity.
        unfold uncancelled, upd_st, with_reqs. cbn [a_st s_reqs rq_requested]. intros x Hx. now apply ul_mark in Hx.
      * apply J_mark_cancel; [exact HJ|eapply ul_find; exact F|reflexivity].
    + (* only queued *)
      unfold rq_del in H. rewrite M in H.
      rewrite (remove_swap_all_none (fun e : N * bool => fst e =? c)) in H by (intros x Hx; eapply find_none in F; eauto).
      destruct (remove_swap (fun e => e =? c) (rq_queue (s_reqs (a_st a)))) as [[y rest]|]; [|discriminate].
      cbn [orb] in H. injection H as <-. eapply J_shrink; [| | |exact HJ].
      * unfold drop. destruct (from_chunk _ _). reflexivity.
      * rewrite pc_drop. reflexivity.
      * unfold drop. destruct (from_chunk _ _). apply incl_refl.
Qed.

Lemma cancel_many_J g R0 cs : forall a a', cancel_many a cs = Some a' -> J g R0 a -> J g R0 a'.
Proof.
  induction cs as [|c r IH]; intros a a'; cbn [cancel_many]; [now intros [= <-]|].
  destruct (cancel_chunk a c) eqn:C; [|discriminate]. intros H HJ. eapply IH; [exact H|]. eapply cancel_chunk_J; eauto.
Qed.

Lemma expire_loop_J g R0 fuel : forall x a drops cancels d, J g R0 a -> J g R0 (fst (expire_loop fuel x a drops cancels d)).
Proof.
  induction fuel as [|f IH]; intros x a drops cancels d HJ; cbn [expire_loop]; [exact HJ|].
  destruct (nth_error _ x) as [[c cancelled]|] eqn:Nx; [|exact HJ].
  destruct (cancelled && memN c drops).
  - destruct (remove_swap _ _) as [[y rest]|] eqn:R; [|exact HJ]. apply IH.
    apply remove_swap_perm in R as [P _]. eapply J_shrink; [| | |exact HJ].
    + unfold drop. destruct (from_chunk _ _). reflexivity.
    + rewrite pc_drop. reflexivity.
    + unfold drop. destruct (from_chunk _ _). unfold uncancelled, add_ev, upd_st, with_reqs. cbn [a_st s_reqs rq_requested].
      intros z Hz. apply (ul_cons_incl y) in Hz. eapply Permutation_in; [apply Permutation_sym, ul_perm, P|exact Hz].
  - destruct (negb cancelled && memN c cancels) eqn:E; [|now apply IH]. apply IH.
    destruct cancelled; [discriminate|]. apply J_mark_cancel; [exact HJ|eapply ul_nth; exact Nx|reflexivity].
Qed.

Lemma schedule_upload_pc a allow data :
  pc (fst (schedule_upload a allow data)) = pc a \/
  exists i b d, pc (fst (schedule_upload a allow data)) = pc a ++ [Piece i b d].
Proof.
  unfold schedule_upload. destruct (negb _); [now left|]. destruct (s_requested (a_st a)) as [|r rest]; [now left|].
  destruct (congested _); [now left|]. destruct (negb allow); [now left|]. destruct data as [d|].
  - match goal with |- context [write ?x ?m] => pose proof (pc_write_any x m) as H; destruct (write x m) as [a2 e] end.
    cbn [fst] in H. destruct H as [H|[_ H]]; [left|right; exists (u_index r), (u_begin r), d]; destruct e; cbn [fst]; exact H.
  - left. rewrite pc_reject. reflexivity.
Qed.

Definition is_upload (o : op) : bool := match o with OpUpload _ _ => true | _ => false end.
Definition is_cancel (m : msg) : bool := match m with Cancel _ _ _ => true | _ => false end.
Definition is_piece (m : msg) : bool := match m with Piece _ _ _ => true | _ => false end.

Lemma handle_event_sent g a e k : J g (uncancelled (a_st a)) a -> Sent g (uncancelled (a_st a)) (fst (handle_event a e k)).
Proof.
  intros HJ. pose proof (J_Sent _ _ _ HJ) as HS.
  assert (N0 : forall x, pc x = pc a -> Sent g (uncancelled (a_st a)) x) by (intros x H; eapply Sent_pc; eauto).
  destruct e; cbn [handle_event]; unfold ok, of_werr.
  - destruct (s_geo (a_st a)); [cbn [fst]; exact HS|]. apply N0. break_goal; cbn [fst]; pc_facts; pc_peel.
  - destruct (s_geo (a_st a)); cbn [fst]; [|exact HS]. apply N0. rewrite pc_maybe_request. apply pc_enqueue_all.
  - apply N0. break_goal; cbn [fst]; pc_facts; pc_peel.
  - destruct (s_geo (a_st a)); [|cbn [fst]; exact HS].
    destruct (cancel_chunk a c) as [a'|] eqn:C; cbn [fst]; [|exact HS]. eapply J_Sent, cancel_chunk_J; eauto.
  - destruct (s_geo (a_st a)); [|cbn [fst]; exact HS].
    destruct (cancel_many a _) as [a'|] eqn:C; cbn [fst]; [|exact HS]. eapply J_Sent, cancel_many_J; eauto.
  - apply N0. cbn [fst]. pc_peel.
  - apply N0. break_goal; cbn [fst]; pc_peel.
  - apply N0. break_goal; cbn [fst]; pc_peel.
  - apply N0. pose proof (pc_unchoke a u) as H. destruct (unchoke a u) as [a1 e]. cbn [fst] in H. destruct e; cbn [fst]; exact H.
  - cbn [fst]. exact HS.
Qed.

Lemma tick_sent g a drops cancels k : J g (uncancelled (a_st a)) a -> Sent g (uncancelled (a_st a)) (tick a drops cancels k).
Proof.
  intros HJ. unfold tick. destruct (rq_requested _) as [|x l]; [eapply Sent_pc; [|eapply J_Sent; exact HJ]; reflexivity|].
  pose proof (expire_loop_J g _ (2 * length (x :: l) + 2) 0 a drops cancels false HJ) as H.
  destruct (expire_loop _ 0 a drops cancels false) as [a1 dropped]. cbn [fst] in H. apply J_Sent in H.
  destruct dropped; (eapply Sent_pc; [|exact H]); [apply pc_maybe_request|reflexivity].
Qed.

(* Every Piece / Cancel written by one step of the peer core: the Cancels name distinct blocks
   whose requests were outstanding and not yet cancelled when the step began; a Piece is written
   by the upload tick only, at most one, and then nothing else. *)
Theorem step_sent s ballast o k :
  let a := fst (step s ballast o k) in
  let g := the_geo s in
  if is_upload o then pc a = [] \/ exists i b d, pc a = [Piece i b d]
  else exists sent, pc a = map (cancel_of g) sent /\ NoDup sent /\ incl sent (uncancelled s).
Proof.
  cbn zeta. unfold step.
  set (s0 := if s_wdead s then s else with_wq s ballast).
  assert (G0 : the_geo s0 = the_geo s) by (subst s0; destruct (s_wdead s); reflexivity).
  assert (U0 : uncancelled s0 = uncancelled s) by (subst s0; destruct (s_wdead s); reflexivity).
  assert (J0 : J (the_geo s) (uncancelled (a_st (acc0 s0))) (acc0 s0)).
  { split; [exact G0|]. split; [apply incl_refl|]. exists []. repeat split; [constructor|intros x []|intros x []]. }
  assert (S0 : Sent (the_geo s) (uncancelled s) (acc0 s0)) by (rewrite <- U0; apply J_Sent; exact J0).
  assert (SL : forall x b, pc (set_legit x b) = pc x) by reflexivity.
  destruct o as [m ad|e|drops cancels| |allow data|]; cbn [is_upload].
  - eapply Sent_pc; [|exact S0]. destruct m; cbn [fst]; rewrite ?SL; apply handle_message_pc.
  - rewrite <- U0. change s0 with (a_st (acc0 s0)) at 1. destruct e; cbn [fst]; rewrite ?SL; now apply handle_event_sent.
  - unfold ok. cbn [fst]. rewrite <- U0. now apply (tick_sent _ (acc0 s0)).
  - unfold ok. cbn [fst]. eapply Sent_pc; [|exact S0]. rewrite SL. apply pc_send_pex.
  - cbn [fst]. unfold of_werr. destruct (schedule_upload_pc (acc0 s0) allow data) as [H|(i & b & d & H)].
    + left. destruct (snd _); cbn [fst]; rewrite SL; exact H.
    + right. exists i, b, d. destruct (snd _); cbn [fst]; rewrite SL; exact H.
  - unfold ok. cbn [fst]. eapply Sent_pc; [|exact S0]. reflexivity.
Qed.

Lemma cancels_of_pc l : filter is_cancel l = filter is_cancel (filter is_pc l).
Proof. induction l as [|m r IH]; [reflexivity|]. destruct m; cbn [filter is_cancel is_pc]; now rewrite <- ?IH. Qed.
Lemma cancel_of_is_cancel g c : is_cancel (cancel_of g c) = true.
Proof. unfold cancel_of. now destruct (from_chunk g c). Qed.
Lemma filter_all {A} (p : A -> bool) l : (forall x, In x l -> p x = true) -> filter p l = l.
Proof. induction l as [|x r IH]; intros H; cbn [filter]; [reflexivity|]. rewrite (H x) by now left. f_equal. apply IH. intros y Hy. apply H. now right. Qed.

(* C11: the Cancel messages of any step *)
Theorem step_cancels s ballast o k :
  exists sent, filter is_cancel (a_msgs (fst (step s ballast o k))) = map (cancel_of (the_geo s)) sent /\
               NoDup sent /\ incl sent (uncancelled s).
Proof.
  pose proof (step_sent s ballast o k) as H. cbn zeta in H. rewrite cancels_of_pc. fold (pc (fst (step s ballast o k))).
  destruct (is_upload o).
  - exists []. split; [|split; [constructor|intros x []]]. destruct H as [->|(i & b & d & ->)]; reflexivity.
  - destruct H as (sent & -> & N & S). exists sent. split; [|auto]. apply filter_all.
    intros x Hx. apply in_map_iff in Hx as [c [<- _]]. apply cancel_of_is_cancel.
Qed.

(* C16: no handler other than the upload tick writes a Piece *)
Theorem piece_only_from_upload s ballast o k i b d :
  In (Piece i b d) (a_msgs (fst (step s ballast o k))) -> exists allow data, o = OpUpload allow data.
Proof.
  intros Hin. destruct o as [m ad|e|drops cancels| |allow data|]; try (exists allow, data; reflexivity); exfalso.
  all: match type of Hin with context [step ?s0 ?b0 ?o ?k0] => pose proof (step_sent s0 b0 o k0) as H end; cbn zeta in H; cbn [is_upload] in H;
       destruct H as (sent & P & _); assert (Hp : In (Piece i b d) (pc (fst (step s ballast _ k)))) by (apply filter_In; split; [exact Hin|reflexivity]);
       rewrite P in Hp; apply in_map_iff in Hp as [c [Hc _]]; unfold cancel_of in Hc; destruct (from_chunk _ c); discriminate.
Qed.
