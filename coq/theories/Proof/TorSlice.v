(* Proof/TorSlice.v — the info dictionary a torrent file is identified by is a slice of the input:
   the exact bytes of the value stored under the key "info", one complete bencoded value. *)
From Coq Require Import ZifyBool ZifyN ZifyNat String.
From Storrent Require Import Base.Bytes Base.Bencode Gen.Consts Model.Wire Model.Torfile Proof.Bencode.
Open Scope N_scope.

(* ---------- a successful parse leaves a suffix of its input ---------- *)
Definition suffix (r bs : bytes) : Prop := exists used, bs = used ++ r.
Lemma suffix_refl r : suffix r r. Proof. now exists []. Qed.
Lemma suffix_trans a b c : suffix a b -> suffix b c -> suffix a c.
Proof. intros [u ->] [w ->]. exists (w ++ u). now rewrite app_assoc. Qed.
Lemma suffix_cons x r bs : suffix r bs -> suffix r (x :: bs).
Proof. intros [u ->]. now exists (x :: u). Qed.

Lemma split_at_app c : forall bs a b, split_at c bs = Some (a, b) -> bs = a ++ c :: b.
Proof.
  induction bs as [|x r IH]; cbn [split_at]; intros a b H; [discriminate|].
  destruct (x =? c) eqn:E.
  - injection H as <- <-. apply N.eqb_eq in E. now subst.
  - destruct (split_at c r) as [[a' b']|]; [|discriminate]. injection H as <- <-. cbn [app]. f_equal. now apply IH.
Qed.

Lemma parse_bstr_suffix bs s r k : parse_bstr bs = BOk s r k -> suffix r bs.
Proof.
  unfold parse_bstr. destruct (split_at ch_colon bs) as [[hd t]|] eqn:E; [|discriminate].
  apply split_at_app in E. destruct (parse_int 32 hd) as [l|]; [|discriminate].
  destruct (l <? 0)%Z; [discriminate|].
  destruct (take (Z.to_N l) t) as [[s' r']|] eqn:T; [|discriminate].
  intros H; injection H as <- <- <-. apply take_len in T as (_ & _ & T). subst.
  exists (hd ++ ch_colon :: s'). now rewrite <- app_assoc.
Qed.

Section Loops.
  Variable p : bytes -> bres bval.
  Hypothesis p_suf : forall bs v r k, p bs = BOk v r k -> suffix r bs.

  Lemma list_loop_suffix g : forall r acc k0 v rest k, list_loop p g r acc k0 = BOk v rest k -> suffix rest r.
  Proof.
    induction g as [|g IH]; intros r acc k0 v rest k; cbn [list_loop]; [discriminate|].
    destruct r as [|x r']; [discriminate|]. destruct (x =? ch_e).
    - intros H; injection H as <- <- <-. apply suffix_cons, suffix_refl.
    - destruct (p (x :: r')) as [v' r'' k'|e k'] eqn:P; [|discriminate].
      intros H. apply IH in H. apply p_suf in P. eapply suffix_trans; eauto.
  Qed.
  Lemma dict_loop_suffix g : forall r acc k0 v rest k, dict_loop p g r acc k0 = BOk v rest k -> suffix rest r.
  Proof.
    induction g as [|g IH]; intros r acc k0 v rest k; cbn [dict_loop]; [discriminate|].
    destruct r as [|x r']; [discriminate|]. destruct (x =? ch_e).
    - intros H; injection H as <- <- <-. apply suffix_cons, suffix_refl.
    - destruct (parse_bstr (x :: r')) as [key r1 k1|e k1] eqn:S; [|discriminate].
      destruct (p r1) as [v' r2 k2|e k2] eqn:P; [|discriminate].
      intros H. apply IH in H. apply p_suf in P. apply parse_bstr_suffix in S.
      eapply suffix_trans; [exact H|]. eapply suffix_trans; eauto.
  Qed.
End Loops.

Lemma bparse_suffix fuel : forall bs v r k, bparse fuel bs = BOk v r k -> suffix r bs.
Proof.
  induction fuel as [|f IH]; intros bs v r k; cbn [bparse]; [discriminate|].
  destruct bs as [|c t]; [discriminate|].
  destruct (c =? ch_i).
  { destruct (split_at ch_e t) as [[ds r']|] eqn:E; [|discriminate].
    intros H; injection H as <- <- <-. apply split_at_app in E. subst. exists (c :: ds ++ [ch_e]). cbn [app]. now rewrite <- app_assoc. }
  destruct (is_digit c).
  { destruct (parse_bstr (c :: t)) as [s r' k'|e k'] eqn:S; [|discriminate].
    intros H; injection H as <- <- <-. now apply parse_bstr_suffix in S. }
  destruct (c =? ch_l).
  { intros H. apply (list_loop_suffix _ IH) in H. now apply suffix_cons. }
  destruct (c =? ch_d).
  { intros H. apply (dict_loop_suffix _ IH) in H. now apply suffix_cons. }
  discriminate.
Qed.

Lemma suffix_firstn r bs : suffix r bs -> bs = firstn (length bs - length r) bs ++ r.
Proof.
  intros [u ->]. rewrite app_length, Nat.add_sub, firstn_app, Nat.sub_diag, firstn_all. cbn [firstn]. now rewrite app_nil_r.
Qed.

(* ---------- the entries of the top-level dictionary ---------- *)
(* (key, value, raw) sits in bs: a key header that parses to key, immediately followed by raw,
   which is exactly one bencoded value *)
Definition entry_in (bs : bytes) (e : bytes * bval * bytes) : Prop :=
  let '(key, v, raw) := e in
  exists pre hdr post k1 k2,
    bs = pre ++ hdr ++ raw ++ post /\
    parse_bstr (hdr ++ raw ++ post) = BOk key (raw ++ post) k1 /\
    bparse (S (length (raw ++ post))) (raw ++ post) = BOk v post k2.

Lemma entry_in_suffix r bs e : suffix r bs -> entry_in r e -> entry_in bs e.
Proof.
  intros [u ->]. destruct e as [[key v] raw]. intros (pre & hdr & post & k1 & k2 & E & P1 & P2).
  exists (u ++ pre), hdr, post, k1, k2. rewrite E, <- app_assoc. auto.
Qed.

Lemma raw_entries_in g : forall r acc es rest,
  raw_entries g r acc = Some (es, rest) -> forall e, In e es -> In e acc \/ entry_in r e.
Proof.
  induction g as [|g IH]; intros r acc es rest; cbn [raw_entries]; [discriminate|].
  destruct r as [|x r']; [discriminate|]. destruct (x =? ch_e).
  - intros H; injection H as <- <-. intros e He. left. now apply in_rev.
  - destruct (parse_bstr (x :: r')) as [key r1 k1|e0 k1] eqn:PS; [|discriminate].
    destruct (bparse (S (length r1)) r1) as [v r2 k2|e0 k2] eqn:P; [|discriminate].
    intros H e He. destruct (IH _ _ _ _ H e He) as [[<-|Hin]|Hin].
    + right. pose proof (parse_bstr_suffix _ _ _ _ PS) as [hdr Eh]. pose proof (bparse_suffix _ _ _ _ _ P) as Sf.
      pose proof (suffix_firstn _ _ Sf) as Er. set (raw := firstn (length r1 - length r2) r1) in *.
      exists [], hdr, r2, k1, k2. cbn [app]. rewrite <- Er. repeat split; [exact Eh|rewrite <- Eh; exact PS|exact P].
    + now left.
    + right. eapply entry_in_suffix; [|exact Hin].
      eapply suffix_trans; [eapply bparse_suffix; exact P|eapply parse_bstr_suffix; exact PS].
Qed.

Lemma fold_info es : forall a b, fold_opt btor_field a es = Some b ->
  b_info b = b_info a \/ exists k v raw, In (k, v, raw) es /\ key_is k "info" = true /\ b_info b = Some raw.
Proof.
  induction es as [|[[k v] raw] r IH]; intros a b; cbn [fold_opt]; [intros [= <-]; now left|].
  destruct (btor_field a (k, v, raw)) as [a'|] eqn:F; [|discriminate]. intros H.
  destruct (IH a' b H) as [E|(k' & v' & raw' & Hin & Hk & E)].
  - unfold btor_field in F. destruct (key_is k "info") eqn:K.
    + injection F as <-. right. exists k, v, raw. split; [now left|]. split; [exact K|]. rewrite E. reflexivity.
    + left. rewrite E.
      repeat match type of F with
             | (if ?c then _ else _) = _ => destruct c
             | match ?x with _ => _ end = _ => destruct x
             end; try discriminate; injection F as <-; reflexivity.
  - right. exists k', v', raw'. split; [now right|auto].
Qed.

(* The info dictionary of an accepted torrent file — the bytes that are hashed into the info-hash
   and kept as Torrent.Info — is a slice of the input: the input is pre ++ hdr ++ raw ++ post where
   hdr is a string header that parses to the key "info" and raw is exactly one bencoded value. *)
Theorem info_is_slice bs raw g cd tr ul hs :
  read_torrent bs = ROk raw g cd tr ul hs ->
  exists pre hdr post key v k1 k2,
    bs = pre ++ hdr ++ raw ++ post /\
    parse_bstr (hdr ++ raw ++ post) = BOk key (raw ++ post) k1 /\ key = ascii_bytes "info" /\
    bparse (S (length (raw ++ post))) (raw ++ post) = BOk v post k2.
Proof.
  unfold read_torrent. destruct (decode_btor bs) as [b|] eqn:D; [|discriminate].
  destruct (b_info b) as [raw'|] eqn:I; [|discriminate].
  destruct (metadata_complete raw'); try discriminate. intros H; injection H as <- _ _ _ _ _.
  unfold decode_btor, top_entries in D. destruct bs as [|c r]; [discriminate|].
  destruct (c =? ch_d); [|discriminate].
  destruct (raw_entries (S (length r)) r []) as [[es rest]|] eqn:R; [|discriminate].
  destruct (max_bencode_depth <? entries_depth es); [discriminate|].
  destruct (fold_info es _ _ D) as [E|(k & v & raw & Hin & Hk & E)]; [rewrite I in E; discriminate|].
  rewrite I in E. injection E as ->.
  destruct (raw_entries_in _ _ _ _ _ R _ Hin) as [[]|(pre & hdr & post & k1 & k2 & E & P1 & P2)].
  exists (c :: pre), hdr, post, k, v, k1, k2. rewrite E. repeat split; auto. now apply bytes_eqb_eq.
Qed.

(* ---------- nesting is bounded (fix dc6da02) ---------- *)
Lemma metadata_depth info g : metadata_complete info = MOk g ->
  exists v r k, bdecode info = BOk v r k /\ vdepth v <= max_bencode_depth.
Proof.
  unfold metadata_complete, decode_binfo. destruct (bdecode_lim info) as [v r k|e k] eqn:D; [|discriminate].
  apply bdecode_lim_ok in D as [D Hd]. intros _. eauto.
Qed.

Lemma read_torrent_depth bs raw g cd tr ul hs : read_torrent bs = ROk raw g cd tr ul hs ->
  exists es, top_entries bs = Some es /\ entries_depth es <= max_bencode_depth.
Proof.
  unfold read_torrent, decode_btor. destruct (top_entries bs) as [es|]; [|discriminate].
  destruct (max_bencode_depth <? entries_depth es) eqn:E; [discriminate|]. intros _. exists es. split; [reflexivity|lia].
Qed.
