(* Proof/Bencode.v — facts about the bencode model: a successful parse allocates no
   more than it consumes, consumes at least one byte, and never runs out of fuel. *)
From Coq Require Import ZifyBool ZifyN ZifyNat.
From Storrent Require Import Base.Bytes Base.Bencode.
Open Scope N_scope.

Lemma split_at_len c bs a b : split_at c bs = Some (a, b) -> len bs = len a + 1 + len b.
Proof.
  revert a b; induction bs as [|x r IH]; cbn [split_at]; intros a b H; [discriminate|].
  destruct (x =? c).
  - injection H as <- <-. rewrite len_cons, len_nil. lia.
  - destruct (split_at c r) as [[a' b']|]; [|discriminate].
    injection H as <- <-. rewrite !len_cons. specialize (IH _ _ eq_refl). lia.
Qed.

Lemma parse_bstr_ok bs s r k :
  parse_bstr bs = BOk s r k -> len r + k + 1 <= len bs /\ k = len s.
Proof.
  unfold parse_bstr. destruct (split_at ch_colon bs) as [[hd t]|] eqn:E; [|discriminate].
  apply split_at_len in E.
  destruct (parse_int 32 hd) as [l|]; [|discriminate].
  destruct (l <? 0)%Z; [discriminate|].
  destruct (take (Z.to_N l) t) as [[s' r']|] eqn:T; [|discriminate].
  intros H; injection H as <- <- <-. apply take_len in T as (T1 & T2 & _). lia.
Qed.

Section Loops.
  Variable p : bytes -> bres bval.
  Hypothesis p_ok : forall bs v r k, p bs = BOk v r k -> len r + k + 1 <= len bs.

  Lemma list_loop_ok g r acc k0 v rest k :
    list_loop p g r acc k0 = BOk v rest k -> len rest + k + 1 <= len r + k0.
  Proof.
    revert r acc k0; induction g as [|g IH]; intros r acc k0; cbn [list_loop]; [discriminate|].
    destruct r as [|x r']; [discriminate|].
    destruct (x =? ch_e).
    - intros H; injection H as <- <- <-. rewrite len_cons. lia.
    - destruct (p (x :: r')) as [v' r'' k'|e k'] eqn:P; [|discriminate].
      intros H. apply IH in H. apply p_ok in P. lia.
  Qed.

  Lemma dict_loop_ok g r acc k0 v rest k :
    dict_loop p g r acc k0 = BOk v rest k -> len rest + k + 1 <= len r + k0.
  Proof.
    revert r acc k0; induction g as [|g IH]; intros r acc k0; cbn [dict_loop]; [discriminate|].
    destruct r as [|x r']; [discriminate|].
    destruct (x =? ch_e).
    - intros H; injection H as <- <- <-. rewrite len_cons. lia.
    - destruct (parse_bstr (x :: r')) as [key r1 k1|e k1] eqn:S; [|discriminate].
      destruct (p r1) as [v' r2 k2|e k2] eqn:P; [|discriminate].
      intros H. apply IH in H. apply p_ok in P. apply parse_bstr_ok in S as [S _]. lia.
  Qed.
End Loops.

Lemma bparse_ok fuel : forall bs v r k, bparse fuel bs = BOk v r k -> len r + k + 1 <= len bs.
Proof.
  induction fuel as [|f IH]; intros bs v r k; cbn [bparse]; [discriminate|].
  destruct bs as [|c t]; [discriminate|].
  destruct (c =? ch_i).
  { destruct (split_at ch_e t) as [[ds r']|] eqn:E; [|discriminate].
    intros H; injection H as <- <- <-. apply split_at_len in E. rewrite len_cons. lia. }
  destruct (is_digit c).
  { destruct (parse_bstr (c :: t)) as [s r' k'|e k'] eqn:S; [|discriminate].
    intros H; injection H as <- <- <-. now apply parse_bstr_ok in S as [S _]. }
  destruct (c =? ch_l).
  { intros H. apply (list_loop_ok _ IH) in H. rewrite len_cons. lia. }
  destruct (c =? ch_d).
  { intros H. apply (dict_loop_ok _ IH) in H. rewrite len_cons. lia. }
  discriminate.
Qed.

Lemma bdecode_ok bs v r k : bdecode bs = BOk v r k -> len r + k + 1 <= len bs.
Proof. apply bparse_ok. Qed.

Lemma bdecode_lim_ok bs v r k : bdecode_lim bs = BOk v r k -> bdecode bs = BOk v r k /\ vdepth v <= max_bencode_depth.
Proof.
  unfold bdecode_lim. destruct (bdecode bs) as [v' r' k'|e k']; [|discriminate].
  destruct (max_bencode_depth <? vdepth v') eqn:E; [discriminate|]. intros [= <- <- <-]. split; [reflexivity|lia].
Qed.

(* ---- fuel is never exhausted by bdecode ---- *)

Definition no_fuel_err {A} (x : bres A) : Prop := forall k, x <> BErr BFuel k.

Lemma parse_bstr_nofuel bs : no_fuel_err (parse_bstr bs).
Proof.
  unfold parse_bstr, no_fuel_err. intros k.
  destruct (split_at ch_colon bs) as [[hd t]|]; [|discriminate].
  destruct (parse_int 32 hd); [|discriminate].
  destruct (_ <? _)%Z; [discriminate|].
  destruct (take _ _) as [[? ?]|]; discriminate.
Qed.

Section LoopsFuel.
  Variable p : bytes -> bres bval.
  Variable bound : nat.
  Hypothesis p_ok : forall bs v r k, p bs = BOk v r k -> len r + k + 1 <= len bs.
  Hypothesis p_nofuel : forall bs, (length bs <= bound)%nat -> no_fuel_err (p bs).

  Lemma list_loop_nofuel g : forall r acc k0,
    (length r <= bound)%nat -> (length r < g)%nat -> no_fuel_err (list_loop p g r acc k0).
  Proof.
    induction g as [|g IH]; intros r acc k0 Hb Hg; [lia|].
    cbn [list_loop]. destruct r as [|x r']; [intros k; discriminate|].
    destruct (x =? ch_e); [intros k; discriminate|].
    destruct (p (x :: r')) as [v' r'' k'|e k'] eqn:P.
    - pose proof (p_ok _ _ _ _ P) as L. unfold len in L.
      apply IH; cbn [length] in *; lia.
    - intros k E. injection E as -> _. now apply (p_nofuel _ Hb k') in P.
  Qed.

  Lemma dict_loop_nofuel g : forall r acc k0,
    (length r <= bound)%nat -> (length r < g)%nat -> no_fuel_err (dict_loop p g r acc k0).
  Proof.
    induction g as [|g IH]; intros r acc k0 Hb Hg; [lia|].
    cbn [dict_loop]. destruct r as [|x r']; [intros k; discriminate|].
    destruct (x =? ch_e); [intros k; discriminate|].
    destruct (parse_bstr (x :: r')) as [key r1 k1|e k1] eqn:S.
    - pose proof (parse_bstr_ok _ _ _ _ S) as [L1 _]. unfold len in L1.
      destruct (p r1) as [v' r2 k2|e k2] eqn:P.
      + pose proof (p_ok _ _ _ _ P) as L. unfold len in L.
        apply IH; cbn [length] in *; lia.
      + intros k E. injection E as -> _.
        assert (Hr1 : (length r1 <= bound)%nat) by (cbn [length] in *; lia).
        now apply (p_nofuel _ Hr1 k2) in P.
    - intros k E. injection E as -> _. now apply (parse_bstr_nofuel _ k1) in S.
  Qed.
End LoopsFuel.

Lemma bparse_nofuel fuel : forall bs, (length bs < fuel)%nat -> no_fuel_err (bparse fuel bs).
Proof.
  induction fuel as [|f IH]; intros bs Hf; [lia|].
  cbn [bparse]. destruct bs as [|c t]; [intros k; discriminate|].
  cbn [length] in Hf.
  destruct (c =? ch_i).
  { destruct (split_at ch_e t) as [[? ?]|]; intros k; discriminate. }
  destruct (is_digit c).
  { destruct (parse_bstr (c :: t)) as [s r' k'|e k'] eqn:S; [intros k; discriminate|].
    intros k E. injection E as -> _. now apply (parse_bstr_nofuel _ k') in S. }
  destruct (c =? ch_l).
  { apply (list_loop_nofuel (bparse f) (f - 1)); try lia.
    - apply bparse_ok.
    - intros bs Hb. apply IH. lia. }
  destruct (c =? ch_d).
  { apply (dict_loop_nofuel (bparse f) (f - 1)); try lia.
    - apply bparse_ok.
    - intros bs Hb. apply IH. lia. }
  intros k; discriminate.
Qed.

Theorem bdecode_never_out_of_fuel bs k : bdecode bs <> BErr BFuel k.
Proof. apply bparse_nofuel. unfold lt. apply le_n. Qed.
