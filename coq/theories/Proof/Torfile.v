(* Proof/Torfile.v — lemmas about Model/Torfile.v. *)
From Coq Require Import ZifyBool ZifyN ZifyNat.
From Storrent Require Import Base.Bytes Base.Bencode Gen.Consts Model.Wire Model.Torfile Proof.Bencode.
Open Scope N_scope.

Ltac Zify.zify_post_hook ::= Z.div_mod_to_equations.

Lemma layout_spec fs : forall off acc files total,
  (0 <= off)%Z -> layout fs off acc = Some (files, total) ->
  exists tail, files = rev acc ++ tail /\ contiguous tail off = Some total /\ (off <= total)%Z.
Proof.
  induction fs as [|f r IH]; intros off acc files total Hoff; cbn [layout].
  - intros [= <- <-]. exists []. rewrite app_nil_r. cbn. repeat split; lia.
  - destruct (match bf_path8 f with [] => bf_path f | _ => _ end) eqn:P; [discriminate|].
    destruct (negb (forallb valid_component _)); [discriminate|].
    destruct (bf_len f <? 0)%Z eqn:L; [discriminate|].
    destruct (int64_max <? off + bf_len f)%Z eqn:O; [discriminate|].
    intros H. apply IH in H; [|lia]. destruct H as (tail & -> & C & Hle).
    eexists (_ :: tail). split; [cbn [rev]; rewrite <- app_assoc; reflexivity|].
    cbn [contiguous f_off f_len]. rewrite Z.eqb_refl.
    destruct (0 <=? bf_len f)%Z eqn:L2; [|lia]. cbn [andb]. split; [exact C|lia].
Qed.

Lemma metadata_complete_geometry info g : metadata_complete info = MOk g -> geometry_ok g = true.
Proof.
  unfold metadata_complete.
  destruct (decode_binfo info) as [i|]; [|discriminate].
  destruct (negb (len (i_pieces i) mod 20 =? 0)); [discriminate|].
  destruct ((i_plen i =? 0) || negb (i_plen i mod ChunkSize =? 0)) eqn:PL; [discriminate|].
  apply orb_false_iff in PL as [PL0 PLm].
  set (r := if (0 <? i_length i)%Z then _ else _).
  assert (Hr : forall files total, r = Some (files, total) ->
            (0 <= total)%Z /\ match files with
                             | [] => True
                             | fs => contiguous fs 0%Z = Some total end).
  { subst r. intros files total. destruct (0 <? i_length i)%Z eqn:L.
    - destruct (i_files i); [|discriminate]. intros [= <- <-]. split; [lia|exact I].
    - destruct (i_files i) as [|f fs] eqn:F; [discriminate|].
      intros H. apply layout_spec in H; [|lia]. destruct H as (tail & -> & C & Hle).
      cbn [rev app]. split; [lia|]. destruct tail; [exact I|exact C]. }
  destruct r as [[files total]|]; [|discriminate].
  destruct (Hr _ _ eq_refl) as [Ht Hf]. clear Hr.
  destruct (4294967295 <? _)%Z; [discriminate|].
  destruct (_ <? 0)%Z eqn:CH; [discriminate|].
  rewrite PL0.
  destruct (negb (_ =? _)%Z) eqn:NH; [discriminate|].
  destruct (match i_name8 i with [] => i_name i | _ => _ end) eqn:NM; [discriminate|].
  destruct (negb (valid_component _)); [discriminate|].
  intros [= <-]. unfold geometry_ok, ceil_div. cbn [g_plen g_total g_files g_chunks g_npieces g_nhashes].
  assert (ChunkSize = 16384) by reflexivity.
  apply negb_false_iff, Z.eqb_eq in NH.
  repeat rewrite andb_true_iff. repeat split; try lia.
  destruct files; [reflexivity|]. rewrite Hf. lia.
Qed.

Lemma metadata_complete_no_panic info : metadata_complete info <> MPanic.
Proof.
  unfold metadata_complete.
  destruct (decode_binfo info) as [i|]; [|discriminate].
  destruct (negb (len (i_pieces i) mod 20 =? 0)); [discriminate|].
  destruct ((i_plen i =? 0) || negb (i_plen i mod ChunkSize =? 0)) eqn:PL; [discriminate|].
  apply orb_false_iff in PL as [PL0 PLm].
  set (r := if (0 <? i_length i)%Z then _ else _).
  assert (Hr : forall files total, r = Some (files, total) -> (0 <= total)%Z).
  { subst r. intros files total. destruct (0 <? i_length i)%Z eqn:L.
    - destruct (i_files i); [|discriminate]. intros [= <- <-]. lia.
    - destruct (i_files i) as [|f fs] eqn:F; [discriminate|].
      intros H. apply layout_spec in H; [|lia]. destruct H as (tail & -> & C & Hle). lia. }
  destruct r as [[files total]|]; [|discriminate].
  specialize (Hr _ _ eq_refl).
  destruct (4294967295 <? _)%Z; [discriminate|].
  assert (ChunkSize = 16384) by reflexivity.
  destruct (_ <? 0)%Z eqn:CH; [lia|].
  rewrite PL0.
  destruct (negb (_ =? _)%Z); [discriminate|].
  destruct (match i_name8 i with [] => i_name i | _ => _ end); [discriminate|].
  destruct (negb (valid_component _)); discriminate.
Qed.

Lemma read_torrent_total bs : read_torrent bs <> RPanic.
Proof.
  unfold read_torrent. destruct (decode_btor bs) as [b|]; [|discriminate].
  destruct (b_info b) as [raw|]; [|discriminate].
  destruct (metadata_complete raw) eqn:M; try discriminate.
  now apply metadata_complete_no_panic in M.
Qed.

Lemma read_torrent_geometry bs raw g cd tr ul hs :
  read_torrent bs = ROk raw g cd tr ul hs -> geometry_ok g = true.
Proof.
  unfold read_torrent. destruct (decode_btor bs) as [b|]; [|discriminate].
  destruct (b_info b) as [raw'|]; [|discriminate].
  destruct (metadata_complete raw') eqn:M; try discriminate.
  intros [= <- <- <- <- <- <-]. now apply metadata_complete_geometry in M.
Qed.
