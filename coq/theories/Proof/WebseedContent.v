(* Proof/WebseedContent.v — what the web-seed writer stores is the response's bytes, in order, at
   consecutive offsets from the start of the reserved range: byte k of (buffered bytes ++ accepted
   bytes of the stream) lands at offset w_off + k, and what is not stored yet is still buffered. *)
From Coq Require Import ZifyBool ZifyN ZifyNat.
From Storrent Require Import Base.Bytes Base.Bencode Gen.Consts Model.Wire Model.Torfile Model.Namespace Model.Webseed Proof.Webseed.
Open Scope N_scope.

Definition stores (evs : list wev) : list (N * bytes) :=
  flat_map (fun e => match e with WStore o d => [(o, d)] | _ => [] end) evs.
Definition stored (evs : list wev) : bytes := concat (map snd (stores evs)).
(* every store begins where the previous one ended *)
Fixpoint placed (start : N) (l : list (N * bytes)) : Prop :=
  match l with [] => True | (o, d) :: r => o = start /\ placed (start + len d) r end.

Lemma stores_app a b : stores (a ++ b) = stores a ++ stores b.
Proof. unfold stores. apply flat_map_app. Qed.
Lemma stored_app a b : stored (a ++ b) = stored a ++ stored b.
Proof. unfold stored. now rewrite stores_app, map_app, concat_app. Qed.
Lemma placed_app l1 : forall start l2, placed start l1 -> placed (start + len (concat (map snd l1))) l2 -> placed start (l1 ++ l2).
Proof.
  induction l1 as [|[o d] r IH]; intros start l2 H1 H2; cbn [app placed map concat] in *.
  - now rewrite len_nil, N.add_0_r in H2.
  - destruct H1 as [-> H1]. split; [reflexivity|]. apply IH; [exact H1|]. rewrite len_app, N.add_assoc in H2. exact H2.
Qed.

Lemma skipn_add {A} a : forall b (l : list A), skipn a (skipn b l) = skipn (b + a) l.
Proof. intros b. induction b as [|b IH]; intros l; [reflexivity|]. destruct l; [now rewrite !skipn_nil|]. cbn [skipn Nat.add]. apply IH. Qed.

Lemma firstn_len_firstn {A} k (p : list A) : firstn (length (firstn k p)) p = firstn k p.
Proof.
  rewrite firstn_length. destruct (Nat.le_ge_cases k (length p)) as [L|L].
  - now rewrite Nat.min_l.
  - rewrite Nat.min_r by exact L. now rewrite firstn_all, firstn_all2.
Qed.

Lemma w_write_content pl s data s' n evs err :
  w_write pl s data = (s', n, evs, err) ->
  n <= len data /\ stored evs = firstn (N.to_nat n) data /\ placed (w_off s) (stores evs) /\
  w_off s' = w_off s + n /\ w_count s' = w_count s - n.
Proof.
  unfold w_write. pose proof (add_data_le pl (w_off s) (len data)) as L.
  destruct (add_data pl (w_off s) (len data)) as [count e]. cbn [fst] in L.
  destruct (0 <? count) eqn:C; intros [= <- <- <- <-]; cbn [w_off w_count stores stored flat_map app map snd concat placed].
  - rewrite app_nil_r. repeat split; auto.
  - replace count with 0 by lia. cbn [N.to_nat firstn]. repeat split; auto; lia.
Qed.

(* one Write: what it stores, followed by what it keeps buffered, is what was buffered followed by
   the part of p it accepted *)
Theorem w_Write_content pl s p s' n evs err :
  w_ok s -> w_Write pl s p = (s', n, evs, err) ->
  stored evs ++ w_buf s' = w_buf s ++ firstn (N.to_nat n) p /\
  placed (w_off s) (stores evs) /\ w_off s' = w_off s + len (stored evs) /\ n <= len p.
Proof.
  intros [Hc Hb]. unfold w_Write. rewrite Hc. destruct (w_count s <? len (w_buf s)) eqn:B; [lia|].
  set (q := firstn _ p). set (data := w_buf s ++ q).
  destruct (w_write pl s data) as [[[s1 m] e1] er1] eqn:W.
  apply w_write_content in W as (Hm & Hst & Hpl & Ho & Hcnt).
  intros [= <- <- <- <-]. cbn [w_off w_buf].
  assert (Hq : firstn (N.to_nat (len q)) p = q).
  { subst q. unfold len. rewrite Nat2N.id. apply firstn_len_firstn. }
  rewrite Hq, Hst, firstn_skipn. repeat split; auto.
  - rewrite Ho. f_equal. unfold len. rewrite firstn_length. unfold len in Hm. lia.
  - subst q. unfold len. rewrite firstn_length. lia.
Qed.

(* ReadFrom: whatever the sizes of the reads, the bytes stored and then buffered are the bytes
   buffered before followed by the first [total] bytes of the stream; the rest of the stream is
   untouched *)
Lemma w_ReadFrom_loop_content pl : forall cuts s stream evs0 total0 s' total evs err rest,
  w_ReadFrom_loop pl s stream cuts evs0 total0 = (s', total, evs, err, rest) ->
  exists evs1 k, evs = evs0 ++ evs1 /\ total = total0 + k /\ k <= len stream /\
    rest = skipn (N.to_nat k) stream /\
    stored evs1 ++ w_buf s' = w_buf s ++ firstn (N.to_nat k) stream /\
    placed (w_off s) (stores evs1) /\ w_off s' = w_off s + len (stored evs1).
Proof.
  induction cuts as [|cut r IH]; intros s stream evs0 total0 s' total evs err rest; cbn [w_ReadFrom_loop].
  - intros [= <- <- <- <- <-]. exists [], 0. cbn [stored stores flat_map map concat app N.to_nat firstn skipn placed]. rewrite !app_nil_r. change (len []) with 0. repeat split; auto; lia.
  - set (n := N.min _ (N.min cut (len stream))).
    destruct (n =? 0) eqn:Z.
    + intros [= <- <- <- <- <-]. exists [], 0. cbn [stored stores flat_map map concat app N.to_nat firstn skipn placed]. rewrite !app_nil_r. change (len []) with 0. repeat split; auto; lia.
    + set (got := firstn (N.to_nat n) stream). set (data := w_buf s ++ got).
      destruct (w_write pl _ data) as [[[s1 m] e1] er1] eqn:W.
      apply w_write_content in W as (Hm & Hst & Hpl & Ho & Hcnt). cbn [w_off w_count] in *.
      assert (Hn : n <= len stream) by (subst n; lia).
      assert (Hstep : stored e1 ++ skipn (N.to_nat m) data = w_buf s ++ firstn (N.to_nat n) stream)
        by (rewrite Hst; apply firstn_skipn).
      assert (Hlen : len (stored e1) = m) by (rewrite Hst; unfold len in *; rewrite firstn_length; lia).
      destruct er1.
      1:{ intros H. apply IH in H as (evs1 & k & -> & -> & Hk & -> & Hc & Hp & Hoff). cbn [w_off w_buf] in *.
        exists (e1 ++ evs1), (n + k). rewrite app_assoc. split; [reflexivity|]. split; [lia|].
        assert (Hsk : len (skipn (N.to_nat n) stream) = len stream - n) by (unfold len; rewrite skipn_length; lia).
        split; [lia|]. split; [rewrite skipn_add; f_equal; lia|]. split; [|split].
        -- rewrite stored_app, <- app_assoc, Hc, app_assoc, Hstep, <- app_assoc. f_equal.
           rewrite N2Nat.inj_add. rewrite <- (firstn_skipn (N.to_nat n) stream) at 3.
           rewrite firstn_app, firstn_firstn, firstn_length. f_equal; [f_equal; lia|f_equal; unfold len in Hn; lia].
        -- rewrite stores_app. apply placed_app; [exact Hpl|]. fold (stored e1). now rewrite Hlen, <- Ho.
        -- rewrite stored_app, len_app, Hoff, Ho, Hlen. lia. }
      all: intros [= <- <- <- <- <-]; cbn [w_off w_buf]; exists e1, n;
        (split; [reflexivity|]); (split; [reflexivity|]); (split; [exact Hn|]); (split; [reflexivity|]);
        (split; [exact Hstep|]); (split; [exact Hpl|]); rewrite Hlen; exact Ho.
Qed.

Theorem w_ReadFrom_content pl s stream cuts s' total evs err rest :
  w_ReadFrom pl s stream cuts = (s', total, evs, err, rest) ->
  total <= len stream /\ rest = skipn (N.to_nat total) stream /\
  stored evs ++ w_buf s' = w_buf s ++ firstn (N.to_nat total) stream /\
  placed (w_off s) (stores evs) /\ w_off s' = w_off s + len (stored evs).
Proof.
  unfold w_ReadFrom. destruct (w_closed s).
  { intros [= <- <- <- <- <-]. cbn. rewrite app_nil_r. repeat split; auto; lia. }
  destruct (w_count s <? len (w_buf s)).
  { intros [= <- <- <- <- <-]. cbn. rewrite app_nil_r. repeat split; auto; lia. }
  intros H. apply w_ReadFrom_loop_content in H as (evs1 & k & -> & -> & Hk & -> & Hc & Hp & Ho). cbn [app]. rewrite N.add_0_l. auto.
Qed.
