(* Proof/WireSpec.v — round-trip of the independent encoder through the model of
   protocol.Read, and the stream theorem. *)
From Coq Require Import ZifyBool ZifyN ZifyNat.
From Storrent Require Import Base.Bytes Base.Bencode Gen.Consts Model.Wire Model.WireSpec Proof.Wire.
Open Scope N_scope.

Ltac Zify.zify_post_hook ::= Z.div_mod_to_equations.

Lemma decode_frame id payload rest :
  1 + len payload <= max_frame ->
  decode (frame id payload ++ rest) = decode_body (1 + len payload) id (payload ++ rest).
Proof.
  intros H. unfold frame, decode. rewrite <- app_assoc.
  rewrite enc32_read32 by (unfold max_frame in H; lia).
  destruct (1 + len payload =? 0) eqn:E; [lia|].
  destruct (max_frame <? 1 + len payload) eqn:E2; [lia|].
  reflexivity.
Qed.

Lemma frame_len id payload : len (frame id payload) = 5 + len payload.
Proof. unfold frame. rewrite len_app, enc32_len, len_cons. lia. Qed.

(* evaluate closed boolean tests on numerals *)
Ltac eval_tests :=
  repeat match goal with
  | |- context [N.eqb ?a ?b] =>
      let v := eval vm_compute in (N.eqb a b) in
      match v with true => idtac | false => idtac end; change (N.eqb a b) with v
  | |- context [N.ltb ?a ?b] =>
      let v := eval vm_compute in (N.ltb a b) in
      match v with true => idtac | false => idtac end; change (N.ltb a b) with v
  | |- context [negb true] => change (negb true) with false
  | |- context [negb false] => change (negb false) with true
  end; cbv iota.

Ltac rd :=
  repeat first
   [ rewrite enc32_read32 by lia
   | rewrite enc16_read16 by lia
   | rewrite <- app_assoc ].

Definition rt (m : msg) : Prop :=
  forall rest, exists a, decode (encode_spec m ++ rest) = DMsg (norm m) (len (encode_spec m)) a.

Lemma rt_fixed m : fixed_width m = true -> rt m.
Proof.
  unfold rt. destruct m; cbn [fixed_width]; try discriminate; intros H rest;
    unfold u32 in H; repeat rewrite andb_true_iff in H;
    cbn [norm encode_spec]; try (exists 0; reflexivity).
  - (* Have *) exists 0. rewrite decode_frame, frame_len, enc32_len by (rewrite enc32_len; unfold max_frame; lia).
    change (1 + 4) with 5. unfold decode_body. eval_tests. rd. reflexivity.
  - (* Bitfield *) exists (len b). rewrite decode_frame, frame_len by (unfold max_frame in *; lia).
    unfold decode_body. eval_tests.
    replace (1 + len b - 1) with (len b) by lia. rewrite take_exact. f_equal; lia.
  - (* Request *) exists 0. rewrite decode_frame, frame_len, !len_app, !enc32_len by (rewrite !len_app, !enc32_len; unfold max_frame; lia).
    change (1 + (4 + (4 + 4))) with 13. unfold decode_body. eval_tests. rd. reflexivity.
  - (* Piece *) exists (len d). rewrite decode_frame, frame_len, !len_app, !enc32_len by (rewrite !len_app, !enc32_len; unfold max_frame in *; lia).
    unfold decode_body. eval_tests.
    destruct (1 + (4 + (4 + len d)) <? 9) eqn:E; [lia|]. rd.
    replace (1 + (4 + (4 + len d)) - 9) with (len d) by lia. rewrite take_exact. f_equal; lia.
  - (* Cancel *) exists 0. rewrite decode_frame, frame_len, !len_app, !enc32_len by (rewrite !len_app, !enc32_len; unfold max_frame; lia).
    change (1 + (4 + (4 + 4))) with 13. unfold decode_body. eval_tests. rd. reflexivity.
  - (* Port *) exists 0. rewrite decode_frame, frame_len, enc16_len by (rewrite enc16_len; unfold max_frame; lia).
    change (1 + 2) with 3. unfold decode_body. eval_tests. rd. reflexivity.
  - (* SuggestPiece *) exists 0. rewrite decode_frame, frame_len, enc32_len by (rewrite enc32_len; unfold max_frame; lia).
    change (1 + 4) with 5. unfold decode_body. eval_tests. rd. reflexivity.
  - (* RejectRequest *) exists 0. rewrite decode_frame, frame_len, !len_app, !enc32_len by (rewrite !len_app, !enc32_len; unfold max_frame; lia).
    change (1 + (4 + (4 + 4))) with 13. unfold decode_body. eval_tests. rd. reflexivity.
  - (* AllowedFast *) exists 0. rewrite decode_frame, frame_len, enc32_len by (rewrite enc32_len; unfold max_frame; lia).
    change (1 + 4) with 5. unfold decode_body. eval_tests. rd. reflexivity.
  - (* ExtendedDontHave *) exists 0. destruct H as [Hs Hi]. apply N.eqb_eq in Hs. subst sub.
    unfold ext_frame. rewrite decode_frame, frame_len, len_cons, enc32_len by (rewrite len_cons, enc32_len; unfold max_frame; lia).
    change (1 + (1 + 4)) with 6. unfold decode_body, ExtDontHave, ExtPex, ExtMetadata, ExtUploadOnly. eval_tests.
    cbn [app]. cbv iota. eval_tests. change (6 - 2) with 4. eval_tests. rd. reflexivity.
Qed.

(* ---- streams ---- *)

Lemma encode_spec_nonempty m : encode_spec m <> [].
Proof.
  destruct m; cbn [encode_spec]; unfold ext_frame, frame, enc32; cbn [app]; discriminate.
Qed.

Lemma skipn_len_app (a b : bytes) : skipn (N.to_nat (len a)) (a ++ b) = b.
Proof.
  unfold len. rewrite Nat2N.id. rewrite skipn_app, skipn_all, Nat.sub_diag. reflexivity.
Qed.

Lemma decode_stream_concat ms :
  Forall rt ms ->
  forall fuel, (length ms <= fuel)%nat ->
  decode_stream fuel (concat (map encode_spec ms)) = (map norm ms, None).
Proof.
  induction 1 as [|m ms Hm Hms IH]; intros fuel Hf.
  - destruct fuel; reflexivity.
  - destruct fuel as [|f]; [cbn [length] in Hf; lia|].
    cbn [map concat decode_stream].
    destruct (encode_spec m ++ concat (map encode_spec ms)) eqn:E.
    + apply app_eq_nil in E as [E _]. now apply encode_spec_nonempty in E.
    + rewrite <- E. destruct (Hm (concat (map encode_spec ms))) as [a ->].
      rewrite skipn_len_app. rewrite IH by (cbn [length] in Hf; lia). reflexivity.
Qed.

Lemma encode_spec_len4 m : (4 <= length (encode_spec m))%nat.
Proof.
  destruct m; cbn [encode_spec]; unfold ext_frame, frame, enc32; cbn [app length]; lia.
Qed.

Lemma concat_len_ge ms : (length ms <= length (concat (map encode_spec ms)))%nat.
Proof.
  induction ms as [|m ms IH]; cbn [map concat length]; [lia|].
  rewrite app_length. pose proof (encode_spec_len4 m). lia.
Qed.

Lemma decode_stream_whole ms :
  Forall rt ms ->
  let w := concat (map encode_spec ms) in
  decode_stream (S (length w)) w = (map norm ms, None).
Proof.
  intros H w. apply decode_stream_concat; [assumption|].
  pose proof (concat_len_ge ms). subst w. lia.
Qed.

(* non-vacuity and BEP byte examples *)
Example ex_request_bytes :
  encode_spec (Request 1 16384 16384) = [0;0;0;13; 6; 0;0;0;1; 0;0;64;0; 0;0;64;0].
Proof. vm_compute. reflexivity. Qed.
Example ex_port_bytes : encode_spec (Port 6881) = [0;0;0;3; 9; 26;225].
Proof. vm_compute. reflexivity. Qed.
Example ex_have_all : encode_spec HaveAll = [0;0;0;1;14]. Proof. reflexivity. Qed.
Example ex_stream :
  decode_stream 10 (concat (map encode_spec [Have 3; Piece 1 0 [7;8]; Choke])) = ([Have 3; Piece 1 0 [7;8]; Choke], None).
Proof. vm_compute. reflexivity. Qed.
