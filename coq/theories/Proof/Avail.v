(* Proof/Avail.v — every change of what a peer advertises is reported to the torrent: for every
   step of the peer core and every piece i,
       [i advertised after] = [i advertised before] + (have(true) events for i) - (have(false) events for i),
   where a TorPeerBitmap event counts for every piece set in the bitmap it carries; on exit the
   whole bitmap is retracted. *)
From Coq Require Import ZifyBool ZifyN ZifyNat Sorted.
From Storrent Require Import Base.Bytes Base.Bencode Gen.Consts Model.Wire Model.PeerCore Proof.PeerCore.
Open Scope N_scope.

(* ---------- well-formed bitmaps: strictly increasing bits, all inside the allocated bytes ---------- *)

Definition sortedN (l : list N) : Prop := StronglySorted N.lt l.
Definition wf_bm (b : bm) : Prop := sortedN (bits b) /\ forall i, In i (bits b) -> i / 8 < blen b.

Lemma memN_In' x l : memN x l = true <-> In x l.
Proof.
  induction l as [|y r IH]; cbn [memN In]; [split; [discriminate|tauto]|].
  rewrite orb_true_iff, IH, N.eqb_eq. split; intros [H|H]; auto.
Qed.

Lemma memN_insN j i : forall l, memN j (insN i l) = (j =? i) || memN j l.
Proof.
  induction l as [|y r IH]; cbn [insN memN]; [now rewrite orb_false_r|].
  destruct (i <? y) eqn:E1; cbn [memN]; [reflexivity|].
  destruct (i =? y) eqn:E2.
  - apply N.eqb_eq in E2. subst. cbn [memN]. destruct (j =? y); reflexivity.
  - cbn [memN]. rewrite IH. destruct (j =? y), (j =? i); reflexivity.
Qed.

Lemma In_insN j i l : In j (insN i l) <-> j = i \/ In j l.
Proof. rewrite <- !memN_In', memN_insN, orb_true_iff, N.eqb_eq. tauto. Qed.

Lemma insN_sorted i : forall l, sortedN l -> sortedN (insN i l).
Proof.
  induction l as [|y r IH]; intros S; cbn [insN]; [repeat constructor|].
  inversion S as [|? ? Sr Fy]; subst.
  destruct (i <? y) eqn:E1.
  - constructor; [exact S|]. constructor; [lia|]. eapply Forall_impl; [|exact Fy]. intros a Ha. lia.
  - destruct (i =? y) eqn:E2; [exact S|]. constructor; [now apply IH|].
    apply Forall_forall. intros a Ha. apply In_insN in Ha as [->|Ha]; [lia|].
    rewrite Forall_forall in Fy. now apply Fy.
Qed.

Lemma memN_remN j i : forall l, sortedN l -> memN j (remN i l) = negb (j =? i) && memN j l.
Proof.
  induction l as [|y r IH]; intros S; cbn [remN memN]; [now rewrite andb_false_r|].
  inversion S as [|? ? Sr Fy]; subst.
  destruct (i =? y) eqn:E.
  - apply N.eqb_eq in E. subst.
    destruct (j =? y) eqn:Ej; cbn [negb andb orb]; [|reflexivity].
    apply N.eqb_eq in Ej. subst. destruct (memN y r) eqn:M; [|reflexivity].
    apply memN_In' in M. rewrite Forall_forall in Fy. specialize (Fy y M). lia.
  - cbn [memN]. rewrite (IH Sr). destruct (j =? y) eqn:Ej, (j =? i) eqn:Ei; cbn; try reflexivity.
    apply N.eqb_eq in Ej, Ei. subst. rewrite N.eqb_refl in E. discriminate.
Qed.

Lemma In_remN j i l : In j (remN i l) -> In j l.
Proof.
  induction l as [|y r IH]; cbn [remN]; [auto|]. destruct (i =? y); [now right|].
  intros [H|H]; [now left|right; auto].
Qed.

Lemma remN_sorted i : forall l, sortedN l -> sortedN (remN i l).
Proof.
  induction l as [|y r IH]; intros S; cbn [remN]; [exact S|].
  inversion S as [|? ? Sr Fy]; subst. destruct (i =? y); [exact Sr|].
  constructor; [now apply IH|]. apply Forall_forall. intros a Ha. apply In_remN in Ha.
  rewrite Forall_forall in Fy. now apply Fy.
Qed.

Lemma wf_get b i : wf_bm b -> bm_get b i = memN i (bits b).
Proof.
  intros [_ R]. unfold bm_get. destruct (memN i (bits b)) eqn:M; [|now rewrite andb_false_r].
  apply memN_In' in M. specialize (R i M). rewrite andb_true_r. apply N.ltb_lt. exact R.
Qed.

Lemma wf_nil : wf_bm bm_nil.
Proof. split; [constructor|intros i []]. Qed.

Lemma wf_extend b n : wf_bm b -> wf_bm (bm_extend b n) /\ bits (bm_extend b n) = bits b /\ blen b <= blen (bm_extend b n) /\ n / 8 < blen (bm_extend b n).
Proof.
  intros [S R]. unfold bm_extend, wf_bm. destruct (blen b <=? n / 8) eqn:E; cbn [bits blen].
  - split; [split; [exact S|intros i Hi; specialize (R i Hi); lia]|]. split; [reflexivity|lia].
  - split; [now split|]. split; [reflexivity|lia].
Qed.

Lemma wf_set b i : wf_bm b -> wf_bm (bm_set b i) /\ forall j, bm_get (bm_set b i) j = (j =? i) || bm_get b j.
Proof.
  intros W. destruct (wf_extend b i W) as ([S R] & Eb & Hl & Hi). pose proof W as [S0 R0].
  assert (W' : wf_bm (bm_set b i)).
  { unfold bm_set. cbn zeta. split; cbn [bits blen].
    - apply insN_sorted. exact S.
    - intros j Hj. apply In_insN in Hj as [->|Hj]; [exact Hi|now apply R]. }
  split; [exact W'|]. intros j. rewrite (wf_get _ j W'), (wf_get _ j W).
  unfold bm_set. cbn zeta. cbn [bits]. rewrite Eb. apply memN_insN.
Qed.

Lemma wf_reset b i : wf_bm b -> wf_bm (bm_reset b i) /\ forall j, bm_get (bm_reset b i) j = negb (j =? i) && bm_get b j.
Proof.
  intros W. pose proof W as [S R]. unfold bm_reset. destruct (blen b <=? i / 8) eqn:E.
  - split; [exact W|]. intros j. destruct (j =? i) eqn:Ej; cbn [negb andb]; [|reflexivity].
    apply N.eqb_eq in Ej. subst. unfold bm_get. destruct (i / 8 <? blen b) eqn:L; [lia|reflexivity].
  - assert (W' : wf_bm {| blen := blen b; bits := remN i (bits b) |}).
    { split; cbn [bits blen]; [now apply remN_sorted|]. intros j Hj. apply In_remN in Hj. now apply R. }
    split; [exact W'|]. intros j. rewrite (wf_get _ j W'), (wf_get _ j W). cbn [bits]. now apply memN_remN.
Qed.

Lemma wf_set_multiple n : wf_bm (bm_set_multiple bm_nil n) /\ forall j, bm_get (bm_set_multiple bm_nil n) j = (j <? n).
Proof.
  unfold bm_set_multiple.
  assert (H : forall k, let b := N.recursion (bm_extend bm_nil n) (fun i acc => bm_set acc i) k in
                        wf_bm b /\ forall j, bm_get b j = (j <? k)).
  { intros k. induction k as [|k IH] using N.peano_ind; cbn zeta.
    - rewrite N.recursion_0. destruct (wf_extend bm_nil n wf_nil) as (W & Eb & _). split; [exact W|].
      intros j. rewrite (wf_get _ j W), Eb. cbn. destruct (j <? 0) eqn:E; [lia|reflexivity].
    - rewrite N.recursion_succ; [|reflexivity|intros x y -> a b ->; reflexivity]. cbv beta.
      cbn zeta in IH. destruct IH as [W G]. destruct (wf_set _ k W) as [W' G']. split; [exact W'|].
      intros j. rewrite N.recursion_succ; [|reflexivity|intros x y -> a b ->; reflexivity]. cbv beta.
      rewrite G', G. destruct (j =? k) eqn:E1, (j <? k) eqn:E2, (j <? N.succ k) eqn:E3; try reflexivity; lia. }
  apply H.
Qed.

(* the bitmap of a Bitfield message *)
Lemma byte_bits_spec base x : forall i, In i (byte_bits base x) -> base <= i < base + 8.
Proof.
  unfold byte_bits. intros i Hi. apply in_flat_map in Hi as (j & Hj & Hi).
  destruct (N.testbit x (7 - j)); [|destruct Hi]. destruct Hi as [<-|[]].
  cbn [In] in Hj. lia.
Qed.

Lemma sorted_app l1 l2 : sortedN l1 -> sortedN l2 -> (forall a b, In a l1 -> In b l2 -> a < b) -> sortedN (l1 ++ l2).
Proof.
  induction l1 as [|x r IH]; intros S1 S2 H; cbn [app]; [exact S2|].
  inversion S1 as [|? ? Sr Fx]; subst. constructor.
  - apply IH; auto. intros a b Ha Hb. apply H; [now right|exact Hb].
  - apply Forall_app. split; [exact Fx|]. apply Forall_forall. intros b Hb. apply H; [now left|exact Hb].
Qed.

Lemma byte_bits_sorted base x : sortedN (byte_bits base x).
Proof.
  unfold byte_bits. cbn [flat_map].
  repeat match goal with |- context [if ?c then _ else _] => destruct c end; cbn [app];
    repeat (constructor; [|try (repeat constructor; lia)]); repeat constructor; lia.
Qed.

Lemma bits_of_bytes_spec : forall bs base,
  sortedN (bits_of_bytes base bs) /\ forall i, In i (bits_of_bytes base bs) -> base <= i < base + 8 * len bs.
Proof.
  induction bs as [|x r IH]; intros base; cbn [bits_of_bytes].
  - split; [constructor|intros i []].
  - destruct (IH (base + 8)) as [S R]. rewrite len_cons. split.
    + apply sorted_app; [apply byte_bits_sorted|exact S|].
      intros a b Ha Hb. apply byte_bits_spec in Ha. apply R in Hb. lia.
    + intros i Hi. apply in_app_or in Hi as [Hi|Hi]; [apply byte_bits_spec in Hi; lia|apply R in Hi; lia].
Qed.

Lemma wf_of_bytes bs : wf_bm (bm_of_bytes bs).
Proof.
  destruct (bits_of_bytes_spec bs 0) as [S R]. split; cbn [bm_of_bytes bits blen]; [exact S|].
  intros i Hi. apply R in Hi. apply N.div_lt_upper_bound; lia.
Qed.

(* ---------- what the torrent is told ---------- *)

(* the direction of an event as far as piece i is concerned *)
Definition ev_dir (i : N) (e : tev) : list bool :=
  match e with
  | TPeerHave j h => if j =? i then [h] else []
  | TPeerBitmap b h => map (fun _ => h) (filter (N.eqb i) (bits b))   (* the torrent loops over the set bits *)
  | _ => []
  end.
Definition dirs (i : N) (evs : list tev) : list bool := flat_map (ev_dir i) evs.

Lemma dirs_app i l1 l2 : dirs i (l1 ++ l2) = dirs i l1 ++ dirs i l2.
Proof. apply flat_map_app. Qed.

(* the torrent's view of one piece at one peer: have(true) only when it is not advertised,
   have(false) only when it is; None = some event would push a counter the wrong way *)
Fixpoint arun (b : bool) (l : list bool) : option bool :=
  match l with [] => Some b | h :: r => if Bool.eqb h b then None else arun h r end.

Lemma arun_app l1 : forall b l2, arun b (l1 ++ l2) = match arun b l1 with Some b' => arun b' l2 | None => None end.
Proof. induction l1 as [|h r IH]; intros b l2; cbn [arun app]; [reflexivity|]. destruct (Bool.eqb h b); [reflexivity|apply IH]. Qed.

Definition adv (s : pstate) (i : N) : bool := bm_get (peer_bm s) i.

(* what operations that do not touch the bitmap leave alone *)
Definition bp (i : N) (a : acc) := (s_bitmap (a_st a), dirs i (a_evs a)).

Section Neutral.
Variable i : N.
Notation bp := (bp i).

Ltac bp_simpl :=
  unfold Avail.bp, upd_st, add_ev, add_alloc, set_legit, with_wq, with_reqs, with_my, with_ext, with_lists,
         with_wdead, with_flags, with_requested, with_geo;
  cbn [a_st a_evs s_bitmap]; rewrite ?dirs_app; cbn [dirs flat_map ev_dir app]; rewrite ?app_nil_r.

Lemma bp_write a m : bp (fst (write a m)) = bp a.
Proof. unfold write. break_goal; cbn [fst]; reflexivity. Qed.
Lemma bp_drop a c : bp (drop a c) = bp a.
Proof. unfold drop. destruct (from_chunk _ _). bp_simpl. reflexivity. Qed.
Lemma bp_reject a x b l : bp (fst (reject a x b l)) = bp a.
Proof. unfold reject. destruct (s_can_fast _); [apply bp_write|reflexivity]. Qed.
Lemma bp_docancel a c : bp (fst (docancel a c)) = bp a.
Proof. unfold docancel. destruct (from_chunk _ _). apply bp_write. Qed.
Lemma bp_maybe_interested a : bp (fst (maybe_interested a)) = bp a.
Proof.
  unfold maybe_interested. destruct (Bool.eqb _ _); [reflexivity|].
  match goal with |- context [write a ?m] => pose proof (bp_write a m) as H; destruct (write a m) as [a' e] end.
  cbn [fst] in H. destruct e; cbn [fst]; exact H.
Qed.
Lemma bp_mr_loop k : forall a, bp (mr_loop k a) = bp a.
Proof.
  induction k as [|k IH]; intros a; cbn [mr_loop]; [reflexivity|].
  destruct (rq_queue _) as [|index qrest]; [reflexivity|]. destruct (congested _ || _); [reflexivity|].
  destruct (from_chunk _ index) as [x b]. destruct (_ || _).
  - now rewrite IH, bp_drop.
  - match goal with |- context [write ?x0 ?m] => pose proof (bp_write x0 m) as H; destruct (write x0 m) as [a2 e] end.
    cbn [fst] in H. destruct e; [rewrite IH; exact H| |]; (etransitivity; [apply (bp_drop a2 index)|exact H]).
Qed.
Lemma bp_maybe_request k a : bp (maybe_request k a) = bp a.
Proof. unfold maybe_request. destruct (_ && _); [reflexivity|apply bp_mr_loop]. Qed.
Lemma bp_fold_drop l : forall a, bp (fold_left drop l a) = bp a.
Proof. induction l as [|c r IH]; intros a; cbn [fold_left]; [reflexivity|]. now rewrite IH, bp_drop. Qed.
Lemma bp_clear_requests a both : bp (clear_requests a both) = bp a.
Proof. unfold clear_requests. rewrite bp_fold_drop. destruct both; [rewrite bp_fold_drop|]; reflexivity. Qed.
Lemma bp_reject_all l : forall a, bp (fst (reject_all a l)) = bp a.
Proof.
  induction l as [|r t IH]; intros a; cbn [reject_all]; [reflexivity|].
  pose proof (bp_reject a (u_index r) (u_begin r) (u_length r)) as H.
  destruct (reject a _ _ _) as [a' e]. cbn [fst] in H. destruct e; cbn [fst]; try exact H. now rewrite IH.
Qed.
Lemma bp_unchoke a u : bp (fst (unchoke a u)) = bp a.
Proof.
  unfold unchoke. destruct (Bool.eqb _ _); [reflexivity|]. destruct (u && _).
  - pose proof (bp_write a Unchoke) as H. destruct (write a Unchoke) as [a' e]. cbn [fst] in H. destruct e; cbn [fst]; exact H.
  - pose proof (bp_write a Choke) as H. destruct (write a Choke) as [a' e]. cbn [fst] in H.
    destruct e; cbn [fst]; try exact H. rewrite bp_reject_all. exact H.
Qed.
Lemma bp_schedule_upload a allow data : bp (fst (schedule_upload a allow data)) = bp a.
Proof.
  unfold schedule_upload. destruct (negb _); [reflexivity|]. destruct (s_requested (a_st a)) as [|r rest]; [reflexivity|].
  destruct (congested _); [reflexivity|]. destruct (negb allow); [reflexivity|]. destruct data as [d|].
  - match goal with |- context [write ?x ?m] => pose proof (bp_write x m) as H; destruct (write x m) as [a2 e] end.
    cbn [fst] in H. destruct e; cbn [fst]; exact H.
  - rewrite bp_reject. reflexivity.
Qed.
Lemma bp_send_pex a : bp (send_pex a) = bp a.
Proof.
  unfold send_pex. destruct (_ || _); [reflexivity|]. destruct (_ && _); [reflexivity|].
  match goal with |- context [write a ?m] => pose proof (bp_write a m) as H; destruct (write a m) as [a' e] end.
  cbn [fst] in H. destruct e; exact H.
Qed.
Lemma bp_enqueue_all cs : forall a, bp (enqueue_all a cs) = bp a.
Proof.
  induction cs as [|c r IH]; intros a; cbn [enqueue_all]; [reflexivity|].
  destruct (from_chunk _ c) as [x b]. destruct (bm_get _ _).
  - destruct (rq_enqueue _ _) as [q done]. rewrite IH. destruct done; [|rewrite bp_drop]; reflexivity.
  - now rewrite IH, bp_drop.
Qed.
Lemma bp_cancel_chunk a c a' : cancel_chunk a c = Some a' -> bp a' = bp a.
Proof.
  unfold cancel_chunk. destruct (rq_cancel _ _) as [[r1 found] docan]. destruct found.
  - intros [= <-]. destruct docan; [rewrite bp_docancel|]; reflexivity.
  - destruct (rq_del _ _ _) as [[[r2 q] r]|]; [|discriminate].
    destruct (q || r); intros [= <-]; [|reflexivity]. rewrite bp_drop. destruct r; [rewrite bp_docancel|]; reflexivity.
Qed.
Lemma bp_cancel_many cs : forall a a', cancel_many a cs = Some a' -> bp a' = bp a.
Proof.
  induction cs as [|c r IH]; intros a a'; cbn [cancel_many]; [now intros [= <-]|].
  destruct (cancel_chunk a c) eqn:C; [|discriminate]. intros H. apply IH in H. rewrite H. now apply bp_cancel_chunk in C.
Qed.
Lemma bp_expire_loop fuel : forall x a drops cancels d, bp (fst (expire_loop fuel x a drops cancels d)) = bp a.
Proof.
  induction fuel as [|f IH]; intros x a drops cancels d; cbn [expire_loop]; [reflexivity|].
  destruct (nth_error _ x) as [[c cancelled]|]; [|reflexivity].
  destruct (cancelled && memN c drops).
  - destruct (remove_swap _ _) as [[y rest]|]; [|reflexivity]. rewrite IH, bp_drop. reflexivity.
  - destruct (negb cancelled && memN c cancels); [|apply IH]. rewrite IH, bp_docancel. reflexivity.
Qed.
Lemma bp_tick a drops cancels k : bp (tick a drops cancels k) = bp a.
Proof.
  unfold tick. destruct (rq_requested _) as [|x l]; [reflexivity|].
  pose proof (bp_expire_loop (2 * length (x :: l) + 2) 0 a drops cancels false) as H.
  destruct (expire_loop _ 0 a drops cancels false) as [a1 dropped]. cbn [fst] in H.
  destruct dropped; [rewrite bp_maybe_request|]; exact H.
Qed.

End Neutral.

(* ---------- conservation ---------- *)

Definition Bal (i : N) (s : pstate) (a : acc) : Prop :=
  wf_bm (peer_bm (a_st a)) /\ arun (adv s i) (dirs i (a_evs a)) = Some (adv (a_st a) i).

Lemma Bal_bp i s a a' : bp i a' = bp i a -> Bal i s a -> Bal i s a'.
Proof. unfold bp, Bal, adv, peer_bm. intros [= -> ->]. auto. Qed.

Ltac bp_facts i :=
  repeat match goal with
  | H : write ?x ?m = (?y, _) |- _ =>
      let F := fresh "F" in pose proof (bp_write i x m) as F; rewrite H in F; cbn [fst] in F; clear H
  | H : reject ?x ?a ?b ?l = (?y, _) |- _ =>
      let F := fresh "F" in pose proof (bp_reject i x a b l) as F; rewrite H in F; cbn [fst] in F; clear H
  | H : unchoke ?x ?u = (?y, _) |- _ =>
      let F := fresh "F" in pose proof (bp_unchoke i x u) as F; rewrite H in F; cbn [fst] in F; clear H
  end.

Ltac bp_peel i :=
  repeat first
    [ reflexivity
    | eassumption
    | etransitivity;
      [ first [ apply (bp_maybe_interested i) | apply (bp_write i) | apply (bp_reject i) | apply (bp_docancel i)
              | apply (bp_send_pex i) | apply (bp_unchoke i) | apply (bp_schedule_upload i)
              | apply (bp_maybe_request i) | apply (bp_clear_requests i) | apply (bp_drop i) | apply (bp_enqueue_all i)
              | eassumption ] | ]
    | progress (unfold bp, upd_st, add_ev, add_alloc, set_legit, with_wq, with_reqs, with_my, with_ext, with_lists,
                       with_wdead, with_flags, with_requested; cbn [a_st a_evs s_bitmap];
                rewrite ?dirs_app; cbn [dirs flat_map ev_dir app]; rewrite ?app_nil_r) ].

Definition bitmap_neutral (m : msg) : bool :=
  match m with Have _ | Bitfield _ | HaveAll | HaveNone | ExtendedDontHave _ _ => false | _ => true end.

Lemma handle_message_bp i a m k ad : bitmap_neutral m = true -> bp i (fst (handle_message a m k ad)) = bp i a.
Proof.
  destruct m; cbn [bitmap_neutral]; try discriminate; intros _.
  6: { (* Request *)
    cbn [handle_message]. destruct (_ || _); [unfold of_werr; destruct (snd _); cbn [fst]; apply bp_reject|].
    destruct (upload_queue_max <=? _).
    - destruct (s_requested (a_st a)) as [|h t].
      + cbn [fst]. unfold ok. cbn [fst]. bp_peel i.
      + match goal with |- context [reject ?x ?x1 ?x2 ?x3] => pose proof (bp_reject i x x1 x2 x3) as H; destruct (reject x x1 x2 x3) as [a1 e] end.
        cbn [fst] in H. destruct e; cbn [negb fst]; unfold ok; cbn [fst]; (etransitivity; [|exact H]); bp_peel i.
    - cbn [negb]. unfold ok. cbn [fst]. bp_peel i. }
  6: { (* Piece *)
    cbn [handle_message]. unfold ok. destruct (s_geo (a_st a)) as [g|]; [|reflexivity].
    destruct (num_pieces g <=? i0); [reflexivity|]. destruct (rq_del _ _ false) as [[[rq q] r]|]; [|reflexivity].
    cbn [fst]. rewrite bp_maybe_request. destruct (r || q); [|reflexivity].
    destruct (len d =? _); [destruct ad|]; unfold set_legit; rewrite ?bp_drop; bp_peel i. }
  9: { (* RejectRequest *)
    cbn [handle_message]. unfold ok. destruct (negb _); [reflexivity|]. destruct (s_geo (a_st a)) as [g|]; [|reflexivity].
    destruct (rq_del _ _ true) as [[[rq q] r]|]; [|reflexivity]. cbn [fst]. rewrite bp_maybe_request.
    destruct r; rewrite ?bp_drop; reflexivity. }
  all: cbn [handle_message]; unfold ok, of_werr; break_goal; cbn [fst snd]; bp_facts i; bp_peel i.
Qed.

Lemma arun_snoc b0 l cur h : arun b0 l = Some cur -> arun b0 (l ++ [h]) = if Bool.eqb h cur then None else Some h.
Proof. intros H. rewrite arun_app, H. reflexivity. Qed.

Lemma dirs_snoc i evs e : dirs i (evs ++ [e]) = dirs i evs ++ ev_dir i e.
Proof. rewrite dirs_app. unfold dirs at 2. cbn [flat_map]. now rewrite app_nil_r. Qed.

(* telling the torrent about a bitmap: correct exactly when every bit of it flips *)
Lemma filter_none i l : (forall k, In k l -> k <> i) -> filter (N.eqb i) l = [].
Proof.
  induction l as [|y r IH]; intros H; cbn [filter]; [reflexivity|].
  destruct (i =? y) eqn:E; [apply N.eqb_eq in E; exfalso; apply (H y); [now left|auto]|]. apply IH. intros k Hk. apply H. now right.
Qed.
Lemma sorted_filter i l : sortedN l -> filter (N.eqb i) l = if memN i l then [i] else [].
Proof.
  induction l as [|y r IH]; intros S; cbn [filter memN]; [reflexivity|].
  inversion S as [|? ? Sr Fy]; subst. rewrite Forall_forall in Fy. destruct (i =? y) eqn:E; cbn [orb].
  - apply N.eqb_eq in E. subst. rewrite filter_none; [reflexivity|]. intros k Hk. specialize (Fy k Hk). lia.
  - now apply IH.
Qed.

Lemma tell_bitmap i b0 evs cur b h :
  wf_bm b -> arun b0 (dirs i evs) = Some cur -> (bm_get b i = true -> cur = negb h) ->
  arun b0 (dirs i (evs ++ [TPeerBitmap b h])) = Some (if bm_get b i then h else cur).
Proof.
  intros Wb H Hc. rewrite dirs_snoc. cbn [ev_dir]. rewrite (sorted_filter i _ (proj1 Wb)), <- (wf_get b i Wb). destruct (bm_get b i); cbn [map].
  - rewrite (arun_snoc _ _ _ _ H), (Hc eq_refl). now destruct h.
  - now rewrite app_nil_r.
Qed.
Lemma tell_have i b0 evs cur j h :
  arun b0 (dirs i evs) = Some cur -> (j = i -> cur = negb h) ->
  arun b0 (dirs i (evs ++ [TPeerHave j h])) = Some (if j =? i then h else cur).
Proof.
  intros H Hc. rewrite dirs_snoc. cbn [ev_dir]. destruct (j =? i) eqn:E.
  - apply N.eqb_eq in E. rewrite (arun_snoc _ _ _ _ H), (Hc E). now destruct h.
  - now rewrite app_nil_r.
Qed.

Lemma bm_get_nil i : bm_get bm_nil i = false.
Proof. unfold bm_get. cbn [bm_nil blen bits memN]. now rewrite andb_false_r. Qed.

Lemma Bal_retract i s a : Bal i s a ->
  s_bitmap (a_st (retract_bitmap a)) = s_bitmap (a_st a) /\
  arun (adv s i) (dirs i (a_evs (retract_bitmap a))) = Some false.
Proof.
  intros [W B]. unfold retract_bitmap, adv, peer_bm in *. destruct (s_bitmap (a_st a)) as [b|] eqn:E.
  - unfold add_alloc, add_ev. cbn [a_st a_evs]. split; [exact E|].
    rewrite (tell_bitmap i _ _ _ b false W B); [now destruct (bm_get b i)|]. intros ->. reflexivity.
  - split; [exact E|]. now rewrite B, bm_get_nil.
Qed.

Lemma Bal_intro i s a b evs :
  s_bitmap (a_st a) = b -> a_evs a = evs ->
  wf_bm (match b with Some x => x | None => bm_nil end) ->
  arun (bm_get (peer_bm s) i) (dirs i evs) = Some (bm_get (match b with Some x => x | None => bm_nil end) i) ->
  Bal i s a.
Proof. intros <- <- W B. split; [exact W|exact B]. Qed.

Lemma handle_message_bal i s a m k ad : Bal i s a -> Bal i s (fst (handle_message a m k ad)).
Proof.
  intros HB. destruct (bitmap_neutral m) eqn:Nm.
  { eapply Bal_bp; [apply handle_message_bp; exact Nm|exact HB]. }
  pose proof HB as [W B]. unfold adv in B.
  destruct m as [| | | | |j|bf| | | | | | | | | | | | |sub j| | |]; try discriminate; cbn [handle_message]; unfold ok.
  - (* Have *)
    assert (K : forall a1, s_bitmap (a_st a1) = Some (bm_set (peer_bm (a_st a)) j) ->
                           a_evs a1 = a_evs a ++ [TPeerHave j true] ->
                           bm_get (peer_bm (a_st a)) j = false -> Bal i s a1).
    { intros a1 E1 E2 Hn. destruct (wf_set _ j W) as [W' G]. eapply Bal_intro; [exact E1|exact E2|exact W'|].
      rewrite (tell_have i _ _ _ j true B); [|intros ->; exact Hn].
      rewrite G, (N.eqb_sym i j). now destruct (j =? i). }
    destruct (s_geo (a_st a)) as [g|].
    + destruct (num_pieces g <=? j); [cbn [fst]; exact HB|]. destruct (bm_get _ j) eqn:Gj; [cbn [fst]; exact HB|].
      cbn [fst]. eapply Bal_bp; [apply bp_maybe_interested|]. apply K; reflexivity.
    + destruct (max_pieces_unknown <=? j); [cbn [fst]; exact HB|]. destruct (bm_get _ j) eqn:Gj; [cbn [fst]; exact HB|].
      cbn [fst]. eapply Bal_bp; [apply bp_maybe_interested|]. apply K; reflexivity.
  - (* Bitfield *)
    match goal with |- context [if ?c then _ else _] => destruct c end; [cbn [fst]; exact HB|].
    cbn [fst]. eapply Bal_bp; [apply bp_maybe_interested|].
    assert (HB1 : Bal i s (add_alloc a (len bf))) by exact HB.
    destruct (Bal_retract i s _ HB1) as (_ & Dr). unfold adv in Dr.
    eapply Bal_intro; [reflexivity|reflexivity|cbn [add_alloc add_ev upd_st a_st a_evs with_bitmap with_geo s_bitmap]; apply wf_of_bytes|cbn [add_alloc add_ev upd_st a_st a_evs with_bitmap with_geo s_bitmap]].
    rewrite (tell_bitmap i _ _ _ (bm_of_bytes bf) true (wf_of_bytes bf) Dr); [|reflexivity]. now destruct (bm_get (bm_of_bytes bf) i).
  - (* HaveAll *)
    destruct (negb _); [cbn [fst]; exact HB|].
    destruct (Bal_retract i s _ HB) as (_ & Dr). unfold adv in Dr.
    destruct (s_geo (a_st a)) as [g|]; cbn [fst]; (eapply Bal_bp; [apply bp_maybe_interested|]).
    + destruct (wf_set_multiple (num_pieces g)) as [Wm Gm].
      eapply Bal_intro; [reflexivity|reflexivity|cbn [add_alloc add_ev upd_st a_st a_evs with_bitmap with_geo s_bitmap]; exact Wm|cbn [add_alloc add_ev upd_st a_st a_evs with_bitmap with_geo s_bitmap]].
      rewrite (tell_bitmap i _ _ _ (bm_set_multiple bm_nil (num_pieces g)) true Wm Dr); [|reflexivity].
      now destruct (bm_get (bm_set_multiple bm_nil (num_pieces g)) i).
    + eapply Bal_intro; [reflexivity|reflexivity|cbn [add_alloc add_ev upd_st a_st a_evs with_bitmap with_geo s_bitmap]; apply wf_nil|cbn [add_alloc add_ev upd_st a_st a_evs with_bitmap with_geo s_bitmap]]. now rewrite Dr, bm_get_nil.
  - (* HaveNone *)
    destruct (negb _); [cbn [fst]; exact HB|]. cbn [fst].
    destruct (Bal_retract i s _ HB) as (_ & Dr). unfold adv in Dr.
    eapply Bal_intro; [reflexivity|reflexivity|cbn [add_alloc add_ev upd_st a_st a_evs with_bitmap with_geo s_bitmap]; apply wf_nil|cbn [add_alloc add_ev upd_st a_st a_evs with_bitmap with_geo s_bitmap]]. now rewrite Dr, bm_get_nil.
  - (* ExtendedDontHave *)
    destruct (_ && _); [cbn [fst]; exact HB|].
    match goal with |- context [if ?c then _ else _] => destruct c end; [cbn [fst]; exact HB|].
    destruct (bm_get (peer_bm (a_st a)) j) eqn:Gj; cbn [fst]; [|exact HB].
    destruct (wf_reset _ j W) as [W' G].
    eapply Bal_intro; [reflexivity|reflexivity|cbn [add_alloc add_ev upd_st a_st a_evs with_bitmap with_geo s_bitmap]; exact W'|cbn [add_alloc add_ev upd_st a_st a_evs with_bitmap with_geo s_bitmap]].
    rewrite (tell_have i _ _ _ j false B); [|intros ->; exact Gj].
    rewrite G, (N.eqb_sym i j). now destruct (j =? i).
Qed.

Lemma handle_event_bal i s a e k : Bal i s a -> Bal i s (fst (handle_event a e k)).
Proof.
  intros HB. pose proof HB as [W B].
  assert (N0 : forall x, bp i x = bp i a -> Bal i s x) by (intros x H; eapply Bal_bp; eauto).
  destruct e; cbn [handle_event]; unfold ok, of_werr.
  - (* PeerMetadataComplete *)
    destruct (s_geo (a_st a)); [cbn [fst]; exact HB|].
    destruct (s_is_seed (a_st a)).
    + destruct (s_bitmap (a_st a)) eqn:Eb; cbn [fst]; [apply N0; reflexivity|].
      eapply Bal_bp; [apply bp_maybe_interested|].
      destruct (wf_set_multiple (num_pieces g)) as [Wm Gm].
      eapply Bal_intro; [reflexivity|reflexivity|cbn [add_alloc add_ev upd_st a_st a_evs with_bitmap with_geo s_bitmap]; exact Wm|cbn [add_alloc add_ev upd_st a_st a_evs with_bitmap with_geo s_bitmap]].
      unfold adv in B. unfold peer_bm at 2 in B. rewrite Eb, bm_get_nil in B.
      rewrite (tell_bitmap i _ _ _ (bm_set_multiple bm_nil (num_pieces g)) true Wm B); [|reflexivity].
      now destruct (bm_get (bm_set_multiple bm_nil (num_pieces g)) i).
    + destruct (_ <? _); cbn [fst]; apply N0; [reflexivity|]. etransitivity; [apply bp_maybe_interested|]. reflexivity.
  - (* PeerRequest *)
    destruct (s_geo (a_st a)); cbn [fst]; [|exact HB]. apply N0. rewrite (bp_maybe_request i). apply (bp_enqueue_all i).
  - (* PeerHave *) apply N0. break_goal; cbn [fst]; bp_facts i; bp_peel i.
  - (* PeerCancel *)
    destruct (s_geo (a_st a)); [|cbn [fst]; exact HB].
    destruct (cancel_chunk a c) as [a'|] eqn:C; cbn [fst]; [|exact HB]. apply N0. now apply (bp_cancel_chunk i) in C.
  - (* PeerCancelPiece *)
    destruct (s_geo (a_st a)); [|cbn [fst]; exact HB].
    destruct (cancel_many a _) as [a'|] eqn:C; cbn [fst]; [|exact HB]. apply N0. now apply (bp_cancel_many i) in C.
  - (* PeerInterested *) apply N0. cbn [fst]. bp_peel i.
  - (* PeerGetMetadata *) apply N0. break_goal; cbn [fst]; bp_peel i.
  - (* PeerPex *) apply N0. break_goal; cbn [fst]; bp_peel i.
  - (* PeerUnchoke *)
    apply N0. pose proof (bp_unchoke i a u) as H. destruct (unchoke a u) as [a1 e]. cbn [fst] in H. destruct e; cbn [fst]; exact H.
  - cbn [fst]. exact HB.
Qed.

(* One step of the peer core: the events it sends move the torrent's view of every piece from
   what the peer advertised before to what it advertises after, never pushing a counter the
   wrong way. *)
Theorem step_advertised i s ballast o k :
  wf_bm (peer_bm s) ->
  let a := fst (step s ballast o k) in
  wf_bm (peer_bm (a_st a)) /\ arun (adv s i) (dirs i (a_evs a)) = Some (adv (a_st a) i).
Proof.
  intros W. unfold step.
  set (s0 := if s_wdead s then s else with_wq s ballast).
  assert (B0 : Bal i s (acc0 s0)).
  { unfold Bal, adv, peer_bm. cbn [acc0 a_st a_evs dirs flat_map arun]. subst s0. destruct (s_wdead s); cbn [with_wq s_bitmap]; split; auto. }
  assert (SL : forall x b, Bal i s x -> Bal i s (set_legit x b)) by (intros x b H; exact H).
  destruct o as [m ad|e|drops cancels| |allow data|].
  - destruct m; cbn [fst]; try apply SL; now apply handle_message_bal.
  - destruct e; cbn [fst]; try apply SL; now apply handle_event_bal.
  - unfold ok. cbn [fst]. eapply Bal_bp; [apply (bp_tick i)|exact B0].
  - unfold ok. cbn [fst]. apply SL. eapply Bal_bp; [apply (bp_send_pex i)|exact B0].
  - cbn [fst]. unfold of_werr. pose proof (bp_schedule_upload i (acc0 s0) allow data) as H.
    destruct (snd (schedule_upload (acc0 s0) allow data)); cbn [fst]; apply SL; (eapply Bal_bp; [exact H|exact B0]).
  - unfold ok. cbn [fst]. apply SL. exact B0.
Qed.

(* on exit the whole bitmap is retracted *)
Theorem exit_retracts i s :
  wf_bm (peer_bm s) -> arun (adv s i) (dirs i (a_evs (retract_bitmap (acc0 s)))) = Some false.
Proof.
  intros W. assert (B0 : Bal i s (acc0 s)) by (split; [exact W|reflexivity]).
  now destruct (Bal_retract i s _ B0) as (_ & Dr).
Qed.

Lemma init_wf g cf ce my : wf_bm (peer_bm (init_state g cf ce my)).
Proof. unfold init_state, peer_bm. cbn [s_bitmap]. apply wf_nil. Qed.
Lemma init_adv g cf ce my i : adv (init_state g cf ce my) i = false.
Proof. unfold adv, init_state, peer_bm. cbn [s_bitmap]. apply bm_get_nil. Qed.
