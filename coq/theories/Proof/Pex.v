(* Proof/Pex.v — the peer-exchange bookkeeping of one peer (pexState in peer/peer.go):
   what goes on the wire is consistent with what the remote was told before. *)
From Coq Require Import ZifyBool ZifyN ZifyNat.
From Storrent Require Import Base.Bytes Base.Bencode Model.Wire Model.PeerCore.
Open Scope N_scope.

Definition addr (p : peer) : bytes * N := (p_ip p, p_port p).

Lemma peer_addr_eqb_spec p q : peer_addr_eqb p q = true <-> addr p = addr q.
Proof.
  unfold peer_addr_eqb, addr. rewrite andb_true_iff, bytes_eqb_eq, N.eqb_eq.
  split; [intros [-> ->]; reflexivity|intros [= -> ->]; auto].
Qed.

Lemma pfind_spec p l : pfind p l = true <-> In (addr p) (map addr l).
Proof.
  unfold pfind. rewrite existsb_exists. split.
  - intros (q & Hq & E). apply peer_addr_eqb_spec in E. rewrite E. now apply in_map.
  - intros H. apply in_map_iff in H as (q & E & Hq). exists q. split; [assumption|].
    apply peer_addr_eqb_spec. now symmetry.
Qed.

Lemma pfind_false p l : pfind p l = false <-> ~ In (addr p) (map addr l).
Proof. rewrite <- pfind_spec. destruct (pfind p l); split; intros; try congruence; exfalso; auto. Qed.

Lemma premove_in p l a : NoDup (map addr l) ->
  (In a (map addr (premove p l)) <-> In a (map addr l) /\ a <> addr p).
Proof.
  induction l as [|q r IH]; cbn [premove map]; intros ND; [split; [intros []|intros [[] _]]|].
  inversion ND as [|? ? Hq ND']; subst.
  destruct (peer_addr_eqb p q) eqn:E.
  - apply peer_addr_eqb_spec in E. split.
    + intros H. split; [right; assumption|]. intros ->. apply Hq. now rewrite <- E.
    + intros [[H|H] Hne]; [congruence|assumption].
  - assert (Hne : addr p <> addr q) by (intros H; apply peer_addr_eqb_spec in H; congruence).
    cbn [map In]. split.
    + intros [<-|H]; [split; [now left|congruence]|].
      apply (IH ND') in H as [H1 H2]. split; [now right|assumption].
    + intros [[<-|H1] H2]; [now left|right; apply (IH ND'); split; assumption].
Qed.

Lemma premove_nodup p l : NoDup (map addr l) -> NoDup (map addr (premove p l)).
Proof.
  induction l as [|q r IH]; cbn [premove map]; intros ND; [constructor|].
  inversion ND as [|? ? Hq ND']; subst.
  destruct (peer_addr_eqb p q); [assumption|].
  cbn [map]. constructor; [|now apply IH].
  intros H. apply (premove_in p r _ ND') in H as [H _]. contradiction.
Qed.

(* ghost: the set of addresses the remote currently believes present, i.e. announced
   on the wire and not dropped since *)
Record pexg := { g_st : pexst; g_wire : list (bytes * N) }.

Inductive pop := PAdd (p : peer) | PDel (p : peer) | PTick (written : bool).

Definition remove_all (xs : list (bytes * N)) (w : list (bytes * N)) : list (bytes * N) :=
  filter (fun a => negb (existsb (fun x => bytes_eqb (fst x) (fst a) && (snd x =? snd a)) xs)) w.

(* the delta a tick puts on the wire (computePex), when there is one *)
Definition delta (st : pexst) : list peer * list peer :=
  (firstn 50 (px_pending st), firstn 50 (px_pending_del st)).

Definition pstep (g : pexg) (o : pop) : pexg :=
  match o with
  | PAdd p => {| g_st := pex_add (g_st g) p; g_wire := g_wire g |}
  | PDel p => {| g_st := pex_del (g_st g) p; g_wire := g_wire g |}
  | PTick false => g        (* congested or write failed: the delta is re-queued *)
  | PTick true =>
    let st := g_st g in
    let (tosend, todel) := delta st in
    {| g_st := {| px_pending := skipn 50 (px_pending st); px_pending_del := skipn 50 (px_pending_del st);
                  px_sent := px_sent st ++ tosend |};
       g_wire := remove_all (map addr todel) (g_wire g) ++ map addr tosend |}
  end.

Definition pex_inv (g : pexg) : Prop :=
  let st := g_st g in
  NoDup (map addr (px_pending st) ++ map addr (px_sent st) ++ map addr (px_pending_del st)) /\
  (forall a, In a (g_wire g) <-> In a (map addr (px_sent st)) \/ In a (map addr (px_pending_del st))).

Lemma nodup_app {A} (a b : list A) :
  NoDup (a ++ b) <-> NoDup a /\ NoDup b /\ (forall x, In x a -> ~ In x b).
Proof.
  induction a as [|y a IH]; cbn [app].
  - split; [intros H; repeat split; [constructor|assumption|intros x []]|intros (_ & H & _); assumption].
  - split.
    + intros H. inversion H as [|? ? Hy ND]; subst. apply IH in ND as (Ha & Hb & Hab).
      repeat split; [constructor; [intros Hin; apply Hy; apply in_or_app; now left|assumption]|assumption|].
      intros x [<-|Hx]; [intros Hin; apply Hy; apply in_or_app; now right|now apply Hab].
    + intros (Ha & Hb & Hab). inversion Ha as [|? ? Hy Ha']; subst. constructor.
      * intros Hin. apply in_app_or in Hin as [Hin|Hin]; [contradiction|]. apply (Hab y); [now left|assumption].
      * apply IH. repeat split; [assumption|assumption|]. intros x Hx. apply Hab. now right.
Qed.

Lemma nodup_app3 {A} (a b c : list A) :
  NoDup (a ++ b ++ c) <->
  NoDup a /\ NoDup b /\ NoDup c /\ (forall x, In x a -> ~ In x b /\ ~ In x c) /\ (forall x, In x b -> ~ In x c).
Proof.
  rewrite nodup_app, nodup_app. split.
  - intros (Ha & (Hb & Hc & Hbc) & Habc). repeat split; auto;
      intros Hin; apply (Habc x H); apply in_or_app; auto.
  - intros (Ha & Hb & Hc & Hab & Hbc). repeat split; auto.
    intros x Hx Hin. destruct (Hab x Hx) as [N1 N2]. apply in_app_or in Hin as [Hin|Hin]; contradiction.
Qed.

Lemma firstn_skipn_in {A} n (l : list A) x : In x l <-> In x (firstn n l) \/ In x (skipn n l).
Proof. rewrite <- (firstn_skipn n l) at 1. rewrite in_app_iff. reflexivity. Qed.

Lemma firstn_skipn_nodup {A} n (l : list A) :
  NoDup l <-> NoDup (firstn n l) /\ NoDup (skipn n l) /\ (forall x, In x (firstn n l) -> ~ In x (skipn n l)).
Proof. rewrite <- (firstn_skipn n l) at 1. apply nodup_app. Qed.

Lemma remove_all_in xs w a :
  In a (remove_all xs w) <-> In a w /\ ~ In a xs.
Proof.
  unfold remove_all. rewrite filter_In. split; intros [H1 H2]; split; auto.
  - intros Hin. apply negb_true_iff in H2. 
    assert (existsb (fun x => bytes_eqb (fst x) (fst a) && (snd x =? snd a)) xs = true).
    { apply existsb_exists. exists a. split; [assumption|].
      apply andb_true_iff. split; [now apply bytes_eqb_eq|apply N.eqb_refl]. }
    congruence.
  - apply negb_true_iff. destruct (existsb _ xs) eqn:E; [|reflexivity].
    apply existsb_exists in E as (x & Hx & E). apply andb_true_iff in E as [E1 E2].
    apply bytes_eqb_eq in E1. apply N.eqb_eq in E2. destruct x, a; cbn in *; subst. contradiction.
Qed.

Lemma pstep_inv g o : pex_inv g -> pex_inv (pstep g o).
Proof.
  unfold pex_inv. intros [ND W]. apply nodup_app3 in ND as (N1 & N2 & N3 & D12 & D23).
  destruct o as [p|p|[|]]; cbn [pstep g_st g_wire]; cbv zeta.
  - (* add *)
    unfold pex_add.
    destruct (pfind p (px_pending_del (g_st g))) eqn:Fd.
    + apply pfind_spec in Fd. cbn [px_pending px_sent px_pending_del]. split.
      * apply nodup_app3. rewrite map_app. cbn [map].
        repeat split; auto.
        -- apply nodup_app. repeat split; [assumption|constructor; [intros []|constructor]|].
           intros x Hx [<-|[]]. apply (D23 _ Hx). exact Fd.
        -- now apply premove_nodup.
        -- intros Hin. apply in_app_or in Hin as [Hin|[<-|[]]]; [(destruct (D12 x H) as [? ?]; contradiction)|].
           (destruct (D12 _ H) as [? ?]; contradiction).
        -- intros Hin. apply (premove_in p _ _ N3) in Hin as [Hin _]. (destruct (D12 x H) as [? ?]; contradiction).
        -- intros x Hx Hin. apply (premove_in p _ _ N3) in Hin as [Hin Hne].
           apply in_app_or in Hx as [Hx|[<-|[]]]; [now apply (D23 x Hx)|congruence].
      * intros a. rewrite W, map_app, in_app_iff. cbn [map In]. rewrite (premove_in p _ a N3).
        split.
        -- intros [H|H]; [auto|]. destruct (list_eq_dec N.eq_dec (fst a) (p_ip p)) as [E1|E1];
             [destruct (N.eq_dec (snd a) (p_port p)) as [E2|E2]|].
           ++ left. right. left. destruct a; cbn in *; subst. reflexivity.
           ++ right. split; [assumption|]. unfold addr. intros ->. cbn in E2. congruence.
           ++ right. split; [assumption|]. unfold addr. intros ->. cbn in E1. congruence.
        -- intros [[H|[<-|[]]]|[H _]]; auto.
    + destruct (pfind p (px_sent (g_st g))) eqn:Fs; [split; [apply nodup_app3; repeat split; auto; apply D12; assumption|exact W]|].
      destruct (pfind p (px_pending (g_st g))) eqn:Fp; [split; [apply nodup_app3; repeat split; auto; apply D12; assumption|exact W]|].
      apply pfind_false in Fd, Fs, Fp. cbn [px_pending px_sent px_pending_del]. split; [|exact W].
      apply nodup_app3. rewrite map_app. cbn [map]. repeat split; auto.
      * apply nodup_app. repeat split; [assumption|constructor; [intros []|constructor]|].
        intros x Hx [<-|[]]. contradiction.
      * intros Hin. apply in_app_or in H as [H|[<-|[]]]; [(destruct (D12 x H) as [? ?]; contradiction)|contradiction].
      * intros Hin. apply in_app_or in H as [H|[<-|[]]]; [(destruct (D12 x H) as [? ?]; contradiction)|contradiction].
  - (* del *)
    unfold pex_del.
    destruct (pfind p (px_pending (g_st g))) eqn:Fp.
    + cbn [px_pending px_sent px_pending_del]. split; [|exact W].
      apply nodup_app3. repeat split; auto; [now apply premove_nodup| |];
        intros Hin; apply (premove_in p _ _ N1) in H as [H _]; (destruct (D12 x H) as [? ?]; contradiction).
    + destruct (negb (pfind p (px_sent (g_st g)))) eqn:Fs; [split; [apply nodup_app3; repeat split; auto; apply D12; assumption|exact W]|].
      apply negb_false_iff, pfind_spec in Fs.
      assert (Fd : ~ In (addr p) (map addr (px_pending_del (g_st g)))) by (now apply D23).
      apply pfind_false in Fd as Fd'. rewrite Fd'.
      cbn [px_pending px_sent px_pending_del]. split.
      * apply nodup_app3. rewrite map_app. cbn [map]. repeat split; auto.
        -- now apply premove_nodup.
        -- apply nodup_app. repeat split; [assumption|constructor; [intros []|constructor]|].
           intros x Hx [<-|[]]. contradiction.
        -- intros Hin. apply (premove_in p _ _ N2) in Hin as [Hin _]. (destruct (D12 x H) as [? ?]; contradiction).
        -- intros Hin. apply in_app_or in Hin as [Hin|[<-|[]]]; [(destruct (D12 x H) as [? ?]; contradiction)|].
           apply pfind_false in Fp. contradiction.
        -- intros x Hx Hin. apply (premove_in p _ _ N2) in Hx as [Hx Hne].
           apply in_app_or in Hin as [Hin|[<-|[]]]; [now apply (D23 x Hx)|congruence].
      * intros a. rewrite W, map_app, in_app_iff. cbn [map In]. rewrite (premove_in p _ a N2).
        split.
        -- intros [H|H]; [|auto].
           destruct (list_eq_dec N.eq_dec (fst a) (p_ip p)) as [E1|E1];
             [destruct (N.eq_dec (snd a) (p_port p)) as [E2|E2]|].
           ++ right. right. left. destruct a; cbn in *; subst. reflexivity.
           ++ left. split; [assumption|]. unfold addr. intros ->. cbn in E2. congruence.
           ++ left. split; [assumption|]. unfold addr. intros ->. cbn in E1. congruence.
        -- intros [[H _]|[H|[<-|[]]]]; auto.
  - (* successful tick *)
    unfold delta. cbn [g_st g_wire px_pending px_sent px_pending_del].
    set (st := g_st g) in *.
    apply (firstn_skipn_nodup 50) in N1 as (P1 & P2 & P12).
    apply (firstn_skipn_nodup 50) in N3 as (Q1 & Q2 & Q12).
    rewrite <- !firstn_map in *. rewrite <- !skipn_map in *.
    split.
    + assert (Dp : forall x, In x (map addr (px_pending st)) -> ~ In x (map addr (px_sent st)) /\ ~ In x (map addr (px_pending_del st))) by exact D12.
      assert (Fp : forall x, In x (firstn 50 (map addr (px_pending st))) -> In x (map addr (px_pending st)))
        by (intros x Hx; apply (firstn_skipn_in 50); now left).
      assert (Sp : forall x, In x (skipn 50 (map addr (px_pending st))) -> In x (map addr (px_pending st)))
        by (intros x Hx; apply (firstn_skipn_in 50); now right).
      assert (Sd : forall x, In x (skipn 50 (map addr (px_pending_del st))) -> In x (map addr (px_pending_del st)))
        by (intros x Hx; apply (firstn_skipn_in 50); now right).
      apply nodup_app3. rewrite map_app, <- firstn_map. repeat split; auto.
      * apply nodup_app. repeat split; auto. intros x Hx Hin.
        destruct (Dp x (Fp x Hin)) as [A B]. contradiction.
      * intros Hin. apply in_app_or in Hin as [Hin|Hin].
        -- destruct (Dp x (Sp x H)) as [A B]. contradiction.
        -- now apply (P12 x).
      * intros Hin. destruct (Dp x (Sp x H)) as [A B]. apply B. now apply Sd.
      * intros x Hx Hin. apply in_app_or in Hx as [Hx|Hx].
        -- apply (D23 x Hx). now apply Sd.
        -- destruct (Dp x (Fp x Hx)) as [A B]. apply B. now apply Sd.
    + intros a. rewrite in_app_iff, remove_all_in, W, map_app, in_app_iff, <- !firstn_map.
      rewrite (firstn_skipn_in 50 (map addr (px_pending_del st))).
      split.
      * intros [[[H|[H|H]] Hn]|H]; auto. contradiction.
      * intros [[H|H]|H]; auto.
        -- left. split; [auto|]. intros Hin. apply (D23 a H). apply (firstn_skipn_in 50). now left.
        -- left. split; [auto|]. intros Hin. now apply (Q12 a).
  - (* failed tick *) split; [apply nodup_app3; repeat split; auto; apply D12; assumption|exact W].
Qed.

Definition pex_init : pexg := {| g_st := pexst_nil; g_wire := [] |}.
Definition prun (ops : list pop) : pexg := fold_left pstep ops pex_init.

Lemma pex_inv_init : pex_inv pex_init.
Proof. unfold pex_inv, pex_init. cbn. split; [constructor|]. intros a. split; [intros []|intros [[]|[]]]. Qed.

Lemma prun_inv ops : pex_inv (prun ops).
Proof.
  unfold prun. generalize pex_init pex_inv_init. induction ops as [|o r IH]; intros g I; cbn [fold_left]; [exact I|].
  apply IH. now apply pstep_inv.
Qed.

(* the additions of the next delta are not currently announced *)
Lemma delta_adds_fresh g p : pex_inv g -> In p (fst (delta (g_st g))) -> ~ In (addr p) (g_wire g).
Proof.
  intros [ND W] Hin. cbn [delta fst] in Hin. apply nodup_app3 in ND as (_ & _ & _ & D12 & _).
  assert (Hp : In (addr p) (map addr (px_pending (g_st g)))).
  { apply in_map. apply (firstn_skipn_in 50). now left. }
  destruct (D12 _ Hp) as [A B]. rewrite W. intros [H|H]; contradiction.
Qed.

(* the drops of the next delta are currently announced *)
Lemma delta_drops_announced g p : pex_inv g -> In p (snd (delta (g_st g))) -> In (addr p) (g_wire g).
Proof.
  intros [ND W] Hin. cbn [delta snd] in Hin. rewrite W. right. apply in_map.
  apply (firstn_skipn_in 50). now left.
Qed.

(* a departure of an announced peer becomes a pending drop ... *)
Lemma del_queues_drop g p :
  pex_inv g -> In (addr p) (g_wire g) ->
  In (addr p) (map addr (px_pending_del (g_st (pstep g (PDel p))))).
Proof.
  intros [ND W] Hin. apply nodup_app3 in ND as (N1 & N2 & N3 & D12 & D23).
  cbn [pstep g_st]. unfold pex_del.
  destruct (pfind p (px_pending (g_st g))) eqn:Fp.
  { apply pfind_spec in Fp. destruct (D12 _ Fp) as [A B]. apply W in Hin as [H|H]; contradiction. }
  apply W in Hin as [H|H].
  - apply pfind_spec in H as H'. rewrite H'. cbn [negb].
    destruct (pfind p (px_pending_del (g_st g))) eqn:Fd; cbn [px_pending_del].
    + now apply pfind_spec.
    + rewrite map_app. apply in_or_app. right. now left.
  - destruct (negb (pfind p (px_sent (g_st g)))); [exact H|].
    destruct (pfind p (px_pending_del (g_st g))) eqn:Fd; cbn [px_pending_del]; [exact H|].
    rewrite map_app. apply in_or_app. now left.
Qed.

(* ... and pending drops leave in FIFO order, 50 per successful tick *)
Fixpoint ticks (n : nat) (g : pexg) : pexg :=
  match n with O => g | S n' => ticks n' (pstep g (PTick true)) end.

Lemma ticks_drain n : forall g,
  (length (px_pending_del (g_st g)) <= 50 * n)%nat -> px_pending_del (g_st (ticks n g)) = [].
Proof.
  induction n as [|n IH]; intros g H; cbn [ticks].
  - destruct (px_pending_del (g_st g)); [reflexivity|cbn in H; lia].
  - apply IH. cbn [pstep g_st px_pending_del delta]. rewrite skipn_length. lia.
Qed.

(* link with the peer model: a PEX message written by sendPex is the delta, and the
   bookkeeping afterwards is that of a successful tick *)
Lemma write_spec a m a' e : write a m = (a', e) ->
  match e with
  | WOk => a_msgs a' = a_msgs a ++ [m]
  | _ => a' = a
  end.
Proof.
  unfold write. destruct (s_wdead _); [intros [= <- <-]; reflexivity|].
  destruct (_ <? writer_cap); intros [= <- <-]; reflexivity.
Qed.

Lemma send_pex_is_tick a sub added dropped :
  a_msgs a = [] ->
  In (ExtendedPex sub added dropped) (a_msgs (send_pex a)) ->
  (added, dropped) = delta (s_pexst (a_st a)) /\
  s_pexst (a_st (send_pex a)) = g_st (pstep {| g_st := s_pexst (a_st a); g_wire := [] |} (PTick true)).
Proof.
  intros Hnil. unfold send_pex.
  destruct (_ || _); [rewrite Hnil; intros []|].
  assert (Main : forall a' e,
    write a (ExtendedPex (s_pex_ext (a_st a)) (firstn 50 (px_pending (s_pexst (a_st a)))) (firstn 50 (px_pending_del (s_pexst (a_st a))))) = (a', e) ->
    In (ExtendedPex sub added dropped)
       (a_msgs match e with
               | WOk => upd_st a' (with_lists (a_st a') (s_fast (a_st a')) (s_pex (a_st a'))
                          {| px_pending := skipn 50 (px_pending (s_pexst (a_st a)));
                             px_pending_del := skipn 50 (px_pending_del (s_pexst (a_st a)));
                             px_sent := px_sent (s_pexst (a_st a)) ++ firstn 50 (px_pending (s_pexst (a_st a))) |})
               | _ => a' end) ->
    (added, dropped) = delta (s_pexst (a_st a)) /\
    s_pexst (a_st match e with
               | WOk => upd_st a' (with_lists (a_st a') (s_fast (a_st a')) (s_pex (a_st a'))
                          {| px_pending := skipn 50 (px_pending (s_pexst (a_st a)));
                             px_pending_del := skipn 50 (px_pending_del (s_pexst (a_st a)));
                             px_sent := px_sent (s_pexst (a_st a)) ++ firstn 50 (px_pending (s_pexst (a_st a))) |})
               | _ => a' end) = g_st (pstep {| g_st := s_pexst (a_st a); g_wire := [] |} (PTick true))).
  { intros a' e W Hin. apply write_spec in W. destruct e.
    - cbn [upd_st a_msgs] in Hin. rewrite W, Hnil in Hin. cbn in Hin. destruct Hin as [[= <- <- <-]|[]].
      split; reflexivity.
    - subst a'. rewrite Hnil in Hin. destruct Hin.
    - subst a'. rewrite Hnil in Hin. destruct Hin. }
  destruct (_ && _); [rewrite Hnil; intros []|].
  destruct (write _ _) as [a' e] eqn:W. apply (Main a' e eq_refl).
Qed.

(* statements of Properties/C11.v *)
Lemma pex_never_announced_twice ops p :
  In p (fst (delta (g_st (prun ops)))) -> ~ In (addr p) (g_wire (prun ops)).
Proof. apply delta_adds_fresh, prun_inv. Qed.
Lemma pex_drop_only_announced ops p :
  In p (snd (delta (g_st (prun ops)))) -> In (addr p) (g_wire (prun ops)).
Proof. apply delta_drops_announced, prun_inv. Qed.
Lemma pex_departure_queued ops p :
  In (addr p) (g_wire (prun ops)) ->
  In (addr p) (map addr (px_pending_del (g_st (pstep (prun ops) (PDel p))))).
Proof. apply del_queues_drop, prun_inv. Qed.
