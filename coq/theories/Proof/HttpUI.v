(* Proof/HttpUI.v — escaped strings carry no metacharacters; DNS names are refused. *)
From Coq Require Import ZifyBool ZifyN ZifyNat.
From Storrent Require Import Base.Bytes Base.Bencode Model.Wire Model.Tracker Model.HttpUI.
Open Scope N_scope.

Lemma forallb_flat_map {A} (p : N -> bool) (f : A -> bytes) l :
  (forall x, forallb p (f x) = true) -> forallb p (flat_map f l) = true.
Proof.
  intros H. induction l as [|x r IH]; cbn [flat_map]; [reflexivity|].
  rewrite forallb_app, H, IH. reflexivity.
Qed.

(* an HTML-escaped string contains none of the characters less-than, greater-than,
   double quote and single quote (ampersands only start the five entities) *)
Definition is_tag_meta (c : N) : bool := (c =? 60) || (c =? 62) || (c =? 34) || (c =? 39).

Lemma html_escape_no_meta s : forallb (fun c => negb (is_tag_meta c)) (html_escape s) = true.
Proof.
  unfold html_escape. apply forallb_flat_map. intros c. unfold esc_char, is_tag_meta.
  destruct (c =? 38) eqn:E1; [reflexivity|]. destruct (c =? 39) eqn:E2; [reflexivity|].
  destruct (c =? 60) eqn:E3; [reflexivity|]. destruct (c =? 62) eqn:E4; [reflexivity|].
  destruct (c =? 34) eqn:E5; [reflexivity|]. cbn [forallb]. rewrite E2, E3, E4, E5. reflexivity.
Qed.

Lemma hexdigit_alnum n : n < 16 -> is_alnum (hexdigit n) = true.
Proof. intros H. unfold hexdigit, is_alnum. destruct (n <? 10) eqn:E; lia. Qed.

(* a path-escaped string contains no less-than, greater-than, double or single quote,
   whitespace or control character *)
Lemma path_escape_no_meta s :
  forallb (fun c => c <? 256) s = true ->
  forallb (fun c => negb (is_url_meta c)) (path_escape s) = true.
Proof.
  unfold path_escape. induction s as [|c r IH]; cbn [forallb flat_map]; [reflexivity|].
  intros H. apply andb_true_iff in H as [Hc Hr]. rewrite forallb_app, (IH Hr), andb_true_r.
  destruct (path_keep c) eqn:K.
  - cbn [forallb]. rewrite andb_true_r. unfold path_keep, is_alnum, is_url_meta in *. lia.
  - unfold pct. cbn [forallb].
    assert (H1 : is_alnum (hexdigit (c / 16)) = true) by (apply hexdigit_alnum; lia).
    assert (H2 : is_alnum (hexdigit (c mod 16)) = true) by (apply hexdigit_alnum; lia).
    unfold is_alnum, is_url_meta in *. lia.
Qed.

Lemma m3u_title_one_line s : forallb (fun c => negb ((c =? 10) || (c =? 13))) (m3u_title s) = true.
Proof.
  unfold m3u_title. induction s as [|c r IH]; cbn [filter]; [reflexivity|].
  destruct (negb _) eqn:E; [|exact IH]. cbn [forallb]. rewrite IH, andb_true_r. lia.
Qed.

(* a host that is neither localhost nor an IP literal is refused *)
Lemma check_local_refuses hostport h :
  split_host hostport = Some h -> bytes_eqb h localhost = false -> is_ip_literal h = false ->
  check_local hostport = HostForbidden.
Proof. unfold check_local. intros -> -> ->. reflexivity. Qed.

(* in particular every DNS name (no colon; not four decimal fields) other than localhost *)
Lemma dns_name_not_ip h : count_colon h = 0 -> parse_ipv4 h = None -> is_ip_literal h = false.
Proof.
  unfold is_ip_literal. intros C ->. rewrite C. apply andb_false_r.
Qed.
