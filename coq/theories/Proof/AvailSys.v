(* Proof/AvailSys.v — Torrent.available is conserved: in every reachable state of Model/AvailSys.v
   the counter of a piece is the number of peers the torrent currently believes advertise it, the
   events in transit take that belief to the truth, and no event ever pushes a counter below zero
   or (with at most 65535 peers) into saturation. *)
From Coq Require Import ZifyBool ZifyN ZifyNat Sorted.
From Storrent Require Import Base.Bytes Base.Bencode Gen.Consts Model.Wire Model.PeerCore Model.Sched Model.AvailSys
  Proof.PeerCore Proof.Avail.
Open Scope N_scope.

(* ---------- counter arrays ---------- *)
Definition csorted (c : cnt) : Prop := StronglySorted N.lt (map fst c).

Lemma cget_above c i : (forall k, In k (map fst c) -> i < k) -> cget c i = 0.
Proof.
  induction c as [|[j w] r IH]; intros H; cbn [cget]; [reflexivity|].
  assert (i < j) by (apply H; now left). destruct (j =? i) eqn:E; [lia|]. apply IH. intros k Hk. apply H. now right.
Qed.

Lemma cset_keys c i v k : In k (map fst (cset c i v)) -> k = i \/ In k (map fst c).
Proof.
  induction c as [|[j w] r IH]; cbn [cset].
  - destruct (v =? 0); cbn; intuition.
  - destruct (j =? i) eqn:E1.
    + destruct (v =? 0); cbn [map fst In]; [tauto|]. intros [H|H]; auto.
    + destruct (i <? j).
      * destruct (v =? 0); cbn [map fst In]; [tauto|]. intros [H|H]; auto.
      * cbn [map fst In]. intros [H|H]; [auto|]. apply IH in H. tauto.
Qed.

Lemma cset_sorted c i v : csorted c -> csorted (cset c i v).
Proof.
  unfold csorted. induction c as [|[j w] r IH]; intros S; cbn [cset].
  - destruct (v =? 0); cbn; repeat constructor.
  - cbn [map fst] in S. inversion S as [|? ? Sr Fj]; subst. destruct (j =? i) eqn:E1.
    + apply N.eqb_eq in E1. subst. destruct (v =? 0); [exact Sr|]. cbn [map fst]. now constructor.
    + destruct (i <? j) eqn:E2.
      * destruct (v =? 0); [exact S|]. cbn [map fst]. constructor; [exact S|].
        constructor; [lia|]. eapply Forall_impl; [|exact Fj]. intros a Ha. lia.
      * cbn [map fst]. constructor; [now apply IH|]. apply Forall_forall. intros a Ha.
        apply cset_keys in Ha as [->|Ha]; [lia|]. rewrite Forall_forall in Fj. now apply Fj.
Qed.

Lemma cget_cset c i v q : csorted c -> cget (cset c i v) q = if q =? i then v else cget c q.
Proof.
  unfold csorted. induction c as [|[j w] r IH]; intros S; cbn [cset].
  - destruct (v =? 0) eqn:Ev; cbn [cget]; destruct (q =? i) eqn:Eq; try rewrite (N.eqb_sym i q), Eq; lia.
  - cbn [map fst] in S. inversion S as [|? ? Sr Fj]; subst. rewrite Forall_forall in Fj.
    destruct (j =? i) eqn:E1.
    + apply N.eqb_eq in E1. subst. destruct (v =? 0) eqn:Ev.
      * cbn [cget]. destruct (q =? i) eqn:Eq.
        -- apply N.eqb_eq in Eq. subst. rewrite cget_above; [lia|]. intros k Hk. now apply Fj.
        -- now rewrite (N.eqb_sym i q), Eq.
      * cbn [cget]. rewrite (N.eqb_sym i q). now destruct (q =? i).
    + destruct (i <? j) eqn:E2.
      * destruct (v =? 0) eqn:Ev.
        -- destruct (q =? i) eqn:Eq; [|reflexivity]. apply N.eqb_eq in Eq. subst.
           rewrite cget_above; [lia|]. cbn [map fst In]; intros k [<-|Hk]; [lia|]. specialize (Fj k Hk). lia.
        -- cbn [cget]. rewrite (N.eqb_sym i q). destruct (q =? i); [reflexivity|]. reflexivity.
      * cbn [cget]. rewrite (IH Sr). destruct (j =? q) eqn:Ej; [|reflexivity]. destruct (q =? i) eqn:Eq; [lia|reflexivity].
Qed.

Definition bump (lim : N) (up : bool) (v : N) : N :=
  if up then (if lim <=? v then v else v + 1) else (if v =? 0 then v else v - 1).

Lemma note_sorted lim c i up : csorted c -> csorted (note lim c i up).
Proof. intros S. unfold note. destruct up; [destruct (lim <=? _)|destruct (_ =? 0)]; auto using cset_sorted. Qed.

Lemma cget_note lim c i up q : csorted c -> cget (note lim c i up) q = if q =? i then bump lim up (cget c i) else cget c q.
Proof.
  intros S. unfold note, bump. destruct up.
  - destruct (lim <=? cget c i); [|now apply cget_cset]. destruct (q =? i) eqn:E; [|reflexivity]. apply N.eqb_eq in E. now subst.
  - destruct (cget c i =? 0); [|now apply cget_cset]. destruct (q =? i) eqn:E; [|reflexivity]. apply N.eqb_eq in E. now subst.
Qed.

Lemma peer_bitmap_spec h q : forall l c, csorted c ->
  csorted (peer_bitmap c l h) /\
  cget (peer_bitmap c l h) q = fold_left (fun v _ => bump 65535 h v) (filter (N.eqb q) l) (cget c q).
Proof.
  unfold peer_bitmap. induction l as [|j r IH]; intros c S; cbn [fold_left filter]; [auto|].
  destruct (IH (note_avail c j h) (note_sorted _ _ _ _ S)) as [S' G]. split; [exact S'|]. rewrite G.
  unfold note_avail. rewrite (cget_note _ _ _ _ _ S). destruct (q =? j) eqn:E; [|reflexivity].
  apply N.eqb_eq in E. subst. reflexivity.
Qed.

Lemma fold_const_map h (l : list N) : forall v,
  fold_left (fun v _ => bump 65535 h v) l v = fold_left (fun v h => bump 65535 h v) (map (fun _ => h) l) v.
Proof. induction l as [|x r IH]; intros v; cbn [map fold_left]; [reflexivity|apply IH]. Qed.

Lemma tor_avail_spec c e q : csorted c ->
  csorted (tor_avail c e) /\
  cget (tor_avail c e) q = fold_left (fun v h => bump 65535 h v) (ev_dir q e) (cget c q).
Proof.
  intros S. destruct e as [| |i have|b have| | | |]; cbn [tor_avail ev_dir fold_left]; try (split; [exact S|reflexivity]).
  - unfold peer_have, note_avail. split; [now apply note_sorted|]. rewrite (cget_note _ _ _ _ _ S), (N.eqb_sym q i).
    destruct (i =? q) eqn:E; [|reflexivity]. apply N.eqb_eq in E. now subst.
  - destruct (peer_bitmap_spec have q (bits b) c S) as [S' G]. split; [exact S'|]. rewrite G.
    apply fold_const_map.
Qed.

(* ---------- lists ---------- *)
Lemma upd_length {A} : forall (l : list A) i x p, nth_error l i = Some p -> length (upd l i x) = length l.
Proof.
  unfold upd. induction l as [|y r IH]; intros [|i] x p H; cbn in *; try discriminate; [reflexivity|].
  f_equal. now apply (IH i x p).
Qed.
Lemma upd_nth {A} : forall (l : list A) i x p k, nth_error l i = Some p ->
  nth_error (upd l i x) k = if Nat.eqb k i then Some x else nth_error l k.
Proof.
  unfold upd. induction l as [|y r IH]; intros [|i] x p [|k] H; cbn in *; try discriminate; try reflexivity.
  now apply (IH i x p k).
Qed.

Definition evs_of (idx : nat) (l : list (nat * tev)) : list tev := map snd (filter (fun x => Nat.eqb (fst x) idx) l).
Lemma evs_of_app idx l1 l2 : evs_of idx (l1 ++ l2) = evs_of idx l1 ++ evs_of idx l2.
Proof. unfold evs_of. now rewrite filter_app, map_app. Qed.
Lemma evs_of_tag idx j evs : evs_of idx (map (pair j) evs) = if Nat.eqb j idx then evs else [].
Proof.
  unfold evs_of. induction evs as [|e r IH]; cbn [map filter fst]; [now destruct (Nat.eqb j idx)|].
  destruct (Nat.eqb j idx) eqn:E; cbn [map snd]; [now rewrite IH|exact IH].
Qed.
Lemma evs_of_cons idx j e l : evs_of idx ((j, e) :: l) = if Nat.eqb j idx then e :: evs_of idx l else evs_of idx l.
Proof. unfold evs_of. cbn [filter fst]. destruct (Nat.eqb j idx); reflexivity. Qed.
Lemma dirs_cons i e l : dirs i (e :: l) = ev_dir i e ++ dirs i l.
Proof. reflexivity. Qed.
Lemma evs_of_absent idx l : Forall (fun x => fst x <> idx) l -> evs_of idx l = [].
Proof.
  unfold evs_of. induction 1 as [|x r Hx _ IH]; cbn [filter]; [reflexivity|].
  destruct (Nat.eqb (fst x) idx) eqn:E; [apply Nat.eqb_eq in E; contradiction|exact IH].
Qed.

Lemma arun_prefix l1 : forall b l2 r, arun b (l1 ++ l2) = Some r -> exists m, arun b l1 = Some m /\ arun m l2 = Some r.
Proof. intros b l2 r H. rewrite arun_app in H. destruct (arun b l1) as [m|]; [eauto|discriminate]. Qed.

Lemma fold_bump l : forall b b' S, arun b l = Some b' -> N.of_nat S + 1 <= 65535 ->
  fold_left (fun v h => bump 65535 h v) l (N.of_nat (S + b2n b)) = N.of_nat (S + b2n b').
Proof.
  induction l as [|h r IH]; intros b b' S H Hs; cbn [arun fold_left] in *; [now injection H as ->|].
  destruct (Bool.eqb h b) eqn:E; [discriminate|].
  replace (bump 65535 h (N.of_nat (S + b2n b))) with (N.of_nat (S + b2n h)); [now apply IH|].
  unfold bump. destruct h, b; try discriminate; cbn [b2n].
  - destruct (65535 <=? N.of_nat (S + 0)) eqn:E1; lia.
  - destruct (N.of_nat (S + 1) =? 0) eqn:E1; lia.
Qed.

Definition vsum (f : nat -> bool) (n : nat) : nat := list_sum (map (fun k => b2n (f k)) (seq 0 n)).
Lemma vsum_S f n : vsum f (S n) = (vsum f n + b2n (f n))%nat.
Proof. unfold vsum. rewrite seq_S, map_app, list_sum_app. cbn. lia. Qed.
Lemma vsum_ext f g n : (forall k, (k < n)%nat -> f k = g k) -> vsum f n = vsum g n.
Proof.
  induction n as [|n IH]; intros H; [reflexivity|]. rewrite !vsum_S, IH, (H n); [reflexivity|lia|]. intros k Hk. apply H. lia.
Qed.
Lemma vsum_le f n : (vsum f n <= n)%nat.
Proof. induction n as [|n IH]; [cbn; lia|]. rewrite vsum_S. destruct (f n); cbn [b2n]; lia. Qed.
Lemma vsum_split f n idx : (idx < n)%nat ->
  exists S, (S + 1 <= n)%nat /\ forall g, (forall k, (k < n)%nat -> k <> idx -> g k = f k) -> vsum g n = (S + b2n (g idx))%nat.
Proof.
  induction n as [|n IH]; intros H; [lia|]. destruct (Nat.eq_dec idx n) as [->|Hne].
  - exists (vsum f n). split; [pose proof (vsum_le f n); lia|]. intros g Hg. rewrite vsum_S. f_equal.
    apply vsum_ext. intros k Hk. apply Hg; lia.
  - destruct IH as [S [HS HG]]; [lia|]. exists (S + b2n (f n))%nat. split; [destruct (f n); cbn [b2n]; lia|].
    intros g Hg. rewrite vsum_S, (HG g), (Hg n); [lia|lia|lia|]. intros k Hk Hk'. apply Hg; lia.
Qed.
Lemma vsum_list {A} (f : nat -> bool) (g : A -> bool) : forall l,
  (forall idx p, nth_error l idx = Some p -> f idx = g p) -> vsum f (length l) = list_sum (map (fun p => b2n (g p)) l).
Proof.
  induction l as [|x r IH] using rev_ind; intros H; [reflexivity|].
  rewrite app_length, map_app, list_sum_app. cbn [length map list_sum]. rewrite Nat.add_1_r, vsum_S, IH.
  - rewrite (H (length r) x); [change (list_sum [b2n (g x)]) with (b2n (g x) + 0)%nat; lia|]. rewrite nth_error_app2, Nat.sub_diag; [reflexivity|lia].
  - intros idx p Hp. apply H. rewrite nth_error_app1; [exact Hp|]. apply nth_error_Some. congruence.
Qed.

(* ---------- the invariant, for one piece ---------- *)
Definition view (i : N) (y : asys) (idx : nat) : bool :=
  match arun false (dirs i (evs_of idx (v_done y))) with Some b => b | None => false end.

Record AInv (i : N) (y : asys) : Prop := {
  ai_sorted : csorted (v_avail y);
  ai_peer : forall idx p, nth_error (v_peers y) idx = Some p ->
      wf_bm (peer_bm (ap_state p)) /\
      arun false (dirs i (evs_of idx (v_done y ++ v_evq y))) = Some (advertises i p);
  ai_tags : Forall (fun x => (fst x < length (v_peers y))%nat) (v_done y ++ v_evq y);
  ai_avail : cget (v_avail y) i = N.of_nat (vsum (view i y) (length (v_peers y)))
}.

Lemma init_ainv i : AInv i asys_init.
Proof. split; cbn; [constructor|intros [|?] ? ?; discriminate|constructor|reflexivity]. Qed.

(* a peer step or exit: the new events take the torrent's view to the new advertisement *)
Lemma emit_ainv i y idx p st' alive' evs :
  AInv i y -> nth_error (v_peers y) idx = Some p ->
  wf_bm (peer_bm st') ->
  arun (advertises i p) (dirs i evs) = Some (advertises i (mkap st' alive')) ->
  AInv i (mkas (upd (v_peers y) idx (mkap st' alive')) (v_evq y ++ map (pair idx) evs) (v_done y) (v_avail y)).
Proof.
  intros [Is Ip It Ia] Hn W R. split; cbn [v_peers v_evq v_done v_avail].
  - exact Is.
  - intros k q Hk. rewrite (upd_nth _ _ _ _ _ Hn) in Hk. rewrite app_assoc, evs_of_app, evs_of_tag, dirs_app, arun_app.
    destruct (Nat.eqb k idx) eqn:E.
    + apply Nat.eqb_eq in E. subst k. injection Hk as <-. rewrite Nat.eqb_refl. destruct (Ip idx p Hn) as [_ ->]. split; [exact W|exact R].
    + rewrite Nat.eqb_sym, E. destruct (Ip k q Hk) as [Wq ->]. split; [exact Wq|reflexivity].
  - rewrite (upd_length _ _ _ _ Hn), app_assoc. apply Forall_app. split; [exact It|].
    apply Forall_forall. intros x Hx. apply in_map_iff in Hx as [e [<- _]]. cbn [fst]. apply nth_error_Some. congruence.
  - rewrite (upd_length _ _ _ _ Hn). exact Ia.
Qed.

Theorem step_ainv i y o : AInv i y -> N.of_nat (length (v_peers (asys_step y o))) <= 65535 -> AInv i (asys_step y o).
Proof.
  intros HI HL. pose proof HI as [Is Ip It Ia]. destruct o as [g cf ce my|idx ballast o k|idx|]; cbn [asys_step] in *.
  - (* join *)
    assert (Hnone : forall l, Forall (fun x : nat * tev => (fst x < length (v_peers y))%nat) l -> evs_of (length (v_peers y)) l = []).
    { intros l Hl. apply evs_of_absent. eapply Forall_impl; [|exact Hl]. cbn. intros x Hx. lia. }
    split; cbn [v_peers v_evq v_done v_avail].
    + exact Is.
    + intros k q Hk. destruct (Nat.lt_ge_cases k (length (v_peers y))) as [Hlt|Hge].
      * rewrite nth_error_app1 in Hk by exact Hlt. now apply Ip.
      * rewrite nth_error_app2 in Hk by exact Hge. destruct (k - length (v_peers y))%nat as [|d] eqn:Ed; [|destruct d; discriminate].
        injection Hk as <-. assert (k = length (v_peers y)) as -> by lia. rewrite (Hnone _ It).
        unfold advertises. cbn [ap_state ap_alive andb dirs flat_map arun]. rewrite (init_adv g cf ce my i : bm_get _ i = false). split; [apply init_wf|reflexivity].
    + rewrite app_length. cbn [length]. eapply Forall_impl; [|exact It]. cbn. intros x Hx. lia.
    + rewrite app_length. cbn [length]. rewrite Nat.add_1_r, vsum_S, Ia. unfold view. cbn [v_done].
      apply Forall_app in It as [Itd _]. rewrite (Hnone _ Itd). cbn [dirs flat_map arun b2n]. f_equal. lia.
  - (* step *)
    destruct (nth_error (v_peers y) idx) as [p|] eqn:Hn; [|exact HI]. destruct (ap_alive p) eqn:Al; [|exact HI].
    destruct (Ip idx p Hn) as [W _]. destruct (step_advertised i (ap_state p) ballast o k W) as [W' R].
    apply (emit_ainv i y idx p _ true _ HI Hn W'). unfold advertises. cbn [ap_alive ap_state]. rewrite Al. exact R.
  - (* exit *)
    destruct (nth_error (v_peers y) idx) as [p|] eqn:Hn; [|exact HI]. destruct (ap_alive p) eqn:Al; [|exact HI].
    destruct (Ip idx p Hn) as [W _].
    assert (B0 : Bal i (ap_state p) (clear_requests (acc0 (ap_state p)) true)).
    { eapply Bal_bp; [apply bp_clear_requests|]. split; [exact W|reflexivity]. }
    destruct (Bal_retract i _ _ B0) as [Eb R].
    apply (emit_ainv i y idx p _ false _ HI Hn).
    + destruct B0 as [W0 _]. unfold peer_bm in *. rewrite Eb. exact W0.
    + unfold advertises. cbn [ap_alive ap_state andb]. rewrite Al. exact R.
  - (* the torrent handles an event *)
    destruct (v_evq y) as [|[idx e] rest] eqn:Eq; [exact HI|].
    assert (Hidx : (idx < length (v_peers y))%nat).
    { rewrite Forall_forall in It. apply (It (idx, e)). apply in_or_app. right. now left. }
    destruct (nth_error (v_peers y) idx) as [p|] eqn:Hn; [|apply nth_error_None in Hn; lia].
    destruct (tor_avail_spec (v_avail y) e i Is) as [Is' G].
    split; cbn [v_peers v_evq v_done v_avail] in *.
    + exact Is'.
    + intros k q Hk. rewrite <- app_assoc. cbn [app]. now apply Ip.
    + rewrite <- app_assoc. exact It.
    + rewrite G, Ia.
      destruct (Ip idx p Hn) as [_ Hr]. rewrite evs_of_app, evs_of_cons, Nat.eqb_refl, dirs_app, dirs_cons in Hr.
      apply arun_prefix in Hr as [m [Hm Hr]]. apply arun_prefix in Hr as [m' [Hm' _]].
      destruct (vsum_split (view i y) _ idx Hidx) as [S [HS HG]].
      set (y' := mkas (v_peers y) rest (v_done y ++ [(idx, e)]) (tor_avail (v_avail y) e)).
      assert (Vold : view i y idx = m) by (unfold view; now rewrite Hm).
      assert (Vnew : view i y' idx = m').
      { unfold view, y'. cbn [v_done]. rewrite evs_of_app, dirs_app, arun_app, Hm, evs_of_cons, Nat.eqb_refl, dirs_cons.
        cbn [evs_of filter map dirs flat_map]. rewrite app_nil_r. now rewrite Hm'. }
      rewrite (HG (view i y)) by auto. rewrite (HG (view i y')).
      * rewrite Vold, Vnew. apply fold_bump; [exact Hm'|lia].
      * intros k Hk Hne. unfold view, y'. cbn [v_done]. rewrite evs_of_app, evs_of_cons.
        destruct (Nat.eqb idx k) eqn:E; [apply Nat.eqb_eq in E; congruence|]. cbn [evs_of filter map]. now rewrite app_nil_r.
Qed.

Lemma peers_mono y o : (length (v_peers y) <= length (v_peers (asys_step y o)))%nat.
Proof.
  destruct o as [g cf ce my|idx ballast o k|idx|]; cbn [asys_step].
  - cbn [v_peers]. rewrite app_length. lia.
  - destruct (nth_error _ idx) as [p|] eqn:Hn; [|lia]. destruct (ap_alive p); [|lia]. cbn [v_peers]. rewrite (upd_length _ _ _ _ Hn). lia.
  - destruct (nth_error _ idx) as [p|] eqn:Hn; [|lia]. destruct (ap_alive p); [|lia]. cbn [v_peers]. rewrite (upd_length _ _ _ _ Hn). lia.
  - destruct (v_evq y) as [|[idx e] rest]; cbn [v_peers]; lia.
Qed.

Theorem run_ainv i ops :
  let y := fold_left asys_step ops asys_init in N.of_nat (length (v_peers y)) <= 65535 -> AInv i y.
Proof.
  induction ops as [|o r IH] using rev_ind; cbn zeta; [intros _; apply init_ainv|].
  rewrite fold_left_app. cbn [fold_left]. intros HL. apply step_ainv; [|exact HL].
  apply IH. pose proof (peers_mono (fold_left asys_step r asys_init) o). lia.
Qed.

(* once the events in transit have been processed, availability = number of connected peers advertising the piece *)
Theorem avail_at_quiescence ops i :
  let y := fold_left asys_step ops asys_init in
  N.of_nat (length (v_peers y)) <= 65535 -> v_evq y = [] -> cget (v_avail y) i = N.of_nat (advertisers y i).
Proof.
  cbn zeta. intros HL Hq. destruct (run_ainv i ops HL) as [_ Ip _ Ia]. rewrite Ia. f_equal.
  unfold advertisers. apply vsum_list. intros idx p Hp. destruct (Ip idx p Hp) as [_ R].
  rewrite Hq, app_nil_r in R. unfold view. now rewrite R.
Qed.

Lemma sum_dead i l : (forall p, In p l -> ap_alive p = false) -> list_sum (map (fun p => b2n (advertises i p)) l) = 0%nat.
Proof.
  induction l as [|p r IH]; intros Hd; [reflexivity|]. rewrite map_cons; change (list_sum (?x :: ?l)) with (x + list_sum l)%nat; rewrite IH by (intros q Hq; apply Hd; now right).
  unfold advertises. rewrite (Hd p) by now left. reflexivity.
Qed.

Theorem avail_zero_when_alone ops i :
  let y := fold_left asys_step ops asys_init in
  N.of_nat (length (v_peers y)) <= 65535 -> v_evq y = [] -> (forall p, In p (v_peers y) -> ap_alive p = false) ->
  cget (v_avail y) i = 0.
Proof.
  cbn zeta. intros HL Hq Hd. rewrite (avail_at_quiescence ops i HL Hq). unfold advertisers. now rewrite sum_dead.
Qed.

(* the premises are satisfiable and the counters do move: two peers advertise piece 1, one of
   them also piece 0 and then leaves *)
Example avail_example :
  let g := {| psize := 32768; total := 100000; info_len := 100 |} in
  let ops := [AJoin (Some g) true true bm_nil; AJoin None false false bm_nil;
              AStep 0 0 (OpMsg HaveAll None) 1; AStep 1 0 (OpMsg (Have 1) None) 1;
              AHandle; AHandle; AHandle] in
  let y := fold_left asys_step ops asys_init in
  let y' := fold_left asys_step [AExit 0; AHandle; AHandle; AHandle] y in
  (v_evq y, map (cget (v_avail y)) [0; 1; 3; 4], map (advertisers y) [0; 1; 3; 4]) = ([], [1; 2; 1; 0], [1; 2; 1; 0]%nat) /\
  (v_evq y', map (cget (v_avail y')) [0; 1; 3; 4]) = ([], [0; 1; 0; 0]).
Proof. vm_compute. split; reflexivity. Qed.
