(* Proof/Reader.v — a Reader is an exact view of its byte range. *)
From Storrent Require Import Base.Bytes Model.Reader.
Open Scope Z_scope.


Definition rd_wf (psize total : Z) (r : rdr) : Prop :=
  0 < psize /\ 0 < total /\ 0 <= rd_offset r /\ 0 <= rd_length r /\ 0 <= rd_pos r.

Lemma read_spec psize total r n r' abs cnt err :
  rd_wf psize total r -> 0 <= n -> rd_closed r = false ->
  rd_read psize total r n = (r', abs, cnt, err) ->
  rd_wf psize total r' /\ rd_offset r' = rd_offset r /\ rd_length r' = rd_length r /\ rd_closed r' = false /\
  rd_pos r' = rd_pos r + cnt /\
  0 <= cnt <= n /\
  (* only bytes of the range, at the offset they occupy in the torrent *)
  (0 < cnt -> abs = rd_offset r + rd_pos r /\ rd_pos r + cnt <= rd_length r /\ abs + cnt <= total /\
              abs / psize = (abs + cnt - 1) / psize) /\
  (* progress *)
  (0 < n -> rd_pos r < rd_length r -> rd_offset r + rd_pos r < total -> 0 < cnt) /\
  (* end of file exactly at the end of the range (or of the torrent, if the range overruns it) *)
  (err = REOF <-> rd_pos r' >= rd_length r \/ total <= rd_offset r + rd_pos r) /\
  err <> RClosed.
Proof.
  intros (Hp & Ht & Ho & Hl & Hpos) Hn Hc. unfold rd_read, piece_len. rewrite Hc.
  destruct (rd_length r <=? rd_pos r) eqn:E1.
  { intros [= <- <- <- <-]. unfold rd_wf. repeat split; try lia; try discriminate; auto. }
  destruct (total <=? rd_offset r + rd_pos r) eqn:E2.
  { intros [= <- <- <- <-]. unfold rd_wf. repeat split; try lia; try discriminate; auto. }
  set (abs0 := rd_offset r + rd_pos r).
  assert (Ha0 : 0 <= abs0 < total) by (subst abs0; lia).
  pose proof (Z.div_mod abs0 psize ltac:(lia)) as DM.
  pose proof (Z.mod_pos_bound abs0 psize Hp) as MB.
  set (q := abs0 / psize) in *. set (m := abs0 mod psize) in *.
  rewrite (Z.mul_comm psize q) in DM.
  set (want := if rd_pos r + n <? rd_length r then n else rd_length r - rd_pos r).
  set (c := Z.min want (Z.min psize (total - q * psize) - m)).
  assert (Hw : 0 <= want <= n /\ want <= rd_length r - rd_pos r /\ (0 < n -> 0 < want)).
  { subst want. destruct (rd_pos r + n <? rd_length r) eqn:E3; lia. }
  assert (Hroom : 0 < Z.min psize (total - q * psize) - m) by lia.
  assert (Hc1 : 0 <= c <= want /\ (0 < want -> 0 < c) /\ abs0 + c <= total /\
                (0 < c -> q = (abs0 + c - 1) / psize)).
  { subst c. split; [lia|]. split; [lia|]. split; [lia|].
    intros Hc0. apply Z.div_unique with (r := m + Z.min want (Z.min psize (total - q * psize) - m) - 1); lia. }
  intros [= <- <- <- <-]. cbn [rd_offset rd_length rd_pos rd_closed].
  destruct Hc1 as (C1 & C2 & C3 & C4).
  split; [unfold rd_wf; cbn [rd_offset rd_length rd_pos]; lia|].
  split; [reflexivity|]. split; [reflexivity|]. split; [reflexivity|]. split; [reflexivity|].
  split; [lia|].
  split; [intros Hc0; split; [reflexivity|]; split; [lia|]; split; [lia|now apply C4]|].
  split; [intros; apply C2; lia|].
  split; [|destruct (c =? rd_length r - rd_pos r); discriminate].
  destruct (c =? rd_length r - rd_pos r) eqn:E3; split; intros H; try reflexivity; try discriminate.
  - left. lia.
  - exfalso. destruct H as [H|H]; lia.
Qed.

Lemma seek_spec psize total r o w r' res :
  rd_wf psize total r -> rd_seek r o w = (r', res) ->
  rd_wf psize total r' /\ rd_offset r' = rd_offset r /\ rd_length r' = rd_length r /\
  match res with
  | Some p => rd_closed r = false /\ rd_pos r' = p /\ 0 <= p /\
              p = match w with SeekStart => o | SeekCurrent => rd_pos r + o | SeekEnd => rd_length r + o end
  | None => r' = r
  end.
Proof.
  intros W. unfold rd_seek. destruct (rd_closed r) eqn:C; [intros [= <- <-]; auto|].
  set (p := match w with SeekStart => o | SeekCurrent => rd_pos r + o | SeekEnd => rd_length r + o end).
  destruct (p <? 0) eqn:E; intros [= <- <-]; [auto|].
  destruct W as (H1 & H2 & H3 & H4 & H5). unfold rd_wf. cbn. repeat split; auto; lia.
Qed.

(* reading on and on returns consecutive ranges *)
Fixpoint chained (start : Z) (l : list (Z * Z)) : Prop :=
  match l with
  | [] => True
  | (a, c) :: rest => (0 < c -> a = start) /\ 0 <= c /\ chained (start + c) rest
  end.

Lemma read_all_chained psize total : forall bufs r,
  rd_wf psize total r -> rd_closed r = false -> Forall (fun n => 0 <= n) bufs ->
  chained (rd_offset r + rd_pos r) (fst (read_all psize total r bufs)) /\
  rd_pos (snd (read_all psize total r bufs)) =
    rd_pos r + fold_right (fun x acc => snd x + acc) 0 (fst (read_all psize total r bufs)).
Proof.
  induction bufs as [|n rest IH]; intros r W C F; cbn [read_all]; [cbn; split; [exact I|lia]|].
  inversion F as [|? ? Hn Frest]; subst.
  destruct (rd_read psize total r n) as [[[r' abs] cnt] err] eqn:R.
  destruct (read_spec psize total r n r' abs cnt err W Hn C R) as (W' & Ho & Hl & C' & Hp & Hc & Hin & _).
  destruct err.
  - specialize (IH r' W' C' Frest). destruct (read_all psize total r' rest) as [l r''].
    cbn [fst snd] in *. destruct IH as [IH1 IH2]. split.
    + cbn [chained]. split; [intros H; apply Hin in H; lia|]. split; [lia|].
      rewrite Ho, Hp in IH1. replace (rd_offset r + rd_pos r + cnt) with (rd_offset r + (rd_pos r + cnt)) by lia. exact IH1.
    + cbn [fold_right snd]. lia.
  - cbn [fst snd chained fold_right]. split; [|lia]. split; [intros H; apply Hin in H; lia|]. split; [lia|exact I].
  - cbn [fst snd chained fold_right]. split; [|lia]. split; [intros H; apply Hin in H; lia|]. split; [lia|exact I].
Qed.

(* ---------- reading n bytes: HTTP ranges and FUSE reads ---------- *)
Definition rsum (l : list (Z * Z)) : Z := fold_right (fun x acc => snd x + acc) 0 l.
(* bytes of the reader's range left from its position, the range being cut at the torrent's end *)
Definition left (total : Z) (r : rdr) : Z := Z.max 0 (Z.min (rd_length r) (total - rd_offset r) - rd_pos r).

Lemma read_n_S f cap psize total r n :
  read_n (S f) cap psize total r n =
  (if n <=? 0 then ([], r) else
    let '(r', abs, cnt, err) := rd_read psize total r (Z.min cap n) in
    match err with
    | RNone => if cnt =? 0 then ([], r')
               else let (l, r'') := read_n f cap psize total r' (n - cnt) in ((abs, cnt) :: l, r'')
    | _ => ([(abs, cnt)], r')
    end).
Proof. reflexivity. Qed.

Definition read_n_post (total : Z) (r : rdr) (n : Z) (res : list (Z * Z) * rdr) : Prop :=
  chained (rd_offset r + rd_pos r) (fst res) /\
  rsum (fst res) = Z.min n (left total r) /\
  rd_pos (snd res) = rd_pos r + Z.min n (left total r) /\
  rd_offset (snd res) = rd_offset r /\
  rd_length (snd res) = rd_length r.

Lemma read_n_post_nil total r n : 0 <= n -> (n <= 0 \/ left total r = 0) -> read_n_post total r n ([], r).
Proof. unfold read_n_post, left. cbn [fst snd chained rsum fold_right]. lia. Qed.

Lemma read_n_post_last total r n r' abs cnt :
  0 <= n -> 0 <= cnt <= n -> (0 < cnt -> abs = rd_offset r + rd_pos r) ->
  rd_pos r' = rd_pos r + cnt -> rd_offset r' = rd_offset r -> rd_length r' = rd_length r ->
  cnt = Z.min n (left total r) ->
  read_n_post total r n ([(abs, cnt)], r').
Proof. unfold read_n_post, left. cbn [fst snd chained rsum fold_right]. lia. Qed.

Lemma read_n_post_cons total r n r' abs cnt l r'' :
  0 < cnt <= n -> abs = rd_offset r + rd_pos r ->
  rd_pos r' = rd_pos r + cnt -> rd_offset r' = rd_offset r -> rd_length r' = rd_length r ->
  cnt <= left total r ->
  read_n_post total r' (n - cnt) (l, r'') ->
  read_n_post total r n ((abs, cnt) :: l, r'').
Proof.
  unfold read_n_post, left. cbn [fst snd chained rsum fold_right]. fold (rsum l).
  intros Hc Ha Hp Ho Hl Hle (I1 & I2 & I3 & I4 & I5). rewrite Ho, Hp in I1. rewrite Hl, Ho, Hp in I2, I3.
  replace (rd_offset r + rd_pos r + cnt) with (rd_offset r + (rd_pos r + cnt)) by lia.
  repeat split; try lia. exact I1.
Qed.

Lemma read_n_spec cap psize total : 0 < cap -> forall fuel r n,
  rd_wf psize total r -> rd_closed r = false -> 0 <= n -> (Z.to_nat n <= fuel)%nat ->
  read_n_post total r n (read_n fuel cap psize total r n).
Proof.
  intros Hcap. induction fuel as [|f IH]; intros r n Hwf Hc Hn Hf.
  - apply read_n_post_nil; lia.
  - rewrite read_n_S. destruct (n <=? 0) eqn:En.
    { apply read_n_post_nil; lia. }
    destruct (rd_read psize total r (Z.min cap n)) as [[[r' abs] cnt] err] eqn:E.
    assert (Hb : 0 <= Z.min cap n) by lia.
    destruct (read_spec _ _ _ _ _ _ _ _ Hwf Hb Hc E) as (Hwf' & Ho & Hl & Hc' & Hp & Hcnt & Hin0 & Hpos & Heof & Hncl).
    assert (Hin : 0 < cnt -> abs = rd_offset r + rd_pos r /\ rd_pos r + cnt <= rd_length r /\ abs + cnt <= total).
    { intros H. destruct (Hin0 H) as (H1 & H2 & H3 & _). auto. }
    clear Hin0.   (* the same-piece fact divides by a variable: keep it away from lia *)
    destruct err.
    + assert (Hne : ~ (rd_pos r' >= rd_length r \/ total <= rd_offset r + rd_pos r)).
      { intros H. apply Heof in H. discriminate. }
      assert (Hcp : 0 < cnt) by (apply Hpos; lia).
      destruct (Hin Hcp) as (Ha & Hle & Ht).
      replace (cnt =? 0) with false by lia.
      assert (Hf' : (Z.to_nat (n - cnt) <= f)%nat) by lia.
      assert (Hn' : 0 <= n - cnt) by lia.
      specialize (IH r' (n - cnt) Hwf' Hc' Hn' Hf').
      destruct (read_n f cap psize total r' (n - cnt)) as [l r''].
      apply (read_n_post_cons total r n r' abs cnt l r''); try assumption; try lia. unfold left; lia.
    + assert (He : rd_pos r' >= rd_length r \/ total <= rd_offset r + rd_pos r) by (apply Heof; reflexivity).
      apply read_n_post_last; try assumption; try lia. unfold left. lia.
    + exfalso. apply Hncl. reflexivity.
Qed.

Lemma read_n_explicit cap psize total fuel r n :
  0 < cap -> rd_wf psize total r -> rd_closed r = false -> 0 <= n -> (Z.to_nat n <= fuel)%nat ->
  chained (rd_offset r + rd_pos r) (fst (read_n fuel cap psize total r n)) /\
  rsum (fst (read_n fuel cap psize total r n)) = Z.min n (left total r) /\
  rd_pos (snd (read_n fuel cap psize total r n)) = rd_pos r + Z.min n (left total r) /\
  rd_offset (snd (read_n fuel cap psize total r n)) = rd_offset r /\
  rd_length (snd (read_n fuel cap psize total r n)) = rd_length r.
Proof. intros Hcap Hwf Hc Hn Hf. exact (read_n_spec cap psize total Hcap fuel r n Hwf Hc Hn Hf). Qed.

(* the bytes ServeContent is to send for a Range header lie inside the file *)
Lemma http_range_inside flen s st a cnt :
  0 <= flen -> rspec_ok s = true -> http_range flen s = (st, a, cnt) -> st <> 416 ->
  0 <= a /\ 0 <= cnt /\ a + cnt <= flen /\ (st = 200 -> a = 0 /\ cnt = flen).
Proof.
  intros Hf Hs H Hst. destruct s as [|x y|x|k]; cbn [http_range rspec_ok] in *.
  - injection H as <- <- <-. lia.
  - destruct (flen <=? x) eqn:E; [destruct (flen =? 0) eqn:E0|]; injection H as <- <- <-; lia.
  - destruct (flen <=? x) eqn:E; [destruct (flen =? 0) eqn:E0|]; injection H as <- <- <-; lia.
  - injection H as <- <- <-. lia.
Qed.

(* HTTP: for a file inside the torrent, after the Seek to the first byte of the range, copying the
   range's length returns consecutive ranges of the torrent that start at the file's offset + first
   byte and add up to exactly the length *)
Lemma http_range_served psize total off flen s st a cnt fuel :
  0 < psize -> 0 < total -> 0 <= off -> 0 <= flen -> off + flen <= total ->
  rspec_ok s = true -> http_range flen s = (st, a, cnt) -> st <> 416 -> (Z.to_nat cnt <= fuel)%nat ->
  let r := fst (rd_seek (rd_new off flen) a SeekStart) in
  let l := fst (read_n fuel 32768 psize total r cnt) in
  chained (off + a) l /\ rsum l = cnt /\ off <= off + a /\ off + a + cnt <= off + flen.
Proof.
  intros Hps Ht Ho Hfl Hin Hs H Hst Hfu r0 l0. subst r0 l0.
  destruct (http_range_inside _ _ _ _ _ Hfl Hs H Hst) as (Ha & Hc & Hac & _).
  unfold rd_seek, rd_new. cbn [rd_closed rd_pos rd_length rd_offset].
  replace (a <? 0) with false by lia. cbn [fst].
  set (r := {| rd_offset := off; rd_length := flen; rd_pos := a; rd_closed := false |}).
  assert (Hwf : rd_wf psize total r) by (unfold rd_wf, r; cbn; lia).
  assert (H32 : 0 < 32768) by lia.
  destruct (read_n_spec 32768 psize total H32 fuel r cnt Hwf eq_refl Hc Hfu) as (C & S & _).
  unfold left, r in *. cbn [rd_offset rd_pos rd_length] in *.
  repeat split; try lia. exact C.
Qed.

(* FUSE: Seek(o) then ReadFull of n bytes returns consecutive ranges from the file's offset + o adding
   up to min(n, bytes of the file left from o) *)
Lemma fuse_read_served psize total off flen o n fuel :
  0 < psize -> 0 < total -> 0 <= off -> 0 <= flen -> off + flen <= total ->
  0 <= o -> 0 < n -> (Z.to_nat n <= fuel)%nat ->
  let r := fst (rd_seek (rd_new off flen) o SeekStart) in
  let l := fst (read_n fuel n psize total r n) in
  chained (off + o) l /\ rsum l = fuse_read flen o n /\ (0 < rsum l -> off + o + rsum l <= off + flen).
Proof.
  intros Hps Ht Ho Hfl Hin Hoo Hn Hfu r0 l0. subst r0 l0.
  unfold rd_seek, rd_new. cbn [rd_closed rd_pos rd_length rd_offset].
  replace (o <? 0) with false by lia. cbn [fst].
  set (r := {| rd_offset := off; rd_length := flen; rd_pos := o; rd_closed := false |}).
  assert (Hwf : rd_wf psize total r) by (unfold rd_wf, r; cbn; lia).
  assert (Hn0 : 0 <= n) by lia.
  destruct (read_n_spec n psize total Hn fuel r n Hwf eq_refl Hn0 Hfu) as (C & S & _).
  unfold left, r, fuse_read in *. cbn [rd_offset rd_pos rd_length] in *.
  repeat split; try lia. exact C.
Qed.

(* ---------- any number of FUSE reads on one handle, in any order ---------- *)
Lemma rd_read_closed psize total r n :
  rd_closed r = false -> rd_closed (fst (fst (fst (rd_read psize total r n)))) = false.
Proof.
  intros Hc. unfold rd_read. rewrite Hc.
  destruct (rd_length r <=? rd_pos r); [exact Hc|].
  destruct (total <=? rd_offset r + rd_pos r); [exact Hc|]. reflexivity.
Qed.

Lemma read_n_closed cap psize total : forall fuel r n,
  rd_closed r = false -> rd_closed (snd (read_n fuel cap psize total r n)) = false.
Proof.
  induction fuel as [|f IH]; intros r n Hc; [exact Hc|].
  rewrite read_n_S. destruct (n <=? 0); [exact Hc|].
  pose proof (rd_read_closed psize total r (Z.min cap n) Hc) as H.
  destruct (rd_read psize total r (Z.min cap n)) as [[[r' abs] cnt] err]. cbn [fst] in H.
  destruct err; [|exact H|exact H].
  destruct (cnt =? 0); [exact H|].
  specialize (IH r' (n - cnt) H). destruct (read_n f cap psize total r' (n - cnt)) as [l r'']. exact IH.
Qed.

Lemma fuse_op_spec psize total r o n :
  rd_wf psize total r -> rd_closed r = false -> rd_offset r + rd_length r <= total -> 0 <= o -> 0 < n ->
  let res := fuse_op psize total r (o, n) in
  chained (rd_offset r + o) (fst res) /\ rsum (fst res) = fuse_read (rd_length r) o n /\
  rd_wf psize total (snd res) /\ rd_closed (snd res) = false /\
  rd_offset (snd res) = rd_offset r /\ rd_length (snd res) = rd_length r.
Proof.
  intros Hwf Hc Hin Ho Hn res. subst res. unfold fuse_op. cbn [fst snd].
  unfold rd_seek. rewrite Hc. replace (o <? 0) with false by lia. cbn [fst].
  set (r1 := {| rd_offset := rd_offset r; rd_length := rd_length r; rd_pos := o; rd_closed := false |}).
  destruct Hwf as (W1 & W2 & W3 & W4 & W5).
  assert (Hwf1 : rd_wf psize total r1) by (unfold rd_wf, r1; cbn; lia).
  assert (Hn0 : 0 <= n) by lia.
  destruct (read_n_spec n psize total Hn (Z.to_nat n) r1 n Hwf1 eq_refl Hn0 (le_n _)) as (C & S & P & O & L).
  pose proof (read_n_closed n psize total (Z.to_nat n) r1 n eq_refl) as Hcl.
  unfold left, r1, fuse_read in *. cbn [rd_offset rd_pos rd_length] in *.
  repeat split; try assumption; try lia.
Qed.

(* every read of any sequence returns its own bytes, whatever the reads before it did to the reader *)
Lemma fuse_ops_spec psize total : forall ops r,
  rd_wf psize total r -> rd_closed r = false -> rd_offset r + rd_length r <= total ->
  Forall (fun op => 0 <= fst op /\ 0 < snd op) ops ->
  Forall2 (fun op l => chained (rd_offset r + fst op) l /\ rsum l = fuse_read (rd_length r) (fst op) (snd op))
          ops (fuse_ops psize total r ops).
Proof.
  induction ops as [|[o n] rest IH]; intros r Hwf Hc Hin Hops; cbn [fuse_ops]; [constructor|].
  inversion Hops as [|? ? [Ho Hn] Hrest]; subst. cbn [fst snd] in Ho, Hn.
  destruct (fuse_op_spec psize total r o n Hwf Hc Hin Ho Hn) as (C & S & Hwf' & Hc' & Hoff & Hlen).
  destruct (fuse_op psize total r (o, n)) as [l r'] eqn:E. cbn [fst snd] in *.
  constructor; [split; assumption|].
  specialize (IH r' Hwf' Hc'). rewrite Hoff, Hlen in IH. apply IH; [exact Hin | exact Hrest].
Qed.

(* HTTP, from whatever state ServeContent's own probing (Seek to the end for the size, sniffing the first 512
   bytes for the content type, Seek back) has left the reader in *)
Lemma http_range_any psize total r s st a cnt fuel :
  rd_wf psize total r -> rd_closed r = false -> rd_offset r + rd_length r <= total ->
  rspec_ok s = true -> http_range (rd_length r) s = (st, a, cnt) -> st <> 416 -> (Z.to_nat cnt <= fuel)%nat ->
  let l := fst (read_n fuel 32768 psize total (fst (rd_seek r a SeekStart)) cnt) in
  chained (rd_offset r + a) l /\ rsum l = cnt /\ 0 <= a /\ a + cnt <= rd_length r.
Proof.
  intros Hwf Hc Hin Hs H Hst Hfu l0. subst l0.
  destruct Hwf as (W1 & W2 & W3 & W4 & W5).
  destruct (http_range_inside _ _ _ _ _ W4 Hs H Hst) as (Ha & Hcn & Hac & _).
  unfold rd_seek. rewrite Hc. replace (a <? 0) with false by lia. cbn [fst].
  set (r1 := {| rd_offset := rd_offset r; rd_length := rd_length r; rd_pos := a; rd_closed := false |}).
  assert (Hwf1 : rd_wf psize total r1) by (unfold rd_wf, r1; cbn; lia).
  assert (H32 : 0 < 32768) by lia.
  destruct (read_n_spec 32768 psize total H32 fuel r1 cnt Hwf1 eq_refl Hcn Hfu) as (C & S & _).
  unfold left, r1 in *. cbn [rd_offset rd_pos rd_length] in *.
  repeat split; try lia. exact C.
Qed.

Example http_range_example :
  fst (read_n 100 32768 16384 100000 (fst (rd_seek (rd_new 5000 60000) 100 SeekStart)) 40000)
  = [(5100, 11284); (16384, 16384); (32768, 12332)].
Proof. vm_compute. reflexivity. Qed.
