(* Proof/Reader.v — a Reader is an exact view of its byte range. *)
From Storrent Require Import Base.Bytes Model.Reader.
Open Scope Z_scope.


Definition rd_wf (psize total : Z) (r : rdr) : Prop :=
  0 < psize /\ 0 < total /\ 0 <= rd_offset r /\ 0 <= rd_length r /\ 0 <= rd_pos r.

Lemma read_spec psize total r n r' abs cnt err :
  rd_wf psize total r -> 0 <= n -> rd_closed r = false ->
  rd_read psize total r n = (r', abs, cnt, err) ->
  rd_wf psize total r' /\ rd_offset r' = rd_offset r /\ rd_length r' = rd_length r /\ rd_closed r' = false /\
  rd_pos r' = rd_pos r + cnt /\
  0 <= cnt <= n /\
  (* only bytes of the range, at the offset they occupy in the torrent *)
  (0 < cnt -> abs = rd_offset r + rd_pos r /\ rd_pos r + cnt <= rd_length r /\ abs + cnt <= total /\
              abs / psize = (abs + cnt - 1) / psize) /\
  (* progress *)
  (0 < n -> rd_pos r < rd_length r -> rd_offset r + rd_pos r < total -> 0 < cnt) /\
  (* end of file exactly at the end of the range (or of the torrent, if the range overruns it) *)
  (err = REOF <-> rd_pos r' >= rd_length r \/ total <= rd_offset r + rd_pos r) /\
  err <> RClosed.
Proof.
  intros (Hp & Ht & Ho & Hl & Hpos) Hn Hc. unfold rd_read, piece_len. rewrite Hc.
  destruct (rd_length r <=? rd_pos r) eqn:E1.
  { intros [= <- <- <- <-]. unfold rd_wf. repeat split; try lia; try discriminate; auto. }
  destruct (total <=? rd_offset r + rd_pos r) eqn:E2.
  { intros [= <- <- <- <-]. unfold rd_wf. repeat split; try lia; try discriminate; auto. }
  set (abs0 := rd_offset r + rd_pos r).
  assert (Ha0 : 0 <= abs0 < total) by (subst abs0; lia).
  pose proof (Z.div_mod abs0 psize ltac:(lia)) as DM.
  pose proof (Z.mod_pos_bound abs0 psize Hp) as MB.
  set (q := abs0 / psize) in *. set (m := abs0 mod psize) in *.
  rewrite (Z.mul_comm psize q) in DM.
  set (want := if rd_pos r + n <? rd_length r then n else rd_length r - rd_pos r).
  set (c := Z.min want (Z.min psize (total - q * psize) - m)).
  assert (Hw : 0 <= want <= n /\ want <= rd_length r - rd_pos r /\ (0 < n -> 0 < want)).
  { subst want. destruct (rd_pos r + n <? rd_length r) eqn:E3; lia. }
  assert (Hroom : 0 < Z.min psize (total - q * psize) - m) by lia.
  assert (Hc1 : 0 <= c <= want /\ (0 < want -> 0 < c) /\ abs0 + c <= total /\
                (0 < c -> q = (abs0 + c - 1) / psize)).
  { subst c. split; [lia|]. split; [lia|]. split; [lia|].
    intros Hc0. apply Z.div_unique with (r := m + Z.min want (Z.min psize (total - q * psize) - m) - 1); lia. }
  intros [= <- <- <- <-]. cbn [rd_offset rd_length rd_pos rd_closed].
  destruct Hc1 as (C1 & C2 & C3 & C4).
  split; [unfold rd_wf; cbn [rd_offset rd_length rd_pos]; lia|].
  split; [reflexivity|]. split; [reflexivity|]. split; [reflexivity|]. split; [reflexivity|].
  split; [lia|].
  split; [intros Hc0; split; [reflexivity|]; split; [lia|]; split; [lia|now apply C4]|].
  split; [intros; apply C2; lia|].
  split; [|destruct (c =? rd_length r - rd_pos r); discriminate].
  destruct (c =? rd_length r - rd_pos r) eqn:E3; split; intros H; try reflexivity; try discriminate.
  - left. lia.
  - exfalso. destruct H as [H|H]; lia.
Qed.

Lemma seek_spec psize total r o w r' res :
  rd_wf psize total r -> rd_seek r o w = (r', res) ->
  rd_wf psize total r' /\ rd_offset r' = rd_offset r /\ rd_length r' = rd_length r /\
  match res with
  | Some p => rd_closed r = false /\ rd_pos r' = p /\ 0 <= p /\
              p = match w with SeekStart => o | SeekCurrent => rd_pos r + o | SeekEnd => rd_length r + o end
  | None => r' = r
  end.
Proof.
  intros W. unfold rd_seek. destruct (rd_closed r) eqn:C; [intros [= <- <-]; auto|].
  set (p := match w with SeekStart => o | SeekCurrent => rd_pos r + o | SeekEnd => rd_length r + o end).
  destruct (p <? 0) eqn:E; intros [= <- <-]; [auto|].
  destruct W as (H1 & H2 & H3 & H4 & H5). unfold rd_wf. cbn. repeat split; auto; lia.
Qed.

(* reading on and on returns consecutive ranges *)
Fixpoint chained (start : Z) (l : list (Z * Z)) : Prop :=
  match l with
  | [] => True
  | (a, c) :: rest => (0 < c -> a = start) /\ 0 <= c /\ chained (start + c) rest
  end.

Lemma read_all_chained psize total : forall bufs r,
  rd_wf psize total r -> rd_closed r = false -> Forall (fun n => 0 <= n) bufs ->
  chained (rd_offset r + rd_pos r) (fst (read_all psize total r bufs)) /\
  rd_pos (snd (read_all psize total r bufs)) =
    rd_pos r + fold_right (fun x acc => snd x + acc) 0 (fst (read_all psize total r bufs)).
Proof.
  induction bufs as [|n rest IH]; intros r W C F; cbn [read_all]; [cbn; split; [exact I|lia]|].
  inversion F as [|? ? Hn Frest]; subst.
  destruct (rd_read psize total r n) as [[[r' abs] cnt] err] eqn:R.
  destruct (read_spec psize total r n r' abs cnt err W Hn C R) as (W' & Ho & Hl & C' & Hp & Hc & Hin & _).
  destruct err.
  - specialize (IH r' W' C' Frest). destruct (read_all psize total r' rest) as [l r''].
    cbn [fst snd] in *. destruct IH as [IH1 IH2]. split.
    + cbn [chained]. split; [intros H; apply Hin in H; lia|]. split; [lia|].
      rewrite Ho, Hp in IH1. replace (rd_offset r + rd_pos r + cnt) with (rd_offset r + (rd_pos r + cnt)) by lia. exact IH1.
    + cbn [fold_right snd]. lia.
  - cbn [fst snd chained fold_right]. split; [|lia]. split; [intros H; apply Hin in H; lia|]. split; [lia|exact I].
  - cbn [fst snd chained fold_right]. split; [|lia]. split; [intros H; apply Hin in H; lia|]. split; [lia|exact I].
Qed.
