(* Proof/Sched.v — the in-flight counter of every block equals the number of requests for it that
   are held by running peers, waiting in their command queues, or being released by events still
   in the torrent's queue; over every history of the system of Model/Sched.v. *)
From Coq Require Import ZifyBool ZifyN ZifyNat.
From Storrent Require Import Base.Bytes Base.Bencode Gen.Consts Model.Wire Model.PeerCore Model.Sched Proof.PeerCore Proof.Conserve.
Open Scope N_scope.

Section Sys.
Variable g : geo.
Hypothesis Hcpp : 0 < cpp g.
Hypothesis Hps : psize g = cpp g * ChunkSize.
Hypothesis H32 : num_pieces g * cpp g <= 4294967296.

Definition Inv (y : sys) : Prop :=
  (forall c, y_inflight y c = (total_held y c + total_cmds y c + releases (y_evq y) c)%nat) /\
  (forall p, In p (y_peers y) -> s_geo (sp_state p) = Some g).

(* ---------- sums over a list with one element replaced ---------- *)

Lemma list_sum_cons x l : list_sum (x :: l) = (x + list_sum l)%nat.
Proof. reflexivity. Qed.

Lemma upd_sum {A} (f : A -> nat) : forall l i p p',
  nth_error l i = Some p -> (list_sum (map f (upd l i p')) + f p = list_sum (map f l) + f p')%nat.
Proof.
  induction l as [|x l IH]; intros [|i] p p' H; cbn [nth_error] in H; try discriminate.
  - injection H as ->. unfold upd. cbn [firstn skipn app map]. rewrite !list_sum_cons. lia.
  - specialize (IH i p p' H). unfold upd in *. cbn [firstn skipn app map]. rewrite !list_sum_cons.
    cbn [skipn] in IH. lia.
Qed.

Lemma in_firstn {A} : forall n (l : list A) x, In x (firstn n l) -> In x l.
Proof. induction n as [|n IH]; intros [|y l] x H; cbn [firstn] in H; try contradiction. destruct H as [->|H]; [now left|right; now apply IH]. Qed.
Lemma in_skipn {A} : forall n (l : list A) x, In x (skipn n l) -> In x l.
Proof. induction n as [|n IH]; intros [|y l] x H; cbn [skipn] in H; try contradiction; try exact H. right. now apply IH. Qed.

Lemma upd_in {A} : forall (l : list A) i p x, In x (upd l i p) -> x = p \/ In x l.
Proof.
  intros l i p x H. unfold upd in H. apply in_app_or in H as [H|[H|H]].
  - right. eapply in_firstn; exact H.
  - now left.
  - right. eapply in_skipn; exact H.
Qed.

Lemma releases_app q1 q2 c : releases (q1 ++ q2) c = (releases q1 c + releases q2 c)%nat.
Proof. unfold releases. rewrite map_app, list_sum_app. reflexivity. Qed.

Lemma releases_blocks l c : releases (map SRelease l) c = occ l c.
Proof.
  unfold releases, occ. induction l as [|x l IH]; [reflexivity|].
  cbn [map count_occ]. rewrite list_sum_cons, IH. cbn [rel1]. destruct (N.eq_dec x c); lia.
Qed.

Lemma occ_app l1 l2 c : occ (l1 ++ l2) c = (occ l1 c + occ l2 c)%nat.
Proof. apply count_occ_app. Qed.

(* the conservation theorems of Proof/Conserve.v in the vocabulary of the system *)
Lemma peer_step_conserves s ballast o k c :
  s_geo s = Some g -> op_legitb g o = true ->
  let a := fst (step s ballast o k) in
  ((occ (rq_queue (s_reqs (a_st a))) c + occ (map fst (rq_requested (s_reqs (a_st a)))) c) +
   occ (flat_map (ev_blocks g) (a_evs a)) c =
   (occ (rq_queue (s_reqs s)) c + occ (map fst (rq_requested (s_reqs s))) c) + op_cmd o c)%nat /\
  s_geo (a_st a) = Some g.
Proof.
  intros Hg L a.
  assert (L' : op_legit g o).
  { destruct o as [m ad| | | | |]; cbn; auto. destruct m; cbn; auto. destruct ad; cbn in *; auto. lia. }
  exact (step_conserves g Hcpp Hps H32 s ballast o k c Hg L').
Qed.

Theorem step_inv y o : Inv y -> Inv (sys_step g y o).
Proof.
  intros [I G]. destruct o as [cf ce my|i chunks|i ballast k|i ballast o k|i|]; cbn [sys_step].
  - (* join *)
    split.
    + intros c. cbn [y_inflight y_peers y_evq]. rewrite I. unfold total_held, total_cmds. cbn [y_peers].
      rewrite !map_app, !list_sum_app. cbn. lia.
    + intros p Hin. cbn [y_peers] in Hin. apply in_app_or in Hin as [Hin|[<-|[]]]; [now apply G|reflexivity].
  - (* command *)
    destruct (nth_error (y_peers y) i) as [p|] eqn:E; [|now split].
    destruct (sp_listed p); [|now split]. split.
    + intros c. cbn [y_inflight y_peers y_evq]. rewrite I. unfold total_held, total_cmds. cbn [y_peers].
      pose proof (upd_sum (fun p => held_by p c) _ i p (mkp (sp_state p) (sp_cmds p ++ [chunks]) (sp_alive p) true) E) as H1.
      pose proof (upd_sum (fun p => occ (concat (sp_cmds p)) c) _ i p (mkp (sp_state p) (sp_cmds p ++ [chunks]) (sp_alive p) true) E) as H2.
      cbn [mkp sp_cmds] in H2. rewrite concat_app, occ_app in H2. cbn [concat] in H2. rewrite app_nil_r in H2.
      unfold held_by in H1 at 2 4. cbn [mkp sp_alive sp_state] in H1. lia.
    + intros q Hin. cbn [y_peers] in Hin. apply upd_in in Hin as [->|Hin]; [|now apply G].
      cbn [mkp sp_state]. apply G. eapply nth_error_In; exact E.
  - (* the peer handles a command *)
    destruct (nth_error (y_peers y) i) as [p|] eqn:E; [|now split].
    destruct (sp_alive p) eqn:A; [|now split]. destruct (sp_cmds p) as [|chunks rest] eqn:C; [now split|].
    assert (Hg : s_geo (sp_state p) = Some g) by (apply G; eapply nth_error_In; exact E).
    split.
    + intros c. cbn [y_inflight y_peers y_evq].
      destruct (peer_step_conserves (sp_state p) ballast (OpEv (PeerRequest chunks)) k c Hg eq_refl) as [B _].
      cbn [op_cmd cmd] in B. fold (occ chunks c) in B.
      rewrite I, releases_app, releases_blocks. unfold total_held, total_cmds. cbn [y_peers].
      match goal with |- context [upd _ i ?p'] =>
        pose proof (upd_sum (fun p => held_by p c) _ i p p' E) as H1;
        pose proof (upd_sum (fun p => occ (concat (sp_cmds p)) c) _ i p p' E) as H2 end.
      cbn [mkp sp_cmds] in H2. rewrite C in H2. cbn [concat] in H2. rewrite occ_app in H2.
      unfold held_by in H1 at 2 4. cbn [mkp sp_alive sp_state] in H1. rewrite A in H1.
      unfold occ in *. unfold Conserve.cnt in *. lia.
    + intros q Hin. cbn [y_peers] in Hin. apply upd_in in Hin as [->|Hin]; [|now apply G].
      cbn [mkp sp_state]. apply (peer_step_conserves (sp_state p) ballast (OpEv (PeerRequest chunks)) k 0 Hg eq_refl).
  - (* any other step of a peer *)
    destruct (nth_error (y_peers y) i) as [p|] eqn:E; [|now split].
    destruct (sp_alive p && negb (is_request o) && op_legitb g o) eqn:Cnd; [|now split].
    apply andb_prop in Cnd as [Cnd L]. apply andb_prop in Cnd as [A NR]. apply negb_true_iff in NR.
    assert (Hg : s_geo (sp_state p) = Some g) by (apply G; eapply nth_error_In; exact E).
    split.
    + intros c. cbn [y_inflight y_peers y_evq].
      destruct (peer_step_conserves (sp_state p) ballast o k c Hg L) as [B _].
      assert (Z : op_cmd o c = 0%nat).
      { destruct o as [| e | | | |]; try reflexivity. destruct e; try reflexivity. discriminate NR. }
      rewrite Z in B.
      rewrite I, releases_app, releases_blocks. unfold total_held, total_cmds. cbn [y_peers].
      match goal with |- context [upd _ i ?p'] =>
        pose proof (upd_sum (fun p => held_by p c) _ i p p' E) as H1;
        pose proof (upd_sum (fun p => occ (concat (sp_cmds p)) c) _ i p p' E) as H2 end.
      cbn [mkp sp_cmds] in H2.
      unfold held_by in H1 at 2 4. cbn [mkp sp_alive sp_state] in H1. rewrite A in H1.
      unfold occ in *. lia.
    + intros q Hin. cbn [y_peers] in Hin. apply upd_in in Hin as [->|Hin]; [|now apply G].
      cbn [mkp sp_state]. apply (peer_step_conserves (sp_state p) ballast o k 0 Hg L).
  - (* exit *)
    destruct (nth_error (y_peers y) i) as [p|] eqn:E; [|now split].
    destruct (sp_alive p) eqn:A; [|now split].
    assert (Hg : s_geo (sp_state p) = Some g) by (apply G; eapply nth_error_In; exact E).
    split.
    + intros c. cbn [y_inflight y_peers y_evq].
      destruct (exit_releases g Hcpp Hps H32 (sp_state p) c Hg) as [R Z].
      rewrite I, !releases_app, releases_blocks. unfold total_held, total_cmds. cbn [y_peers].
      match goal with |- context [upd _ i ?p'] =>
        pose proof (upd_sum (fun p => held_by p c) _ i p p' E) as H1;
        pose proof (upd_sum (fun p => occ (concat (sp_cmds p)) c) _ i p p' E) as H2 end.
      cbn [mkp sp_cmds] in H2.
      unfold held_by in H1 at 2 4. cbn [mkp sp_alive sp_state] in H1. rewrite A in H1.
      change (releases [SGoaway i] c) with 0%nat.
      unfold Conserve.cev in R. change (Conserve.ev_chunks g) with (ev_blocks g) in R.
      unfold occ in *. unfold Conserve.held in *. unfold Conserve.cnt in *. lia.
    + intros q Hin. cbn [y_peers] in Hin. apply upd_in in Hin as [->|Hin]; [|now apply G].
      cbn [mkp sp_state]. destruct (clear_requests_bal g Hcpp Hps H32 (acc0 (sp_state p)) true 0 Hg) as (_ & G2 & _). exact G2.
  - (* the torrent handles an event *)
    destruct (y_evq y) as [|[c0|j] rest] eqn:Q; [split; [intros c; rewrite Q; apply I|exact G]| |].
    + split; [|exact G]. intros c. cbn [y_inflight y_peers y_evq]. unfold fupd.
      pose proof (I c) as Ic. pose proof (I c0) as Ic0.
      unfold releases in Ic, Ic0. cbn [map] in Ic, Ic0. rewrite list_sum_cons in Ic, Ic0. cbn [rel1] in Ic, Ic0.
      fold (releases rest c) in Ic. fold (releases rest c0) in Ic0.
      unfold total_held, total_cmds in *. cbn [y_peers].
      destruct (N.eq_dec c c0) as [->|Hne].
      * destruct (N.eq_dec c0 c0); [|congruence]. lia.
      * destruct (N.eq_dec c0 c); [congruence|]. lia.
    + destruct (nth_error (y_peers y) j) as [p|] eqn:E.
      * split.
        -- intros c. cbn [y_inflight y_peers y_evq]. pose proof (I c) as Ic.
           unfold releases in Ic. cbn [map] in Ic. rewrite list_sum_cons in Ic. cbn [rel1] in Ic. fold (releases rest c) in Ic.
           unfold total_held, total_cmds in *. cbn [y_peers].
           match goal with |- context [upd _ j ?p'] =>
             pose proof (upd_sum (fun p => held_by p c) _ j p p' E) as H1;
             pose proof (upd_sum (fun p => occ (concat (sp_cmds p)) c) _ j p p' E) as H2 end.
           cbn [mkp sp_cmds concat] in H2. unfold held_by in H1 at 2 4. cbn [mkp sp_alive sp_state] in H1.
           change (occ [] c) with 0%nat in H2. lia.
        -- intros q Hin. cbn [y_peers] in Hin. apply upd_in in Hin as [->|Hin]; [|now apply G].
           cbn [mkp sp_state]. apply G. eapply nth_error_In; exact E.
      * split; [|exact G]. intros c. cbn [y_inflight y_peers y_evq]. pose proof (I c) as Ic.
        unfold releases in Ic. cbn [map] in Ic. rewrite list_sum_cons in Ic. cbn [rel1] in Ic. fold (releases rest c) in Ic. exact Ic.
Qed.

Lemma init_inv : Inv sys_init.
Proof. split; [intros c; reflexivity|intros p []]. Qed.

Theorem run_inv ops : Inv (fold_left (sys_step g) ops sys_init).
Proof.
  assert (H : forall y, Inv y -> Inv (fold_left (sys_step g) ops y)).
  { induction ops as [|o r IH]; intros y Hy; cbn [fold_left]; [exact Hy|]. apply IH. now apply step_inv. }
  apply H, init_inv.
Qed.

Lemma sum_zero {A} (f : A -> nat) : forall l, (forall p, In p l -> f p = 0%nat) -> list_sum (map f l) = 0%nat.
Proof.
  induction l as [|x l IH]; intros H; [reflexivity|]. cbn [map]. rewrite list_sum_cons, (H x (or_introl eq_refl)), IH; [reflexivity|].
  intros p Hp. apply H. now right.
Qed.

(* The property: once the events in transit have been processed, the counter of every block is
   the number of requests for it outstanding at the running peers; zero when nobody is connected. *)
Theorem conserved_at_quiescence ops :
  let y := fold_left (sys_step g) ops sys_init in
  quiescent y -> forall c, y_inflight y c = total_held y c.
Proof.
  intros y [Q C] c. destruct (run_inv ops) as [I _]. fold y in I. rewrite I, Q.
  assert (Z : total_cmds y c = 0%nat).
  { unfold total_cmds. apply sum_zero. intros p Hp. now rewrite (C p Hp). }
  rewrite Z. change (releases [] c) with 0%nat. lia.
Qed.

Theorem zero_when_alone ops :
  let y := fold_left (sys_step g) ops sys_init in
  quiescent y -> (forall p, In p (y_peers y) -> sp_alive p = false) -> forall c, y_inflight y c = 0%nat.
Proof.
  intros y Q A c. pose proof (conserved_at_quiescence ops Q c) as H. fold y in H. rewrite H.
  unfold total_held. apply sum_zero. intros p Hp. unfold held_by. now rewrite (A p Hp).
Qed.

End Sys.

(* ---------- the torrent's handler releases exactly the block an event names ---------- *)

Lemma covered_single psize i b l :
  0 < l -> l <= ChunkSize -> covered psize i b l = [i * (psize / ChunkSize) + b / ChunkSize].
Proof.
  intros H0 H1. unfold covered.
  assert (E : (l + ChunkSize - 1) / ChunkSize = 1).
  { unfold ChunkSize in *. symmetry. apply N.div_unique with (r := l - 1); lia. }
  rewrite E. change (N.to_nat 1) with 1%nat. cbn [seq map]. f_equal. change (N.of_nat 0) with 0. lia.
Qed.

Lemma release_single psize f i b l :
  0 < l -> l <= ChunkSize -> b mod ChunkSize = 0 -> b + l <= psize ->
  release psize f i b l = note_inflight f (i * (psize / ChunkSize) + b / ChunkSize) false.
Proof.
  intros H0 H1 Hb Hp. unfold release. rewrite Hb. cbn [N.eqb negb].
  destruct (psize <? b + l) eqn:E; [lia|]. rewrite covered_single by assumption. reflexivity.
Qed.

