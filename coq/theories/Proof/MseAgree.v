(* Proof/MseAgree.v — two segmentations cannot be told apart; the two ends of a plain handshake agree. *)
From Coq Require Import ZifyBool ZifyN ZifyNat.
From Storrent Require Import Base.Bytes Base.Bencode Base.Crypto Model.Wire Model.Hs Model.Mse Proof.Crypto Proof.Hs.
Open Scope N_scope.

Lemma two_segmentations mexp (client crypto : bool) o infohash myid hashes phases tape orc1 orc2 :
  let p := if client then client_prog mexp crypto o infohash myid else server_prog mexp o hashes in
  p_amb (snd (spec_run p (p_init phases tape))) = false ->
  fst (op_run p (o_init phases orc1 tape)) = fst (op_run p (o_init phases orc2 tape)) /\
  (forall r, fst (op_run p (o_init phases orc1 tape)) = OK r ->
     o_delivered (snd (op_run p (o_init phases orc1 tape))) = o_delivered (snd (op_run p (o_init phases orc2 tape))) /\
     o_wr (snd (op_run p (o_init phases orc1 tape))) = o_wr (snd (op_run p (o_init phases orc2 tape)))).
Proof.
  intros p Hamb.
  destruct (run_indep p phases tape orc1 Hamb) as [E1 S1].
  destruct (run_indep p phases tape orc2 Hamb) as [E2 S2].
  split; [congruence|]. intros r Hr.
  assert (Hr2 : fst (op_run p (o_init phases orc2 tape)) = OK r) by congruence.
  rewrite Hr in S1. rewrite Hr2 in S2.
  cbn [same_end] in S1, S2. destruct S1 as [D1 W1], S2 as [D2 W2]. split; congruence.
Qed.

(* ---------- the plain handshake ---------- *)

Lemma ftake_app_exact n a b : len a = n -> ftake n (a ++ b) = a.
Proof. intros H. rewrite ftake_app_le by lia. unfold ftake, len in *. apply firstn_all2. lia. Qed.

Lemma fdrop_app_exact n a b : len a = n -> fdrop n (a ++ b) = b.
Proof.
  intros H. rewrite fdrop_app_le by lia. unfold fdrop, len in *.
  rewrite skipn_all2 by lia. reflexivity.
Qed.

Lemma len_header : len bt_header = 20. Proof. reflexivity. Qed.
Lemma len_reserved : len bt_reserved = 8. Proof. reflexivity. Qed.

Lemma len_handshake ih id : len ih = 20 -> len id = 20 -> len (bt_handshake ih id) = 68.
Proof. intros H1 H2. unfold bt_handshake. rewrite !len_app, len_header, len_reserved. lia. Qed.

Lemma find_hash_app ih sid others :
  find_hash ih others = None -> find_hash ih (others ++ [(ih, sid)]) = Some (ih, sid).
Proof.
  induction others as [|q l IH]; cbn [app find_hash fst].
  - intros _. assert (E : bytes_eqb ih ih = true) by now apply bytes_eqb_eq. now rewrite E.
  - destruct (bytes_eqb ih (fst q)); [discriminate|exact IH].
Qed.

Lemma bytes_eqb_refl a : bytes_eqb a a = true.
Proof. now apply bytes_eqb_eq. Qed.

Lemma plain_agreement mexp co so ih cid sid others payload_c payload_s tape_c tape_s :
  len ih = 20 -> len cid = 20 -> len sid = 20 ->
  forceCH co = false -> forceE co = false -> forceCH so = false -> forceE so = false ->
  find_hash ih others = None ->
  let hashes := others ++ [(ih, sid)] in
  let c := spec_run (client_prog mexp false co ih cid) (p_init [[]; bt_handshake ih sid ++ payload_s] tape_c) in
  let s := spec_run (server_prog mexp so hashes) (p_init [bt_handshake ih cid ++ payload_c] tape_s) in
  exists rc rs, fst c = OK rc /\ fst s = OK rs /\
    h_hash rc = ih /\ h_hash rs = ih /\ h_id rc = sid /\ h_id rs = cid /\
    h_enc rc = None /\ h_enc rs = None /\
    (h_dht rc && h_fast rc && h_ext rc && h_dht rs && h_fast rs && h_ext rs = true) /\
    concat (rev (p_wr (snd c))) = bt_handshake ih cid /\ concat (rev (p_wr (snd s))) = bt_handshake ih sid /\
    p_delivered (snd c) = payload_s /\ p_delivered (snd s) = payload_c /\
    p_amb (snd c) = false /\ p_amb (snd s) = false.
Proof.
  intros Hih Hcid Hsid Hc1 Hc2 Hs1 Hs2 Hothers hashes c s.
  (* the client *)
  assert (Hc : exists rc, c = (OK rc, {| p_pend := payload_s; p_future := []; p_dec := None; p_tape := tape_c;
                                          p_wr := [bt_handshake ih cid]; p_amb := false |}) /\
                          h_hash rc = ih /\ h_id rc = sid /\ h_enc rc = None /\ h_dht rc && h_fast rc && h_ext rc = true).
  { subst c. unfold client_prog. rewrite Hc1, Hc2. cbn [orb]. cbn [spec_run p_init hd tl p_future p_dec p_pend dxor dstate app p_tape p_wr p_amb].
    unfold client_tail. cbn [spec_run p_pend].
    assert (L : 68 <=? len (bt_handshake ih sid ++ payload_s) = true).
    { rewrite len_app, len_handshake by assumption. lia. }
    rewrite L. unfold set_pend. cbn [p_pend p_future p_dec p_tape p_wr p_amb].
    rewrite (ftake_app_exact 68) by now apply len_handshake.
    rewrite (fdrop_app_exact 68) by now apply len_handshake.
    set (b := bt_handshake ih sid).
    assert (B1 : ftake 20 b = bt_header) by (subst b; unfold bt_handshake; now rewrite ftake_app_exact).
    assert (B2 : fdrop 20 b = bt_reserved ++ ih ++ sid) by (subst b; unfold bt_handshake; now rewrite fdrop_app_exact).
    assert (B3 : fdrop 28 b = ih ++ sid).
    { subst b. unfold bt_handshake. rewrite app_assoc. rewrite fdrop_app_exact; [reflexivity|].
      rewrite len_app, len_header, len_reserved. reflexivity. }
    assert (B4 : fdrop 48 b = sid).
    { subst b. unfold bt_handshake. rewrite !app_assoc. rewrite fdrop_app_exact; [reflexivity|].
      rewrite !len_app, len_header, len_reserved. lia. }
    rewrite B1, B2, B3, B4, bytes_eqb_refl. cbn [negb].
    rewrite (ftake_app_exact 20 ih sid Hih), bytes_eqb_refl. cbn [negb spec_run].
    eexists. split; [reflexivity|]. cbn [h_hash h_id h_enc h_dht h_fast h_ext].
    rewrite (ftake_app_exact 8 bt_reserved) by reflexivity.
    repeat split; reflexivity. }
  (* the server *)
  assert (Hs : exists rs, s = (OK rs, {| p_pend := payload_c; p_future := []; p_dec := None; p_tape := tape_s;
                                          p_wr := [bt_handshake ih sid]; p_amb := false |}) /\
                          h_hash rs = ih /\ h_id rs = cid /\ h_enc rs = None /\ h_dht rs && h_fast rs && h_ext rs = true).
  { subst s. unfold server_prog. cbn [spec_run p_init hd tl p_pend].
    assert (L : 20 <=? len (bt_handshake ih cid ++ payload_c) = true).
    { rewrite len_app, len_handshake by assumption. lia. }
    rewrite L. unfold set_pend. cbn [p_pend p_future p_dec p_tape p_wr p_amb].
    assert (A1 : ftake 20 (bt_handshake ih cid ++ payload_c) = bt_header).
    { unfold bt_handshake. rewrite <- app_assoc. now rewrite ftake_app_exact. }
    assert (A2 : fdrop 20 (bt_handshake ih cid ++ payload_c) = (bt_reserved ++ ih) ++ cid ++ payload_c).
    { unfold bt_handshake. rewrite <- !app_assoc. now rewrite fdrop_app_exact. }
    rewrite A1, A2, bytes_eqb_refl, Hs1, Hs2. cbn [orb andb negb].
    unfold server_tail. cbn [spec_run p_pend].
    assert (L2 : 28 <=? len ((bt_reserved ++ ih) ++ cid ++ payload_c) = true).
    { rewrite !len_app, len_reserved. lia. }
    rewrite L2. unfold set_pend. cbn [p_pend p_future p_dec p_tape p_wr p_amb].
    rewrite (ftake_app_exact 28) by (rewrite len_app, len_reserved; lia).
    rewrite (fdrop_app_exact 28) by (rewrite len_app, len_reserved; lia).
    rewrite (fdrop_app_exact 8 bt_reserved ih) by reflexivity.
    subst hashes. rewrite (find_hash_app ih sid others Hothers).
    cbn [snd dxor dstate spec_run p_pend p_future p_dec p_tape p_wr p_amb hd tl app].
    rewrite app_nil_r.
    assert (L3 : 20 <=? len (cid ++ payload_c) = true) by (rewrite len_app; lia).
    rewrite L3. unfold set_pend. cbn [p_pend p_future p_dec p_tape p_wr p_amb spec_run].
    rewrite (ftake_app_exact 20 cid payload_c Hcid), (fdrop_app_exact 20 cid payload_c Hcid).
    eexists. split; [reflexivity|]. cbn [h_hash h_id h_enc h_dht h_fast h_ext].
    rewrite (ftake_app_exact 8 bt_reserved ih) by reflexivity.
    repeat split; reflexivity. }
  destruct Hc as (rc & Ec & C1 & C2 & C3 & C4). destruct Hs as (rs & Es & S1 & S2 & S3 & S4).
  exists rc, rs. rewrite Ec, Es. cbn [fst snd p_wr p_amb rev concat app].
  unfold p_delivered. cbn [p_pend p_dec p_future concat dxor]. rewrite !app_nil_r.
  repeat split; try assumption; try reflexivity.
  apply andb_prop in C4 as [C4 C6]. apply andb_prop in C4 as [C4 C5].
  apply andb_prop in S4 as [S4 S6]. apply andb_prop in S4 as [S4 S5].
  now rewrite C4, C5, C6, S4, S5, S6.
Qed.
