(* Proof/TopDepth.v — the depth rule of the torrent-file model is the limiter's: the top-level
   dictionary read by the raw-capturing reader is the value bdecode parses, so the nesting the model
   bounds (entries_depth) is exactly what protocol.LimitBencodeDepth refuses. *)
From Coq Require Import ZifyBool ZifyN ZifyNat.
From Storrent Require Import Base.Bytes Base.Bencode Gen.Consts Model.Wire Model.Torfile Model.DepthLimiter
  Proof.Bencode Proof.BencodeRT Proof.TorSlice Proof.BencodeLocal Proof.DepthLimiter.
Open Scope N_scope.

Definition kv_of (e : bytes * bval * bytes) : bytes * bval := (fst (fst e), snd (fst e)).

Lemma raw_entries_dict_loop : forall g r acc es rest, raw_entries g r acc = Some (es, rest) ->
  exists news, es = rev acc ++ news /\
    forall F G acc2 k0, (length r < F)%nat -> (g <= G)%nat ->
      exists k, dict_loop (bparse F) G r acc2 k0 = BOk (BDict (rev acc2 ++ map kv_of news)) rest k.
Proof.
  induction g as [|g IH]; intros r acc es rest; cbn [raw_entries]; [discriminate|].
  destruct r as [|x r']; [discriminate|]. destruct (x =? ch_e) eqn:Ex.
  - intros [= <- <-]. exists []. split; [now rewrite app_nil_r|]. intros F G acc2 k0 HF HG.
    destruct G as [|G]; [lia|]. cbn [dict_loop]. rewrite Ex. exists k0. now rewrite app_nil_r.
  - destruct (parse_bstr (x :: r')) as [key r1 k1|e k1] eqn:PS; [|discriminate].
    destruct (bparse (S (length r1)) r1) as [v r2 k2|e k2] eqn:P; [|discriminate].
    intros H. destruct (IH _ _ _ _ H) as (news & Ees & Hloop).
    exists ((key, v, firstn (length r1 - length r2) r1) :: news). split; [rewrite Ees; cbn [rev]; now rewrite <- app_assoc|].
    intros F G acc2 k0 HF HG. destruct G as [|G]; [lia|]. cbn [dict_loop]. rewrite Ex, PS.
    pose proof (parse_bstr_suffix _ _ _ _ PS) as Sf1. apply suffix_len in Sf1.
    pose proof (bparse_suffix _ _ _ _ _ P) as Sf2. apply suffix_len in Sf2.
    assert (H1 : (S (length r1) <= F)%nat) by (apply Nat.le_lt_trans with (m := length (x :: r')); [exact Sf1|exact HF]).
    assert (H2 : (length r2 < F)%nat) by (apply Nat.le_lt_trans with (m := length r1); [exact Sf2|exact H1]).
    rewrite (bparse_mono _ F _ _ _ _ H1 P).
    destruct (Hloop F G ((key, v) :: acc2) (k0 + k1 + k2) H2 ltac:(lia)) as [k Hk].
    exists k. rewrite Hk. cbn [rev map kv_of fst snd]. now rewrite <- app_assoc.
Qed.

Lemma top_entries_bdecode bs es : top_entries bs = Some es ->
  exists rest k, bdecode bs = BOk (BDict (map kv_of es)) rest k.
Proof.
  unfold top_entries. destruct bs as [|c r]; [discriminate|]. destruct (c =? ch_d) eqn:Ed; [|discriminate].
  destruct (raw_entries (S (length r)) r []) as [[es' rest]|] eqn:R; [|discriminate]. intros [= <-].
  destruct (raw_entries_dict_loop _ _ _ _ _ R) as (news & -> & Hloop). cbn [rev app].
  destruct (Hloop (S (length r)) (S (length r)) [] 0 ltac:(lia) ltac:(lia)) as [k Hk].
  exists rest, k. unfold bdecode. cbn [length bparse]. apply N.eqb_eq in Ed. subst c.
  change (ch_d =? ch_i) with false. change (is_digit ch_d) with false. change (ch_d =? ch_l) with false. rewrite N.eqb_refl. cbv iota.
  exact Hk.
Qed.

Lemma entries_depth_vdepth es : entries_depth es = vdepth (BDict (map kv_of es)).
Proof.
  unfold entries_depth. cbn [vdepth]. f_equal. induction es as [|e r IH]; [reflexivity|]. cbn [map fold_right kv_of snd]. now rewrite IH.
Qed.

(* a .torrent file whose top-level dictionary the reader can take apart is refused for its depth by
   the model exactly when the limiter in front of tor.ReadTorrent's decoder refuses it *)
Theorem torfile_depth_is_limiter bs es : top_entries bs = Some es ->
  lim_passes bs = negb (max_bencode_depth <? entries_depth es).
Proof.
  intros H. destruct (top_entries_bdecode _ _ H) as (rest & k & D). rewrite entries_depth_vdepth. exact (limiter_exact _ _ _ _ D).
Qed.
